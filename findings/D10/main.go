package main

import (
	"bytes"
	"fmt"
	"io"
	"os"
	"strings"
	"sync"
	"time"

	"github.com/paulsonkoly/chess-3/uci"
)

type sink struct {
	mu sync.Mutex
	b  bytes.Buffer
}

func (s *sink) Write(p []byte) (int, error) { s.mu.Lock(); defer s.mu.Unlock(); return s.b.Write(p) }
func (s *sink) String() string              { s.mu.Lock(); defer s.mu.Unlock(); return s.b.String() }

func main() {
	plies := 13103
	if len(os.Args) > 1 {
		fmt.Sscan(os.Args[1], &plies)
	}
	sh := []string{"g1f3", "g8f6", "f3g1", "f6g8"}
	var sb strings.Builder
	sb.WriteString("position startpos moves")
	for i := 0; i < plies; i++ {
		sb.WriteString(" " + sh[i%4])
	}
	line := sb.String()
	pr, pw := io.Pipe()
	out, errb := &sink{}, &sink{}
	d := uci.NewDriver(uci.WithInput(pr), uci.WithOutput(out), uci.WithError(errb))
	done := make(chan struct{})
	go func() { d.Run(); close(done) }()
	go fmt.Fprintf(pw, "%s\nisready\n", line)
	returned := false
	select {
	case <-done:
		returned = true
	case <-time.After(3 * time.Second):
	}
	fmt.Printf("line bytes=%d  Run returned while stdin open=%v  output=%q stderr=%q\n", len(line)+1, returned, out.String(), errb.String())
	if returned || !strings.Contains(out.String(), "readyok") {
		fmt.Println("FAIL: isready after a conforming command line was never answered")
		os.Exit(1)
	}
	fmt.Fprintln(pw, "quit")
	<-done
	fmt.Println("PASS")
}
