module d10

go 1.25.4

require github.com/paulsonkoly/chess-3 v0.0.0

require golang.org/x/exp v0.0.0-20250218142911-aa4b98e5adaa // indirect

replace github.com/paulsonkoly/chess-3 => /repo
