# Go environment that works offline in this sandbox for /repo (needs go 1.25.4 from the module cache).
export GOFLAGS=-mod=mod
export GOPROXY=off
unset GOSUMDB
unset GOTOOLCHAIN
