// Property-level harness for the search properties C06 (legal result, board untouched, reusable),
// C07 (reported variations legal, bestmove/ponder consistent, depths/nodes monotone) and
// C08 (reproducible: timing/scheduling independent, soft limit == hard budget, budget never exceeded).
//
// It runs the REAL search (/repo, -tags verif) — directly through search.Search.Go and through the
// in-process uci.Driver — and asserts the properties themselves; the rule-book legality oracle is
// the Lean FIDE spec served by drv_board (command `spec` / `speclegal`), looked up next to the
// -driver binary.  Every violation is a "failing-input" whose Ops are the root (as a UCI `position`
// command) plus the limits of the run.
//
//	search -suite c06|c07|c08 -tier quick|thorough -seed N -driver …/drv_search -out r.json
package main

import (
	"bufio"
	"bytes"
	"encoding/json"
	"flag"
	"fmt"
	"hash/fnv"
	"io"
	"os"
	"os/exec"
	"path/filepath"
	"regexp"
	"runtime"
	"sort"
	"strconv"
	"strings"
	"sync"
	"sync/atomic"
	"time"

	"github.com/paulsonkoly/chess-3/board"
	"github.com/paulsonkoly/chess-3/move"
	"github.com/paulsonkoly/chess-3/params"
	"github.com/paulsonkoly/chess-3/search"
	"github.com/paulsonkoly/chess-3/uci"

	. "github.com/paulsonkoly/chess-3/chess"

	"verifharness/common"
	"verifharness/implutil"
)

var suite = flag.String("suite", "c06", "c06|c07|c08|c06spsa (the last one from a binary built with -tags \"verif spsa\")")

// internal: run as a child process of the C08 cross-process experiment (session script on stdin,
// transcript on stdout)
var childSession = flag.Bool("child-session", false, "internal: child process of the c08 cross-process experiment")

// internal: run the real uci.Driver on stdin/stdout (engine process of the C07 UCI sessions: a panic
// of the driver's search goroutine must not take the harness down)
var childUCI = flag.Bool("child-uci", false, "internal: engine process of the c07 UCI sessions")

// ---------------------------------------------------------------------------------------------
// roots

// root is a root position given the way a GUI gives it: a FEN plus moves actually played (so that
// the hash history, the clocks and the repetition count are the ones the engine builds itself).
type root struct {
	name  string
	fen   string
	moves []string

	// filled by env.prepare
	key       string      // FEN of the root itself
	legal     []move.Move // implementation's playable moves, sorted
	spec      []move.Move // rule-book legal moves (Lean spec), sorted
	fifty     int
	three     int
	inCheck   bool
	final     bool
	checkmate bool
	drawn     bool // final because of the clock or the repetition
}

func (r *root) position() string {
	s := "position fen " + r.fen
	if len(r.moves) > 0 {
		s += " moves " + strings.Join(r.moves, " ")
	}
	return s
}

// build constructs a fresh board for the root (nil when a move of the script is not legal).
func (r *root) build() *board.Board {
	b, err := board.FromFEN(r.fen)
	if err != nil {
		return nil
	}
	for _, ms := range r.moves {
		m, ok := findMove(b, ms)
		if !ok {
			return nil
		}
		b.MakeMove(m)
	}
	return b
}

func findMove(b *board.Board, s string) (move.Move, bool) {
	for _, m := range implutil.Legal(b) {
		if m.String() == s {
			return m, true
		}
	}
	return 0, false
}

func contains(l []move.Move, m move.Move) bool {
	i := sort.Search(len(l), func(i int) bool { return l[i] >= m })
	return i < len(l) && l[i] == m
}

const startFEN = StartPosFEN

var knightDance = []string{"g1f3", "g8f6", "f3g1", "f6g8"}

func rep(n int) []string {
	var out []string
	for i := 0; i < n; i++ {
		out = append(out, knightDance...)
	}
	return out
}

// fixedRoots are the hand-made corner cases: in check, single reply, promotion, near-draw clocks,
// repetitions reached by playing, mate, stalemate, bare kings, mates in one (short variations).
func fixedRoots() []*root {
	return []*root{
		{name: "start", fen: startFEN},
		{name: "second-repetition", fen: startFEN, moves: rep(1)},
		{name: "kiwipete", fen: "r3k2r/p1ppqpb1/bn2pnp1/3PN3/1p2P3/2N2Q1p/PPPBBPPP/R3K2R w KQkq - 0 1"},
		{name: "in-check", fen: "rnbqkbnr/ppp2ppp/8/1B1pp3/4P3/8/PPPP1PPP/RNBQK1NR b KQkq - 1 3"},
		{name: "single-reply", fen: "k4r2/8/8/8/8/8/7P/r5K1 w - - 0 1"},
		{name: "promotion", fen: "4k3/P7/8/8/8/8/7p/4K3 w - - 0 1"},
		{name: "clock-99", fen: "4k3/8/8/8/8/8/8/4K2R w K - 99 80"},
		{name: "clock-100", fen: "4k3/8/8/8/8/8/8/4K2R w K - 100 80"},
		{name: "mate-in-1", fen: "6k1/5ppp/8/8/8/8/5PPP/R5K1 w - - 0 1"},
		{name: "checkmate", fen: "kbK5/pP6/p7/8/8/8/8/8 b - - 0 1"},
		{name: "stalemate", fen: "8/8/8/8/8/3q1k2/8/4K3 w - - 0 1"},
		{name: "bare-kings", fen: "k7/8/8/8/8/8/8/K7 w - - 0 1"},
		// ---- the first 12 are the quick-tier sweep roots; the rest joins in the other parts ----
		{name: "third-repetition", fen: startFEN, moves: rep(2)},
		{name: "clock-95", fen: "4k3/8/8/8/8/8/8/4K2R w K - 95 80"},
		{name: "clock-96", fen: "r3k3/8/8/8/8/8/8/4K2R b Kq - 96 80"},
		{name: "clock-97", fen: "4k3/8/8/8/8/8/8/4K2R w K - 97 80"},
		{name: "clock-98", fen: "4k3/7p/8/8/8/8/8/4K2R w K - 98 80"},
		{name: "clock-98-played-to-100", fen: "4k3/8/8/8/8/8/8/4K2R w K - 98 80", moves: []string{"h1h2", "e8d8"}},
		{name: "clock-100-checkmate", fen: "7k/5K2/8/8/8/8/8/6R1 w - - 99 90", moves: []string{"g1h1"}},
		{name: "clock-99-mate-available", fen: "7k/5K2/8/8/8/8/8/6R1 w - - 99 90"},
		{name: "second-repetition-kiwipete", fen: "r3k2r/p1ppqpb1/bn2pnp1/3PN3/1p2P3/2N2Q1p/PPPBBPPP/R3K2R w KQkq - 0 1",
			moves: []string{"e1d1", "e8d8", "d1e1", "d8e8", "e1d1", "e8d8", "d1e1", "d8e8"}},
		{name: "ep-available", fen: "4k3/8/8/8/3pP3/8/8/4K3 b - e3 0 1"},
		{name: "ep-pinned", fen: "4k3/8/8/K2pP2r/8/8/8/8 w - d6 0 2"},
		{name: "castling-both", fen: "r3k2r/8/8/8/8/8/8/R3K2R w KQkq - 0 1"},
		{name: "eight-queens", fen: "1QQQQQQ1/1QQ5/8/8/8/8/8/k6K w - - 0 1"},
		{name: "double-check", fen: "4k3/8/8/8/8/2n5/3r4/3K4 w - - 0 1", moves: nil},
		{name: "stalemate-trap", fen: "7k/5Q2/5K2/8/8/8/8/8 w - - 0 1"},
		{name: "mate-in-2", fen: "r1bqkb1r/pppp1ppp/2n2n2/4p2Q/2B1P3/8/PPPP1PPP/RNB1K1NR w KQkq - 4 4"},
		{name: "promo-under-check", fen: "3rk3/4P3/8/8/8/8/8/3K4 w - - 0 1"},
		{name: "zugzwang", fen: "8/8/p1p5/1p5p/1P5p/8/PPP2K1p/4R1rk w - - 0 1"},
	}
}

// ---------------------------------------------------------------------------------------------
// environment

type env struct {
	c     *common.Ctx
	r     *common.Result
	bm    *common.Model // drv_board: rule-book spec
	mu    sync.Mutex
	roots []*root

	// C07: length statistics of the reported variations (all runs of the suite)
	pvLongest, pv34, pv48 atomic.Int64
	pvLong                []pvSample // the lines of >= 34 moves, all checked against the Lean rule book
}

func (e *env) fail(m common.Mismatch) {
	e.mu.Lock()
	defer e.mu.Unlock()
	e.r.Fail(m)
}

// prepare fills the derived attributes of a root; false when the root is unusable (script illegal,
// or the Lean `valid` predicate rejects the position — the properties quantify over valid roots).
func (e *env) prepare(rt *root) bool {
	if len(rt.moves) > 0 {
		// the start position of the played history must itself be valid (the stream's constructive
		// sampler also emits positions the Lean `valid` rejects, e.g. a castling right without its rook)
		a0 := e.bm.Batch([]string{"fen " + rt.fen, "valid"})
		if !strings.HasPrefix(a0[0], "ok") || len(a0[1]) < 2 || a0[1][0] != '1' {
			return false
		}
	}
	b := rt.build()
	if b == nil || b.InvalidPieceCount() {
		return false
	}
	rt.key = b.FEN()
	ans := e.bm.Batch([]string{"fen " + rt.key, "valid", "spec"})
	if !strings.HasPrefix(ans[0], "ok") || len(ans[1]) < 2 || ans[1][0] != '1' {
		return false
	}
	rt.spec = nil
	if ans[2] != "" {
		for _, f := range strings.Split(ans[2], ",") {
			v, err := strconv.Atoi(f)
			if err != nil {
				panic("drv_board spec answer: " + ans[2])
			}
			rt.spec = append(rt.spec, move.Move(v))
		}
	}
	rt.legal = implutil.Legal(b)
	rt.fifty = int(b.FiftyCnt)
	rt.three = int(b.Threefold())
	rt.inCheck = b.InCheck(b.STM)
	rt.drawn = rt.fifty >= 100 || rt.three >= 3
	rt.final = len(rt.legal) == 0 || rt.drawn
	rt.checkmate = len(rt.legal) == 0 && rt.inCheck
	return true
}

// collectRoots prepares the fixed roots and n more from the shared generator stream.
func (e *env) collectRoots(n int) {
	for _, rt := range fixedRoots() {
		if !e.prepare(rt) {
			panic("fixed root rejected: " + rt.name + " " + rt.position())
		}
		e.roots = append(e.roots, rt)
	}
	st := implutil.NewStream(e.c)
	// skip the leading block of perft roots pseudo-randomly so that different seeds see different ones
	seen := map[string]bool{}
	for _, rt := range e.roots {
		seen[rt.key] = true
	}
	tries := 0
	for len(e.roots) < n && tries < 50*n {
		tries++
		fen, src := st.Next()
		if src == "root" && e.c.Rng.IntN(4) != 0 {
			continue
		}
		rt := &root{name: src, fen: fen}
		if !e.prepare(rt) {
			continue
		}
		// a third of the stream roots are extended by a short random play-out (history, clocks)
		if e.c.Rng.IntN(3) == 0 {
			if b, err := board.FromFEN(fen); err == nil {
				k := 1 + e.c.Rng.IntN(12)
				for i := 0; i < k; i++ {
					l := implutil.Legal(b)
					if len(l) == 0 || b.FiftyCnt >= 99 {
						break
					}
					m := l[e.c.Rng.IntN(len(l))]
					rt.moves = append(rt.moves, m.String())
					b.MakeMove(m)
				}
				rt.name = src + "+playout"
			}
		}
		if !e.prepare(rt) || seen[rt.key] {
			continue
		}
		seen[rt.key] = true
		e.roots = append(e.roots, rt)
	}
}

func (e *env) rootHistogram() {
	for _, rt := range e.roots {
		e.r.Count("roots", 1)
		switch {
		case rt.checkmate:
			e.r.Count("root:checkmate", 1)
		case len(rt.legal) == 0:
			e.r.Count("root:stalemate", 1)
		}
		if rt.fifty >= 100 {
			e.r.Count("root:clock>=100", 1)
		} else if rt.fifty >= 95 {
			e.r.Count("root:clock95-99", 1)
		}
		if rt.three >= 3 {
			e.r.Count("root:third-repetition", 1)
		} else if rt.three == 2 {
			e.r.Count("root:second-repetition", 1)
		}
		if rt.inCheck && !rt.checkmate {
			e.r.Count("root:in-check", 1)
		}
		if len(rt.legal) == 1 {
			e.r.Count("root:single-reply", 1)
		}
		if len(rt.moves) > 0 {
			e.r.Count("root:with-played-history", 1)
		}
	}
}

// ---------------------------------------------------------------------------------------------
// running one search

var ttSizes = []int{32000, 64 * 1024, 1024 * 1024}

type limits struct {
	depth    int   // always given, >= 1
	nodes    int   // hard budget, -1 = none
	soft     int   // soft node limit, 0 = none
	softTime int64 // 0 = none
	stop     int   // 0 = no stop channel, 1 = channel never closed, 2 = closed before the start, 3 = closed after `stopSpin` spins
	stopSpin int
	// option-space variants of search.Go (zero value = the caller's own Counters and an Output writer)
	noCnt bool // no WithCounters: the engine's default counters; the node count is read off the last info line
	noOut bool // WithOutput(nil): no info lines at all
}

func (l limits) String() string {
	s := fmt.Sprintf("go depth %d", l.depth)
	if l.nodes != -1 {
		s += fmt.Sprintf(" nodes %d", l.nodes)
	}
	if l.soft != 0 {
		s += fmt.Sprintf(" softnodes %d", l.soft)
	}
	if l.softTime != 0 {
		s += fmt.Sprintf(" softtime %d", l.softTime)
	}
	switch l.stop {
	case 1:
		s += " stop=open"
	case 2:
		s += " stop=closed-before-start"
	case 3:
		s += fmt.Sprintf(" stop=closed-after-%d-spins", l.stopSpin)
	}
	if l.noCnt {
		s += " counters=default"
	}
	if l.noOut {
		s += " output=nil"
	}
	return s
}

type outcome struct {
	score    Score
	mv, pm   move.Move
	nodes    int // -1: not reported (default counters and no parsable info line)
	out      string
	panicked string
}

var spinSink atomic.Uint64

// A search that does not return cannot be interrupted from outside (the requests without a stop
// channel are part of the option space): after hangAfter the harness reports it as a failing input,
// writes the result file and ends, instead of hanging until the check's timeout.
var (
	hangAfter = 240 * time.Second
	onHang    func(fen string, l limits)
)

// run performs one Go call on s with the limits, capturing the info lines; panics are caught.
func run(s *search.Search, b *board.Board, l limits, w io.Writer) (oc outcome) {
	var buf bytes.Buffer
	var out io.Writer = &buf
	if w != nil {
		out = io.MultiWriter(&buf, w)
	}
	cnt := search.Counters{}
	opts := []search.Option{search.WithDepth(Depth(l.depth))}
	if l.noOut {
		opts = append(opts, search.WithOutput(nil))
	} else {
		opts = append(opts, search.WithOutput(out))
	}
	if !l.noCnt {
		opts = append(opts, search.WithCounters(&cnt))
	}
	if l.nodes != -1 {
		opts = append(opts, search.WithNodes(l.nodes))
	}
	if l.soft != 0 {
		opts = append(opts, search.WithSoftNodes(l.soft))
	}
	if l.softTime != 0 {
		opts = append(opts, search.WithSoftTime(l.softTime))
	}
	var stopper sync.WaitGroup
	switch l.stop {
	case 1:
		opts = append(opts, search.WithStop(make(chan struct{})))
	case 2:
		ch := make(chan struct{})
		close(ch)
		opts = append(opts, search.WithStop(ch))
	case 3:
		ch := make(chan struct{})
		opts = append(opts, search.WithStop(ch))
		stopper.Add(1)
		go func() {
			defer stopper.Done()
			x := uint64(1)
			for i := 0; i < l.stopSpin; i++ {
				x = x*6364136223846793005 + 1442695040888963407
			}
			spinSink.Add(x)
			close(ch)
		}()
	}
	if onHang != nil {
		fen := b.FEN()
		wd := time.AfterFunc(hangAfter, func() { onHang(fen, l) })
		defer wd.Stop()
	}
	func() {
		defer func() {
			if p := recover(); p != nil {
				oc.panicked = fmt.Sprint(p)
			}
		}()
		oc.score, oc.mv, oc.pm = s.Go(b, opts...)
	}()
	stopper.Wait()
	oc.nodes = cnt.Nodes
	oc.out = buf.String()
	if l.noCnt {
		// default counters: the final count is the one of the last info line (the line of the last
		// completed iteration, or the abort notice)
		oc.nodes = -1
		if infos, err := parseInfos(oc.out); err == nil && len(infos) > 0 {
			oc.nodes = infos[len(infos)-1].nodes
		}
	}
	return
}

// ---------------------------------------------------------------------------------------------
// info lines

type info struct {
	depth  int
	nodes  int
	full   bool // has score … pv (a completed iteration); false: the abort notice `info depth D nodes N`
	score  string
	pv     []string
	canon  string // the line with the time field blanked
	hashfl int
}

var (
	reFull  = regexp.MustCompile(`^info depth (\d+) score (cp -?\d+|mate -?\d+|Inv) nodes (\d+) time (\d+) hashfull (\d+) pv ?(.*)$`)
	reAbort = regexp.MustCompile(`^info depth (\d+) nodes (\d+)$`)
)

func parseInfos(out string) ([]info, error) {
	var res []info
	sc := bufio.NewScanner(strings.NewReader(out))
	for sc.Scan() {
		line := sc.Text()
		if m := reFull.FindStringSubmatch(line); m != nil {
			d, _ := strconv.Atoi(m[1])
			n, _ := strconv.Atoi(m[3])
			h, _ := strconv.Atoi(m[5])
			var pv []string
			if strings.TrimSpace(m[6]) != "" {
				pv = strings.Fields(m[6])
			}
			res = append(res, info{depth: d, nodes: n, full: true, score: m[2], pv: pv, hashfl: h,
				canon: fmt.Sprintf("info depth %s score %s nodes %s time _ hashfull %s pv %s", m[1], m[2], m[3], m[5], strings.Join(pv, " "))})
			continue
		}
		if m := reAbort.FindStringSubmatch(line); m != nil {
			d, _ := strconv.Atoi(m[1])
			n, _ := strconv.Atoi(m[2])
			res = append(res, info{depth: d, nodes: n, canon: line})
			continue
		}
		return res, fmt.Errorf("unparsable output line %q", line)
	}
	return res, nil
}

func aborted(infos []info) bool { return len(infos) > 0 && !infos[len(infos)-1].full }

func canonLines(infos []info) []string {
	out := make([]string, len(infos))
	for i, in := range infos {
		out[i] = in.canon
	}
	return out
}

// ---------------------------------------------------------------------------------------------
// the C06 assertions on one run

type job struct {
	rt       *root
	l        limits
	tt       int
	warm     int   // number of warm-up searches before the run (0 = fresh tables)
	warmOn   []int // indices of the roots used for the warm-up
	warmDeep int   // > 0: additionally warmed by a search of the root itself to this depth (budget 20000 nodes)
	tag      string
	longest  int      // result slot of a deep C07 run: its longest reported variation
	pre      []string // operations before the engine is created (the parameter vector of an spsa run)
}

func (j *job) warmD() int {
	if j.tag == "single" {
		return 4
	}
	return 3
}

func (j *job) warmN() int {
	if j.tag == "single" {
		return 3000
	}
	return 600
}

// warmUp performs the warm-up searches of the job on s.
func (j *job) warmUp(s *search.Search, roots []*root) {
	for _, w := range j.warmOn {
		run(s, roots[w].build(), limits{depth: j.warmD(), nodes: j.warmN()}, nil)
	}
	if j.warmDeep > 0 {
		run(s, j.rt.build(), limits{depth: j.warmDeep, nodes: 20000}, nil)
	}
}

func (j *job) ops() []string {
	ops := append(append([]string{}, j.pre...), fmt.Sprintf("new tt=%d", j.tt))
	for _, w := range j.warmOn {
		ops = append(ops, fmt.Sprintf("warmup root#%d depth %d nodes %d", w, j.warmD(), j.warmN()))
	}
	if j.warmDeep > 0 {
		ops = append(ops, j.rt.position(), fmt.Sprintf("go depth %d nodes 20000", j.warmDeep))
	}
	return append(ops, j.rt.position(), j.l.String())
}

// checkResult asserts the C06 clauses that concern the returned triple; returns a description of
// the first violated clause ("" when all hold).
func checkResult(rt *root, oc outcome, completed bool) string {
	if oc.panicked != "" {
		return "search panicked: " + oc.panicked
	}
	if oc.mv != 0 {
		if !contains(rt.legal, oc.mv) {
			return fmt.Sprintf("returned move %s (%d) is not in the implementation's legal list", oc.mv, oc.mv)
		}
		if !contains(rt.spec, oc.mv) {
			return fmt.Sprintf("returned move %s (%d) is not legal by the rule book", oc.mv, oc.mv)
		}
	} else if !rt.final {
		return "null move returned although the root is not final"
	}
	if completed && rt.final {
		if oc.mv != 0 {
			return fmt.Sprintf("completed search on a final root returned move %s instead of the null move", oc.mv)
		}
		switch {
		case rt.checkmate && !rt.drawn:
			if oc.score != -Inf {
				return fmt.Sprintf("completed search on a checkmated root returned score %d, want %d", oc.score, -Inf)
			}
		case rt.checkmate && rt.drawn:
			if oc.score != -Inf && oc.score != 0 {
				return fmt.Sprintf("completed search on a checkmated+drawn root returned score %d", oc.score)
			}
		default:
			if oc.score != 0 {
				return fmt.Sprintf("completed search on a drawn/stalemated root returned score %d, want 0", oc.score)
			}
		}
	}
	return ""
}

func (e *env) runJob(j *job, roots []*root) (evals int) {
	s := search.New(j.tt)
	j.warmUp(s, roots)
	b := j.rt.build()
	before := implutil.Dump(b)
	oc := run(s, b, j.l, nil)
	after := implutil.Dump(b)
	infos, perr := parseInfos(oc.out)
	completed := perr == nil && !aborted(infos) && j.l.stop != 2
	report := func(note string) {
		e.fail(common.Mismatch{Property: "C06", Kind: "failing-input", Ops: j.ops(),
			Impl: fmt.Sprintf("score=%d move=%s ponder=%s nodes=%d", oc.score, oc.mv, oc.pm, oc.nodes),
			Spec: "legal=" + implutil.MovesStr(j.rt.spec), Note: note})
	}
	if perr != nil && oc.panicked == "" {
		report(perr.Error())
	}
	if note := checkResult(j.rt, oc, completed); note != "" {
		report(note)
	}
	if j.l.nodes == -1 && j.l.stop < 2 && aborted(infos) {
		report("search without hard budget and stop signal reports an abort")
	}
	if before != after {
		e.fail(common.Mismatch{Property: "C06", Kind: "failing-input", Ops: j.ops(), Impl: after, Spec: before,
			Note: "position object differs after the search (deep snapshot incl. hash history)"})
	}
	if j.l.nodes >= 0 && oc.nodes > j.l.nodes {
		e.fail(common.Mismatch{Property: "C08", Kind: "failing-input", Ops: j.ops(),
			Impl: strconv.Itoa(oc.nodes), Spec: "<= " + strconv.Itoa(j.l.nodes), Note: "node counter exceeds the hard budget"})
	}
	evals++
	// the same instance can be searched again (same board object, a different budget)
	if oc.panicked == "" {
		l2 := limits{depth: 2, nodes: -1}
		oc2 := run(s, b, l2, nil)
		infos2, _ := parseInfos(oc2.out)
		if aborted(infos2) {
			e.fail(common.Mismatch{Property: "C06", Kind: "failing-input", Ops: append(j.ops(), l2.String()), Impl: oc2.out,
				Note: "second search on the same instance (no budget, no stop) reports an abort: the instance is not reusable"})
		}
		if note := checkResult(j.rt, oc2, !aborted(infos2)); note != "" {
			e.fail(common.Mismatch{Property: "C06", Kind: "failing-input", Ops: append(j.ops(), l2.String()),
				Impl: fmt.Sprintf("score=%d move=%s nodes=%d", oc2.score, oc2.mv, oc2.nodes), Note: "second search on the same instance: " + note})
		}
		if implutil.Dump(b) != before {
			e.fail(common.Mismatch{Property: "C06", Kind: "failing-input", Ops: append(j.ops(), l2.String()), Impl: implutil.Dump(b), Spec: before,
				Note: "position object differs after the second search"})
		}
		evals++
	}
	return
}

// parallel runs the jobs on all cores; the jobs themselves were drawn from the single PRNG beforehand.
func parallel(n int, f func(i int)) {
	workers := runtime.NumCPU()
	if workers > 16 {
		workers = 16
	}
	var next atomic.Int64
	var wg sync.WaitGroup
	for w := 0; w < workers; w++ {
		wg.Add(1)
		go func() {
			defer wg.Done()
			for {
				i := int(next.Add(1)) - 1
				if i >= n {
					return
				}
				f(i)
			}
		}()
	}
	wg.Wait()
}

func (e *env) c06() {
	e.c06corpus() // regression corpus first
	K := e.c.Pick(300, 4000)
	nSweep := e.c.Pick(40, 120)
	e.collectRoots(e.c.Pick(40, 120))
	e.rootHistogram()
	e.r.Rule = "one run = (root given as FEN + played moves, depth 1..6, hard node budget k, soft node limit, soft time, TT size in {32000 B, 64 KiB, 1 MiB}, fresh or warmed tables, stop channel absent/open/closed before start/closed at a random instant); sweep: EVERY k in 0..K on each sweep root; asserted on the real search: move is null or in the implementation's legal list and in the Lean rule-book legal list, null only if the root is final, completed search on a final root gives (null, 0 | -Inf), deep board snapshot identical, node counter <= budget, second search on the same instance again satisfies all of it; plus HISTORIES on one instance (regression corpus first: D8; then for roots with 1..3 replies, in check and not: a search cut short on every successor at hard budget k for EVERY k in 0..40 or by the stop channel, optionally on the root itself and two plies on, followed by a depth 1..3 search of the root, on which the same clauses are asserted); plus reactive `go depth|nodes|movetime <arbitrary token>` sessions through the in-process uci.Driver. non-trivial = run that was cut short by the budget/stop (abort path taken) or whose root is final/near-draw/in check/single-reply; distinct by (root, limits, tt, warm-up)"
	rng := e.c.Rng
	var jobs []*job
	sweepRoots := e.roots
	if len(sweepRoots) > nSweep {
		sweepRoots = sweepRoots[:nSweep]
	}
	if e.c.Thorough() {
		sweepRoots = e.roots
	}
	warmSet := func() []int {
		n := 1 + rng.IntN(3)
		out := make([]int, n)
		for i := range out {
			out[i] = rng.IntN(len(e.roots))
		}
		return out
	}
	for ri, rt := range sweepRoots {
		for k := 0; k <= K; k++ {
			j := &job{rt: rt, tt: ttSizes[(k+ri)%3], tag: "sweep"}
			j.l = limits{depth: 1 + rng.IntN(6), nodes: k}
			switch rng.IntN(8) {
			case 0:
				j.l.soft = 1 + rng.IntN(K+1)
			case 1:
				j.l.softTime = 1 + int64(rng.IntN(3))
			case 2:
				j.l.stop = 1
			}
			if rng.IntN(3) == 0 {
				j.warmOn = warmSet()
				if rng.IntN(2) == 0 {
					// warmed on the very root: hash move and exact entries for the root are present
					j.warmOn[0] = indexOf(e.roots, rt)
				}
			}
			jobs = append(jobs, j)
		}
	}
	// every root: stop closed before the start, stop at a random instant, no budget at all, soft only
	for _, rt := range e.roots {
		for v := 0; v < e.c.Pick(36, 60); v++ {
			j := &job{rt: rt, tt: ttSizes[rng.IntN(3)], tag: "misc"}
			j.l = limits{depth: 1 + rng.IntN(e.c.Pick(4, 6)), nodes: -1}
			switch v % 6 {
			case 0:
				j.l.stop = 2
			case 1:
				j.l.stop = 2
				j.l.nodes = rng.IntN(K)
				j.warmOn = warmSet()
			case 2:
				j.l.stop = 3
				j.l.stopSpin = rng.IntN(200000)
				j.l.depth = 5 + rng.IntN(3)
				j.l.nodes = 20000
			case 3:
				// unbounded in nodes: runs to completion (depth limited)
			case 4:
				j.l.soft = 1 + rng.IntN(2000)
				j.l.depth = 6
				j.warmOn = warmSet()
			case 5:
				j.l.softTime = 1 + int64(rng.IntN(3))
				j.l.depth = 5
				j.l.nodes = 30000
			}
			jobs = append(jobs, j)
		}
	}
	var evals atomic.Int64
	parallel(len(jobs), func(i int) { evals.Add(int64(e.runJob(jobs[i], e.roots))) })
	e.r.Evaluations += int(evals.Load())
	for _, j := range jobs {
		e.r.Count("runs:"+j.tag, 1)
		e.r.Count(fmt.Sprintf("tt:%d", j.tt), 1)
		if len(j.warmOn) > 0 {
			e.r.Count("warmed", 1)
		} else {
			e.r.Count("fresh", 1)
		}
		if j.l.stop >= 2 || j.l.nodes >= 0 || j.rt.final || j.rt.fifty >= 95 || j.rt.three >= 2 || j.rt.inCheck || len(j.rt.legal) == 1 {
			e.r.Nontrivial(strings.Join(j.ops(), "|"))
		}
	}
	e.r.Sample(map[string]any{"ops": jobs[len(jobs)/2].ops()}, 3)
	e.c06histories()
	e.c06uci()
}

// ---------------------------------------------------------------------------------------------
// C06 on histories: several searches on ONE engine instance (tables carried over), the earlier ones
// cut short; the C06 clauses are asserted on the last one.  D8 (an aborted quiescence child left a
// LowerBound of 11000 = -Inv in the table; `go depth 1` on the predecessor then answered the null
// move on a non-final root) is the first corpus entry.

type hstep struct {
	rt *root
	l  limits
}

type history struct {
	tt  int
	pre []hstep
	rt  *root
	l   limits
	tag string
}

func (h *history) ops() []string {
	ops := []string{fmt.Sprintf("new tt=%d", h.tt)}
	for _, p := range h.pre {
		ops = append(ops, p.rt.position(), p.l.String())
	}
	return append(ops, h.rt.position(), h.l.String())
}

// runHistory plays the history on a fresh instance and asserts C06 on the last search; it returns
// the number of searches performed and whether one of the earlier searches was cut short.
func (e *env) runHistory(h *history) (evals int, preAborted bool) {
	s := search.New(h.tt)
	for _, p := range h.pre {
		b := p.rt.build()
		if b == nil {
			panic("history: unusable predecessor " + p.rt.position())
		}
		oc := run(s, b, p.l, nil)
		evals++
		if oc.panicked != "" {
			e.fail(common.Mismatch{Property: "C06", Kind: "failing-input", Ops: h.ops(), Impl: oc.panicked,
				Note: "an earlier search of the history panicked: " + p.rt.position() + " " + p.l.String()})
			return
		}
		if infos, err := parseInfos(oc.out); err == nil && (aborted(infos) || p.l.stop == 2) {
			preAborted = true
		}
	}
	b := h.rt.build()
	before := implutil.Dump(b)
	oc := run(s, b, h.l, nil)
	evals++
	infos, perr := parseInfos(oc.out)
	completed := perr == nil && !aborted(infos) && h.l.stop != 2
	if note := checkResult(h.rt, oc, completed); note != "" {
		e.fail(common.Mismatch{Property: "C06", Kind: "failing-input", Ops: h.ops(),
			Impl: fmt.Sprintf("score=%d move=%s ponder=%s nodes=%d", oc.score, oc.mv, oc.pm, oc.nodes),
			Spec: "legal=" + implutil.MovesStr(h.rt.spec), Note: "last search of a history on one instance: " + note})
	}
	if after := implutil.Dump(b); after != before {
		e.fail(common.Mismatch{Property: "C06", Kind: "failing-input", Ops: h.ops(), Impl: after, Spec: before,
			Note: "position object differs after the last search of a history"})
	}
	return
}

// successor is the root reached from rt by m, given the way a GUI gives it (position + moves).
func successor(rt *root, m move.Move) *root {
	ms := append(append([]string{}, rt.moves...), m.String())
	return &root{name: rt.name + "+" + m.String(), fen: rt.fen, moves: ms}
}

// corpusHistories are the regression cases; they run before everything else in the suite.
func (e *env) corpusHistories() []*history {
	mk := func(name, fen string) *root {
		rt := &root{name: name, fen: fen}
		if !e.prepare(rt) {
			panic("corpus root rejected: " + name + " " + fen)
		}
		return rt
	}
	d8succ := mk("D8-successor", "3r3b/p7/1p3p2/1NPp1k2/1n4p1/P3R1K1/2P5/8 w - - 0 47")
	d8 := mk("D8-single-reply", "3r3b/p7/1p3p2/1NPpkP2/1n4p1/P3R1K1/2P5/8 b - - 4 46")
	d8b := mk("D8-two-replies", "r3kr2/p6p/1Rp3n1/1pPppb1B/P2b3P/1NK5/1P1B3N/R3Q3 w - - 2 33")
	hs := []*history{
		// the D8 history: the successor searched with a budget of one node, then the root to depth 1
		{tt: 1 << 20, tag: "corpus", pre: []hstep{{d8succ, limits{depth: 64, nodes: 1}}}, rt: d8, l: limits{depth: 1, nodes: -1}},
		{tt: 32000, tag: "corpus", pre: []hstep{{d8succ, limits{depth: 64, nodes: 1}}}, rt: d8, l: limits{depth: 1, nodes: -1}},
	}
	// the same with every successor of a two-reply root poisoned
	h := &history{tt: 1 << 20, tag: "corpus", rt: d8b, l: limits{depth: 1, nodes: -1}}
	for _, m := range d8b.legal {
		h.pre = append(h.pre, hstep{successor(d8b, m), limits{depth: 64, nodes: 1}})
	}
	hs = append(hs, h)
	// D9: the static evaluation left the mate band (nine queens against a bare king: -10434); the
	// first search still found the single reply, the second one on the same instance answered the
	// null move on this non-final root.  No abort is involved.
	d9 := mk("D9-nine-queens", "3k4/8/8/8/8/3K4/QQQQQQQQ/Q7 b - - 1 1")
	d9b := mk("D9-six-queens-and-pieces", "3k4/8/8/8/8/8/QQQQQQ2/RNBQKBNR b - - 1 1")
	for _, rt := range []*root{d9, d9b} {
		hs = append(hs,
			&history{tt: 1 << 20, tag: "corpus", pre: []hstep{{rt, limits{depth: 1, nodes: -1}}}, rt: rt, l: limits{depth: 3, nodes: -1}},
			&history{tt: 32000, tag: "corpus", pre: []hstep{{rt, limits{depth: 1, nodes: -1}}}, rt: rt, l: limits{depth: 1, nodes: -1}})
	}
	return hs
}

func (e *env) c06corpus() {
	for _, h := range e.corpusHistories() {
		n, _ := e.runHistory(h)
		e.r.Evaluations += n
		e.r.Count("history:corpus", 1)
		e.r.Nontrivial(strings.Join(h.ops(), "|"))
	}
}

// fewReplyRoots collects non-final valid roots with one to three playable moves (in check and not)
// from the shared stream and from random play-outs of its positions.
func (e *env) fewReplyRoots(n int) []*root {
	var out []*root
	seen := map[string]bool{}
	quota := [4]int{0, n - 2*(n/3), n / 3, n / 3} // by number of replies: single-reply roots get the largest share
	add := func(name, fen string, replies int) {
		if seen[fen] || quota[replies] == 0 {
			return
		}
		seen[fen] = true
		rt := &root{name: name, fen: fen}
		if e.prepare(rt) && !rt.final && len(rt.legal) == replies {
			out = append(out, rt)
			quota[replies]--
		}
	}
	for _, rt := range e.roots {
		if k := len(rt.legal); !rt.final && k >= 1 && k <= 3 && quota[k] > 0 {
			seen[rt.key] = true
			out = append(out, rt)
			quota[k]--
		}
	}
	st := implutil.NewStream(e.c)
	for tries := 0; len(out) < n && tries < 400*n; tries++ {
		fen, _ := st.Next()
		b, err := board.FromFEN(fen)
		if err != nil || b.InvalidPieceCount() {
			continue
		}
		for ply := 0; ply < 60; ply++ {
			l := implutil.Legal(b)
			if len(l) == 0 || b.FiftyCnt >= 99 {
				break
			}
			if len(l) <= 3 {
				add("few-reply", b.FEN(), len(l))
			}
			b.MakeMove(l[e.c.Rng.IntN(len(l))])
		}
	}
	return out
}

// c06histories: for roots P with few replies, cut a search short on EVERY successor P' (hard budget
// k for every k in 0..40, or the stop channel closed before the start / after a few spins), then
// search P itself to depth 1..3 on the same instance.  Variants: the aborted searches run on P
// itself, or on P and its successors.
func (e *env) c06histories() {
	roots := e.fewReplyRoots(e.c.Pick(300, 1500))
	rng := e.c.Rng
	var hs []*history
	for ri, rt := range roots {
		e.r.Count("history:roots", 1)
		if rt.inCheck {
			e.r.Count("history:roots-in-check", 1)
		}
		e.r.Count(fmt.Sprintf("history:roots-%d-replies", len(rt.legal)), 1)
		for k := 0; k <= 40; k++ {
			for d := 1; d <= 3; d++ {
				h := &history{tt: ttSizes[(k+ri+d)%3], rt: rt, tag: "succ-budget", l: limits{depth: d, nodes: -1}}
				for _, m := range rt.legal {
					h.pre = append(h.pre, hstep{successor(rt, m), limits{depth: 1 + rng.IntN(6), nodes: k}})
				}
				hs = append(hs, h)
			}
		}
		for v := 0; v < e.c.Pick(9, 30); v++ {
			h := &history{tt: ttSizes[rng.IntN(3)], rt: rt, l: limits{depth: 1 + v%3, nodes: -1}}
			cut := func() limits {
				switch rng.IntN(3) {
				case 0:
					return limits{depth: 2 + rng.IntN(4), nodes: -1, stop: 2}
				case 1:
					return limits{depth: 4 + rng.IntN(3), nodes: 20000, stop: 3, stopSpin: rng.IntN(20000)}
				}
				return limits{depth: 1 + rng.IntN(6), nodes: rng.IntN(400)}
			}
			switch v % 3 {
			case 0:
				h.tag = "succ-stop"
				for _, m := range rt.legal {
					h.pre = append(h.pre, hstep{successor(rt, m), cut()})
				}
			case 1:
				h.tag = "self"
				h.pre = append(h.pre, hstep{rt, cut()})
			case 2:
				h.tag = "self+succ"
				h.pre = append(h.pre, hstep{rt, cut()})
				for _, m := range rt.legal {
					h.pre = append(h.pre, hstep{successor(rt, m), cut()})
					// and the positions two plies on, where the root's side moves again
					if sb := successor(rt, m).build(); sb != nil {
						if l2 := implutil.Legal(sb); len(l2) > 0 {
							h.pre = append(h.pre, hstep{successor(successor(rt, m), l2[rng.IntN(len(l2))]), cut()})
						}
					}
				}
			}
			hs = append(hs, h)
		}
	}
	var evals, cutShort atomic.Int64
	flags := make([]bool, len(hs))
	parallel(len(hs), func(i int) {
		n, pa := e.runHistory(hs[i])
		evals.Add(int64(n))
		flags[i] = pa
		if pa {
			cutShort.Add(1)
		}
	})
	e.r.Evaluations += int(evals.Load())
	for i, h := range hs {
		e.r.Count("history:"+h.tag, 1)
		if flags[i] {
			e.r.Nontrivial(strings.Join(h.ops(), "|"))
		}
	}
	e.r.Count("history:with-a-search-cut-short", int(cutShort.Load()))
	if len(hs) > 0 {
		e.r.Sample(map[string]any{"history": hs[len(hs)/2].ops()}, 4)
	}
}

func indexOf(rs []*root, r *root) int {
	for i, x := range rs {
		if x == r {
			return i
		}
	}
	return 0
}

// ---------------------------------------------------------------------------------------------
// C06 through the UCI driver

// session is an in-process uci.Driver with reactive scripting.
type session struct {
	pw    *io.PipeWriter
	lines chan string
	done  chan struct{}
	errb  *bytes.Buffer
}

type lineSink struct {
	mu   sync.Mutex
	part []byte
	ch   chan string
}

func (s *lineSink) Write(p []byte) (int, error) {
	s.mu.Lock()
	defer s.mu.Unlock()
	s.part = append(s.part, p...)
	for {
		i := bytes.IndexByte(s.part, '\n')
		if i < 0 {
			break
		}
		s.ch <- string(s.part[:i])
		s.part = s.part[i+1:]
	}
	return len(p), nil
}

func newSession(tt int) *session {
	pr, pw := io.Pipe()
	s := &session{pw: pw, lines: make(chan string, 4096), done: make(chan struct{}), errb: &bytes.Buffer{}}
	d := uci.NewDriver(uci.WithInput(pr), uci.WithOutput(&lineSink{ch: s.lines}), uci.WithError(s.errb),
		uci.WithSearch(search.New(tt)))
	go func() {
		defer close(s.done)
		defer func() { recover() }()
		d.Run()
	}()
	return s
}

func (s *session) send(line string) { io.WriteString(s.pw, line+"\n") }

// waitBest collects output lines up to and including the bestmove line.
func (s *session) waitBest(timeout time.Duration) (lines []string, best string, ok bool) {
	t := time.NewTimer(timeout)
	defer t.Stop()
	for {
		select {
		case l := <-s.lines:
			if strings.HasPrefix(l, "bestmove") {
				return lines, l, true
			}
			lines = append(lines, l)
		case <-t.C:
			return lines, "", false
		case <-s.done:
			return lines, "", false
		}
	}
}

func (s *session) close() {
	s.send("quit")
	s.pw.Close()
	select {
	case <-s.done:
	case <-time.After(5 * time.Second):
	}
}

var numTokens = []string{"0", "1", "2", "3", "5", "63", "64", "65", "100", "127", "128", "129", "200", "255", "256", "257", "384", "1000",
	"32767", "32768", "65535", "65536", "2147483647", "2147483648", "4294967295", "4294967296", "9223372036854775807",
	"9223372036854775808", "18446744073709551616", "99999999999999999999999", "-0", "-1", "-2", "-64", "-127", "-128", "-129",
	"-200", "-256", "-32768", "-2147483648", "-9223372036854775808", "-9223372036854775809", "abc", "1e3", "0x10", "+5", "1.5",
	"١٢", "7_0", "NaN", "depthx", "--3", "0000", "00000000000000000000003"}

// goCommand draws a `go` command with one arbitrary numeric token; the second return value tells
// whether the command is bounded by construction (otherwise the harness sends `stop`).
func goCommand(rng interface{ IntN(int) int }) (cmd string, bounded bool) {
	tok := numTokens[rng.IntN(len(numTokens))]
	v, err := strconv.ParseInt(tok, 10, 64)
	numeric := err == nil
	var parts []string
	switch rng.IntN(4) {
	case 0: // depth token; bounded by a node budget unless the depth itself is small
		parts = []string{"depth " + tok}
		if !(numeric && v <= 4) || rng.IntN(2) == 0 {
			parts = append(parts, fmt.Sprintf("nodes %d", 1+rng.IntN(4000)))
		}
		bounded = true
	case 1: // nodes token; -1 means "no budget", so a small depth bounds those
		parts = []string{"nodes " + tok}
		if !(numeric && v >= 0 && v <= 20000) {
			parts = append(parts, fmt.Sprintf("depth %d", 1+rng.IntN(4)))
		}
		bounded = true
	case 2: // movetime token; bounded by itself only when it is a small positive number
		parts = []string{"movetime " + tok}
		if numeric && v >= 1 && v <= 100 && rng.IntN(2) == 0 {
			bounded = true
		} else if rng.IntN(4) != 0 {
			parts = append(parts, fmt.Sprintf("nodes %d", 1+rng.IntN(4000)))
			bounded = true
		}
	case 3: // clock tokens
		parts = []string{"wtime " + tok, "btime " + numTokens[rng.IntN(len(numTokens))]}
		if rng.IntN(2) == 0 {
			parts = append(parts, "winc "+numTokens[rng.IntN(len(numTokens))], "binc "+numTokens[rng.IntN(len(numTokens))])
		}
		parts = append(parts, fmt.Sprintf("nodes %d", 1+rng.IntN(4000)))
		bounded = true
	}
	// the repeated clause: the later one wins in handleGo
	if rng.IntN(6) == 0 {
		parts = append([]string{"depth " + numTokens[rng.IntN(len(numTokens))]}, parts...)
	}
	rng2 := rng.IntN(2)
	if rng2 == 0 && len(parts) > 1 {
		parts[0], parts[len(parts)-1] = parts[len(parts)-1], parts[0]
		// keep the bounding clause effective: a later `depth`/`nodes` duplicate could override it
		seen := map[string]int{}
		for _, p := range parts {
			seen[strings.Fields(p)[0]]++
		}
		if seen["depth"] > 1 || seen["nodes"] > 1 {
			parts[0], parts[len(parts)-1] = parts[len(parts)-1], parts[0]
		}
	}
	return "go " + strings.Join(parts, " "), bounded
}

func (e *env) c06uci() {
	nSess := e.c.Pick(48, 160)
	perSess := e.c.Pick(16, 40)
	rng := e.c.Rng
	type step struct {
		rt      *root
		cmd     string
		bounded bool
	}
	scripts := make([][]step, nSess)
	for i := range scripts {
		for k := 0; k < perSess; k++ {
			rt := e.roots[rng.IntN(len(e.roots))]
			cmd, bounded := goCommand(rng)
			scripts[i] = append(scripts[i], step{rt, cmd, bounded})
		}
	}
	var evals atomic.Int64
	parallel(nSess, func(i int) {
		s := newSession(1024 * 1024)
		defer s.close()
		var ops []string
		for _, st := range scripts[i] {
			ops = append(ops, st.rt.position(), st.cmd)
			s.send(st.rt.position())
			s.send(st.cmd)
			if !st.bounded {
				// an unbounded search is ended by `stop` a little later (reactive: nothing else is sent meanwhile)
				time.Sleep(time.Duration(1+i%5) * time.Millisecond)
				s.send("stop")
				ops = append(ops, "stop")
			}
			_, best, ok := s.waitBest(30 * time.Second)
			if !ok {
				e.fail(common.Mismatch{Property: "C06", Kind: "failing-input", Ops: tailOps(ops), Impl: "no bestmove within 30 s",
					Note: "bounded `go` was not answered; stderr: " + s.errb.String()})
				return
			}
			evals.Add(1)
			f := strings.Fields(best)
			var bm string
			if len(f) >= 2 {
				bm = f[1]
			}
			okMove := false
			if bm == "0000" {
				okMove = st.rt.final
			} else {
				for _, m := range st.rt.spec {
					if m.String() == bm && contains(st.rt.legal, m) {
						okMove = true
					}
				}
			}
			if !okMove {
				e.fail(common.Mismatch{Property: "C06", Kind: "failing-input", Ops: tailOps(ops), Impl: best,
					Spec: "legal=" + movesUCI(st.rt.spec), Note: "UCI answer is neither a legal move nor the null move on a final root"})
			}
			if len(f) == 4 && f[2] == "ponder" {
				e.fail(common.Mismatch{Property: "C07", Kind: "failing-input", Ops: tailOps(ops), Impl: best, Note: "ponder move printed although the Ponder option is off"})
			}
		}
	})
	e.r.Evaluations += int(evals.Load())
	e.r.TracesValidated += nSess
	for i := range scripts {
		for _, st := range scripts[i] {
			e.r.Count("uci:go", 1)
			e.r.Count("uci:"+strings.Fields(st.cmd)[1], 1)
			e.r.Nontrivial("uci|" + st.rt.position() + "|" + st.cmd)
		}
	}
	e.r.Sample(map[string]any{"uci": []string{scripts[0][0].rt.position(), scripts[0][0].cmd}}, 5)
}

func tailOps(ops []string) []string {
	// the whole session matters for the table state, but the last position+go is what violates
	if len(ops) > 40 {
		return append([]string{fmt.Sprintf("… %d earlier session lines …", len(ops)-40)}, ops[len(ops)-40:]...)
	}
	return ops
}

func movesUCI(ms []move.Move) string {
	parts := make([]string, len(ms))
	for i, m := range ms {
		parts[i] = m.String()
	}
	return strings.Join(parts, ",")
}

// ---------------------------------------------------------------------------------------------
// C07

// replayPV replays the printed variation on a fresh board of the root; returns the moves, or the
// index of the first illegal one.
func replayPV(rt *root, pv []string) (ms []move.Move, bad int) {
	b := rt.build()
	for i, s := range pv {
		m, ok := findMove(b, s)
		if !ok {
			return ms, i
		}
		ms = append(ms, m)
		b.MakeMove(m)
	}
	return ms, -1
}

type pvSample struct {
	rt *root
	ms []move.Move
	j  *job
}

// checkC07 asserts the C07 clauses on one run; returns the variations for the Lean spec sample.
func (e *env) checkC07(j *job, oc outcome, ops []string) (samples [][]move.Move, nontrivial bool) {
	return e.checkC07Into(j, oc, ops, nil)
}

// checkC07Into asserts the C07 clauses on one search; the violations go to sink when it is given,
// to the result otherwise.
func (e *env) checkC07Into(j *job, oc outcome, ops []string, sink *[]common.Mismatch) (samples [][]move.Move, nontrivial bool) {
	fail := func(note, impl string) {
		m := common.Mismatch{Property: "C07", Kind: "failing-input", Ops: ops, Impl: impl, Note: note}
		if sink != nil {
			*sink = append(*sink, m)
			return
		}
		e.fail(m)
	}
	if oc.panicked != "" {
		fail("search panicked: "+oc.panicked, "")
		return
	}
	infos, err := parseInfos(oc.out)
	if err != nil {
		fail(err.Error(), oc.out)
		return
	}
	lastDepth, lastNodes := -1, -1
	var lastPV []move.Move
	long := 0
	for i, in := range infos {
		if in.depth <= lastDepth {
			fail(fmt.Sprintf("reported depths do not strictly increase (line %d: %d after %d)", i, in.depth, lastDepth), oc.out)
		}
		if in.nodes < lastNodes {
			fail(fmt.Sprintf("reported node counts decrease (line %d: %d after %d)", i, in.nodes, lastNodes), oc.out)
		}
		lastDepth, lastNodes = in.depth, in.nodes
		if !in.full {
			if i != len(infos)-1 {
				fail("abort notice is not the last line", oc.out)
			}
			continue
		}
		// length statistics of the reported lines (legal or not)
		for {
			cur := e.pvLongest.Load()
			if int64(len(in.pv)) <= cur || e.pvLongest.CompareAndSwap(cur, int64(len(in.pv))) {
				break
			}
		}
		if len(in.pv) >= 34 {
			e.pv34.Add(1)
			if len(in.pv) >= 48 {
				e.pv48.Add(1)
			}
		}
		ms, bad := replayPV(j.rt, in.pv)
		if bad >= 0 {
			fail(fmt.Sprintf("variation of depth %d is illegal at index %d (%s): %s", in.depth, bad, in.pv[bad], strings.Join(in.pv, " ")), oc.out)
			continue
		}
		if len(ms) > 0 {
			lastPV = ms
			samples = append(samples, ms)
		}
		if len(ms) >= 2 {
			long++
		}
		if len(ms) >= 34 {
			e.mu.Lock()
			e.pvLong = append(e.pvLong, pvSample{j.rt, ms, j})
			e.mu.Unlock()
		}
		if in.depth >= 1 && len(ms) == 0 && !j.rt.final {
			fail(fmt.Sprintf("empty variation reported at depth %d on a non-final root", in.depth), oc.out)
		}
	}
	if oc.nodes < lastNodes {
		fail(fmt.Sprintf("final node counter %d below the last reported count %d", oc.nodes, lastNodes), oc.out)
	}
	res := fmt.Sprintf("bestmove %s ponder %s", oc.mv, oc.pm)
	if lastPV != nil {
		if oc.mv != lastPV[0] {
			fail(fmt.Sprintf("returned move %s is not the head of the most recent non-empty variation (%s)", oc.mv, movesUCI(lastPV)), oc.out+res)
		}
	}
	if oc.pm != 0 {
		b := j.rt.build()
		if oc.mv == 0 || !contains(implutil.Legal(b), oc.mv) {
			fail("ponder move given with a null/illegal best move", oc.out+res)
		} else {
			b.MakeMove(oc.mv)
			if !contains(implutil.Legal(b), oc.pm) {
				fail(fmt.Sprintf("ponder move %s is not legal after %s", oc.pm, oc.mv), oc.out+res)
			} else {
				samples = append(samples, []move.Move{oc.mv, oc.pm})
			}
		}
	}
	return samples, long >= 2
}

// specCheckPV asks the Lean rule book whether every move of the variation is legal in turn.
func (e *env) specCheckPV(rt *root, ms []move.Move) (bad int) {
	reqs := []string{"fen " + rt.key}
	for _, m := range ms {
		reqs = append(reqs, "speclegal "+strconv.Itoa(int(m)), "mkq "+strconv.Itoa(int(m)))
	}
	ans := e.bm.Batch(reqs)
	for i := range ms {
		if ans[1+2*i] != "1" {
			return i
		}
	}
	return -1
}

func (e *env) c07() {
	e.collectRoots(e.c.Pick(48, 160))
	e.rootHistogram()
	e.r.Rule = "one run = search with info output captured (roots as in C06; depth 2..9; hard budgets, soft limits, stop at a random instant; TT fresh / warmed by earlier searches of a game on the same instance / 32000-byte table with heavy collisions); asserted: every `info … pv` line parses, each variation is legal by replay on a fresh board (and by the Lean rule book for a sample), depths strictly increase, node counts never decrease (abort notice included), returned move = head of the most recent non-empty variation, ponder legal after it; plus DEEP runs: trivial endings generated from the seed (contested K+P v K, locked pawn chains, K+R v K, K+Q v K, opposite-coloured bishops; both colours, either side to move) searched with a depth limit in 34..63 under a hard budget of 0.7-2.5 M nodes on 1/4/16 MiB tables, same assertions on every line, every line of >= 34 moves also checked by the Lean rule book; plus UCI sessions on the real uci.Driver: `position fen F moves …` / `position startpos moves …` with generated move lists containing promotions to all four pieces (pushes and captures, both colours), castling and en-passant captures, then `go depth d` / `go nodes n`; the expected root is obtained without the driver's text parser (own move encoder, words replayed by the Lean rule book from F and by the board API), the driver's board (`fen` command) must be that root, and every info variation, the bestmove and the ponder move must be legal lines from it (replay on the API board and by the rule book); non-trivial = run with >= 2 reported variations of length >= 2; distinct by (root, limits, table state)"
	rng := e.c.Rng
	type task struct {
		jobs []*job // a sequence on ONE instance (game order): tables carried over
		tt   int
	}
	var tasks []task
	// (a) independent runs, fresh and warmed
	logUniform := func(lo, hi int) int {
		// log-uniform in [lo, hi]
		x := float64(lo)
		r := float64(hi) / float64(lo)
		k := rng.IntN(1 << 20)
		for r > 1.0001 && k > 0 {
			// repeated square-root splitting driven by the bits of k
			r = sqrt(r)
			if k&1 == 1 {
				x *= r
			}
			k >>= 1
		}
		return int(x)
	}
	// (0) deep searches of trivial endings first (the longest tasks): lines of 34 and more moves
	deep := e.deepJobs()
	for _, j := range deep {
		tasks = append(tasks, task{jobs: []*job{j}, tt: j.tt})
	}
	for _, rt := range e.roots {
		for v := 0; v < e.c.Pick(250, 500); v++ {
			j := &job{rt: rt, tt: ttSizes[rng.IntN(3)], tag: "single"}
			j.l = limits{depth: 2 + rng.IntN(e.c.Pick(6, 8)), nodes: -1}
			switch rng.IntN(6) {
			case 0, 1, 2:
				// hard budget, log-uniform: most of these runs are cut in the middle of an iteration
				j.l.nodes = logUniform(20, e.c.Pick(20000, 60000))
				j.l.depth = 10
			case 3:
				j.l.soft = 1 + rng.IntN(e.c.Pick(5000, 30000))
				j.l.depth = e.c.Pick(8, 12)
				j.l.nodes = e.c.Pick(30000, 150000)
			case 4:
				j.l.stop = 3
				j.l.stopSpin = logUniform(100, 3000000)
				j.l.depth = 10
				j.l.nodes = e.c.Pick(30000, 150000)
			default:
				j.l.nodes = e.c.Pick(30000, 150000)
			}
			switch rng.IntN(4) {
			case 0:
				n := 1 + rng.IntN(3)
				for i := 0; i < n; i++ {
					j.warmOn = append(j.warmOn, rng.IntN(len(e.roots)))
				}
			case 1:
				// warmed by a deeper search of the very root: exact entries cut the later root moves short
				j.warmDeep = 4 + rng.IntN(4)
			case 2:
				j.warmDeep = 3 + rng.IntN(3)
				j.warmOn = []int{rng.IntN(len(e.roots))}
			}
			tasks = append(tasks, task{jobs: []*job{j}, tt: j.tt})
		}
	}
	// (b) games: the engine plays itself on one instance with the tiny / small / default table
	games := e.c.Pick(150, 600)
	for g := 0; g < games; g++ {
		rt := e.roots[rng.IntN(len(e.roots))]
		tt := ttSizes[g%3]
		t := task{tt: tt}
		// the positions of the game are only known while playing: a game job list is produced lazily,
		// here we only fix root, length and per-ply limits (drawn now, from the single PRNG)
		plies := e.c.Pick(24, 60)
		for p := 0; p < plies; p++ {
			j := &job{rt: rt, tt: tt, tag: "game"}
			j.l = limits{depth: 2 + rng.IntN(5), nodes: 500 + rng.IntN(e.c.Pick(4000, 12000))}
			if rng.IntN(4) == 0 {
				j.l.soft = 1 + rng.IntN(3000)
			}
			t.jobs = append(t.jobs, j)
		}
		tasks = append(tasks, t)
	}
	var evals, nontriv atomic.Int64
	var smu sync.Mutex
	var specSamples []pvSample
	parallel(len(tasks), func(ti int) {
		t := tasks[ti]
		if t.jobs[0].tag != "game" {
			j := t.jobs[0]
			s := search.New(j.tt)
			j.warmUp(s, e.roots)
			oc := run(s, j.rt.build(), j.l, nil)
			sm, nt := e.checkC07(j, oc, j.ops())
			if strings.HasPrefix(j.tag, "deep") {
				longest := 0
				for _, ms := range sm {
					if len(ms) > longest {
						longest = len(ms)
					}
				}
				j.longest = longest
			}
			evals.Add(1)
			if nt {
				nontriv.Add(1)
				e.mu.Lock()
				e.r.Nontrivial(strings.Join(j.ops(), "|"))
				e.mu.Unlock()
			}
			smu.Lock()
			for _, ms := range sm {
				if len(specSamples) < 100000 {
					specSamples = append(specSamples, pvSample{j.rt, ms, j})
				}
			}
			smu.Unlock()
			return
		}
		// game
		s := search.New(t.tt)
		cur := &root{name: t.jobs[0].rt.name + "+game", fen: t.jobs[0].rt.fen, moves: append([]string{}, t.jobs[0].rt.moves...)}
		ops := []string{fmt.Sprintf("new tt=%d", t.tt)}
		for _, j := range t.jobs {
			b := cur.build()
			cur.legal = implutil.Legal(b)
			cur.final = len(cur.legal) == 0 || b.FiftyCnt >= 100 || b.Threefold() >= 3
			cur.key = b.FEN()
			if cur.final {
				break
			}
			snapshot := *cur
			snapshot.moves = append([]string{}, cur.moves...)
			j.rt = &snapshot
			oc := run(s, b, j.l, nil)
			ops = append(ops, j.rt.position(), j.l.String())
			sm, nt := e.checkC07(j, oc, tailOps(ops))
			evals.Add(1)
			if nt {
				nontriv.Add(1)
				e.mu.Lock()
				e.r.Nontrivial(fmt.Sprintf("game|tt=%d|%s|%s", t.tt, j.rt.position(), j.l))
				e.mu.Unlock()
			}
			smu.Lock()
			for _, ms := range sm {
				if len(specSamples) < 100000 {
					specSamples = append(specSamples, pvSample{j.rt, ms, j})
				}
			}
			smu.Unlock()
			if oc.mv == 0 || !contains(cur.legal, oc.mv) {
				break
			}
			cur.moves = append(cur.moves, oc.mv.String())
		}
	})
	e.r.Evaluations += int(evals.Load())
	e.r.Count("runs", int(evals.Load()))
	e.r.Count("runs-with->=2-long-variations", int(nontriv.Load()))
	e.r.Count("variations-collected", len(specSamples))
	for _, j := range deep {
		e.r.Count("deep-runs", 1)
		e.r.Count("deep-runs:"+strings.TrimPrefix(j.tag, "deep:"), 1)
		if j.longest >= 34 {
			e.r.Count("deep-runs:with-a-variation-of->=34-moves", 1)
			e.r.Count("deep-runs:"+strings.TrimPrefix(j.tag, "deep:")+":with-a-variation-of->=34-moves", 1)
		}
		if j.longest >= 48 {
			e.r.Count("deep-runs:with-a-variation-of->=48-moves", 1)
		}
	}
	e.r.Count("longest-variation-reported(moves)", int(e.pvLongest.Load()))
	e.r.Count("variations-of->=34-moves", int(e.pv34.Load()))
	e.r.Count("variations-of->=48-moves", int(e.pv48.Load()))
	// every long line is also checked against the Lean rule book (at most 40, the longest first)
	sort.SliceStable(e.pvLong, func(a, b int) bool {
		if len(e.pvLong[a].ms) != len(e.pvLong[b].ms) {
			return len(e.pvLong[a].ms) > len(e.pvLong[b].ms)
		}
		return e.pvLong[a].rt.key+movesUCI(e.pvLong[a].ms) < e.pvLong[b].rt.key+movesUCI(e.pvLong[b].ms)
	})
	for i, sp := range e.pvLong {
		if i >= e.c.Pick(40, 300) {
			break
		}
		if bad := e.specCheckPV(sp.rt, sp.ms); bad >= 0 {
			e.fail(common.Mismatch{Property: "C07", Kind: "failing-input", Ops: []string{"position fen " + sp.rt.key, "pv " + movesUCI(sp.ms)},
				Impl: movesUCI(sp.ms), Spec: fmt.Sprintf("move #%d (%s) is not legal by the rule book", bad, sp.ms[bad]),
				Note: "reported variation accepted by replay on the engine's board but rejected by the Lean rule book"})
		}
		e.r.Count("long-variations-checked-by-lean-spec", 1)
	}
	// Lean rule-book check of a sample of the variations (deterministic choice: evenly spaced after sorting)
	sort.SliceStable(specSamples, func(a, b int) bool {
		ka := specSamples[a].rt.key + "|" + implutil.MovesStr(specSamples[a].ms)
		kb := specSamples[b].rt.key + "|" + implutil.MovesStr(specSamples[b].ms)
		return ka < kb
	})
	want := e.c.Pick(400, 6000)
	stepN := 1
	if len(specSamples) > want {
		stepN = len(specSamples) / want
	}
	for i := 0; i < len(specSamples); i += stepN {
		sp := specSamples[i]
		if bad := e.specCheckPV(sp.rt, sp.ms); bad >= 0 {
			e.fail(common.Mismatch{Property: "C07", Kind: "failing-input", Ops: []string{"position fen " + sp.rt.key, "pv " + movesUCI(sp.ms)},
				Impl: movesUCI(sp.ms), Spec: fmt.Sprintf("move #%d (%s) is not legal by the rule book", bad, sp.ms[bad]),
				Note: "reported variation accepted by replay on the engine's board but rejected by the Lean rule book"})
		}
		e.r.Count("variations-checked-by-lean-spec", 1)
		e.r.Count("variation-moves-checked-by-lean-spec", len(sp.ms))
	}
	if len(specSamples) > 0 {
		sp := specSamples[len(specSamples)/2]
		e.r.Sample(map[string]any{"root": sp.rt.key, "pv": movesUCI(sp.ms)}, 3)
	}
	e.c07uci()
	e.pvModel()
}

// ---------------------------------------------------------------------------------------------
// C06 on the SPSA BUILD (-tags "verif spsa"): the search parameters are variables with declared
// ranges (params/spsa.go: tunables, params.Set, `setoption name <Param> value N`).  The property
// quantifies over "the spsa build with in-range parameter values".  Names, defaults and ranges are
// read from params.UCIOptions() (never hard-coded), so a changed table is seen.

type tunable struct {
	name          string
	def, min, max int
}

var reOption = regexp.MustCompile(`^option name (\S+) type spin default (-?\d+) min (-?\d+) max (-?\d+)$`)

func parseTunables(text string) (ts []tunable, err error) {
	for _, line := range strings.Split(strings.TrimSpace(text), "\n") {
		m := reOption.FindStringSubmatch(strings.TrimSpace(line))
		if m == nil {
			return ts, fmt.Errorf("unparsable option line %q", line)
		}
		t := tunable{name: m[1]}
		t.def, _ = strconv.Atoi(m[2])
		t.min, _ = strconv.Atoi(m[3])
		t.max, _ = strconv.Atoi(m[4])
		ts = append(ts, t)
	}
	return ts, nil
}

// paramReaders read the exported parameters directly (constants in the default build, variables in
// the spsa build): the second, table-independent view of what a Set did.  A tunable without a
// reader is only observed through UCIOptions (counted in the histogram).
var paramReaders = map[string]func() int{
	"NMPDiffFactor":    func() int { return int(params.NMPDiffFactor) },
	"NMPDepthLimit":    func() int { return int(params.NMPDepthLimit) },
	"NMPInit":          func() int { return int(params.NMPInit) },
	"RFPDepthLimit":    func() int { return int(params.RFPDepthLimit) },
	"RFPScoreFactor":   func() int { return int(params.RFPScoreFactor) },
	"WindowSize":       func() int { return int(params.WindowSize) },
	"LMRStart":         func() int { return int(params.LMRStart) },
	"StandPatDelta":    func() int { return int(params.StandPatDelta) },
	"HistBonusMul":     func() int { return int(params.HistBonusMul) },
	"HistBonusLin":     func() int { return int(params.HistBonusLin) },
	"HistAdjRange":     func() int { return int(params.HistAdjRange) },
	"HistAdjReduction": func() int { return int(params.HistAdjReduction) },
	"IIRDepthLimit":    func() int { return int(params.IIRDepthLimit) },
}

// paramState is the current value of every tunable, seen through UCIOptions ("u:") and directly ("v:").
func paramState() map[string]int {
	st := map[string]int{}
	if ts, err := parseTunables(params.UCIOptions()); err == nil {
		for _, t := range ts {
			st["u:"+t.name] = t.def
		}
	}
	for n, f := range paramReaders {
		st["v:"+n] = f()
	}
	return st
}

type paramVector struct {
	kind string
	vals []int // by index of the tunables
}

func vectorOps(ts []tunable, v paramVector) []string {
	var ops []string
	for i, t := range ts {
		if v.vals[i] != t.def {
			ops = append(ops, fmt.Sprintf("setoption name %s value %d", t.name, v.vals[i]))
		}
	}
	if len(ops) == 0 {
		ops = []string{"(all parameters at their defaults)"}
	}
	return append([]string{"build -tags spsa"}, ops...)
}

func (e *env) c06spsa() {
	e.r.Rule = "spsa build (-tags \"verif spsa\"); tunables (name, default, min, max) read from params.UCIOptions(); (1) for each name and v in {min, max, a third in-range value}: params.Set(name, v) succeeds and changes exactly THAT parameter as seen through UCIOptions and through the exported variable, Set(name, min-1) / Set(name, max+1) / Set(unknown) are rejected and change nothing; (2) parameter vectors: all defaults, all at min, all at max, each parameter alone at its min and at its max, random in-range vectors; for each vector a slice of the C06 assertions on the real search under recover(): roots of several classes (ordinary, in check, single reply, checkmate, stalemate, drawn by clock / repetition, near-draw clocks), depth limits 1..6 (one deeper search of depth 8..11 per rich root), hard node budgets over a sweep, fresh and warmed engines, a second search on the same engine: no panic, move null or legal by the implementation and by the Lean rule book, null only on a final root, board unchanged (deep snapshot), node counter <= budget; (3) UCI sessions on the real uci.Driver in a child process of this binary: `uci` lists the same tunables with the same defaults, `setoption name … value …` for a vector, `position`, `go depth d`: a legal bestmove (or 0000 on a final root) and the engine process alive; the defaults are restored at the end. non-trivial = search under a non-default vector that was cut short by its budget or whose root is final / in check / single-reply; distinct by (vector, root, limits)"
	text := params.UCIOptions()
	ts, perr := parseTunables(text)
	spsa := text != "" && perr == nil && len(ts) > 0
	if spsa {
		// a Set round trip must change the value
		t := ts[0]
		other := t.min
		if other == t.def {
			other = t.max
		}
		params.Set(t.name, other)
		if ts2, err := parseTunables(params.UCIOptions()); err != nil || ts2[0].def != other {
			if f, ok := paramReaders[t.name]; !ok || f() != other {
				spsa = false
			}
		}
		params.Set(t.name, t.def)
	}
	if !spsa {
		note := "not an spsa build: params.UCIOptions() is empty or a Set round trip does not change the value (build the harness with -tags \"verif spsa\")"
		if perr != nil {
			note += "; " + perr.Error()
		}
		e.r.Fail(common.Mismatch{Property: "C06", Kind: "broken-correspondence", Ops: []string{"params.UCIOptions()"}, Impl: text, Note: note})
		return
	}
	restore := func() {
		for _, t := range ts {
			params.Set(t.name, t.def)
		}
	}
	defer func() {
		// ALWAYS back to the defaults; a row that cannot be restored through Set is reported
		restore()
		if after := params.UCIOptions(); after != text {
			e.r.Fail(common.Mismatch{Property: "C06", Kind: "broken-correspondence", Ops: []string{"params.Set(name, default) for every tunable"}, Impl: after, Spec: text,
				Note: "the parameters are not back at their defaults after setting every tunable to its default"})
		}
	}()
	rng := e.c.Rng
	e.r.Count("tunables", len(ts))
	for _, t := range ts {
		if _, ok := paramReaders[t.name]; !ok {
			e.r.Count("tunables-without-a-direct-reader", 1)
			e.r.Notes = append(e.r.Notes, "tunable "+t.name+" is unknown to the harness: observed through UCIOptions only")
		}
		if t.def < t.min || t.def > t.max {
			e.r.Fail(common.Mismatch{Property: "C06", Kind: "broken-correspondence", Ops: []string{"params.UCIOptions()"}, Impl: fmt.Sprintf("%+v", t), Note: "default outside the declared range"})
		}
	}
	for n := range paramReaders {
		found := false
		for _, t := range ts {
			found = found || t.name == n
		}
		if !found {
			e.r.Fail(common.Mismatch{Property: "C06", Kind: "broken-correspondence", Ops: []string{"params.UCIOptions()"}, Impl: text, Note: "exported search parameter " + n + " has no row in the tunables table"})
		}
	}

	// (1) Set changes exactly the named parameter, and rejects out-of-range values
	diffState := func(a, b map[string]int) (out []string) {
		for k, v := range b {
			if a[k] != v {
				out = append(out, fmt.Sprintf("%s:%d->%d", k, a[k], v))
			}
		}
		sort.Strings(out)
		return
	}
	for _, t := range ts {
		vals := []int{t.min, t.max}
		if t.max-t.min >= 2 {
			vals = append(vals, t.min+1+rng.IntN(t.max-t.min-1))
		}
		for _, v := range vals {
			restore()
			before := paramState()
			err := params.Set(t.name, v)
			after := paramState()
			e.r.Evaluations++
			e.r.Count("set-checks:in-range", 1)
			want := []string{}
			if v != t.def {
				want = append(want, fmt.Sprintf("u:%s:%d->%d", t.name, t.def, v))
				if _, ok := paramReaders[t.name]; ok {
					want = append(want, fmt.Sprintf("v:%s:%d->%d", t.name, t.def, v))
				}
			}
			sort.Strings(want)
			if got := diffState(before, after); err != nil || strings.Join(got, " ") != strings.Join(want, " ") {
				e.r.Fail(common.Mismatch{Property: "C06", Kind: "broken-correspondence", Ops: []string{"build -tags spsa", fmt.Sprintf("setoption name %s value %d", t.name, v)},
					Impl: fmt.Sprintf("err=%v changed: %s", err, strings.Join(got, " ")), Spec: "changed: " + strings.Join(want, " "),
					Note: "params.Set with an in-range value does not change exactly the named parameter (u: value listed by UCIOptions, v: exported variable)"})
				e.r.Count("FAILED:set-check", 1)
			}
		}
		for _, v := range []int{t.min - 1, t.max + 1, t.min - 1000, t.max + 1000} {
			restore()
			before := paramState()
			err := params.Set(t.name, v)
			e.r.Evaluations++
			e.r.Count("set-checks:out-of-range", 1)
			if got := diffState(before, paramState()); err == nil || len(got) > 0 {
				e.r.Fail(common.Mismatch{Property: "C06", Kind: "broken-correspondence", Ops: []string{"build -tags spsa", fmt.Sprintf("setoption name %s value %d", t.name, v)},
					Impl: fmt.Sprintf("err=%v changed: %s", err, strings.Join(got, " ")), Spec: fmt.Sprintf("rejected (range %d..%d), nothing changed", t.min, t.max),
					Note: "params.Set accepts an out-of-range value"})
				e.r.Count("FAILED:set-check", 1)
			}
		}
	}
	restore()
	if before := paramState(); params.Set("NoSuchParameter", 1) == nil || len(diffState(before, paramState())) > 0 {
		e.r.Fail(common.Mismatch{Property: "C06", Kind: "broken-correspondence", Ops: []string{"setoption name NoSuchParameter value 1"}, Note: "params.Set accepts an unknown name"})
	}

	// (2) parameter vectors
	mk := func(kind string, f func(i int, t tunable) int) paramVector {
		v := paramVector{kind: kind, vals: make([]int, len(ts))}
		for i, t := range ts {
			v.vals[i] = f(i, t)
		}
		return v
	}
	vectors := []paramVector{
		mk("all-default", func(_ int, t tunable) int { return t.def }),
		mk("all-min", func(_ int, t tunable) int { return t.min }),
		mk("all-max", func(_ int, t tunable) int { return t.max }),
	}
	for k := range ts {
		vectors = append(vectors,
			mk("one-at-min", func(i int, t tunable) int {
				if i == k {
					return t.min
				}
				return t.def
			}),
			mk("one-at-max", func(i int, t tunable) int {
				if i == k {
					return t.max
				}
				return t.def
			}))
	}
	for i := e.c.Pick(24, 300); i > 0; i-- {
		edge := rng.IntN(3) == 0 // a third of the random vectors sit on the edges of the ranges
		vectors = append(vectors, mk("random", func(_ int, t tunable) int {
			if edge {
				return []int{t.min, t.max, t.def}[rng.IntN(3)]
			}
			return t.min + rng.IntN(t.max-t.min+1)
		}))
	}
	e.collectRoots(e.c.Pick(36, 60))
	e.rootHistogram()
	// roots by class: the rich ones reach every pruning rule, the others are the corner cases
	var rich, corner []*root
	for _, rt := range e.roots {
		switch {
		case !rt.final && !rt.inCheck && len(rt.legal) >= 20:
			rich = append(rich, rt)
		default:
			corner = append(corner, rt)
		}
	}
	budgets := []int{0, 1, 2, 3, 5, 9, 17, 40, 100, 300, 1000, 3000}
	for vi, v := range vectors {
		restore()
		pre := vectorOps(ts, v)
		okSet := true
		for i, t := range ts {
			if err := params.Set(t.name, v.vals[i]); err != nil {
				okSet = false
				e.r.Fail(common.Mismatch{Property: "C06", Kind: "broken-correspondence", Ops: pre, Impl: err.Error(), Note: fmt.Sprintf("params.Set(%s, %d) rejects an in-range value", t.name, v.vals[i])})
			}
		}
		if !okSet {
			continue
		}
		var jobs []*job
		add := func(rt *root, l limits, warm bool) {
			j := &job{rt: rt, l: l, tt: ttSizes[rng.IntN(3)], tag: "spsa", pre: pre}
			if warm {
				j.warmOn = []int{rng.IntN(len(e.roots))}
			}
			jobs = append(jobs, j)
		}
		// three rich roots: every depth 1..6 (7 on one), and the budget sweep
		for k := 0; k < 3 && len(rich) > 0; k++ {
			rt := rich[(vi*3+k)%len(rich)]
			for d := 1; d <= 6+k/2; d++ {
				add(rt, limits{depth: d, nodes: e.c.Pick(150000, 400000)}, d%3 == 0)
			}
			// and one deeper search, where every pruning rule and reduction is in full use
			add(rt, limits{depth: 8 + rng.IntN(4), nodes: e.c.Pick(100000, 400000)}, k == 1)
			for _, n := range budgets {
				add(rt, limits{depth: 1 + rng.IntN(6), nodes: n}, rng.IntN(4) == 0)
			}
		}
		// ten corner-case roots: a depth-limited search, a budget, a soft limit
		for k := 0; k < 10 && len(corner) > 0; k++ {
			rt := corner[(vi*10+k)%len(corner)]
			add(rt, limits{depth: 1 + rng.IntN(6), nodes: e.c.Pick(30000, 100000)}, k%2 == 0)
			add(rt, limits{depth: 1 + rng.IntN(6), nodes: budgets[rng.IntN(len(budgets))]}, false)
			add(rt, limits{depth: 2 + rng.IntN(3), nodes: -1, soft: 1 + rng.IntN(500)}, false)
		}
		before := len(e.r.Mismatches)
		var evals atomic.Int64
		parallel(len(jobs), func(i int) { evals.Add(int64(e.runJob(jobs[i], e.roots))) })
		e.r.Evaluations += int(evals.Load())
		e.r.Count("vectors", 1)
		e.r.Count("vectors:"+v.kind, 1)
		e.r.Count("searches-under-a-vector", int(evals.Load()))
		if len(e.r.Mismatches) > before {
			e.r.Count("FAILED:vector:"+v.kind, 1)
		}
		for _, j := range jobs {
			if v.kind != "all-default" && (j.l.nodes >= 0 && j.l.nodes <= 3000 || j.rt.final || j.rt.inCheck || len(j.rt.legal) == 1) {
				e.r.Nontrivial(strings.Join(j.ops(), "|"))
			}
		}
		if vi == 1 {
			e.r.Sample(map[string]any{"vector": pre, "run": jobs[0].ops()}, 3)
		}
	}
	restore()

	// (3) UCI sessions in a child process of this (spsa) binary
	type us struct {
		v     paramVector
		fails []common.Mismatch
		evals int
	}
	var sess []*us
	for _, k := range []int{1, 2} { // all-min, all-max
		sess = append(sess, &us{v: vectors[k]})
	}
	for i := e.c.Pick(4, 24); i > 0; i-- {
		sess = append(sess, &us{v: vectors[3+rng.IntN(len(vectors)-3)]})
	}
	type step struct {
		rt  *root
		cmd string
	}
	scripts := make([][]step, len(sess))
	for i := range sess {
		for k := 0; k < 4; k++ {
			rt := e.roots[rng.IntN(len(e.roots))]
			if k < 2 && len(rich) > 0 {
				rt = rich[rng.IntN(len(rich))]
			}
			scripts[i] = append(scripts[i], step{rt, fmt.Sprintf("go depth %d", 2+rng.IntN(4))})
		}
	}
	parallel(len(sess), func(i int) {
		u := sess[i]
		p := newProcSession()
		defer p.close()
		ops := []string{"engine process built with -tags spsa", "uci"}
		fail := func(impl, spec, note string) {
			u.fails = append(u.fails, common.Mismatch{Property: "C06", Kind: "failing-input", Ops: append([]string{}, ops...), Impl: impl, Spec: spec, Note: note})
		}
		p.send("uci")
		lines, ok := p.waitLine("uciok", 30*time.Second)
		if !ok {
			fail("no uciok; stderr: "+p.errb.String(), "", "the engine process does not answer `uci`")
			return
		}
		var listed []string
		for _, l := range lines {
			if m := reOption.FindStringSubmatch(l); m != nil {
				if _, known := map[string]bool{"Hash": true, "Threads": true}[m[1]]; !known {
					listed = append(listed, l)
				}
			}
		}
		if got := strings.Join(listed, "\n") + "\n"; got != text {
			u.fails = append(u.fails, common.Mismatch{Property: "C06", Kind: "broken-correspondence", Ops: ops, Impl: got, Spec: text,
				Note: "the tunables listed by a new engine process differ from params.UCIOptions() at the start of this process"})
		}
		for k, t := range ts {
			if u.v.vals[k] != t.def {
				c := fmt.Sprintf("setoption name %s value %d", t.name, u.v.vals[k])
				ops = append(ops, c)
				p.send(c)
			}
		}
		for _, st := range scripts[i] {
			ops = append(ops, st.rt.position(), st.cmd)
			p.send(st.rt.position())
			p.send(st.cmd)
			_, best, ok := p.waitBest(60 * time.Second)
			u.evals++
			if !ok {
				time.Sleep(50 * time.Millisecond)
				eb := p.errb.String()
				if len(eb) > 500 {
					eb = eb[:500]
				}
				fail("no bestmove (engine process ended or silent for 60 s); stderr: "+eb, "a legal bestmove", "search crashed: the engine process did not answer `go` under in-range parameter values")
				return
			}
			f := strings.Fields(best)
			okMove := len(f) >= 2 && f[1] == "0000" && st.rt.final
			if len(f) >= 2 && f[1] != "0000" {
				if m, okw := moveWord(f[1]); okw && contains(st.rt.legal, m) && contains(st.rt.spec, m) {
					okMove = true
				}
			}
			if !okMove {
				fail(best, "legal="+movesUCI(st.rt.spec), "UCI answer is neither a legal move nor the null move on a final root")
			}
		}
	})
	for _, u := range sess {
		e.r.Evaluations += u.evals
		e.r.TracesValidated++
		e.r.Count("uci-sessions", 1)
		e.r.Count("uci-sessions:"+u.v.kind, 1)
		e.r.Count("uci-sessions:searches", u.evals)
		for _, f := range u.fails {
			e.r.Fail(f)
		}
		if len(u.fails) > 0 {
			e.r.Count("FAILED:uci-session:"+u.v.kind, 1)
		}
	}
}

// ---------------------------------------------------------------------------------------------
// C07 through the REAL uci.Driver: roots given as text (`position fen F moves …` / `position
// startpos moves …`) with move lists that contain promotions to all four pieces (both colours,
// pushes and captures), castling and en-passant captures, then `go depth d` / `go nodes n`.
// The expected root is computed without the driver's text parser: the harness encodes every move
// itself (from, to, promotion piece -> 16-bit word), the Lean rule book (drv_board: fen, speclegal,
// mkq, spec, fenout) replays the words from F, and the engine's board API replays the same words.
// Every info variation, the bestmove and the ponder move must be legal lines from THAT root.

func sqName(i int) string { return string([]byte{byte('a' + i%8), byte('1' + i/8)}) }

// moveText renders a move word as UCI text (own encoder, not move.String).
func moveText(m move.Move) string {
	w := int(m)
	s := sqName((w>>6)&63) + sqName(w&63)
	if p := (w >> 12) & 7; p != 0 {
		s += string(" pnbrqk"[p])
	}
	return s
}

// moveWord parses UCI move text into the 16-bit word (own decoder); ok=false on malformed text.
func moveWord(s string) (move.Move, bool) {
	if len(s) != 4 && len(s) != 5 {
		return 0, false
	}
	sq := func(a, b byte) int {
		if a < 'a' || a > 'h' || b < '1' || b > '8' {
			return -1
		}
		return int(a-'a') + 8*int(b-'1')
	}
	f, t := sq(s[0], s[1]), sq(s[2], s[3])
	if f < 0 || t < 0 {
		return 0, false
	}
	w := t | f<<6
	if len(s) == 5 {
		p := strings.IndexByte("  nbrq", s[4])
		if p < 2 {
			return 0, false
		}
		w |= p << 12
	}
	return move.Move(w), true
}

// boardArray is the piece placement of a FEN as a 64-array (0 = empty).
func boardArray(fen string) (a [64]byte) {
	r, f := 7, 0
	for _, c := range []byte(strings.Fields(fen)[0]) {
		switch {
		case c == '/':
			r, f = r-1, 0
		case c >= '1' && c <= '8':
			f += int(c - '0')
		default:
			if r >= 0 && f < 8 {
				a[r*8+f] = c
			}
			f++
		}
	}
	return
}

// moveKind classifies a legal move on the position fen: "promo-q/r/b/n[-capture]", "castle", "ep", "double", "".
func moveKind(fen string, m move.Move) string {
	a := boardArray(fen)
	w := int(m)
	from, to := (w>>6)&63, w&63
	p := a[from]
	switch {
	case (w>>12)&7 != 0:
		k := "promo-" + string(" pnbrqk"[(w>>12)&7])
		if a[to] != 0 {
			k += "-capture"
		}
		return k
	case (p == 'K' || p == 'k') && (from%8-to%8 == 2 || to%8-from%8 == 2):
		return "castle"
	case (p == 'P' || p == 'p') && from%8 != to%8 && a[to] == 0:
		return "ep"
	case (p == 'P' || p == 'p') && (from-to == 16 || to-from == 16):
		return "double"
	}
	return ""
}

// specialStarts are start positions from which special moves are near: a small corpus and a
// constructive sampler (castling set-ups, pawns one step from promotion with capture targets next
// to the promotion square, pawn pairs one double push away from an en-passant capture).
func (e *env) specialStarts(n int) []string {
	rng := e.c.Rng
	out := []string{
		startFEN,
		"r3k2r/1P4P1/8/8/8/8/1p4p1/R3K2R w KQkq - 0 1",
		"4k3/P6P/8/8/8/8/p6p/4K3 b - - 0 1",
		"4k3/2p1p1p1/8/1P1P1P2/1p1p1p2/8/2P1P1P1/4K3 w - - 0 1",
		"8/P4pkp/6p1/3q4/8/8/5PPP/6K1 w - - 0 1",
		"r3k2r/pppp1ppp/8/4p3/4P3/8/PPPP1PPP/R3K2R b KQkq - 0 1",
	}
	for tries := 0; len(out) < n && tries < 400*n; tries++ {
		sq := map[int]byte{}
		put := func(i int, p byte) bool {
			if _, ok := sq[i]; ok || i < 0 || i > 63 {
				return false
			}
			sq[i] = p
			return true
		}
		rights := ""
		if rng.IntN(3) != 0 {
			put(4, 'K')
			put(60, 'k')
			for _, c := range []struct {
				sq int
				p  byte
				r  string
			}{{7, 'R', "K"}, {0, 'R', "Q"}, {63, 'r', "k"}, {56, 'r', "q"}} {
				if rng.IntN(4) != 0 {
					put(c.sq, c.p)
					rights += c.r
				}
			}
		} else {
			put(rng.IntN(16), 'K')
			put(48+rng.IntN(16), 'k')
		}
		if rights == "" {
			rights = "-"
		}
		for f := 0; f < 8; f++ {
			switch rng.IntN(7) {
			case 0: // white pawn one step from promotion, maybe a capture target beside the promotion square
				put(48+f, 'P')
				if rng.IntN(2) == 0 {
					put(56+f+1-2*rng.IntN(2), "nbrq"[rng.IntN(4)])
				}
			case 1:
				put(8+f, 'p')
				if rng.IntN(2) == 0 {
					put(f+1-2*rng.IntN(2), "NBRQ"[rng.IntN(4)])
				}
			case 2: // en passant one double push away: white pawn on its 5th rank, black pawn at home on the next file
				put(32+f, 'P')
				if f < 7 {
					put(48+f+1, 'p')
				}
			case 3:
				put(24+f, 'p')
				if f < 7 {
					put(8+f+1, 'P')
				}
			case 4:
				put(8+f, 'P')
				put(48+f, 'p')
			}
		}
		fen := strings.Replace(fenOf(sq, []string{"w", "b"}[rng.IntN(2)]), " - - 0 1", " "+rights+" - 0 1", 1)
		rt := &root{fen: fen}
		if !e.prepare(rt) || rt.final {
			continue
		}
		out = append(out, fen)
	}
	return out
}

// procSession is a UCI session with the driver running in a child process of the harness binary.
type procSession struct {
	cmd   *exec.Cmd
	in    io.WriteCloser
	lines chan string
	errb  *bytes.Buffer
}

func newProcSession() *procSession {
	exe, err := os.Executable()
	if err != nil {
		panic("search harness: cannot find its own executable: " + err.Error())
	}
	p := &procSession{cmd: exec.Command(exe, "-child-uci"), lines: make(chan string, 4096), errb: &bytes.Buffer{}}
	p.in, _ = p.cmd.StdinPipe()
	out, _ := p.cmd.StdoutPipe()
	p.cmd.Stderr = p.errb
	if err := p.cmd.Start(); err != nil {
		panic("search harness: cannot start the engine process: " + err.Error())
	}
	go func() {
		sc := bufio.NewScanner(out)
		sc.Buffer(make([]byte, 1<<20), 1<<20)
		for sc.Scan() {
			p.lines <- sc.Text()
		}
		close(p.lines)
	}()
	return p
}

func (p *procSession) send(line string) { io.WriteString(p.in, line+"\n") }

// waitBest collects the output up to the bestmove line; ok=false when the process ended or timed out.
func (p *procSession) waitBest(timeout time.Duration) (lines []string, best string, ok bool) {
	t := time.NewTimer(timeout)
	defer t.Stop()
	for {
		select {
		case l, open := <-p.lines:
			if !open {
				return lines, "", false
			}
			if strings.HasPrefix(l, "bestmove") {
				return lines, l, true
			}
			lines = append(lines, l)
		case <-t.C:
			return lines, "", false
		}
	}
}

// waitLine collects the output up to a line that starts with prefix.
func (p *procSession) waitLine(prefix string, timeout time.Duration) (lines []string, ok bool) {
	t := time.NewTimer(timeout)
	defer t.Stop()
	for {
		select {
		case l, open := <-p.lines:
			if !open {
				return lines, false
			}
			if strings.HasPrefix(l, prefix) {
				return lines, true
			}
			lines = append(lines, l)
		case <-t.C:
			return lines, false
		}
	}
}

func (p *procSession) close() {
	p.send("quit")
	p.in.Close()
	done := make(chan struct{})
	go func() { p.cmd.Wait(); close(done) }()
	select {
	case <-done:
	case <-time.After(3 * time.Second):
		p.cmd.Process.Kill()
		<-done
	}
}

type uciPoint struct {
	k   int // number of game moves in the position command
	cmd string
}

type uciGame struct {
	fen    string
	moves  []move.Move
	kinds  []string
	points []uciPoint
	ponder bool
	fails  []common.Mismatch
	evals  int
	lean   int
}

// positionCmd renders the position command for the first k moves (own move text).
func (g *uciGame) positionCmd(k int, startpos bool) string {
	s := "position fen " + g.fen
	if startpos {
		s = "position startpos"
	}
	if k > 0 {
		var ts []string
		for _, m := range g.moves[:k] {
			ts = append(ts, moveText(m))
		}
		s += " moves " + strings.Join(ts, " ")
	}
	return s
}

func (e *env) c07uci() {
	rng := e.c.Rng
	starts := e.specialStarts(e.c.Pick(14, 60))
	var games []*uciGame
	for gi := 0; gi < e.c.Pick(20, 80); gi++ {
		g := &uciGame{fen: starts[(gi+rng.IntN(2)*rng.IntN(len(starts)))%len(starts)], ponder: rng.IntN(2) == 0}
		b, err := board.FromFEN(g.fen)
		if err != nil {
			continue
		}
		want := []string{"promo-q", "promo-r", "promo-b", "promo-n"}[gi%4] // every game prefers another promotion piece
		plies := 4 + rng.IntN(14)
		for p := 0; p < plies; p++ {
			legal := implutil.Legal(b)
			if len(legal) == 0 || b.FiftyCnt >= 100 || b.Threefold() >= 3 {
				break
			}
			fen := b.FEN()
			weights := make([]int, len(legal))
			total := 0
			for i, m := range legal {
				w := 1
				switch k := moveKind(fen, m); {
				case strings.HasPrefix(k, want):
					w = 400
				case strings.HasPrefix(k, "promo"):
					w = 25
				case k == "ep":
					w = 150
				case k == "castle":
					w = 60
				case k == "double":
					w = 8
				}
				weights[i] = w
				total += w
			}
			x := rng.IntN(total)
			i := 0
			for x >= weights[i] {
				x -= weights[i]
				i++
			}
			g.moves = append(g.moves, legal[i])
			g.kinds = append(g.kinds, moveKind(fen, legal[i]))
			b.MakeMove(legal[i])
		}
		// half of the games are given from a position in the middle (its FEN carries clocks, castling
		// rights and — right after a double push — the en-passant square), the rest of the moves as the list
		first := len(g.moves) // the first promotion / castling / en-passant move stays in the list
		for i := len(g.kinds) - 1; i >= 0; i-- {
			if g.kinds[i] != "" && g.kinds[i] != "double" {
				first = i
			}
		}
		if first > 0 && rng.IntN(2) == 0 {
			j := 1 + rng.IntN(first)
			for i, k := range g.kinds[:first] {
				if k == "double" && rng.IntN(2) == 0 {
					j = i + 1
					break
				}
			}
			if mb, err := board.FromFEN(g.fen); err == nil {
				for _, m := range g.moves[:j] {
					mb.MakeMove(m)
				}
				g.fen, g.moves, g.kinds = mb.FEN(), g.moves[j:], g.kinds[j:]
			}
		}
		// search points: after special moves (at once and a ply or two later) and at the end of the list
		seen := map[int]bool{}
		addPoint := func(k int) {
			if k < 0 || k > len(g.moves) || seen[k] || len(g.points) >= 5 {
				return
			}
			seen[k] = true
			cmd := fmt.Sprintf("go depth %d", 2+rng.IntN(5))
			if rng.IntN(2) == 0 {
				cmd = fmt.Sprintf("go nodes %d", 200+rng.IntN(5000))
			}
			g.points = append(g.points, uciPoint{k, cmd})
		}
		for i, k := range g.kinds {
			if strings.HasPrefix(k, "promo") || k == "ep" || k == "castle" {
				addPoint(i + 1)
				addPoint(i + 2 + rng.IntN(2))
			}
		}
		addPoint(len(g.moves))
		sort.Slice(g.points, func(a, b int) bool { return g.points[a].k < g.points[b].k })
		games = append(games, g)
	}
	parallel(len(games), func(gi int) { e.runUCIGame(games[gi]) })
	for _, g := range games {
		e.r.Evaluations += g.evals
		e.r.TracesValidated++
		e.r.Count("uci-sessions", 1)
		e.r.Count("uci-sessions:searches", g.evals)
		e.r.Count("uci-sessions:variations-checked-by-lean-spec-from-the-replayed-root", g.lean)
		for i, k := range g.kinds {
			if k != "" && k != "double" && i < g.points[len(g.points)-1].k {
				e.r.Count("uci-moves-in-position-commands:"+k, 1)
			}
		}
		e.r.Count("uci-moves-in-position-commands", g.points[len(g.points)-1].k)
		e.r.Nontrivial("ucigame|" + g.positionCmd(len(g.moves), false))
		for _, f := range g.fails {
			e.r.Fail(f)
		}
		if len(g.fails) > 0 {
			e.r.Count("FAILED:uci-sessions", 1)
		}
	}
	if len(games) > 0 {
		e.r.Sample(map[string]any{"uci-session": games[0].positionCmd(len(games[0].moves), false)}, 6)
	}
}

// leanReplay asks the rule book to replay words from fen; it returns the index of the first word
// that is not legal (-1: all legal), and — when all are legal — the position reached (FEN text) and
// its legal moves.
func (e *env) leanReplay(fen string, words []move.Move, wantState bool) (bad int, reached string, legal []move.Move) {
	reqs := []string{"fen " + fen}
	for _, m := range words {
		reqs = append(reqs, "speclegal "+strconv.Itoa(int(m)), "mkq "+strconv.Itoa(int(m)))
	}
	if wantState {
		reqs = append(reqs, "fenout", "spec")
	}
	e.mu.Lock()
	ans := e.bm.Batch(reqs)
	e.mu.Unlock()
	for i := range words {
		if a := ans[1+2*i]; len(a) == 0 || a[0] != '1' {
			return i, "", nil
		}
	}
	if wantState {
		reached = ans[len(ans)-2]
		if s := ans[len(ans)-1]; s != "" {
			for _, f := range strings.Split(s, ",") {
				v, _ := strconv.Atoi(f)
				legal = append(legal, move.Move(v))
			}
		}
		sort.Slice(legal, func(a, b int) bool { return legal[a] < legal[b] })
	}
	return -1, reached, legal
}

func (e *env) runUCIGame(g *uciGame) {
	s := newProcSession()
	defer s.close()
	var ops []string
	send := func(c string) {
		ops = append(ops, c)
		s.send(c)
	}
	fail := func(kind, impl, spec, note string) {
		g.fails = append(g.fails, common.Mismatch{Property: "C07", Kind: kind, Ops: tailOps(append([]string{}, ops...)), Impl: impl, Spec: spec, Note: note})
	}
	if g.ponder {
		send("setoption name Ponder value true")
	}
	for _, pt := range g.points {
		played := g.moves[:pt.k]
		// the expected root, without the driver: rule book and board API replay the words
		bad, leanFEN, leanLegal := e.leanReplay(g.fen, played, true)
		if bad >= 0 {
			panic(fmt.Sprintf("c07uci: generated game move #%d (%s) rejected by the rule book: %s", bad, moveText(played[bad]), g.positionCmd(pt.k, false)))
		}
		ab, err := board.FromFEN(g.fen)
		if err != nil {
			panic("c07uci: " + err.Error())
		}
		for _, m := range played {
			ab.MakeMove(m)
		}
		rootFEN := ab.FEN()
		apiLegal := implutil.Legal(ab)
		rt := &root{name: "uci", fen: g.fen, key: rootFEN, legal: apiLegal, spec: leanLegal}
		for _, m := range played {
			rt.moves = append(rt.moves, moveText(m))
		}
		rt.final = len(apiLegal) == 0 || ab.FiftyCnt >= 100 || ab.Threefold() >= 3
		send(g.positionCmd(pt.k, g.fen == startFEN && pt.k%2 == 0))
		send("fen")
		send(pt.cmd)
		lines, best, ok := s.waitBest(60 * time.Second)
		g.evals++
		var infoText strings.Builder
		drvFEN := ""
		for _, l := range lines {
			if !strings.HasPrefix(l, "info") && drvFEN == "" {
				drvFEN = l
			}
		}
		if !ok {
			if drvFEN != "" && drvFEN != rootFEN {
				fail("broken-correspondence", drvFEN, rootFEN+" (rule book: "+leanFEN+")", "the driver's board after the position command is not the position reached by the moves of the command")
			}
			time.Sleep(50 * time.Millisecond) // let the stderr of a dying process arrive
			eb := s.errb.String()
			if len(eb) > 600 {
				eb = eb[:600]
			}
			fail("failing-input", "no bestmove (engine process ended or silent for 60 s); stderr: "+eb, "a bestmove that is legal in "+rootFEN, "UCI `go` on a root given by a position command with a move list was not answered")
			return
		}
		drvFEN = ""
		for _, l := range lines {
			if strings.HasPrefix(l, "info") {
				infoText.WriteString(l + "\n")
			} else if drvFEN == "" {
				drvFEN = l
			}
		}
		if drvFEN != rootFEN {
			fail("broken-correspondence", drvFEN, rootFEN+" (rule book: "+leanFEN+")", "the driver's board after the position command is not the position reached by the moves of the command")
		}
		if leanFEN != rootFEN {
			fail("broken-correspondence", rootFEN, leanFEN, "board API and rule book disagree on the position reached by the moves (FEN text)")
		}
		// the C07 assertions on this search, relative to the expected root
		oc := outcome{out: infoText.String(), nodes: 1 << 62}
		bf := strings.Fields(best)
		decodeOK := len(bf) >= 2
		if decodeOK && bf[1] != "0000" {
			oc.mv, decodeOK = moveWord(bf[1])
		}
		if decodeOK && len(bf) >= 4 && bf[2] == "ponder" && bf[3] != "0000" {
			oc.pm, decodeOK = moveWord(bf[3])
		}
		if !decodeOK {
			fail("failing-input", best, "", "unparsable bestmove line")
			continue
		}
		j := &job{rt: rt, tt: 1 << 20, tag: "uci"}
		before := len(g.fails)
		e.checkC07Into(j, oc, append([]string{}, ops...), &g.fails)
		if oc.mv != 0 && !contains(leanLegal, oc.mv) {
			fail("failing-input", best, "rule-book legal moves: "+movesUCI(leanLegal), "bestmove is not legal in the position the command set up")
		} else if oc.mv == 0 && !rt.final {
			fail("failing-input", best, "", "null bestmove on a non-final root")
		}
		// every reported variation once more by the rule book, replayed from F through the game moves
		if infos, err := parseInfos(oc.out); err == nil && len(g.fails) == before {
			for _, in := range infos {
				if !in.full || len(in.pv) == 0 {
					continue
				}
				words := append([]move.Move{}, played...)
				okText := true
				for _, t := range in.pv {
					w, ok := moveWord(t)
					okText = okText && ok
					words = append(words, w)
				}
				if !okText {
					fail("failing-input", strings.Join(in.pv, " "), "", "malformed move text in a reported variation")
					continue
				}
				g.lean++
				if bad, _, _ := e.leanReplay(g.fen, words, false); bad >= 0 {
					fail("failing-input", strings.Join(in.pv, " "), fmt.Sprintf("move #%d (%s) is not legal by the rule book", bad-len(played), in.pv[bad-len(played)]),
						fmt.Sprintf("variation of depth %d is not a legal line from the root the position command set up (rule-book replay)", in.depth))
				}
			}
		}
	}
}

// ---------------------------------------------------------------------------------------------
// C07: deep searches of trivial endings.  The rows of the triangular PV buffer are only used beyond
// ply ~32 when a reported line has 34 and more moves, which needs an iteration depth >= 34: only
// very simple endings get there at an affordable cost.  Families (all generated from the seed, both
// colours, either side to move):
//   kpk    king + pawn v king, contested: pawn on its 2nd/3rd rank, the defending king in front of
//          it, the attacking king next to it (reaches 34..50 move lines within ~1 M nodes)
//   chain  locked pawn chains (4..7 files) with the kings walking around them
//   krk, kqk  king + rook / queen v king
//   ocb    opposite-coloured bishops with a blockaded pawn
// searched with a depth limit in 34..63 and a hard node budget that bounds the cost.

func fenOf(sq map[int]byte, stm string) string {
	var sb strings.Builder
	for r := 7; r >= 0; r-- {
		empty := 0
		for f := 0; f < 8; f++ {
			if p, ok := sq[r*8+f]; ok {
				if empty > 0 {
					sb.WriteByte(byte('0' + empty))
					empty = 0
				}
				sb.WriteByte(p)
			} else {
				empty++
			}
		}
		if empty > 0 {
			sb.WriteByte(byte('0' + empty))
		}
		if r > 0 {
			sb.WriteByte('/')
		}
	}
	return sb.String() + " " + stm + " - - 0 1"
}

// flipColours mirrors the position top to bottom and swaps the colours.
func flipColours(sq map[int]byte, stm string) (map[int]byte, string) {
	out := map[int]byte{}
	for k, p := range sq {
		q := p ^ 0x20 // swap case
		out[(7-k/8)*8+k%8] = q
	}
	if stm == "w" {
		return out, "b"
	}
	return out, "w"
}

func (e *env) deepRoots(family string, n int) []*root {
	rng := e.c.Rng
	var out []*root
	seen := map[string]bool{}
	onBoard := func(r, f int) bool { return r >= 0 && r < 8 && f >= 0 && f < 8 }
	for tries := 0; len(out) < n && tries < 2000*n; tries++ {
		sq := map[int]byte{}
		put := func(r, f int, p byte) bool {
			if !onBoard(r, f) {
				return false
			}
			if _, ok := sq[r*8+f]; ok {
				return false
			}
			sq[r*8+f] = p
			return true
		}
		ok := true
		switch family {
		case "kpk":
			f, r := rng.IntN(8), 1+rng.IntN(3)/2
			ok = put(r, f, 'P') &&
				put(r+2+rng.IntN(4), f+[]int{-1, 0, 0, 1}[rng.IntN(4)], 'k') &&
				put(r-1+rng.IntN(3), f-2+rng.IntN(5), 'K')
		case "krk", "kqk":
			p := byte('R')
			if family == "kqk" {
				p = 'Q'
			}
			ok = put(rng.IntN(8), rng.IntN(8), 'K') && put(rng.IntN(8), rng.IntN(8), 'k') && put(rng.IntN(8), rng.IntN(8), p)
		case "ocb":
			// white pawn blockaded by the black king; white bishop on the colour the pawn's path does not need
			f, r := rng.IntN(8), 3+rng.IntN(3)
			ok = put(r, f, 'P') && put(r+1, f, 'k') && put(rng.IntN(r+1), rng.IntN(8), 'K')
			for _, b := range []byte{'B', 'b'} {
				br, bf := rng.IntN(8), rng.IntN(8)
				want := 0 // white bishop on dark squares ((r+f) even), black bishop on light squares
				if b == 'b' {
					want = 1
				}
				if (br+bf)%2 != want {
					bf ^= 1
				}
				ok = ok && put(br, bf, b)
			}
		case "chain":
			k := 4 + rng.IntN(4)
			f0 := rng.IntN(9 - k)
			for f := f0; f < f0+k; f++ {
				r := 2 + rng.IntN(3)
				ok = ok && put(r, f, 'P') && put(r+1, f, 'p')
			}
			ok = ok && put(rng.IntN(8), rng.IntN(8), 'K') && put(rng.IntN(8), rng.IntN(8), 'k')
		}
		if !ok {
			continue
		}
		stm := []string{"w", "b"}[rng.IntN(2)]
		if rng.IntN(2) == 0 {
			sq, stm = flipColours(sq, stm)
		}
		rt := &root{name: "deep:" + family, fen: fenOf(sq, stm)}
		if seen[rt.fen] || !e.prepare(rt) || rt.final {
			continue
		}
		seen[rt.fen] = true
		out = append(out, rt)
	}
	return out
}

// deepJobs draws the deep runs of one c07 run.
func (e *env) deepJobs() []*job {
	rng := e.c.Rng
	type fam struct {
		name   string
		n      int
		budget int
	}
	fams := []fam{{"kpk", e.c.Pick(10, 40), 1200000}, {"chain", e.c.Pick(1, 6), 2500000}, {"krk", e.c.Pick(1, 4), 700000}, {"kqk", e.c.Pick(1, 4), 700000}, {"ocb", e.c.Pick(1, 4), 700000}}
	var out []*job
	for _, f := range fams {
		for i, rt := range e.deepRoots(f.name, f.n) {
			j := &job{rt: rt, tt: []int{1 << 20, 4 << 20, 16 << 20}[rng.IntN(3)], tag: "deep:" + f.name}
			j.l = limits{depth: 34 + rng.IntN(30), nodes: f.budget}
			if rng.IntN(2) == 0 {
				j.l.depth = MaxPlies - 1
			}
			if f.name == "kpk" && i%2 == 1 {
				// room for the 40..50 move lines
				j.l.nodes = 3000000
				j.l.depth = MaxPlies - 1
			}
			out = append(out, j)
		}
	}
	return out
}

// ---------------------------------------------------------------------------------------------
// C07: the PV buffer model (Model/Pv.lean through drv_search) against a verbatim copy of search/pv.go
// (the type is unexported and has no hook; the copy is kept textually identical to pv.go).

type pvCopy struct {
	moves [MaxPlies * (MaxPlies + 1) / 2]move.Move
	depth [MaxPlies]Depth
}

func (pv *pvCopy) insert(ply Depth, m move.Move) {
	i := bufIxCopy(ply)
	j := bufIxCopy(ply + 1)
	l := pv.depth[ply+1]

	pv.moves[i] = m
	copy(pv.moves[i+1:i+1+int(l)], pv.moves[j:j+int(l)])
	pv.depth[ply] = l + 1
}

func (pv *pvCopy) setNull(ply Depth) { pv.depth[ply] = 0 }

func bufIxCopy(ply Depth) int {
	return int(ply)*MaxPlies - int(ply)*int(ply-1)/2
}

func (pv *pvCopy) active() []move.Move { return pv.moves[0:pv.depth[0]] }

func (e *env) pvModel() {
	if e.c.Driver == "" {
		return
	}
	if _, err := os.Stat(e.c.Driver); err != nil {
		e.r.Notes = append(e.r.Notes, "drv_search missing: PV buffer model not compared")
		return
	}
	m := common.StartModel(e.c.Driver)
	defer m.Close()
	var reqs []string
	for p := -128; p <= 127; p++ {
		reqs = append(reqs, fmt.Sprintf("bufix %d", p))
	}
	ans := m.Batch(reqs)
	for i, p := 0, -128; p <= 127; i, p = i+1, p+1 {
		want := strconv.Itoa(bufIxCopy(Depth(p)))
		e.r.Evaluations++
		e.r.Count("pvmodel:bufix", 1)
		if ans[i] != want {
			e.r.Fail(common.Mismatch{Property: "C07", Kind: "broken-correspondence", Ops: []string{reqs[i]}, Impl: want, Model: ans[i],
				Note: "bufIx: Go expression and Lean model disagree"})
		}
	}
	// random scripts in the order alphaBeta uses the buffer: setNull(ply) on entry, insert(ply, m) after a child at ply+1
	n := e.c.Pick(300, 5000)
	for k := 0; k < n; k++ {
		var pv pvCopy
		var ops []string
		depth := 1 + e.c.Rng.IntN(63)
		var walk func(ply int)
		walk = func(ply int) {
			pv.setNull(Depth(ply))
			ops = append(ops, fmt.Sprintf("n%d", ply))
			if ply >= depth || ply >= MaxPlies-1 {
				return
			}
			for c := 0; c < 1+e.c.Rng.IntN(2); c++ {
				if len(ops) > 400 {
					return
				}
				walk(ply + 1)
				if e.c.Rng.IntN(3) != 0 {
					mv := move.Move(1 + e.c.Rng.IntN(32767))
					pv.insert(Depth(ply), mv)
					ops = append(ops, fmt.Sprintf("i%d:%d", ply, mv))
				}
			}
		}
		walk(0)
		req := "pv " + strings.Join(ops, " ")
		a := m.Ask(req)
		act := implutil.MovesStr(pv.active())
		want := act + " | " + act + " | 1"
		e.r.Evaluations++
		e.r.Count("pvmodel:scripts", 1)
		if len(pv.active()) >= 2 {
			e.r.Nontrivial("pvscript|" + hashStr(req))
		}
		if a != want {
			e.r.Fail(common.Mismatch{Property: "C07", Kind: "broken-correspondence", Ops: []string{req}, Impl: want, Model: a,
				Note: "PV buffer: copy of pv.go vs Lean flat buffer / list-of-rows model"})
		}
	}
}

// ---------------------------------------------------------------------------------------------
// C08

// digest returns the hook digest of the persistent search state when /repo provides it
// (search/export_verif.go, proposed), "" otherwise.
func digest(s *search.Search) string {
	if d, ok := any(s).(interface{ VerifDigest() string }); ok {
		return d.VerifDigest()
	}
	return ""
}

// optVar is one point of the option space of search.Go that must not influence the result: the
// caller's own Counters or the engine's default ones, an Output writer or none.
type optVar struct{ noCnt, noOut bool }

var optVars = [4]optVar{{false, false}, {true, false}, {false, true}, {true, true}}

func (v optVar) String() string {
	c, o := "own-counters", "writer"
	if v.noCnt {
		c = "default-counters"
	}
	if v.noOut {
		o = "nil-output"
	}
	return c + "+" + o
}

func (v optVar) on(l limits) limits {
	l.noCnt, l.noOut = v.noCnt, v.noOut
	return l
}

// obs is everything one run lets an observer see in its option variant, plus the state digest.
type obs struct {
	res    string   // score, move, ponder move (and the panic text)
	nodes  int      // -1: the variant reports no node count (default counters without output)
	hasOut bool     // the variant has info lines
	lines  []string // canonical info lines (time blanked)
	last   int      // depth of the last info line, -1 when unknown
	null   bool     // the null move was returned
	digest string
}

func observe(s *search.Search, oc outcome, l limits) obs {
	o := observeRun(oc, l)
	o.digest = digest(s)
	return o
}

// observeRun is observe without the state digest (hashing the tables costs as much as a small search).
func observeRun(oc outcome, l limits) obs {
	o := obs{res: fmt.Sprintf("score=%d move=%s ponder=%s", oc.score, oc.mv, oc.pm), nodes: oc.nodes, last: -1, null: oc.mv == 0}
	if oc.panicked != "" {
		o.res += " PANIC " + oc.panicked
	}
	if !l.noOut {
		o.hasOut = true
		infos, err := parseInfos(oc.out)
		o.lines = canonLines(infos)
		if len(infos) > 0 {
			o.last = infos[len(infos)-1].depth
		}
		if err != nil {
			o.lines = append(o.lines, "UNPARSABLE: "+err.Error())
		}
	}
	return o
}

func (o obs) String() string {
	s := o.res
	if o.nodes >= 0 {
		s += fmt.Sprintf(" nodes=%d", o.nodes)
	}
	if o.hasOut {
		s += " | " + strings.Join(o.lines, " ; ")
	}
	return s + " | " + o.digest
}

// diffObs compares two observations on everything BOTH variants report; "" when they agree.
// twin: b is the hard-budget reproduction of the soft-limited a and may add the abort notice of the
// next iteration to the info lines.
func diffObs(a, b obs, twin bool) string {
	if a.res != b.res {
		return "score/move/ponder"
	}
	if a.nodes >= 0 && b.nodes >= 0 && a.nodes != b.nodes {
		return "node count"
	}
	if a.hasOut && b.hasOut {
		lb := b.lines
		if twin && len(lb) == len(a.lines)+1 && reAbort.MatchString(lb[len(lb)-1]) {
			lb = lb[:len(a.lines)]
		}
		if strings.Join(a.lines, "\n") != strings.Join(lb, "\n") {
			return "info lines"
		}
	}
	if a.digest != "" && b.digest != "" && a.digest != b.digest {
		return "state left behind (digest of tables, histories, generation)"
	}
	return ""
}

// engine is one prepared engine instance with one request: table size, warm-up searches, root, limits.
type engine struct {
	rt     *root
	tt     int
	warmOn []*root
	l      limits
}

func (g *engine) mk() *search.Search {
	s := search.New(g.tt)
	for _, w := range g.warmOn {
		run(s, w.build(), limits{depth: 4, nodes: 2500}, nil)
	}
	return s
}

func (g *engine) ops(name string) []string {
	if name != "" {
		name = "engine " + name + ": "
	}
	ops := []string{fmt.Sprintf("%snew tt=%d", name, g.tt)}
	for _, w := range g.warmOn {
		ops = append(ops, fmt.Sprintf("%swarmup %s ; go depth 4 nodes 2500", name, w.position()))
	}
	return append(ops, fmt.Sprintf("%s%s ; %s", name, g.rt.position(), g.l))
}

// slowWriter perturbs the timing of one instance (the info lines are written through it).
type slowWriter struct{ n int }

func (w *slowWriter) Write(p []byte) (int, error) {
	w.n++
	if w.n%3 == 0 {
		time.Sleep(time.Duration(200+w.n%7*150) * time.Microsecond)
	} else {
		runtime.Gosched()
	}
	return len(p), nil
}

// hookWriter calls f when the info line number `at` (0-based) is written: the engine that writes is
// between two iterations at that moment (or just before its return).
type hookWriter struct {
	n, at int
	f     func()
}

func (w *hookWriter) Write(p []byte) (int, error) {
	if w.n == w.at && w.f != nil {
		f := w.f
		w.f = nil
		f()
	}
	w.n++
	return len(p), nil
}

type plyLimit struct {
	depth int
	nodes int
}

type plyRec struct {
	fen string
	o   obs
}

// gameVar is the way one instance of a determinism game is run: timing perturbation and option variant.
type gameVar struct {
	perturb int // 0 none, 1 open stop channel + sleeping writer, 2 soft time that never expires + sleeps
	ov      optVar
}

func (g gameVar) String() string {
	return [...]string{"plain", "open stop channel, sleeping writer", "soft time 2^40, random sleeps"}[g.perturb] + ", " + g.ov.String()
}

// playGame lets one engine instance (fresh, or warmed by searches of other roots) play a whole game
// against itself and records everything observable except the time field.
func playGame(rt *root, tt int, warm []*root, sched []plyLimit, gv gameVar) (recs []plyRec, final string) {
	s := (&engine{tt: tt, warmOn: warm}).mk()
	b := rt.build()
	for p, pl := range sched {
		legal := implutil.Legal(b)
		if len(legal) == 0 || b.FiftyCnt >= 100 || b.Threefold() >= 3 {
			break
		}
		l := gv.ov.on(limits{depth: pl.depth, nodes: pl.nodes})
		var w io.Writer
		switch gv.perturb {
		case 1:
			l.stop = 1 // a stop channel that is never closed
			w = &slowWriter{}
		case 2:
			l.softTime = 1 << 40 // a soft time that never expires
			if p%5 == 0 {
				time.Sleep(300 * time.Microsecond)
			}
		}
		oc := run(s, b, l, w)
		recs = append(recs, plyRec{fen: b.FEN(), o: observe(s, oc, l)})
		if oc.panicked != "" || oc.mv == 0 || !contains(legal, oc.mv) {
			break
		}
		b.MakeMove(oc.mv)
	}
	return recs, b.FEN()
}

// battery runs a fixed series of follow-up searches on s and returns everything observable: the
// persistent state (tables, histories, generation) shows in node counts, scores, moves and hashfull.
func battery(s *search.Search, rt *root, others []*root) []string {
	var out []string
	if d := digest(s); d != "" {
		out = append(out, "digest "+d)
	}
	step := func(b *board.Board, l limits) {
		oc := run(s, b, l, nil)
		infos, _ := parseInfos(oc.out)
		out = append(out, fmt.Sprintf("%s %s -> score=%d move=%s ponder=%s nodes=%d %s | %s", b.FEN(), l, oc.score, oc.mv, oc.pm, oc.nodes, oc.panicked,
			strings.Join(canonLines(infos), " ; ")))
	}
	b := rt.build()
	step(b, limits{depth: 5, nodes: 4000})
	if l := implutil.Legal(b); len(l) > 0 && !rt.final {
		b.MakeMove(l[len(l)/2])
		step(b, limits{depth: 4, nodes: 3000})
	}
	for _, o := range others {
		step(o.build(), limits{depth: 4, nodes: 2500})
	}
	step(rt.build(), limits{depth: 6, nodes: -1, soft: 3000})
	return out
}

// followUp is the light version of the battery used in the dense sweeps (the digests of the two
// instances have been compared already): ONE follow-up search of the root, everything observable
// (the variant with default counters reads its count off the info lines).
func followUp(s *search.Search, rt *root, v optVar) []string {
	l := optVar{noCnt: v.noCnt}.on(limits{depth: 4, nodes: 1500})
	oc := run(s, rt.build(), l, nil)
	return []string{rt.position() + " " + limits{depth: 4, nodes: 1500}.String() + " -> " + observeRun(oc, l).String()}
}

func (e *env) c08() {
	e.collectRoots(e.c.Pick(40, 140))
	e.rootHistogram()
	e.r.Rule = "every experiment runs over the option space of search.Go {own Counters | default counters (count read off the info lines)} x {Output writer | nil} x {fresh | warmed engine}; observations are compared on everything both variants report, the state digest always. " +
		"(a) determinism: three engine instances play the same self-play game (<= 60 plies, tables carried over, per-ply depth/node limits) CONCURRENTLY with all other games on a machine saturated by spinning goroutines; instance 1 is the reference (own counters, writer), the others rotate through the option variants and the perturbations (open stop channel + sleeping writer; soft time that never expires + sleeps); " +
		"(a') separate engines do not influence each other: engines A, B(, C) with node-limited requests, each first run SOLO; then B is searched to completion from inside A's Output.Write at a chosen info line of A (C likewise inside B), and separately all are started in concurrent goroutines; each engine's observation must equal its solo run (the first cases run on a single goroutine while nothing else is searching); " +
		"(b) soft == hard: search with a soft node limit ends after N nodes -> an identically prepared instance with hard budget exactly N gives the same (score, move, ponder), the same info lines (the hard run may add the abort notice of the next iteration), exactly N nodes and the same state behind (hook digest + battery of follow-up searches compared in full; in the dense class sweep: hook digest + one follow-up search); when the soft run's variant reports no count, N is taken from an identically prepared reference engine and the two soft runs must agree as well; random roots/limits, plus for EVERY root of the classes {drawn by the clock (FEN clock >= 100 / played up to 100), third occurrence through a played history, checkmate, stalemate, single reply, in check, ordinary} EVERY soft limit S in 1..80 and a sparse tail; " +
		"(c) node counter <= hard budget in every run: every k in 0..K on the sweep roots, every k in 0..80 (+ sparse) on the class roots, in all option variants; " +
		"(d) the same in PONDER searches (WithNodes(N) together with WithPonderHit, bounded by a stop channel); " +
		"(e) engine lifecycle: scripts of searches, Search.ResizeTT(size) and Search.Clear() in every order on one engine, sizes = multiples of 32 bytes from one bucket to 4 MiB going down and up (back to exactly the old size, between, above the historical maximum; below 1000 buckets the searches run without output); an engine whose script ends with Clear followed by resizes only must have the state digest of search.New(S) and answer the follow-up requests exactly like it (result, info lines, counts, digest after each); a twin engine driven through the same script must agree at every search; the same through the in-process UCI driver (setoption name Hash value N / ucinewgame / go nodes K against a session that only sets the final size); " +
		"(f) cross-process: the harness re-executes itself as two child processes per session, each runs the same session (one engine, 2-3 self-play games from generated roots with fixed depth / hard budget / soft limit per ply, optional ResizeTT/Clear between the games, output on) and prints the transcript (results, counts, info lines with the time masked, final digest); the transcripts must be byte-identical to each other and to the same session run in-process. " +
		"non-trivial = (a) game of >= 10 plies, (a') run whose solo searches printed >= 2 info lines, (b) soft-limited run that really ended at the soft limit, or twin on a final root with S below the iteration count, (e) script with at least one search and one resize, (f) session of >= 5 searches; distinct by (root, limits, table size, warm-up, variants)"
	if digest(search.New(32000)) != "" {
		e.r.Notes = append(e.r.Notes, "search.VerifDigest hook present: persistent state compared by digest as well")
	} else {
		e.r.Notes = append(e.r.Notes, "search.VerifDigest hook absent: state left behind compared through follow-up searches only")
	}
	classRoots := e.classRoots(e.c.Pick(2, 8))
	multis := e.genMulti(e.c.Pick(150, 1200), e.c.Pick(60, 500))
	// quiet phase: the first interleaved cases on this goroutine alone, nothing else is searching
	nQuiet := e.c.Pick(12, 40)
	for _, m := range multis[:nQuiet] {
		m.quiet = true
		m.exec()
	}
	e.reportMulti(multis[:nQuiet])
	// CPU load
	stopLoad := make(chan struct{})
	var loadWG sync.WaitGroup
	for i := 0; i < runtime.NumCPU(); i++ {
		loadWG.Add(1)
		go func() {
			defer loadWG.Done()
			x := uint64(i + 1)
			for {
				select {
				case <-stopLoad:
					spinSink.Add(x)
					return
				default:
				}
				for k := 0; k < 20000; k++ {
					x = x*6364136223846793005 + 1442695040888963407
				}
			}
		}()
	}
	e.c08games()
	parallel(len(multis)-nQuiet, func(i int) { multis[nQuiet+i].exec() })
	e.reportMulti(multis[nQuiet:])
	e.c08twins(nil)
	close(stopLoad)
	loadWG.Wait()
	e.c08twins(classRoots)
	e.c08sweep(classRoots)
	e.c08lifecycle()
	e.c08env()
	e.c08uciLifecycle()
	e.c08processes()
	e.c08ponder()
}

// (a) determinism games
func (e *env) c08games() {
	rng := e.c.Rng
	const inst = 3
	type game struct {
		rt    *root
		tt    int
		warm  []*root
		sched []plyLimit
		gv    [inst]gameVar
		recs  [inst][]plyRec
		final [inst]string
	}
	nGames := e.c.Pick(16, 100)
	games := make([]*game, nGames)
	for g := range games {
		var rt *root
		for {
			rt = e.roots[rng.IntN(len(e.roots))]
			if !rt.final {
				break
			}
		}
		gm := &game{rt: rt, tt: ttSizes[g%3]}
		if g%2 == 1 {
			for k := 1 + rng.IntN(2); k > 0; k-- {
				gm.warm = append(gm.warm, e.roots[rng.IntN(len(e.roots))])
			}
		}
		for p := 0; p < 60; p++ {
			gm.sched = append(gm.sched, plyLimit{depth: 2 + rng.IntN(5), nodes: 300 + rng.IntN(e.c.Pick(2500, 9000))})
		}
		for i := 1; i < inst; i++ {
			gv := gameVar{perturb: i, ov: optVars[(g+i)%4]}
			if gv.perturb == 1 && gv.ov.noOut {
				gv.perturb = 2
			}
			gm.gv[i] = gv
		}
		games[g] = gm
	}
	parallel(nGames*inst, func(i int) {
		gm := games[i/inst]
		gm.recs[i%inst], gm.final[i%inst] = playGame(gm.rt, gm.tt, gm.warm, gm.sched, gm.gv[i%inst])
	})
	for _, gm := range games {
		e.r.Evaluations += len(gm.recs[0]) * inst
		e.r.Count("game-plies", len(gm.recs[0]))
		e.r.Count("games", 1)
		if len(gm.warm) > 0 {
			e.r.Count("games:warmed-engine", 1)
		} else {
			e.r.Count("games:fresh-engine", 1)
		}
		if len(gm.recs[0]) >= 10 {
			e.r.Nontrivial(fmt.Sprintf("game|%s|tt=%d|%v", gm.rt.position(), gm.tt, gm.sched[:3]))
		}
		for v := 1; v < inst; v++ {
			e.r.Count("determinism-runs:"+gm.gv[v].ov.String(), len(gm.recs[v]))
			a, b := gm.recs[0], gm.recs[v]
			n := len(a)
			if len(b) < n {
				n = len(b)
			}
			diff, what := -1, ""
			for i := 0; i < n; i++ {
				if a[i].fen != b[i].fen {
					diff, what = i, "position reached"
					break
				}
				if w := diffObs(a[i].o, b[i].o, false); w != "" {
					diff, what = i, w
					break
				}
			}
			if diff < 0 && (len(a) != len(b) || gm.final[0] != gm.final[v]) {
				diff, what = n, "length of the game"
			}
			if diff >= 0 {
				ia, ib := "<end>", "<end>"
				if diff < len(a) {
					ia = a[diff].fen + " " + a[diff].o.String()
				}
				if diff < len(b) {
					ib = b[diff].fen + " " + b[diff].o.String()
				}
				ops := (&engine{rt: gm.rt, tt: gm.tt, warmOn: gm.warm}).ops("")
				ops = append(ops[:len(ops)-1], gm.rt.position(), fmt.Sprintf("selfplay schedule(depth,nodes)=%v", gm.sched[:diff+1]),
					fmt.Sprintf("instance 1: %s", gm.gv[0]), fmt.Sprintf("instance %d: %s", v+1, gm.gv[v]), fmt.Sprintf("first difference at ply %d: %s", diff, what))
				e.fail(common.Mismatch{Property: "C08", Kind: "failing-input", Ops: ops,
					Impl: ib, Spec: ia, Note: "two engines in the same state given the same requests report different results: " + what})
				e.r.Count("FAILED:game-instance:"+gm.gv[v].ov.String(), 1)
			}
		}
	}
	if len(games) > 0 && len(games[0].recs[0]) > 0 {
		e.r.Sample(map[string]any{"game": games[0].rt.position(), "ply0": games[0].recs[0][0].o.String()}, 2)
	}
}

// ---- (a') several engines in one process

// multi is one experiment with 2..3 engines: solo runs, then either the nested schedule (engine i+1
// searched to completion inside engine i's Output.Write at info line hook[i]) or concurrent goroutines.
type multi struct {
	engs       []*engine
	hook       []int // raw draw; reduced modulo the number of info lines of the solo run
	concurrent bool
	quiet      bool
	lines      int // fewest info lines among the solo runs of the hooked engines
	evals      int
	fails      []common.Mismatch
}

func (m *multi) defaults() (n int) {
	for _, g := range m.engs {
		if g.l.noCnt {
			n++
		}
	}
	return
}

func (m *multi) exec() {
	n := len(m.engs)
	solo := make([]obs, n)
	for i, g := range m.engs {
		solo[i] = observe2(g.mk(), g, nil)
	}
	m.evals += n
	at := make([]int, n)
	m.lines = 1 << 30
	for i := range m.engs {
		if k := len(solo[i].lines); solo[i].hasOut && k > 0 {
			at[i] = m.hook[i] % k
			if i+1 < n && k < m.lines {
				m.lines = k
			}
		}
	}
	ss := make([]*search.Search, n)
	for i, g := range m.engs {
		ss[i] = g.mk()
	}
	got := make([]obs, n)
	var ops []string
	names := "ABC"
	for i, g := range m.engs {
		ops = append(ops, g.ops(names[i:i+1])...)
	}
	if m.concurrent {
		ops = append(ops, "all engines started in concurrent goroutines")
		var wg sync.WaitGroup
		start := make(chan struct{})
		for i := range m.engs {
			wg.Add(1)
			go func() {
				defer wg.Done()
				<-start
				got[i] = observe2(ss[i], m.engs[i], nil)
			}()
		}
		close(start)
		wg.Wait()
	} else {
		for i := 0; i+1 < n; i++ {
			ops = append(ops, fmt.Sprintf("engine %c is searched to completion inside engine %c's Output.Write when %c writes its info line #%d", names[i+1], names[i], names[i], at[i]))
		}
		var start func(i int)
		start = func(i int) {
			var w io.Writer
			if i+1 < n {
				w = &hookWriter{at: at[i], f: func() { start(i + 1) }}
			}
			got[i] = observe2(ss[i], m.engs[i], w)
		}
		start(0)
	}
	m.evals += n
	for i := range m.engs {
		if what := diffObs(solo[i], got[i], false); what != "" {
			m.fails = append(m.fails, common.Mismatch{Property: "C08", Kind: "failing-input",
				Ops:  append(append([]string{}, ops...), fmt.Sprintf("engine %c compared with its SOLO run (same preparation, same request)", names[i])),
				Impl: got[i].String(), Spec: solo[i].String(),
				Note: "an engine's result depends on what a separate engine instance in the same process does: " + what})
		}
	}
}

func observe2(s *search.Search, g *engine, w io.Writer) obs {
	return observe(s, run(s, g.rt.build(), g.l, w), g.l)
}

// genMulti draws the multi-engine experiments: node-limited requests (hard, soft, both as datagen
// does, or depth only), every option variant, fresh and warmed engines, chains of 2 or 3 engines.
func (e *env) genMulti(nI, nC int) []*multi {
	rng := e.c.Rng
	lim := func() limits {
		l := limits{depth: MaxPlies, nodes: -1}
		switch rng.IntN(6) {
		case 0, 1:
			l.nodes = 300 + rng.IntN(5000)
		case 2:
			l.soft = 100 + rng.IntN(3000)
		case 3:
			l.soft = 100 + rng.IntN(2000)
			l.nodes = l.soft * (2 + rng.IntN(4))
		case 4:
			l.nodes = 300 + rng.IntN(5000)
			l.depth = 3 + rng.IntN(6)
		case 5:
			l.depth = 2 + rng.IntN(4)
		}
		return l
	}
	var out []*multi
	for c := 0; c < nI+nC; c++ {
		m := &multi{concurrent: c >= nI}
		n := 2
		if rng.IntN(10) < 3 {
			n = 3
		}
		for i := 0; i < n; i++ {
			g := &engine{rt: e.roots[rng.IntN(len(e.roots))], tt: ttSizes[rng.IntN(3)], l: lim()}
			if rng.IntN(2) == 0 {
				for k := 1 + rng.IntN(2); k > 0; k-- {
					g.warmOn = append(g.warmOn, e.roots[rng.IntN(len(e.roots))])
				}
			}
			// two thirds with the default counters; the hooked engines need their writer
			v := optVar{noCnt: rng.IntN(3) != 0, noOut: rng.IntN(3) == 0}
			if !m.concurrent && i+1 < n {
				v.noOut = false
			}
			g.l = v.on(g.l)
			m.engs = append(m.engs, g)
			m.hook = append(m.hook, rng.IntN(1<<20))
		}
		out = append(out, m)
	}
	return out
}

func (e *env) reportMulti(ms []*multi) {
	for _, m := range ms {
		kind := "interleaved"
		if m.concurrent {
			kind = "concurrent"
		}
		e.r.Evaluations += m.evals
		e.r.Count(kind+"-runs", 1)
		e.r.Count(fmt.Sprintf("%s-runs:%d-engines-with-default-counters", kind, m.defaults()), 1)
		if m.quiet {
			e.r.Count(kind+"-runs:single-goroutine-phase", 1)
		}
		for _, g := range m.engs {
			e.r.Count("multi-engine:"+optVar{g.l.noCnt, g.l.noOut}.String(), 1)
			if len(g.warmOn) > 0 {
				e.r.Count("multi-engine:warmed", 1)
			} else {
				e.r.Count("multi-engine:fresh", 1)
			}
		}
		if m.concurrent || m.lines >= 2 {
			var key []string
			for _, g := range m.engs {
				key = append(key, strings.Join(g.ops(""), "|"))
			}
			e.r.Nontrivial(fmt.Sprintf("multi|%s|%v|%s", kind, m.hook, strings.Join(key, "||")))
		}
		if !m.concurrent && m.lines >= 2 && m.defaults() >= 2 {
			e.r.Count("interleaved-runs:default-counters>=2,hook-before-last-line-possible", 1)
		}
		for _, f := range m.fails {
			e.r.Fail(f)
		}
		if len(m.fails) > 0 {
			if m.quiet {
				kind += "-single-goroutine-phase"
			}
			e.r.Count("FAILED:"+kind, 1)
		}
	}
	if len(ms) > 0 && ms[0].quiet {
		var ops []string
		for i, g := range ms[0].engs {
			ops = append(ops, g.ops("ABC"[i:i+1])...)
		}
		e.r.Sample(map[string]any{"interleaved": ops}, 6)
	}
}

// ---- root classes

func classOf(rt *root) string {
	switch {
	case rt.drawn && len(rt.legal) == 0:
		return "drawn+no-move"
	case rt.three >= 3:
		return "drawn-threefold"
	case rt.fifty >= 100:
		return "drawn-clock"
	case rt.checkmate:
		return "checkmate"
	case len(rt.legal) == 0:
		return "stalemate"
	case len(rt.legal) == 1:
		return "single-reply"
	case rt.inCheck:
		return "in-check"
	}
	return "ordinary"
}

var rootClasses = []string{"drawn-clock", "drawn-threefold", "drawn+no-move", "checkmate", "stalemate", "single-reply", "in-check", "ordinary"}

func reverseUCI(m string) string { return m[2:4] + m[0:2] }

// withClock rewrites the halfmove clock of a FEN (en-passant square dropped, move number raised so
// that the clock is possible).
func withClock(fen string, clock, slack int) string {
	f := strings.Fields(fen)
	if len(f) != 6 {
		return fen
	}
	f[3] = "-"
	f[4] = strconv.Itoa(clock)
	if n, _ := strconv.Atoi(f[5]); n < clock/2+1+slack {
		f[5] = strconv.Itoa(clock/2 + 1 + slack)
	}
	return strings.Join(f, " ")
}

// classRoots generates, per class, `per` roots from the shared position stream:
//   - play-outs are scanned for positions in check, with a single reply, checkmated or stalemated
//     (also one ply on: every move of a visited position is tried for a mate/stalemate successor);
//     the roots are given as stream FEN + the moves played, so they carry a real history;
//   - drawn by the clock: the clock of a non-final position set to 100.. in the FEN, or set to
//     100-k and k reversible moves played;
//   - third occurrence: a non-final position (often with a played history) extended by a cycle of
//     reversible moves m1 m2 m1' m2' played two or three times.
//
// The hand-made roots of the non-ordinary classes (fixedRoots) are added on top.
func (e *env) classRoots(per int) []*root {
	rng := e.c.Rng
	quota := map[string]int{}
	for _, c := range rootClasses {
		quota[c] = per
	}
	quota["drawn+no-move"] = (per + 1) / 2
	var out []*root
	seen := map[string]bool{}
	add := func(rt *root, want string) bool {
		if quota[want] <= 0 || !e.prepare(rt) || classOf(rt) != want || seen[rt.position()] {
			return false
		}
		seen[rt.position()] = true
		rt.name = want + ":" + rt.name
		out = append(out, rt)
		quota[want]--
		return true
	}
	open := func() bool {
		for _, c := range rootClasses {
			if quota[c] > 0 && c != "drawn+no-move" && c != "stalemate" {
				return true
			}
		}
		return false
	}
	st := implutil.NewStream(e.c)
	for i := len(st.Roots); i > 0; i-- { // skip the leading block of perft roots
		st.Next()
	}
	cp := func(ms []string) []string { return append([]string{}, ms...) }
	// tryClock / tryThreefold build the drawn roots from a non-final position given as fen+moves
	tryClock := func(b *board.Board) {
		if quota["drawn-clock"] <= 0 {
			return
		}
		if rng.IntN(2) == 0 {
			add(&root{name: "clock-in-fen", fen: withClock(b.FEN(), 100+rng.IntN(30), rng.IntN(40))}, "drawn-clock")
			return
		}
		k := 1 + rng.IntN(6)
		rt := &root{name: "clock-played", fen: withClock(b.FEN(), 100-k, rng.IntN(40))}
		pb, err := board.FromFEN(rt.fen)
		if err != nil {
			return
		}
		for i := 0; i < k; i++ {
			l := implutil.Legal(pb)
			ok := false
			for _, j := range rng.Perm(len(l)) {
				r := pb.MakeMove(l[j])
				if int(pb.FiftyCnt) == 100-k+i+1 && len(implutil.Legal(pb)) > 0 {
					rt.moves = append(rt.moves, l[j].String())
					ok = true
					break
				}
				pb.UndoMove(l[j], r)
			}
			if !ok {
				return
			}
		}
		add(rt, "drawn-clock")
	}
	tryThreefold := func(fen string, moves []string) {
		if quota["drawn-threefold"] <= 0 {
			return
		}
		base := &root{fen: fen, moves: moves}
		b := base.build()
		if b == nil || b.FiftyCnt > 80 {
			return
		}
		l1 := implutil.Legal(b)
		for _, i := range rng.Perm(len(l1)) {
			m1 := l1[i].String()
			if len(m1) != 4 {
				continue
			}
			b1 := (&root{fen: fen, moves: append(cp(moves), m1)}).build()
			l2 := implutil.Legal(b1)
			for _, j := range rng.Perm(len(l2)) {
				m2 := l2[j].String()
				if len(m2) != 4 {
					continue
				}
				cyc := []string{m1, m2, reverseUCI(m1), reverseUCI(m2)}
				for reps := 2; reps <= 3; reps++ {
					ms := cp(moves)
					for r := 0; r < reps; r++ {
						ms = append(ms, cyc...)
					}
					rt := &root{name: fmt.Sprintf("cycle-x%d", reps), fen: fen, moves: ms}
					if tb := rt.build(); tb == nil || tb.Threefold() < 3 {
						continue
					}
					if add(rt, "drawn-threefold") {
						return
					}
				}
				break // one reply per first move is enough
			}
		}
	}
	visited := 0
	hits := map[string]int{}
	for tries := 0; open() && tries < 4000; tries++ {
		fen, src := st.Next()
		if a := e.bm.Batch([]string{"fen " + fen, "valid"}); !strings.HasPrefix(a[0], "ok") || len(a[1]) < 2 || a[1][0] != '1' {
			continue
		}
		b, err := board.FromFEN(fen)
		if err != nil || b.InvalidPieceCount() {
			continue
		}
		var moves []string
		for ply := 0; ply < 40; ply++ {
			l := implutil.Legal(b)
			visited++
			cls := ""
			switch {
			case b.FiftyCnt >= 100 || b.Threefold() >= 3:
				cls = "drawn"
			case len(l) == 0 && b.InCheck(b.STM):
				cls = "checkmate"
			case len(l) == 0:
				cls = "stalemate"
			case len(l) == 1:
				cls = "single-reply"
			case b.InCheck(b.STM):
				cls = "in-check"
			default:
				cls = "ordinary"
			}
			hits[cls]++
			if cls == "drawn" {
				break
			}
			if quota[cls] > 0 && (cls != "ordinary" || rng.IntN(8) == 0) {
				add(&root{name: src + "+playout", fen: fen, moves: cp(moves)}, cls)
			}
			if len(l) == 0 {
				break
			}
			// one ply on: mate / stalemate successors
			if quota["checkmate"] > 0 || quota["stalemate"] > 0 {
				for _, m := range l {
					r := b.MakeMove(m)
					n := len(implutil.Legal(b))
					inCk := b.InCheck(b.STM)
					b.UndoMove(m, r)
					if n == 0 {
						c2 := "stalemate"
						if inCk {
							c2 = "checkmate"
						}
						hits[c2+"-one-ply-on"]++
						add(&root{name: src + "+playout+mating-move", fen: fen, moves: append(cp(moves), m.String())}, c2)
						// the same final move played with the clock at 99: drawn by the clock AND without a move
						add(&root{name: "clock-99+mating-move", fen: withClock(b.FEN(), 99, rng.IntN(40)), moves: []string{m.String()}}, "drawn+no-move")
					}
				}
			}
			if cls == "ordinary" && ply%4 == 1 {
				tryClock(b)
				tryThreefold(fen, cp(moves))
			}
			m := l[rng.IntN(len(l))]
			moves = append(moves, m.String())
			b.MakeMove(m)
		}
	}
	// constructive: a bare king to move against king + queen (+ one more piece), random placements;
	// the stalemated and checkmated ones are kept (stalemates are too rare in play-outs)
	constructed := 0
	for tries := 0; (quota["stalemate"] > 0 || quota["checkmate"] > 0) && tries < 40000; tries++ {
		var sq [64]byte
		put := func(p byte, edge bool) {
			for {
				i := rng.IntN(64)
				if edge && rng.IntN(4) != 0 {
					i = [...]int{0, 7, 56, 63, rng.IntN(8), 56 + rng.IntN(8), 8 * rng.IntN(8), 8*rng.IntN(8) + 7}[rng.IntN(8)]
				}
				if sq[i] == 0 && !((p == 'P' || p == 'p') && (i < 8 || i >= 56)) {
					sq[i] = p
					return
				}
			}
		}
		put('k', true)
		put('K', false)
		put('Q', false)
		if rng.IntN(2) == 0 {
			put("RBNPQ"[rng.IntN(5)], false)
		}
		var sb strings.Builder
		for r := 7; r >= 0; r-- {
			empty := 0
			for f := 0; f < 8; f++ {
				if p := sq[r*8+f]; p != 0 {
					if empty > 0 {
						sb.WriteByte(byte('0' + empty))
						empty = 0
					}
					sb.WriteByte(p)
				} else {
					empty++
				}
			}
			if empty > 0 {
				sb.WriteByte(byte('0' + empty))
			}
			if r > 0 {
				sb.WriteByte('/')
			}
		}
		fen := fmt.Sprintf("%s b - - %d %d", sb.String(), rng.IntN(60), 40+rng.IntN(40))
		b, err := board.FromFEN(fen)
		if err != nil || b.InvalidPieceCount() || b.InCheck(b.STM.Flip()) || len(implutil.Legal(b)) != 0 {
			continue
		}
		constructed++
		if b.InCheck(b.STM) {
			add(&root{name: "constructed", fen: fen}, "checkmate")
		} else {
			add(&root{name: "constructed", fen: fen}, "stalemate")
		}
	}
	e.r.Count("classgen:constructed-final-positions", constructed)
	e.r.Count("classgen:positions-visited", visited)
	for c, n := range hits {
		e.r.Count("classgen:visited:"+c, n)
	}
	// the hand-made corner cases of the classes on top
	for _, rt := range e.roots {
		if c := classOf(rt); c != "ordinary" && !seen[rt.position()] {
			seen[rt.position()] = true
			out = append(out, rt)
		}
	}
	for _, rt := range out {
		e.r.Count("class-roots:"+classOf(rt), 1)
		if len(rt.moves) > 0 {
			e.r.Count("class-roots:with-played-history", 1)
		}
	}
	return out
}

func softBucket(s int) string {
	switch {
	case s <= 8:
		return "S1-8"
	case s <= 62:
		return "S9-62"
	case s <= 80:
		return "S63-80"
	case s <= 600:
		return "S81-600"
	}
	return "S601+"
}

// ---- (b) soft == hard twins

type sh struct {
	rt           *root
	tt           int
	soft         int
	depth        int
	warmOn       []*root
	others       []*root
	vSoft, vHard optVar
	class        string // "" for the random cases
	fails        []common.Mismatch
	nontr        bool
	ended        string
	ref          bool
	evals        int
}

func (c *sh) exec() {
	g := &engine{rt: c.rt, tt: c.tt, warmOn: c.warmOn}
	g.l = c.vSoft.on(limits{depth: c.depth, nodes: -1, soft: c.soft})
	ops := g.ops("A")
	fail := func(impl, spec, note string) {
		c.fails = append(c.fails, common.Mismatch{Property: "C08", Kind: "failing-input", Ops: append([]string{}, ops...), Impl: impl, Spec: spec, Note: note})
	}
	sA := g.mk()
	ocA := run(sA, c.rt.build(), g.l, nil)
	oA := observe(sA, ocA, g.l)
	c.evals++
	if ocA.panicked != "" || (oA.hasOut && len(oA.lines) > 0 && strings.HasPrefix(oA.lines[len(oA.lines)-1], "UNPARSABLE")) {
		fail(oA.String(), "", "soft-limited run failed")
		return
	}
	base := oA
	if oA.nodes < 0 {
		// the variant reports no node count: N comes from an identically prepared reference engine
		// (own counters, writer), which must agree with the variant on everything else
		c.ref = true
		gr := *g
		gr.l = optVars[0].on(g.l)
		sR := gr.mk()
		oR := observeRun(run(sR, c.rt.build(), gr.l, nil), gr.l) // the digests are compared between A and B
		c.evals++
		ops = append(ops, gr.ops("R")...)
		if what := diffObs(oR, oA, false); what != "" {
			fail(oA.String(), oR.String(), "the same request in two option variants of search.Go gives different results: "+what)
			return
		}
		base = oR
	}
	N := base.nodes
	// "ended at the soft limit": stopped below the depth limit with more than `soft` nodes and a move
	endedSoft := !base.null && N > c.soft && (!base.hasOut || (base.last < c.depth && base.last < MaxPlies-1))
	switch {
	case endedSoft:
		c.ended = "soft-limit"
		c.nontr = true
	case c.rt.final && c.soft < c.depth && c.soft < MaxPlies-1:
		// a final root: one node per iteration, the soft limit is passed long before the last iteration
		c.ended = "final-root-soft-limit-below-iterations"
		c.nontr = true
	default:
		c.ended = "depth-limit-or-final"
	}
	gh := *g
	gh.l = c.vHard.on(limits{depth: c.depth, nodes: N})
	ops = append(ops, fmt.Sprintf("=> ended after N=%d nodes; identically prepared instance:", N))
	ops = append(ops, gh.ops("B")...)
	sB := gh.mk()
	oB := observe(sB, run(sB, c.rt.build(), gh.l, nil), gh.l)
	c.evals++
	if oB.nodes > N {
		fail(strconv.Itoa(oB.nodes), "<= "+strconv.Itoa(N), "hard budget exceeded")
	}
	if what := diffObs(base, oB, true); what != "" {
		fail(oB.String(), base.String(), "hard-budget run does not reproduce the soft-limited run ("+c.ended+"): "+what)
		return
	}
	if c.ref {
		if what := diffObs(oA, oB, true); what != "" {
			fail(oB.String(), oA.String(), "hard-budget run does not reproduce the soft-limited run ("+c.ended+"): "+what)
			return
		}
	}
	var ba, bb []string
	if c.class != "" {
		ba, bb = followUp(sA, c.rt, c.vSoft), followUp(sB, c.rt, c.vSoft)
	} else {
		ba, bb = battery(sA, c.rt, c.others), battery(sB, c.rt, c.others)
	}
	c.evals += len(ba)
	for k := range ba {
		if k >= len(bb) || ba[k] != bb[k] {
			ib := "<missing>"
			if k < len(bb) {
				ib = bb[k]
			}
			ops = append(ops, fmt.Sprintf("follow-up search #%d on both instances", k))
			fail(ib, ba[k], "state left behind differs: a follow-up search distinguishes the soft-limited instance from its hard-budget reproduction")
			break
		}
	}
}

func (e *env) c08twins(classRoots []*root) {
	rng := e.c.Rng
	var cases []*sh
	warmSet := func(rt *root) []*root {
		var ws []*root
		for k := 1 + rng.IntN(3); k > 0; k-- {
			ws = append(ws, e.roots[rng.IntN(len(e.roots))])
		}
		if rng.IntN(2) == 0 {
			ws[0] = rt
		}
		return ws
	}
	// random roots and limits
	nRandom := e.c.Pick(400, 4000)
	if classRoots != nil {
		nRandom = 0
	}
	for i := nRandom; i > 0; i-- {
		c := &sh{rt: e.roots[rng.IntN(len(e.roots))], tt: ttSizes[rng.IntN(3)], depth: 4 + rng.IntN(9)}
		switch rng.IntN(4) {
		case 0:
			c.soft = 1 + rng.IntN(50)
		case 1:
			c.soft = 1 + rng.IntN(600)
		default:
			c.soft = 1 + rng.IntN(e.c.Pick(6000, 20000))
		}
		if rng.IntN(8) == 0 {
			c.depth = MaxPlies // no depth limit, as `go nodes` / datagen
		}
		if rng.IntN(2) == 0 {
			c.warmOn = warmSet(c.rt)
		}
		c.vSoft, c.vHard = optVars[rng.IntN(4)], optVars[rng.IntN(4)]
		c.others = []*root{e.roots[rng.IntN(len(e.roots))], e.roots[rng.IntN(len(e.roots))]}
		cases = append(cases, c)
	}
	// every class root x every soft limit in 1..80, then sparse
	for ri, rt := range classRoots {
		var softs []int
		for s := 1; s <= 80; s++ {
			softs = append(softs, s)
		}
		for _, s := range []int{100, 150, 250, 400, 700, 1200} {
			softs = append(softs, s+rng.IntN(s/2))
		}
		if e.c.Thorough() {
			for s := 81; s <= 300; s++ {
				softs = append(softs, s)
			}
		}
		for _, s := range softs {
			c := &sh{rt: rt, class: classOf(rt), tt: ttSizes[(ri+s)%3], soft: s, depth: MaxPlies}
			if rng.IntN(4) == 0 {
				c.depth = 4 + rng.IntN(9)
			}
			switch rng.IntN(4) {
			case 0:
				c.warmOn = []*root{rt}
			case 1:
				c.warmOn = warmSet(rt)[:1]
			}
			c.vSoft, c.vHard = optVars[rng.IntN(4)], optVars[rng.IntN(4)]
			cases = append(cases, c)
		}
	}
	parallel(len(cases), func(i int) { cases[i].exec() })
	for _, c := range cases {
		e.r.Evaluations += c.evals
		kind := "softhard"
		if c.class != "" {
			kind = "twin"
			e.r.Count(fmt.Sprintf("twin:%s:%s", c.class, softBucket(c.soft)), 1)
		}
		e.r.Count(kind+":"+c.ended, 1)
		if len(c.warmOn) > 0 {
			e.r.Count(kind+":warmed", 1)
		} else {
			e.r.Count(kind+":fresh", 1)
		}
		e.r.Count(kind+":soft-run:"+c.vSoft.String(), 1)
		e.r.Count(kind+":hard-run:"+c.vHard.String(), 1)
		if c.ref {
			e.r.Count(kind+":N-from-reference-engine", 1)
		}
		if c.rt.drawn && len(c.rt.legal) > 0 && c.soft < c.depth && c.soft < MaxPlies-1 {
			e.r.Count(kind+":drawn-root-with-moves,soft-limit-below-iterations", 1)
		}
		if c.nontr {
			e.r.Nontrivial(fmt.Sprintf("sh|%s|tt=%d|soft=%d|depth=%d|%d|%v%v", c.rt.position(), c.tt, c.soft, c.depth, len(c.warmOn), c.vSoft, c.vHard))
		}
		for _, f := range c.fails {
			e.r.Fail(f)
		}
		if len(c.fails) > 0 {
			e.r.Count("FAILED:"+kind+":"+c.class+":"+softBucket(c.soft), 1)
		}
	}
}

// ---- (c) budget sweep: every k in 0..K on a few roots, every k in 0..80 (+ sparse) on the class
// roots, in every option variant: the count the variant reports is <= k, the result is legal
func (e *env) c08sweep(classRoots []*root) {
	rng := e.c.Rng
	K := e.c.Pick(300, 3000)
	sw := e.roots
	if len(sw) > e.c.Pick(8, 40) {
		sw = sw[:e.c.Pick(8, 40)]
	}
	type bj struct {
		rt    *root
		l     limits
		tt    int
		warm  bool
		class string
		oc    outcome
	}
	var bjs []*bj
	for ri, rt := range sw {
		for k := 0; k <= K; k++ {
			bjs = append(bjs, &bj{rt: rt, tt: ttSizes[(ri+k)%3], l: optVars[rng.IntN(2)].on(limits{depth: 1 + rng.IntN(7), nodes: k})})
		}
	}
	for ri, rt := range classRoots {
		ks := []int{}
		for k := 0; k <= 80; k++ {
			ks = append(ks, k)
		}
		for _, k := range []int{100, 150, 250, 400, 700} {
			ks = append(ks, k+rng.IntN(k/2))
		}
		for _, k := range ks {
			j := &bj{rt: rt, class: classOf(rt), tt: ttSizes[(ri+k)%3], warm: rng.IntN(3) == 0, l: optVars[rng.IntN(4)].on(limits{depth: MaxPlies, nodes: k})}
			if rng.IntN(3) == 0 {
				j.l.depth = 1 + rng.IntN(7)
			}
			bjs = append(bjs, j)
		}
	}
	parallel(len(bjs), func(i int) {
		j := bjs[i]
		g := &engine{rt: j.rt, tt: j.tt, l: j.l}
		if j.warm {
			g.warmOn = []*root{j.rt}
		}
		j.oc = run(g.mk(), j.rt.build(), j.l, nil)
	})
	for _, j := range bjs {
		e.r.Evaluations++
		e.r.Count("budget-sweep", 1)
		e.r.Count("budget-sweep:"+optVar{j.l.noCnt, j.l.noOut}.String(), 1)
		if j.class != "" {
			e.r.Count("budget-sweep:class:"+j.class, 1)
		}
		ops := []string{fmt.Sprintf("new tt=%d", j.tt)}
		if j.warm {
			ops = append(ops, j.rt.position(), "go depth 4 nodes 2500")
		}
		ops = append(ops, j.rt.position(), j.l.String())
		if j.oc.nodes > j.l.nodes || j.oc.panicked != "" {
			e.r.Fail(common.Mismatch{Property: "C08", Kind: "failing-input", Ops: ops,
				Impl: fmt.Sprintf("nodes=%d %s", j.oc.nodes, j.oc.panicked), Spec: fmt.Sprintf("<= %d", j.l.nodes), Note: "node counter exceeds the hard budget"})
		}
		if j.class != "" {
			if note := checkResult(j.rt, j.oc, false); note != "" {
				e.r.Fail(common.Mismatch{Property: "C06", Kind: "failing-input", Ops: ops,
					Impl: fmt.Sprintf("score=%d move=%s", j.oc.score, j.oc.mv), Note: "budget sweep on a class root: " + note})
			}
		}
		if j.oc.nodes == j.l.nodes {
			e.r.Count("budget-sweep:budget-exhausted", 1)
		}
	}
}

// ---------------------------------------------------------------------------------------------
// C08 (e) engine lifecycle: ResizeTT (setoption name Hash) and Clear (ucinewgame) between searches

const minOutputTT = 1000 * 32 // HashFull needs 1000 buckets: below that only searches without output

type lcOp struct {
	kind  byte // 's' search, 'n' run of `count` cheap searches cycling over rts, 'r' ResizeTT, 'c' Clear
	size  int
	rt    *root
	l     limits
	count int
	rts   []*root
}

func (o lcOp) String() string {
	switch o.kind {
	case 'r':
		return fmt.Sprintf("ResizeTT(%d)", o.size)
	case 'c':
		return "Clear()"
	case 'n':
		var ps []string
		for _, rt := range o.rts {
			ps = append(ps, rt.position())
		}
		return fmt.Sprintf("%d searches { %s }, cycling over the roots { %s }", o.count, o.l, strings.Join(ps, " | "))
	}
	return o.rt.position() + " ; " + o.l.String()
}

// goCalls is the number of Search.Go calls of the operation.
func (o lcOp) goCalls() int {
	switch o.kind {
	case 's':
		return 1
	case 'n':
		return o.count
	}
	return 0
}

// lifecycle is one script on ONE engine: New(tt0), then searches, resizes and clears in any order.
// canonical: the script ends with Clear() followed by resizes only, so the engine must now be
// indistinguishable from search.New(final).  twin: a second engine is driven through the same script
// and must agree at every search.
type lifecycle struct {
	tt0       int
	ops       []lcOp
	follow    []lcOp
	canonical bool
	twin      bool
	final     int
	tag       string
	regrown   bool // a cleared engine grown again over a region that was cut off (not cleared) while it held content
	wrap256   bool // a Clear after a positive multiple of 256 Go calls since New / the previous Clear
	procs     int  // > 0: executed under runtime.GOMAXPROCS(procs)
	evals     int
	fails     []common.Mismatch
}

func (lc *lifecycle) opsList() []string {
	var ops []string
	if lc.procs > 0 {
		ops = append(ops, fmt.Sprintf("runtime.GOMAXPROCS(%d)", lc.procs))
	}
	ops = append(ops, fmt.Sprintf("engine A: new tt=%d", lc.tt0))
	for _, o := range lc.ops {
		ops = append(ops, "engine A: "+o.String())
	}
	return ops
}

func lcApply(s *search.Search, o lcOp) (ob obs, searched bool, pan string) {
	defer func() {
		if p := recover(); p != nil {
			pan = fmt.Sprint(p)
		}
	}()
	switch o.kind {
	case 'r':
		s.ResizeTT(o.size)
	case 'c':
		s.Clear()
	case 'n':
		// the observation of the run is the one of its last search (the searches do not touch the boards)
		bs := make([]*board.Board, len(o.rts))
		for i, rt := range o.rts {
			bs[i] = rt.build()
		}
		var oc outcome
		for i := 0; i < o.count; i++ {
			if oc = run(s, bs[i%len(bs)], o.l, nil); oc.panicked != "" {
				break
			}
		}
		return observeRun(oc, o.l), true, ""
	default:
		return observeRun(run(s, o.rt.build(), o.l, nil), o.l), true, ""
	}
	return
}

func (lc *lifecycle) exec() {
	a := search.New(lc.tt0)
	var b *search.Search
	if lc.twin {
		b = search.New(lc.tt0)
	}
	ops := lc.opsList()
	fail := func(impl, spec, note string, extra ...string) {
		lc.fails = append(lc.fails, common.Mismatch{Property: "C08", Kind: "failing-input", Ops: append(append([]string{}, ops...), extra...), Impl: impl, Spec: spec, Note: note})
	}
	for i, o := range lc.ops {
		oa, searched, pan := lcApply(a, o)
		if pan != "" {
			fail(pan, "", fmt.Sprintf("lifecycle operation #%d (%s) panicked", i, o))
			return
		}
		lc.evals += o.goCalls()
		if b != nil {
			ob, _, _ := lcApply(b, o)
			if what := diffObs(oa, ob, false); searched && what != "" {
				fail(ob.String(), oa.String(), "two engines driven through the same lifecycle script disagree: "+what, fmt.Sprintf("engine B: the same script; first difference at operation #%d", i))
				return
			}
		}
	}
	if b != nil {
		if da, db := digest(a), digest(b); da != db {
			fail(db, da, "two engines driven through the same lifecycle script disagree: state digest", "engine B: the same script")
			return
		}
	}
	var ref *search.Search
	if lc.canonical {
		ref = search.New(lc.final)
		ops = append(ops, fmt.Sprintf("engine R: new tt=%d", lc.final))
		if da, dr := digest(a), digest(ref); da != dr {
			fail(da, dr, "an engine that was cleared after its last search and resized to S differs from search.New(S): state digest (tables, histories, generation)")
			return
		}
	}
	for k, o := range lc.follow {
		ops = append(ops, fmt.Sprintf("follow-up #%d on every engine: %s", k, o))
		oa := observe(a, run(a, o.rt.build(), o.l, nil), o.l)
		lc.evals++
		if ref != nil {
			or := observe(ref, run(ref, o.rt.build(), o.l, nil), o.l)
			lc.evals++
			if what := diffObs(or, oa, false); what != "" {
				fail(oa.String(), or.String(), "an engine that was cleared after its last search and resized to S does not behave like search.New(S): "+what)
				return
			}
		}
		if b != nil {
			ob := observe(b, run(b, o.rt.build(), o.l, nil), o.l)
			lc.evals++
			if what := diffObs(oa, ob, false); what != "" {
				fail(ob.String(), oa.String(), "two engines driven through the same lifecycle script disagree: "+what, "engine B: the same script")
				return
			}
		}
	}
}

// genLifecycles draws the scripts.  Sizes: what transp.validateSize accepts (multiples of 32 bytes,
// from one bucket up), mostly >= 1000 buckets so that searches with output are possible; random
// scripts (every order of search / resize / clear) and directed down-up scripts (fill at a size,
// shrink, clear, grow back to exactly the old size / between / above the historical maximum).
func (e *env) genLifecycles(n int, big bool) []*lifecycle {
	rng := e.c.Rng
	sizes := []int{32000, 32032, 65536, 99968, 262144, 1 << 20, 2 << 20}
	pickSize := func() int {
		switch r := rng.IntN(20); {
		case r == 0:
			return []int{32, 640, 4096, 31968}[rng.IntN(4)] // too small for HashFull: searches run without output
		case r == 1:
			return 4 << 20
		case r < 6:
			return 32000 + 32*rng.IntN(30000)
		}
		return sizes[rng.IntN(len(sizes))]
	}
	searchOp := func(cur int, rt *root) lcOp {
		if rt == nil {
			rt = e.roots[rng.IntN(len(e.roots))]
		}
		l := limits{depth: MaxPlies, nodes: 800 + rng.IntN(3500)}
		switch rng.IntN(4) {
		case 0:
			l.depth = 3 + rng.IntN(5)
		case 1:
			l.soft = l.nodes / 2
			l.nodes = -1
		}
		l = optVars[rng.IntN(4)].on(l)
		if cur < minOutputTT {
			l.noOut = true
		}
		return lcOp{kind: 's', rt: rt, l: l}
	}
	// cheapRun: a long run of searches that cost next to nothing (depth 1, or a budget of 1..8 nodes)
	cheapRun := func(cur, count int) lcOp {
		o := lcOp{kind: 'n', count: count, l: limits{depth: 1, nodes: -1, noOut: true}}
		if rng.IntN(4) == 0 {
			o.l = limits{depth: MaxPlies, nodes: 1 + rng.IntN(8), noOut: true}
		}
		o.l.noCnt = rng.IntN(2) == 0
		if cur >= minOutputTT && rng.IntN(4) == 0 {
			o.l.noOut = false
		}
		for len(o.rts) < 1+count%3 {
			// non-final roots: every search of the run leaves entries behind
			if rt := e.roots[rng.IntN(len(e.roots))]; !rt.final {
				o.rts = append(o.rts, rt)
			}
		}
		return o
	}
	// the numbers of Go calls between New / Clear and the next Clear of the long-run scripts: around
	// every wrap of a byte-wide counter, and a few random ones
	wraps := []int{254, 255, 256, 257, 258, 510, 511, 512, 513, 514}
	nLong := 0
	if !big {
		nLong = 2*len(wraps) + e.c.Pick(6, 40)
		n += nLong
	}
	var out []*lifecycle
	for i := 0; i < n; i++ {
		lc := &lifecycle{tt0: pickSize()}
		cur := lc.tt0
		add := func(o lcOp) {
			if o.kind == 'r' {
				cur = o.size
			}
			lc.ops = append(lc.ops, o)
		}
		if big {
			// tables of 2 MiB and more (odd bucket counts included), filled by a search of tens of
			// thousands of nodes so that the last buckets hold entries too, then cleared
			lc.tag = "big-table"
			bigSize := func() int {
				switch rng.IntN(10) {
				case 0:
					return 2 << 20
				case 1:
					return []int{4 << 20, 8 << 20, 16 << 20}[rng.IntN(3)]
				case 2:
					return 4<<20 + 32*rng.IntN(1<<16)
				}
				return 2<<20 + 32*rng.IntN(1<<11) // just above the 2 MiB mark: the fill reaches most buckets
			}
			lc.tt0 = bigSize()
			cur = lc.tt0
			var rich []*root
			for _, rt := range e.roots {
				if !rt.final && len(rt.legal) >= 20 {
					rich = append(rich, rt)
				}
			}
			if len(rich) == 0 {
				rich = e.roots
			}
			for k := 2; k > 0; k-- {
				o := searchOp(cur, rich[rng.IntN(len(rich))])
				o.l = optVar{noCnt: o.l.noCnt, noOut: o.l.noOut}.on(limits{depth: MaxPlies, nodes: 100000 + rng.IntN(50000)})
				add(o)
			}
			if rng.IntN(3) == 0 {
				add(lcOp{kind: 'r', size: 2<<20 + 32*rng.IntN((cur-2<<20)/32+1)}) // smaller, still >= 2 MiB
			}
			add(lcOp{kind: 'c'})
			if rng.IntN(4) == 0 {
				add(lcOp{kind: 'r', size: bigSize()})
			}
			lc.canonical = true
		} else if i >= n-nLong {
			lc.tag = "long-run"
			k := i - (n - nLong)
			target := 1 + rng.IntN(700)
			if k < 2*len(wraps) {
				target = wraps[k%len(wraps)]
			}
			if k%4 == 3 {
				// the counter wraps WITHOUT a Clear: ageing / replacement after 256+ searches, twin engines must agree
				add(cheapRun(cur, 250+rng.IntN(60)))
				add(searchOp(cur, nil))
				if rng.IntN(2) == 0 {
					add(lcOp{kind: 'r', size: pickSize()})
				}
				add(searchOp(cur, nil))
			} else {
				left := target
				if rng.IntN(3) == 0 && left > 300 {
					// an earlier game of 256 searches, cleared, before the run
					add(cheapRun(cur, 256))
					add(lcOp{kind: 'c'})
				}
				for j := rng.IntN(3); j > 0 && left > 1; j-- {
					add(searchOp(cur, nil))
					left--
				}
				if rng.IntN(3) == 0 && left > 10 {
					first := 1 + rng.IntN(left-1)
					add(cheapRun(cur, first))
					add(lcOp{kind: 'r', size: pickSize()})
					left -= first
				}
				add(cheapRun(cur, left))
				add(lcOp{kind: 'c'})
				if rng.IntN(3) == 0 {
					add(lcOp{kind: 'r', size: pickSize()})
				}
				lc.canonical = true
			}
		} else if i%3 == 0 {
			// directed: fill, shrink, (search), clear, grow
			lc.tag = "down-up"
			for k := 1 + rng.IntN(3); k > 0; k-- {
				add(searchOp(cur, nil))
			}
			hi := cur
			lo := pickSize()
			for lo >= hi && hi > 32 {
				lo = 32 * (1 + rng.IntN(hi/32))
			}
			add(lcOp{kind: 'r', size: lo})
			if rng.IntN(2) == 0 {
				add(searchOp(cur, nil))
			}
			add(lcOp{kind: 'c'})
			switch rng.IntN(4) {
			case 0, 1:
				add(lcOp{kind: 'r', size: hi}) // back to exactly the old size
			case 2:
				if hi-lo > 64 {
					add(lcOp{kind: 'r', size: lo + 32*(1+rng.IntN((hi-lo)/32-1))}) // between
				} else {
					add(lcOp{kind: 'r', size: hi})
				}
			case 3:
				add(lcOp{kind: 'r', size: hi + 32*(1+rng.IntN(40000))}) // above the historical maximum
			}
			if rng.IntN(3) == 0 {
				add(lcOp{kind: 'r', size: pickSize()})
			}
			lc.canonical = true
		} else {
			lc.tag = "random"
			for k := 3 + rng.IntN(6); k > 0; k-- {
				switch r := rng.IntN(10); {
				case r < 4:
					add(searchOp(cur, nil))
				case r < 8:
					add(lcOp{kind: 'r', size: pickSize()})
				default:
					add(lcOp{kind: 'c'})
				}
			}
			if rng.IntN(3) != 0 {
				lc.canonical = true
				add(lcOp{kind: 'c'})
				for k := rng.IntN(3); k > 0; k-- {
					add(lcOp{kind: 'r', size: pickSize()})
				}
			}
		}
		lc.final = cur
		lc.twin = !lc.canonical || rng.IntN(3) == 0
		// follow-ups: a root the script searched (its entries are the stale ones, if any), then a random one
		var searched []*root
		sinceClear := 0
		for _, o := range lc.ops {
			switch o.kind {
			case 's':
				searched = append(searched, o.rt)
			case 'n':
				searched = append(searched, o.rts...)
			case 'c':
				if sinceClear > 0 && sinceClear%256 == 0 {
					lc.wrap256 = true
				}
				sinceClear = -o.goCalls()
			}
			sinceClear += o.goCalls()
		}
		if len(searched) > 0 {
			lc.follow = append(lc.follow, searchOp(cur, searched[rng.IntN(len(searched))]))
		}
		lc.follow = append(lc.follow, searchOp(cur, nil))
		// histogram class: the ideal-memory model of the buffer (content beyond the current length
		// survives a Clear; a grow within the old capacity would expose it again)
		bounds := map[int]bool{lc.tt0: true}
		for _, o := range lc.ops {
			if o.kind == 'r' {
				bounds[o.size] = true
			}
		}
		var bs []int
		for b := range bounds {
			bs = append(bs, b)
		}
		sort.Ints(bs)
		dirty := make([]bool, len(bs)) // region (bs[i-1], bs[i]] holds uncleared content
		c, capMax := lc.tt0, lc.tt0
		for _, o := range lc.ops {
			switch o.kind {
			case 's', 'n':
				for j, b := range bs {
					if b <= c {
						dirty[j] = true
					}
				}
			case 'c':
				for j, b := range bs {
					if b <= c {
						dirty[j] = false
					}
				}
			case 'r':
				c = o.size
				if c > capMax {
					capMax = c
					for j := range dirty {
						dirty[j] = false
					}
				}
			}
		}
		for j, b := range bs {
			if lc.canonical && b <= lc.final && dirty[j] {
				lc.regrown = true
			}
		}
		out = append(out, lc)
	}
	return out
}

func (e *env) c08lifecycle() {
	lcs := e.genLifecycles(e.c.Pick(240, 2500), false)
	parallel(len(lcs), func(i int) { lcs[i].exec() })
	e.reportLifecycles(lcs)
}

func (e *env) reportLifecycles(lcs []*lifecycle) {
	for _, lc := range lcs {
		e.r.Evaluations += lc.evals
		e.r.Count("lifecycle-scripts", 1)
		e.r.Count("lifecycle-scripts:"+lc.tag, 1)
		if lc.canonical {
			e.r.Count("lifecycle-scripts:cleared-then-resized,compared-with-New", 1)
		}
		if lc.twin {
			e.r.Count("lifecycle-scripts:twin-engine-through-the-same-script", 1)
		}
		if lc.regrown {
			e.r.Count("lifecycle-scripts:cleared-engine-regrown-over-a-region-cut-off-while-it-held-content", 1)
		}
		if lc.wrap256 {
			e.r.Count("lifecycle-scripts:Clear-after-a-multiple-of-256-Go-calls", 1)
		}
		if lc.procs > 0 {
			e.r.Count(fmt.Sprintf("lifecycle-scripts:GOMAXPROCS=%d", lc.procs), 1)
		}
		if lc.final < minOutputTT {
			e.r.Count("lifecycle-scripts:final-size-below-1000-buckets", 1)
		}
		nr, nc, ns := 0, 0, 0
		for _, o := range lc.ops {
			switch o.kind {
			case 'r':
				nr++
			case 'c':
				nc++
			default:
				ns += o.goCalls()
			}
		}
		e.r.Count("lifecycle-ops:ResizeTT", nr)
		e.r.Count("lifecycle-ops:Clear", nc)
		e.r.Count("lifecycle-ops:search", ns)
		if ns > 0 && nr > 0 {
			e.r.Nontrivial("lifecycle|" + strings.Join(lc.opsList(), "|"))
		}
		for _, f := range lc.fails {
			e.r.Fail(f)
		}
		if len(lc.fails) > 0 {
			e.r.Count("FAILED:lifecycle:"+lc.tag, 1)
		}
	}
	if len(lcs) > 0 && lcs[0].procs == 0 {
		e.r.Sample(map[string]any{"lifecycle": lcs[0].opsList()}, 8)
	}
}

var reTime = regexp.MustCompile(` time \d+`)

// c08uciLifecycle drives the same through the in-process UCI driver: `setoption name Hash value N`
// down and up around `ucinewgame`, then `go nodes K`; a second session that only sets the final
// hash size and sends `ucinewgame` must print the same lines (time masked) and the same bestmove.
func (e *env) c08uciLifecycle() {
	rng := e.c.Rng
	type uj struct {
		cmds, tail []string
		final      int
		a, b       []string
		err        string
	}
	hashes := []int{1, 2, 3, 4, 6, 8}
	var js []*uj
	for i := e.c.Pick(8, 60); i > 0; i-- {
		j := &uj{}
		var rts []*root
		for len(rts) < 2 {
			if rt := e.roots[rng.IntN(len(e.roots))]; !rt.final {
				rts = append(rts, rt)
			}
		}
		hi := hashes[1+rng.IntN(len(hashes)-1)]
		lo := 1 + rng.IntN(hi-1)
		j.cmds = append(j.cmds, fmt.Sprintf("setoption name Hash value %d", hi), "ucinewgame")
		for k := 1 + rng.IntN(3); k > 0; k-- {
			j.cmds = append(j.cmds, rts[rng.IntN(2)].position(), fmt.Sprintf("go nodes %d", 2000+rng.IntN(6000)))
		}
		j.cmds = append(j.cmds, fmt.Sprintf("setoption name Hash value %d", lo))
		if rng.IntN(2) == 0 {
			j.cmds = append(j.cmds, rts[rng.IntN(2)].position(), fmt.Sprintf("go nodes %d", 1000+rng.IntN(3000)))
		}
		j.final = hi
		switch rng.IntN(4) {
		case 0:
			j.final = lo + rng.IntN(hi-lo+1)
		case 1:
			j.final = hi + 1 + rng.IntN(3)
		}
		if rng.IntN(2) == 0 {
			j.cmds = append(j.cmds, "ucinewgame", fmt.Sprintf("setoption name Hash value %d", j.final))
		} else {
			j.cmds = append(j.cmds, fmt.Sprintf("setoption name Hash value %d", j.final+1), "ucinewgame", fmt.Sprintf("setoption name Hash value %d", j.final))
		}
		j.tail = []string{rts[0].position(), fmt.Sprintf("go nodes %d", 2000+rng.IntN(6000)), rts[1].position(), fmt.Sprintf("go nodes %d", 2000+rng.IntN(4000))}
		js = append(js, j)
	}
	// play returns the output of every `go` command (info lines with the time masked, then bestmove)
	play := func(cmds []string) (blocks [][]string, err string) {
		s := newSession(1 << 20)
		defer s.close()
		for _, c := range cmds {
			s.send(c)
			if strings.HasPrefix(c, "go") {
				lines, best, ok := s.waitBest(60 * time.Second)
				if !ok {
					return blocks, "no bestmove after " + c
				}
				var blk []string
				for _, l := range lines {
					blk = append(blk, reTime.ReplaceAllString(l, " time _"))
				}
				blocks = append(blocks, append(blk, best))
			}
		}
		return blocks, ""
	}
	flat := func(blocks [][]string) (out []string) {
		for _, b := range blocks {
			out = append(out, b...)
		}
		return
	}
	parallel(len(js), func(i int) {
		j := js[i]
		all, err := play(append(append([]string{}, j.cmds...), j.tail...))
		if err != "" {
			j.err = err
			return
		}
		ref, err := play(append([]string{fmt.Sprintf("setoption name Hash value %d", j.final), "ucinewgame"}, j.tail...))
		if err != "" {
			j.err = err
			return
		}
		// the answers to the `go` commands of the tail are the last ones of session A
		j.a, j.b = flat(all[len(all)-len(ref):]), flat(ref)
	})
	for _, j := range js {
		e.r.Evaluations += 2
		e.r.Count("uci-lifecycle-sessions", 1)
		ops := append(append([]string{"session A:"}, j.cmds...), j.tail...)
		ops = append(ops, "session B:", fmt.Sprintf("setoption name Hash value %d", j.final), "ucinewgame")
		ops = append(ops, j.tail...)
		if j.err != "" {
			e.r.Fail(common.Mismatch{Property: "C08", Kind: "failing-input", Ops: ops, Impl: j.err, Note: "UCI session did not answer"})
			continue
		}
		e.r.Nontrivial("ucilc|" + strings.Join(j.cmds, "|") + strings.Join(j.tail, "|"))
		if a, b := strings.Join(j.a, "\n"), strings.Join(j.b, "\n"); a != b {
			e.r.Fail(common.Mismatch{Property: "C08", Kind: "failing-input", Ops: ops, Impl: strings.Join(j.a, " ; "), Spec: strings.Join(j.b, " ; "),
				Note: "after `ucinewgame` and `setoption name Hash` the long-lived engine answers differently from a new engine given the same two commands"})
			e.r.Count("FAILED:uci-lifecycle", 1)
		}
	}
}

// ---------------------------------------------------------------------------------------------
// C08 (f) cross-process reproducibility: the harness re-executes itself (-child-session) as child
// processes that each run the same session script (read from stdin) and print the transcript.

type sessPly struct{ Depth, Nodes, Soft int }

type sessGame struct {
	Fen    string
	Moves  []string
	Resize int  // > 0: ResizeTT before the game
	Clear  bool // Clear before the game
	Plies  []sessPly
}

type sessScript struct {
	TT    int
	Games []sessGame
}

func (sc *sessScript) ops() []string {
	ops := []string{fmt.Sprintf("new tt=%d", sc.TT)}
	for _, g := range sc.Games {
		if g.Resize > 0 {
			ops = append(ops, fmt.Sprintf("ResizeTT(%d)", g.Resize))
		}
		if g.Clear {
			ops = append(ops, "Clear()")
		}
		var ls []string
		for _, p := range g.Plies {
			ls = append(ls, limits{depth: p.Depth, nodes: p.Nodes, soft: p.Soft}.String())
		}
		ops = append(ops, (&root{fen: g.Fen, moves: g.Moves}).position()+" ; self-play, one search per ply: "+strings.Join(ls, " | "))
	}
	return ops
}

// runSession runs the script on one engine and returns the transcript: everything observable
// except the time field, and the state digest at the end.
func runSession(sc *sessScript) []string {
	var out []string
	s := search.New(sc.TT)
	for gi, g := range sc.Games {
		if g.Resize > 0 {
			s.ResizeTT(g.Resize)
		}
		if g.Clear {
			s.Clear()
		}
		b := (&root{fen: g.Fen, moves: g.Moves}).build()
		if b == nil {
			out = append(out, fmt.Sprintf("game %d: unusable root", gi))
			continue
		}
		for pi, p := range g.Plies {
			legal := implutil.Legal(b)
			if len(legal) == 0 || b.FiftyCnt >= 100 || b.Threefold() >= 3 {
				break
			}
			l := limits{depth: p.Depth, nodes: p.Nodes, soft: p.Soft}
			oc := run(s, b, l, nil)
			out = append(out, fmt.Sprintf("game %d ply %d %s %s -> %s", gi, pi, b.FEN(), l, observeRun(oc, l)))
			if oc.mv == 0 || !contains(legal, oc.mv) {
				break
			}
			b.MakeMove(oc.mv)
		}
	}
	return append(out, "digest "+digest(s))
}

// childMain is the child process: script on stdin, transcript on stdout.
func childMain() {
	var sc sessScript
	if err := json.NewDecoder(os.Stdin).Decode(&sc); err != nil {
		fmt.Fprintln(os.Stderr, "search harness child: bad session script:", err)
		os.Exit(2)
	}
	w := bufio.NewWriter(os.Stdout)
	for _, l := range runSession(&sc) {
		fmt.Fprintln(w, l)
	}
	w.Flush()
}

// genSession draws one session script: table sizes on both sides of 2 MiB (odd bucket counts
// included), 2-3 self-play games, optional ResizeTT / Clear between the games.
func (e *env) genSession() sessScript {
	rng := e.c.Rng
	size := func() int {
		switch rng.IntN(5) {
		case 0:
			return 2<<20 + 32*rng.IntN(1<<12)
		case 1:
			return []int{2 << 20, 4 << 20, 3 << 20}[rng.IntN(3)]
		}
		return ttSizes[rng.IntN(3)]
	}
	sc := sessScript{TT: size()}
	for g := 2 + rng.IntN(2); g > 0; g-- {
		var rt *root
		for {
			if rt = e.roots[rng.IntN(len(e.roots))]; !rt.final {
				break
			}
		}
		gm := sessGame{Fen: rt.fen, Moves: rt.moves}
		if len(sc.Games) > 0 {
			if rng.IntN(3) == 0 {
				gm.Resize = size()
			}
			gm.Clear = rng.IntN(2) == 0
		}
		for p := 3 + rng.IntN(4); p > 0; p-- {
			pl := sessPly{Depth: MaxPlies, Nodes: -1}
			switch rng.IntN(3) {
			case 0:
				pl.Depth = 3 + rng.IntN(3)
			case 1:
				pl.Nodes = 1000 + rng.IntN(6000)
			case 2:
				pl.Soft = 500 + rng.IntN(3000)
			}
			gm.Plies = append(gm.Plies, pl)
		}
		// one heavier search per game so that a big table gets entries everywhere
		gm.Plies[rng.IntN(len(gm.Plies))] = sessPly{Depth: MaxPlies, Nodes: 20000 + rng.IntN(30000)}
		sc.Games = append(sc.Games, gm)
	}
	return sc
}

// procValues are the runtime.GOMAXPROCS values (GOMAXPROCS environment values of the child
// processes) the experiments are repeated under: the CPU count must not matter.
var procValues = []int{1, 2, 3, 5, 6, 7, 12}

// c08env repeats lifecycle, concurrency and session experiments under several GOMAXPROCS values
// (the runtime environment is an input the property says must not matter): big-table lifecycle
// scripts against search.New(S), concurrent engines against their solo runs, and a session whose
// transcript must equal the one obtained under the default setting.
func (e *env) c08env() {
	vals := append([]int{runtime.GOMAXPROCS(0)}, procValues...)
	perVal := e.c.Pick(3, 10)
	lcs := e.genLifecycles(perVal*len(vals), true)
	ms := e.genMulti(0, 2*len(vals))
	scripts := []sessScript{e.genSession(), e.genSession()}
	var ref [][]string
	for i := range scripts {
		ref = append(ref, runSession(&scripts[i]))
	}
	prev := runtime.GOMAXPROCS(0)
	defer runtime.GOMAXPROCS(prev)
	for vi, v := range vals {
		runtime.GOMAXPROCS(v)
		batch := lcs[vi*perVal : (vi+1)*perVal]
		for _, lc := range batch {
			lc.procs = v
		}
		mb := ms[2*vi : 2*vi+2]
		got := make([][]string, len(scripts))
		parallel(len(batch)+len(mb)+len(scripts), func(i int) {
			switch {
			case i < len(batch):
				batch[i].exec()
			case i < len(batch)+len(mb):
				mb[i-len(batch)].exec()
			default:
				k := i - len(batch) - len(mb)
				got[k] = runSession(&scripts[k])
			}
		})
		for _, m := range mb {
			for fi := range m.fails {
				m.fails[fi].Ops = append([]string{fmt.Sprintf("runtime.GOMAXPROCS(%d)", v)}, m.fails[fi].Ops...)
			}
		}
		for k := range scripts {
			e.r.Count("sessions-under-GOMAXPROCS", 1)
			e.r.Evaluations += len(got[k])
			if a, b := strings.Join(ref[k], "\n"), strings.Join(got[k], "\n"); a != b {
				x, y := "", ""
				for i := 0; i < len(ref[k]) || i < len(got[k]); i++ {
					x, y = "<end>", "<end>"
					if i < len(ref[k]) {
						x = ref[k][i]
					}
					if i < len(got[k]) {
						y = got[k][i]
					}
					if x != y {
						break
					}
				}
				e.r.Fail(common.Mismatch{Property: "C08", Kind: "failing-input",
					Ops:  append(scripts[k].ops(), fmt.Sprintf("the same session under runtime.GOMAXPROCS(%d) and under runtime.GOMAXPROCS(%d); first differing transcript line", prev, v)),
					Impl: y, Spec: x, Note: "the results of a session depend on the number of CPUs the runtime may use"})
				e.r.Count("FAILED:session-under-GOMAXPROCS", 1)
			}
		}
	}
	runtime.GOMAXPROCS(prev)
	e.reportLifecycles(lcs)
	e.reportMulti(ms)
}

func (e *env) c08processes() {
	exe, err := os.Executable()
	if err != nil {
		panic("search harness: cannot find its own executable: " + err.Error())
	}
	const procs = 2
	type pj struct {
		sc    sessScript
		local []string
		child [procs]string
		err   [procs]error
	}
	var js []*pj
	for i := e.c.Pick(4, 16); i > 0; i-- {
		js = append(js, &pj{sc: e.genSession()})
	}
	parallel(len(js)*(procs+1), func(i int) {
		j, k := js[i/(procs+1)], i%(procs+1)
		if k == procs {
			j.local = runSession(&j.sc)
			return
		}
		in, _ := json.Marshal(&j.sc)
		cmd := exec.Command(exe, "-child-session")
		// every child under another CPU count (the parent runs the session under the default)
		cmd.Env = append(os.Environ(), fmt.Sprintf("GOMAXPROCS=%d", procValues[i%len(procValues)]))
		cmd.Stdin = bytes.NewReader(in)
		cmd.Stderr = os.Stderr
		out, err := cmd.Output()
		j.child[k], j.err[k] = string(out), err
	})
	for _, j := range js {
		e.r.Count("process-sessions", 1)
		e.r.Count("process-sessions:child-processes", procs)
		e.r.Evaluations += (procs + 1) * (len(j.local) - 1)
		e.r.Count("process-sessions:searches-per-process", len(j.local)-1)
		local := strings.Join(j.local, "\n") + "\n"
		if len(j.local) >= 6 {
			e.r.Nontrivial("proc|" + strings.Join(j.sc.ops(), "|"))
		}
		for k := 0; k < procs; k++ {
			if j.err[k] != nil {
				panic(fmt.Sprintf("search harness: child process failed: %v", j.err[k]))
			}
		}
		firstDiff := func(a, b string) (string, string) {
			la, lb := strings.Split(a, "\n"), strings.Split(b, "\n")
			for i := 0; i < len(la) || i < len(lb); i++ {
				x, y := "<end>", "<end>"
				if i < len(la) {
					x = la[i]
				}
				if i < len(lb) {
					y = lb[i]
				}
				if x != y {
					return x, y
				}
			}
			return "", ""
		}
		switch {
		case j.child[0] != j.child[1]:
			x, y := firstDiff(j.child[0], j.child[1])
			e.r.Fail(common.Mismatch{Property: "C08", Kind: "failing-input", Ops: append(j.sc.ops(), "the same session in two separate processes (started with different GOMAXPROCS values); first differing transcript line"),
				Impl: y, Spec: x, Note: "two engine PROCESSES in the same state given the same requests report different results"})
			e.r.Count("FAILED:process-sessions", 1)
		case j.child[0] != local:
			x, y := firstDiff(local, j.child[0])
			e.r.Fail(common.Mismatch{Property: "C08", Kind: "failing-input", Ops: append(j.sc.ops(), "the same session in this process and in a child process; first differing transcript line"),
				Impl: y, Spec: x, Note: "two engine PROCESSES in the same state given the same requests report different results"})
			e.r.Count("FAILED:process-sessions", 1)
		}
	}
	if len(js) > 0 {
		e.r.Sample(map[string]any{"process-session": js[0].sc.ops()}, 10)
	}
}

// c08ponder: (d) the hard budget holds while pondering as well.  A ponder search ignores the depth
// limit and, at the budget, neither counts nor aborts until the ponder hit arrives; the runs are
// therefore bounded by a stop channel closed after a short while.  The ponder-hit channel is never
// signalled / holds its message before the start / is signalled after a delay.
func (e *env) c08ponder() {
	rng := e.c.Rng
	type pj struct {
		rt        *root
		n, d, tt  int
		mode      int // 0 never, 1 before the start, 2 after hitAfter
		hitAfter  time.Duration
		stopAfter time.Duration
		got       int
		oc        outcome
	}
	roots := e.roots
	if len(roots) > e.c.Pick(16, 60) {
		roots = roots[:e.c.Pick(16, 60)]
	}
	var js []*pj
	for ri, rt := range roots {
		for _, n := range []int{0, 1, 2, 7, 50, 300, 1000, 5000, rng.IntN(3000), rng.IntN(20000)} {
			for mode := 0; mode < 3; mode++ {
				js = append(js, &pj{rt: rt, n: n, d: 1 + rng.IntN(6), tt: ttSizes[(ri+n+mode)%3], mode: mode,
					hitAfter:  time.Duration(rng.IntN(8000)) * time.Microsecond,
					stopAfter: time.Duration(4000+rng.IntN(16000)) * time.Microsecond})
			}
		}
	}
	parallel(len(js), func(i int) {
		j := js[i]
		b := j.rt.build()
		stop := make(chan struct{})
		ph := make(chan time.Time, 1)
		if j.mode == 1 {
			ph <- time.Now()
		}
		var wg sync.WaitGroup
		wg.Add(1)
		go func() {
			defer wg.Done()
			if j.mode == 2 {
				time.Sleep(j.hitAfter)
				ph <- time.Now()
				if j.stopAfter > j.hitAfter {
					time.Sleep(j.stopAfter - j.hitAfter)
				}
			} else {
				time.Sleep(j.stopAfter)
			}
			close(stop)
		}()
		cnt := search.Counters{}
		func() {
			defer func() {
				if p := recover(); p != nil {
					j.oc.panicked = fmt.Sprint(p)
				}
			}()
			j.oc.score, j.oc.mv, j.oc.pm = search.New(j.tt).Go(b, search.WithOutput(nil), search.WithCounters(&cnt),
				search.WithDepth(Depth(j.d)), search.WithNodes(j.n), search.WithPonderHit(ph), search.WithStop(stop))
		}()
		wg.Wait()
		j.got = cnt.Nodes
	})
	names := [...]string{"never signalled", "message waiting before the start", "signalled after a delay"}
	for _, j := range js {
		e.r.Evaluations++
		e.r.Count("ponder-budget", 1)
		ops := []string{fmt.Sprintf("new tt=%d", j.tt), j.rt.position(),
			fmt.Sprintf("go ponder depth %d nodes %d (ponderhit %s, stop closed after %v)", j.d, j.n, names[j.mode], j.stopAfter)}
		if j.got > j.n || j.oc.panicked != "" {
			e.r.Fail(common.Mismatch{Property: "C08", Kind: "failing-input", Ops: ops,
				Impl: fmt.Sprintf("nodes=%d %s", j.got, j.oc.panicked), Spec: fmt.Sprintf("<= %d", j.n),
				Note: "node counter exceeds the hard budget in a ponder search"})
		}
		if note := checkResult(j.rt, j.oc, false); note != "" {
			e.r.Fail(common.Mismatch{Property: "C06", Kind: "failing-input", Ops: ops,
				Impl: fmt.Sprintf("score=%d move=%s", j.oc.score, j.oc.mv), Note: "ponder search with a hard budget: " + note})
		}
		if j.got == j.n {
			e.r.Count("ponder-budget:budget-exhausted", 1)
			e.r.Nontrivial(strings.Join(ops[:2], "|") + fmt.Sprintf("|ponder n=%d mode=%d", j.n, j.mode))
		}
	}
}

// ---------------------------------------------------------------------------------------------

func sqrt(x float64) float64 {
	z := x
	for i := 0; i < 40; i++ {
		z = (z + x/z) / 2
	}
	return z
}

func hashStr(s string) string {
	h := fnv.New64a()
	h.Write([]byte(s))
	return strconv.FormatUint(h.Sum64(), 16)
}

func main() {
	c := common.Parse()
	if *childSession {
		childMain()
		return
	}
	if *childUCI {
		uci.NewDriver(uci.WithInput(os.Stdin), uci.WithOutput(os.Stdout), uci.WithError(os.Stderr), uci.WithSearch(search.New(1<<20))).Run()
		return
	}
	e := &env{c: c}
	boardDrv := filepath.Join(filepath.Dir(c.Driver), "drv_board")
	if c.Driver == "" {
		boardDrv = "/verif/lean/.lake/build/bin/drv_board"
	}
	if _, err := os.Stat(boardDrv); err != nil {
		fmt.Fprintln(os.Stderr, "search harness: the rule-book driver is missing:", boardDrv)
		os.Exit(2)
	}
	e.bm = common.StartModel(boardDrv)
	defer e.bm.Close()
	if a := e.bm.Ask(implutil.KeysLine()); a != "ok" {
		panic("drv_board did not accept the keys: " + a)
	}
	if v, err := strconv.Atoi(os.Getenv("VERIF_SEARCH_HANG_S")); err == nil && v > 0 {
		hangAfter = time.Duration(v) * time.Second
	}
	var hung atomic.Bool
	onHang = func(fen string, l limits) {
		if hung.Swap(true) {
			return
		}
		e.mu.Lock()
		e.r.Fail(common.Mismatch{Property: "C" + (*suite)[1:], Kind: "failing-input", Ops: []string{"position fen " + fen, l.String()},
			Impl: fmt.Sprintf("no return after %v", hangAfter), Spec: "the search returns",
			Note: "a search with these limits did not return (the engine's tables may have been warmed by earlier searches of the experiment); the suite was cut short here"})
		e.r.Write(c)
		os.Exit(0)
	}
	switch *suite {
	case "c06":
		e.r = common.NewResult(c, "search/c06", "C06")
		e.c06()
	case "c07":
		e.r = common.NewResult(c, "search/c07", "C07")
		e.c07()
	case "c08":
		e.r = common.NewResult(c, "search/c08", "C08")
		e.c08()
	case "c06spsa":
		e.r = common.NewResult(c, "search/c06spsa", "C06")
		e.c06spsa()
	default:
		panic("unknown suite " + *suite)
	}
	e.r.Write(c)
}
