// Correspondence harness for C17 (and the integer side of C19).
//
// For every generated valid position it runs the REAL evaluation (`eval.Eval[Score]`, /repo) and the
// compiled Lean model (`evalInt`, drv_eval) and checks
//
//	(1) implementation == model on the position and on its mirror image           (correspondence)
//	(2) eval(mirror) == eval(position)                                            (property, in Go)
//	(3) eval is the same on variants that differ only in castling rights, en-passant state, fullmove
//	    number, hash history (random walk + reload from FEN, ParseFEN without any hash) or a preceding
//	    evaluation of some other position                                          (property, in Go)
//
// The mirror image (ranks flipped, colours and side to move swapped) is constructed here from the
// plain mailbox, not with engine code, and is cross-checked against the Lean definition `mirror`.
// Coefficient sets: the shipped `eval.Coefficients` and, every other batch, a random set (small
// values, or the full int16 range so that wrap-around arithmetic is exercised); the same set is handed
// to the model.  (2) and (3) must hold for every coefficient set.
//
//	eval -tier quick|thorough -seed N -driver drv_eval -out r.json [-n positions] [-workers k]
package main

import (
	"flag"
	"fmt"
	"math/rand/v2"
	"reflect"
	"strconv"
	"strings"
	"sync"

	"github.com/paulsonkoly/chess-3/board"
	"github.com/paulsonkoly/chess-3/eval"

	. "github.com/paulsonkoly/chess-3/chess"

	"verifharness/common"
	"verifharness/implutil"
	"verifharness/posgen"
)

var nFlag = flag.Int("n", 0, "number of positions (0 = tier default)")
var workersFlag = flag.Int("workers", 8, "number of parallel model drivers")

// ---------------------------------------------------------------------------------------------
// mailbox helpers (no engine code)

func mirrorPos(p posgen.Pos) posgen.Pos {
	var q posgen.Pos
	for s := 0; s < 64; s++ {
		m := p.Men[s^56]
		switch {
		case m == 0:
		case m > 8:
			m -= 8
		default:
			m += 8
		}
		q.Men[s] = m
	}
	q.Black = !p.Black
	q.Castles = (p.Castles&3)<<2 | (p.Castles>>2)&3
	if p.EP != 0 {
		q.EP = p.EP ^ 56
	}
	q.Half, q.Full = p.Half, p.Full
	return q
}

func class(p *posgen.Pos) string {
	var cnt [2][7]int
	total := 0
	for _, m := range p.Men {
		if m != 0 {
			c := 0
			if m > 8 {
				c = 1
			}
			cnt[c][int(m)&7]++
			total++
		}
	}
	if total == 2 {
		return "bare-kings"
	}
	heavy := 0
	for c := 0; c < 2; c++ {
		heavy += cnt[c][posgen.P] + cnt[c][posgen.R] + cnt[c][posgen.Q]
	}
	if heavy == 0 {
		minors := cnt[0][posgen.N] + cnt[0][posgen.B] + cnt[1][posgen.N] + cnt[1][posgen.B]
		for c := 0; c < 2; c++ {
			if cnt[c][posgen.N] == 1 && cnt[c][posgen.B] == 1 && cnt[1-c][posgen.N]+cnt[1-c][posgen.B] == 0 {
				return "knb-v-k"
			}
		}
		w, b := cnt[0][posgen.N]+3*cnt[0][posgen.B], cnt[1][posgen.N]+3*cnt[1][posgen.B]
		if minors <= 3 && w-b <= 3 && b-w <= 3 {
			return "insufficient"
		}
		return "minor-only"
	}
	for c := 0; c < 2; c++ {
		if cnt[c][posgen.Q] > 1 || cnt[c][posgen.R] > 2 || cnt[c][posgen.B] > 2 || cnt[c][posgen.N] > 2 {
			return "promoted"
		}
	}
	return "normal"
}

// minorEnding samples a pawnless, rookless, queenless position of the requested kind.
func minorEnding(rng *rand.Rand, kind int) (posgen.Pos, bool) {
	var p posgen.Pos
	p.Full = 1 + rng.IntN(90)
	if rng.IntN(2) == 0 {
		p.Half = rng.IntN(101)
	}
	p.Black = rng.IntN(2) == 1
	wk := rng.IntN(64)
	if rng.IntN(3) == 0 { // corners and edges matter for the KNB v K corner distance
		wk = []int{0, 7, 56, 63, 1, 8, 62, 55}[rng.IntN(8)]
	}
	bk := rng.IntN(64)
	df, dr := wk%8-bk%8, wk/8-bk/8
	if df*df <= 1 && dr*dr <= 1 {
		return p, false
	}
	p.Men[wk], p.Men[bk] = posgen.K, posgen.K+8
	var men []int8
	side := int8(8 * rng.IntN(2))
	switch kind {
	case 0: // bare kings
	case 1: // knight + bishop v bare king
		men = []int8{posgen.N + side, posgen.B + side}
	case 2: // drawn minor-piece endings
		switch rng.IntN(6) {
		case 0:
			men = []int8{posgen.N + side}
		case 1:
			men = []int8{posgen.B + side}
		case 2:
			men = []int8{posgen.N + side, posgen.N + side}
		case 3:
			men = []int8{posgen.B + side, posgen.B + 8 - side}
		case 4:
			men = []int8{posgen.B + side, posgen.N + 8 - side}
		case 5:
			men = []int8{posgen.N + side, posgen.N + 8 - side, posgen.N + side}
		}
	default: // other minor-piece-only material (not drawn by the rule)
		n := 2 + rng.IntN(4)
		for i := 0; i < n; i++ {
			k := int8(posgen.N + rng.IntN(2))
			men = append(men, k+int8(8*rng.IntN(2)))
		}
	}
	for _, m := range men {
		for try := 0; ; try++ {
			s := rng.IntN(64)
			if p.Men[s] == 0 {
				p.Men[s] = m
				break
			}
			if try > 100 {
				return p, false
			}
		}
	}
	if p.InCheck(!p.Black) {
		return p, false
	}
	return p, true
}

// ---------------------------------------------------------------------------------------------
// coefficient sets

// leaves enumerates the int16 cells of a CoeffSet[Score] in declaration order, row-major, through the
// type structure (independent of the extractor's shape: a disagreement shows as a mismatch).
func leaves(v reflect.Value, f func(reflect.Value)) {
	switch v.Kind() {
	case reflect.Struct:
		for i := 0; i < v.NumField(); i++ {
			leaves(v.Field(i), f)
		}
	case reflect.Array:
		for i := 0; i < v.Len(); i++ {
			leaves(v.Index(i), f)
		}
	case reflect.Int16:
		f(v)
	default:
		panic("unexpected kind in CoeffSet: " + v.Kind().String())
	}
}

func randomCoeffs(rng *rand.Rand, mode int) *eval.CoeffSet[Score] {
	cs := &eval.CoeffSet[Score]{}
	leaves(reflect.ValueOf(cs).Elem(), func(v reflect.Value) {
		var x int
		switch mode {
		case 0: // the magnitude of real coefficients
			x = rng.IntN(401) - 200
		case 1: // large: sums wrap around
			x = rng.IntN(65536) - 32768
		default: // sparse: most cells zero, so that single terms are isolated
			if rng.IntN(8) == 0 {
				x = rng.IntN(2001) - 1000
			}
		}
		v.SetInt(int64(x))
	})
	return cs
}

func csLine(cs *eval.CoeffSet[Score]) string {
	var sb strings.Builder
	sb.WriteString("cs")
	leaves(reflect.ValueOf(cs).Elem(), func(v reflect.Value) {
		sb.WriteByte(' ')
		sb.WriteString(strconv.FormatInt(v.Int(), 10))
	})
	return sb.String()
}

// ---------------------------------------------------------------------------------------------
// one job = one position with its pre-drawn random decisions

type job struct {
	fen    string
	source string
	walk   []int // random choices for the history walk
	other  string
	full2  int
}

type outcome struct {
	job        job
	skipped    string // non-empty: not evaluated (reason)
	class      string
	path       string
	key        string
	variants   int
	mismatches []common.Mismatch
	hist       map[string]int
	sample     any
}

func evalSafe(b *board.Board, cs *eval.CoeffSet[Score]) (s string) {
	defer func() {
		if r := recover(); r != nil {
			s = "panic"
		}
	}()
	return strconv.Itoa(int(eval.Eval(b, cs)))
}

func dumpLite(b *board.Board) string {
	d := implutil.Dump(b)
	if i := strings.LastIndex(d, " ["); i >= 0 {
		d = d[:i]
	}
	return d
}

type worker struct {
	m  *common.Model
	cs *eval.CoeffSet[Score]
}

func (w *worker) run(jobs []job, csName string) []outcome {
	outs := make([]outcome, len(jobs))
	lines := make([]string, 0, len(jobs))
	idx := make([]int, 0, len(jobs))
	boards := make([]*board.Board, len(jobs))
	mboards := make([]*board.Board, len(jobs))
	for k, j := range jobs {
		o := &outs[k]
		o.job = j
		o.hist = map[string]int{}
		p, ok := posgen.Parse(j.fen)
		if !ok {
			o.skipped = "unparsable"
			continue
		}
		b, err := board.FromFEN(j.fen)
		if err != nil {
			o.skipped = "fen-rejected"
			continue
		}
		mp := mirrorPos(p)
		mb, err := board.FromFEN(mp.FEN())
		if err != nil {
			o.skipped = "mirror-fen-rejected"
			continue
		}
		o.class = class(&p)
		boards[k], mboards[k] = b, mb
		lines = append(lines, "e "+dumpLite(b))
		idx = append(idx, k)
	}
	answers := w.m.Batch(lines)
	for n, k := range idx {
		o := &outs[k]
		j := o.job
		b, mb := boards[k], mboards[k]
		ans := answers[n]
		// `<valid><wf><oneKing> <eval> <evalMirror> | <mirror dump>`
		parts := strings.SplitN(ans, " | ", 2)
		fs := strings.Fields(parts[0])
		if len(parts) != 2 || len(fs) != 3 || len(fs[0]) != 3 {
			o.mismatches = append(o.mismatches, common.Mismatch{Property: "C17", Kind: "broken-correspondence",
				Ops: []string{"fen " + j.fen}, Impl: "", Model: ans, Note: "malformed driver answer"})
			continue
		}
		if fs[0][0] != '1' {
			o.skipped = "not-valid"
			continue
		}
		base := evalSafe(b, w.cs)
		mir := evalSafe(mb, w.cs)
		ops := []string{"coeffs " + csName, "fen " + j.fen}
		// (2) the property itself: mirror symmetry
		mirrorOK := base == mir
		if !mirrorOK {
			o.mismatches = append(o.mismatches, common.Mismatch{Property: "C17", Kind: "failing-input",
				Ops: append(ops, "eval", "fen "+mb.FEN(), "eval"), Impl: base + " vs mirror " + mir, Model: fs[1] + " vs mirror " + fs[2],
				Note: "evaluation differs between a position and its mirror image"})
		}
		// (1) correspondence on both
		if base != fs[1] || mir != fs[2] {
			kind := "broken-correspondence"
			if !mirrorOK {
				kind = "failing-input"
			}
			o.mismatches = append(o.mismatches, common.Mismatch{Property: "C17", Kind: kind, Ops: append(ops, "eval"),
				Impl: base + " " + mir, Model: fs[1] + " " + fs[2], Note: "implementation and Lean evalInt differ (position, mirror)"})
		}
		if d := dumpLite(mb); d != parts[1] {
			o.mismatches = append(o.mismatches, common.Mismatch{Property: "C17", Kind: "broken-correspondence", Ops: ops,
				Impl: d, Model: parts[1], Note: "harness mirror construction and Lean `mirror` differ"})
		}
		// (3) invariance: variants that differ only in what the evaluation must not see
		variant := func(name string, vb *board.Board, prep ...string) {
			o.variants++
			o.hist["variant:"+name]++
			got := evalSafe(vb, w.cs)
			// the variant must still agree with the base in placement, side to move and clock
			if vb.Pieces != b.Pieces || vb.Colors != b.Colors || vb.STM != b.STM || vb.FiftyCnt != b.FiftyCnt {
				panic("harness: variant " + name + " changed the position")
			}
			if got != base {
				o.mismatches = append(o.mismatches, common.Mismatch{Property: "C17", Kind: "failing-input",
					Ops: append(append(ops, "eval"), append(prep, "variant "+name, "eval")...), Impl: base + " vs " + got, Model: fs[1],
					Note: "evaluation changed by " + name})
			}
		}
		// castling rights
		for _, cr := range []Castles{0, 15, b.Castles ^ 5, b.Castles ^ 10} {
			if cr != b.Castles {
				vb := *b
				vb.Castles = cr
				variant("castles", &vb, fmt.Sprintf("set Castles=%d", cr))
			}
		}
		{ // castling rights through the FEN field
			p, _ := posgen.Parse(j.fen)
			p.Castles = 0
			if vb, err := board.FromFEN(p.FEN()); err == nil && b.Castles != 0 {
				variant("castles-fen", vb, "fen "+p.FEN())
			}
		}
		// en-passant state
		if b.EnPassant != 0 {
			vb := *b
			vb.EnPassant = 0
			variant("ep-cleared", &vb, "set EnPassant=0")
			p, _ := posgen.Parse(j.fen)
			p.EP = 0
			if vb, err := board.FromFEN(p.FEN()); err == nil {
				variant("ep-cleared-fen", vb, "fen "+p.FEN())
			}
		} else {
			vb := *b
			vb.EnPassant = Square(16 + (j.full2 % 8))
			if b.STM == White {
				vb.EnPassant += 24
			}
			variant("ep-set", &vb, fmt.Sprintf("set EnPassant=%d", vb.EnPassant))
		}
		// fullmove number
		{
			p, _ := posgen.Parse(j.fen)
			p.Full = j.full2
			if vb, err := board.FromFEN(p.FEN()); err == nil {
				variant("fullmove", vb, "fen "+p.FEN())
			}
		}
		// hash history: no history at all (ParseFEN), and a long one (walk, then compare with a reload)
		{
			var vb board.Board
			if err := board.ParseFEN(&vb, []byte(j.fen)); err == nil {
				variant("no-hash", &vb, "parsefen "+j.fen)
			}
		}
		if len(j.walk) > 0 {
			wb, _ := board.FromFEN(j.fen)
			var played []string
			for _, r := range j.walk {
				l := implutil.Legal(wb)
				if len(l) == 0 || wb.FiftyCnt >= 100 {
					break
				}
				mv := l[r%len(l)]
				played = append(played, mv.String())
				wb.MakeMove(mv)
			}
			if len(played) > 0 {
				o.hist["variant:history"]++
				o.variants++
				walked := evalSafe(wb, w.cs)
				fen2 := wb.FEN()
				fresh, err := board.FromFEN(fen2)
				if err == nil {
					if f := evalSafe(fresh, w.cs); f != walked {
						o.mismatches = append(o.mismatches, common.Mismatch{Property: "C17", Kind: "failing-input",
							Ops:  []string{"coeffs " + csName, "fen " + j.fen, "moves " + strings.Join(played, " "), "eval", "fen " + fen2, "eval"},
							Impl: walked + " vs " + f, Model: "", Note: "evaluation depends on how the position was reached"})
					}
				}
			}
		}
		// a preceding evaluation (of another position, and of the same one)
		if ob, err := board.FromFEN(j.other); err == nil {
			evalSafe(ob, w.cs)
			variant("after-other-eval", b, "fen "+j.other, "eval")
		}
		variant("repeat", b)

		o.path = "tapered"
		if o.class == "insufficient" || o.class == "bare-kings" {
			o.path = "insufficient"
		} else if o.class == "knb-v-k" {
			o.path = "knbvk"
		}
		f := strings.Fields(j.fen)
		o.key = csName + "|" + f[0] + " " + f[1] + " " + f[4]
		st := p2stats(j.fen)
		o.hist["class:"+o.class]++
		o.hist["source:"+j.source]++
		o.hist["features:"+st]++
		if base != "0" {
			o.hist["nonzero"]++
		}
		o.sample = map[string]any{"fen": j.fen, "coeffs": csName, "eval": base, "mirror_fen": mb.FEN(), "eval_mirror": mir, "variants": o.variants}
	}
	return outs
}

func p2stats(fen string) string {
	p, ok := posgen.Parse(fen)
	if !ok {
		return "?"
	}
	return p.Features().Key()
}

func main() {
	c := common.Parse()
	r := common.NewResult(c, "eval", "C17", "C19")
	r.Rule = "valid position (Lean `Board.valid`) evaluated by implementation and model, together with its mirror image " +
		"and >= 6 variants differing only in castling rights / en-passant / fullmove / hash history / preceding evaluations; " +
		"distinct = distinct (coefficient set, placement, side to move, halfmove clock) not on the insufficient-material shortcut"
	total := *nFlag
	if total == 0 {
		total = c.Pick(20000, 1000000)
	}
	nw := *workersFlag
	ws := make([]*worker, nw)
	for i := range ws {
		ws[i] = &worker{m: common.StartModel(c.Driver), cs: &eval.Coefficients}
		defer ws[i].m.Close()
	}
	stream := implutil.NewStream(c)
	rng := c.Rng
	batchSize := 250 * nw
	done := 0
	batchNo := 0
	for done < total {
		// coefficient set of this batch
		csName := "shipped"
		cs := &eval.Coefficients
		if batchNo%2 == 1 {
			mode := (batchNo / 2) % 3
			seed := rng.Uint64()
			cs = randomCoeffs(rand.New(rand.NewPCG(seed, 17)), mode)
			csName = fmt.Sprintf("random(mode=%d,pcg=%d/17)", mode, seed)
		}
		line := "cs shipped"
		if cs != &eval.Coefficients {
			line = csLine(cs)
		}
		for _, w := range ws {
			w.cs = cs
			if a := w.m.Ask(line); !strings.HasPrefix(a, "ok") {
				panic("driver rejected the coefficient set: " + a)
			}
		}
		n := min(batchSize, total-done)
		jobs := make([]job, n)
		for k := range jobs {
			var j job
			switch x := rng.IntN(20); {
			case x < 4: // small-material classes
				for {
					kind := rng.IntN(4)
					if p, ok := minorEnding(rng, kind); ok {
						j.fen, j.source = p.FEN(), [...]string{"bare", "knb", "drawn-minor", "minor-only"}[kind]
						break
					}
				}
			default:
				j.fen, j.source = stream.Next()
			}
			if rng.IntN(4) == 0 {
				nWalk := 1 + rng.IntN(12)
				for i := 0; i < nWalk; i++ {
					j.walk = append(j.walk, rng.IntN(1<<20))
				}
			}
			j.other = stream.Roots[rng.IntN(len(stream.Roots))]
			j.full2 = 1 + rng.IntN(200)
			jobs[k] = j
		}
		// distribute
		var wg sync.WaitGroup
		res := make([][]outcome, nw)
		per := (n + nw - 1) / nw
		for i := 0; i < nw; i++ {
			lo, hi := i*per, min(n, (i+1)*per)
			if lo >= hi {
				continue
			}
			wg.Add(1)
			go func(i int, js []job) {
				defer wg.Done()
				res[i] = ws[i].run(js, csName)
			}(i, jobs[lo:hi])
		}
		wg.Wait()
		for _, outs := range res {
			for _, o := range outs {
				if o.skipped != "" {
					r.Count("skipped:"+o.skipped, 1)
					continue
				}
				r.Evaluations++
				for k, v := range o.hist {
					r.Count(k, v)
				}
				r.Count("coeffs:"+strings.SplitN(csName, ",", 2)[0], 1)
				r.Count("path:"+o.path, 1)
				if o.path != "insufficient" && o.key != "" {
					r.Nontrivial(o.key)
				}
				if o.sample != nil {
					r.Sample(o.sample, 12)
				}
				for _, m := range o.mismatches {
					r.Fail(m)
					r.Count("mismatch:"+m.Kind, 1)
				}
			}
		}
		done += n
		batchNo++
	}
	r.TracesValidated = r.Evaluations
	r.Notes = append(r.Notes,
		"every evaluation = 1 position: impl vs Lean evalInt on position and mirror (exact), mirror equality and invariance checked in Go",
		"coefficient sets alternate between eval.Coefficients and random sets (small / full int16 range / sparse)")
	r.Write(c)
}
