// Command uci is the C13 correspondence harness: it drives a real in-process uci.Driver through
// an io.Pipe with (a) the real search and (b) a controllable blocking mock search, sweeps the
// timing of stop / isready / ponderhit / quit / EOF across the lifetime of a search, records the
// interleaved trace of externally visible events and
//   - asserts the property itself in Go (one bestmove per go after all its info lines, one readyok
//     per isready, whole lines only, Run returns after quit/EOF, no goroutine left, no panic, no
//     data race)                                              -> mismatch kind "failing-input"
//   - asks the Lean trace acceptor (drv_uci) whether the model of uci.go admits the trace
//     -> "broken-correspondence"
//
// Inputs: every `go` line is drawn from the grammar [ponder] x {depth | nodes | movetime | clocks |
// infinite | nothing}* (genGo: small / large / 1024-aligned / unaligned / huge budgets, two limits
// combined, `go ponder` with the Ponder option on and off) for the real and the mock search; a
// pondering real search is terminated both before and after it has used up its depth / node budget
// (waitNodes, waitInfo), with and without a ponderhit before.  Every line (idle and while a search is
// outstanding) is written in a lexical variant (genLex: leading / trailing blanks and tabs, a tab
// directly after the command word, several blanks between words, CRLF, mixed) that strings.Fields
// splits into the words of the plain command; the expected behaviour is that of the plain command.
// Histogram: go[<mode>:<class>|probe=..], go[..|term=..], lex[<variant>/<word>/<idle|busy>],
// ponder_end[<mode>:<stop|quit|eof>/<budget state>/<ponderhit before?>].
//
// Terminators of a mock search include `timer` (timed, not pondering: nothing is written, the
// driver's hard deadline of up to 200 ms ends the search) and `hit_timer` (pondering + timed:
// ponderhit, then nothing; the search does not end on the hit and has to be stopped by the deadline
// armed at the ponderhit).
//
// -suite c14 (result "uci/c14", property C14; no Lean driver): see suiteC14 below.
// -suite goargs (result "uci/goargs", property C06; driver drv_misc): see suiteGoargs below.
//
// The harness is reactive: go (and every other non-async line) is only written after the previous
// bestmove was read; stop, isready, ponderhit, quit and EOF are written at swept points.
//
// Process structure: the parent generates all run specifications from the seed, hands them to
// child processes (this binary with -child, GORACE=halt_on_error=1 exitcode=66) and reads one JSON
// result per run.  A child that dies (race report, panic, fatal "all goroutines are asleep") is
// attributed to the run in progress and restarted on the remaining runs.
package main

import (
	"bufio"
	"bytes"
	"encoding/json"
	"flag"
	"fmt"
	"io"
	"math/rand/v2"
	"os"
	"os/exec"
	"regexp"
	"runtime"
	"sort"
	"strconv"
	"strings"
	"sync"
	"sync/atomic"
	"time"

	"verifharness/common"

	"github.com/paulsonkoly/chess-3/board"
	. "github.com/paulsonkoly/chess-3/chess"
	"github.com/paulsonkoly/chess-3/move"
	"github.com/paulsonkoly/chess-3/search"
	"github.com/paulsonkoly/chess-3/uci"
)

// ---------------------------------------------------------------------------------------------
// run specification

type Step struct {
	K string `json:"k"`           // send | eof | waitBest | waitEntered | waitInfo | waitNodes | sleep | release
	S string `json:"s,omitempty"` // send: the line as written (after lexical variation)
	T string `json:"t,omitempty"` // send: the model token (that of the plain spelling)
	N int    `json:"n,omitempty"` // waitInfo: count, waitNodes: node count reported by an info line, sleep: microseconds
	V string `json:"v,omitempty"` // send: name of the lexical variant
	// send of a go line (histogram only): pondering search, node budget + 1, depth budget (0 = none)
	P  bool `json:"p,omitempty"`
	NB int  `json:"nb,omitempty"`
	DB int  `json:"db,omitempty"`
}

type MockCfg struct {
	Infos    int  `json:"infos"`
	EndOnHit bool `json:"end_on_hit"`
	NoPoll   bool `json:"no_poll"` // the search never polls opts.PonderHit (deep inside an iteration)
}

type Spec struct {
	ID      int       `json:"id"`
	Script  int       `json:"script"`
	Timing  int       `json:"timing"`
	Mode    string    `json:"mode"` // mock | real
	SinkUs  int       `json:"sink_us"`
	Steps   []Step    `json:"steps"`
	Mocks   []MockCfg `json:"mocks"`
	Probe   string    `json:"probe"`
	Term    string    `json:"term"`
	Release bool      `json:"-"`
	Class   string    `json:"-"` // go-grammar class of the swept block
	Blocks  []string  `json:"-"` // per block: "<class>|probe=<p>" and "<class>|term=<t>" (histogram)
	Roots   []string  `json:"-"` // per block: "<root kind>|<coarse go class>|term=<t>", line length classes
}

type Res struct {
	ID     int      `json:"id"`
	Trace  string   `json:"trace"`
	Fail   string   `json:"fail,omitempty"`
	Detail string   `json:"detail,omitempty"`
	Hist   []string `json:"hist,omitempty"`
	Async  bool     `json:"async"` // an async line was written while a bestmove was outstanding
}

func (sp *Spec) ops() []string {
	ops := []string{fmt.Sprintf("mode=%s sink_us=%d script=%d timing=%d", sp.Mode, sp.SinkUs, sp.Script, sp.Timing)}
	for _, st := range sp.Steps {
		switch st.K {
		case "send":
			if len(st.S) > 300 {
				// a long line: its length, head and tail (the middle is a run of reversible shuffles / padding)
				ops = append(ops, fmt.Sprintf("send(%d bytes):%q ... %q", len(st.S), st.S[:120], st.S[len(st.S)-40:]))
			} else if st.V != "" && st.V != "plain" {
				ops = append(ops, fmt.Sprintf("send(%s):%q", st.V, st.S))
			} else {
				ops = append(ops, "send:"+st.S)
			}
		case "waitInfo", "waitNodes", "sleep":
			ops = append(ops, fmt.Sprintf("%s:%d", st.K, st.N))
		default:
			ops = append(ops, st.K)
		}
	}
	for i, m := range sp.Mocks {
		ops = append(ops, fmt.Sprintf("mock[%d]:infos=%d,end_on_hit=%v,no_poll=%v", i, m.Infos, m.EndOnHit, m.NoPoll))
	}
	return ops
}

// ---------------------------------------------------------------------------------------------
// generator (parent): grammar of protocol-conforming sessions

// goTpl is one `go` line drawn from the grammar
//
//	go [ponder] { depth d | nodes n | movetime t | wtime a btime b [winc c binc d] | infinite | (nothing) }*
//
// together with what the harness has to know about it to schedule the probes: whether the driver
// treats it as timed (hard timer), when the hard timer fires, whether the real search ends by
// itself, and which budgets a pondering real search can be observed to have exhausted.
type goTpl struct {
	text      string
	class     string // histogram class: <limit class>[+<limit class>] (sorted)
	ponderArg bool
	wt, bt    int64 // wtime / btime (0 = absent)
	wi, bi    int64
	mt        int64 // movetime
	depth     int   // 0 = absent
	nodes     int   // -1 = absent
}

func (g *goTpl) timed(black bool) bool {
	return g.mt > 0 || (!black && g.wt > 0) || (black && g.bt > 0)
}

// hardMs mirrors timeControl.hardLimit (only used to place the "timer" probes and to decide
// whether the search ends by itself; the assertions do not depend on it).
func (g *goTpl) hardMs(black bool) int64 {
	if g.mt > 0 {
		return g.mt
	}
	left, inc := g.wt, g.wi
	if black {
		left, inc = g.bt, g.bi
	}
	if left <= 0 {
		return 0
	}
	if left <= 30 {
		return left
	}
	return min(left-30, max(4*(left/30+inc/2), 30))
}

const (
	smallDepth = 6    // a real search to this depth ends within a few ms
	smallNodes = 6000 // ditto (about 15 us per node with the race detector on a loaded machine)
	smallHard  = 60   // ms
	timerMax   = 200  // ms: largest hard deadline the mock runs wait for (terminators timer, hit_timer)
)

// selfEnds: the real search returns by itself (when it is not pondering) within a few ms.
func (g *goTpl) selfEnds(black bool) bool {
	return (g.depth > 0 && g.depth <= smallDepth) || (g.nodes >= 0 && g.nodes <= smallNodes) ||
		(g.timed(black) && g.hardMs(black) <= smallHard)
}

// infos: number of info lines a real, non-pondering search writes before it returns by itself
// (0 = not known exactly): known when a small depth is the only limit.
func (g *goTpl) infos(black bool) int {
	if g.depth > 0 && g.depth <= smallDepth && g.nodes < 0 && !g.timed(black) {
		return g.depth + 1
	}
	return 0
}

// budgetSteps: steps after which a pondering real search has used up all of its depth / node
// budget (the waits also end when the bestmove arrives).
func (g *goTpl) budgetSteps() []Step {
	var st []Step
	if g.depth > 0 && g.depth <= smallDepth {
		st = append(st, Step{K: "waitInfo", N: g.depth + 1})
	}
	if g.nodes >= 0 && g.nodes <= smallNodes {
		st = append(st, Step{K: "waitNodes", N: g.nodes})
	}
	return st
}

func pick[T any](rng *rand.Rand, xs ...T) T { return xs[rng.IntN(len(xs))] }

// genGo draws one go line from the grammar.
func genGo(rng *rand.Rand, ponder bool) goTpl {
	g := goTpl{nodes: -1, ponderArg: ponder}
	var parts, cls []string
	depth := func() {
		switch r := rng.IntN(10); {
		case r < 8:
			g.depth = 1 + rng.IntN(4)
			cls = append(cls, "depth_small")
		case r < 9:
			g.depth = 5 + rng.IntN(2)
			cls = append(cls, "depth_small")
		default:
			g.depth = pick(rng, 63, 64, 100)
			cls = append(cls, "depth_max")
		}
		parts = append(parts, fmt.Sprintf("depth %d", g.depth))
	}
	nodes := func() {
		switch r := rng.IntN(9); {
		case r < 3:
			g.nodes = 1 + rng.IntN(1023)
			cls = append(cls, "nodes_lt1024")
		case r < 6:
			g.nodes = 1025 + rng.IntN(3000)
			if g.nodes%1024 == 0 {
				g.nodes++
			}
			cls = append(cls, "nodes_nonmult1024")
		case r < 8:
			g.nodes = 1024 * (1 + rng.IntN(3))
			cls = append(cls, "nodes_mult1024")
		default:
			g.nodes = pick(rng, 1<<31+7, 1000000000001, 1<<40, 3000000000)
			cls = append(cls, "nodes_huge")
		}
		parts = append(parts, fmt.Sprintf("nodes %d", g.nodes))
	}
	movetime := func() {
		switch r := rng.IntN(10); {
		case r < 6:
			g.mt = int64(1 + rng.IntN(5))
			cls = append(cls, "movetime_small")
		case r < 8:
			g.mt = int64(30 + rng.IntN(121)) // hard deadline 30..150 ms
			cls = append(cls, "movetime_mid")
		default:
			g.mt = pick[int64](rng, 60000, 3600000)
			cls = append(cls, "movetime_large")
		}
		parts = append(parts, fmt.Sprintf("movetime %d", g.mt))
	}
	clock := func() {
		small := func() int64 { return pick[int64](rng, 25, 60, 90, 150) }
		mid := func() int64 { return pick[int64](rng, 200, 400, 600, 900, 1100) }
		switch rng.IntN(8) {
		case 0, 1:
			g.wt, g.bt = small(), small()
			cls = append(cls, "clock_small")
		case 6, 7:
			// hard deadline between the margin and ~180 ms, own and opponent's clock / increment differ
			g.wt, g.bt = mid(), mid()
			g.wi, g.bi = pick[int64](rng, 0, 0, 10, 20), pick[int64](rng, 0, 0, 10, 20)
			cls = append(cls, "clock_mid")
		case 2:
			g.wt, g.bt, g.wi, g.bi = 60000, 60000, 100, 100
			cls = append(cls, "clock_large")
		case 3:
			g.wt, g.bt = small(), 0
			cls = append(cls, "clock_white_only")
		case 4:
			g.wt, g.bt = 0, small()
			cls = append(cls, "clock_black_only")
		default:
			if rng.IntN(2) == 0 {
				g.wt, g.bt = 60000, small()
			} else {
				g.wt, g.bt = small(), 300000
			}
			cls = append(cls, "clock_asym")
		}
		parts = append(parts, fmt.Sprintf("wtime %d btime %d", g.wt, g.bt))
		if g.wi == 0 && g.bi == 0 && rng.IntN(3) == 0 {
			g.wi, g.bi = int64(rng.IntN(3)), int64(rng.IntN(3))
			parts = append(parts, fmt.Sprintf("winc %d binc %d", g.wi, g.bi))
		} else if g.wi != 0 || g.bi != 0 {
			parts = append(parts, fmt.Sprintf("winc %d binc %d", g.wi, g.bi))
		}
	}
	infinite := func() {
		cls = append(cls, "infinite")
		parts = append(parts, "infinite")
	}
	two := func(f, h func()) {
		if rng.IntN(2) == 0 {
			f, h = h, f
		}
		f()
		h()
	}
	switch r := rng.IntN(20); {
	case r < 1:
		cls = append(cls, "none")
	case r < 3:
		infinite()
	case r < 6:
		depth()
	case r < 11:
		nodes()
	case r < 13:
		movetime()
	case r < 15:
		clock()
	case r < 17:
		two(nodes, depth)
	case r < 18:
		two(depth, movetime)
	case r < 19:
		two(clock, pick(rng, depth, nodes))
	default:
		two(infinite, pick(rng, depth, nodes))
	}
	if ponder {
		if rng.IntN(5) == 0 {
			parts = append(parts, "ponder")
		} else {
			parts = append([]string{"ponder"}, parts...)
		}
	}
	g.text = strings.Join(append([]string{"go"}, parts...), " ")
	sort.Strings(cls)
	g.class = strings.Join(cls, "+")
	return g
}

// ---------------------------------------------------------------------------------------------
// lexical variation: every spelling below is split by strings.Fields (handleCommand) into the
// same words as the plain command, so the expected protocol behaviour is that of the plain command.
// A single trailing \r is removed by bufio.ScanLines (CRLF line ends).

type lexT struct {
	name                   string
	lead, sep1, sep, trail string // sep1: between the command word and its first argument
	cr                     bool
}

var blanks = []string{" ", "\t", "  ", " \t", "\t ", "\t\t", "   ", " \t "}

func genLex(rng *rand.Rand) lexT {
	l := lexT{name: "plain", sep1: " ", sep: " "}
	switch r := rng.IntN(24); {
	case r < 6:
	case r < 8:
		l.name, l.lead = "lead_sp", pick(rng, " ", "  ")
	case r < 10:
		l.name, l.lead = "lead_tab", pick(rng, "\t", "\t\t")
	case r < 12:
		l.name, l.trail = "trail_sp", pick(rng, " ", "  ")
	case r < 14:
		l.name, l.trail = "trail_tab", "\t"
	case r < 17:
		l.name, l.sep1 = "word_tab", "\t" // a command without arguments gets the tab as trailer (apply)
	case r < 19:
		l.name, l.sep1, l.sep = "multi_blank", pick(rng, blanks[2:]...), pick(rng, blanks[2:]...)
	case r < 20:
		l.name, l.cr = "cr", true
	default:
		l.name = "mixed"
		l.lead = pick(rng, append([]string{""}, blanks...)...)
		l.sep1, l.sep = pick(rng, blanks...), pick(rng, blanks...)
		l.trail = pick(rng, append([]string{""}, blanks...)...)
		l.cr = rng.IntN(4) == 0
	}
	return l
}

func (l lexT) apply(text string) string {
	if l.name == "" || l.name == "plain" {
		return text
	}
	f := strings.Fields(text)
	var sb strings.Builder
	sb.WriteString(l.lead)
	for i, w := range f {
		switch i {
		case 0:
		case 1:
			sb.WriteString(l.sep1)
		default:
			sb.WriteString(l.sep)
		}
		sb.WriteString(w)
	}
	sb.WriteString(l.trail)
	if l.name == "word_tab" && len(f) == 1 {
		sb.WriteString("\t")
	}
	if l.cr {
		sb.WriteString("\r")
	}
	return sb.String()
}

type posT struct {
	text  string
	black bool
}

var positions = []posT{
	{"position startpos", false},
	{"position startpos moves e2e4", true},
	{"position startpos moves e2e4 e7e5 g1f3", true},
	{"position fen r1bqkbnr/pppp1ppp/2n5/4p3/4P3/5N2/PPPP1PPP/RNBQKB1R w KQkq - 2 3", false},
	{"position fen 8/8/4k3/8/8/4K3/4P3/8 b - - 0 1", true},
	{"position fen 8/8/4k3/8/8/4K3/4P3/8 w - - 0 1 moves e3d4", true},
}

// ---------------------------------------------------------------------------------------------
// positions: root kinds x line length.
//
// Root kinds (they matter for the real search: on a final root every iteration is instantaneous, so
// even `go infinite` and a pondering search run out of iterations by themselves): ordinary, stm
// checkmated, stm stalemated, drawn by the move clock, third occurrence through the move list, a
// single legal reply, mate in 1 for the mover, mover mated in 1 whatever it plays.
// Line length: a `position … moves …` line is as long as the game; the move list is made of
// reversible shuffles that are legal for the driver's gate (knights / bishops / kings going back and
// forth), so conforming lines of every length class are cheap to make.

type toggleT [2]string // a piece that shuffles between two squares

type rootT struct {
	kind  string
	text  string // position command without a move list
	black bool
	shuf  [2][]toggleT // per side to move (0 white, 1 black); empty: no move list is appended
}

var ordinaryRoots = []rootT{
	{"ordinary", "position startpos", false, [2][]toggleT{{{"g1", "f3"}, {"b1", "c3"}}, {{"g8", "f6"}, {"b8", "c6"}}}},
	{"ordinary", "position fen r1bqkbnr/pppp1ppp/2n5/4p3/4P3/5N2/PPPP1PPP/RNBQKB1R w KQkq - 2 3", false,
		[2][]toggleT{{{"b1", "c3"}, {"f1", "e2"}}, {{"g8", "f6"}, {"f8", "e7"}}}},
	{"ordinary", "position fen 8/8/4k3/8/8/4K3/4P3/8 w - - 0 1", false, [2][]toggleT{{{"e3", "d3"}}, {{"e6", "d6"}}}},
	{"ordinary", "position fen 8/8/4k3/8/8/4K3/4P3/8 b - - 0 1", true, [2][]toggleT{{{"e3", "d3"}}, {{"e6", "d6"}}}},
	{"ordinary", "position fen rnbqkbnr/pppp1ppp/8/4p3/4P3/8/PPPP1PPP/RNBQKBNR w KQkq e6 0 2", false,
		[2][]toggleT{{{"g1", "f3"}, {"f1", "e2"}}, {{"b8", "c6"}, {"f8", "e7"}}}},
}

var finalRoots = []rootT{
	{"mated", "position startpos moves f2f3 e7e5 g2g4 d8h4", false, [2][]toggleT{}},
	{"mated", "position fen rnb1kbnr/pppp1ppp/8/4p3/6Pq/5P2/PPPPP2P/RNBQKBNR w KQkq - 1 3", false, [2][]toggleT{}},
	{"mated", "position fen 6rk/5Npp/8/8/8/8/8/6K1 b - - 0 1", true, [2][]toggleT{}},
	{"stalemated", "position fen 7k/5Q2/6K1/8/8/8/8/8 b - - 0 1", true, [2][]toggleT{}},
	{"stalemated", "position fen 8/8/8/8/8/6k1/5q2/7K w - - 0 1", false, [2][]toggleT{}},
	{"drawn_by_clock", "position fen 8/8/4k3/8/8/4K3/4P3/8 w - - 100 80", false, [2][]toggleT{}},
	{"drawn_by_clock", "position fen r1bqkbnr/pppp1ppp/2n5/4p3/4P3/5N2/PPPP1PPP/RNBQKB1R b KQkq - 100 90", true, [2][]toggleT{}},
	{"single_reply", "position fen 7k/8/5K2/8/8/8/8/6R1 b - - 0 1", true, [2][]toggleT{}},
	{"single_reply", "position fen 7K/8/5k2/8/8/8/8/6r1 w - - 0 1", false, [2][]toggleT{}},
	{"mate_in_1", "position fen 6k1/5ppp/8/8/8/8/8/R3K3 w - - 0 1", false, [2][]toggleT{}},
	{"mate_in_1", "position fen 4k3/8/8/8/8/8/r6r/4K3 b - - 0 1", true, [2][]toggleT{}},
	{"mated_in_1", "position fen k7/8/8/8/8/8/r6r/4K3 w - - 0 1", false, [2][]toggleT{}},
	{"mated_in_1", "position fen 4k3/R6R/8/8/8/8/8/K7 b - - 0 1", true, [2][]toggleT{}},
}

// line length classes (bytes of the whole line): the seeded class boundary is one of many
var lineClasses = []struct {
	name   string
	lo, hi int
}{
	{"<100B", 0, 99}, {"~1KiB", 900, 1200}, {"just below 4KiB", 4040, 4095}, {"4KiB..4KiB+8", 4096, 4104},
	{"above 4KiB", 4105, 5000}, {"~16KiB", 16000, 16600}, {"~60KiB (below bufio's 64KiB token limit)", 60000, 61000},
	{">64KiB", 66000, 70000},
}

func lineClassOf(n int) string {
	best := "other"
	for _, c := range lineClasses {
		if n >= c.lo {
			best = c.name
		}
	}
	if n >= 100 && n < 900 {
		best = "100B..1KiB"
	}
	if n >= 65536 {
		best = ">64KiB"
	}
	return best
}

// beyond64k enables the length class above bufio.Scanner's default token limit.  It is OFF by
// default: the UNCHANGED driver treats a line of 65536 bytes or more as the end of its input (Run
// returns while stdin is open, nothing later is answered) -- reported as a finding, not filtered
// silently: run with -beyond64k to see it.
var beyond64k = flag.Bool("beyond64k", false, "also generate lines longer than 64 KiB (the unchanged driver fails on them)")

// shuffle appends reversible moves until the line has at least `target` bytes; pure = one toggle per
// side only (every position of the cycle recurs: third occurrence after 8 plies).
func shuffle(rng *rand.Rand, r rootT, target int, minPlies int, pure bool) (string, bool) {
	if len(r.shuf[0]) == 0 {
		return r.text, r.black
	}
	var sb strings.Builder
	sb.WriteString(r.text)
	state := [2][]bool{make([]bool, len(r.shuf[0])), make([]bool, len(r.shuf[1]))}
	side := 0
	if r.black {
		side = 1
	}
	black := r.black
	for n := 0; n < minPlies || sb.Len() < target; n++ {
		if n == 0 {
			sb.WriteString(" moves")
		}
		k := 0
		if !pure {
			k = rng.IntN(len(r.shuf[side]))
		}
		tg := r.shuf[side][k]
		from, to := tg[0], tg[1]
		if state[side][k] {
			from, to = to, from
		}
		state[side][k] = !state[side][k]
		sb.WriteByte(' ')
		sb.WriteString(from)
		sb.WriteString(to)
		side, black = 1-side, !black
	}
	return sb.String(), black
}

// instantRoot: root kinds on which the search returns from every iteration at once (no legal move,
// or a draw by rule at the root).
func instantRoot(kind string) bool {
	switch kind {
	case "mated", "stalemated", "drawn_by_clock", "third_occurrence_by_moves":
		return true
	}
	return false
}

type genPosT struct {
	text      string
	black     bool
	kind      string // root kind
	lineClass string
}

// genPos draws a position command: root kind x line length (long lines only on ordinary bases).
func genPos(rng *rand.Rand, mode string) genPosT {
	r := rng.IntN(100)
	final, long := 12, 14
	if mode == "real" {
		final, long = 42, 8
	}
	var g genPosT
	switch {
	case r < final:
		switch rt := rng.IntN(8); {
		case rt < 2: // third occurrence through the move list
			base := ordinaryRoots[rng.IntN(len(ordinaryRoots))]
			// 12 plies: the positions after 4, 8 and 12 plies are equal even when the base position itself is
			// different from them (an en-passant square in the FEN)
			g.text, g.black = shuffle(rng, base, 0, 12+rng.IntN(6), true)
			g.kind = "third_occurrence_by_moves"
		default:
			f := finalRoots[rng.IntN(len(finalRoots))]
			g.text, g.black, g.kind = f.text, f.black, f.kind
		}
	case r < final+long:
		base := ordinaryRoots[rng.IntN(len(ordinaryRoots))]
		nc := len(lineClasses) - 1
		if *beyond64k {
			nc++
		}
		lo := 1
		if mode == "real" {
			nc = min(nc, 5) // the real search scans the whole game history at every node
		}
		c := lineClasses[lo+rng.IntN(nc-lo)]
		g.text, g.black = shuffle(rng, base, c.lo+rng.IntN(c.hi-c.lo+1)-4, 0, rng.IntN(4) == 0)
		g.kind = "long_game(shuffles)"
	default:
		base := ordinaryRoots[rng.IntN(len(ordinaryRoots))]
		g.text, g.black = shuffle(rng, base, 0, rng.IntN(7), false)
		g.kind = "ordinary"
	}
	g.lineClass = lineClassOf(len(g.text))
	return g
}

// genLongLine: a long line that does not touch the board (a padded setoption, an unknown command).
func genLongLine(rng *rand.Rand) (string, string) {
	nc := len(lineClasses) - 1
	if *beyond64k {
		nc++
	}
	c := lineClasses[1+rng.IntN(nc-1)]
	n := c.lo + rng.IntN(c.hi-c.lo+1)
	var l string
	switch rng.IntN(4) {
	case 0:
		l = "setoption name Hash value 1"
		l += strings.Repeat(" ", max(0, n-len(l)))
	case 1:
		l = "setoption name " + strings.Repeat("Opt", max(1, (n-24)/3)) + " value 1"
	case 2:
		l = "bogus " + strings.Repeat("x", max(1, n-6))
	default:
		l = "debug off " + strings.Repeat("y ", max(1, (n-10)/2))
	}
	return l, lineClassOf(len(l))
}

type idleT struct{ text, tok string }

var idleCmds = []idleT{
	{"isready", "i:isready"}, {"isready", "i:isready"}, {"ucinewgame", "i:other"}, {"fen", "i:other1"},
	{"eval", "i:other1"}, {"debug on", "i:other"}, {"debug off", "i:other"}, {"", "i:other"},
	{"stop", "i:stop"}, {"ponderhit", "i:ponderhit"}, {"spsa", "i:other0"}, {"perft 1", "i:other1"},
	{"setoption name Hash value 1", "i:other"}, {"uci", "i:other1111101"}, {"  isready  extra", "i:isready"},
	{"bogus command", "i:other"}, {"\tstop", "i:stop"},
}

type blockT struct {
	pos        int     // -1: none, 0: gpos
	gpos       genPosT // the position command of this block
	root       string  // root kind the search of this block runs on (inherited when pos = -1)
	longIdle   string  // an additional long line while idle (board-neutral)
	busyLong   string  // a long line written while the search runs (board-neutral: dropped by the interrupt goroutine or handled later)
	lineClass  string  // length class of the longest line of the block
	idle       []int
	tpl        goTpl
	term       string // self | stop | quit | eof | hit | timer | hit_timer | hit_stop
	extra      bool   // an additional isready while the search runs
	burst      int    // additional ponderhit lines while the search runs
	fixedT     int    // timing of the (non-swept) blocks' probe
	probe      string // "" | isready | stop | ponderhit | quit | eof
	mock       MockCfg
	postBudget bool // real pondering search: the terminator is written after the depth/node budget is used up
	// lexical variants of the lines of this block
	lexPos, lexGo, lexProbe, lexTerm, lexExtra lexT
	lexIdle, lexBurst                          []lexT
}

type skeleton struct {
	mode     string
	sinkUs   int
	prelude  bool
	ponderOn bool
	blocks   []blockT
	target   int // block whose probe timing is swept
	endEOF   bool
	lexPre   [3]lexT
	lexEnd   lexT
}

func asyncTok(s string) string {
	return "i:" + s
}

func genSkeleton(rng *rand.Rand) skeleton {
	sk := skeleton{mode: "mock"}
	if rng.IntN(100) < 45 {
		sk.mode = "real"
	}
	switch r := rng.IntN(10); {
	case r < 7:
		sk.sinkUs = 0
	case r < 9:
		sk.sinkUs = 20
	default:
		sk.sinkUs = 300
	}
	sk.prelude = rng.IntN(10) < 6
	sk.ponderOn = rng.IntN(10) < 5
	sk.endEOF = rng.IntN(2) == 0
	for i := range sk.lexPre {
		sk.lexPre[i] = genLex(rng)
	}
	sk.lexEnd = genLex(rng)
	nb := 1 + rng.IntN(3)
	sk.target = rng.IntN(nb)
	black := false
	root := "ordinary" // the driver starts on the initial position
	for b := 0; b < nb; b++ {
		bl := blockT{pos: -1}
		if rng.IntN(3) > 0 {
			bl.pos = 0
			bl.gpos = genPos(rng, sk.mode)
			black, root = bl.gpos.black, bl.gpos.kind
			bl.lineClass = bl.gpos.lineClass
		}
		bl.root = root
		if rng.IntN(12) == 0 {
			bl.longIdle, bl.lineClass = genLongLine(rng)
		}
		if rng.IntN(10) == 0 {
			if bl.pos == 0 && len(bl.gpos.text) >= 900 && rng.IntN(2) == 0 {
				bl.busyLong = bl.gpos.text // the same position again: idempotent whoever handles it
			} else {
				bl.busyLong, bl.lineClass = genLongLine(rng)
			}
		}
		for k := rng.IntN(3); k > 0; k-- {
			bl.idle = append(bl.idle, rng.IntN(len(idleCmds)))
			bl.lexIdle = append(bl.lexIdle, genLex(rng))
		}
		// `go ponder` is mostly sent when the Ponder option is on, but also when it is off (then the
		// driver runs a normal search)
		ponderArg := rng.IntN(100) < 30
		if sk.ponderOn {
			ponderArg = rng.IntN(100) < 70
		}
		bl.tpl = genGo(rng, ponderArg)
		ponder := sk.ponderOn && bl.tpl.ponderArg
		timed := bl.tpl.timed(black)
		// terminator
		var terms []string
		if sk.mode == "mock" {
			terms = []string{"self", "self", "stop", "stop", "quit", "eof"}
			if ponder {
				terms = append(terms, "hit", "hit", "hit_stop")
			}
			if timed && !ponder && bl.tpl.hardMs(black) <= 5 {
				terms = append(terms, "timer", "timer")
			} else if timed && !ponder && bl.tpl.hardMs(black) <= timerMax {
				terms = append(terms, "timer")
			}
			if timed && ponder && bl.tpl.hardMs(black) <= timerMax {
				// ponderhit, then nothing more: the search (which does not end on the hit) has to be
				// stopped by the driver's own deadline, armed at the ponderhit
				terms = append(terms, "hit_timer", "hit_timer", "hit_timer", "hit_timer")
			}
		} else {
			terms = []string{"stop", "stop", "quit", "eof"}
			limited := bl.tpl.selfEnds(black)
			if limited && !ponder {
				terms = []string{"self", "self", "self", "stop", "quit", "eof"}
			}
			if limited && ponder {
				terms = append(terms, "hit", "hit", "hit")
			}
			if ponder {
				terms = append(terms, "hit_stop") // ponderhit, then stop
			}
		}
		bl.term = terms[rng.IntN(len(terms))]
		bl.postBudget = rng.IntN(2) == 0
		if instantRoot(bl.root) && rng.IntN(2) == 0 {
			bl.postBudget = true
		}
		bl.mock = MockCfg{Infos: rng.IntN(7), EndOnHit: bl.term == "hit"}
		if bl.term != "hit" && bl.term != "hit_timer" && bl.term != "hit_stop" && rng.IntN(4) == 0 {
			bl.mock.EndOnHit = true
		}
		if !bl.mock.EndOnHit && rng.IntN(3) == 0 {
			bl.mock.NoPoll = true
		}
		bl.extra = rng.IntN(10) < 3
		if rng.IntN(8) == 0 {
			bl.burst = 1 + rng.IntN(3)
		}
		bl.fixedT = rng.IntN(8)
		probes := []string{"isready", "isready", "stop", "stop", "ponderhit", "quit", "eof"}
		if ponder {
			probes = append(probes, "ponderhit", "ponderhit")
		}
		bl.probe = probes[rng.IntN(len(probes))]
		if b != sk.target && rng.IntN(2) == 0 {
			bl.probe = ""
		}
		bl.lexPos, bl.lexGo, bl.lexProbe, bl.lexTerm, bl.lexExtra = genLex(rng), genLex(rng), genLex(rng), genLex(rng), genLex(rng)
		if len(bl.gpos.text) >= 900 {
			bl.lexPos = lexT{} // the length class is that of the line as written
		}
		for k := 0; k < bl.burst; k++ {
			bl.lexBurst = append(bl.lexBurst, genLex(rng))
		}
		sk.blocks = append(sk.blocks, bl)
	}
	return sk
}

// send writes text in the lexical variant l; the model token is that of the plain command.
func send(text, tok string, l lexT) Step {
	name := l.name
	if name == "" {
		name = "plain"
	}
	return Step{K: "send", S: l.apply(text), T: tok, V: name}
}

func probeStep(p string, l lexT) []Step {
	switch p {
	case "":
		return nil
	case "eof":
		return []Step{{K: "eof"}}
	default:
		return []Step{send(p, asyncTok(p), l)}
	}
}

// build instantiates the skeleton with the swept timing t (0..7) of the target block's probe.
func (sk *skeleton) build(id, script, t int) Spec {
	sp := Spec{ID: id, Script: script, Timing: t, Mode: sk.mode, SinkUs: sk.sinkUs}
	add := func(st ...Step) { sp.Steps = append(sp.Steps, st...) }
	if sk.prelude {
		add(send("uci", "i:other1111101", sk.lexPre[0]), send("isready", "i:isready", sk.lexPre[1]))
	}
	if sk.ponderOn {
		add(send("setoption name Ponder value true", "i:other", sk.lexPre[2]))
	}
	black := false
	dead := false
	for bi, bl := range sk.blocks {
		if bl.pos >= 0 {
			add(send(bl.gpos.text, "i:other", bl.lexPos))
			black = bl.gpos.black
			if len(bl.gpos.text) >= 900 {
				add(send("isready", "i:isready", bl.lexExtra)) // a long line must not end the input
			}
		}
		if bl.longIdle != "" {
			add(send(bl.longIdle, "i:other", lexT{}), send("isready", "i:isready", bl.lexExtra))
		}
		for k, ic := range bl.idle {
			add(send(idleCmds[ic].text, idleCmds[ic].tok, bl.lexIdle[k]))
		}
		ponder := sk.ponderOn && bl.tpl.ponderArg
		timed := bl.tpl.timed(black)
		b2 := func(b bool) string {
			if b {
				return "1"
			}
			return "0"
		}
		tm := bl.fixedT
		if bi == sk.target {
			tm = t
			sp.Probe, sp.Term = bl.probe, bl.term
		}
		// ponder: pondering search; ponder(option off): `go ponder` run as a normal search
		cls := bl.tpl.class
		switch {
		case ponder:
			cls = "ponder+" + cls
		case bl.tpl.ponderArg:
			cls = "ponder(option off)+" + cls
		}
		pk := bl.probe
		if pk == "" {
			pk = "none"
		}
		if bi == sk.target {
			sp.Class = cls
		}
		coarse := strings.NewReplacer("_small", "", "_max", "", "_lt1024", "", "_nonmult1024", "", "_mult1024", "", "_huge", "", "_mid", "", "_large", "",
			"_white_only", "", "_black_only", "", "_asym", "").Replace(cls)
		if dead {
			continue // an earlier block ended the session (quit / EOF): this block is never played
		}
		if bl.term == "quit" || bl.term == "eof" || bl.probe == "quit" || bl.probe == "eof" {
			dead = true
		}
		sp.Roots = append(sp.Roots, fmt.Sprintf("%s:%s|%s|term=%s", sk.mode, bl.root, coarse, bl.term))
		if bl.lineClass != "" && bl.lineClass != "<100B" {
			where := ""
			if bl.pos == 0 && len(bl.gpos.text) >= 100 {
				where += "+position(idle)"
			}
			if bl.longIdle != "" {
				where += "+other(idle)"
			}
			if bl.busyLong != "" {
				where += "+line_during_search"
			}
			sp.Roots = append(sp.Roots, fmt.Sprintf("line_length:%s|%s|%s", sk.mode, bl.lineClass, where[1:]))
		}
		sp.Blocks = append(sp.Blocks, fmt.Sprintf("%s:%s|probe=%s", sk.mode, cls, pk), fmt.Sprintf("%s:%s|term=%s", sk.mode, cls, bl.term))
		probe := probeStep(bl.probe, bl.lexProbe)
		var term []Step
		switch bl.term {
		case "self":
			if sk.mode == "mock" {
				term = []Step{{K: "release"}}
			}
		case "stop":
			term = []Step{send("stop", "i:stop", bl.lexTerm)}
		case "quit":
			term = []Step{send("quit", "i:quit", bl.lexTerm)}
		case "eof":
			term = []Step{{K: "eof"}}
		case "hit", "hit_timer":
			term = []Step{send("ponderhit", "i:ponderhit", bl.lexTerm)}
		case "hit_stop":
			term = []Step{send("ponderhit", "i:ponderhit", bl.lexTerm), {K: "sleep", N: bl.fixedT * 40}, send("stop", "i:stop", bl.lexExtra)}
		case "timer":
			term = []Step{{K: "sleep", N: int(bl.tpl.hardMs(black))*1000 - 60}}
		}
		sp.Mocks = append(sp.Mocks, bl.mock)
		goStep := send(bl.tpl.text, "i:go"+b2(ponder)+b2(timed), bl.lexGo)
		goStep.P = ponder
		if sk.mode == "real" {
			if bl.tpl.nodes >= 0 && bl.tpl.nodes <= smallNodes {
				goStep.NB = bl.tpl.nodes + 1
			}
			if bl.tpl.depth > 0 && bl.tpl.depth <= smallDepth {
				goStep.DB = bl.tpl.depth
			}
		}
		add(goStep)
		at := func(k int) {
			if tm == k {
				add(probe...)
			}
		}
		at(0)
		if sk.mode == "mock" {
			add(Step{K: "waitEntered"})
		} else {
			add(Step{K: "waitInfo", N: 1})
		}
		at(1)
		if bl.busyLong != "" {
			add(send(bl.busyLong, "i:other", lexT{}), send("isready", "i:isready", bl.lexExtra))
		}
		if bl.extra {
			add(send("isready", "i:isready", bl.lexExtra))
		}
		for k := 0; k < bl.burst; k++ {
			add(send("ponderhit", "i:ponderhit", bl.lexBurst[k]))
		}
		selfReal := sk.mode == "real" && len(term) == 0
		infos := bl.tpl.infos(black)
		if !selfReal {
			if sk.mode == "mock" && bl.mock.Infos >= 1 {
				add(Step{K: "waitInfo", N: 1})
			}
			if sk.mode == "real" {
				add(Step{K: "waitInfo", N: 2})
			}
			if tm == 2 {
				add(probe...)
				add(Step{K: "sleep", N: 100})
			}
			if sk.mode == "real" && ponder && bl.postBudget {
				// a pondering search ignores its depth / node budget: let it use the budget up before it
				// is stopped / quit / EOF'd / ponderhit (with the probe of timings 0..2 before, 3.. after)
				add(bl.tpl.budgetSteps()...)
				if instantRoot(bl.root) {
					// every iteration is instantaneous on such a root: let the pondering search run out of
					// iterations (idD = 0 .. MaxPlies-1, one info line each) before it is ended
					add(Step{K: "waitInfo", N: MaxPlies})
				}
			}
			at(3)
			add(term...)
			at(4)
			if tm == 5 {
				add(Step{K: "sleep", N: 30})
				add(probe...)
			}
			if tm == 6 {
				add(Step{K: "sleep", N: 200})
				add(probe...)
			}
		} else if infos > 0 {
			// depth-limited real search: the last info line is written just before Go returns
			if tm == 2 {
				add(Step{K: "sleep", N: 100})
				add(probe...)
			}
			if tm == 3 {
				add(Step{K: "waitInfo", N: infos - 1})
				add(probe...)
			}
			if tm >= 4 && tm <= 6 {
				add(Step{K: "waitInfo", N: infos})
				add(Step{K: "sleep", N: []int{0, 30, 200}[tm-4]})
				add(probe...)
			}
		} else {
			if tm >= 2 && tm <= 6 {
				add(Step{K: "sleep", N: []int{100, 500, 1000, 2000, 4000}[tm-2]})
				add(probe...)
			}
		}
		add(Step{K: "waitBest"})
		at(7)
	}
	if sk.endEOF {
		add(Step{K: "eof"})
	} else {
		add(send("quit", "i:quit", sk.lexEnd))
	}
	return sp
}

// ---------------------------------------------------------------------------------------------
// child: executing one run

type recorder struct {
	mu    sync.Mutex
	toks  []string
	nGo   int
	nBest int
	nInfo int // info lines of the current search (reset at go)
	nodes int // largest node count reported by an info line of the current search
	// the current search (histogram only)
	curPonder, curHit bool
	curNB, curDB      int
	fail              string
	detail            string
	entered           int
	hist              []string
	async             bool
}

func (r *recorder) add(tok string) {
	r.mu.Lock()
	r.toks = append(r.toks, tok)
	r.mu.Unlock()
}

// termKind classifies (for the histogram) the way a pondering search is terminated by stop / quit /
// EOF: with or without a ponderhit written before, and whether the search had by then been seen
// (by its info lines) to have used up its node / depth budget.  Call with r.mu held.
func (r *recorder) termKind(by string) {
	if r.nGo <= r.nBest || !r.curPonder {
		return
	}
	budget := "no_budget"
	if r.curNB > 0 || r.curDB > 0 {
		budget = "budget_used_up"
		if (r.curNB > 0 && r.nodes < r.curNB-1) || (r.curDB > 0 && r.nInfo < r.curDB+1) {
			budget = "budget_left"
		}
	}
	hit := "no_ponderhit_before"
	if r.curHit {
		hit = "after_ponderhit"
	}
	r.hist = append(r.hist, "ponder_end:"+by+"/"+budget+"/"+hit)
}

func (r *recorder) setFail(f, d string) {
	if r.fail == "" {
		r.fail, r.detail = f, d
	}
}

var (
	reReady = regexp.MustCompile(`^readyok$`)
	reBest  = regexp.MustCompile(`^bestmove ([a-h][1-8][a-h][1-8][qrbn]?|0000)( ponder [a-h][1-8][a-h][1-8][qrbn]?)?$`)
	reInfo  = regexp.MustCompile(`^info depth \d+ (score (cp|mate) -?\d+ nodes \d+ time \d+ hashfull \d+ pv ([a-h][1-8][a-h][1-8][qrbn]?( [a-h][1-8][a-h][1-8][qrbn]?)*)?|nodes \d+)$`)
	reNodes = regexp.MustCompile(` nodes (\d+)`)
	reTabW  = regexp.MustCompile(`^[ \t]*[^ \t]+\t`)
	// the halfmove clock is an int8 in the engine: after 128 reversible plies the `fen` command prints a
	// negative clock (a whole line, so not a torn line; counted, see the histogram)
	reNegClock = regexp.MustCompile(`^[1-8pnbrqkPNBRQK/]+ [wb] \S+ \S+ -\d+ \d+\n$`)
	reOther    = regexp.MustCompile(`^(id name chess-3 \S+|id author Paul Sonkoly|option name \w+ type (spin default \d+ min \d+ max \d+|check default false)|uciok|[1-8pnbrqkPNBRQK/]+ [wb] (-|[KQkq]+) (-|[a-h][36]) -?\d+ \d+|-?\d+|cp -?\d+|mate -?\d+|\S+ nps)$`)
)

func classify(line string) string {
	switch {
	case reReady.MatchString(line):
		return "readyok"
	case reBest.MatchString(line):
		return "bestmove"
	case reInfo.MatchString(line):
		return "info"
	case reOther.MatchString(line):
		return "other"
	}
	return ""
}

type sink struct {
	rec   *recorder
	delay time.Duration
}

func spin(d time.Duration) {
	if d <= 0 {
		return
	}
	if d > 2*time.Millisecond {
		time.Sleep(d)
		return
	}
	for t0 := time.Now(); time.Since(t0) < d; {
		runtime.Gosched()
	}
}

// Write is the sink of the driver's writer goroutine: one call per message.
func (s *sink) Write(b []byte) (int, error) {
	spin(s.delay)
	r := s.rec
	r.mu.Lock()
	defer r.mu.Unlock()
	if len(b) == 0 || b[len(b)-1] != '\n' {
		r.setFail("torn_line", fmt.Sprintf("write without final newline: %q", b))
		r.toks = append(r.toks, "o:torn")
		return len(b), nil
	}
	kind := ""
	for _, ln := range strings.Split(strings.TrimSuffix(string(b), "\n"), "\n") {
		k := classify(ln)
		if k == "" {
			r.setFail("torn_line", fmt.Sprintf("unrecognised line %q in write %q", ln, b))
			k = "torn"
		}
		if kind != "" && (kind != k || k != "other") {
			r.setFail("torn_line", fmt.Sprintf("mixed write %q", b))
		}
		kind = k
	}
	r.toks = append(r.toks, "o:"+kind)
	if kind == "other" && reNegClock.Match(b) {
		r.hist = append(r.hist, "fen_output_with_negative_halfmove_clock")
	}
	switch kind {
	case "bestmove":
		r.nBest++
	case "info":
		r.nInfo++
		if m := reNodes.FindSubmatch(b); m != nil {
			if n, err := strconv.Atoi(string(m[1])); err == nil && n > r.nodes {
				r.nodes = n
			}
		}
	}
	return len(b), nil
}

type mockSearch struct {
	rec     *recorder
	cfgs    []MockCfg
	idx     int
	release []chan struct{}
}

func (m *mockSearch) Clear()       {}
func (m *mockSearch) ResizeTT(int) {}

func (m *mockSearch) Go(_ *board.Board, opts ...search.Option) (Score, move.Move, move.Move) {
	var o search.Options
	for _, opt := range opts {
		opt(&o)
	}
	i := m.idx
	m.idx++
	cfg := MockCfg{}
	var rel chan struct{}
	if i < len(m.cfgs) {
		cfg, rel = m.cfgs[i], m.release[i]
	}
	mv := move.From(E2) | move.To(E4)
	m.rec.mu.Lock()
	m.rec.entered++
	m.rec.mu.Unlock()
	abort := func() (Score, move.Move, move.Move) {
		m.rec.add("sstop")
		fmt.Fprintf(o.Output, "info depth %d nodes %d\n", cfg.Infos, 17)
		return 0, mv, 0
	}
	for k := 0; k < cfg.Infos; k++ {
		select {
		case <-o.Stop:
			return abort()
		default:
		}
		fmt.Fprintf(o.Output, "info depth %d score cp %d nodes %d time 0 hashfull 0 pv e2e4 e7e5\n", k, 10+k, 100*k)
	}
	ph := o.PonderHit
	if cfg.NoPoll {
		ph = nil
	}
	for {
		select {
		case <-o.Stop:
			return abort()
		case <-rel:
			m.rec.add("sdone")
			return 12, mv, 0
		case <-ph:
			ph = nil
			if cfg.EndOnHit {
				m.rec.add("sdone")
				return 12, mv, 0
			}
		}
	}
}

const waitTimeout = 6 * time.Second

func (r *recorder) waitFor(cond func() bool) bool {
	deadline := time.Now().Add(waitTimeout)
	for n := 0; ; n++ {
		r.mu.Lock()
		ok := cond()
		r.mu.Unlock()
		if ok {
			return true
		}
		if time.Now().After(deadline) {
			return false
		}
		if n < 200 {
			runtime.Gosched()
		} else {
			time.Sleep(20 * time.Microsecond)
		}
	}
}

func runSpec(sp *Spec, real *search.Search) Res {
	base := runtime.NumGoroutine()
	rec := &recorder{}
	pr, pw := io.Pipe()
	errBuf := &bytes.Buffer{}
	var srch uci.Search
	mock := &mockSearch{rec: rec, cfgs: sp.Mocks}
	for range sp.Mocks {
		mock.release = append(mock.release, make(chan struct{}))
	}
	released := make([]bool, len(sp.Mocks))
	if sp.Mode == "mock" {
		srch = mock
	} else {
		real.Clear()
		srch = real
	}
	d := uci.NewDriver(uci.WithInput(pr), uci.WithOutput(&sink{rec: rec, delay: time.Duration(sp.SinkUs) * time.Microsecond}),
		uci.WithError(errBuf), uci.WithSearch(srch))
	runDone := make(chan struct{})
	go func() {
		defer close(runDone)
		d.Run()
		rec.add("ret")
	}()
	// the GUI's side of stdin: an unbounded FIFO of lines in front of the pipe
	// (quit does not close stdin: only an explicit EOF step does)
	lines := make(chan string, 256)
	eofCh := make(chan struct{})
	feedDone := make(chan struct{})
	go func() {
		defer close(feedDone)
		for {
			select {
			case l := <-lines:
				if _, err := pw.Write([]byte(l + "\n")); err != nil {
					return
				}
			case <-eofCh:
				for {
					select {
					case l := <-lines:
						if _, err := pw.Write([]byte(l + "\n")); err != nil {
							return
						}
						continue
					default:
					}
					break
				}
				pw.Close()
				return
			}
		}
	}()
	closed := false // quit or EOF already written
	var sentReady int
	for si := range sp.Steps {
		st := &sp.Steps[si]
		rec.mu.Lock()
		failed := rec.fail != "" && strings.HasPrefix(rec.fail, "timeout")
		rec.mu.Unlock()
		if failed {
			break
		}
		switch st.K {
		case "send":
			if closed {
				continue
			}
			rec.mu.Lock()
			outstanding := rec.nGo > rec.nBest
			rec.toks = append(rec.toks, st.T)
			if strings.HasPrefix(st.T, "i:go") {
				rec.nGo++
				rec.nInfo = 0
				rec.nodes = 0
				rec.curPonder, rec.curHit, rec.curNB, rec.curDB = st.P, false, st.NB, st.DB
			} else if outstanding && (st.T == "i:stop" || st.T == "i:isready" || st.T == "i:ponderhit" || st.T == "i:quit") {
				rec.async = true
			}
			if st.T == "i:isready" {
				sentReady++
			}
			switch st.T {
			case "i:stop", "i:quit":
				rec.termKind(st.T[2:])
			case "i:ponderhit":
				if outstanding {
					rec.curHit = true
				}
			}
			// lexical histogram: variant x command word x (idle|busy)
			word, state := "(blank)", "idle"
			if f := strings.Fields(st.S); len(f) > 0 {
				word = f[0]
			}
			if outstanding {
				state = "busy"
			}
			rec.hist = append(rec.hist, "lex:"+st.V+"/"+word+"/"+state)
			if reTabW.MatchString(st.S) {
				rec.hist = append(rec.hist, "lex:TAB_DIRECTLY_AFTER_WORD/"+word+"/"+state)
			}
			rec.mu.Unlock()
			lines <- st.S
			if st.T == "i:quit" {
				closed = true
			}
		case "eof":
			if closed {
				continue
			}
			rec.mu.Lock()
			if rec.nGo > rec.nBest {
				rec.async = true
			}
			rec.toks = append(rec.toks, "eof")
			rec.termKind("eof")
			rec.mu.Unlock()
			closed = true
			close(eofCh)
		case "waitBest":
			if !rec.waitFor(func() bool { return rec.nBest >= rec.nGo }) {
				rec.mu.Lock()
				rec.setFail("timeout_no_bestmove", "go not answered by bestmove within the timeout")
				rec.mu.Unlock()
			}
		case "waitEntered":
			if !rec.waitFor(func() bool { return rec.entered >= rec.nGo }) {
				rec.mu.Lock()
				rec.setFail("timeout_search_not_started", "search.Go not called within the timeout")
				rec.mu.Unlock()
			}
		case "waitInfo":
			n := st.N
			if !rec.waitFor(func() bool { return rec.nInfo >= n || rec.nBest >= rec.nGo }) {
				rec.mu.Lock()
				rec.setFail("timeout_no_info", "neither info lines nor bestmove within the timeout")
				rec.mu.Unlock()
			}
		case "waitNodes":
			n := st.N
			if !rec.waitFor(func() bool { return rec.nodes >= n || rec.nBest >= rec.nGo }) {
				rec.mu.Lock()
				rec.setFail("timeout_no_info", "neither an info line reporting the node budget nor bestmove within the timeout")
				rec.mu.Unlock()
			}
		case "sleep":
			spin(time.Duration(st.N) * time.Microsecond)
		case "release":
			rec.mu.Lock()
			cur := rec.nGo - 1
			rec.mu.Unlock()
			if cur >= 0 && cur < len(released) && !released[cur] {
				released[cur] = true
				close(mock.release[cur])
			}
		}
	}
	if !closed {
		rec.add("eof")
		close(eofCh)
	}
	returned := true
	retWait := waitTimeout
	rec.mu.Lock()
	if strings.HasPrefix(rec.fail, "timeout") {
		retWait = time.Second // an answer is already missing: the run is a failing input either way
	}
	rec.mu.Unlock()
	select {
	case <-runDone:
	case <-time.After(retWait):
		returned = false
	}
	pr.Close() // unblocks the feeder if the reader goroutine left lines unread (after quit)
	pw.Close()
	if closed {
		select {
		case <-eofCh:
		default:
			close(eofCh) // quit case: let the feeder end
		}
	}
	<-feedDone
	rec.mu.Lock()
	if !returned {
		rec.setFail("run_not_returned", "Run did not return within the timeout after quit/EOF")
	}
	rec.mu.Unlock()
	leak := 0
	if returned {
		deadline := time.Now().Add(2 * time.Second)
		for {
			leak = runtime.NumGoroutine() - base
			if leak <= 0 || time.Now().After(deadline) {
				break
			}
			time.Sleep(50 * time.Microsecond)
		}
	}
	rec.mu.Lock()
	defer rec.mu.Unlock()
	if leak > 0 {
		rec.setFail("goroutine_leak", fmt.Sprintf("%d goroutines left after Run returned", leak))
	}
	checkTrace(rec, sentReady)
	if errBuf.Len() > 0 {
		rec.hist = append(rec.hist, "stderr_nonempty")
	}
	return Res{ID: sp.ID, Trace: strings.Join(rec.toks, " "), Fail: rec.fail, Detail: rec.detail, Hist: rec.hist, Async: rec.async}
}

// checkTrace asserts the property on the recorded trace (independent of the Lean model).
func checkTrace(r *recorder, sentReady int) {
	busy := false
	pend := 0
	nReady := 0
	infosThis := 0
	afterEnd := false
	for i, t := range r.toks {
		switch {
		case strings.HasPrefix(t, "i:go"):
			busy = true
			infosThis = 0
			afterEnd = false
		case t == "i:isready":
			pend++
			if busy {
				r.hist = append(r.hist, "isready_while_busy")
			}
		case t == "sdone" || t == "sstop":
			afterEnd = true
			r.hist = append(r.hist, t)
		case t == "o:readyok":
			nReady++
			if pend == 0 {
				r.setFail("readyok_without_isready", fmt.Sprintf("event %d", i))
			} else {
				pend--
			}
			if busy {
				r.hist = append(r.hist, "readyok_before_bestmove")
				if afterEnd {
					r.hist = append(r.hist, "readyok_between_search_end_and_bestmove")
				}
			}
		case t == "o:info":
			infosThis++
			if !busy {
				r.setFail("info_after_bestmove", fmt.Sprintf("event %d: info line outside go..bestmove", i))
			}
		case t == "o:bestmove":
			if !busy {
				r.setFail("bestmove_without_go", fmt.Sprintf("event %d: second bestmove for one go", i))
			}
			busy = false
		case t == "ret":
			if i != len(r.toks)-1 {
				r.setFail("output_after_return", fmt.Sprintf("event %d", i))
			}
		}
	}
	_ = infosThis
	if r.fail == "" || !strings.HasPrefix(r.fail, "timeout") {
		if busy {
			r.setFail("go_unanswered", "Run returned with a go not answered by bestmove")
		}
		if nReady != sentReady {
			r.setFail("readyok_count", fmt.Sprintf("%d isready written before quit/EOF, %d readyok", sentReady, nReady))
		}
	}
}

func childMain() {
	real := search.New(64 * 1024)
	in := bufio.NewReaderSize(os.Stdin, 1<<20)
	out := bufio.NewWriter(os.Stdout)
	for {
		line, err := in.ReadBytes('\n')
		if len(line) > 0 {
			var sp Spec
			if e := json.Unmarshal(line, &sp); e != nil {
				fmt.Fprintln(os.Stderr, "child: bad spec:", e)
				os.Exit(3)
			}
			res := runSpec(&sp, real)
			buf, _ := json.Marshal(res)
			out.Write(buf)
			out.WriteByte('\n')
			out.Flush()
			if res.Fail == "run_not_returned" || res.Fail == "goroutine_leak" || strings.HasPrefix(res.Fail, "timeout") {
				os.Exit(67) // poisoned process: let the parent restart us
			}
		}
		if err != nil {
			return
		}
	}
}

// ---------------------------------------------------------------------------------------------
// parent

type childOutcome struct {
	results []Res
	died    []diedT
	skipped int
}
type diedT struct {
	spec   *Spec
	code   int
	stderr string
}

// failCap bounds the time spent on a tree on which very many runs fail (each failing run costs a
// timeout): once that many failing runs have been collected, children are not restarted on their
// remaining runs (counted as skipped_after_fail_cap; on a tree without failures nothing is skipped).
const failCap = 40

var failures atomic.Int64

func runChild(self string, specs []*Spec) childOutcome {
	var oc childOutcome
	for len(specs) > 0 {
		if failures.Load() >= failCap {
			oc.skipped += len(specs)
			break
		}
		cmd := exec.Command(self, "-child")
		cmd.Env = append(os.Environ(), "GORACE=halt_on_error=1 exitcode=66")
		stdin, _ := cmd.StdinPipe()
		stdout, _ := cmd.StdoutPipe()
		var errb bytes.Buffer
		cmd.Stderr = &errb
		if err := cmd.Start(); err != nil {
			panic(err)
		}
		go func(sp []*Spec) {
			w := bufio.NewWriter(stdin)
			for _, s := range sp {
				buf, _ := json.Marshal(s)
				w.Write(buf)
				w.WriteByte('\n')
			}
			w.Flush()
			stdin.Close()
		}(specs)
		rd := bufio.NewReaderSize(stdout, 1<<20)
		n := 0
		for {
			line, err := rd.ReadBytes('\n')
			if len(line) > 1 {
				var r Res
				if json.Unmarshal(line, &r) == nil {
					oc.results = append(oc.results, r)
					n++
					if r.Fail != "" {
						failures.Add(1)
					}
				}
			}
			if err != nil {
				break
			}
		}
		err := cmd.Wait()
		if n >= len(specs) && err == nil {
			break
		}
		code := -1
		if ee, ok := err.(*exec.ExitError); ok {
			code = ee.ExitCode()
		}
		if code == 67 { // poisoned after a reported failure: restart on the rest
			specs = specs[n:]
			continue
		}
		if n < len(specs) {
			failures.Add(1)
			oc.died = append(oc.died, diedT{spec: specs[n], code: code, stderr: tail(errb.String(), 3000)})
			specs = specs[n+1:]
		} else {
			break
		}
	}
	return oc
}

func tail(s string, n int) string {
	if len(s) > n {
		return s[:n]
	}
	return s
}

// ---------------------------------------------------------------------------------------------
// -suite c14: the hard deadline as the driver enforces it (property C14 at the timer, not at the
// helper functions).
//
// A session is one driver with one to three searches.  Between the searches the session state that
// could influence the arming of the deadline changes: the Ponder option (on, off, toggled back and
// forth), the debug flag, and the way the previous search went (ended by the deadline, pondered and
// stopped, pondered + ponderhit, untimed and stopped).  Every search is one `go` against a blocking
// mock search that returns only when its stop channel closes and records that moment:
//   plain              timed go without the `ponder` token, Ponder option ON or OFF
//   ponder_option_off  timed `go ponder`, option off (a normal search)
//   ponder_hit         timed `go ponder`, option on, then `ponderhit`
//   ponder_stopped     timed `go ponder`, option on, then `stop` (no deadline may fire)   } history
//   untimed_stopped    go without a clock for the mover, then `stop` (no deadline)        } only
// For the first three the GUI writes nothing that may end the search: the stop channel has to be closed
// by the driver's own deadline.  During 40 % of them input arrives while the (no longer pondering)
// search runs: isready (each answered by readyok), unknown commands, debug, setoption, a stray
// ponderhit, blank lines, in lexical variants; the first line at once, the others every hard/4,
// hard/2 or 2*hard until the channel closes.  None of it may move the deadline.
//   - the clock state is put through uci.VerifTimeControl (the driver's own helpers) and the values
//     are checked against the property: hard > 0; without movetime hard <= remaining and, when more
//     than the margin remains, hard <= remaining - margin; with movetime soft = hard = movetime; the
//     values do not change when the opponent's clock and increment change
//   - the soft target handed to the search (WithSoftTime) equals the helper's soft value
//   - the stop channel closes, not earlier than hard - 2 ms and not later than hard + 3 s after the
//     `go` (after the `ponderhit` when pondering) was written; while pondering it does not close.

type c14Case struct {
	id                 int
	class              string   // clock class
	variant            string   // plain | ponder_option_off | ponder_hit | ponder_stopped | untimed_stopped
	optOn              bool     // the Ponder option while this search runs
	pre                []string // lines written before this search: setoption name Ponder …, debug …
	prev               string   // variant of the previous search of the session (none)
	sess, idx          int      // session, position in it
	hist               []string // ops of the earlier searches of the session
	pos                posT
	wt, bt, wi, bi, mt int64
	goLine             string
	ponderMs           int // ponder_hit: time between the start of the search and the ponderhit
	lexSet, lexPos     lexT
	lexGo, lexHit      lexT
	soft, hard         int64 // helper values for the mover
	// input arriving while the (timed, no longer pondering) search runs
	// how the mock search behaves (both are what the real search does): it plays moves IN PLACE on the
	// driver's board, so at any moment the board may be at an odd ply (side to move flipped); and it looks
	// at the ponderhit channel only between iterations, i.e. possibly long after the ponderhit
	oddPly    bool
	hitReadMs int      // ponder_hit: the mock reads the ponderhit channel this long after it was entered (0: at once)
	chat      string   // "" | isready | unknown | debug | setoption | ponderhit | blank | mixed
	chatIv    string   // once | hard/4 | hard/2 | 2*hard: the first line right away, then at this interval
	chatLines []string // written cyclically
}

// chatter lines: none of them may influence the deadline (the interrupt goroutine answers isready and
// ignores the rest; written after the search has ended they are harmless to the session as well)
func genChatter(rng *rand.Rand, c *c14Case) {
	opt := map[bool]string{true: "true", false: "false"}[c.optOn]
	pool := map[string][]string{
		"isready":   {"isready"},
		"unknown":   {"bogus command", "xyzzy", "register later", "ucinewgame", "go1", "stopp"},
		"debug":     {"debug on", "debug off", "debug"},
		"setoption": {"setoption name Hash value 1", "setoption name Ponder value " + opt, "setoption name Threads value 1", "setoption"},
		"blank":     {"", " ", "\t"},
	}
	kinds := []string{"isready", "isready", "unknown", "debug", "setoption", "blank", "mixed"}
	if c.variant != "ponder_hit" {
		// a ponderhit that does not belong to a pondering search (after the real ponderhit of a pondering
		// search a second one is not conforming: it would legitimately restart the deadline)
		pool["ponderhit"] = []string{"ponderhit"}
		kinds = append(kinds, "ponderhit")
	}
	c.chat = pick(rng, kinds...)
	c.chatIv = pick(rng, "once", "hard/4", "hard/4", "hard/2", "hard/2", "2*hard")
	for k := 0; k < 8; k++ {
		kind := c.chat
		if kind == "mixed" {
			for kind = "mixed"; kind == "mixed" || pool[kind] == nil; {
				kind = pick(rng, kinds...)
			}
		}
		c.chatLines = append(c.chatLines, genLex(rng).apply(pick(rng, pool[kind]...)))
	}
}

func (c *c14Case) ownOps() []string {
	var ops []string
	for _, l := range c.pre {
		ops = append(ops, fmt.Sprintf("send:%q", c.lexSet.apply(l)))
	}
	ops = append(ops, fmt.Sprintf("send:%q", c.lexPos.apply(c.pos.text)), fmt.Sprintf("send:%q", c.lexGo.apply(c.goLine)))
	if c.oddPly || c.hitReadMs > 0 {
		ops = append(ops, fmt.Sprintf("mock search: null move made on the driver's board while it runs = %v; reads the ponderhit channel %d ms after its start", c.oddPly, c.hitReadMs))
	}
	switch c.variant {
	case "ponder_hit":
		ops = append(ops, fmt.Sprintf("sleep_ms:%d", c.ponderMs), fmt.Sprintf("send:%q", c.lexHit.apply("ponderhit")))
	case "ponder_stopped", "untimed_stopped":
		return append(ops, fmt.Sprintf("sleep_ms:%d", c.ponderMs), fmt.Sprintf("send:%q", c.lexHit.apply("stop")), "waitBest")
	}
	if c.chat != "" {
		ops = append(ops, fmt.Sprintf("while the search runs, first at once then every %s, cyclically: %q", c.chatIv, c.chatLines))
	}
	return append(ops, fmt.Sprintf("expect: stop channel closes %d ms later by the driver's deadline (soft %d); waitBest", c.hard, c.soft))
}

func (c *c14Case) ops() []string { return append(append([]string{}, c.hist...), c.ownOps()...) }

func stmOf(black bool) Color {
	if black {
		return Black
	}
	return White
}

// c14Props checks the property on the helper values of one clock state; "" = holds.
func c14Props(rng *rand.Rand, black bool, wt, bt, wi, bi, mt int64) string {
	stm := stmOf(black)
	timed, soft, hard := uci.VerifTimeControl(wt, bt, wi, bi, mt, stm)
	own, opp := wt, bt
	if black {
		own, opp = bt, wt
	}
	_ = opp
	margin := int64(uci.TimeSafetyMargin)
	switch {
	case timed != (own > 0 || mt > 0):
		return fmt.Sprintf("timedMode=%v with remaining %d movetime %d", timed, own, mt)
	case !timed:
		return ""
	case hard <= 0:
		return fmt.Sprintf("hard deadline %d is not positive", hard)
	case mt > 0 && (soft != mt || hard != mt):
		return fmt.Sprintf("movetime %d but soft %d hard %d", mt, soft, hard)
	case mt <= 0 && hard > own:
		return fmt.Sprintf("hard deadline %d later than the remaining time %d", hard, own)
	case mt <= 0 && own > margin && hard > own-margin:
		return fmt.Sprintf("hard deadline %d does not keep the margin %d of the remaining time %d", hard, margin, own)
	}
	// the opponent's clock and increment do not matter
	for k := 0; k < 3; k++ {
		w2, b2, wi2, bi2 := wt, bt, wi, bi
		ot := pick[int64](rng, 0, 1, 45, 1000, 60000, 1000000000)
		oi := pick[int64](rng, 0, 1, 7, 1000, 100000, 1000000000)
		if black {
			w2, wi2 = ot, oi
		} else {
			b2, bi2 = ot, oi
		}
		t2, s2, h2 := uci.VerifTimeControl(w2, b2, wi2, bi2, mt, stm)
		if t2 != timed || s2 != soft || h2 != hard {
			return fmt.Sprintf("soft/hard %d/%d become %d/%d when only the opponent's clock changes to %d inc %d", soft, hard, s2, h2, ot, oi)
		}
	}
	return ""
}

// genC14 draws one case; maxHard bounds the deadline (ms) the run has to wait for.
func genC14(rng *rand.Rand, id int, maxHard int64, variant string) c14Case {
	for {
		c := c14Case{id: id, variant: variant}
		for black := rng.IntN(2) == 0; ; { // both colours equally often
			if c.pos = positions[rng.IntN(len(positions))]; c.pos.black == black {
				break
			}
		}
		if variant == "untimed_stopped" {
			// no clock for the mover: the opponent's clock alone, depth / nodes limits, infinite, nothing
			c.class = "untimed"
			opp := pick[int64](rng, 0, 0, 5000, 60000)
			if c.pos.black {
				c.wt = opp
			} else {
				c.bt = opp
			}
			c.goLine = "go"
			if opp != 0 || rng.IntN(3) == 0 {
				c.goLine += fmt.Sprintf(" wtime %d btime %d", c.wt, c.bt)
			}
			c.goLine += pick(rng, "", " infinite", " depth 9", " nodes 100000", " winc 100 binc 100")
			c.ponderMs = pick(rng, 0, 1, 5, 40)
			c.lexSet, c.lexPos, c.lexGo, c.lexHit = genLex(rng), genLex(rng), genLex(rng), genLex(rng)
			return c
		}
		margin := int64(uci.TimeSafetyMargin)
		var own, inc int64
		switch rng.IntN(7) {
		case 0:
			c.class, own, inc = "left<=margin", 1+rng.Int64N(margin), pick[int64](rng, 0, 0, 5, 1000)
		case 1:
			c.class, own, inc = "margin<left<2margin", margin+1+rng.Int64N(margin-1), pick[int64](rng, 0, 0, 5, 1000)
		case 2:
			c.class, own, inc = "floor(4soft<=margin)", 2*margin+rng.Int64N(200), rng.Int64N(4)
		case 3:
			c.class, own, inc = "4soft", 300+rng.Int64N(3*maxHard+1), pick[int64](rng, 0, 0, 10, 20, 40)
		case 4:
			c.class, own, inc = "cap(left-margin)", 2*margin+rng.Int64N(maxHard), pick[int64](rng, 200, 1000, 1000000)
		default:
			c.class, c.mt = "movetime", 1+rng.Int64N(maxHard)
			switch rng.IntN(3) {
			case 0: // movetime alone
			case 1:
				own, inc = pick[int64](rng, 1, 20, 45, 60000), pick[int64](rng, 0, 100)
				c.class = "movetime+clock"
			default:
				own, inc = 60000, 1000
				c.class = "movetime+clock"
			}
		}
		opp, oinc := pick[int64](rng, 0, 1, 45, 300, 60000, 1000000000), pick[int64](rng, 0, 0, 7, 1000, 100000)
		if rng.IntN(3) == 0 {
			opp, oinc = own, inc // the usual symmetric report
		}
		if c.pos.black {
			c.bt, c.bi, c.wt, c.wi = own, inc, opp, oinc
		} else {
			c.wt, c.wi, c.bt, c.bi = own, inc, opp, oinc
		}
		var timed bool
		timed, c.soft, c.hard = uci.VerifTimeControl(c.wt, c.bt, c.wi, c.bi, c.mt, stmOf(c.pos.black))
		if !timed || c.hard > maxHard {
			if c14Props(rng, c.pos.black, c.wt, c.bt, c.wi, c.bi, c.mt) == "" {
				continue // legitimately outside the budget of this tier: redraw
			}
			// a state on which the helpers break the property is kept (reported by the caller)
		}
		if c.variant == "ponder_hit" || c.variant == "ponder_stopped" {
			c.ponderMs = pick(rng, 0, 1, 5, int(min(c.hard, maxHard))+15)
		}
		// the go line: argument groups in random order, absent clocks sometimes written as 0
		var parts []string
		if c.wt != 0 || c.bt != 0 || rng.IntN(2) == 0 {
			parts = append(parts, fmt.Sprintf("wtime %d", c.wt), fmt.Sprintf("btime %d", c.bt))
		}
		if c.wi != 0 || c.bi != 0 || rng.IntN(2) == 0 {
			parts = append(parts, fmt.Sprintf("winc %d", c.wi), fmt.Sprintf("binc %d", c.bi))
		}
		if c.mt != 0 {
			parts = append(parts, fmt.Sprintf("movetime %d", c.mt))
		}
		rng.Shuffle(len(parts), func(i, j int) { parts[i], parts[j] = parts[j], parts[i] })
		if c.variant != "plain" {
			if rng.IntN(5) == 0 {
				parts = append(parts, "ponder")
			} else {
				parts = append([]string{"ponder"}, parts...)
			}
		}
		c.goLine = strings.Join(append([]string{"go"}, parts...), " ")
		c.lexSet, c.lexPos, c.lexGo, c.lexHit = genLex(rng), genLex(rng), genLex(rng), genLex(rng)
		c.oddPly = rng.IntN(2) == 0
		if c.variant == "ponder_hit" {
			switch rng.IntN(40) {
			case 0, 11, 12, 13, 14, 15, 16, 17, 18, 19: // a long iteration: longer than the tolerance of the deadline assertion
				c.hitReadMs = c.ponderMs + int(c14Late.Milliseconds()) + 1500
			case 1, 2, 3, 4, 5, 6, 7, 8, 9, 10:
				c.hitReadMs = c.ponderMs + pick(rng, 1, 10, int(c.hard/2), int(c.hard), int(2*c.hard))
			}
		}
		return c
	}
}

// genC14Session draws the searches of one driver session and the state changes between them.
func genC14Session(rng *rand.Rand, sess, firstID int, maxHard int64) []c14Case {
	n := pick(rng, 1, 1, 2, 2, 3)
	cur, prev := false, "none" // the Ponder option is off by default
	var cases []c14Case
	var hist []string
	for k := 0; k < n; k++ {
		last := k == n-1
		var variant string
		switch r := rng.IntN(20); {
		case r < 9:
			variant = "plain"
		case r < 11:
			variant = "ponder_option_off"
		case r < 17 || last:
			variant = "ponder_hit"
		case r < 19:
			variant = "ponder_stopped"
		default:
			variant = "untimed_stopped"
		}
		want := rng.IntN(2) == 0
		switch variant {
		case "ponder_option_off":
			want = false
		case "ponder_hit", "ponder_stopped":
			want = true
		}
		c := genC14(rng, firstID+k, maxHard, variant)
		c.sess, c.idx, c.prev, c.optOn = sess, k, prev, want
		if (variant == "plain" || variant == "ponder_option_off" || variant == "ponder_hit") && rng.IntN(10) < 4 {
			genChatter(rng, &c) // needs the option state: a `setoption name Ponder` among the chatter repeats it
		}
		// the way to the wanted option state: nothing, a single setoption, or toggling back and forth
		var seq []bool
		switch r := rng.IntN(10); {
		case cur == want && r < 5:
		case cur == want && r < 7:
			seq = []bool{want}
		case cur == want:
			seq = []bool{!want, want}
		case r < 7:
			seq = []bool{want}
		default:
			seq = []bool{want, !want, want}
		}
		for _, v := range seq {
			c.pre = append(c.pre, "setoption name Ponder value "+map[bool]string{true: "true", false: "false"}[v])
		}
		if rng.IntN(10) < 3 {
			c.pre = append(c.pre, "debug "+pick(rng, "on", "off"))
		}
		c.hist = append([]string{}, hist...)
		hist = append(hist, c.ownOps()...)
		cases = append(cases, c)
		cur, prev = want, variant
	}
	return cases
}

type c14Enter struct {
	soft   int64
	hasHit bool
}

// c14Mock blocks until its stop channel closes and reports that moment.
type c14Mock struct {
	entered chan c14Enter
	closed  chan time.Time
	// behaviour of the next search (set by the session before the go is written)
	oddPly    atomic.Bool
	hitReadMs atomic.Int64
}

func (m *c14Mock) Clear()       {}
func (m *c14Mock) ResizeTT(int) {}

func (m *c14Mock) Go(b *board.Board, opts ...search.Option) (Score, move.Move, move.Move) {
	var o search.Options
	for _, opt := range opts {
		opt(&o)
	}
	if m.oddPly.Load() {
		// like the real search, work in place on the driver's board: one ply down while the search runs
		r := b.MakeNullMove()
		defer b.UndoNullMove(r)
	}
	var phAt <-chan time.Time // until it fires the ponderhit channel is not looked at (a running iteration)
	ph := o.PonderHit
	if d := m.hitReadMs.Load(); d > 0 && ph != nil {
		phAt, ph = time.After(time.Duration(d)*time.Millisecond), nil
	}
	m.entered <- c14Enter{soft: o.SoftTime, hasHit: o.PonderHit != nil}
	for {
		select {
		case <-o.Stop:
			m.closed <- time.Now()
			return 0, move.From(E2) | move.To(E4), 0
		case <-phAt:
			phAt, ph = nil, o.PonderHit
		case <-ph:
			ph = nil
		}
	}
}

type c14Sink struct {
	best  chan struct{}
	ready atomic.Int64 // readyok lines
}

func (s *c14Sink) Write(b []byte) (int, error) {
	if bytes.Equal(b, []byte("readyok\n")) {
		s.ready.Add(1)
	}
	if bytes.HasPrefix(b, []byte("bestmove ")) {
		select {
		case s.best <- struct{}{}:
		default:
		}
	}
	return len(b), nil
}

// c14BC marks a failure that contradicts the stated mechanism (deadline armed at the ponderhit)
// rather than the text of the property.
const c14BC = "mechanism: "

const c14Early = 2 * time.Millisecond // the channel may close this much before the deadline (clock granularity)

// c14Late: the channel may close this much after the deadline, and every other wait for the driver is
// bounded by it (loaded machine).  A failure that consists in having waited this long is not a verdict
// on a machine that is busy with other work: the session is run again, ALONE, with c14LateRetry, and
// only a second failure is reported (a driver that really misses its deadline misses it again).
var c14Late = 3 * time.Second

const c14LateRetry = 15 * time.Second

// timedOut recognises the failures that consist in having waited c14Late.
func timedOut(msg string) bool {
	return strings.Contains(msg, "within 3 s") || strings.Contains(msg, "+ 3 s after") || strings.Contains(msg, "still open 3 s") ||
		strings.Contains(msg, "isready written during the search")
}

// c14Sess is one driver with its blocking mock search.
type c14Sess struct {
	mock    *c14Mock
	sink    *c14Sink
	pr      *io.PipeReader
	pw      *io.PipeWriter
	runDone chan struct{}
}

func newC14Sess() *c14Sess {
	s := &c14Sess{mock: &c14Mock{entered: make(chan c14Enter, 1), closed: make(chan time.Time, 1)},
		sink: &c14Sink{best: make(chan struct{}, 1)}, runDone: make(chan struct{})}
	s.pr, s.pw = io.Pipe()
	d := uci.NewDriver(uci.WithInput(s.pr), uci.WithOutput(s.sink), uci.WithError(io.Discard), uci.WithSearch(s.mock))
	go func() {
		defer close(s.runDone)
		d.Run()
	}()
	return s
}

// write returns when the driver's reader has taken the line (bounded, so that a wedged driver cannot
// hang the harness).
func (s *c14Sess) write(l string) {
	done := make(chan struct{})
	go func() {
		s.pw.Write([]byte(l + "\n"))
		close(done)
	}()
	select {
	case <-done:
	case <-time.After(c14Late):
	}
}

// end leaves nothing behind: stops a search that is still running, quits, waits for Run.
func (s *c14Sess) end(clean bool) (fail string) {
	if !clean {
		s.write("stop")
	}
	s.write("quit")
	select {
	case <-s.runDone:
	case <-time.After(c14Late):
		fail = "Run did not return within 3 s of quit"
	}
	s.pw.Close()
	s.pr.Close()
	return fail
}

// run executes one search of the session; "" = all assertions hold.  lateMs: how long after the
// deadline the channel closed (diagnostics only).
func (s *c14Sess) run(c *c14Case) (fail string, lateMs int64) {
	for _, l := range c.pre {
		s.write(c.lexSet.apply(l))
	}
	s.write(c.lexPos.apply(c.pos.text))
	s.mock.oddPly.Store(c.oddPly)
	s.mock.hitReadMs.Store(int64(c.hitReadMs))
	t0 := time.Now()
	s.write(c.lexGo.apply(c.goLine))
	var en c14Enter
	select {
	case en = <-s.mock.entered:
	case <-time.After(c14Late):
		return "search not started within 3 s of the go", 0
	}
	if en.soft != c.soft {
		return fmt.Sprintf("soft target handed to the search is %d, the helper's value is %d", en.soft, c.soft), 0
	}
	pondering := c.variant == "ponder_hit" || c.variant == "ponder_stopped"
	if en.hasHit != pondering {
		return fmt.Sprintf("ponderhit channel handed to the search: %v (variant %s)", en.hasHit, c.variant), 0
	}
	hard := time.Duration(c.hard) * time.Millisecond
	switch c.variant {
	case "ponder_hit", "ponder_stopped", "untimed_stopped":
		select {
		case <-s.mock.closed:
			if c.variant == "untimed_stopped" {
				return c14BC + "stop channel closed although the mover has no clock and nothing was written by the GUI", 0
			}
			return c14BC + "stop channel closed while pondering (before the ponderhit, nothing written by the GUI): the deadline is armed at the ponderhit", 0
		case <-time.After(time.Duration(c.ponderMs) * time.Millisecond):
		}
		t0 = time.Now()
		if c.variant == "ponder_hit" {
			s.write(c.lexHit.apply("ponderhit"))
			break
		}
		s.write(c.lexHit.apply("stop"))
		select {
		case <-s.mock.closed:
		case <-time.After(c14Late):
			return "stop channel still open 3 s after the stop command", 0
		}
	}
	if c.variant == "plain" || c.variant == "ponder_option_off" || c.variant == "ponder_hit" {
		var tc time.Time
		// chatter: the first line at once, the following ones at the interval, until the channel closes
		var iv time.Duration
		switch c.chatIv {
		case "hard/4":
			iv = hard / 4
		case "hard/2":
			iv = hard / 2
		case "2*hard":
			iv = 2 * hard
		}
		iv = max(iv, 100*time.Microsecond)
		ready0, sentReady, k := s.sink.ready.Load(), int64(0), 0
		nextChat := time.Now()
		limit := t0.Add(hard + c14Late)
	wait:
		for {
			var chatC <-chan time.Time
			if c.chat != "" && (k == 0 || c.chatIv != "once") {
				chatC = time.After(time.Until(nextChat))
			}
			select {
			case tc = <-s.mock.closed:
				break wait
			case <-chatC:
				l := c.chatLines[k%len(c.chatLines)]
				if f := strings.Fields(l); len(f) > 0 && f[0] == "isready" {
					sentReady++
				}
				s.write(l)
				k++
				nextChat = nextChat.Add(iv)
			case <-time.After(time.Until(limit)):
				chat := ""
				if c.chat != "" {
					chat = fmt.Sprintf("; %d lines (%s) written every %s while the search ran", k, c.chat, c.chatIv)
				}
				return fmt.Sprintf("hard deadline not enforced: stop channel still open %d ms + 3 s after the %s (Ponder option %s, previous search: %s%s)",
					c.hard, map[bool]string{true: "ponderhit", false: "go"}[c.variant == "ponder_hit"], map[bool]string{true: "on", false: "off"}[c.optOn], c.prev, chat), 0
			}
		}
		defer func() {
			// every isready written while the search ran is answered (by the interrupt goroutine, or by the
			// handler when it arrived after the end of the search)
			for dl := time.Now().Add(c14Late); fail == "" && s.sink.ready.Load()-ready0 != sentReady; {
				if time.Now().After(dl) {
					fail = fmt.Sprintf("%d isready written during the search, %d readyok", sentReady, s.sink.ready.Load()-ready0)
				}
				time.Sleep(200 * time.Microsecond)
			}
		}()
		el := tc.Sub(t0)
		if el < hard-c14Early {
			return fmt.Sprintf("stop channel closed after %d us, earlier than the hard deadline %d ms", el.Microseconds(), c.hard), 0
		}
		lateMs = (el - hard).Milliseconds()
	}
	select {
	case <-s.sink.best:
	case <-time.After(c14Late):
		return "no bestmove within 3 s of the stop channel closing", lateMs
	}
	return "", lateMs
}

func suiteC14(ctx *common.Ctx, workers int) {
	res := common.NewResult(ctx, "uci/c14", "C14")
	res.Rule = "a timed go (distinct clock state x plain / ponder+ponderhit x Ponder option x previous search of the session) whose blocking search was stopped by the driver's own deadline, with nothing written by the GUI after the go / ponderhit"
	n := ctx.Pick(600, 6000)
	maxHard := int64(ctx.Pick(200, 400))
	var cases []c14Case
	var sessions [][2]int // [first case, one past the last case)
	for len(cases) < n {
		ss := genC14Session(ctx.Rng, len(sessions), len(cases), maxHard)
		sessions = append(sessions, [2]int{len(cases), len(cases) + len(ss)})
		cases = append(cases, ss...)
	}
	n = len(cases)
	static := make([]string, n)
	for i := range cases {
		if c := &cases[i]; c.variant != "untimed_stopped" {
			static[i] = c14Props(ctx.Rng, c.pos.black, c.wt, c.bt, c.wi, c.bi, c.mt)
		}
	}
	fails := make([]string, n)
	late := make([]int64, n)
	ran := make([]bool, n)
	var next, nfail atomic.Int64
	var wg sync.WaitGroup
	for w := 0; w < workers; w++ {
		wg.Add(1)
		go func() {
			defer wg.Done()
			for {
				si := int(next.Add(1)) - 1
				if si >= len(sessions) || nfail.Load() >= failCap {
					return
				}
				sess := newC14Sess()
				clean, lastRun := true, -1
				for i := sessions[si][0]; i < sessions[si][1] && clean; i++ {
					if static[i] != "" && (cases[i].hard <= 0 || cases[i].hard > 4*maxHard) {
						break // nothing sensible to wait for
					}
					fails[i], late[i] = sess.run(&cases[i])
					ran[i], lastRun = true, i
					clean = fails[i] == ""
				}
				if f := sess.end(clean); f != "" && clean && lastRun >= 0 {
					fails[lastRun] = f
				}
				if lastRun >= 0 && fails[lastRun] != "" {
					nfail.Add(1)
				}
			}
		}()
	}
	wg.Wait()
	// time-outs are re-examined: the whole session again, alone, with the long tolerance (a mock that reads the
	// ponderhit channel "later than the tolerance" is moved out accordingly)
	retried := 0
	for si := range sessions {
		lo, hi := sessions[si][0], sessions[si][1]
		bad := false
		for i := lo; i < hi; i++ {
			bad = bad || timedOut(fails[i])
		}
		if !bad || retried >= 3 {
			continue
		}
		retried++
		c14Late = c14LateRetry
		sess := newC14Sess()
		clean, lastRun := true, -1
		for i := lo; i < hi && clean; i++ {
			if static[i] != "" && (cases[i].hard <= 0 || cases[i].hard > 4*maxHard) {
				break
			}
			c := cases[i]
			if c.hitReadMs > c.ponderMs+3000 {
				c.hitReadMs = c.ponderMs + int(c14LateRetry.Milliseconds()) + 1500
			}
			fails[i], late[i] = sess.run(&c)
			ran[i], lastRun = true, i
			clean = fails[i] == ""
		}
		if f := sess.end(clean); f != "" && clean && lastRun >= 0 {
			fails[lastRun] = f
		}
		c14Late = 3 * time.Second
		if lastRun < 0 || fails[lastRun] == "" {
			res.Count("timeout_under_load_passed_when_run_alone", 1)
		} else {
			fails[lastRun] += " [again when the session was run alone with a tolerance of 15 s]"
		}
	}
	var worst int64
	for i := range cases {
		c := &cases[i]
		side := "white"
		if c.pos.black {
			side = "black"
		}
		res.Evaluations++
		opt := "|Ponder_option_" + map[bool]string{true: "on", false: "off"}[c.optOn]
		res.Count("c14["+c.class+"|"+c.variant+opt+"]", 1)
		res.Count("c14_side["+side+"|"+c.variant+"]", 1)
		if c.variant != "untimed_stopped" {
			hr := "at once"
			if c.hitReadMs > c.ponderMs+int(c14Late.Milliseconds()) {
				hr = "after a long iteration (> 3 s)"
			} else if c.hitReadMs > 0 {
				hr = "after a short iteration"
			}
			if c.variant != "ponder_hit" {
				hr = "n/a"
			}
			res.Count(fmt.Sprintf("c14_mock[board at odd ply=%v|ponderhit read %s|%s]", c.oddPly, hr, c.variant), 1)
		}
		res.Count("c14_session[previous="+c.prev+"|"+c.variant+opt+"]", 1)
		if len(c.pre) > 1 {
			res.Count("c14_state_changes_before_search[>=2 lines|"+c.variant+opt+"]", 1)
		}
		if c.chat != "" {
			res.Count("c14_chatter["+c.chat+"|every "+c.chatIv+"|"+map[bool]string{true: "after ponderhit", false: "plain"}[c.variant == "ponder_hit"]+"]", 1)
		} else if c.variant == "plain" || c.variant == "ponder_option_off" || c.variant == "ponder_hit" {
			res.Count("c14_chatter[none]", 1)
		}
		if static[i] != "" {
			res.Count("helper_property_violated", 1)
			res.Fail(common.Mismatch{Property: "C14", Kind: "failing-input", Ops: c.ops(),
				Impl:  fmt.Sprintf("VerifTimeControl(wtime=%d btime=%d winc=%d binc=%d movetime=%d, %s to move): %s", c.wt, c.bt, c.wi, c.bi, c.mt, side, static[i]),
				Model: "property C14 on the helper values"})
		}
		if !ran[i] {
			res.Count("not_run", 1)
			continue
		}
		if fails[i] != "" {
			res.Count("deadline_assertion_failed", 1)
			kind := "failing-input"
			if strings.HasPrefix(fails[i], c14BC) {
				kind = "broken-correspondence"
			}
			res.Fail(common.Mismatch{Property: "C14", Kind: kind, Ops: c.ops(), Impl: fails[i],
				Model: fmt.Sprintf("stop channel closes between %d ms - 2 ms and %d ms + 3 s; soft target %d", c.hard, c.hard, c.soft)})
			continue
		}
		worst = max(worst, late[i])
		res.TracesValidated++
		if c.variant == "ponder_stopped" || c.variant == "untimed_stopped" {
			continue
		}
		res.Nontrivial(fmt.Sprintf("%s|%v|%v|%s|%d %d %d %d %d", c.variant, c.optOn, c.pos.black, c.prev, c.wt, c.bt, c.wi, c.bi, c.mt))
		res.Sample(map[string]any{"ops": c.ops()}, 6)
	}
	fmt.Fprintf(os.Stderr, "uci/c14: largest lateness of a deadline %d ms\n", worst)
	res.Notes = append(res.Notes, fmt.Sprintf("%d searches in %d driver sessions, hard deadlines up to %d ms, %d concurrent drivers; early margin 2 ms, late margin 3 s", n, len(sessions), maxHard, workers))
	res.Write(ctx)
}

// ---------------------------------------------------------------------------------------------
// -suite goargs: what `handleGo` hands to search.Go for arbitrary `go` argument lists (property C06:
// the limits of every UCI-started search; Lean model Model/UciGo.lean through `drv_misc goargs`).
//
// Every case is one `go <tokens>` line sent to the real driver (either colour to move, Ponder option
// and debug flag on or off) with a mock search that records the options it is called with and
// returns at once.  Exactly one of two things happens for a go: the mock is called, or the driver
// writes "argument missing" to its error stream; the harness waits for either.  Compared with the
// model: the outcome class and every recorded option (Depth, Nodes, SoftTime present? value;
// PonderHit / Stop / Output != nil; Debug).  Asserted in Go directly: a depth option lies in
// [1, MaxPlies]; SoftNodes is never set.

type goargsCase struct {
	black, ponder, debug bool
	args                 []string
	lex                  lexT
	kind                 string // generator: boundary | pairs | soup
}

func (c *goargsCase) ops() []string {
	return []string{fmt.Sprintf("black=%v Ponder=%v debug=%v", c.black, c.ponder, c.debug),
		fmt.Sprintf("send:%q", c.lex.apply(strings.Join(append([]string{"go"}, c.args...), " ")))}
}

func (c *goargsCase) req() string {
	return fmt.Sprintf("goargs %s %s %s %s", b01(c.black), b01(c.ponder), b01(c.debug), strings.Join(c.args, " "))
}

func b01(b bool) string {
	if b {
		return "1"
	}
	return "0"
}

var goKeywords = []string{"wtime", "btime", "winc", "binc", "depth", "nodes", "movetime"}
var goOtherWords = []string{"ponder", "ponder", "infinite", "searchmoves", "mate", "e2e4", "Depth", "DEPTH", "depth=5", "wtime:", "Ponder", "go", "stop", "-", "+"}

// boundary numbers and non-numbers (strconv: [+-]?[0-9]+ within int64, everything else is an error)
var goNumbers = []string{
	"0", "1", "2", "-1", "-0", "+0", "+1", "-5", "5", "007", "-007", "63", "64", "65", "100", "127", "128", "129", "200", "255", "256", "257",
	"-127", "-128", "-129", "-200", "-256", "1000", "1023", "1024", "32767", "32768", "65535", "65536", "2147483647", "2147483648", "-2147483648",
	"-2147483649", "4294967295", "4294967296", "4294967360", "9223372036854775807", "9223372036854775808", "-9223372036854775808",
	"-9223372036854775809", "18446744073709551615", "18446744073709551616", "18446744073709551680", "99999999999999999999999999",
	"-99999999999999999999999999", "000000000000000000000000000064", "+9223372036854775807", "+9223372036854775808",
	"x", "", "5x", "x5", "1_000", "0x10", "0b11", "0o7", "1e3", "5.0", "5.", ".5", "--5", "+-5", "-+5", "5-", "5+", "1,000",
	"１２", "٣", "५", "5²", "−5", "NaN", "inf", "true", "nil",
}

func genNumber(rng *rand.Rand) string {
	switch r := rng.IntN(12); {
	case r < 4:
		for {
			if n := goNumbers[rng.IntN(len(goNumbers))]; n != "" {
				return n
			}
		}
	case r < 6:
		return strconv.Itoa(rng.IntN(300) - 100)
	case r >= 10:
		return strconv.Itoa(rng.IntN(70))
	case r < 7:
		return strconv.FormatInt(int64(rng.Uint64()), 10)
	case r < 8: // around a power of two
		k := uint(rng.IntN(64))
		return strconv.FormatInt(int64(uint64(1)<<k)+int64(rng.IntN(5))-2, 10)
	case r < 9: // digit string of any length, optional sign
		var sb strings.Builder
		sb.WriteString(pick(rng, "", "", "-", "+"))
		for k := 1 + rng.IntN(24); k > 0; k-- {
			sb.WriteByte(byte('0' + rng.IntN(10)))
		}
		return sb.String()
	default:
		return strconv.Itoa(rng.IntN(100000))
	}
}

func genGoargs(rng *rand.Rand) goargsCase {
	c := goargsCase{black: rng.IntN(2) == 0, ponder: rng.IntN(2) == 0, debug: rng.IntN(4) == 0, lex: genLex(rng)}
	if rng.IntN(2) == 0 {
		c.lex = lexT{}
	}
	if rng.IntN(4) == 0 {
		// what a GUI writes: each keyword at most once, plain decimal values of any magnitude up to int64
		c.kind = "gui"
		var groups [][]string
		clock := func() string {
			switch r := rng.IntN(12); {
			case r < 1:
				return "0"
			case r < 4:
				return strconv.Itoa(1 + rng.IntN(1000))
			case r < 6:
				return strconv.Itoa(1000 + rng.IntN(10000000))
			case r < 8: // around 2^31 and 2^32 ms (24.9 / 49.7 days)
				return strconv.FormatInt(pick[int64](rng, 1<<31, 1<<31, 1<<32)+int64(rng.IntN(5))-2, 10)
			case r < 10: // up to the property's 10^12 ms
				return strconv.FormatInt(2147483648+rng.Int64N(1000000000000-2147483648), 10)
			case r < 11:
				return strconv.FormatInt(1+rng.Int64N(1<<62), 10)
			default:
				return pick(rng, "9223372036854775807", "9223372036854775806", "4611686018427387904", "1000000000000")
			}
		}
		if rng.IntN(4) > 0 {
			groups = append(groups, []string{"wtime", clock()}, []string{"btime", clock()})
			if rng.IntN(2) == 0 {
				groups = append(groups, []string{"winc", pick(rng, "0", "100", "2000", "1000000000")}, []string{"binc", pick(rng, "0", "100", "2000", "1000000000")})
			}
		}
		if rng.IntN(3) == 0 || len(groups) == 0 {
			groups = append(groups, []string{"movetime", clock()})
		}
		if rng.IntN(6) == 0 {
			groups = append(groups, []string{"depth", strconv.Itoa(1 + rng.IntN(80))})
		}
		if rng.IntN(6) == 0 {
			groups = append(groups, []string{"nodes", strconv.Itoa(rng.IntN(1000000))})
		}
		if rng.IntN(3) == 0 {
			groups = append(groups, []string{"ponder"})
		}
		rng.Shuffle(len(groups), func(i, j int) { groups[i], groups[j] = groups[j], groups[i] })
		for _, g := range groups {
			c.args = append(c.args, g...)
		}
	} else if rng.IntN(2) == 0 {
		// keyword/value pairs in any order and multiplicity, sometimes cut short or with stray words
		c.kind = "pairs"
		for k := rng.IntN(6); k > 0; k-- {
			switch r := rng.IntN(12); {
			case r < 1:
				c.args = append(c.args, pick(rng, goOtherWords...))
			case r < 2:
				c.args = append(c.args, pick(rng, goKeywords...)) // keyword without value: reads the next token
			default:
				c.args = append(c.args, pick(rng, goKeywords...), genNumber(rng))
			}
		}
		if rng.IntN(3) == 0 { // `ponder` anywhere (also between a keyword and its value)
			k := rng.IntN(len(c.args) + 1)
			c.args = append(c.args[:k:k], append([]string{"ponder"}, c.args[k:]...)...)
		}
		if rng.IntN(8) == 0 {
			c.args = append(c.args, pick(rng, goKeywords...)) // value missing at the end
		}
	} else {
		c.kind = "soup"
		for k := rng.IntN(9); k > 0; k-- {
			switch r := rng.IntN(10); {
			case r < 4:
				c.args = append(c.args, pick(rng, goKeywords...))
			case r < 5:
				c.args = append(c.args, pick(rng, goOtherWords...))
			default:
				c.args = append(c.args, genNumber(rng))
			}
		}
	}
	return c
}

// guiClock reads a well-formed argument list the way the GUI meant it: `ponder` / `infinite` flags
// and keyword-value pairs, every keyword at most once, every value a plain decimal number (no sign,
// no leading zero) that fits int64.  ok = false for every other list (no C14 assertion is made then).
func guiClock(args []string) (v map[string]int64, ok bool) {
	v = map[string]int64{}
	for i := 0; i < len(args); i++ {
		a := args[i]
		if a == "ponder" || a == "infinite" {
			continue
		}
		isKw := false
		for _, k := range goKeywords {
			isKw = isKw || k == a
		}
		if _, dup := v[a]; !isKw || dup || i+1 >= len(args) || !reGuiNum.MatchString(args[i+1]) {
			return nil, false
		}
		n, err := strconv.ParseInt(args[i+1], 10, 64)
		if err != nil {
			return nil, false
		}
		v[a] = n
		i++
	}
	return v, true
}

var reGuiNum = regexp.MustCompile(`^(0|[1-9][0-9]*)$`)

// c14Direct asserts what the text of property C14 fixes about the options of a search started by a
// well-formed go: a movetime M > 0 is the soft target; a positive remaining time of the mover or a
// positive movetime puts the search in timed mode (a soft target is passed).  "" = holds / not applicable.
func c14Direct(c *goargsCase, impl string) (class, fail string) {
	v, ok := guiClock(c.args)
	if !ok || !strings.HasPrefix(impl, "call ") {
		return "", ""
	}
	own := v["wtime"]
	if c.black {
		own = v["btime"]
	}
	mt := v["movetime"]
	if own <= 0 && mt <= 0 {
		return "untimed", ""
	}
	soft := ""
	if m := reSoft.FindStringSubmatch(impl); m != nil {
		soft = m[1]
	}
	big := func(x int64) string {
		switch {
		case x >= 1<<31:
			return ">=2^31"
		case x > 0:
			return "<2^31"
		}
		return "absent"
	}
	class = "movetime" + big(mt) + "|own_clock" + big(own)
	switch {
	case soft == "-":
		return class, fmt.Sprintf("no soft target is handed to the search (not in timed mode) although the mover has %d ms left and movetime is %d", own, mt)
	case mt > 0 && soft != strconv.FormatInt(mt, 10):
		return class, fmt.Sprintf("movetime %d but the soft target handed to the search is %s", mt, soft)
	}
	return class, ""
}

var reSoft = regexp.MustCompile(` soft=(-|-?\d+)`)

type goargsRec struct {
	depth, nodes, soft, softNodes string // "-" = option absent
	depthV                        int
	depthSet                      bool
	ponder, stop, out, debug      bool
}

type goargsMock struct{ ch chan goargsRec }

func (m *goargsMock) Clear()       {}
func (m *goargsMock) ResizeTT(int) {}

func (m *goargsMock) Go(_ *board.Board, opts ...search.Option) (Score, move.Move, move.Move) {
	// two differently initialised Options: a field on which they agree afterwards was set by an option
	a := search.Options{Depth: -101, Nodes: 1, SoftTime: 1, SoftNodes: 1}
	b := search.Options{Depth: -102, Nodes: 2, SoftTime: 2, SoftNodes: 2}
	for _, opt := range opts {
		opt(&a)
		opt(&b)
	}
	r := goargsRec{depth: "-", nodes: "-", soft: "-", softNodes: "-", ponder: a.PonderHit != nil, stop: a.Stop != nil, out: a.Output != nil, debug: a.Debug}
	if a.Depth == b.Depth {
		r.depth, r.depthV, r.depthSet = strconv.Itoa(int(a.Depth)), int(a.Depth), true
	}
	if a.Nodes == b.Nodes {
		r.nodes = strconv.Itoa(a.Nodes)
	}
	if a.SoftTime == b.SoftTime {
		r.soft = strconv.FormatInt(a.SoftTime, 10)
	}
	if a.SoftNodes == b.SoftNodes {
		r.softNodes = strconv.Itoa(a.SoftNodes)
	}
	m.ch <- r
	return 0, move.From(E2) | move.To(E4), 0
}

func (r *goargsRec) String() string {
	s := fmt.Sprintf("call depth=%s nodes=%s soft=%s ponder=%s debug=%s stop=%s out=%s", r.depth, r.nodes, r.soft, b01(r.ponder), b01(r.debug), b01(r.stop), b01(r.out))
	if r.softNodes != "-" {
		s += " softnodes=" + r.softNodes
	}
	return s
}

type chanWriter struct{ ch chan string }

func (w *chanWriter) Write(b []byte) (int, error) {
	w.ch <- string(b)
	return len(b), nil
}

// goargsSession runs the cases on one driver; impl[i] = observed outcome, note[i] = Go-side assertion failure.
func goargsSession(cases []goargsCase, impl, note []string) {
	for len(cases) > 0 {
		mock := &goargsMock{ch: make(chan goargsRec, 4)}
		sink := &c14Sink{best: make(chan struct{}, 1)}
		errw := &chanWriter{ch: make(chan string, 64)}
		pr, pw := io.Pipe()
		d := uci.NewDriver(uci.WithInput(pr), uci.WithOutput(sink), uci.WithError(errw), uci.WithSearch(mock))
		runDone := make(chan struct{})
		go func() {
			defer close(runDone)
			d.Run()
		}()
		write := func(l string) {
			done := make(chan struct{})
			go func() {
				pw.Write([]byte(l + "\n"))
				close(done)
			}()
			select {
			case <-done:
			case <-time.After(c14Late):
			}
		}
		first, black, ponder, debug := true, false, false, false
		n := 0
		wedged := false
		for i := range cases {
			c := &cases[i]
			n++
			if first || c.black != black {
				write(map[bool]string{false: "position startpos", true: "position startpos moves e2e4"}[c.black])
			}
			if first || c.ponder != ponder {
				write("setoption name Ponder value " + map[bool]string{false: "false", true: "true"}[c.ponder])
			}
			if first || c.debug != debug {
				write("debug " + map[bool]string{false: "off", true: "on"}[c.debug])
			}
			first, black, ponder, debug = false, c.black, c.ponder, c.debug
			write(c.lex.apply(strings.Join(append([]string{"go"}, c.args...), " ")))
			select {
			case r := <-mock.ch:
				impl[i] = r.String()
				if r.depthSet && (r.depthV < 1 || r.depthV > MaxPlies) {
					note[i] = fmt.Sprintf("depth option %d outside [1, %d]", r.depthV, MaxPlies)
				}
				select {
				case <-sink.best: // the interrupt goroutine is gone: the next line goes to the handler
				case <-time.After(c14Late):
					impl[i] += " (no bestmove within 3 s)"
					wedged = true
				}
			case e := <-errw.ch:
				if e == "argument missing\n" {
					impl[i] = "missing"
				} else {
					impl[i] = fmt.Sprintf("stderr %q", e)
				}
			case <-time.After(c14Late):
				impl[i] = "neither a search nor an error message within 3 s"
				wedged = true
			}
			if wedged {
				break
			}
		}
		write("quit")
		select {
		case <-runDone:
		case <-time.After(c14Late):
		}
		pw.Close()
		pr.Close()
		cases, impl, note = cases[n:], impl[n:], note[n:]
	}
}

func suiteGoargs(ctx *common.Ctx, workers int) {
	res := common.NewResult(ctx, "uci/goargs", "C06", "C14")
	res.Rule = "a go argument list on which the model's outcome is not the plain default (a value is clamped, unparsable, out of range, overridden by a later occurrence, read from a keyword token, or missing)"
	var cases []goargsCase
	// boundary: every number after every keyword, for both colours
	for _, kw := range goKeywords {
		for _, n := range goNumbers {
			c := goargsCase{kind: "boundary", black: len(cases)%2 == 1, ponder: len(cases)%3 == 0, args: []string{kw, n}}
			if n == "" {
				c.args = []string{kw}
			}
			cases = append(cases, c)
		}
	}
	for k := ctx.Pick(40000, 600000); k > 0; k-- {
		cases = append(cases, genGoargs(ctx.Rng))
	}
	impl := make([]string, len(cases))
	note := make([]string, len(cases))
	per := (len(cases) + workers - 1) / workers
	var wg sync.WaitGroup
	for w := 0; w < workers; w++ {
		lo, hi := w*per, min((w+1)*per, len(cases))
		if lo >= hi {
			continue
		}
		wg.Add(1)
		go func() {
			defer wg.Done()
			goargsSession(cases[lo:hi], impl[lo:hi], note[lo:hi])
		}()
	}
	wg.Wait()
	// time-outs are re-examined: the case again, alone on a fresh driver, with the long tolerance
	retried := 0
	for i := range cases {
		if timedOut(impl[i]) && retried < 4 {
			retried++
			c14Late = c14LateRetry
			impl[i], note[i] = "", ""
			goargsSession(cases[i:i+1], impl[i:i+1], note[i:i+1])
			c14Late = 3 * time.Second
			if !timedOut(impl[i]) {
				res.Count("timeout_under_load_passed_when_run_alone", 1)
			}
		}
	}
	var model []string
	if ctx.Driver != "" {
		mdl := common.StartModel(ctx.Driver)
		reqs := make([]string, len(cases))
		for i := range cases {
			reqs[i] = cases[i].req()
		}
		model = mdl.Batch(reqs)
		mdl.Close()
	}
	// property C14, asserted directly on well-formed argument lists (first, so that these are kept
	// when the list of mismatches is cut)
	for i := range cases {
		c := &cases[i]
		class, fail := c14Direct(c, impl[i])
		if class != "" {
			res.Count("c14_direct["+class+"]", 1)
		}
		if fail != "" {
			res.Count("c14_direct_failed", 1)
			if res.Histogram["c14_direct_failed"] > 25 {
				continue // leave room for the model comparison in the (cut) list of mismatches
			}
			res.Fail(common.Mismatch{Property: "C14", Kind: "failing-input", Ops: c.ops(), Impl: impl[i] + ": " + fail,
				Model: "with a movetime the soft target equals it; a positive remaining time of the mover or a positive movetime means timed mode"})
		}
	}
	reDepth := regexp.MustCompile(`depth=(-?\d+)`)
	for i := range cases {
		c := &cases[i]
		res.Evaluations++
		res.Count("gen_"+c.kind, 1)
		res.Count("stm_"+map[bool]string{false: "white", true: "black"}[c.black]+"|Ponder_"+b01(c.ponder), 1)
		// classes of the observed outcome
		switch {
		case impl[i] == "missing":
			res.Count("outcome_argument_missing", 1)
		case strings.HasPrefix(impl[i], "call "):
			res.Count("outcome_call", 1)
			if m := reDepth.FindStringSubmatch(impl[i]); m != nil {
				res.Count("depth_option_"+map[bool]string{true: "clamped_or_default_1", false: "other"}[m[1] == "1"]+map[bool]string{true: "|max", false: ""}[m[1] == strconv.Itoa(MaxPlies)], 1)
			} else {
				res.Count("depth_option_absent", 1)
			}
			for _, f := range []string{"nodes=-", "soft=-", "ponder=1", "debug=1"} {
				if strings.Contains(impl[i], f) {
					res.Count("call_with_"+f, 1)
				}
			}
		default:
			res.Count("outcome_other", 1)
		}
		if note[i] != "" {
			res.Count("go_assert_depth_range", 1)
			res.Fail(common.Mismatch{Property: "C06", Kind: "failing-input", Ops: c.ops(), Impl: impl[i] + ": " + note[i],
				Model: "a depth limit handed to the search is at least 1 and at most MaxPlies"})
			continue
		}
		if model == nil {
			continue
		}
		if impl[i] != model[i] {
			res.Count("model_differs", 1)
			res.Fail(common.Mismatch{Property: "C06", Kind: "broken-correspondence", Ops: c.ops(), Impl: impl[i], Model: model[i],
				Note: "request: " + c.req()})
			continue
		}
		res.TracesValidated++
		if model[i] != "call depth=- nodes=- soft=- ponder=0 debug=0 stop=1 out=1" {
			res.Nontrivial(c.req())
		}
		res.Sample(map[string]any{"ops": c.ops(), "outcome": impl[i]}, 8)
	}
	res.Notes = append(res.Notes, fmt.Sprintf("%d boundary + %d random argument lists, %d driver sessions", len(goKeywords)*len(goNumbers), len(cases)-len(goKeywords)*len(goNumbers), workers))
	res.Write(ctx)
}

func main() {
	child := false
	for _, a := range os.Args[1:] {
		if a == "-child" {
			child = true
		}
	}
	if child {
		childMain()
		return
	}
	workers := flag.Int("workers", 6, "parallel child processes")
	scripts := flag.Int("scripts", 0, "override the number of scripts")
	suite := flag.String("suite", "c13", "c13: protocol / concurrency sweep (default); c14: hard deadline enforced by the driver; goargs: go argument parsing vs the Lean model (C06)")
	ctx := common.Parse()
	switch *suite {
	case "c13", "all", "":
	case "c14":
		suiteC14(ctx, 8)
		return
	case "goargs":
		suiteGoargs(ctx, 4)
		return
	default:
		fmt.Fprintln(os.Stderr, "unknown suite", *suite)
		os.Exit(2)
	}
	res := common.NewResult(ctx, "uci", "C13")
	res.Rule = "a run in which stop/isready/ponderhit/quit/EOF was written while a bestmove was outstanding (distinct recorded traces)"
	nScripts := ctx.Pick(300, 12000) // x 8 timings; 20 000 scripts measured 731 s idle, 972 s at load 90
	if *scripts > 0 {
		nScripts = *scripts
	}
	var specs []*Spec
	byID := map[int]*Spec{}
	for s := 0; s < nScripts; s++ {
		sk := genSkeleton(ctx.Rng)
		for t := 0; t < 8; t++ {
			sp := sk.build(len(specs), s, t)
			specs = append(specs, &sp)
			byID[sp.ID] = &sp
		}
	}
	self, err := os.Executable()
	if err != nil {
		panic(err)
	}
	// contiguous chunks keep the 8 timings of a script in one child
	per := (len(specs) + *workers - 1) / *workers
	outcomes := make([]childOutcome, *workers)
	var wg sync.WaitGroup
	for w := 0; w < *workers; w++ {
		lo, hi := w*per, min((w+1)*per, len(specs))
		if lo >= hi {
			continue
		}
		wg.Add(1)
		go func(w int, part []*Spec) {
			defer wg.Done()
			outcomes[w] = runChild(self, part)
		}(w, specs[lo:hi])
	}
	wg.Wait()

	var all []Res
	for _, oc := range outcomes {
		all = append(all, oc.results...)
		if oc.skipped > 0 {
			res.Count("skipped_after_fail_cap", oc.skipped)
		}
		for _, dd := range oc.died {
			kind := "crash"
			switch {
			case strings.Contains(dd.stderr, "DATA RACE"):
				kind = "data_race"
			case strings.Contains(dd.stderr, "all goroutines are asleep"):
				kind = "deadlock"
			case strings.Contains(dd.stderr, "panic:"):
				kind = "panic"
			}
			res.Count("child_died_"+kind, 1)
			res.Fail(common.Mismatch{Property: "C13", Kind: "failing-input", Ops: dd.spec.ops(),
				Impl: fmt.Sprintf("%s (exit %d): %s", kind, dd.code, dd.stderr), Model: "no panic / race / deadlock"})
		}
	}
	// Lean acceptor, in parallel
	nm := 4
	answers := make([]string, len(all))
	if ctx.Driver != "" {
		var mw sync.WaitGroup
		chunk := (len(all) + nm - 1) / nm
		for m := 0; m < nm; m++ {
			lo, hi := m*chunk, min((m+1)*chunk, len(all))
			if lo >= hi {
				continue
			}
			mw.Add(1)
			go func(lo, hi int) {
				defer mw.Done()
				mdl := common.StartModel(ctx.Driver)
				defer mdl.Close()
				reqs := make([]string, 0, hi-lo)
				for _, r := range all[lo:hi] {
					reqs = append(reqs, byID[r.ID].Mode+" "+r.Trace)
				}
				copy(answers[lo:hi], mdl.Batch(reqs))
			}(lo, hi)
		}
		mw.Wait()
	}
	for i, r := range all {
		sp := byID[r.ID]
		res.Evaluations++
		res.Count("mode_"+sp.Mode, 1)
		res.Count(fmt.Sprintf("probe_%s@t%d", sp.Probe, sp.Timing), 1)
		res.Count("term_"+sp.Term, 1)
		for _, b := range sp.Blocks {
			res.Count("go["+b+"]", 1)
		}
		for _, b := range sp.Roots {
			if strings.HasPrefix(b, "line_length:") {
				res.Count(b, 1)
			} else {
				res.Count("root["+b+"]", 1)
			}
		}
		seen := map[string]bool{}
		for _, h := range r.Hist {
			if !seen[h] {
				seen[h] = true
				if strings.HasPrefix(h, "lex:") {
					res.Count("lex["+h[4:]+"]", 1)
				} else if strings.HasPrefix(h, "ponder_end:") {
					res.Count("ponder_end["+sp.Mode+":"+h[11:]+"]", 1)
				} else {
					res.Count("runs_with_"+h, 1)
				}
			}
		}
		if r.Async {
			res.Nontrivial(sp.Mode + " " + r.Trace)
		}
		res.Sample(map[string]any{"ops": sp.ops(), "trace": r.Trace, "model": answers[i]}, 6)
		if r.Fail != "" {
			res.Count("impl_fail_"+r.Fail, 1)
			res.Fail(common.Mismatch{Property: "C13", Kind: "failing-input", Ops: sp.ops(),
				Impl: r.Fail + ": " + r.Detail + " | trace: " + r.Trace, Model: answers[i]})
			continue
		}
		if ctx.Driver == "" {
			continue
		}
		a := answers[i]
		switch {
		case strings.HasPrefix(a, "accept") && strings.HasSuffix(a, "props=ok"):
			res.TracesValidated++
		case strings.HasPrefix(a, "accept"):
			res.Count("lean_props_violated", 1)
			res.Fail(common.Mismatch{Property: "C13", Kind: "failing-input", Ops: sp.ops(), Impl: r.Trace, Model: a,
				Note: "trace accepted by the model but a trace property fails (Lean check)"})
		default:
			res.Count("model_reject", 1)
			res.Fail(common.Mismatch{Property: "C13", Kind: "broken-correspondence", Ops: sp.ops(), Impl: r.Trace, Model: a,
				Note: "the recorded trace is not a trace of Spec/UciProtocol"})
		}
	}
	res.Notes = append(res.Notes,
		fmt.Sprintf("%d scripts x 8 timings; race detector on; children=%d", nScripts, *workers))
	res.Write(ctx)
}
