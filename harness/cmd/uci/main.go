// Command uci is the C13 correspondence harness: it drives a real in-process uci.Driver through
// an io.Pipe with (a) the real search and (b) a controllable blocking mock search, sweeps the
// timing of stop / isready / ponderhit / quit / EOF across the lifetime of a search, records the
// interleaved trace of externally visible events and
//   - asserts the property itself in Go (one bestmove per go after all its info lines, one readyok
//     per isready, whole lines only, Run returns after quit/EOF, no goroutine left, no panic, no
//     data race)                                              -> mismatch kind "failing-input"
//   - asks the Lean trace acceptor (drv_uci) whether the model of uci.go admits the trace
//     -> "broken-correspondence"
//
// The harness is reactive: go (and every other non-async line) is only written after the previous
// bestmove was read; stop, isready, ponderhit, quit and EOF are written at swept points.
//
// Process structure: the parent generates all run specifications from the seed, hands them to
// child processes (this binary with -child, GORACE=halt_on_error=1 exitcode=66) and reads one JSON
// result per run.  A child that dies (race report, panic, fatal "all goroutines are asleep") is
// attributed to the run in progress and restarted on the remaining runs.
package main

import (
	"bufio"
	"bytes"
	"encoding/json"
	"flag"
	"fmt"
	"io"
	"math/rand/v2"
	"os"
	"os/exec"
	"regexp"
	"runtime"
	"strings"
	"sync"
	"time"

	"verifharness/common"

	"github.com/paulsonkoly/chess-3/board"
	. "github.com/paulsonkoly/chess-3/chess"
	"github.com/paulsonkoly/chess-3/move"
	"github.com/paulsonkoly/chess-3/search"
	"github.com/paulsonkoly/chess-3/uci"
)

// ---------------------------------------------------------------------------------------------
// run specification

type Step struct {
	K string `json:"k"`           // send | eof | waitBest | waitEntered | waitInfo | sleep | release
	S string `json:"s,omitempty"` // send: the line
	T string `json:"t,omitempty"` // send: the model token
	N int    `json:"n,omitempty"` // waitInfo: count, sleep: microseconds
}

type MockCfg struct {
	Infos    int  `json:"infos"`
	EndOnHit bool `json:"end_on_hit"`
	NoPoll   bool `json:"no_poll"` // the search never polls opts.PonderHit (deep inside an iteration)
}

type Spec struct {
	ID      int       `json:"id"`
	Script  int       `json:"script"`
	Timing  int       `json:"timing"`
	Mode    string    `json:"mode"` // mock | real
	SinkUs  int       `json:"sink_us"`
	Steps   []Step    `json:"steps"`
	Mocks   []MockCfg `json:"mocks"`
	Probe   string    `json:"probe"`
	Term    string    `json:"term"`
	Release bool      `json:"-"`
}

type Res struct {
	ID     int      `json:"id"`
	Trace  string   `json:"trace"`
	Fail   string   `json:"fail,omitempty"`
	Detail string   `json:"detail,omitempty"`
	Hist   []string `json:"hist,omitempty"`
	Async  bool     `json:"async"` // an async line was written while a bestmove was outstanding
}

func (sp *Spec) ops() []string {
	ops := []string{fmt.Sprintf("mode=%s sink_us=%d script=%d timing=%d", sp.Mode, sp.SinkUs, sp.Script, sp.Timing)}
	for _, st := range sp.Steps {
		switch st.K {
		case "send":
			ops = append(ops, "send:"+st.S)
		case "waitInfo", "sleep":
			ops = append(ops, fmt.Sprintf("%s:%d", st.K, st.N))
		default:
			ops = append(ops, st.K)
		}
	}
	for i, m := range sp.Mocks {
		ops = append(ops, fmt.Sprintf("mock[%d]:infos=%d,end_on_hit=%v,no_poll=%v", i, m.Infos, m.EndOnHit, m.NoPoll))
	}
	return ops
}

// ---------------------------------------------------------------------------------------------
// generator (parent): grammar of protocol-conforming sessions

type goTpl struct {
	text      string
	ponderArg bool
	wtime     bool
	btime     bool
	movetime  bool
	limited   bool // real search ends by itself (when not pondering)
	hardMs    int  // hard timer (when armed) in ms, 0 = far away
	infos     int  // real search: number of info lines before it returns by itself (0 = unknown)
}

var mockGo = []goTpl{
	{text: "go"}, {text: "go infinite"}, {text: "go depth 5"},
	{text: "go ponder", ponderArg: true},
	{text: "go ponder wtime 60000 btime 60000", ponderArg: true, wtime: true, btime: true},
	{text: "go movetime 4", movetime: true, hardMs: 4},
	{text: "go ponder movetime 3", ponderArg: true, movetime: true, hardMs: 3},
	{text: "go wtime 60000 btime 60000 winc 100 binc 100", wtime: true, btime: true},
	{text: "go wtime 90 btime 0", wtime: true, hardMs: 30},
}

var realGo = []goTpl{
	{text: "go depth 1", limited: true, infos: 2}, {text: "go depth 2", limited: true, infos: 3},
	{text: "go depth 3", limited: true, infos: 4}, {text: "go depth 4", limited: true, infos: 5},
	{text: "go nodes 300", limited: true}, {text: "go nodes 3000", limited: true},
	{text: "go movetime 3", movetime: true, limited: true, hardMs: 3},
	{text: "go wtime 90 btime 90", wtime: true, btime: true, limited: true, hardMs: 30},
	{text: "go infinite"}, {text: "go"},
	{text: "go ponder depth 3", ponderArg: true, limited: true, infos: 4},
	{text: "go ponder", ponderArg: true},
	{text: "go ponder movetime 3", ponderArg: true, movetime: true, limited: true, hardMs: 3},
}

type posT struct {
	text  string
	black bool
}

var positions = []posT{
	{"position startpos", false},
	{"position startpos moves e2e4", true},
	{"position startpos moves e2e4 e7e5 g1f3", true},
	{"position fen r1bqkbnr/pppp1ppp/2n5/4p3/4P3/5N2/PPPP1PPP/RNBQKB1R w KQkq - 2 3", false},
	{"position fen 8/8/4k3/8/8/4K3/4P3/8 b - - 0 1", true},
	{"position fen 8/8/4k3/8/8/4K3/4P3/8 w - - 0 1 moves e3d4", true},
}

type idleT struct{ text, tok string }

var idleCmds = []idleT{
	{"isready", "i:isready"}, {"isready", "i:isready"}, {"ucinewgame", "i:other"}, {"fen", "i:other1"},
	{"eval", "i:other1"}, {"debug on", "i:other"}, {"debug off", "i:other"}, {"", "i:other"},
	{"stop", "i:stop"}, {"ponderhit", "i:ponderhit"}, {"spsa", "i:other0"}, {"perft 1", "i:other1"},
	{"setoption name Hash value 1", "i:other"}, {"uci", "i:other1111101"}, {"  isready  extra", "i:isready"},
	{"bogus command", "i:other"}, {"\tstop", "i:stop"},
}

type blockT struct {
	pos    int // -1: none
	idle   []int
	tpl    goTpl
	term   string // self | stop | quit | eof | hit | timer
	extra  bool   // an additional isready while the search runs
	burst  int    // additional ponderhit lines while the search runs
	fixedT int    // timing of the (non-swept) blocks' probe
	probe  string // "" | isready | stop | ponderhit | quit | eof
	mock   MockCfg
}

type skeleton struct {
	mode     string
	sinkUs   int
	prelude  bool
	ponderOn bool
	blocks   []blockT
	target   int // block whose probe timing is swept
	endEOF   bool
}

func asyncTok(s string) string {
	return "i:" + s
}

func genSkeleton(rng *rand.Rand) skeleton {
	sk := skeleton{mode: "mock"}
	if rng.IntN(100) < 40 {
		sk.mode = "real"
	}
	switch r := rng.IntN(10); {
	case r < 7:
		sk.sinkUs = 0
	case r < 9:
		sk.sinkUs = 20
	default:
		sk.sinkUs = 300
	}
	sk.prelude = rng.IntN(10) < 6
	sk.ponderOn = rng.IntN(10) < 5
	sk.endEOF = rng.IntN(2) == 0
	nb := 1 + rng.IntN(3)
	sk.target = rng.IntN(nb)
	black := false
	for b := 0; b < nb; b++ {
		bl := blockT{pos: -1}
		if rng.IntN(3) > 0 {
			bl.pos = rng.IntN(len(positions))
			black = positions[bl.pos].black
		}
		for k := rng.IntN(3); k > 0; k-- {
			bl.idle = append(bl.idle, rng.IntN(len(idleCmds)))
		}
		tpls := mockGo
		if sk.mode == "real" {
			tpls = realGo
		}
		bl.tpl = tpls[rng.IntN(len(tpls))]
		ponder := sk.ponderOn && bl.tpl.ponderArg
		timed := bl.tpl.movetime || (!black && bl.tpl.wtime) || (black && bl.tpl.btime)
		// terminator
		var terms []string
		if sk.mode == "mock" {
			terms = []string{"self", "self", "stop", "stop", "quit", "eof"}
			if ponder {
				terms = append(terms, "hit", "hit")
			}
			if bl.tpl.hardMs > 0 && !ponder && timed {
				terms = append(terms, "timer", "timer")
			}
		} else {
			terms = []string{"stop", "stop", "quit", "eof"}
			limited := bl.tpl.limited && (timed || !(bl.tpl.movetime || bl.tpl.wtime || bl.tpl.btime))
			if limited && !ponder {
				terms = []string{"self", "self", "self", "stop", "quit", "eof"}
			}
			if limited && ponder {
				terms = append(terms, "hit", "hit", "hit")
			}
		}
		bl.term = terms[rng.IntN(len(terms))]
		bl.mock = MockCfg{Infos: rng.IntN(7), EndOnHit: bl.term == "hit"}
		if bl.term != "hit" && rng.IntN(4) == 0 {
			bl.mock.EndOnHit = true
		}
		if !bl.mock.EndOnHit && rng.IntN(3) == 0 {
			bl.mock.NoPoll = true
		}
		bl.extra = rng.IntN(10) < 3
		if rng.IntN(8) == 0 {
			bl.burst = 1 + rng.IntN(3)
		}
		bl.fixedT = rng.IntN(8)
		probes := []string{"isready", "isready", "stop", "stop", "ponderhit", "quit", "eof"}
		if ponder {
			probes = append(probes, "ponderhit", "ponderhit")
		}
		bl.probe = probes[rng.IntN(len(probes))]
		if b != sk.target && rng.IntN(2) == 0 {
			bl.probe = ""
		}
		sk.blocks = append(sk.blocks, bl)
	}
	return sk
}

func send(s, t string) Step { return Step{K: "send", S: s, T: t} }

func probeStep(p string) []Step {
	switch p {
	case "":
		return nil
	case "eof":
		return []Step{{K: "eof"}}
	default:
		return []Step{send(p, asyncTok(p))}
	}
}

// build instantiates the skeleton with the swept timing t (0..7) of the target block's probe.
func (sk *skeleton) build(id, script, t int) Spec {
	sp := Spec{ID: id, Script: script, Timing: t, Mode: sk.mode, SinkUs: sk.sinkUs}
	add := func(st ...Step) { sp.Steps = append(sp.Steps, st...) }
	if sk.prelude {
		add(send("uci", "i:other1111101"), send("isready", "i:isready"))
	}
	if sk.ponderOn {
		add(send("setoption name Ponder value true", "i:other"))
	}
	black := false
	for bi, bl := range sk.blocks {
		if bl.pos >= 0 {
			add(send(positions[bl.pos].text, "i:other"))
			black = positions[bl.pos].black
		}
		for _, ic := range bl.idle {
			add(send(idleCmds[ic].text, idleCmds[ic].tok))
		}
		ponder := sk.ponderOn && bl.tpl.ponderArg
		timed := bl.tpl.movetime || (!black && bl.tpl.wtime) || (black && bl.tpl.btime)
		b2 := func(b bool) string {
			if b {
				return "1"
			}
			return "0"
		}
		tm := bl.fixedT
		if bi == sk.target {
			tm = t
			sp.Probe, sp.Term = bl.probe, bl.term
		}
		probe := probeStep(bl.probe)
		var term []Step
		switch bl.term {
		case "self":
			if sk.mode == "mock" {
				term = []Step{{K: "release"}}
			}
		case "stop":
			term = []Step{send("stop", "i:stop")}
		case "quit":
			term = []Step{send("quit", "i:quit")}
		case "eof":
			term = []Step{{K: "eof"}}
		case "hit":
			term = []Step{send("ponderhit", "i:ponderhit")}
		case "timer":
			term = []Step{{K: "sleep", N: bl.tpl.hardMs*1000 - 60}}
		}
		sp.Mocks = append(sp.Mocks, bl.mock)
		add(send(bl.tpl.text, "i:go"+b2(ponder)+b2(timed)))
		at := func(k int) {
			if tm == k {
				add(probe...)
			}
		}
		at(0)
		if sk.mode == "mock" {
			add(Step{K: "waitEntered"})
		} else {
			add(Step{K: "waitInfo", N: 1})
		}
		at(1)
		if bl.extra {
			add(send("isready", "i:isready"))
		}
		for k := 0; k < bl.burst; k++ {
			add(send("ponderhit", "i:ponderhit"))
		}
		selfReal := sk.mode == "real" && len(term) == 0
		if !selfReal {
			if sk.mode == "mock" && bl.mock.Infos >= 1 {
				add(Step{K: "waitInfo", N: 1})
			}
			if sk.mode == "real" {
				add(Step{K: "waitInfo", N: 2})
			}
			if tm == 2 {
				add(probe...)
				add(Step{K: "sleep", N: 100})
			}
			at(3)
			add(term...)
			at(4)
			if tm == 5 {
				add(Step{K: "sleep", N: 30})
				add(probe...)
			}
			if tm == 6 {
				add(Step{K: "sleep", N: 200})
				add(probe...)
			}
		} else if bl.tpl.infos > 0 {
			// depth-limited real search: the last info line is written just before Go returns
			if tm == 2 {
				add(Step{K: "sleep", N: 100})
				add(probe...)
			}
			if tm == 3 {
				add(Step{K: "waitInfo", N: bl.tpl.infos - 1})
				add(probe...)
			}
			if tm >= 4 && tm <= 6 {
				add(Step{K: "waitInfo", N: bl.tpl.infos})
				add(Step{K: "sleep", N: []int{0, 30, 200}[tm-4]})
				add(probe...)
			}
		} else {
			if tm >= 2 && tm <= 6 {
				add(Step{K: "sleep", N: []int{100, 500, 1000, 2000, 4000}[tm-2]})
				add(probe...)
			}
		}
		add(Step{K: "waitBest"})
		at(7)
	}
	if sk.endEOF {
		add(Step{K: "eof"})
	} else {
		add(send("quit", "i:quit"))
	}
	return sp
}

// ---------------------------------------------------------------------------------------------
// child: executing one run

type recorder struct {
	mu      sync.Mutex
	toks    []string
	nGo     int
	nBest   int
	nInfo   int // info lines of the current search (reset at go)
	fail    string
	detail  string
	entered int
	hist    []string
	async   bool
}

func (r *recorder) add(tok string) {
	r.mu.Lock()
	r.toks = append(r.toks, tok)
	r.mu.Unlock()
}

func (r *recorder) setFail(f, d string) {
	if r.fail == "" {
		r.fail, r.detail = f, d
	}
}

var (
	reReady = regexp.MustCompile(`^readyok$`)
	reBest  = regexp.MustCompile(`^bestmove [a-h][1-8][a-h][1-8][qrbn]?( ponder [a-h][1-8][a-h][1-8][qrbn]?)?$`)
	reInfo  = regexp.MustCompile(`^info depth \d+ (score (cp|mate) -?\d+ nodes \d+ time \d+ hashfull \d+ pv ([a-h][1-8][a-h][1-8][qrbn]?( [a-h][1-8][a-h][1-8][qrbn]?)*)?|nodes \d+)$`)
	reOther = regexp.MustCompile(`^(id name chess-3 \S+|id author Paul Sonkoly|option name \w+ type (spin default \d+ min \d+ max \d+|check default false)|uciok|[1-8pnbrqkPNBRQK/]+ [wb] (-|[KQkq]+) (-|[a-h][36]) \d+ \d+|-?\d+|cp -?\d+|mate -?\d+|\S+ nps)$`)
)

func classify(line string) string {
	switch {
	case reReady.MatchString(line):
		return "readyok"
	case reBest.MatchString(line):
		return "bestmove"
	case reInfo.MatchString(line):
		return "info"
	case reOther.MatchString(line):
		return "other"
	}
	return ""
}

type sink struct {
	rec   *recorder
	delay time.Duration
}

func spin(d time.Duration) {
	if d <= 0 {
		return
	}
	if d > 2*time.Millisecond {
		time.Sleep(d)
		return
	}
	for t0 := time.Now(); time.Since(t0) < d; {
		runtime.Gosched()
	}
}

// Write is the sink of the driver's writer goroutine: one call per message.
func (s *sink) Write(b []byte) (int, error) {
	spin(s.delay)
	r := s.rec
	r.mu.Lock()
	defer r.mu.Unlock()
	if len(b) == 0 || b[len(b)-1] != '\n' {
		r.setFail("torn_line", fmt.Sprintf("write without final newline: %q", b))
		r.toks = append(r.toks, "o:torn")
		return len(b), nil
	}
	kind := ""
	for _, ln := range strings.Split(strings.TrimSuffix(string(b), "\n"), "\n") {
		k := classify(ln)
		if k == "" {
			r.setFail("torn_line", fmt.Sprintf("unrecognised line %q in write %q", ln, b))
			k = "torn"
		}
		if kind != "" && (kind != k || k != "other") {
			r.setFail("torn_line", fmt.Sprintf("mixed write %q", b))
		}
		kind = k
	}
	r.toks = append(r.toks, "o:"+kind)
	switch kind {
	case "bestmove":
		r.nBest++
	case "info":
		r.nInfo++
	}
	return len(b), nil
}

type mockSearch struct {
	rec     *recorder
	cfgs    []MockCfg
	idx     int
	release []chan struct{}
}

func (m *mockSearch) Clear()       {}
func (m *mockSearch) ResizeTT(int) {}

func (m *mockSearch) Go(_ *board.Board, opts ...search.Option) (Score, move.Move, move.Move) {
	var o search.Options
	for _, opt := range opts {
		opt(&o)
	}
	i := m.idx
	m.idx++
	cfg := MockCfg{}
	var rel chan struct{}
	if i < len(m.cfgs) {
		cfg, rel = m.cfgs[i], m.release[i]
	}
	mv := move.From(E2) | move.To(E4)
	m.rec.mu.Lock()
	m.rec.entered++
	m.rec.mu.Unlock()
	abort := func() (Score, move.Move, move.Move) {
		m.rec.add("sstop")
		fmt.Fprintf(o.Output, "info depth %d nodes %d\n", cfg.Infos, 17)
		return 0, mv, 0
	}
	for k := 0; k < cfg.Infos; k++ {
		select {
		case <-o.Stop:
			return abort()
		default:
		}
		fmt.Fprintf(o.Output, "info depth %d score cp %d nodes %d time 0 hashfull 0 pv e2e4 e7e5\n", k, 10+k, 100*k)
	}
	ph := o.PonderHit
	if cfg.NoPoll {
		ph = nil
	}
	for {
		select {
		case <-o.Stop:
			return abort()
		case <-rel:
			m.rec.add("sdone")
			return 12, mv, 0
		case <-ph:
			ph = nil
			if cfg.EndOnHit {
				m.rec.add("sdone")
				return 12, mv, 0
			}
		}
	}
}

const waitTimeout = 6 * time.Second

func (r *recorder) waitFor(cond func() bool) bool {
	deadline := time.Now().Add(waitTimeout)
	for n := 0; ; n++ {
		r.mu.Lock()
		ok := cond()
		r.mu.Unlock()
		if ok {
			return true
		}
		if time.Now().After(deadline) {
			return false
		}
		if n < 200 {
			runtime.Gosched()
		} else {
			time.Sleep(20 * time.Microsecond)
		}
	}
}

func runSpec(sp *Spec, real *search.Search) Res {
	base := runtime.NumGoroutine()
	rec := &recorder{}
	pr, pw := io.Pipe()
	errBuf := &bytes.Buffer{}
	var srch uci.Search
	mock := &mockSearch{rec: rec, cfgs: sp.Mocks}
	for range sp.Mocks {
		mock.release = append(mock.release, make(chan struct{}))
	}
	released := make([]bool, len(sp.Mocks))
	if sp.Mode == "mock" {
		srch = mock
	} else {
		real.Clear()
		srch = real
	}
	d := uci.NewDriver(uci.WithInput(pr), uci.WithOutput(&sink{rec: rec, delay: time.Duration(sp.SinkUs) * time.Microsecond}),
		uci.WithError(errBuf), uci.WithSearch(srch))
	runDone := make(chan struct{})
	go func() {
		defer close(runDone)
		d.Run()
		rec.add("ret")
	}()
	// the GUI's side of stdin: an unbounded FIFO of lines in front of the pipe
	// (quit does not close stdin: only an explicit EOF step does)
	lines := make(chan string, 256)
	eofCh := make(chan struct{})
	feedDone := make(chan struct{})
	go func() {
		defer close(feedDone)
		for {
			select {
			case l := <-lines:
				if _, err := pw.Write([]byte(l + "\n")); err != nil {
					return
				}
			case <-eofCh:
				for {
					select {
					case l := <-lines:
						if _, err := pw.Write([]byte(l + "\n")); err != nil {
							return
						}
						continue
					default:
					}
					break
				}
				pw.Close()
				return
			}
		}
	}()
	closed := false // quit or EOF already written
	var sentReady int
	for si := range sp.Steps {
		st := &sp.Steps[si]
		rec.mu.Lock()
		failed := rec.fail != "" && strings.HasPrefix(rec.fail, "timeout")
		rec.mu.Unlock()
		if failed {
			break
		}
		switch st.K {
		case "send":
			if closed {
				continue
			}
			rec.mu.Lock()
			outstanding := rec.nGo > rec.nBest
			rec.toks = append(rec.toks, st.T)
			if strings.HasPrefix(st.T, "i:go") {
				rec.nGo++
				rec.nInfo = 0
			} else if outstanding && (st.T == "i:stop" || st.T == "i:isready" || st.T == "i:ponderhit" || st.T == "i:quit") {
				rec.async = true
			}
			if st.T == "i:isready" {
				sentReady++
			}
			rec.mu.Unlock()
			lines <- st.S
			if st.T == "i:quit" {
				closed = true
			}
		case "eof":
			if closed {
				continue
			}
			rec.mu.Lock()
			if rec.nGo > rec.nBest {
				rec.async = true
			}
			rec.toks = append(rec.toks, "eof")
			rec.mu.Unlock()
			closed = true
			close(eofCh)
		case "waitBest":
			if !rec.waitFor(func() bool { return rec.nBest >= rec.nGo }) {
				rec.mu.Lock()
				rec.setFail("timeout_no_bestmove", "go not answered by bestmove within the timeout")
				rec.mu.Unlock()
			}
		case "waitEntered":
			if !rec.waitFor(func() bool { return rec.entered >= rec.nGo }) {
				rec.mu.Lock()
				rec.setFail("timeout_search_not_started", "search.Go not called within the timeout")
				rec.mu.Unlock()
			}
		case "waitInfo":
			n := st.N
			if !rec.waitFor(func() bool { return rec.nInfo >= n || rec.nBest >= rec.nGo }) {
				rec.mu.Lock()
				rec.setFail("timeout_no_info", "neither info lines nor bestmove within the timeout")
				rec.mu.Unlock()
			}
		case "sleep":
			spin(time.Duration(st.N) * time.Microsecond)
		case "release":
			rec.mu.Lock()
			cur := rec.nGo - 1
			rec.mu.Unlock()
			if cur >= 0 && cur < len(released) && !released[cur] {
				released[cur] = true
				close(mock.release[cur])
			}
		}
	}
	if !closed {
		rec.add("eof")
		close(eofCh)
	}
	returned := true
	select {
	case <-runDone:
	case <-time.After(waitTimeout):
		returned = false
	}
	pr.Close() // unblocks the feeder if the reader goroutine left lines unread (after quit)
	pw.Close()
	if closed {
		select {
		case <-eofCh:
		default:
			close(eofCh) // quit case: let the feeder end
		}
	}
	<-feedDone
	rec.mu.Lock()
	if !returned {
		rec.setFail("run_not_returned", "Run did not return within the timeout after quit/EOF")
	}
	rec.mu.Unlock()
	leak := 0
	if returned {
		deadline := time.Now().Add(2 * time.Second)
		for {
			leak = runtime.NumGoroutine() - base
			if leak <= 0 || time.Now().After(deadline) {
				break
			}
			time.Sleep(50 * time.Microsecond)
		}
	}
	rec.mu.Lock()
	defer rec.mu.Unlock()
	if leak > 0 {
		rec.setFail("goroutine_leak", fmt.Sprintf("%d goroutines left after Run returned", leak))
	}
	checkTrace(rec, sentReady)
	if errBuf.Len() > 0 {
		rec.hist = append(rec.hist, "stderr_nonempty")
	}
	return Res{ID: sp.ID, Trace: strings.Join(rec.toks, " "), Fail: rec.fail, Detail: rec.detail, Hist: rec.hist, Async: rec.async}
}

// checkTrace asserts the property on the recorded trace (independent of the Lean model).
func checkTrace(r *recorder, sentReady int) {
	busy := false
	pend := 0
	nReady := 0
	infosThis := 0
	afterEnd := false
	for i, t := range r.toks {
		switch {
		case strings.HasPrefix(t, "i:go"):
			busy = true
			infosThis = 0
			afterEnd = false
		case t == "i:isready":
			pend++
			if busy {
				r.hist = append(r.hist, "isready_while_busy")
			}
		case t == "sdone" || t == "sstop":
			afterEnd = true
			r.hist = append(r.hist, t)
		case t == "o:readyok":
			nReady++
			if pend == 0 {
				r.setFail("readyok_without_isready", fmt.Sprintf("event %d", i))
			} else {
				pend--
			}
			if busy {
				r.hist = append(r.hist, "readyok_before_bestmove")
				if afterEnd {
					r.hist = append(r.hist, "readyok_between_search_end_and_bestmove")
				}
			}
		case t == "o:info":
			infosThis++
			if !busy {
				r.setFail("info_after_bestmove", fmt.Sprintf("event %d: info line outside go..bestmove", i))
			}
		case t == "o:bestmove":
			if !busy {
				r.setFail("bestmove_without_go", fmt.Sprintf("event %d: second bestmove for one go", i))
			}
			busy = false
		case t == "ret":
			if i != len(r.toks)-1 {
				r.setFail("output_after_return", fmt.Sprintf("event %d", i))
			}
		}
	}
	_ = infosThis
	if r.fail == "" || !strings.HasPrefix(r.fail, "timeout") {
		if busy {
			r.setFail("go_unanswered", "Run returned with a go not answered by bestmove")
		}
		if nReady != sentReady {
			r.setFail("readyok_count", fmt.Sprintf("%d isready written before quit/EOF, %d readyok", sentReady, nReady))
		}
	}
}

func childMain() {
	real := search.New(64 * 1024)
	in := bufio.NewReaderSize(os.Stdin, 1<<20)
	out := bufio.NewWriter(os.Stdout)
	for {
		line, err := in.ReadBytes('\n')
		if len(line) > 0 {
			var sp Spec
			if e := json.Unmarshal(line, &sp); e != nil {
				fmt.Fprintln(os.Stderr, "child: bad spec:", e)
				os.Exit(3)
			}
			res := runSpec(&sp, real)
			buf, _ := json.Marshal(res)
			out.Write(buf)
			out.WriteByte('\n')
			out.Flush()
			if res.Fail == "run_not_returned" || res.Fail == "goroutine_leak" || strings.HasPrefix(res.Fail, "timeout") {
				os.Exit(67) // poisoned process: let the parent restart us
			}
		}
		if err != nil {
			return
		}
	}
}

// ---------------------------------------------------------------------------------------------
// parent

type childOutcome struct {
	results []Res
	died    []diedT
}
type diedT struct {
	spec   *Spec
	code   int
	stderr string
}

func runChild(self string, specs []*Spec) childOutcome {
	var oc childOutcome
	for len(specs) > 0 {
		cmd := exec.Command(self, "-child")
		cmd.Env = append(os.Environ(), "GORACE=halt_on_error=1 exitcode=66")
		stdin, _ := cmd.StdinPipe()
		stdout, _ := cmd.StdoutPipe()
		var errb bytes.Buffer
		cmd.Stderr = &errb
		if err := cmd.Start(); err != nil {
			panic(err)
		}
		go func(sp []*Spec) {
			w := bufio.NewWriter(stdin)
			for _, s := range sp {
				buf, _ := json.Marshal(s)
				w.Write(buf)
				w.WriteByte('\n')
			}
			w.Flush()
			stdin.Close()
		}(specs)
		rd := bufio.NewReaderSize(stdout, 1<<20)
		n := 0
		for {
			line, err := rd.ReadBytes('\n')
			if len(line) > 1 {
				var r Res
				if json.Unmarshal(line, &r) == nil {
					oc.results = append(oc.results, r)
					n++
				}
			}
			if err != nil {
				break
			}
		}
		err := cmd.Wait()
		if n >= len(specs) && err == nil {
			break
		}
		code := -1
		if ee, ok := err.(*exec.ExitError); ok {
			code = ee.ExitCode()
		}
		if code == 67 { // poisoned after a reported failure: restart on the rest
			specs = specs[n:]
			continue
		}
		if n < len(specs) {
			oc.died = append(oc.died, diedT{spec: specs[n], code: code, stderr: tail(errb.String(), 3000)})
			specs = specs[n+1:]
		} else {
			break
		}
	}
	return oc
}

func tail(s string, n int) string {
	if len(s) > n {
		return s[:n]
	}
	return s
}

func main() {
	child := false
	for _, a := range os.Args[1:] {
		if a == "-child" {
			child = true
		}
	}
	if child {
		childMain()
		return
	}
	workers := flag.Int("workers", 6, "parallel child processes")
	scripts := flag.Int("scripts", 0, "override the number of scripts")
	ctx := common.Parse()
	res := common.NewResult(ctx, "uci", "C13")
	res.Rule = "a run in which stop/isready/ponderhit/quit/EOF was written while a bestmove was outstanding (distinct recorded traces)"
	nScripts := ctx.Pick(300, 12000) // x 8 timings; 20 000 scripts measured 731 s idle, 972 s at load 90
	if *scripts > 0 {
		nScripts = *scripts
	}
	var specs []*Spec
	byID := map[int]*Spec{}
	for s := 0; s < nScripts; s++ {
		sk := genSkeleton(ctx.Rng)
		for t := 0; t < 8; t++ {
			sp := sk.build(len(specs), s, t)
			specs = append(specs, &sp)
			byID[sp.ID] = &sp
		}
	}
	self, err := os.Executable()
	if err != nil {
		panic(err)
	}
	// contiguous chunks keep the 8 timings of a script in one child
	per := (len(specs) + *workers - 1) / *workers
	outcomes := make([]childOutcome, *workers)
	var wg sync.WaitGroup
	for w := 0; w < *workers; w++ {
		lo, hi := w*per, min((w+1)*per, len(specs))
		if lo >= hi {
			continue
		}
		wg.Add(1)
		go func(w int, part []*Spec) {
			defer wg.Done()
			outcomes[w] = runChild(self, part)
		}(w, specs[lo:hi])
	}
	wg.Wait()

	var all []Res
	for _, oc := range outcomes {
		all = append(all, oc.results...)
		for _, dd := range oc.died {
			kind := "crash"
			switch {
			case strings.Contains(dd.stderr, "DATA RACE"):
				kind = "data_race"
			case strings.Contains(dd.stderr, "all goroutines are asleep"):
				kind = "deadlock"
			case strings.Contains(dd.stderr, "panic:"):
				kind = "panic"
			}
			res.Count("child_died_"+kind, 1)
			res.Fail(common.Mismatch{Property: "C13", Kind: "failing-input", Ops: dd.spec.ops(),
				Impl: fmt.Sprintf("%s (exit %d): %s", kind, dd.code, dd.stderr), Model: "no panic / race / deadlock"})
		}
	}
	// Lean acceptor, in parallel
	nm := 4
	answers := make([]string, len(all))
	if ctx.Driver != "" {
		var mw sync.WaitGroup
		chunk := (len(all) + nm - 1) / nm
		for m := 0; m < nm; m++ {
			lo, hi := m*chunk, min((m+1)*chunk, len(all))
			if lo >= hi {
				continue
			}
			mw.Add(1)
			go func(lo, hi int) {
				defer mw.Done()
				mdl := common.StartModel(ctx.Driver)
				defer mdl.Close()
				reqs := make([]string, 0, hi-lo)
				for _, r := range all[lo:hi] {
					reqs = append(reqs, byID[r.ID].Mode+" "+r.Trace)
				}
				copy(answers[lo:hi], mdl.Batch(reqs))
			}(lo, hi)
		}
		mw.Wait()
	}
	for i, r := range all {
		sp := byID[r.ID]
		res.Evaluations++
		res.Count("mode_"+sp.Mode, 1)
		res.Count(fmt.Sprintf("probe_%s@t%d", sp.Probe, sp.Timing), 1)
		res.Count("term_"+sp.Term, 1)
		seen := map[string]bool{}
		for _, h := range r.Hist {
			if !seen[h] {
				seen[h] = true
				res.Count("runs_with_"+h, 1)
			}
		}
		if r.Async {
			res.Nontrivial(sp.Mode + " " + r.Trace)
		}
		res.Sample(map[string]any{"ops": sp.ops(), "trace": r.Trace, "model": answers[i]}, 6)
		if r.Fail != "" {
			res.Count("impl_fail_"+r.Fail, 1)
			res.Fail(common.Mismatch{Property: "C13", Kind: "failing-input", Ops: sp.ops(),
				Impl: r.Fail + ": " + r.Detail + " | trace: " + r.Trace, Model: answers[i]})
			continue
		}
		if ctx.Driver == "" {
			continue
		}
		a := answers[i]
		switch {
		case strings.HasPrefix(a, "accept") && strings.HasSuffix(a, "props=ok"):
			res.TracesValidated++
		case strings.HasPrefix(a, "accept"):
			res.Count("lean_props_violated", 1)
			res.Fail(common.Mismatch{Property: "C13", Kind: "failing-input", Ops: sp.ops(), Impl: r.Trace, Model: a,
				Note: "trace accepted by the model but a trace property fails (Lean check)"})
		default:
			res.Count("model_reject", 1)
			res.Fail(common.Mismatch{Property: "C13", Kind: "broken-correspondence", Ops: sp.ops(), Impl: r.Trace, Model: a,
				Note: "the recorded trace is not a trace of Spec/UciProtocol"})
		}
	}
	res.Notes = append(res.Notes,
		fmt.Sprintf("%d scripts x 8 timings; race detector on; children=%d", nScripts, *workers))
	res.Write(ctx)
}
