// Command tt is the correspondence harness of property C15 (transposition table).
//
// It drives the real transp.Table (built from the repository with -tags verif) and the compiled
// Lean model (drv_tt) with the same operation sequences and compares every answer; independently of
// the model it checks the property itself in Go against a plain reference map
// (bucket, signature) -> last effective store, so that a disagreement can be classified.
package main

import (
	"encoding/binary"
	"fmt"
	"hash/fnv"
	"math/rand/v2"
	"os"
	"strconv"
	"strings"

	"verifharness/common"

	"github.com/paulsonkoly/chess-3/board"
	. "github.com/paulsonkoly/chess-3/chess"
	"github.com/paulsonkoly/chess-3/move"
	"github.com/paulsonkoly/chess-3/transp"
)

const prop = "C15"

// ---------------------------------------------------------------------------------------------
// operations

type opKind int

const (
	opNew opKind = iota // Resize(size)+Clear()  (fresh: transp.New(size))
	opClr
	opIns
	opGet
)

type op struct {
	kind  opKind
	size  int
	fresh bool
	hash  uint64
	gen   uint8
	d     int8
	ply   int8
	mv    uint16
	val   int16
	typ   uint8
}

func (o op) line() string {
	switch o.kind {
	case opNew:
		return fmt.Sprintf("new %d", o.size)
	case opClr:
		return "clr"
	case opIns:
		return fmt.Sprintf("ins %d %d %d %d %d %d %d", o.hash, o.gen, o.d, o.ply, o.mv, o.val, o.typ)
	default:
		return fmt.Sprintf("get %d %d", o.hash, o.ply)
	}
}

func parseOp(line string) (op, bool) {
	f := strings.Fields(line)
	if len(f) == 0 {
		return op{}, false
	}
	u := func(s string) uint64 { v, _ := strconv.ParseUint(s, 10, 64); return v }
	i := func(s string) int64 { v, _ := strconv.ParseInt(s, 10, 64); return v }
	switch {
	case f[0] == "new" && len(f) == 2:
		return op{kind: opNew, size: int(u(f[1]))}, true
	case f[0] == "clr":
		return op{kind: opClr}, true
	case f[0] == "ins" && len(f) == 8:
		return op{kind: opIns, hash: u(f[1]), gen: uint8(u(f[2])), d: int8(i(f[3])), ply: int8(i(f[4])),
			mv: uint16(u(f[5])), val: int16(i(f[6])), typ: uint8(u(f[7]))}, true
	case f[0] == "get" && len(f) == 3:
		return op{kind: opGet, hash: u(f[1]), ply: int8(i(f[2]))}, true
	}
	return op{}, false
}

// ---------------------------------------------------------------------------------------------
// the real implementation behind the line protocol

type impl struct{ t *transp.Table }

func (im *impl) get(hash uint64, ply int8) (res string) {
	defer func() {
		if recover() != nil {
			res = "panic"
		}
	}()
	e, ok := im.t.LookUp(board.Hash(hash))
	if !ok {
		return "miss"
	}
	return fmt.Sprintf("hit %d %d %d %d", e.Depth(), e.Type(), e.Value(Depth(ply)), uint16(e.Move))
}

func (im *impl) dump(ix int) (res string) {
	defer func() {
		if recover() != nil {
			res = "panic"
		}
	}()
	pk, es := im.t.VerifBucket(ix)
	var sb strings.Builder
	fmt.Fprintf(&sb, "%d", pk)
	for _, e := range es {
		fmt.Fprintf(&sb, " %d %d %d %d", uint16(e.Move), e.Value, e.Packed, uint8(e.Gen))
	}
	return sb.String()
}

func (im *impl) exec(o op) (res string) {
	defer func() {
		if recover() != nil {
			res = "panic"
		}
	}()
	switch o.kind {
	case opNew:
		if o.fresh || im.t == nil {
			im.t = transp.New(o.size)
		} else {
			im.t.Resize(o.size)
			im.t.Clear()
		}
		return fmt.Sprintf("ok %d", im.t.VerifBuckets())
	case opClr:
		im.t.Clear()
		return "ok"
	case opIns:
		im.t.Insert(board.Hash(o.hash), transp.Gen(o.gen), Depth(o.d), Depth(o.ply), move.Move(o.mv), Score(o.val), transp.Type(o.typ))
		return "ok"
	default:
		return im.get(o.hash, o.ply)
	}
}

// ---------------------------------------------------------------------------------------------
// independent reference: the property itself, checked in Go

const (
	tMate = int(Inf) - MaxPlies // scores strictly beyond ±tMate are mate distances
)

// refBucketIx is the bucket of hash in a table of n buckets (floor(h32 * n / 2^32)).
func refBucketIx(hash uint64, n int) int {
	h := hash & 0xffffffff
	// n < 2^32 for every table this harness builds: the product fits 64 bits
	return int(h * uint64(n) / (1 << 32))
}

func refSig(hash uint64) uint16 { return uint16(hash >> 48) }

type bk struct {
	b int
	s uint16
}

type rec struct {
	d    int8
	typ  uint8
	v    int16
	ply  int8
	mv   uint16
	gen  uint8
	hash uint64 // a representative full hash of the key
}

// expect is the probe answer the property prescribes for r at ply q ("" if out of the int16 range).
func (r rec) expect(q int8) string {
	v := int(r.v)
	switch {
	case v > tMate:
		v = v + int(r.ply) - int(q)
	case v < -tMate:
		v = v - int(r.ply) + int(q)
	}
	if v < -32768 || v > 32767 {
		return ""
	}
	return fmt.Sprintf("hit %d %d %d %d", r.d, r.typ, v, r.mv)
}

func (r rec) isZeroEntry() bool { return r.d == 0 && r.typ == 0 && r.v == 0 && r.mv == 0 }

type ref struct {
	n int
	m map[bk]rec
}

type violation struct {
	clause string
	at     int
	detail string
}

// inDomain: the quantifier of the property (depth, ply 0..63, three bound types) plus the score range
// on which no int16 arithmetic can wrap.
func inDomain(o op) bool {
	if o.kind != opIns {
		return o.kind != opGet || (o.ply >= 0 && o.ply <= 63)
	}
	return o.d >= 0 && o.d <= 63 && o.ply >= 0 && o.ply <= 63 && o.typ <= 2 && o.val >= -32640 && o.val <= 32640
}

// checker runs ops on a real table and checks the property clauses against the reference map.
type checker struct {
	off   bool // reference check disabled (out-of-domain sequences: correspondence only)
	im    impl
	rf    ref
	viol  []violation
	stats func(string)
	nt    func(branch string, o op, pre string)
}

func (c *checker) flag(clause string, at int, format string, a ...any) {
	if len(c.viol) < 4 {
		c.viol = append(c.viol, violation{clause, at, fmt.Sprintf(format, a...)})
	}
}

// probeState classifies key k against the real table: "ok" (reachable with the recorded data),
// "gone" (miss, or for signature 0 the empty entry), "bad" (hit with other data).
func (c *checker) probeState(k bk, r rec) (string, string) {
	q := r.ply
	got := c.im.get(r.hash, q)
	want := r.expect(q)
	if got == want {
		return "ok", got
	}
	if got == "miss" {
		return "gone", got
	}
	if k.s == 0 && got == "hit 0 0 0 0" {
		return "gone", got // the phantom of signature 0
	}
	return "bad", got
}

func (c *checker) step(i int, o op) string {
	if c.off {
		return c.im.exec(o)
	}
	res := ""
	switch o.kind {
	case opNew:
		res = c.im.exec(o)
		c.rf = ref{n: 0, m: map[bk]rec{}}
		if res != "panic" {
			c.rf.n = c.im.t.VerifBuckets()
			if c.rf.n != o.size/32 {
				c.flag("resize", i, "buckets %d for size %d", c.rf.n, o.size)
			}
		}
	case opClr:
		res = c.im.exec(o)
		c.rf.m = map[bk]rec{}
	case opGet:
		res = c.im.exec(o)
		if c.rf.n == 0 || !inDomain(o) {
			break
		}
		k := bk{refBucketIx(o.hash, c.rf.n), refSig(o.hash)}
		r, present := c.rf.m[k]
		switch {
		case res == "miss":
			if c.stats != nil {
				c.stats("probe:miss")
			}
			if present {
				c.flag("probe_hit_is_last_store", i, "key %v stored and never evicted by a store, but probe misses", k)
			}
		case present:
			want := r.expect(o.ply)
			if c.stats != nil {
				c.stats("probe:hit")
				if int(r.v) > tMate || int(r.v) < -tMate {
					c.stats("probe:hit-mate")
					if o.ply != r.ply && c.nt != nil {
						c.nt("probe-mate-rebased", o, fmt.Sprint(r))
					}
				}
			}
			if want != "" && res != want {
				if k.s == 0 && res == "hit 0 0 0 0" {
					break // cannot happen (evictions are detected at the store) but is excluded anyway
				}
				c.flag("probe_hit_is_last_store", i, "key %v: got %q want %q", k, res, want)
			}
		default: // hit without a record
			if k.s != 0 {
				c.flag("no_phantom", i, "key %v never stored since the last clear, probe says %q", k, res)
			} else if c.stats != nil {
				c.stats("probe:sig0-phantom")
			}
		}
	case opIns:
		if c.rf.n == 0 || !inDomain(o) {
			res = c.im.exec(o)
			break
		}
		k := bk{refBucketIx(o.hash, c.rf.n), refSig(o.hash)}
		if ix := c.im.t.VerifBucketIx(board.Hash(o.hash)); ix != k.b || ix < 0 || ix >= c.rf.n {
			c.flag("bucketIx", i, "bucketIx %d, reference %d of %d", ix, k.b, c.rf.n)
		}
		pre := ""
		if c.nt != nil {
			pre = c.im.dump(k.b)
		}
		old, present := c.rf.m[k]
		res = c.im.exec(o)
		keep := present && o.typ != uint8(transp.Exact) && int(old.d) > int(o.d)+2 && old.gen == o.gen
		branch := ""
		if keep {
			branch = "ins:keep-deeper"
		} else {
			nr := rec{d: o.d, typ: o.typ, v: o.val, ply: o.ply, mv: o.mv, gen: o.gen, hash: o.hash}
			if o.mv == 0 && present {
				nr.mv = old.mv
				if old.mv != 0 {
					branch = "ins:keep-move"
				}
			}
			if branch == "" {
				if present {
					branch = "ins:overwrite"
				} else {
					branch = "ins:new-key"
				}
			}
			c.rf.m[k] = nr
		}
		// every key of the bucket: unchanged, or (at most one, never after a kept store) gone
		gone := 0
		for k2, r2 := range c.rf.m {
			if k2.b != k.b {
				continue
			}
			st, got := c.probeState(k2, r2)
			switch {
			case k2 == k && st != "ok":
				if !keep {
					c.flag("probe_after_store", i, "key %v: probe right after the store says %q, want %q", k, got, r2.expect(r2.ply))
				} else {
					c.flag("probe_after_store", i, "key %v: kept entry changed: %q, want %q", k, got, r2.expect(r2.ply))
				}
			case st == "gone":
				gone++
				delete(c.rf.m, k2)
			case st == "bad":
				c.flag("probe_hit_is_last_store", i, "key %v changed by a store to %v: %q, want %q", k2, k, got, r2.expect(r2.ply))
			}
		}
		if gone > 1 || (gone > 0 && (keep || present)) {
			c.flag("store_evicts_at_most_one", i, "store to %v (present=%v keep=%v) made %d other keys unreachable", k, present, keep, gone)
		}
		if gone > 0 {
			branch += "+evict"
		}
		if k.s == 0 {
			branch += "+sig0"
		}
		if c.stats != nil {
			c.stats(branch)
		}
		if c.nt != nil && branch != "ins:new-key" && branch != "ins:overwrite" {
			c.nt(branch, o, pre)
		}
	}
	return res
}

// violates re-runs ops on a fresh table and reports whether any clause is violated.
func violates(ops []op) []violation {
	c := &checker{}
	for i, o := range ops {
		c.step(i, o)
		if len(c.viol) > 0 {
			return c.viol
		}
	}
	return nil
}

// shrink greedily removes operations while the property violation persists (on the real code).
func shrink(ops []op) []op {
	cur := append([]op(nil), ops...)
	budget := 4000
	for chunk := len(cur) / 2; chunk >= 1; chunk /= 2 {
		for i := 1; i+chunk <= len(cur) && budget > 0; {
			cand := append(append([]op(nil), cur[:i]...), cur[i+chunk:]...)
			budget--
			if violates(cand) != nil {
				cur = cand
			} else {
				i += chunk
			}
		}
	}
	// cut everything after the first violation
	c := &checker{}
	for i, o := range cur {
		c.step(i, o)
		if len(c.viol) > 0 {
			return cur[:i+1]
		}
	}
	return cur
}

func lines(ops []op) []string {
	out := make([]string, len(ops))
	for i, o := range ops {
		out[i] = o.line()
	}
	return out
}

// ---------------------------------------------------------------------------------------------
// generators

var sizes = []int{32, 64, 96, 128, 256, 1024, 4096, 1 << 20}

func pickSize(r *rand.Rand) int {
	switch x := r.IntN(100); {
	case x < 18:
		return 32
	case x < 34:
		return 64
	case x < 44:
		return 96
	case x < 54:
		return 128
	case x < 62:
		return 256
	case x < 70:
		return 1024
	case x < 80:
		return 4096
	case x < 88:
		return 1 << 20
	default:
		return 32 * (1 + r.IntN(128))
	}
}

var sigAlphabet = []uint16{0, 1, 2, 0x7fff, 0x8000, 0x8001, 0xfffe, 0xffff}

// lowFor returns 32 low hash bits that Lemire-map to bucket b of n (lowest, highest or a random one).
func lowFor(r *rand.Rand, b, n int) uint64 {
	lo := (uint64(b)<<32 + uint64(n) - 1) / uint64(n)
	hi := (uint64(b+1)<<32+uint64(n)-1)/uint64(n) - 1
	switch r.IntN(4) {
	case 0:
		return lo
	case 1:
		return hi
	default:
		return lo + r.Uint64N(hi-lo+1)
	}
}

type keyFam struct {
	n       int
	buckets []int
	sigs    []uint16
}

func newFam(r *rand.Rand, n int) keyFam {
	f := keyFam{n: n}
	nb := 1 + r.IntN(3)
	for i := 0; i < nb; i++ {
		switch r.IntN(4) {
		case 0:
			f.buckets = append(f.buckets, 0)
		case 1:
			f.buckets = append(f.buckets, n-1)
		default:
			f.buckets = append(f.buckets, r.IntN(n))
		}
	}
	ns := 2 + r.IntN(6)
	base := uint16(r.Uint32())
	for i := 0; i < ns; i++ {
		switch r.IntN(6) {
		case 0, 1:
			f.sigs = append(f.sigs, sigAlphabet[r.IntN(len(sigAlphabet))])
		case 2:
			f.sigs = append(f.sigs, base+uint16(r.IntN(3)))
		case 3:
			f.sigs = append(f.sigs, base^0x8000)
		case 4:
			f.sigs = append(f.sigs, base^(1<<r.IntN(16)))
		default:
			f.sigs = append(f.sigs, uint16(r.Uint32()))
		}
	}
	return f
}

func (f keyFam) hash(r *rand.Rand) uint64 {
	b := f.buckets[r.IntN(len(f.buckets))]
	s := f.sigs[r.IntN(len(f.sigs))]
	mid := uint64(0)
	if r.IntN(2) == 0 {
		mid = uint64(r.IntN(1<<16)) << 32
	}
	return uint64(s)<<48 | mid | lowFor(r, b, f.n)
}

func genVal(r *rand.Rand, wild bool) int16 {
	sgn := 1
	if r.IntN(2) == 0 {
		sgn = -1
	}
	inf := int(Inf)
	switch x := r.IntN(100); {
	case x < 28:
		return int16(r.IntN(4001) - 2000)
	case x < 43:
		return int16(sgn * (tMate + r.IntN(7) - 3))
	case x < 63:
		return int16(sgn * (tMate + 1 + r.IntN(MaxPlies)))
	case x < 73:
		return int16(sgn * (inf - 64 + r.IntN(129)))
	case x < 83:
		return int16(r.IntN(2*inf+1) - inf)
	case x < 88:
		return []int16{int16(Inv), -int16(Inv), int16(inf + 1), int16(-inf - 1), int16(inf), int16(-inf), 0}[r.IntN(7)]
	default:
		if wild {
			return []int16{-32768, 32767, -32767, int16(r.Uint32()), int16(r.Uint32()), int16(32767 - r.IntN(130)), int16(-32768 + r.IntN(130))}[r.IntN(7)]
		}
		return int16(r.IntN(2*32640+1) - 32640)
	}
}

func genDepth(r *rand.Rand, prev int8, wild bool) int8 {
	if wild && r.IntN(3) == 0 {
		return int8(r.Uint32())
	}
	switch r.IntN(6) {
	case 0:
		return int8(r.IntN(4))
	case 1:
		return int8(60 + r.IntN(4))
	case 2, 3:
		d := int(prev) + r.IntN(9) - 4
		if d < 0 {
			d = 0
		}
		if d > 63 {
			d = 63
		}
		return int8(d)
	default:
		return int8(r.IntN(64))
	}
}

func genPly(r *rand.Rand, wild bool) int8 {
	if wild && r.IntN(3) == 0 {
		return int8(r.Uint32())
	}
	switch r.IntN(5) {
	case 0:
		return 0
	case 1:
		return 63
	default:
		return int8(r.IntN(64))
	}
}

// genSeq generates one operation sequence (the first op is always `new`).
func genSeq(r *rand.Rand, nops int, wild bool) []op {
	size := pickSize(r)
	ops := []op{{kind: opNew, size: size, fresh: r.IntN(2) == 0}}
	n := size / 32
	fam := newFam(r, n)
	gen := uint8(r.Uint32())
	switch r.IntN(4) {
	case 0:
		gen = 0
	case 1:
		gen = uint8(250 + r.IntN(6))
	}
	var prevD int8
	for len(ops) < nops {
		switch x := r.IntN(1000); {
		case x < 8:
			size = pickSize(r)
			n = size / 32
			fam = newFam(r, n)
			ops = append(ops, op{kind: opNew, size: size, fresh: r.IntN(3) == 0})
		case x < 25:
			ops = append(ops, op{kind: opClr})
		case x < 60:
			gen++
		case x < 640:
			o := op{kind: opIns, hash: fam.hash(r), gen: gen, ply: genPly(r, wild), val: genVal(r, wild)}
			o.d = genDepth(r, prevD, wild)
			prevD = o.d
			o.typ = uint8(r.IntN(3))
			if wild && r.IntN(8) == 0 {
				o.typ = uint8(r.Uint32())
			}
			if r.IntN(100) >= 35 {
				o.mv = uint16(1 + r.IntN(65535))
			}
			switch r.IntN(20) {
			case 0:
				o.gen = gen - 1
			case 1:
				o.gen = gen + 1
			case 2:
				o.gen = uint8(r.Uint32())
			}
			// quiescence-like and all-zero records: depth 0, score 0, often no move, bound code 0 and
			// generation 0 — the stored entry then coincides (partly or wholly) with the zero value of
			// the entry struct, which an implementation may mistake for "free lane"
			if r.IntN(10) == 0 {
				o.d, o.val = 0, 0
				if r.IntN(2) == 0 {
					o.mv = 0
				}
				if r.IntN(2) == 0 {
					o.typ = 0
				}
				if r.IntN(2) == 0 {
					o.gen = 0
				}
			}
			ops = append(ops, o)
		default:
			ops = append(ops, op{kind: opGet, hash: fam.hash(r), ply: genPly(r, wild)})
		}
	}
	return ops
}

// ---------------------------------------------------------------------------------------------
// suites

type runner struct {
	ctx *common.Ctx
	res *common.Result
	mdl *common.Model
}

// ask sends lines (+ a final sync) to the model and returns the answers to lines.
func (rn *runner) ask(ls []string) []string {
	all := append(append(make([]string, 0, len(ls)+1), ls...), "sync")
	out := rn.mdl.Batch(all)
	return out[:len(ls)]
}

func fnvKey(parts ...string) string {
	h := fnv.New64a()
	for _, p := range parts {
		h.Write([]byte(p))
		h.Write([]byte{0})
	}
	var b [8]byte
	binary.LittleEndian.PutUint64(b[:], h.Sum64())
	return string(b[:])
}

// runSeq runs one sequence on implementation + reference + model.
func (rn *runner) runSeq(ops []op, wild bool, rng *rand.Rand) {
	c := &checker{}
	c.stats = func(k string) { rn.res.Count(k, 1) }
	c.nt = func(branch string, o op, pre string) { rn.res.Nontrivial(fnvKey(branch, o.line(), pre)) }
	c.off = wild
	var req, implAns []string
	var opOf []int // request line -> op index
	add := func(i int, l, a string) {
		req = append(req, l)
		implAns = append(implAns, a)
		opOf = append(opOf, i)
	}
	touched := map[int]struct{}{}
	for i, o := range ops {
		a := c.step(i, o)
		add(i, o.line(), a)
		rn.res.Count("op:"+strings.Fields(o.line())[0], 1)
		if o.kind == opIns && o.d == 0 && o.val == 0 && o.mv == 0 && o.typ == 0 && o.gen == 0 {
			rn.res.Count("ins:all-zero-record", 1)
		} else if o.kind == opIns && o.d == 0 && o.val == 0 {
			rn.res.Count("ins:depth0-score0", 1)
		}
		nb := 0
		if c.im.t != nil {
			nb = c.im.t.VerifBuckets()
		}
		switch o.kind {
		case opNew, opClr:
			if o.kind == opNew {
				touched = map[int]struct{}{}
			}
			if nb > 0 {
				ix := rng.IntN(nb)
				add(i, fmt.Sprintf("dump %d", ix), c.im.dump(ix))
			}
		case opIns:
			if nb == 0 {
				break
			}
			// the answer to a probe of the stored key, at an unrelated ply
			q := genPly(rng, wild)
			add(i, fmt.Sprintf("get %d %d", o.hash, q), c.im.get(o.hash, q))
			ix := refBucketIx(o.hash, nb)
			touched[ix] = struct{}{}
			if rng.IntN(4) == 0 {
				add(i, fmt.Sprintf("dump %d", ix), c.im.dump(ix))
			}
		}
		if (i+1)%50 == 0 && nb > 0 {
			if nb <= 128 {
				for ix := 0; ix < nb; ix++ {
					add(i, fmt.Sprintf("dump %d", ix), c.im.dump(ix))
				}
			} else {
				for ix := range touched {
					add(i, fmt.Sprintf("dump %d", ix), c.im.dump(ix))
				}
				ix := rng.IntN(nb)
				add(i, fmt.Sprintf("dump %d", ix), c.im.dump(ix))
			}
			rn.res.Count("full-dump-compare", 1)
		}
	}
	modelAns := rn.ask(req)
	rn.res.Evaluations += len(req)

	propViol := c.viol
	firstDiff := -1
	for j := range req {
		if modelAns[j] != implAns[j] {
			firstDiff = j
			break
		}
	}
	if firstDiff < 0 && len(propViol) == 0 {
		return
	}
	if len(propViol) > 0 {
		min := shrink(ops)
		v := violates(min)
		note := ""
		if len(v) > 0 {
			note = v[0].clause + ": " + v[0].detail
		} else {
			note = propViol[0].clause + ": " + propViol[0].detail + " (not reproduced after shrinking)"
			min = ops[:propViol[0].at+1]
		}
		m := common.Mismatch{Property: prop, Kind: "failing-input", Ops: lines(min), Note: note, Spec: "Go reference map (bucket,signature) -> last effective store"}
		if firstDiff >= 0 {
			m.Impl, m.Model = req[firstDiff]+" => "+implAns[firstDiff], modelAns[firstDiff]
		} else {
			m.Note += " [model agrees with the implementation]"
		}
		rn.res.Fail(m)
		return
	}
	upto := opOf[firstDiff]
	rn.res.Fail(common.Mismatch{Property: prop, Kind: "broken-correspondence", Ops: append(lines(ops[:upto+1]), req[firstDiff]),
		Impl: implAns[firstDiff], Model: modelAns[firstDiff],
		Note: "implementation and Lean model differ; the Go reference check of the property found no violation on this sequence"})
}

func naiveMatch(w uint64, key uint16) int {
	for i := 0; i < 4; i++ {
		if uint16(w>>(16*i)) == key {
			return i
		}
	}
	return -1
}

func (rn *runner) match64Suite() {
	r := rn.ctx.Rng
	keys := []uint16{0, 1, 2, 0x7fff, 0x8000, 0x8001, 0xfffe, 0xffff, 0x00ff, 0xff00, 0x0100, 0x5555}
	extra := rn.ctx.Pick(6, 300)
	for i := 0; i < extra; i++ {
		keys = append(keys, uint16(r.Uint32()))
	}
	type cas struct {
		w   uint64
		key uint16
	}
	var cases []cas
	for _, key := range keys {
		al := []uint16{0, 1, 0x7fff, 0x8000, 0xffff, key, key + 1, key - 1}
		for a := 0; a < 8; a++ {
			for b := 0; b < 8; b++ {
				for c := 0; c < 8; c++ {
					for d := 0; d < 8; d++ {
						w := uint64(al[a]) | uint64(al[b])<<16 | uint64(al[c])<<32 | uint64(al[d])<<48
						cases = append(cases, cas{w, key})
					}
				}
			}
		}
	}
	for i := 0; i < rn.ctx.Pick(20000, 400000); i++ {
		w := r.Uint64()
		key := uint16(r.Uint32())
		switch r.IntN(4) {
		case 0:
			key = uint16(w >> (16 * r.IntN(4)))
		case 1:
			key = uint16(w>>(16*r.IntN(4))) ^ 1<<r.IntN(16)
		}
		cases = append(cases, cas{w, key})
	}
	for start := 0; start < len(cases); start += 50000 {
		end := min(start+50000, len(cases))
		req := make([]string, 0, end-start)
		for _, c := range cases[start:end] {
			req = append(req, fmt.Sprintf("m64 %d %d", c.w, c.key))
		}
		ans := rn.ask(req)
		for j, c := range cases[start:end] {
			ix, ok := transp.VerifMatch64(c.w, c.key)
			im := -1
			if ok {
				im = ix
			}
			nv := naiveMatch(c.w, c.key)
			rn.res.Evaluations++
			rn.res.Count("m64", 1)
			if nv > 0 {
				// a match above lane 0: the lanes below must not produce a (borrow) false positive
				rn.res.Nontrivial(fnvKey("m64", req[j]))
			}
			if strconv.Itoa(im) != ans[j] || im != nv {
				kind := "broken-correspondence"
				if im != nv {
					kind = "failing-input"
				}
				rn.res.Fail(common.Mismatch{Property: prop, Kind: kind, Ops: []string{req[j]}, Impl: strconv.Itoa(im), Model: ans[j],
					Spec: strconv.Itoa(nv), Note: "match64 vs Lean model vs naive lane scan (match64_spec)"})
			}
		}
	}
}

func (rn *runner) smallFuncSuite() {
	r := rn.ctx.Rng
	// quality
	var req []string
	var want []string
	for i := 0; i < rn.ctx.Pick(20000, 300000); i++ {
		curr, g, d := uint8(r.Uint32()), uint8(r.Uint32()), int8(r.Uint32())
		if i%3 == 0 {
			curr, g = []uint8{0, 1, 127, 128, 254, 255}[r.IntN(6)], []uint8{0, 1, 127, 128, 254, 255}[r.IntN(6)]
		}
		req = append(req, fmt.Sprintf("qual %d %d %d", curr, g, d))
		want = append(want, strconv.Itoa(transp.VerifQuality(transp.Gen(curr), transp.Gen(g), Depth(d))))
	}
	// bucketIx on real tables of several sizes
	for _, size := range []int{32, 64, 96, 128, 160, 1024, 4096, 32 * 1000, 1 << 20, 3 << 20, 16 << 20} {
		t := transp.New(size)
		n := t.VerifBuckets()
		for i := 0; i < rn.ctx.Pick(500, 10000); i++ {
			h := r.Uint64()
			switch i % 5 {
			case 0:
				h = h&^0xffffffff | 0xffffffff
			case 1:
				h = h &^ 0xffffffff
			case 2:
				h = h&^0xffffffff | lowFor(r, r.IntN(n), n)
			}
			ix := t.VerifBucketIx(board.Hash(h))
			req = append(req, fmt.Sprintf("bix %d %d", h, n))
			want = append(want, strconv.Itoa(ix))
			if ix < 0 || ix >= n || ix != refBucketIx(h, n) {
				rn.res.Fail(common.Mismatch{Property: prop, Kind: "failing-input", Ops: []string{req[len(req)-1]}, Impl: strconv.Itoa(ix),
					Spec: strconv.Itoa(refBucketIx(h, n)), Note: "bucketIx out of range or not floor(h32*n/2^32) (bucketIx_lt)"})
			}
		}
	}
	ans := rn.ask(req)
	for j := range req {
		rn.res.Evaluations++
		rn.res.Count(strings.Fields(req[j])[0], 1)
		if ans[j] != want[j] {
			rn.res.Fail(common.Mismatch{Property: prop, Kind: "broken-correspondence", Ops: []string{req[j]}, Impl: want[j], Model: ans[j]})
		}
	}
	// invalid sizes panic on both sides
	for _, size := range []int{0, 1, 31, 33, 48, 63, 100} {
		im := impl{}
		a := im.exec(op{kind: opNew, size: size, fresh: true})
		m := rn.ask([]string{fmt.Sprintf("new %d", size)})[0]
		rn.res.Evaluations++
		if a != m {
			rn.res.Fail(common.Mismatch{Property: prop, Kind: "broken-correspondence", Ops: []string{fmt.Sprintf("new %d", size)}, Impl: a, Model: m})
		}
	}
}

func (rn *runner) replay(path string) {
	data, err := os.ReadFile(path)
	if err != nil {
		fmt.Fprintln(os.Stderr, "tt: cannot read replay:", err)
		os.Exit(2)
	}
	var ops []op
	for _, l := range strings.Split(string(data), "\n") {
		if o, ok := parseOp(l); ok {
			ops = append(ops, o)
		}
	}
	rn.runSeq(ops, false, rn.ctx.Rng)
}

func main() {
	ctx := common.Parse()
	res := common.NewResult(ctx, "tt", prop)
	res.Rule = "store that meets a full bucket or a present key (eviction of another key, keep-deeper skip, inherited move, signature 0), " +
		"probe of a mate score at a ply different from the storing ply, match64 with the lowest matching lane above lane 0"
	if ctx.Driver == "" {
		ctx.Driver = "/verif/lean/.lake/build/bin/drv_tt"
	}
	rn := &runner{ctx: ctx, res: res, mdl: common.StartModel(ctx.Driver)}
	defer rn.mdl.Close()

	if ctx.Replay != "" {
		rn.replay(ctx.Replay)
		res.Write(ctx)
		return
	}

	rn.match64Suite()
	rn.smallFuncSuite()

	nseq := ctx.Pick(300, 30000)
	nops := 400
	for s := 0; s < nseq; s++ {
		wild := s%10 == 9
		ops := genSeq(ctx.Rng, nops, wild)
		if wild {
			res.Count("seq:wild(out-of-domain args, correspondence only)", 1)
		} else {
			res.Count("seq:in-domain", 1)
		}
		if s < 3 {
			res.Sample(lines(ops[:12]), 3)
		}
		rn.runSeq(ops, wild, ctx.Rng)
		if rn.mdl.Dead {
			res.Notes = append(res.Notes, "model driver died")
			break
		}
	}
	res.Notes = append(res.Notes,
		"every op is answered by the real transp.Table and by the Lean model; after each ins the stored key is probed at an unrelated ply; raw bucket dumps (VerifBucket) are compared after 1/4 of the stores and for all (touched) buckets every 50 ops",
		"the property clauses are checked in Go on the real table against a reference map (bucket,signature) -> last effective store on the in-domain sequences")
	res.Write(ctx)
}
