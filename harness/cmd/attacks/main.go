// Command attacks is the correspondence harness of property C12: it runs the real
// /repo/attacks functions and the compiled Lean driver (model | geometric spec) on the same inputs.
//
//	exhaustive: BishopMoves/RookMoves(sq, o) for every subset o of the relevant-occupancy mask of
//	            every square (107 648 pairs; the masks are recomputed here geometrically, the repo's
//	            are unexported), KingMoves/KnightMoves for all squares, InBetween[a][b] for all 4096
//	            pairs, the pawn formulas on 4 × 4096 structured bitboards + singletons, both colours;
//	random:     20 000 (quick) / 2 000 000 (thorough) full-board occupancies of mixed density (off-mask
//	            bits set) for a random square, bishop and rook each; random pawn bitboards.
//
// A value of the implementation that differs from the Lean *spec* (ray walk / coordinate geometry) is a
// "failing-input"; one that agrees with the spec but differs from the Lean *model* is a
// "broken-correspondence".
package main

import (
	"fmt"
	"math/bits"
	"os"
	"strconv"
	"strings"

	"github.com/paulsonkoly/chess-3/attacks"
	"github.com/paulsonkoly/chess-3/chess"

	"verifharness/common"
)

const chunk = 4096 // inputs per request line

func safe(f func() uint64) (v uint64, panicked bool) {
	defer func() {
		if r := recover(); r != nil {
			panicked = true
		}
	}()
	return f(), false
}

func hex(v uint64) string { return fmt.Sprintf("%016x", v) }

// relevant-occupancy masks, recomputed from geometry (ray squares without the far board edge)
func relMask(sq int, dirs [4][2]int) uint64 {
	var m uint64
	f0, r0 := sq%8, sq/8
	for _, d := range dirs {
		f, r := f0+d[0], r0+d[1]
		for f+d[0] >= 0 && f+d[0] <= 7 && r+d[1] >= 0 && r+d[1] <= 7 {
			m |= 1 << uint(r*8+f)
			f += d[0]
			r += d[1]
		}
	}
	return m
}

var bishopDirs = [4][2]int{{1, 1}, {-1, 1}, {1, -1}, {-1, -1}}
var rookDirs = [4][2]int{{0, 1}, {0, -1}, {1, 0}, {-1, 0}}

func subsets(mask uint64) []uint64 {
	out := make([]uint64, 0, 1<<uint(bits.OnesCount64(mask)))
	sub := uint64(0)
	for {
		out = append(out, sub)
		sub = (sub - mask) & mask
		if sub == 0 {
			break
		}
	}
	return out
}

// deposit spreads the low bits of p over the squares listed in sqs.
func deposit(p int, sqs []int) uint64 {
	var b uint64
	for i, s := range sqs {
		if p>>uint(i)&1 != 0 {
			b |= 1 << uint(s)
		}
	}
	return b
}

type runner struct {
	ctx   *common.Ctx
	res   *common.Result
	model *common.Model
}

// run sends the inputs xs of one (tag, a) group in chunks and compares implementation, model and spec.
func (r *runner) run(prop string, tag string, a int, xs []uint64, impl func(x uint64) uint64,
	post func(x, v uint64) uint64, nontrivial func(x, v uint64) bool) {
	for lo := 0; lo < len(xs); lo += chunk {
		hi := min(lo+chunk, len(xs))
		part := xs[lo:hi]
		var sb strings.Builder
		fmt.Fprintf(&sb, "%s %d", tag, a)
		for _, x := range part {
			sb.WriteByte(' ')
			sb.WriteString(hex(x))
		}
		ans := r.model.Ask(sb.String())
		halves := strings.Split(ans, " | ")
		if len(halves) != 2 {
			fmt.Fprintf(os.Stderr, "attacks harness: malformed driver answer to %q: %.80q\n", sb.String()[:min(40, sb.Len())], ans)
			os.Exit(3)
		}
		ms, ss := strings.Fields(halves[0]), strings.Fields(halves[1])
		if len(ms) != len(part) || len(ss) != len(part) {
			fmt.Fprintf(os.Stderr, "attacks harness: driver answered %d|%d values for %d inputs (%s %d)\n", len(ms), len(ss), len(part), tag, a)
			os.Exit(3)
		}
		for i, x := range part {
			v, panicked := safe(func() uint64 { return impl(x) })
			r.res.Evaluations++
			r.res.Count(tag, 1)
			implS, implSpecS := hex(v), hex(post(x, v))
			if panicked {
				implS, implSpecS = "panic", "panic"
			}
			if !panicked && nontrivial(x, v) {
				r.res.Nontrivial(fmt.Sprintf("%s%d:%x", tag, a, x))
			}
			op := fmt.Sprintf("%s %d %s", tag, a, hex(x))
			if r.res.Evaluations%9973 == 1 {
				r.res.Sample(map[string]string{"op": op, "impl": implS, "model": ms[i], "spec": ss[i]}, 12)
			}
			switch {
			case implSpecS != ss[i]:
				r.res.Fail(common.Mismatch{Property: prop, Kind: "failing-input", Ops: []string{op},
					Impl: implS, Model: ms[i], Spec: ss[i],
					Note: "implementation differs from the geometric specification (Spec/Geometry.lean) on this input"})
				r.res.Count("mismatch-spec", 1)
			case implS != ms[i]:
				r.res.Fail(common.Mismatch{Property: prop, Kind: "broken-correspondence", Ops: []string{op},
					Impl: implS, Model: ms[i], Spec: ss[i],
					Note: "implementation agrees with the specification but differs from the Lean model"})
				r.res.Count("mismatch-model", 1)
			}
		}
	}
}

func main() {
	ctx := common.Parse()
	res := common.NewResult(ctx, "attacks", "C12")
	res.Rule = "slider inputs whose attack set is cut short by a blocker (result differs from the empty-board result); " +
		"leaper/pawn/in-between inputs with a non-empty result"
	if ctx.Driver == "" {
		fmt.Fprintln(os.Stderr, "attacks harness: -driver is required")
		os.Exit(2)
	}
	m := common.StartModel(ctx.Driver)
	defer m.Close()
	r := &runner{ctx: ctx, res: res, model: m}
	id := func(_, v uint64) uint64 { return v }
	nonEmpty := func(_, v uint64) bool { return v != 0 }

	// --- leapers: all squares -------------------------------------------------------------------
	// (requests `king` / `knight` answer all 64 squares at once; reuse run with tag-only lines)
	for _, lk := range []struct {
		tag  string
		impl func(sq chess.Square) chess.BitBoard
	}{{"king", attacks.KingMoves}, {"knight", attacks.KnightMoves}} {
		ans := m.Ask(lk.tag)
		halves := strings.Split(ans, " | ")
		if len(halves) != 2 || len(strings.Fields(halves[0])) != 64 || len(strings.Fields(halves[1])) != 64 {
			fmt.Fprintf(os.Stderr, "attacks harness: malformed driver answer to %q\n", lk.tag)
			os.Exit(3)
		}
		ms, ss := strings.Fields(halves[0]), strings.Fields(halves[1])
		for sq := 0; sq < 64; sq++ {
			v, panicked := safe(func() uint64 { return uint64(lk.impl(chess.Square(sq))) })
			implS := hex(v)
			if panicked {
				implS = "panic"
			}
			res.Evaluations++
			res.Count(lk.tag, 1)
			if !panicked && v != 0 {
				res.Nontrivial(fmt.Sprintf("%s%d", lk.tag, sq))
			}
			op := fmt.Sprintf("%s %d", lk.tag, sq)
			switch {
			case implS != ss[sq]:
				res.Fail(common.Mismatch{Property: "C12", Kind: "failing-input", Ops: []string{op}, Impl: implS, Model: ms[sq], Spec: ss[sq],
					Note: "table entry differs from the coordinate definition"})
				res.Count("mismatch-spec", 1)
			case implS != ms[sq]:
				res.Fail(common.Mismatch{Property: "C12", Kind: "broken-correspondence", Ops: []string{op}, Impl: implS, Model: ms[sq], Spec: ss[sq]})
				res.Count("mismatch-model", 1)
			}
		}
	}

	// --- in-between: all 4096 pairs ---------------------------------------------------------------
	for a := 0; a < 64; a++ {
		// the driver answers `ib a` for b = 0..63 in order
		ans := m.Ask(fmt.Sprintf("ib %d", a))
		halves := strings.Split(ans, " | ")
		if len(halves) != 2 || len(strings.Fields(halves[0])) != 64 || len(strings.Fields(halves[1])) != 64 {
			fmt.Fprintf(os.Stderr, "attacks harness: malformed driver answer to ib %d\n", a)
			os.Exit(3)
		}
		ms, ss := strings.Fields(halves[0]), strings.Fields(halves[1])
		for b := 0; b < 64; b++ {
			v, panicked := safe(func() uint64 { return uint64(attacks.InBetween[a][b]) })
			implS, implSpecS := hex(v), hex(v&^(uint64(1)<<uint(a)|uint64(1)<<uint(b)))
			if panicked {
				implS, implSpecS = "panic", "panic"
			}
			res.Evaluations++
			res.Count("ib", 1)
			if !panicked && v&^(uint64(1)<<uint(a)|uint64(1)<<uint(b)) != 0 {
				res.Nontrivial(fmt.Sprintf("ib%d:%d", a, b))
			}
			op := fmt.Sprintf("ib %d %d", a, b)
			switch {
			case implSpecS != ss[b]:
				res.Fail(common.Mismatch{Property: "C12", Kind: "failing-input", Ops: []string{op}, Impl: implS, Model: ms[b], Spec: ss[b],
					Note: "InBetween[a][b] with both end squares masked off differs from the squares strictly between a and b"})
				res.Count("mismatch-spec", 1)
			case implS != ms[b]:
				res.Fail(common.Mismatch{Property: "C12", Kind: "broken-correspondence", Ops: []string{op}, Impl: implS, Model: ms[b], Spec: ss[b]})
				res.Count("mismatch-model", 1)
			}
		}
	}

	type slider struct {
		tag  string
		dirs [4][2]int
		impl func(chess.Square, chess.BitBoard) chess.BitBoard
	}
	sliders := []slider{{"b", bishopDirs, attacks.BishopMoves}, {"r", rookDirs, attacks.RookMoves}}

	// --- replay mode: the table sections above always run in full (they are tiny); slider and pawn
	// ops (`b|r <sq> <occ>`, `pc|pp <colour> <bb>`) of the replay file are re-run one by one ---------
	if ctx.Replay != "" {
		buf, err := os.ReadFile(ctx.Replay)
		if err != nil {
			fmt.Fprintf(os.Stderr, "attacks harness: %v\n", err)
			os.Exit(2)
		}
		for _, line := range strings.Split(string(buf), "\n") {
			f := strings.Fields(strings.Trim(line, "\", []"))
			if len(f) != 3 {
				continue
			}
			a, err1 := strconv.Atoi(f[1])
			x, err2 := strconv.ParseUint(f[2], 16, 64)
			if err1 != nil || err2 != nil {
				continue
			}
			switch f[0] {
			case "b", "r":
				if a < 0 || a > 63 {
					continue
				}
				for _, sl := range sliders {
					if sl.tag == f[0] {
						r.run("C12", sl.tag, a, []uint64{x},
							func(x uint64) uint64 { return uint64(sl.impl(chess.Square(a), chess.BitBoard(x))) }, id,
							func(_, _ uint64) bool { return true })
					}
				}
			case "pc":
				r.run("C12", "pc", a&1, []uint64{x},
					func(x uint64) uint64 { return uint64(attacks.PawnCaptureMoves(chess.BitBoard(x), chess.Color(a&1))) }, id, nonEmpty)
			case "pp":
				r.run("C12", "pp", a&1, []uint64{x},
					func(x uint64) uint64 { return uint64(attacks.PawnSinglePushMoves(chess.BitBoard(x), chess.Color(a&1))) }, id, nonEmpty)
			}
		}
		res.Notes = append(res.Notes, "replay mode: king/knight/InBetween tables in full + the slider/pawn ops of "+ctx.Replay)
		res.Write(ctx)
		return
	}

	// --- sliders: every subset of the relevant-occupancy mask ---------------------------------------
	empty := map[string][64]uint64{}
	for _, s := range sliders {
		var e [64]uint64
		for sq := 0; sq < 64; sq++ {
			v, _ := safe(func() uint64 { return uint64(s.impl(chess.Square(sq), 0)) })
			e[sq] = v
		}
		empty[s.tag] = e
	}
	total := 0
	for _, s := range sliders {
		for sq := 0; sq < 64; sq++ {
			xs := subsets(relMask(sq, s.dirs))
			total += len(xs)
			e := empty[s.tag][sq]
			r.run("C12", s.tag, sq, xs,
				func(x uint64) uint64 { return uint64(s.impl(chess.Square(sq), chess.BitBoard(x))) }, id,
				func(_, v uint64) bool { return v != e })
		}
	}
	res.Count("slider-subset-pairs", total)
	if total != 107648 {
		fmt.Fprintf(os.Stderr, "attacks harness: %d subset pairs, expected 107648\n", total)
		os.Exit(3)
	}

	// --- sliders: random full-board occupancies (off-mask bits set) ---------------------------------
	n := ctx.Pick(20000, 2000000)
	per := make(map[string]*[64][]uint64)
	for _, s := range sliders {
		per[s.tag] = new([64][]uint64)
	}
	for i := 0; i < n; i++ {
		sq := ctx.Rng.IntN(64)
		var occ uint64
		switch ctx.Rng.IntN(5) {
		case 0:
			occ = ctx.Rng.Uint64()
		case 1:
			occ = ctx.Rng.Uint64() & ctx.Rng.Uint64()
		case 2:
			occ = ctx.Rng.Uint64() & ctx.Rng.Uint64() & ctx.Rng.Uint64()
		case 3:
			occ = ctx.Rng.Uint64() | ctx.Rng.Uint64()
		default: // only off-mask bits of one slider kind plus a sparse rest
			occ = ^(relMask(sq, bishopDirs) | relMask(sq, rookDirs)) | (ctx.Rng.Uint64() & ctx.Rng.Uint64() & ctx.Rng.Uint64())
		}
		for _, s := range sliders {
			per[s.tag][sq] = append(per[s.tag][sq], occ)
		}
	}
	for _, s := range sliders {
		for sq := 0; sq < 64; sq++ {
			e := empty[s.tag][sq]
			r.run("C12", s.tag, sq, per[s.tag][sq],
				func(x uint64) uint64 { return uint64(s.impl(chess.Square(sq), chess.BitBoard(x))) }, id,
				func(_, v uint64) bool { return v != e })
		}
	}
	res.Count("slider-random-occupancies", 2*n)

	// --- pawn formulas ------------------------------------------------------------------------------
	var fams [4][]int
	for i := 0; i < 8; i++ {
		fams[0] = append(fams[0], i*8) // a-file
		fams[1] = append(fams[1], i*8+7)
		fams[2] = append(fams[2], i)    // first rank
		fams[3] = append(fams[3], 56+i) // eighth rank
	}
	for i := 0; i < 4; i++ {
		fams[0] = append(fams[0], (2*i+1)*8+1) // b-file, alternate ranks
		fams[1] = append(fams[1], (2*i)*8+6)   // g-file
		fams[2] = append(fams[2], 8+2*i)       // second rank
		fams[3] = append(fams[3], 48+2*i+1)    // seventh rank
	}
	var pawnBBs []uint64
	for _, f := range fams {
		for p := 0; p < 4096; p++ {
			pawnBBs = append(pawnBBs, deposit(p, f))
		}
	}
	for s := 0; s < 64; s++ {
		pawnBBs = append(pawnBBs, uint64(1)<<uint(s))
	}
	pawnBBs = append(pawnBBs, 0, ^uint64(0))
	for i := 0; i < ctx.Pick(2000, 200000); i++ {
		switch i % 3 {
		case 0:
			pawnBBs = append(pawnBBs, ctx.Rng.Uint64())
		case 1:
			pawnBBs = append(pawnBBs, ctx.Rng.Uint64()&ctx.Rng.Uint64())
		default:
			pawnBBs = append(pawnBBs, ctx.Rng.Uint64()&ctx.Rng.Uint64()&ctx.Rng.Uint64())
		}
	}
	for c := 0; c < 2; c++ {
		r.run("C12", "pc", c, pawnBBs,
			func(x uint64) uint64 { return uint64(attacks.PawnCaptureMoves(chess.BitBoard(x), chess.Color(c))) }, id, nonEmpty)
		r.run("C12", "pp", c, pawnBBs,
			func(x uint64) uint64 {
				return uint64(attacks.PawnSinglePushMoves(chess.BitBoard(x), chess.Color(c)))
			}, id, nonEmpty)
	}

	res.Exhaustive = true
	res.Notes = append(res.Notes,
		"exhaustive over the table domains: 64 king + 64 knight entries, 4096 InBetween pairs, all 107648 (square, subset of the relevant-occupancy mask) pairs for bishop and rook; "+
			"random part: full-board occupancies with off-mask bits and random pawn bitboards",
		"each value is compared with the Lean model (Model/Attacks.lean) and with the Lean geometric spec (Spec/Geometry.lean) through drv_attacks")
	res.Write(ctx)
}
