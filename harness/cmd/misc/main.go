// Command misc is the correspondence harness for the TRANSLATED small functions
// (lean/ChessVerif/Gen/Funcs.lean, produced by extract/cmd/funcs) against the real Go functions.
//
//	-suite c14    time control: boundary grid (+ random in the thorough tier); the Go side also asserts
//	              property C14 directly (hard > 0, hard ≤ t, margin, movetime, own clock only)
//	-suite funcs  every other translated function and the extracted constants/tables
//	-suite hist   history gravity update: one-step bound |h'| ≤ MaxHistory asserted in Go over all
//	              2049 × 65 536 (value, bonus) pairs (thorough; sampled in quick), saturating runs,
//	              and the translated update compared on a sample
//	-suite all    the three in a row (one JSON result)
//
// Unexported functions are reached through the `verif` hooks (uci.VerifTimeControl,
// transp.VerifQuality), through exported API (entry.Value via Table.Insert/LookUp, the history
// updates via Add/LookUp on a fresh cell, InvalidPieceCount on a Board value with the bitboards set)
// or — search.bufIx/lmr/nextNodeType, for which no hook exists — through go:linkname.
package main

import (
	"flag"
	"fmt"
	"math"
	"strings"
	_ "unsafe" // go:linkname

	"github.com/paulsonkoly/chess-3/board"
	"github.com/paulsonkoly/chess-3/chess"
	"github.com/paulsonkoly/chess-3/heur"
	"github.com/paulsonkoly/chess-3/params"
	"github.com/paulsonkoly/chess-3/search"
	"github.com/paulsonkoly/chess-3/transp"
	"github.com/paulsonkoly/chess-3/uci"

	"verifharness/common"
)

//go:linkname searchBufIx github.com/paulsonkoly/chess-3/search.bufIx
func searchBufIx(ply chess.Depth) int

//go:linkname searchLmr github.com/paulsonkoly/chess-3/search.lmr
func searchLmr(d chess.Depth, mCount int, improving bool, nType search.Node) chess.Depth

//go:linkname searchNextNodeType github.com/paulsonkoly/chess-3/search.nextNodeType
func searchNextNodeType(nType search.Node, cnt int) search.Node

var suiteFlag = flag.String("suite", "all", "c14|funcs|hist|all")

type pending struct{ prop, line, impl, violated string }

type runner struct {
	ctx  *common.Ctx
	res  *common.Result
	m    *common.Model
	pend []pending
}

// check queues one comparison: request line, the implementation's canonical answer and, if the Go
// side saw the implementation contradict the property itself, the violated clause.
func (r *runner) check(prop, line, impl, violated string) {
	r.res.Evaluations++
	r.pend = append(r.pend, pending{prop, line, impl, violated})
	if len(r.pend) >= 100000 {
		r.flush()
	}
}

func (r *runner) flush() {
	lines := make([]string, len(r.pend))
	for i, p := range r.pend {
		lines[i] = p.line
	}
	for i, ans := range r.m.Batch(lines) {
		p := r.pend[i]
		switch {
		case ans != p.impl && p.violated != "":
			r.res.Fail(common.Mismatch{Property: p.prop, Kind: "failing-input", Ops: []string{p.line}, Impl: p.impl, Model: ans, Note: "implementation violates: " + p.violated})
		case ans != p.impl:
			r.res.Fail(common.Mismatch{Property: p.prop, Kind: "broken-correspondence", Ops: []string{p.line}, Impl: p.impl, Model: ans})
		case p.violated != "":
			r.res.Fail(common.Mismatch{Property: p.prop, Kind: "failing-input", Ops: []string{p.line}, Impl: p.impl, Model: ans, Note: "implementation AND translated model violate: " + p.violated})
		}
		if ans != p.impl || p.violated != "" {
			r.res.Count("mismatch:"+strings.Fields(p.line)[0], 1)
		}
	}
	r.pend = r.pend[:0]
}

// guard runs f and maps a Go panic to the canonical answer "panic".
func guard(f func() string) (s string) {
	defer func() {
		if recover() != nil {
			s = "panic"
		}
	}()
	return f()
}

func b2i(b bool) int {
	if b {
		return 1
	}
	return 0
}

var edge64 = []int64{math.MinInt64, math.MinInt64 + 1, -1 << 62, -1 << 32, -1<<31 - 1, -1 << 31, -65536, -32769, -32768, -11000,
	-10000, -9937, -9936, -9935, -1025, -1024, -1023, -129, -128, -127, -61, -60, -31, -30, -29, -2, -1, 0, 1, 2, 29, 30, 31, 59, 60,
	61, 63, 64, 100, 101, 127, 128, 255, 256, 1023, 1024, 1025, 9935, 9936, 9937, 10000, 32767, 32768, 65535, 65536, 1<<31 - 1,
	1 << 31, 1 << 32, 1 << 50, 1<<50 + 1, 1 << 61, 1<<61 + 1, 1 << 62, math.MaxInt64/4 - 1, math.MaxInt64 / 4, math.MaxInt64/4 + 1,
	math.MaxInt64 - 30, math.MaxInt64 - 1, math.MaxInt64}

// rnd64 mixes edge values, neighbours of edges, small values and uniform 64-bit values.
func (r *runner) rnd64() int64 {
	switch r.ctx.Rng.IntN(5) {
	case 0:
		return edge64[r.ctx.Rng.IntN(len(edge64))]
	case 1:
		return edge64[r.ctx.Rng.IntN(len(edge64))] + int64(r.ctx.Rng.IntN(7)) - 3
	case 2:
		return int64(r.ctx.Rng.IntN(4001)) - 2000
	case 3:
		return int64(r.ctx.Rng.Uint64()) >> uint(r.ctx.Rng.IntN(64))
	}
	return int64(r.ctx.Rng.Uint64())
}

// ---- C14 -------------------------------------------------------------------------------------------

const (
	maxT   = int64(1_000_000_000_000)
	maxInc = int64(1_000_000_000)
)

func (r *runner) c14Point(w, b, wi, bi, mt int64, stm chess.Color, assert bool) {
	line := fmt.Sprintf("tc %d %d %d %d %d %d", w, b, wi, bi, mt, stm)
	timed, soft, hard := uci.VerifTimeControl(w, b, wi, bi, mt, stm)
	impl := fmt.Sprintf("%d %d %d", b2i(timed), soft, hard)
	t, inc := w, wi
	if stm == chess.Black {
		t, inc = b, bi
	}
	viol := ""
	if assert && t >= 1 && t <= maxT && inc >= 0 && inc <= maxInc {
		margin := int64(uci.TimeSafetyMargin)
		switch {
		case !timed:
			viol = "timedMode is false with a positive own clock"
		case hard <= 0:
			viol = "hard deadline not positive"
		case mt > 0 && (soft != mt || hard != mt):
			viol = "with a move time soft and hard must equal it"
		case mt <= 0 && hard > t:
			viol = "hard deadline later than the remaining time"
		case mt <= 0 && t > margin && hard > t-margin:
			viol = "safety margin not kept"
		}
		// own clock only: the opponent's fields replaced by other values must not change anything
		ow, ob, owi, obi := w, b, wi, bi
		alt := edge64[r.res.Evaluations%len(edge64)]
		if stm == chess.White {
			ob, obi = alt, b+1
		} else {
			ow, owi = alt, w+1
		}
		if t2, s2, h2 := uci.VerifTimeControl(ow, ob, owi, obi, mt, stm); viol == "" && (t2 != timed || s2 != soft || h2 != hard) {
			viol = fmt.Sprintf("result depends on the opponent's clock (tc %d %d %d %d %d %d differs)", ow, ob, owi, obi, mt, stm)
		}
		switch {
		case mt > 0:
			r.res.Count("c14:movetime", 1)
		case t <= margin:
			r.res.Count("c14:t<=margin", 1)
		case hard == t-margin:
			r.res.Count("c14:clamped-to-t-margin", 1)
			r.res.Nontrivial(fmt.Sprintf("c14 %d %d %d", t, inc, stm))
		case hard == margin:
			r.res.Count("c14:clamped-to-margin", 1)
			r.res.Nontrivial(fmt.Sprintf("c14 %d %d %d", t, inc, stm))
		default:
			r.res.Count("c14:4*soft", 1)
			r.res.Nontrivial(fmt.Sprintf("c14 %d %d %d", t, inc, stm))
		}
	}
	r.check("C14", line, impl, viol)
	if viol == "" && r.res.Evaluations%9973 == 0 {
		r.res.Sample(map[string]string{"op": line, "answer": impl}, 12)
	}
}

func c14Times() []int64 {
	seen := map[int64]bool{}
	var ts []int64
	add := func(t int64) {
		if t >= 1 && t <= maxT && !seen[t] {
			seen[t] = true
			ts = append(ts, t)
		}
	}
	for t := int64(1); t <= 70; t++ {
		add(t)
	}
	for k := int64(1); k <= 330; k++ { // multiples and neighbours of 30 and 29 (PredictedMoves, margin ± 1)
		for d := int64(-1); d <= 1; d++ {
			add(30*k + d)
			add(29*k + d)
		}
	}
	for p := int64(100); p <= maxT; p *= 10 { // decades, their thirds and neighbours
		for d := int64(-2); d <= 2; d++ {
			add(p + d)
			add(p/3 + d)
			add(p*3 + d)
		}
	}
	for e := uint(6); e < 40; e++ {
		for d := int64(-1); d <= 1; d++ {
			add(1<<e + d)
		}
	}
	for d := int64(0); d <= 2; d++ {
		add(maxT - d)
	}
	return ts
}

func (r *runner) suiteC14() {
	opp := []int64{0, 1, 31, 600000, maxT, -5}
	n := 0
	for _, t := range c14Times() {
		for _, inc := range []int64{0, 1, 2 * t, maxInc} {
			if inc > maxInc {
				inc = maxInc - 1
			}
			for _, mt := range []int64{0, 1, 50} {
				o := opp[n%len(opp)]
				n++
				r.c14Point(t, o, inc, o/2, mt, chess.White, true)
				r.c14Point(o, t, o/2, inc, mt, chess.Black, true)
			}
		}
	}
	r.res.Count("c14:grid-points", 2*n)
	for i := 0; i < r.ctx.Pick(0, 5_000_000); i++ { // random points of the domain (log-uniform magnitudes)
		t := 1 + int64(r.ctx.Rng.Uint64()>>uint(24+r.ctx.Rng.IntN(40)))%maxT
		inc := int64(r.ctx.Rng.Uint64()>>uint(34+r.ctx.Rng.IntN(30))) % (maxInc + 1)
		mt := int64(0)
		if r.ctx.Rng.IntN(8) == 0 {
			mt = 1 + int64(r.ctx.Rng.Uint64()>>uint(30+r.ctx.Rng.IntN(34)))
		}
		o, oi := r.rnd64(), r.rnd64()
		if r.ctx.Rng.IntN(2) == 0 {
			r.c14Point(t, o, inc, oi, mt, chess.White, true)
		} else {
			r.c14Point(o, t, oi, inc, mt, chess.Black, true)
		}
	}
	// the translation outside the property's domain (int64 extremes: the wraps must agree with Go's)
	for i := 0; i < r.ctx.Pick(20000, 500000); i++ {
		r.c14Point(r.rnd64(), r.rnd64(), r.rnd64(), r.rnd64(), r.rnd64()>>uint(r.ctx.Rng.IntN(2)*63), chess.Color(r.ctx.Rng.IntN(2)), false)
		r.res.Count("c14:any-int64 (translation only)", 1)
	}
	r.flush()
}

// ---- the other functions -----------------------------------------------------------------------------

func (r *runner) fn(name string, impl func() string, args ...int64) {
	var sb strings.Builder
	sb.WriteString(name)
	for _, a := range args {
		fmt.Fprintf(&sb, " %d", a)
	}
	r.check("translator", sb.String(), guard(impl), "")
	r.res.Count("fn:"+name, 1)
}

func (r *runner) suiteFuncs() {
	rng := r.ctx.Rng
	N := r.ctx.Pick(20000, 300000)
	// constants and tables
	cst := func(n string, v int64) { r.check("translator", "const "+n, fmt.Sprint(v), ""); r.res.Count("const", 1) }
	cst("MaxPlies", chess.MaxPlies)
	cst("Inf", int64(chess.Inf))
	cst("Inv", int64(chess.Inv))
	cst("White", int64(chess.White))
	cst("Black", int64(chess.Black))
	cst("TimeSafetyMargin", uci.TimeSafetyMargin)
	cst("PredictedMoves", uci.PredictedMoves)
	cst("TimeInf", uci.TimeInf)
	cst("HashMove", int64(heur.HashMove))
	cst("Captures", int64(heur.Captures))
	cst("CaptureRange", int64(heur.CaptureRange))
	cst("MaxHistory", int64(heur.MaxHistory))
	cst("k", int64(heur.MaxHistory)) // k is unexported; MaxHistory = k in the source
	cst("PVNode", int64(search.PVNode))
	cst("CutNode", int64(search.CutNode))
	cst("AllNode", int64(search.AllNode))
	for n, v := range map[string]int{"NMPDiffFactor": params.NMPDiffFactor, "NMPDepthLimit": params.NMPDepthLimit, "NMPInit": params.NMPInit,
		"RFPDepthLimit": params.RFPDepthLimit, "RFPScoreFactor": params.RFPScoreFactor, "WindowSize": params.WindowSize,
		"LMRStart": params.LMRStart, "StandPatDelta": params.StandPatDelta, "HistBonusMul": params.HistBonusMul,
		"HistBonusLin": params.HistBonusLin, "HistAdjRange": params.HistAdjRange, "HistAdjReduction": params.HistAdjReduction,
		"IIRDepthLimit": params.IIRDepthLimit} {
		cst("params_"+n, int64(v))
	}
	r.check("translator", "tab PieceValues.len 0", fmt.Sprint(len(heur.PieceValues)), "")
	for i, v := range heur.PieceValues {
		r.check("translator", fmt.Sprintf("tab PieceValues %d", i), fmt.Sprint(int64(v)), "")
	}
	// Clamp / Abs / Signum
	for _, x := range edge64 {
		for _, a := range edge64 {
			for _, b := range []int64{math.MinInt64, -30, 0, 30, a, x, a + 1, math.MaxInt64} {
				r.fn("clampS64", func() string { return fmt.Sprint(chess.Clamp(x, a, b)) }, x, a, b)
			}
		}
		r.fn("absS64", func() string { return fmt.Sprint(chess.Abs(x)) }, x)
		r.fn("signumS64", func() string { return fmt.Sprint(chess.Signum(x)) }, x)
	}
	for i := 0; i < N; i++ {
		x, a, b := r.rnd64(), r.rnd64(), r.rnd64()
		r.fn("clampS64", func() string { return fmt.Sprint(chess.Clamp(x, a, b)) }, x, a, b)
		r.fn("absS64", func() string { return fmt.Sprint(chess.Abs(x)) }, x)
		r.fn("signumS64", func() string { return fmt.Sprint(chess.Signum(x)) }, x)
		x16, a16, b16 := int16(r.rnd64()), int16(r.rnd64()), int16(r.rnd64())
		r.fn("clampS16", func() string { return fmt.Sprint(chess.Clamp(x16, a16, b16)) }, int64(x16), int64(a16), int64(b16))
		x8, a8, b8 := int8(rng.IntN(256)), int8(rng.IntN(256)), int8(rng.IntN(256))
		r.fn("clampS8", func() string { return fmt.Sprint(chess.Clamp(x8, a8, b8)) }, int64(x8), int64(a8), int64(b8))
	}
	for v := math.MinInt16; v <= math.MaxInt16; v++ { // exhaustive over int16
		s := chess.Score(v)
		r.fn("absS16", func() string { return fmt.Sprint(int64(chess.Abs(s))) }, int64(v))
		r.fn("signumS16", func() string { return fmt.Sprint(int64(chess.Signum(s))) }, int64(v))
		r.fn("isMate", func() string { return fmt.Sprint(b2i(s.IsMate())) }, int64(v))
	}
	// transp.quality (hook) and entry.Value (through a one-bucket table)
	for i := 0; i < N; i++ {
		c, g, d := transp.Gen(rng.IntN(256)), transp.Gen(rng.IntN(256)), chess.Depth(rng.IntN(256))
		if i < 256*8 {
			c, g, d = transp.Gen(i%256), transp.Gen([]int{0, 1, 127, 128, 254, 255, i % 256, (i + 1) % 256}[i/256]), chess.Depth(int8(i*37))
		}
		r.fn("quality", func() string { return fmt.Sprint(transp.VerifQuality(c, g, d)) }, int64(c), int64(g), int64(d))
	}
	tt := transp.New(32)
	const hash = board.Hash(0xabcd_0000_0000_0001)
	value := func(v chess.Score, ply chess.Depth) {
		r.fn("entryValue", func() string {
			tt.Insert(hash, 0, 0, 0, 0, v, transp.Exact) // ply 0: stored unchanged
			e, ok := tt.LookUp(hash)
			if !ok {
				return "lookup-failed"
			}
			return fmt.Sprint(int64(e.Value(ply)))
		}, int64(v), int64(ply))
	}
	for v := math.MinInt16; v <= math.MaxInt16; v++ { // every stored value × boundary plies
		for _, ply := range []chess.Depth{0, 1, 63, 64, 127, -1, -128} {
			if r.ctx.Thorough() || ply == 0 || ply == 63 || v%16 == 0 || v > 9900 || v < -9900 {
				value(chess.Score(v), ply)
			}
		}
	}
	for i := 0; i < N; i++ {
		value(chess.Score(r.rnd64()), chess.Depth(rng.IntN(256)))
	}
	// InvalidPieceCount on a Board value whose bitboards have the requested populations
	r.pieceCounts(N)
	// search.bufIx / lmr / nextNodeType (go:linkname; only where the Go function does not panic)
	for p := -128; p <= 127; p++ {
		r.fn("bufIx", func() string { return fmt.Sprint(searchBufIx(chess.Depth(p))) }, int64(p))
	}
	logLen := 101
	r.check("translator", "tab log.len 0", fmt.Sprint(logLen), "")
	for d := 0; d < logLen; d++ {
		for _, m := range []int{0, 1, 2, 3, 5, 8, 13, 30, 64, 99, 100, 101, 200, 1 << 20, math.MaxInt64} {
			for k := 0; k < 6; k++ {
				imp, nt := k%2 == 1, search.Node(k/2)
				r.fn("lmr", func() string { return fmt.Sprint(searchLmr(chess.Depth(d), m, imp, nt)) }, int64(d), int64(m), int64(b2i(imp)), int64(nt))
			}
		}
	}
	for i := 0; i < N/4; i++ {
		d, m, imp, nt := rng.IntN(logLen), rng.IntN(300), rng.IntN(2) == 1, search.Node(rng.IntN(256))
		r.fn("lmr", func() string { return fmt.Sprint(searchLmr(chess.Depth(d), m, imp, nt)) }, int64(d), int64(m), int64(b2i(imp)), int64(nt))
	}
	for nt := 0; nt < 256; nt++ {
		for _, c := range []int{math.MinInt64, -1, 0, 1, 2, 3, 64, math.MaxInt64} {
			r.fn("nextNodeType", func() string { return fmt.Sprint(searchNextNodeType(search.Node(nt), c)) }, int64(nt), int64(c))
		}
	}
	r.flush()
}

// pieceCounts compares InvalidPieceCount and asserts C11's count clause in Go: counts within the
// promotion bound (one king each, Σ max(0, nᵢ − initᵢ) ≤ 8 − pawns) must be accepted.
func (r *runner) pieceCounts(n int) {
	rng := r.ctx.Rng
	one := func(c [2][6]int) { // per colour: kings, knights, bishops, rooks, queens, pawns
		var b board.Board
		sq, total := 0, 0
		pieces := [6]chess.Piece{chess.King, chess.Knight, chess.Bishop, chess.Rook, chess.Queen, chess.Pawn}
		for col := 0; col < 2; col++ {
			for i, k := range c[col] {
				total += k
				for j := 0; j < k; j++ {
					b.Colors[col] |= 1 << (sq % 64)
					b.Pieces[pieces[i]] |= 1 << (sq % 64)
					sq++
				}
			}
		}
		if total > 64 {
			return
		}
		reachable := true
		for col := 0; col < 2; col++ {
			k := c[col]
			promoted := max(0, k[1]-2) + max(0, k[2]-2) + max(0, k[3]-2) + max(0, k[4]-1)
			reachable = reachable && k[0] == 1 && promoted <= 8-k[5]
		}
		got := b.InvalidPieceCount()
		viol := ""
		if reachable && got {
			viol = "counts within the promotion bound are rejected"
		}
		if reachable {
			r.res.Count("ipc:reachable", 1)
			if c[0][1] > 2 || c[0][2] > 2 || c[0][3] > 2 || c[0][4] > 1 || c[1][1] > 2 || c[1][2] > 2 || c[1][3] > 2 || c[1][4] > 1 {
				r.res.Nontrivial(fmt.Sprint("ipc ", c))
			}
		} else {
			r.res.Count("ipc:unreachable", 1)
		}
		args := make([]int64, 0, 12)
		for col := 0; col < 2; col++ {
			args = append(args, int64(b2i(c[col][0] == 1)))
			for _, k := range c[col][1:] {
				args = append(args, int64(k))
			}
		}
		line := "ipc"
		for _, a := range args {
			line += fmt.Sprintf(" %d", a)
		}
		r.check("C11", line, fmt.Sprint(b2i(got)), viol)
		r.res.Count("fn:ipc", 1)
	}
	std := [6]int{1, 2, 2, 2, 1, 8}
	// one side over a grid (thorough: the whole 0..11 grid; quick: strided), the other side standard
	step := r.ctx.Pick(3, 1)
	for kn := 0; kn <= 11; kn += step {
		for bi := 0; bi <= 11; bi += step {
			for ro := 0; ro <= 11; ro += step {
				for q := 0; q <= 10; q += step {
					for p := 0; p <= 9; p++ {
						if kn+bi+ro+q+p+1 <= 48 {
							side := [6]int{1, kn, bi, ro, q, p}
							if (kn+bi+ro+q+p)%2 == 0 {
								one([2][6]int{side, std})
							} else {
								one([2][6]int{std, side})
							}
						}
					}
				}
			}
		}
	}
	for i := 0; i < n; i++ { // near-reachable material: promote some pawns, perturb by ±1, sometimes wrong king count
		var c [2][6]int
		for col := 0; col < 2; col++ {
			s := std
			s[5] = rng.IntN(9)
			for pr := rng.IntN(9 - s[5] + 1); pr > 0; pr-- {
				s[1+rng.IntN(4)]++
			}
			for j := 1; j < 6; j++ {
				if rng.IntN(3) == 0 && s[j] > 0 {
					s[j] -= 1 + rng.IntN(min(2, s[j]))
				}
			}
			if rng.IntN(4) == 0 {
				s[1+rng.IntN(5)]++
			}
			if rng.IntN(16) == 0 {
				s[0] = rng.IntN(3)
			}
			c[col] = s
		}
		one(c)
	}
}

// ---- history gravity ---------------------------------------------------------------------------------

// cell is one history counter reachable through the exported API, reset by clear.
type cell struct {
	name       string
	add        func(bonus chess.Score)
	get        func() chess.Score
	clear      func()
	next       func() bool // moves to a fresh (still zero) counter; false when all are used (then clear)
	exhaustive bool
}

func histCells() []*cell {
	h, c, k := heur.NewHistory(), heur.NewContinuation(), heur.NewCaptHist()
	hi, ci, ki := 0, 0, 0
	return []*cell{
		{name: "histAdd", clear: func() { h.Clear(); hi = 0 }, next: func() bool { hi++; return hi < 2*64*64 },
			add: func(b chess.Score) { h.Add(chess.Color(hi>>12), chess.Square(hi>>6&63), chess.Square(hi&63), b) },
			get: func() chess.Score { return h.LookUp(chess.Color(hi>>12), chess.Square(hi>>6&63), chess.Square(hi&63)) }},
		{name: "contAdd", clear: func() { c.Clear(); ci = 0 }, next: func() bool { ci++; return ci < 2*6*64*6*64 },
			add: func(b chess.Score) {
				c.Add(chess.Color(ci/147456), chess.Piece(ci/24576%6+1), chess.Square(ci/384%64), chess.Piece(ci/64%6+1), chess.Square(ci%64), b)
			},
			get: func() chess.Score {
				return c.LookUp(chess.Color(ci/147456), chess.Piece(ci/24576%6+1), chess.Square(ci/384%64), chess.Piece(ci/64%6+1), chess.Square(ci%64))
			}},
		{name: "captAdd", clear: func() { k.Clear(); ki = 0 }, next: func() bool { ki++; return ki < 6*5*64 },
			add: func(b chess.Score) { k.Add(chess.Piece(ki/320+1), chess.Piece(ki/64%5+1), chess.Square(ki%64), b) },
			get: func() chess.Score { return k.LookUp(chess.Piece(ki/320+1), chess.Piece(ki/64%5+1), chess.Square(ki%64)) }},
	}
}

func (r *runner) suiteHist() {
	rng := r.ctx.Rng
	K := int(heur.MaxHistory)
	abs := func(x int) int { return max(x, -x) }
	nontrivial := 0
	sampleEvery := r.ctx.Pick(1, 211) // thorough: every 211th pair of the exhaustive sweep goes to the Lean model
	for _, c := range histCells() {
		// one step from every stored value h (|h| ≤ K; reached from 0 by Add(h)) with every int16 bonus
		step := func(h, bonus int, toModel bool) {
			if !c.next() {
				c.clear()
			}
			c.add(chess.Score(h))
			if got := int(c.get()); got != h {
				r.res.Fail(common.Mismatch{Property: "C16", Kind: "broken-correspondence", Ops: []string{fmt.Sprintf("%s 0 %d", c.name, h)}, Impl: fmt.Sprint(got), Model: fmt.Sprint(h), Note: "set-up step: a fresh counter plus h must be h"})
			}
			c.add(chess.Score(bonus))
			got := int(c.get())
			viol := ""
			if abs(got) > K {
				viol = fmt.Sprintf("|h'| = %d exceeds MaxHistory", abs(got))
			}
			cb := max(-K, min(K, bonus))
			if abs(h+cb) > K {
				r.res.Count("hist:"+c.name+":gravity-needed-for-bound", 1)
				if r.ctx.Thorough() {
					nontrivial++ // the exhaustive sweep enumerates every pair exactly once per counter type
				} else {
					r.res.Nontrivial(fmt.Sprintf("%s %d %d", c.name, h, bonus))
				}
			}
			if toModel || viol != "" {
				r.check("C16", fmt.Sprintf("%s %d %d", c.name, h, bonus), fmt.Sprint(got), viol)
			} else {
				r.res.Evaluations++
			}
			r.res.Count("hist:"+c.name+":one-step", 1)
		}
		if r.ctx.Thorough() {
			n := 0
			for h := -K; h <= K; h++ {
				for bonus := math.MinInt16; bonus <= math.MaxInt16; bonus++ {
					n++
					step(h, bonus, n%sampleEvery == 0)
				}
			}
		} else {
			edges := []int{-32768, -32767, -1025, -1024, -1023, -513, -512, -2, -1, 0, 1, 2, 511, 512, 1023, 1024, 1025, 32766, 32767}
			seen := map[[2]int]bool{}
			try := func(h, b int) {
				if !seen[[2]int{h, b}] {
					seen[[2]int{h, b}] = true
					step(h, b, true)
				}
			}
			for h := -K; h <= K; h++ {
				for _, b := range edges {
					try(h, b)
				}
			}
			for i := 0; i < 120000; i++ {
				b := rng.IntN(65536) - 32768
				if rng.IntN(2) == 0 {
					b = rng.IntN(2*K+200) - K - 100
				}
				try(rng.IntN(2*K+1)-K, b)
			}
		}
		// saturating runs on one counter: the bound must hold along arbitrary update sequences
		c.clear()
		h := 0
		for i := 0; i < r.ctx.Pick(40000, 1000000); i++ {
			var b int
			switch rng.IntN(4) {
			case 0:
				b = rng.IntN(65536) - 32768
			case 1:
				b = K - rng.IntN(3)
			case 2:
				b = -K + rng.IntN(3)
			default:
				b = rng.IntN(600) - 300
			}
			if i%5000 < 400 { // push hard in one direction to saturate
				b = (1 - 2*(i/5000%2)) * (K - rng.IntN(50))
			}
			c.add(chess.Score(b))
			got := int(c.get())
			viol := ""
			if abs(got) > K {
				viol = fmt.Sprintf("|h'| = %d exceeds MaxHistory (in a run)", abs(got))
			}
			if i%r.ctx.Pick(1, 4) == 0 || viol != "" {
				r.check("C16", fmt.Sprintf("%s %d %d", c.name, h, b), fmt.Sprint(got), viol)
			} else {
				r.res.Evaluations++
			}
			if abs(got) == K {
				r.res.Count("hist:"+c.name+":run-saturated", 1)
			}
			r.res.Count("hist:"+c.name+":run-step", 1)
			h = got
		}
	}
	r.flush()
	r.res.DistinctNontrivial += nontrivial
}

func main() {
	ctx := common.Parse()
	res := common.NewResult(ctx, "misc:"+*suiteFlag)
	r := &runner{ctx: ctx, res: res, m: common.StartModel(ctx.Driver)}
	var rules []string
	if *suiteFlag == "c14" || *suiteFlag == "all" {
		res.Properties = append(res.Properties, "C14")
		rules = append(rules, "C14: distinct (own time, own increment, colour) with no move time and own time > margin, i.e. the Clamp(4*soft, margin, t-margin) branch is executed")
		r.suiteC14()
	}
	if *suiteFlag == "funcs" || *suiteFlag == "all" {
		res.Properties = append(res.Properties, "C11", "translator")
		rules = append(rules, "C11: distinct count vectors within the promotion bound that contain promoted material (accepted by InvalidPieceCount)")
		r.suiteFuncs()
	}
	if *suiteFlag == "hist" || *suiteFlag == "all" {
		res.Properties = append(res.Properties, "C16")
		rules = append(rules, "C16: (counter type, stored value, bonus) with |h + clamp(bonus)| > MaxHistory, i.e. only the gravity term keeps the counter in range")
		res.Exhaustive = ctx.Thorough() && *suiteFlag == "hist"
		r.suiteHist()
	}
	if len(rules) == 0 {
		fmt.Println("unknown suite", *suiteFlag)
		return
	}
	res.Rule = strings.Join(rules, " | ")
	r.m.Close()
	if r.m.Dead {
		res.Notes = append(res.Notes, "the Lean driver died during the run")
	}
	res.Notes = append(res.Notes, "lmr/bufIx/nextNodeType are reached with go:linkname (no verif hook); lmr only for 0 ≤ d ≤ 100, mCount ≥ 0 (Go panics elsewhere)")
	res.Write(ctx)
}
