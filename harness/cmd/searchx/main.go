// Exact differential harness between the REAL search (/repo/search, -tags verif) and the generic
// search skeleton of the Lean model instantiated with the real component models
// (Model/SearchReal.lean `realComp`, driver drv_searchreal).
//
// A script is a history on ONE engine instance: `new <buckets>`, then any number of `go` (root =
// FEN + played moves, limits = depth / hard node budget / soft node limit / stop channel / output
// on-off) and `clear`.  The same script runs on search.New(32*buckets) and on the model driver and
// EVERYTHING observable is compared after every search: score, move, ponder, Counters.Nodes,
// Counters.ABNodes, every info line (depth, score text, nodes, hashfull, pv; the time field is
// ignored) and the digest of the persistent state (every TT bucket, every history cell, generation).
//
// Independently of the model the implementation's results are checked against the properties
// themselves (C06: board restored, move legal or null and null only on a final root; C07: every
// reported variation legal, bestmove = head of the last non-empty variation; C08: node budget never
// exceeded).  A model/implementation difference is a `failing-input` when such a direct check also
// fails in the same script, otherwise a `broken-correspondence`.
//
//	searchx -tier quick|thorough -seed N -driver …/drv_searchreal -out r.json [-workers W] [-budget nodes]
//	searchx -suite spsa …   the same tie for the spsa build over in-range parameter vectors (spsa.go;
//	                        binary built with `bin/build-harness searchx /repo -tags "verif spsa"`)
package main

import (
	"bufio"
	"bytes"
	"flag"
	"fmt"
	"io"
	"os"
	"path/filepath"
	"reflect"
	"regexp"
	"runtime"
	"sort"
	"strconv"
	"strings"
	"sync"
	"time"
	"unsafe"

	"github.com/paulsonkoly/chess-3/board"
	"github.com/paulsonkoly/chess-3/move"
	"github.com/paulsonkoly/chess-3/search"
	"github.com/paulsonkoly/chess-3/transp"

	. "github.com/paulsonkoly/chess-3/chess"

	"verifharness/common"
	"verifharness/implutil"
	"verifharness/posgen"
)

var (
	workers    = flag.Int("workers", 0, "number of model driver processes (0 = min(NumCPU, 16))")
	budget     = flag.Int("budget", 0, "total number of search nodes the model is asked to replay (0 = tier default)")
	verbose    = flag.Bool("v", false, "print progress to stderr")
	only       = flag.String("only", "", "run only scripts whose kind has this prefix (diagnostic)")
	saneStrict = flag.Bool("nmpsane-strict", false, "report every script on which NmpSane fails as a mismatch (broken-correspondence); by default failures are counted in the histogram and the first ones are listed in the notes, because NmpSane does fail on the unchanged engine (forced-mate roots from depth 3 on)")
	suite      = flag.String("suite", "", "\"\" = the tie of the default build (result searchx); spsa = the tie of the spsa build over in-range parameter vectors (result searchx/spsa; needs a binary built with -tags \"verif spsa\", see spsa.go)")
	saneOf     = flag.Int("nmpsane", 0, "measure NmpSane (guarded null-move record gives the identical result) on every n-th script besides the mate-band scripts, which are always measured (0 = tier default: 3 quick, 2 thorough; 1 = all; -1 = none)")
)

const openStop = 4000000000000 // `stop K` with a K no search reaches: a channel that is never closed

// ---------------------------------------------------------------------------------------------
// roots

type root struct {
	class string
	fen   string
	moves []move.Move // played from fen (hash history, clocks, repetition count)

	key   string // FEN of the root itself
	legal []move.Move
	final bool
	drawn bool
	check bool
	three int
	fifty int
}

func (r *root) position() string {
	s := "position fen " + r.fen
	if len(r.moves) > 0 {
		s += " moves"
		for _, m := range r.moves {
			s += " " + m.String()
		}
	}
	return s
}

func (r *root) build() *board.Board {
	b, err := board.FromFEN(r.fen)
	if err != nil {
		return nil
	}
	for _, m := range r.moves {
		b.MakeMove(m)
	}
	return b
}

func (r *root) modelPos() string {
	var sb strings.Builder
	sb.WriteString(r.fen)
	sb.WriteString(" | moves")
	for _, m := range r.moves {
		sb.WriteByte(' ')
		sb.WriteString(strconv.Itoa(int(m)))
	}
	return sb.String()
}

func contains(l []move.Move, m move.Move) bool {
	i := sort.Search(len(l), func(i int) bool { return l[i] >= m })
	return i < len(l) && l[i] == m
}

func findMove(b *board.Board, s string) (move.Move, bool) {
	for _, m := range implutil.Legal(b) {
		if m.String() == s {
			return m, true
		}
	}
	return 0, false
}

type env struct {
	c    *common.Ctx
	r    *common.Result
	bm   *common.Model // drv_board: Lean `valid`
	seen map[string]bool
}

// valid asks the Lean model whether fen is a valid position (the domain of the properties).
func (e *env) valid(fen string) bool {
	a := e.bm.Batch([]string{"fen " + fen, "valid"})
	return strings.HasPrefix(a[0], "ok") && len(a[1]) >= 1 && a[1][0] == '1'
}

// mkRoot validates the start FEN, plays the UCI moves and fills the derived attributes.
func (e *env) mkRoot(class, fen string, uciMoves []string) *root {
	if !e.valid(fen) {
		return nil
	}
	b, err := board.FromFEN(fen)
	if err != nil || b.InvalidPieceCount() {
		return nil
	}
	rt := &root{class: class, fen: fen}
	for _, s := range uciMoves {
		m, ok := findMove(b, s)
		if !ok {
			return nil
		}
		rt.moves = append(rt.moves, m)
		b.MakeMove(m)
	}
	e.fill(rt, b)
	return rt
}

func (e *env) fill(rt *root, b *board.Board) {
	rt.key = b.FEN()
	rt.legal = implutil.Legal(b)
	rt.fifty = int(b.FiftyCnt)
	// the number of occurrences of the root position in its history, counted on the printed positions
	// (placement, side to move, rights, recorded en-passant target) - NOT by the Threefold() under test
	rt.three = occurrences(rt.fen, rt.moves)
	rt.check = b.InCheck(b.STM)
	rt.drawn = rt.fifty >= 100 || rt.three >= 3
	rt.final = len(rt.legal) == 0 || rt.drawn
}

func occurrences(fen string, ms []move.Move) int {
	b, err := board.FromFEN(fen)
	if err != nil {
		return 1
	}
	key := func() string { return strings.Join(strings.Fields(b.FEN())[:4], " ") }
	keys := []string{key()}
	for _, m := range ms {
		b.MakeMove(m)
		keys = append(keys, key())
	}
	n := 0
	for _, k := range keys {
		if k == keys[len(keys)-1] {
			n++
		}
	}
	return min(n, 3)
}

// extend returns the root reached from rt by playing ms.
func (e *env) extend(rt *root, class string, ms ...move.Move) *root {
	n := &root{class: class, fen: rt.fen, moves: append(append([]move.Move{}, rt.moves...), ms...)}
	b := n.build()
	e.fill(n, b)
	return n
}

// playout extends rt by up to n random legal moves (stops before a final position when keepLive).
func (e *env) playout(rt *root, class string, n int, keepLive bool) *root {
	b := rt.build()
	var ms []move.Move
	for i := 0; i < n; i++ {
		l := implutil.Legal(b)
		if len(l) == 0 || b.FiftyCnt >= 100 {
			break
		}
		m := l[e.c.Rng.IntN(len(l))]
		r := b.MakeMove(m)
		if keepLive && (len(implutil.Legal(b)) == 0 || b.FiftyCnt >= 100 || b.Threefold() >= 3) {
			b.UndoMove(m, r)
			break
		}
		ms = append(ms, m)
	}
	return e.extend(rt, class, ms...)
}

const startFEN = StartPosFEN

var knightDance = []string{"g1f3", "g8f6", "f3g1", "f6g8"}

func rep(n int) []string {
	var out []string
	for i := 0; i < n; i++ {
		out = append(out, knightDance...)
	}
	return out
}

type fixed struct {
	class, fen string
	moves      []string
}

var fixedRoots = []fixed{
	{"start", startFEN, nil},
	{"repetition", startFEN, rep(1)},
	{"repetition", startFEN, rep(2)},
	{"repetition", startFEN, append(rep(1), "g1f3", "g8f6", "f3g1")},
	{"repetition", "r3k2r/p1ppqpb1/bn2pnp1/3PN3/1p2P3/2N2Q1p/PPPBBPPP/R3K2R w KQkq - 0 1",
		[]string{"e1d1", "e8d8", "d1e1", "d8e8", "e1d1", "e8d8", "d1e1"}},
	{"repetition", "8/5k2/8/8/8/2R5/5K2/3r4 w - - 10 40", []string{"c3c4", "d1d2", "f2f3", "d2d1", "f3f2", "d1d3", "c4c3", "d3d1"}},
	{"kiwipete", "r3k2r/p1ppqpb1/bn2pnp1/3PN3/1p2P3/2N2Q1p/PPPBBPPP/R3K2R w KQkq - 0 1", nil},
	{"in-check", "rnbqkbnr/ppp2ppp/8/1B1pp3/4P3/8/PPPP1PPP/RNBQK1NR b KQkq - 1 3", nil},
	{"few-reply", "k4r2/8/8/8/8/8/7P/r5K1 w - - 0 1", nil},
	{"promotion", "4k3/P7/8/8/8/8/7p/4K3 w - - 0 1", nil},
	{"promotion", "3rk3/4P3/8/8/8/8/8/3K4 w - - 0 1", nil},
	{"clock", "4k3/8/8/8/8/8/8/4K2R w K - 99 80", nil},
	{"clock", "4k3/8/8/8/8/8/8/4K2R w K - 100 80", nil},
	{"clock", "4k3/8/8/8/8/8/8/4K2R w K - 95 80", nil},
	{"clock", "r3k3/8/8/8/8/8/8/4K2R b Kq - 96 80", nil},
	{"clock", "4k3/8/8/8/8/8/8/4K2R w K - 97 80", nil},
	{"clock", "4k3/7p/8/8/8/8/8/4K2R w K - 98 80", nil},
	{"clock", "4k3/8/8/8/8/8/8/4K2R w K - 98 80", []string{"h1h2", "e8d8"}},
	{"clock", "7k/5K2/8/8/8/8/8/6R1 w - - 99 90", []string{"g1h1"}},
	{"clock", "7k/5K2/8/8/8/8/8/6R1 w - - 99 90", nil},
	{"clock", "r1bq1rk1/pp2bppp/2n1pn2/3p4/3P4/2NBPN2/PP3PPP/R1BQ1RK1 w - - 94 60", nil},
	{"mate", "6k1/5ppp/8/8/8/8/5PPP/R5K1 w - - 0 1", nil},
	{"mate", "kbK5/pP6/p7/8/8/8/8/8 b - - 0 1", nil},
	{"mate", "r1bqkb1r/pppp1ppp/2n2n2/4p2Q/2B1P3/8/PPPP1PPP/RNB1K1NR w KQkq - 4 4", nil},
	{"mate", "7k/5Q2/5K2/8/8/8/8/8 w - - 0 1", nil},
	{"mate", "8/8/8/8/8/5k2/4q3/7K b - - 0 1", nil},
	{"mate", "2r3k1/5ppp/8/8/8/8/5PPP/1R1R2K1 w - - 0 1", nil},
	{"stalemate", "8/8/8/8/8/3q1k2/8/4K3 w - - 0 1", nil},
	{"stalemate", "7k/5K2/6Q1/8/8/8/8/8 b - - 0 1", nil},
	{"stalemate", "k7/8/8/8/8/8/8/K7 w - - 0 1", nil},
	{"ep", "4k3/8/8/8/3pP3/8/8/4K3 b - e3 0 1", nil},
	{"ep", "4k3/8/8/K2pP2r/8/8/8/8 w - d6 0 2", nil},
	{"castling", "r3k2r/8/8/8/8/8/8/R3K2R w KQkq - 0 1", nil},
	{"heavy", "1QQQQQQ1/1QQ5/8/8/8/8/8/k6K w - - 0 1", nil},
	{"heavy", "3k4/8/8/8/8/3K4/QQQQQQQQ/Q7 b - - 1 1", nil},
	{"heavy", "3k4/8/8/8/8/3K4/QQQQQQQQ/Q7 w - - 1 1", nil},
	{"heavy", "QQQQQQQQ/1Q6/8/8/8/8/k7/4K3 b - - 0 1", nil},
	{"heavy", "NNNNNNNN/NN6/8/8/8/8/k7/4K3 w - - 0 1", nil},
	{"heavy", "qqqqkqqq/qq6/8/8/8/8/8/4K3 w - - 0 1", nil},
	{"heavy", "rrrrkrrr/rr6/8/8/8/8/PPPPPPPP/RNBQKBNR w KQ - 0 1", nil},
	{"d8", "3r3b/p7/1p3p2/1NPp1k2/1n4p1/P3R1K1/2P5/8 w - - 0 47", nil},
	{"d8", "3r3b/p7/1p3p2/1NPpkP2/1n4p1/P3R1K1/2P5/8 b - - 4 46", nil},
	{"zugzwang", "8/8/p1p5/1p5p/1P5p/8/PPP2K1p/4R1rk w - - 0 1", nil},
	{"mate-band", "6k1/5ppp/8/8/8/8/5PPP/R5K1 w - - 0 1", nil},                                // mate in 1, other moves remain
	{"mate-band", "r1bqkb1r/pppp1ppp/2n2n2/4p2Q/2B1P3/8/PPPP1PPP/RNB1K1NR w KQkq - 4 4", nil}, // scholar's mate in 1
	{"mate-band", "2bqkbn1/2pppp2/np2N3/r3P1p1/p2N2B1/5Q2/PPPPKPP1/RNB2r2 w - - 0 1", nil},    // mate in 2 (test suite)
	{"mate-band", "r2qkb1r/pp2nppp/3p4/2pNN1B1/2BnP3/3P4/PPP2PPP/R2bK2R w KQkq - 1 1", nil},   // mate in 2
	{"mate-band", "1k5r/pP3ppp/3p2b1/1BN1n3/1Q2P3/P1B5/KP3P1P/7q w - - 1 1", nil},             // mate in 3
	{"mate-band", "r1b1kb1r/pppp1ppp/5q2/4n3/3KP3/2N3PN/PPP4P/R1BQ1B1R b kq - 0 1", nil},      // mate in 3, black
	{"mate-band", "6k1/3b3r/1p1p4/p1n2p2/1PPNpP1q/P3Q1p1/1R1RB1P1/5K2 b - - 0 1", nil},        // mate in 3
	{"mate-band", "7k/8/5K2/8/8/8/8/6R1 w - - 0 1", nil},                                      // KRK, mate in 2
	{"mate-band", "k7/8/1K6/8/8/8/7Q/8 w - - 0 1", nil},                                       // KQK, several mates in 1
	{"mate-band", "5rk1/5ppp/8/8/8/8/1Q3PPP/1R4K1 b - - 0 1", nil},                            // quiet, black to move, back ranks
	{"mate-band", "3k4/8/3K4/8/8/8/8/QQQ5 w - - 0 1", nil},                                    // overwhelming material, many mates
	{"mate-band", "7k/7p/8/8/8/q7/1q6/4K3 w - - 0 1", nil},                                    // side to move hopelessly behind and about to be mated
	{"mate-band", "1r5k/6pp/8/8/8/8/qq6/4K2R w K - 0 1", nil},                                 // far behind but with Rh1xh7-style tries
	{"tiny", "8/8/8/4k3/8/8/4P3/4K3 w - - 0 1", nil},
	{"tiny", "8/8/8/4k3/8/8/4P3/4K3 b - - 0 1", nil},
	{"tiny", "8/8/8/4k3/8/8/8/R3K3 w - - 0 1", nil},
	{"tiny", "8/8/8/4k3/8/8/8/Q3K3 b - - 0 1", nil},
	{"tiny", "8/8/8/4k3/8/8/8/1NB1K3 w - - 0 1", nil},
	{"tiny", "8/4p3/8/4k3/8/8/8/R3K3 w - - 0 1", nil},
	{"tiny", "8/8/3rk3/8/8/8/8/Q3K3 w - - 0 1", nil},
	{"tiny", "8/4p3/8/4k3/8/8/4P3/4K3 w - - 0 1", nil},
	{"tiny", "8/2p5/3p4/KP5r/1R3p1k/8/4P1P1/8 w - - 0 1", nil},
	{"tiny", "8/8/1k6/8/2pP4/8/5K2/8 b - d3 0 1", nil},
	{"double-check", "4k3/8/8/8/8/2n5/3r4/3K4 w - - 0 1", nil},
}

// doubleNetFEN builds a position in which BOTH kings sit in a mating net: each king in a corner region
// behind (part of) a pawn shield, each side with two to four heavy pieces (and sometimes a knight) placed
// close to the ENEMY king.  Such positions are the ones in which a node of the losing line can have a
// forced mate of its own after passing — the precondition of the null-move mate branch with a beta
// below the mated-at-this-ply score (ghost flag nmpOut) and of an out-of-band table store (ttOut).
func doubleNetFEN(rng interface{ IntN(int) int }) string {
	var bd [64]byte
	put := func(sq int, c byte) bool {
		if sq < 0 || sq > 63 || bd[sq] != 0 {
			return false
		}
		bd[sq] = c
		return true
	}
	// kings: white on the first rank, black on the eighth, on either wing
	wkFile, bkFile := []int{0, 1, 6, 7}[rng.IntN(4)], []int{0, 1, 6, 7}[rng.IntN(4)]
	wk, bk := wkFile, 56+bkFile
	put(wk, 'K')
	put(bk, 'k')
	// pawn shields (each pawn present with probability 2/3), one rank in front of the king
	for df := -1; df <= 1; df++ {
		if f := wkFile + df; f >= 0 && f < 8 && rng.IntN(3) != 0 {
			put(8+f, 'P')
		}
		if f := bkFile + df; f >= 0 && f < 8 && rng.IntN(3) != 0 {
			put(48+f, 'p')
		}
	}
	// attackers near the enemy king: squares within distance 3 of it, not adjacent ranks of the own back rank
	place := func(king int, pieces string) {
		kf, kr := king%8, king/8
		for _, c := range []byte(pieces) {
			for try := 0; try < 20; try++ {
				f, r := kf+rng.IntN(7)-3, kr+rng.IntN(7)-3
				if f < 0 || f > 7 || r < 0 || r > 7 {
					continue
				}
				if put(8*r+f, c) {
					break
				}
			}
		}
	}
	heavy := func(white bool) string {
		set := []string{"QR", "QQ", "QRR", "RR", "QRN", "QQR", "QN", "QRRN"}[rng.IntN(8)]
		if !white {
			set = strings.ToLower(set)
		}
		return set
	}
	place(bk, heavy(true))
	place(wk, heavy(false))
	var sb strings.Builder
	for r := 7; r >= 0; r-- {
		empty := 0
		for f := 0; f < 8; f++ {
			c := bd[8*r+f]
			if c == 0 {
				empty++
				continue
			}
			if empty > 0 {
				sb.WriteByte(byte('0' + empty))
				empty = 0
			}
			sb.WriteByte(c)
		}
		if empty > 0 {
			sb.WriteByte(byte('0' + empty))
		}
		if r > 0 {
			sb.WriteByte('/')
		}
	}
	stm := "w"
	if rng.IntN(2) == 0 {
		stm = "b"
	}
	return sb.String() + " " + stm + " - - 0 1"
}

type pools struct {
	all       []*root
	byClass   map[string][]*root
	fewReply  []*root
	live      []*root // non-final
	cheap     []*root // few men: deep searches stay small
	tiny      []*root // at most 5 men (or class tiny): depth 9..12 is affordable
	perftLike []*root
}

func men(fen string) int {
	n := 0
	for _, c := range strings.Fields(fen)[0] {
		if (c >= 'a' && c <= 'z') || (c >= 'A' && c <= 'Z') {
			n++
		}
	}
	return n
}

func (e *env) collect() *pools {
	p := &pools{byClass: map[string][]*root{}}
	add := func(rt *root) bool {
		if rt == nil {
			return false
		}
		k := rt.key + "#" + strconv.Itoa(rt.three)
		if e.seen[k] {
			return false
		}
		e.seen[k] = true
		p.all = append(p.all, rt)
		p.byClass[rt.class] = append(p.byClass[rt.class], rt)
		if !rt.final {
			p.live = append(p.live, rt)
			if len(rt.legal) <= 3 {
				p.fewReply = append(p.fewReply, rt)
			}
			if men(rt.key) <= 8 {
				p.cheap = append(p.cheap, rt)
			}
			if men(rt.key) <= 5 || rt.class == "tiny" {
				p.tiny = append(p.tiny, rt)
			}
		}
		e.r.Count("root:"+rt.class, 1)
		return true
	}
	for _, f := range fixedRoots {
		rt := e.mkRoot(f.class, f.fen, f.moves)
		if rt == nil {
			panic("fixed root rejected: " + f.fen + " " + strings.Join(f.moves, " "))
		}
		add(rt)
	}
	rng := e.c.Rng
	// perft roots and the other FEN literals of the repository (a seed-dependent sample) + play-outs
	all := posgen.Roots("/repo")
	nPerft := e.c.Pick(24, 90)
	for _, i := range rng.Perm(len(all)) {
		if nPerft == 0 {
			break
		}
		rt := e.mkRoot("perft-root", all[i], nil)
		if rt == nil {
			continue
		}
		if add(rt) {
			p.perftLike = append(p.perftLike, rt)
			nPerft--
			if !rt.final && rng.IntN(2) == 0 {
				add(e.playout(rt, "playout", 1+rng.IntN(40), true))
			}
		}
	}
	// generated: constructive sampler (all profiles), en-passant directed, king nets
	st := implutil.NewStream(e.c)
	nGen := e.c.Pick(30, 120)
	for tries := 0; nGen > 0 && tries < 6000; tries++ {
		fen, src := st.Next()
		if src == "root" { // the repository's own roots were sampled above
			continue
		}
		class := "gen:" + src
		if src == "promoheavy" {
			class = "heavy"
		}
		if add(e.mkRoot(class, fen, nil)) {
			nGen--
		}
	}
	nHeavy := e.c.Pick(6, 24)
	for tries := 0; nHeavy > 0 && tries < 2000; tries++ {
		if ps, ok := posgen.Construct(rng, posgen.PromoHeavy); ok {
			if add(e.mkRoot("heavy", ps.FEN(), nil)) {
				nHeavy--
			}
		}
	}
	// double mating nets (both kings exposed to heavy pieces): generated, validated by the Lean `valid`
	nDbl := e.c.Pick(30, 160)
	for tries := 0; nDbl > 0 && tries < 6000; tries++ {
		rt := e.mkRoot("double-net", doubleNetFEN(rng), nil)
		if rt == nil || rt.final {
			continue
		}
		if add(rt) {
			nDbl--
		}
	}
	// roots (FEN only) with a recorded en-passant target whose capture is illegal because the captured pawn
	// shields the mover's king on a diagonal: the generator emits the capture, only the legality filter of
	// the search (make, test the king, take back) keeps it out of the tree
	nShield := e.c.Pick(40, 200)
	for tries := 0; nShield > 0 && tries < 20000; tries++ {
		if ps, kind, ok := posgen.EPShield(rng); ok {
			rt := e.mkRoot("ep-"+kind, ps.FEN(), nil)
			if rt == nil || rt.final {
				continue
			}
			if add(rt) {
				nShield--
			}
		}
	}
	nNet := e.c.Pick(24, 100)
	for tries := 0; nNet > 0 && tries < 4000; tries++ {
		if ps, ok := posgen.KingNet(rng); ok {
			rt := e.mkRoot("kingnet", ps.FEN(), nil)
			if rt == nil {
				continue
			}
			switch {
			case len(rt.legal) == 0 && rt.check:
				rt.class = "mate"
			case len(rt.legal) == 0:
				rt.class = "stalemate"
			case len(rt.legal) <= 3:
				rt.class = "few-reply"
			}
			if add(rt) {
				nNet--
			}
		}
	}
	// few-reply roots and near-draw positions met along random games
	nFew := e.c.Pick(16, 60)
	for tries := 0; nFew > 0 && tries < 400; tries++ {
		base := p.live[rng.IntN(len(p.live))]
		b := base.build()
		var ms []move.Move
		for ply := 0; ply < 80 && nFew > 0; ply++ {
			l := implutil.Legal(b)
			if len(l) == 0 || b.FiftyCnt >= 100 {
				break
			}
			if len(l) <= 3 && ply > 0 {
				if add(e.extend(base, "few-reply", ms...)) {
					nFew--
				}
			}
			m := l[rng.IntN(len(l))]
			ms = append(ms, m)
			b.MakeMove(m)
		}
	}
	// shuffles: reversible moves back and forth from a live root until the second / third occurrence
	nRep := e.c.Pick(10, 40)
	for tries := 0; nRep > 0 && tries < 400; tries++ {
		base := p.live[rng.IntN(len(p.live))]
		b := base.build()
		var ms []move.Move
		ok := true
		cycles := 1 + rng.IntN(2)
		for cyc := 0; cyc < cycles && ok; cyc++ {
			// a reversible move for each side and their inverses
			var quad [4]move.Move
			for i := 0; i < 2 && ok; i++ {
				ok = false
				l := implutil.Legal(b)
				for _, j := range rng.Perm(len(l)) {
					m := l[j]
					if b.SquaresToPiece[m.From()] == Pawn || b.SquaresToPiece[m.To()] != NoPiece || m.Promo() != NoPiece ||
						b.SquaresToPiece[m.From()] == King || b.SquaresToPiece[m.From()] == Rook {
						continue
					}
					quad[i] = m
					quad[i+2] = move.From(m.To()) | move.To(m.From())
					ms = append(ms, m)
					b.MakeMove(m)
					ok = true
					break
				}
			}
			for i := 2; i < 4 && ok; i++ {
				if !contains(implutil.Legal(b), quad[i]) {
					ok = false
					break
				}
				ms = append(ms, quad[i])
				b.MakeMove(quad[i])
			}
		}
		if !ok {
			continue
		}
		cut := rng.IntN(3) // stop 0..2 plies before the cycle closes: repetitions reachable inside the search
		if cut > len(ms) {
			cut = len(ms)
		}
		if add(e.extend(base, "repetition", ms[:len(ms)-cut]...)) {
			nRep--
		}
	}
	// clocks: a live root re-dated to a halfmove clock of 90..99 (when the FEN stays valid)
	nClock := e.c.Pick(8, 30)
	for tries := 0; nClock > 0 && tries < 400; tries++ {
		base := p.live[rng.IntN(len(p.live))]
		fs := strings.Fields(base.key)
		if fs[3] != "-" {
			continue
		}
		fs[4] = strconv.Itoa(90 + rng.IntN(10))
		if add(e.mkRoot("clock", strings.Join(fs, " "), nil)) {
			nClock--
		}
	}
	return p
}

// ---------------------------------------------------------------------------------------------
// scripts

type goStep struct {
	rt    *root
	depth int
	nodes int // -1: none
	soft  int // -1: none
	stop  int // -1: no channel, 0: closed before the start, openStop: never closed
	out   bool
	// ponder: -1 = no ponder-hit channel; k >= 0 = the ponder-hit message is received by the k-th
	// non-blocking poll of the channel (k = 0: sent before the start; k > 0: sent while the k-th
	// completed-iteration info line is being written, i.e. between poll k-1 and poll k; needs out)
	ponder int
}

func (g goStep) String() string {
	s := fmt.Sprintf("go depth %d", g.depth)
	if g.nodes != -1 {
		s += fmt.Sprintf(" nodes %d", g.nodes)
	}
	if g.soft != -1 {
		s += fmt.Sprintf(" softnodes %d", g.soft)
	}
	switch g.stop {
	case -1:
	case 0:
		s += " stop=closed-before-start"
	default:
		s += " stop=open"
	}
	if !g.out {
		s += " output=nil"
	}
	if g.ponder >= 0 {
		s += fmt.Sprintf(" ponderhit-at-poll-%d", g.ponder)
	}
	return s
}

func (g goStep) modelLine() string {
	stop := "-"
	if g.stop >= 0 {
		stop = strconv.Itoa(g.stop)
	}
	out := 0
	if g.out {
		out = 1
	}
	ponder := "-"
	if g.ponder >= 0 {
		ponder = strconv.Itoa(g.ponder)
	}
	return fmt.Sprintf("go %s | depth %d nodes %d softnodes %d stop %s out %d ponder %s", g.rt.modelPos(), g.depth, g.nodes, g.soft, stop, out, ponder)
}

type step struct {
	kind    string // new | clear | go
	buckets int
	g       goStep
}

type script struct {
	kind  string
	steps []step

	// filled by runImpl
	impl     []string // canonical answers, one per step
	nodes    []int
	direct   string // first violated direct property check ("" = none)
	directAt int
	rawLo    []int // smallest / largest raw value in the REAL table after each go step
	rawHi    []int
	total    int
	skipped  bool
	shrunk   int
	guard    bool // also run the guarded record (`gog`): NmpSane measured on every search of the script
}

// cost is the number of nodes the model replays for the script.
func (sc *script) cost() int {
	if sc.guard {
		return 2 * sc.total
	}
	return sc.total
}

func (sc *script) ops(upto int) []string {
	var out []string
	for i := 0; i <= upto && i < len(sc.steps); i++ {
		st := sc.steps[i]
		switch st.kind {
		case "new":
			out = append(out, fmt.Sprintf("new search.New(%d)", 32*st.buckets))
		case "clear":
			out = append(out, "Clear()")
		default:
			out = append(out, st.g.rt.position(), st.g.String())
		}
	}
	return out
}

func newScript(kind string, buckets int) *script {
	return &script{kind: kind, steps: []step{{kind: "new", buckets: buckets}}}
}

func (sc *script) add(g goStep) { sc.steps = append(sc.steps, step{kind: "go", g: g}) }
func (sc *script) clear()       { sc.steps = append(sc.steps, step{kind: "clear"}) }
func plain(rt *root, d int) goStep {
	return goStep{rt: rt, depth: d, nodes: -1, soft: -1, stop: -1, out: true, ponder: -1}
}

// ---------------------------------------------------------------------------------------------
// running the implementation

var (
	reFull  = regexp.MustCompile(`^info depth (\d+) score (cp -?\d+|mate -?\d+|Inv) nodes (\d+) time (\d+) hashfull (\d+) pv ?(.*)$`)
	reAbort = regexp.MustCompile(`^info depth (\d+) nodes (\d+)$`)
)

type infoLine struct {
	depth, nodes, hashfull int
	full                   bool
	score                  string
	pv                     []string
}

func parseInfos(out string) ([]infoLine, error) {
	var res []infoLine
	sc := bufio.NewScanner(strings.NewReader(out))
	for sc.Scan() {
		line := sc.Text()
		if m := reFull.FindStringSubmatch(line); m != nil {
			d, _ := strconv.Atoi(m[1])
			n, _ := strconv.Atoi(m[3])
			h, _ := strconv.Atoi(m[5])
			res = append(res, infoLine{depth: d, nodes: n, hashfull: h, full: true, score: m[2], pv: strings.Fields(m[6])})
			continue
		}
		if m := reAbort.FindStringSubmatch(line); m != nil {
			d, _ := strconv.Atoi(m[1])
			n, _ := strconv.Atoi(m[2])
			res = append(res, infoLine{depth: d, nodes: n})
			continue
		}
		return res, fmt.Errorf("unparsable output line %q", line)
	}
	return res, nil
}

func canonInfos(infos []infoLine) string {
	if len(infos) == 0 {
		return "-"
	}
	parts := make([]string, len(infos))
	for i, in := range infos {
		f := 0
		sc := "cp 0"
		if in.full {
			f = 1
			sc = in.score
		}
		parts[i] = fmt.Sprintf("%d:%d:%s:%d:%d:%s", in.depth, f, sc, in.nodes, in.hashfull, strings.Join(in.pv, ","))
	}
	return strings.Join(parts, ";")
}

// hitWriter passes the info lines on and sends the ponder-hit message while the at-th completed-
// iteration line is being written (the search polls the channel once after every completed
// iteration, before it writes that iteration's line).
type hitWriter struct {
	w    io.Writer
	at   int
	seen int
	ch   chan time.Time
}

func (h *hitWriter) Write(p []byte) (int, error) {
	if bytes.Contains(p, []byte(" score ")) {
		h.seen++
		if h.seen == h.at {
			h.ch <- time.Now()
		}
	}
	return h.w.Write(p)
}

// runGo performs one Go call and returns the canonical answer plus the direct property verdict.
func runGo(s *search.Search, g goStep) (canon string, nodes int, infos []infoLine, direct string) {
	b := g.rt.build()
	before := implutil.Dump(b)
	var buf bytes.Buffer
	cnt := search.Counters{}
	var w io.Writer
	var hit chan time.Time
	if g.ponder >= 0 {
		hit = make(chan time.Time, 1)
		if g.ponder == 0 {
			hit <- time.Now()
		}
	}
	if g.out {
		w = &buf
		if g.ponder > 0 {
			w = &hitWriter{w: &buf, at: g.ponder, ch: hit}
		}
	}
	opts := []search.Option{search.WithOutput(w), search.WithCounters(&cnt), search.WithDepth(Depth(g.depth))}
	if g.nodes != -1 {
		opts = append(opts, search.WithNodes(g.nodes))
	}
	if g.soft != -1 {
		opts = append(opts, search.WithSoftNodes(g.soft))
	}
	if hit != nil {
		opts = append(opts, search.WithPonderHit(hit))
	}
	switch {
	case g.stop == 0:
		ch := make(chan struct{})
		close(ch)
		opts = append(opts, search.WithStop(ch))
	case g.stop > 0:
		opts = append(opts, search.WithStop(make(chan struct{})))
	}
	var score Score
	var mv, pm move.Move
	panicked := ""
	func() {
		defer func() {
			if p := recover(); p != nil {
				panicked = fmt.Sprint(p)
			}
		}()
		score, mv, pm = s.Go(b, opts...)
	}()
	if panicked != "" {
		return "panic " + panicked, cnt.Nodes, nil, "search panicked: " + panicked
	}
	infos, err := parseInfos(buf.String())
	if err != nil {
		return "unparsable " + err.Error(), cnt.Nodes, nil, err.Error()
	}
	canon = fmt.Sprintf("%s %s %s %d %d | %s | %s", score, mv, pm, cnt.Nodes, cnt.ABNodes, canonInfos(infos), s.VerifDigest())

	// ---- direct property checks on the implementation ----
	aborted := len(infos) > 0 && !infos[len(infos)-1].full
	switch {
	case implutil.Dump(b) != before:
		direct = "C06: board not restored"
	case mv != 0 && !contains(g.rt.legal, mv):
		direct = fmt.Sprintf("C06: returned move %s is not legal", mv)
	case mv == 0 && !g.rt.final:
		direct = "C06: null move on a non-final root"
	case g.rt.drawn && !aborted && g.ponder < 0 && g.nodes < 0 && g.stop == -1 && (mv != 0 || score != 0) && len(g.rt.legal) > 0:
		// a search that ran to completion on a root drawn by the clock or by the third occurrence (counted on the
		// printed positions of the history, not by Threefold()) returns the null move with score 0
		direct = fmt.Sprintf("C06: completed search of a drawn root (halfmove clock %d, occurrence %d) returned %s with score %s", g.rt.fifty, g.rt.three, mv, score)
	case g.nodes >= 0 && cnt.Nodes > g.nodes:
		direct = fmt.Sprintf("C08: %d nodes counted with a budget of %d", cnt.Nodes, g.nodes)
	}
	if direct == "" && g.out {
		lastPV := []string(nil)
		prevNodes, prevDepth := -1, -1
		for _, in := range infos {
			if in.depth < prevDepth || in.nodes < prevNodes {
				direct = "C07: depths / node counts of the info lines not monotone"
			}
			prevNodes, prevDepth = in.nodes, in.depth
			if !in.full {
				continue
			}
			if len(in.pv) > 0 {
				lastPV = in.pv
			}
			pb := g.rt.build()
			for _, ms := range in.pv {
				m, ok := findMove(pb, ms)
				if !ok {
					direct = fmt.Sprintf("C07: reported variation %v is not legal at %s", in.pv, ms)
					break
				}
				pb.MakeMove(m)
			}
		}
		if direct == "" && !aborted && len(lastPV) > 0 && mv.String() != lastPV[0] {
			direct = fmt.Sprintf("C07: bestmove %s is not the head of the last non-empty variation %v", mv, lastPV)
		}
	}
	return canon, cnt.Nodes, infos, direct
}

// shrink lowers the depth limit of every search without a hard node budget by one (false when
// nothing is left to lower).
func (sc *script) shrink() bool {
	changed := false
	for i := range sc.steps {
		if g := &sc.steps[i].g; sc.steps[i].kind == "go" && g.nodes == -1 && g.depth > 1 {
			g.depth--
			changed = true
		}
	}
	return changed
}

// runImplCapped runs the script on the implementation; while it visits more than limit nodes its
// unbounded searches are made one ply shallower (the model replays about 2 500 nodes per second).
func (e *env) runImplCapped(sc *script, limit int) {
	e.runImpl(sc)
	for sc.total > limit && sc.shrink() {
		sc.shrunk++
		e.runImpl(sc)
	}
}

func (e *env) runImpl(sc *script) {
	var s *search.Search
	sc.impl = make([]string, len(sc.steps))
	sc.nodes = make([]int, len(sc.steps))
	sc.rawLo = make([]int, len(sc.steps))
	sc.rawHi = make([]int, len(sc.steps))
	sc.directAt = -1
	sc.direct = ""
	sc.total = 0
	for i, st := range sc.steps {
		switch st.kind {
		case "new":
			s = search.New(32 * st.buckets)
			sc.impl[i] = "ok"
		case "clear":
			s.Clear()
			sc.impl[i] = "ok"
		default:
			canon, n, _, direct := runGo(s, st.g)
			sc.impl[i] = canon
			sc.nodes[i] = n
			sc.rawLo[i], sc.rawHi[i] = realRawRange(s)
			sc.total += n
			if direct != "" && sc.direct == "" {
				sc.direct, sc.directAt = direct, i
			}
		}
	}
}

// ---------------------------------------------------------------------------------------------
// the model's answer → the implementation's canonical text

func scoreText(v int) string { return Score(v).String() }

// translate turns `score move ponder nodes abnodes fuelOut anomaly | infos | digest` (numbers) into
// the implementation's canonical text; flags are returned separately.
func translate(ans string) (canon string, fuelOut, anomaly bool, err error) {
	parts := strings.Split(ans, " | ")
	if len(parts) > 3 && strings.HasPrefix(parts[3], "nmpsane=") {
		parts = parts[:3] // the NmpSane verdict is read by saneVerdict
	}
	if len(parts) != 3 {
		return "", false, false, fmt.Errorf("model answer %q", ans)
	}
	h := strings.Fields(parts[0])
	if len(h) != 7 {
		return "", false, false, fmt.Errorf("model answer head %q", parts[0])
	}
	num := func(s string) int {
		v, e := strconv.Atoi(s)
		if e != nil {
			err = e
		}
		return v
	}
	head := fmt.Sprintf("%s %s %s %d %d", scoreText(num(h[0])), move.Move(num(h[1])), move.Move(num(h[2])), num(h[3]), num(h[4]))
	infos := "-"
	if parts[1] != "-" {
		var out []string
		for _, il := range strings.Split(parts[1], ";") {
			f := strings.Split(il, ":")
			if len(f) != 6 {
				return "", false, false, fmt.Errorf("model info %q", il)
			}
			var pv []string
			if f[5] != "" {
				for _, m := range strings.Split(f[5], ",") {
					pv = append(pv, move.Move(num(m)).String())
				}
			}
			sc := "cp 0"
			if f[1] == "1" {
				sc = scoreText(num(f[2]))
			}
			out = append(out, fmt.Sprintf("%s:%s:%s:%s:%s:%s", f[0], f[1], sc, f[3], f[4], strings.Join(pv, ",")))
		}
		infos = strings.Join(out, ";")
	}
	fl, _ := strconv.Atoi(h[6])
	return head + " | " + infos + " | " + parts[2], h[5] == "1", fl&1 != 0, err
}

// modelRawBeyond reads bit 2 of the flag field: the model's table holds a raw value beyond ±Inf after
// this search (the negation of the Lean predicate `TTValsOK`).
func modelRawBeyond(ans string) bool {
	h := strings.Fields(strings.Split(ans, " | ")[0])
	if len(h) != 7 {
		return false
	}
	fl, _ := strconv.Atoi(h[6])
	return fl&4 != 0
}

// realRawRange scans the REAL transposition table of s through the verif hooks of /repo/transp
// (`VerifBuckets` / `VerifBucket`) and returns the smallest and largest raw `Value` stored.  The
// `Search` object does not expose its table (search/export_verif.go only has `VerifDigest`), so the
// unexported field `tt *transp.Table` is reached by reflection; a hook `VerifTable()` would be cleaner.
func realRawRange(s *search.Search) (lo, hi int) {
	f := reflect.ValueOf(s).Elem().FieldByName("tt")
	tt := *(**transp.Table)(unsafe.Pointer(f.UnsafeAddr()))
	n := tt.VerifBuckets()
	for i := 0; i < n; i++ {
		_, entries := tt.VerifBucket(i)
		for _, e := range entries {
			v := int(e.Value)
			if v < lo {
				lo = v
			}
			if v > hi {
				hi = v
			}
		}
	}
	return
}

// nmpOutFlag reads bit 1 of the flag field of a `go` answer: the ghost flag `St.nmpOut` of the
// skeleton (the mate branch of null-move pruning returned a beta below -Inf+ply in this search).
func nmpOutFlag(ans string) bool {
	h := strings.Fields(strings.Split(ans, " | ")[0])
	if len(h) != 7 {
		return false
	}
	fl, _ := strconv.Atoi(h[6])
	return fl&2 != 0
}

// ttOutFlag reads bit 3 of the flag field of a `go` answer: the ghost flag `St.ttOut` of the skeleton
// (a value beyond ±max(Inf-MaxPlies, Inf-ply) was handed to a table store at `ply` in this search —
// the exact event the run-level hypothesis of the C06 score theorems for the real components excludes).
func ttOutFlag(ans string) bool {
	h := strings.Fields(strings.Split(ans, " | ")[0])
	if len(h) != 7 {
		return false
	}
	fl, _ := strconv.Atoi(h[6])
	return fl&8 != 0
}

// saneVerdict reads the ` | nmpsane=…` suffix of a `gog` answer: checked, held, and the guarded
// run's head + info lines when it differs.
func saneVerdict(ans string) (checked, held bool, guarded string) {
	i := strings.Index(ans, " | nmpsane=")
	if i < 0 {
		return false, false, ""
	}
	v := ans[i+len(" | nmpsane="):]
	if v == "1" {
		return true, true, ""
	}
	return true, false, strings.TrimPrefix(v, "0 ")
}

func diffFields(impl, model string) string {
	ip, mp := strings.Split(impl, " | "), strings.Split(model, " | ")
	if len(ip) != 3 || len(mp) != 3 {
		return "shape"
	}
	var d []string
	ih, mh := strings.Fields(ip[0]), strings.Fields(mp[0])
	// the score text has two words
	names := []string{"score", "score", "move", "ponder", "nodes", "abnodes"}
	if len(ih) == len(mh) && len(ih) == len(names) {
		for i := range ih {
			if ih[i] != mh[i] && (len(d) == 0 || d[len(d)-1] != names[i]) {
				d = append(d, names[i])
			}
		}
	} else {
		d = append(d, "head")
	}
	if ip[1] != mp[1] {
		d = append(d, "info-lines")
	}
	if ip[2] != mp[2] {
		d = append(d, "digest")
	}
	return strings.Join(d, ",")
}

// ---------------------------------------------------------------------------------------------
// generation of the scripts

func nodeBucket(n int) string {
	switch {
	case n == 0:
		return "0"
	case n < 10:
		return "1-9"
	case n < 100:
		return "10-99"
	case n < 1000:
		return "100-999"
	case n < 10000:
		return "1k-10k"
	case n < 100000:
		return "10k-100k"
	default:
		return ">=100k"
	}
}

type gen struct {
	e       *env
	p       *pools
	scripts []*script
	maxD    int
}

func (g *gen) rng() interface {
	IntN(int) int
	Perm(int) []int
} {
	return g.e.c.Rng
}

func (g *gen) buckets() int {
	switch g.rng().IntN(4) {
	case 0:
		return 4096
	case 1:
		return 1024
	default:
		return 1000 // the smallest table HashFull accepts
	}
}

func (g *gen) pick(rs []*root) *root { return rs[g.rng().IntN(len(rs))] }

// depthFor keeps searches of crowded positions shallower.
func (g *gen) depthFor(rt *root) int {
	m := men(rt.key)
	hi := g.maxD
	switch {
	case rt.class == "heavy" || m > 24:
		hi = min(hi, 3)
	case m > 12:
		hi = min(hi, 4)
	}
	return 1 + g.rng().IntN(hi)
}

func (g *gen) emit(sc *script) { g.scripts = append(g.scripts, sc) }

func (g *gen) generate() {
	r := g.rng()
	p := g.p
	T := g.e.c.Pick
	// (a) single completed searches of every root, depth 1..maxD
	for _, rt := range p.all {
		sc := newScript("single", g.buckets())
		sc.add(plain(rt, g.depthFor(rt)))
		g.emit(sc)
	}
	// (a') the deepest searches the node cap per script allows (made shallower until they fit)
	for i, rt := range p.live {
		if i%T(3, 1) != 0 {
			continue
		}
		sc := newScript("single-deep", g.buckets())
		sc.add(plain(rt, g.maxD+T(0, 1)))
		g.emit(sc)
	}
	// (b) hard node budgets: EVERY k in 0..K on a fresh engine each …
	for i := 0; i < T(14, 60); i++ {
		rt := g.pick(p.live)
		d := 1 + r.IntN(g.maxD)
		K := T(40, 120)
		bk := g.buckets()
		for k := 0; k <= K; k++ {
			sc := newScript("budget-fresh", bk)
			gs := plain(rt, d)
			gs.nodes = k
			sc.add(gs)
			g.emit(sc)
		}
	}
	// … and chained on ONE engine (k = 0,1,2,…: every search starts from the tables the aborted ones left),
	// finished by a completed search
	for i := 0; i < T(16, 50); i++ {
		rt := g.pick(p.live)
		d := 2 + r.IntN(g.maxD-1)
		sc := newScript("budget-chain", g.buckets())
		K := T(60, 150)
		for k := 0; k <= K; k++ {
			gs := plain(rt, d)
			gs.nodes = k
			sc.add(gs)
		}
		sc.add(plain(rt, min(d, g.depthFor(rt))))
		g.emit(sc)
	}
	// … and random larger budgets
	for i := 0; i < T(80, 600); i++ {
		rt := g.pick(p.live)
		sc := newScript("budget-random", g.buckets())
		gs := plain(rt, 2+r.IntN(g.maxD-1))
		gs.nodes = 100 + r.IntN(T(6000, 40000))
		sc.add(gs)
		if r.IntN(2) == 0 { // the same root again, completed, on the tables of the aborted search
			sc.add(plain(rt, g.depthFor(rt)))
		}
		g.emit(sc)
	}
	// (c) soft node limits (with and without a hard budget), stop channel variants, output off
	for i := 0; i < T(30, 150); i++ {
		rt := g.pick(p.live)
		sc := newScript("soft", g.buckets())
		gs := plain(rt, g.maxD)
		gs.soft = []int{0, 1, 5, 20, 100, 500, 2000}[r.IntN(7)]
		switch r.IntN(4) {
		case 0: // both limits, the hard budget at or above the soft one
			gs.nodes = gs.soft + r.IntN(200)
		case 1: // both limits, the hard budget BELOW the soft one (it must still never be exceeded)
			gs.nodes = r.IntN(gs.soft + 1)
		}
		if men(rt.key) > 12 && gs.soft == 0 && gs.nodes == -1 {
			gs.depth = min(gs.depth, 3)
		}
		sc.add(gs)
		g.emit(sc)
	}
	for i := 0; i < T(24, 100); i++ {
		rt := g.pick(p.all)
		sc := newScript("stop", g.buckets())
		gs := plain(rt, g.depthFor(rt))
		gs.stop = []int{0, 0, openStop}[r.IntN(3)]
		gs.out = r.IntN(3) != 0
		if r.IntN(3) == 0 {
			gs.nodes = r.IntN(300)
		}
		sc.add(gs)
		if r.IntN(2) == 0 { // then a normal search on the same engine
			sc.add(plain(g.pick(p.all), 2))
		}
		g.emit(sc)
	}
	for i := 0; i < T(12, 50); i++ {
		rt := g.pick(p.all)
		sc := newScript("output-off", g.buckets())
		gs := plain(rt, g.depthFor(rt))
		gs.out = false
		if r.IntN(2) == 0 {
			gs.nodes = r.IntN(2000)
		}
		sc.add(gs)
		sc.add(plain(rt, 2))
		g.emit(sc)
	}
	// ponder searches: the hit message is received by the k-th poll (after the k-th completed iteration);
	// until then depth limit, node budget and soft limit are ignored (the budget must still not be exceeded)
	for i := 0; i < T(60, 240); i++ {
		rt := g.pick(p.live)
		sc := newScript("ponder", g.buckets())
		gs := plain(rt, 1+r.IntN(3))
		gs.ponder = r.IntN(min(g.depthFor(rt), 4) + 1)
		switch r.IntN(6) {
		case 0:
			gs.nodes = r.IntN(60)
		case 1:
			gs.nodes = 100 + r.IntN(3000)
		case 2:
			gs.soft = 1 + r.IntN(20)
		case 3:
			gs.soft = 1 + r.IntN(500)
		case 4: // both, in either order
			gs.soft = 1 + r.IntN(500)
			gs.nodes = r.IntN(700)
		}
		if gs.ponder == 0 && r.IntN(2) == 0 {
			gs.out = false
		}
		sc.add(gs)
		if r.IntN(2) == 0 {
			sc.add(plain(rt, 2))
		}
		g.emit(sc)
	}
	// (d) games on one engine: search, play the best move (or a random one), search the successor …;
	// now and then an aborted search, a repeated root, a Clear
	for i := 0; i < T(30, 120); i++ {
		rt := g.pick(p.live)
		sc := newScript("game", g.buckets())
		n := 3 + r.IntN(T(6, 12))
		cur := rt
		probe := search.New(32000)
		for j := 0; j < n && !cur.final; j++ {
			gs := plain(cur, min(g.depthFor(cur), 4))
			switch r.IntN(6) {
			case 0:
				gs.nodes = r.IntN(400)
			case 1:
				gs.soft = 1 + r.IntN(300)
			}
			sc.add(gs)
			if r.IntN(8) == 0 {
				sc.clear()
			}
			if r.IntN(6) == 0 {
				sc.add(plain(cur, 1+r.IntN(3))) // same root again
			}
			// successor: the engine's choice at depth 2 (independent instance) or a random legal move
			var m move.Move
			if r.IntN(3) != 0 {
				b := cur.build()
				_, m, _ = probe.Go(b, search.WithOutput(nil), search.WithDepth(2))
			}
			if m == 0 || !contains(cur.legal, m) {
				m = cur.legal[r.IntN(len(cur.legal))]
			}
			cur = g.e.extend(cur, cur.class, m)
		}
		if !cur.final || r.IntN(2) == 0 {
			sc.add(plain(cur, 2))
		}
		g.emit(sc)
	}
	// (e) D8-style histories: every successor of a few-reply root cut short at a small budget, then the root
	for i := 0; i < T(16, 60) && len(p.fewReply) > 0; i++ {
		rt := g.pick(p.fewReply)
		sc := newScript("successors-then-root", g.buckets())
		for _, m := range rt.legal {
			succ := g.e.extend(rt, rt.class, m)
			gs := plain(succ, 1+r.IntN(3))
			gs.nodes = r.IntN(41)
			if r.IntN(5) == 0 {
				gs.stop = 0
			}
			sc.add(gs)
		}
		sc.add(plain(rt, 1+r.IntN(min(g.maxD, 4))))
		g.emit(sc)
	}
	// (f) many roots through one engine (table pollution across unrelated positions, generation wrap)
	for i := 0; i < T(8, 30); i++ {
		sc := newScript("tour", g.buckets())
		n := T(12, 40)
		for j := 0; j < n; j++ {
			rt := g.pick(p.all)
			gs := plain(rt, 1+r.IntN(3))
			if r.IntN(4) == 0 {
				gs.nodes = r.IntN(200)
			}
			sc.add(gs)
			if r.IntN(15) == 0 {
				sc.clear()
			}
		}
		g.emit(sc)
	}
	// generation counter wrap (a byte): > 256 searches on one engine, cheap ones
	for i := 0; i < T(1, 4); i++ {
		sc := newScript("gen-wrap", 1000)
		rs := []*root{g.pick(p.cheap), g.pick(p.cheap), g.pick(p.live)}
		for j := 0; j < 270; j++ {
			gs := plain(rs[j%3], 1+j%2)
			if j%7 == 3 {
				gs.nodes = j % 50
			}
			sc.add(gs)
		}
		g.emit(sc)
	}
	// (g) deep searches of small positions (long variations, mate scores, null-move / LMR / IIR territory)
	for i := 0; i < T(30, 300) && len(p.cheap) > 0; i++ {
		rt := g.pick(p.cheap)
		sc := newScript("deep-small", g.buckets())
		gs := plain(rt, g.maxD+1+r.IntN(3))
		gs.nodes = T(8000, 60000)
		sc.add(gs)
		g.emit(sc)
	}
	// (i) mate band: aims at the precondition of NmpSane (null-move pruning reached with beta <= -Inf+MaxPlies at
	// d > NMPDepthLimit): roots with a forced mate are searched shallow (the mate score enters the table and
	// raises alpha into the mate band at the root) and then deeper on the same engine; after the mating move
	// is found the remaining moves are searched with windows inside the mate band.
	var mating []*root
	for _, rt := range p.live {
		if rt.class == "mate" || rt.class == "mate-band" || rt.class == "heavy" || (rt.class == "few-reply" && rt.check) || rt.class == "kingnet" {
			mating = append(mating, rt)
		}
	}
	for i := 0; i < T(40, 200) && len(mating) > 0; i++ {
		rt := g.pick(mating)
		sc := newScript("mate-band", g.buckets())
		lo := 2 + r.IntN(2)
		sc.add(plain(rt, lo))
		hi := plain(rt, lo+1+r.IntN(3))
		if r.IntN(3) == 0 {
			hi.nodes = 200 + r.IntN(4000)
		}
		sc.add(hi)
		if r.IntN(2) == 0 && len(rt.legal) > 0 { // and the successor after a random reply: the mate seen from the other side
			sc.add(plain(g.e.extend(rt, rt.class, rt.legal[r.IntN(len(rt.legal))]), lo+1))
		}
		g.emit(sc)
	}
	// (k) regression corpus: the script on which the ghost flag `nmpOut` was first seen raised (quick tier, seed 2
	// of the previous generator): mate in 1 at the root, null-move mate branch with beta below -Inf+ply in the
	// second search.  No raw table value beyond ±Inf results on the real engine.
	if rt := g.e.mkRoot("mate-band", "r3kq2/1RQ3p1/6p1/4N3/4R3/1Q1nK3/2QnpP2/3Nn3 w q - 0 30", nil); rt != nil {
		sc := newScript("nmpout-corpus", 4096)
		sc.add(plain(rt, 3))
		hi := plain(rt, 5)
		hi.nodes = 441
		sc.add(hi)
		g.emit(sc)
	}
	// (j) double mating nets: a shallow search (mate scores enter the table and the root's alpha), a deeper one on
	// the same engine (sibling lines are searched with beta below the mated-at-this-ply score; a node of
	// such a line that mates after passing takes the null-move mate branch; its parent's fail-low store
	// would hand the table an out-of-band mate score), then successors — preferring few-reply ones — on the
	// same engine (a later probe of such an entry at a small ply is what could make a root fail low).
	dbl := p.byClass["double-net"]
	for i := 0; i < T(60, 500) && len(dbl) > 0; i++ {
		rt := g.pick(dbl)
		sc := newScript("double-net", g.buckets())
		lo := 2 + r.IntN(3)
		sc.add(plain(rt, lo))
		hi := plain(rt, lo+2+r.IntN(3))
		hi.nodes = 1500 + r.IntN(T(4000, 12000))
		sc.add(hi)
		// successors on the same engine
		var succ []move.Move
		for _, ix := range r.Perm(len(rt.legal)) {
			succ = append(succ, rt.legal[ix])
		}
		var few, other []*root
		for k := 0; k < len(succ) && k < 12; k++ {
			n := g.e.extend(rt, "double-net-succ", succ[k])
			if n.final {
				continue
			}
			if len(n.legal) <= 2 {
				few = append(few, n)
			} else {
				other = append(other, n)
			}
		}
		cand := append(few, other...)
		for k := 0; k < len(cand) && k < 2+r.IntN(2); k++ {
			gs := plain(cand[k], 2+r.IntN(3))
			gs.nodes = 800 + r.IntN(3000)
			sc.add(gs)
		}
		g.emit(sc)
	}
	// (k) roots with an uncapturable en-passant target (the captured pawn shields the king): shallow searches on
	// a fresh engine, where the illegal capture is a root move, then one ply deeper
	var shield []*root
	for _, c := range []string{"ep-shield-diag", "ep-shield-diag-two", "ep-shield-aligned"} {
		shield = append(shield, p.byClass[c]...)
	}
	for i := 0; i < T(60, 300) && len(shield) > 0; i++ {
		rt := shield[i%len(shield)]
		sc := newScript("ep-shield", g.buckets())
		sc.add(plain(rt, 1+r.IntN(2)))
		gs := plain(rt, 3+r.IntN(2))
		gs.nodes = 1000 + r.IntN(3000)
		sc.add(gs)
		g.emit(sc)
	}
	// (h) very deep searches of positions with a handful of men: the depth-gated rules (reverse futility
	// d < 8, internal iterative reduction d > 5, late-move reduction table rows up to 12) at their limits
	for i := 0; i < T(24, 120) && len(p.tiny) > 0; i++ {
		rt := g.pick(p.tiny)
		sc := newScript("deep-tiny", g.buckets())
		gs := plain(rt, 9+r.IntN(4))
		gs.nodes = T(4000, 40000)
		sc.add(gs)
		g.emit(sc)
	}
}

// ---------------------------------------------------------------------------------------------

func (e *env) countStep(sc *script, i int) {
	st := sc.steps[i]
	if st.kind != "go" {
		e.r.Count("op:"+st.kind, 1)
		return
	}
	g := st.g
	e.r.Count("searches", 1)
	e.r.Count(fmt.Sprintf("depth-limit:%d", g.depth), 1)
	e.r.Count("nodes:"+nodeBucket(sc.nodes[i]), 1)
	e.r.Count(fmt.Sprintf("buckets:%d", sc.steps[0].buckets), 1)
	if g.nodes >= 0 {
		e.r.Count("limit:hard-budget", 1)
		if sc.nodes[i] == g.nodes {
			e.r.Count("abort:budget-exhausted", 1)
		}
	}
	if g.soft >= 0 {
		e.r.Count("limit:soft-nodes", 1)
	}
	switch {
	case g.stop == 0:
		e.r.Count("limit:stop-closed-before-start", 1)
	case g.stop > 0:
		e.r.Count("limit:stop-open", 1)
	}
	if !g.out {
		e.r.Count("limit:output-nil", 1)
	}
	if g.ponder >= 0 {
		e.r.Count("limit:ponder", 1)
	}
	parts := strings.Split(sc.impl[i], " | ")
	if len(parts) == 3 {
		if strings.HasPrefix(parts[0], "mate") {
			e.r.Count("result:mate-score", 1)
		}
		if h := strings.Fields(parts[0]); len(h) == 6 && h[2] == "0000" {
			e.r.Count("result:null-move", 1)
		}
		infos := strings.Split(parts[1], ";")
		last := infos[len(infos)-1]
		if f := strings.Split(last, ":"); len(f) == 6 {
			if f[1] == "0" {
				e.r.Count("abort:at-iteration-"+f[0], 1)
			} else {
				e.r.Count("completed:last-iteration-"+f[0], 1)
				if h, _ := strconv.Atoi(f[4]); h > 0 {
					e.r.Count("hashfull>0", 1)
				}
			}
		}
	}
	if g.rt.final {
		e.r.Count("search-of-final-root", 1)
	}
}

func main() {
	c := common.Parse()
	e := &env{c: c, seen: map[string]bool{}}
	switch *suite {
	case "":
	case "spsa":
		e.spsaMain()
		return
	default:
		fmt.Fprintln(os.Stderr, "searchx: unknown suite", *suite)
		os.Exit(2)
	}
	e.r = common.NewResult(c, "searchx", "C06", "C07", "C08")
	e.r.Rule = "a search (root + played history, limits, engine history on one instance) that visited at least 100 nodes and whose score, move, ponder, Nodes, ABNodes, every info line (depth, score, nodes, hashfull, pv) and state digest (all TT buckets, all history cells, generation) were compared between search.Go and Search.go (realComp)"
	if c.Driver == "" {
		c.Driver = "/verif/lean/.lake/build/bin/drv_searchreal"
	}
	boardDrv := filepath.Join(filepath.Dir(c.Driver), "drv_board")
	if _, err := os.Stat(boardDrv); err != nil {
		fmt.Fprintln(os.Stderr, "searchx: the board driver is missing:", boardDrv)
		os.Exit(2)
	}
	e.bm = common.StartModel(boardDrv)
	if a := e.bm.Ask(implutil.KeysLine()); a != "ok" {
		panic("drv_board did not accept the keys: " + a)
	}
	pools := e.collect()
	g := &gen{e: e, p: pools, maxD: c.Pick(5, 6)}
	g.generate()
	e.bm.Close()
	scripts := g.scripts
	if *only != "" {
		var f []*script
		for _, sc := range scripts {
			if strings.HasPrefix(sc.kind, *only) {
				f = append(f, sc)
			}
		}
		scripts = f
	}

	every := *saneOf
	if every == 0 {
		every = c.Pick(3, 2)
	}
	for i, sc := range scripts {
		sc.guard = strings.HasPrefix(sc.kind, "mate-band") || (every > 0 && i%every == 0)
		if every < 0 {
			sc.guard = false
		}
	}

	nw := *workers
	if nw <= 0 {
		nw = min(runtime.NumCPU(), 16)
	}
	// the model replays about 2 500 nodes per second and process: node budgets per worker
	limit := *budget
	if limit == 0 {
		limit = nw * c.Pick(45000, 700000)
	}
	perScript := c.Pick(12000, 200000)
	// ---- phase 1: the implementation (fast), in parallel ----
	t0 := time.Now()
	{
		var wg sync.WaitGroup
		ch := make(chan *script)
		for w := 0; w < nw; w++ {
			wg.Add(1)
			go func() {
				defer wg.Done()
				for sc := range ch {
					e.runImplCapped(sc, perScript)
				}
			}()
		}
		for _, sc := range scripts {
			ch <- sc
		}
		close(ch)
		wg.Wait()
	}
	implS := time.Since(t0).Seconds()

	// ---- node budget of the model replay (a safety net; the generators aim below it): the most
	// expensive scripts are dropped first until the rest fits ----
	{
		idx := make([]int, len(scripts))
		spent := 0
		for i, sc := range scripts {
			idx[i] = i
			spent += sc.cost()
		}
		sort.SliceStable(idx, func(a, b int) bool { return scripts[idx[a]].cost() > scripts[idx[b]].cost() })
		for _, i := range idx {
			if spent <= limit {
				break
			}
			scripts[i].skipped = true
			spent -= scripts[i].cost()
		}
	}

	// ---- phase 2: the model, longest scripts first ----
	var todo []*script
	for _, sc := range scripts {
		if sc.skipped {
			e.r.Count("scripts-skipped-over-budget:"+sc.kind, 1)
			continue
		}
		todo = append(todo, sc)
	}
	order := make([]int, len(todo))
	for i := range order {
		order[i] = i
	}
	sort.SliceStable(order, func(a, b int) bool { return todo[order[a]].cost() > todo[order[b]].cost() })
	answers := make([][]string, len(todo))
	t1 := time.Now()
	{
		var wg sync.WaitGroup
		ch := make(chan int)
		keys := implutil.KeysLine()
		for w := 0; w < nw; w++ {
			wg.Add(1)
			go func() {
				defer wg.Done()
				m := common.StartModel(c.Driver)
				defer func() {
					tc := time.Now()
					m.Close()
					if *verbose {
						fmt.Fprintf(os.Stderr, "[%6.1fs] worker closed (close took %.1fs)\n", time.Since(t1).Seconds(), time.Since(tc).Seconds())
					}
				}()
				if a := m.Ask(keys); a != "ok" {
					panic("drv_searchreal did not accept the keys: " + a)
				}
				for i := range ch {
					sc := todo[i]
					lines := make([]string, len(sc.steps))
					for j, st := range sc.steps {
						switch st.kind {
						case "new":
							lines[j] = fmt.Sprintf("new %d", st.buckets)
						case "clear":
							lines[j] = "clear"
						default:
							lines[j] = st.g.modelLine()
							if sc.guard {
								lines[j] = "gog" + lines[j][2:]
							}
						}
					}
					if m.Dead {
						m = common.StartModel(c.Driver)
						m.Ask(keys)
					}
					answers[i] = m.Batch(lines)
					if *verbose {
						fmt.Fprintf(os.Stderr, "[%6.1fs] %-22s %4d steps %8d nodes\n", time.Since(t1).Seconds(), sc.kind, len(sc.steps), sc.total)
					}
				}
			}()
		}
		for _, i := range order {
			ch <- i
		}
		close(ch)
		wg.Wait()
	}
	modelS := time.Since(t1).Seconds()

	// ---- comparison (in generation order: deterministic report) ----
	saneReported := map[*script]bool{}
	var saneNotes, saneDiffNotes []string
	totalNodes := 0
	for i, sc := range todo {
		e.r.Count("scripts:"+sc.kind, 1)
		e.r.Count("script-nodes:"+sc.kind, sc.total)
		if sc.shrunk > 0 {
			e.r.Count("scripts-made-shallower", 1)
		}
		bad := false
		for j := range sc.steps {
			e.countStep(sc, j)
			if bad {
				continue
			}
			impl, ans := sc.impl[j], answers[i][j]
			model := ans
			var fuelOut, anomaly bool
			if sc.steps[j].kind == "go" {
				e.r.Evaluations++
				totalNodes += sc.nodes[j]
				var err error
				model, fuelOut, anomaly, err = translate(ans)
				if err != nil {
					model = "untranslatable: " + ans
				}
				if fuelOut {
					e.r.Count("model:fuelOut", 1)
				}
				if anomaly {
					e.r.Count("model:anomaly-flag", 1)
				}
				// the table invariant `TTValsOK` (raw values within ±Inf), measured on the REAL table and on the model's
				e.r.Count("real:raw-range-checked", 1)
				realOut := sc.rawLo[j] < -int(Inf) || sc.rawHi[j] > int(Inf)
				if sc.rawHi[j] > int(Inf)-int(MaxPlies) || sc.rawLo[j] < -int(Inf)+int(MaxPlies) {
					e.r.Count("real:raw-mate-score-in-table", 1)
				}
				if realOut {
					e.r.Count("real:raw-beyond-inf", 1)
				}
				if modelRawBeyond(ans) {
					e.r.Count("model:raw-beyond-inf", 1)
				}
				if (realOut || modelRawBeyond(ans)) && !bad {
					bad = true
					e.r.Fail(common.Mismatch{Property: "C06", Kind: "broken-correspondence", Ops: sc.ops(j), Impl: impl, Model: ans,
						Note: fmt.Sprintf("TTValsOK violated: raw table values beyond ±Inf after this search (real table range [%d, %d], model flag %v) — the event the nmpOut / ttOut hypothesis guards against", sc.rawLo[j], sc.rawHi[j], modelRawBeyond(ans))})
				}
				e.r.Count("model:nmpOut-checked", 1)
				if nmpOutFlag(ans) {
					e.r.Count("model:nmpOut-raised", 1)
					e.r.Count("model:nmpOut-raised:"+sc.kind, 1)
					e.r.Sample(map[string]any{"nmpOut-raised": fmt.Sprintf("script %d step %d", i, j), "kind": sc.kind, "ops": sc.ops(len(sc.steps)), "answer": ans}, 20)
				}
				// the run-level hypothesis of the real score theorems: no out-of-band value was handed to a table store
				e.r.Count("model:ttOut-checked", 1)
				if sc.kind == "nmpout-corpus" && j == len(sc.steps)-1 {
					// the regression script must keep raising nmpOut (and must not raise ttOut): it is the witness that
					// `ttOut = false` is strictly weaker than `nmpOut = false`
					e.r.Count("nmpout-corpus:checked", 1)
					if !nmpOutFlag(ans) && !bad {
						bad = true
						e.r.Fail(common.Mismatch{Property: "C06", Kind: "broken-correspondence", Ops: sc.ops(j), Impl: impl, Model: ans,
							Note: "regression script nmpout-corpus no longer raises the ghost flag nmpOut (the witness that the hypothesis ttOut = false is weaker than nmpOut = false is gone)"})
					}
				}
				if ttOutFlag(ans) {
					e.r.Count("model:ttOut-raised", 1)
					e.r.Count("model:ttOut-raised:"+sc.kind, 1)
					if !bad {
						bad = true
						e.r.Fail(common.Mismatch{Property: "C06", Kind: "broken-correspondence", Ops: sc.ops(j), Impl: impl, Model: ans,
							Note: fmt.Sprintf("ghost flag ttOut raised: a value beyond ±max(Inf-MaxPlies, Inf-ply) was handed to a table store in this search (first observed out-of-band store; the hypothesis of go_*_real fails on this run; real table range [%d, %d])", sc.rawLo[j], sc.rawHi[j])})
					}
				}
				if checked, held, guarded := saneVerdict(ans); checked {
					e.r.Count("nmpsane-checked", 1)
					e.r.Count("nmpsane-checked:"+sc.kind, 1)
					if held {
						e.r.Count("nmpsane-held", 1)
					} else {
						e.r.Count("nmpsane-failed", 1)
						e.r.Count("nmpsane-failed:"+sc.kind, 1)
						uh, gh := strings.Fields(strings.Split(ans, " | ")[0]), strings.Fields(strings.Split(guarded, " | ")[0])
						if len(uh) >= 3 && len(gh) >= 3 && uh[0] == gh[0] && uh[1] == gh[1] && uh[2] == gh[2] {
							e.r.Count("nmpsane-failed:but-same-score-move-ponder", 1)
						} else if len(uh) >= 2 && len(gh) >= 2 && uh[0] == gh[0] && uh[1] == gh[1] {
							e.r.Count("nmpsane-failed:but-same-score-move", 1)
						} else {
							e.r.Count("nmpsane-failed:score-or-move-differs", 1)
							if len(saneDiffNotes) < 5 {
								saneDiffNotes = append(saneDiffNotes, fmt.Sprintf("NmpSane fails WITH A DIFFERENT SCORE OR MOVE: %s  ||  unguarded (= search.go): %s  ||  guarded (realCompG): %s",
									strings.Join(sc.ops(j), " ; "), strings.Join(strings.Split(ans, " | ")[:2], " | "), guarded))
							}
						}
						if !saneReported[sc] {
							saneReported[sc] = true
							e.r.Count("nmpsane-failed-scripts", 1)
							mm := common.Mismatch{Property: "C06", Kind: "broken-correspondence", Ops: sc.ops(j), Impl: impl,
								Model: "unguarded (= search.go): " + strings.Join(strings.Split(ans, " | ")[:2], " | ") + "  ||  guarded (realCompG): " + guarded,
								Note:  "script kind " + sc.kind + "; NmpSane fails on this script: null-move pruning fired inside the mate band (the guarded record realCompG, for which the C06 score theorems are proved, searches differently from realComp / search.go; implementation and unguarded model still agree)"}
							if *saneStrict {
								e.r.Fail(mm)
							} else if len(saneNotes) < 5 {
								saneNotes = append(saneNotes, fmt.Sprintf("NmpSane fails: %s  ||  %s", strings.Join(mm.Ops, " ; "), mm.Model))
							}
						}
					}
				}
				if sc.nodes[j] >= 100 {
					e.r.Nontrivial(sc.steps[j].g.rt.position() + "|" + sc.steps[j].g.String() + "|" + strconv.Itoa(j) + "|" + sc.impl[max(j-1, 0)])
				}
			}
			if impl != model || fuelOut {
				bad = true
				kind := "broken-correspondence"
				note := "fields that differ: " + diffFields(impl, model) + "; no direct violation of C06/C07/C08 by the implementation in this script"
				if sc.direct != "" {
					kind = "failing-input"
					note = fmt.Sprintf("fields that differ: %s; the implementation also violates the property directly at step %d: %s", diffFields(impl, model), sc.directAt, sc.direct)
				}
				if fuelOut {
					note += "; model ran out of fuel"
				}
				e.r.Fail(common.Mismatch{Property: "C06", Kind: kind, Ops: sc.ops(j), Impl: impl, Model: model, Note: "script kind " + sc.kind + "; " + note})
				e.r.Count("mismatch:"+sc.kind, 1)
			}
		}
		if !bad && sc.direct != "" {
			// model and implementation agree but the implementation contradicts a property directly
			e.r.Fail(common.Mismatch{Property: sc.direct[:3], Kind: "failing-input", Ops: sc.ops(sc.directAt), Impl: sc.impl[sc.directAt],
				Model: "(agrees with the implementation)", Note: "direct property check: " + sc.direct})
			e.r.Count("direct-violation", 1)
		}
		if len(e.r.Samples) < 6 && len(sc.steps) > 1 && sc.total > 50 {
			e.r.Sample(map[string]any{"kind": sc.kind, "ops": sc.ops(min(len(sc.steps)-1, 3)), "answer": sc.impl[min(len(sc.steps)-1, 1)]}, 6)
		}
	}
	e.r.Count("nodes-replayed-by-model", totalNodes)
	e.r.Count("nodes-budget", limit)
	e.r.Notes = append(e.r.Notes,
		fmt.Sprintf("%d scripts (%d searches, %d nodes) replayed by %d model processes in %.1f s (%.0f nodes/s per process on average); implementation side %.1f s",
			len(todo), e.r.Evaluations, totalNodes, nw, modelS, float64(totalNodes)/modelS/float64(nw), implS),
		fmt.Sprintf("NmpSane (Search.go (realComp K) = Search.go (realCompG K shipped): all fields of the answer and the digest) measured on %d searches: held on %d, failed on %d (in %d scripts); failures are mismatches only with -nmpsane-strict",
			e.r.Histogram["nmpsane-checked"], e.r.Histogram["nmpsane-held"], e.r.Histogram["nmpsane-failed"], e.r.Histogram["nmpsane-failed-scripts"]),
		"mismatch classification: failing-input only when a direct C06/C07/C08 check on the implementation fails in the same script; otherwise broken-correspondence")
	e.r.Notes = append(e.r.Notes, saneDiffNotes...)
	e.r.Notes = append(e.r.Notes, saneNotes...)
	e.r.Write(c)
}
