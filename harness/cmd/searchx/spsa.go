// Suite `searchx -suite spsa` (result name "searchx/spsa", property C06): the exact differential tie
// of main.go for the SPSA BUILD.  The binary must be built with `-tags "verif spsa"`
// (`/verif/bin/build-harness searchx /repo -tags "verif spsa"`): the thirteen values of /repo/params are
// variables then, changed by `params.Set` (UCI `setoption`) within the ranges declared in the
// `tunables` table of params/spsa.go.  The property quantifies over "the spsa build with in-range
// parameter values"; the Lean side is `SearchReal.realCompP K Eval.shipped P` (Model/SearchRealP.lean),
// selected in the driver by the request `params <13 integers>`.
//
// For each parameter vector of {defaults, every parameter at its minimum, every parameter at its
// maximum, each parameter alone at its minimum / maximum, random in-range vectors}:
//
//   - the REAL engine's parameters are set with `params.Set(name, value)` (as `setoption` does) and the
//     variables are read back (`params.NMPDiffFactor`, …): every one must hold the value set under ITS
//     name;
//   - the same vector is sent to the driver;
//   - a slice of the script kinds of main.go runs on both sides with the comparison of main.go: score,
//     move, ponder, Nodes, ABNodes, every info line and the digest of tables + histories after every
//     search: chained and fresh hard-budget sweeps, games with aborted / soft-limited searches and
//     `Clear`, the D8 pattern, deep searches of few-men positions (null move, LMR, IIR, reverse
//     futility at their depth gates), plain searches.
//
// A Go panic of the real search (division by zero in the null-move reduction, index out of range in
// `lmr`, …) is a direct violation of C06 ("the search returns a legal move"): `failing-input`.
// At start the table the binary prints (`params.UCIOptions()`) is compared with the REGENERATED table
// the Lean theorems are about (driver request `spsa-table`).  The defaults are restored at the end.
package main

import (
	"flag"
	"fmt"
	"os"
	"path/filepath"
	"runtime"
	"sort"
	"strconv"
	"strings"
	"sync"
	"time"

	"github.com/paulsonkoly/chess-3/params"

	"verifharness/common"
	"verifharness/implutil"
)

// the order of the fields of `SearchReal.Params` = the order of the `tunables` table
var spsaNames = []string{"NMPDiffFactor", "NMPDepthLimit", "NMPInit", "RFPDepthLimit", "RFPScoreFactor", "WindowSize",
	"LMRStart", "StandPatDelta", "HistBonusMul", "HistBonusLin", "HistAdjRange", "HistAdjReduction", "IIRDepthLimit"}

// spsaVector reads the thirteen identifiers themselves (constants in the default build, variables in
// the spsa build): what search.go and heur.go will read.
func spsaVector() []int {
	return []int{params.NMPDiffFactor, params.NMPDepthLimit, params.NMPInit, params.RFPDepthLimit, params.RFPScoreFactor,
		params.WindowSize, params.LMRStart, params.StandPatDelta, params.HistBonusMul, params.HistBonusLin,
		params.HistAdjRange, params.HistAdjReduction, params.IIRDepthLimit}
}

// -spsa-blind <Name>|all: sensitivity diagnostic — the model is sent the DEFAULT for this parameter
// whatever the real engine was set to; every vector that changes it should then produce a mismatch.
var blind = flag.String("spsa-blind", "", "diagnostic (suite spsa): do not tell the model about this parameter (or `all`)")

// -spsa-vector <tag>: diagnostic — generate everything (the PRNG stream stays the same) but run only the
// scripts of this vector (and, with -only, of this kind); with -v the model requests are printed.
var onlyVec = flag.String("spsa-vector", "", "diagnostic (suite spsa): run only the scripts of the vector with this tag")

type tunable struct {
	name          string
	def, min, max int
}

// parseTunables reads `option name X type spin default D min A max B` lines.
func parseTunables(text string) ([]tunable, error) {
	var out []tunable
	for _, l := range strings.Split(strings.TrimSpace(text), "\n") {
		f := strings.Fields(l)
		if len(f) != 11 || f[0] != "option" || f[1] != "name" || f[3] != "type" || f[4] != "spin" || f[5] != "default" || f[7] != "min" || f[9] != "max" {
			return nil, fmt.Errorf("unexpected option line %q", l)
		}
		d, e1 := strconv.Atoi(f[6])
		a, e2 := strconv.Atoi(f[8])
		b, e3 := strconv.Atoi(f[10])
		if e1 != nil || e2 != nil || e3 != nil {
			return nil, fmt.Errorf("unexpected option line %q", l)
		}
		out = append(out, tunable{f[2], d, a, b})
	}
	return out, nil
}

func vecStr(v []int) string {
	s := make([]string, len(v))
	for i, x := range v {
		s[i] = strconv.Itoa(x)
	}
	return strings.Join(s, " ")
}

type pvec struct {
	tag string
	v   []int
}

// setOps is the op sequence that produces the vector (as UCI commands), defaults omitted.
func setOps(tun []tunable, v []int) []string {
	ops := []string{"build -tags spsa"}
	for i, t := range tun {
		if v[i] != t.def {
			ops = append(ops, fmt.Sprintf("setoption name %s value %d", t.name, v[i]))
		}
	}
	return ops
}

// applyVector calls params.Set for every name (in table order) and returns the variables afterwards.
func applyVector(tun []tunable, v []int) (after []int, err error) {
	for i, t := range tun {
		if e := params.Set(t.name, v[i]); e != nil && err == nil {
			err = fmt.Errorf("params.Set(%q, %d): %v", t.name, v[i], e)
		}
	}
	return spsaVector(), err
}

func eqInts(a, b []int) bool {
	if len(a) != len(b) {
		return false
	}
	for i := range a {
		if a[i] != b[i] {
			return false
		}
	}
	return true
}

type spsaScript struct {
	sc  *script
	vec *pvec
}

// spsaScripts is the slice of the script kinds of gen.generate that runs under every vector.
func (g *gen) spsaScripts() []*script {
	r := g.rng()
	p := g.p
	T := g.e.c.Pick
	var out []*script
	emit := func(sc *script) { out = append(out, sc) }
	// plain searches
	for i := 0; i < T(2, 4); i++ {
		rt := g.pick(p.all)
		sc := newScript("single", g.buckets())
		sc.add(plain(rt, g.depthFor(rt)))
		emit(sc)
	}
	// every hard budget k = 0..K, chained on one engine, then a completed search
	for i := 0; i < T(1, 2); i++ {
		rt := g.pick(p.live)
		d := 2 + r.IntN(g.maxD-1)
		sc := newScript("budget-chain", g.buckets())
		K := T(24, 60)
		for k := 0; k <= K; k++ {
			gs := plain(rt, d)
			gs.nodes = k
			sc.add(gs)
		}
		sc.add(plain(rt, min(d, g.depthFor(rt))))
		emit(sc)
	}
	// … and on fresh engines
	{
		rt := g.pick(p.live)
		d := 2 + r.IntN(g.maxD-1)
		bk := g.buckets()
		K := T(10, 30)
		for k := 0; k <= K; k++ {
			sc := newScript("budget-fresh", bk)
			gs := plain(rt, d)
			gs.nodes = k
			sc.add(gs)
			emit(sc)
		}
	}
	// larger random budgets, then the same root completed on the tables of the aborted search
	for i := 0; i < T(2, 4); i++ {
		rt := g.pick(p.live)
		sc := newScript("budget-random", g.buckets())
		gs := plain(rt, 2+r.IntN(g.maxD-1))
		gs.nodes = 100 + r.IntN(T(1500, 8000))
		sc.add(gs)
		if r.IntN(2) == 0 {
			sc.add(plain(rt, min(3, g.depthFor(rt))))
		}
		emit(sc)
	}
	// games on one engine
	for i := 0; i < T(1, 2); i++ {
		rt := g.pick(p.live)
		sc := newScript("game", g.buckets())
		n := 3 + r.IntN(T(3, 8))
		cur := rt
		for j := 0; j < n && !cur.final; j++ {
			gs := plain(cur, min(g.depthFor(cur), T(3, 4)))
			switch r.IntN(6) {
			case 0:
				gs.nodes = r.IntN(400)
			case 1:
				gs.soft = 1 + r.IntN(300)
			}
			sc.add(gs)
			if r.IntN(8) == 0 {
				sc.clear()
			}
			cur = g.e.extend(cur, cur.class, cur.legal[r.IntN(len(cur.legal))])
		}
		if !cur.final || r.IntN(2) == 0 {
			sc.add(plain(cur, 2))
		}
		emit(sc)
	}
	// D8 pattern
	for i := 0; i < T(1, 1) && len(p.fewReply) > 0; i++ {
		rt := g.pick(p.fewReply)
		sc := newScript("successors-then-root", g.buckets())
		for _, m := range rt.legal {
			succ := g.e.extend(rt, rt.class, m)
			gs := plain(succ, 1+r.IntN(3))
			gs.nodes = r.IntN(41)
			sc.add(gs)
		}
		sc.add(plain(rt, 1+r.IntN(min(g.maxD, 4))))
		emit(sc)
	}
	// deep searches of small positions: null move / LMR / IIR / reverse futility at their depth gates
	for i := 0; i < T(2, 4) && len(p.cheap) > 0; i++ {
		rt := g.pick(p.cheap)
		sc := newScript("deep-small", g.buckets())
		gs := plain(rt, g.maxD+1+r.IntN(3))
		gs.nodes = T(1500, 25000)
		sc.add(gs)
		emit(sc)
	}
	for i := 0; i < T(2, 4) && len(p.tiny) > 0; i++ {
		rt := g.pick(p.tiny)
		sc := newScript("deep-tiny", g.buckets())
		gs := plain(rt, 9+r.IntN(4))
		gs.nodes = T(3500, 25000)
		sc.add(gs)
		emit(sc)
	}
	// mate band (null move with beta in the mate band, stale mate scores across two searches)
	var mating []*root
	for _, rt := range p.live {
		if rt.class == "mate" || rt.class == "mate-band" || rt.class == "kingnet" || rt.class == "double-net" {
			mating = append(mating, rt)
		}
	}
	for i := 0; i < T(1, 2) && len(mating) > 0; i++ {
		rt := g.pick(mating)
		sc := newScript("mate-band", g.buckets())
		lo := 2 + r.IntN(2)
		sc.add(plain(rt, lo))
		hi := plain(rt, lo+1+r.IntN(2))
		hi.nodes = 200 + r.IntN(T(1500, 6000))
		sc.add(hi)
		emit(sc)
	}
	return out
}

func (e *env) spsaMain() {
	c := e.c
	e.r = common.NewResult(c, "searchx/spsa", "C06")
	e.r.Rule = "spsa build (-tags \"verif spsa\"): a search (root + played history, limits, engine history on one instance) under a NON-DEFAULT in-range parameter vector (set on the real engine with params.Set, sent to the model as `params <13 ints>` = SearchReal.realCompP) that visited at least 100 nodes and whose score, move, ponder, Nodes, ABNodes, every info line and state digest were compared between search.Go and Search.go (realCompP K shipped P); distinct by (vector, root, limits, position in the script)"
	if c.Driver == "" {
		c.Driver = "/verif/lean/.lake/build/bin/drv_searchreal"
	}
	text := params.UCIOptions()
	if text == "" {
		e.r.Fail(common.Mismatch{Property: "C06", Kind: "broken-correspondence", Ops: []string{"params.UCIOptions()"}, Impl: "(empty)", Model: "the tunables table",
			Note: "not an spsa build: params.UCIOptions() is empty — build the harness with `bin/build-harness searchx /repo -tags \"verif spsa\"`"})
		e.r.Write(c)
		return
	}
	tun, perr := parseTunables(text)
	if perr != nil {
		e.r.Fail(common.Mismatch{Property: "C06", Kind: "broken-correspondence", Ops: []string{"build -tags spsa", "uci"}, Impl: text, Model: "option name <N> type spin default <d> min <a> max <b>", Note: perr.Error()})
		e.r.Write(c)
		return
	}
	// ---- the table of the binary vs the regenerated table the theorems are about --------------------
	m0 := common.StartModel(c.Driver)
	modelTable := m0.Ask("spsa-table")
	m0.Close()
	var implRows []string
	for _, t := range tun {
		implRows = append(implRows, fmt.Sprintf("%s:%d:%d:%d", t.name, t.def, t.min, t.max))
	}
	implTable := strings.Join(implRows, ",")
	e.r.Count("table-rows", len(tun))
	if implTable != modelTable {
		e.r.Fail(common.Mismatch{Property: "C06", Kind: "broken-correspondence", Ops: []string{"build -tags spsa", "uci"}, Impl: implTable, Model: modelTable,
			Note: "the tunables table the spsa binary prints (name:default:min:max) differs from the regenerated table of Gen/Search.lean the theorems are about (Params.InRange)"})
	}
	names := make([]string, len(tun))
	for i, t := range tun {
		names[i] = t.name
	}
	if strings.Join(names, " ") != strings.Join(spsaNames, " ") {
		e.r.Fail(common.Mismatch{Property: "C06", Kind: "broken-correspondence", Ops: []string{"build -tags spsa", "uci"}, Impl: strings.Join(names, " "), Model: strings.Join(spsaNames, " "),
			Note: "the names / order of the tunables are not the thirteen fields of SearchReal.Params: the vector cannot be sent to the model"})
		e.r.Write(c)
		return
	}
	// every row prints the value of the variable it is named after (`*t.ptr` — a row with the wrong pointer prints another variable's value)
	start := spsaVector()
	for i, t := range tun {
		if t.def != start[i] {
			e.r.Fail(common.Mismatch{Property: "C06", Kind: "broken-correspondence", Ops: []string{"build -tags spsa", "uci"},
				Impl:  fmt.Sprintf("option name %s … default %d; the variable params.%s holds %d", t.name, t.def, t.name, start[i]),
				Model: fmt.Sprintf("%s = %d", t.name, start[i]),
				Note:  "the row of the tunables table named " + t.name + " does not show the variable of that name (`*t.ptr` is another variable): params.Set(\"" + t.name + "\", v) will write elsewhere"})
		}
	}
	defaults := append([]int(nil), start...)

	boardDrv := filepath.Join(filepath.Dir(c.Driver), "drv_board")
	if _, err := os.Stat(boardDrv); err != nil {
		fmt.Fprintln(os.Stderr, "searchx: the board driver is missing:", boardDrv)
		os.Exit(2)
	}
	e.bm = common.StartModel(boardDrv)
	if a := e.bm.Ask(implutil.KeysLine()); a != "ok" {
		panic("drv_board did not accept the keys: " + a)
	}
	pools := e.collect()
	g := &gen{e: e, p: pools, maxD: c.Pick(4, 5)}

	// ---- parameter vectors -----------------------------------------------------------------------
	rng := c.Rng
	var vecs []*pvec
	mk := func(tag string, f func(i int, t tunable) int) {
		v := make([]int, len(tun))
		for i, t := range tun {
			v[i] = f(i, t)
		}
		vecs = append(vecs, &pvec{tag, v})
	}
	mk("defaults", func(i int, t tunable) int { return defaults[i] })
	mk("all-min", func(i int, t tunable) int { return t.min })
	mk("all-max", func(i int, t tunable) int { return t.max })
	for j, tj := range tun {
		mk(tj.name+"=min", func(i int, t tunable) int {
			if i == j {
				return t.min
			}
			return defaults[i]
		})
		mk(tj.name+"=max", func(i int, t tunable) int {
			if i == j {
				return t.max
			}
			return defaults[i]
		})
	}
	for k := 0; k < c.Pick(4, 60); k++ {
		mk(fmt.Sprintf("random-%d", k), func(i int, t tunable) int { return t.min + rng.IntN(t.max-t.min+1) })
	}
	// corners: random choice of min / max per parameter
	for k := 0; k < c.Pick(2, 20); k++ {
		mk(fmt.Sprintf("corner-%d", k), func(i int, t tunable) int {
			if rng.IntN(2) == 0 {
				return t.min
			}
			return t.max
		})
	}

	nw := *workers
	if nw <= 0 {
		nw = min(runtime.NumCPU(), 16)
	}
	perScript := c.Pick(4000, 30000)

	// ---- phase 1: the implementation, vector by vector (the parameters are process-wide variables) ----
	t0 := time.Now()
	var all []spsaScript
	for _, pv := range vecs {
		if *onlyVec != "" && pv.tag != *onlyVec {
			g.spsaScripts() // keep the PRNG stream
			continue
		}
		after, serr := applyVector(tun, pv.v)
		e.r.Count("vectors", 1)
		if serr != nil || !eqInts(after, pv.v) {
			note := "after params.Set(name, value) for every name the variables do not hold the vector that was set"
			if serr != nil {
				note = "params.Set rejected an in-range value: " + serr.Error()
			}
			e.r.Fail(common.Mismatch{Property: "C06", Kind: "broken-correspondence", Ops: setOps(tun, pv.v), Impl: "variables: " + vecStr(after), Model: "vector set: " + vecStr(pv.v),
				Note: "vector " + pv.tag + ": " + note + " (the searches below run with the variables as they are; the model gets the vector that was SET)"})
			e.r.Count("vector-not-stored", 1)
		}
		scripts := g.spsaScripts()
		if *only != "" {
			var f []*script
			for _, sc := range scripts {
				if strings.HasPrefix(sc.kind, *only) {
					f = append(f, sc)
				}
			}
			scripts = f
		}
		var wg sync.WaitGroup
		ch := make(chan *script)
		for w := 0; w < nw; w++ {
			wg.Add(1)
			go func() {
				defer wg.Done()
				for sc := range ch {
					e.runImplCapped(sc, perScript)
				}
			}()
		}
		for _, sc := range scripts {
			ch <- sc
		}
		close(ch)
		wg.Wait()
		for _, sc := range scripts {
			// a script that cannot be made small enough by lowering depth limits (quiescence explosions of
			// crowded positions at depth 1) is not replayed by the model — unless the implementation failed on it
			if sc.total > 2*perScript && sc.direct == "" {
				sc.skipped = true
			}
			all = append(all, spsaScript{sc, pv})
		}
	}
	e.bm.Close()
	// restore the defaults
	if after, serr := applyVector(tun, defaults); serr != nil || !eqInts(after, defaults) {
		e.r.Fail(common.Mismatch{Property: "C06", Kind: "broken-correspondence", Ops: setOps(tun, defaults), Impl: "variables: " + vecStr(after), Model: "defaults: " + vecStr(defaults),
			Note: "the defaults could not be restored with params.Set"})
	}
	implS := time.Since(t0).Seconds()

	// ---- node budget of the model replay ------------------------------------------------------------
	limit := *budget
	if limit == 0 {
		limit = nw * c.Pick(30000, 1000000)
	}
	{
		idx := make([]int, len(all))
		spent := 0
		for i, s := range all {
			idx[i] = i
			spent += s.sc.total
		}
		sort.SliceStable(idx, func(a, b int) bool { return all[idx[a]].sc.total > all[idx[b]].sc.total })
		for _, i := range idx {
			if spent <= limit {
				break
			}
			if all[i].sc.direct != "" { // never drop a script on which the implementation failed directly
				continue
			}
			all[i].sc.skipped = true
			spent -= all[i].sc.total
		}
	}
	var todo []spsaScript
	for _, s := range all {
		if s.sc.skipped {
			e.r.Count("scripts-skipped-over-budget:"+s.sc.kind, 1)
			continue
		}
		todo = append(todo, s)
	}

	// ---- phase 2: the model ---------------------------------------------------------------------
	order := make([]int, len(todo))
	for i := range order {
		order[i] = i
	}
	sort.SliceStable(order, func(a, b int) bool { return todo[order[a]].sc.total > todo[order[b]].sc.total })
	answers := make([][]string, len(todo))
	t1 := time.Now()
	{
		var wg sync.WaitGroup
		ch := make(chan int)
		keys := implutil.KeysLine()
		for w := 0; w < nw; w++ {
			wg.Add(1)
			go func() {
				defer wg.Done()
				m := common.StartModel(c.Driver)
				defer m.Close()
				if a := m.Ask(keys); a != "ok" {
					panic("drv_searchreal did not accept the keys: " + a)
				}
				for i := range ch {
					sc := todo[i].sc
					sent := append([]int(nil), todo[i].vec.v...)
					for k, n := range spsaNames { // diagnostic: the model is not told about this parameter
						if *blind == n || *blind == "all" {
							sent[k] = defaults[k]
						}
					}
					lines := []string{"params " + vecStr(sent)}
					for _, st := range sc.steps {
						switch st.kind {
						case "new":
							lines = append(lines, fmt.Sprintf("new %d", st.buckets))
						case "clear":
							lines = append(lines, "clear")
						default:
							lines = append(lines, st.g.modelLine())
						}
					}
					if m.Dead {
						m = common.StartModel(c.Driver)
						m.Ask(keys)
					}
					if *verbose && *onlyVec != "" {
						fmt.Fprintln(os.Stderr, strings.Join(lines, "\n"))
					}
					ans := m.Batch(lines)
					if len(ans) == len(lines) && ans[0] == "ok" {
						answers[i] = ans[1:]
					} else {
						answers[i] = make([]string, len(sc.steps))
						for j := range answers[i] {
							answers[i][j] = "driver rejected the vector: " + strings.Join(ans, " / ")
						}
					}
					if *verbose {
						fmt.Fprintf(os.Stderr, "[%6.1fs] %-12s %-22s %4d steps %8d nodes\n", time.Since(t1).Seconds(), todo[i].vec.tag, sc.kind, len(sc.steps), sc.total)
					}
				}
			}()
		}
		for _, i := range order {
			ch <- i
		}
		close(ch)
		wg.Wait()
	}
	modelS := time.Since(t1).Seconds()

	// ---- comparison ---------------------------------------------------------------------------
	totalNodes := 0
	badVec := map[string]bool{}
	var failing, broken []common.Mismatch // failing inputs are reported first (the list is capped)
	for i, s := range todo {
		sc, pv := s.sc, s.vec
		e.r.Count("scripts:"+sc.kind, 1)
		isDefault := eqInts(pv.v, defaults)
		vclass := pv.tag
		if strings.HasPrefix(vclass, "random-") {
			vclass = "random"
		} else if strings.HasPrefix(vclass, "corner-") {
			vclass = "corner"
		}
		e.r.Count("vector-scripts:"+vclass, 1)
		pre := setOps(tun, pv.v)
		bad := false
		for j := range sc.steps {
			e.countStep(sc, j)
			if bad {
				continue
			}
			impl, ans := sc.impl[j], answers[i][j]
			model := ans
			var fuelOut bool
			if sc.steps[j].kind == "go" {
				e.r.Evaluations++
				totalNodes += sc.nodes[j]
				var err error
				model, fuelOut, _, err = translate(ans)
				if err != nil {
					model = "untranslatable: " + ans
				}
				if fuelOut {
					e.r.Count("model:fuelOut", 1)
				}
				if ttOutFlag(ans) {
					e.r.Count("model:ttOut-raised", 1)
					e.r.Count("model:ttOut-raised:"+vclass, 1)
				}
				if nmpOutFlag(ans) {
					e.r.Count("model:nmpOut-raised", 1)
				}
				if modelRawBeyond(ans) {
					e.r.Count("model:raw-beyond-inf", 1)
				}
				if sc.rawLo[j] < -int(10000) || sc.rawHi[j] > int(10000) {
					e.r.Count("real:raw-beyond-inf", 1)
				}
				if strings.HasPrefix(impl, "panic ") {
					e.r.Count("real:panic", 1)
				}
				if sc.nodes[j] >= 100 && !isDefault {
					e.r.Nontrivial(vecStr(pv.v) + "|" + sc.steps[j].g.rt.position() + "|" + sc.steps[j].g.String() + "|" + strconv.Itoa(j) + "|" + sc.impl[max(j-1, 0)])
				}
			}
			if impl != model || fuelOut {
				bad = true
				kind := "broken-correspondence"
				note := "fields that differ: " + diffFields(impl, model) + "; no direct violation of C06 by the implementation in this script"
				if sc.direct != "" {
					kind = "failing-input"
					note = fmt.Sprintf("fields that differ: %s; the implementation also violates the property directly at step %d: %s", diffFields(impl, model), sc.directAt, sc.direct)
				}
				if fuelOut {
					note += "; model ran out of fuel"
				}
				if !badVec[pv.tag+"|"+kind] || len(failing)+len(broken) < 12 {
					badVec[pv.tag+"|"+kind] = true
					mm := common.Mismatch{Property: "C06", Kind: kind, Ops: append(append([]string(nil), pre...), sc.ops(j)...), Impl: impl, Model: model,
						Note: "parameter vector " + pv.tag + " = [" + vecStr(pv.v) + "] (" + strings.Join(spsaNames, " ") + "); script kind " + sc.kind + "; " + note}
					if kind == "failing-input" {
						failing = append(failing, mm)
					} else {
						broken = append(broken, mm)
					}
				}
				e.r.Count("mismatch:"+sc.kind, 1)
				e.r.Count("mismatch-vector:"+vclass, 1)
			}
		}
		if !bad && sc.direct != "" {
			failing = append(failing, common.Mismatch{Property: "C06", Kind: "failing-input", Ops: append(append([]string(nil), pre...), sc.ops(sc.directAt)...), Impl: sc.impl[sc.directAt],
				Model: "(agrees with the implementation)", Note: "parameter vector " + pv.tag + " = [" + vecStr(pv.v) + "]; direct property check: " + sc.direct})
			e.r.Count("direct-violation", 1)
		}
		if len(e.r.Samples) < 6 && !isDefault && sc.total > 200 {
			e.r.Sample(map[string]any{"vector": pv.tag, "values": vecStr(pv.v), "kind": sc.kind, "ops": sc.ops(min(len(sc.steps)-1, 2)), "answer": sc.impl[min(len(sc.steps)-1, 1)]}, 6)
		}
	}
	for _, mm := range failing {
		e.r.Fail(mm)
	}
	for _, mm := range broken {
		e.r.Fail(mm)
	}
	e.r.Count("nodes-replayed-by-model", totalNodes)
	e.r.Count("nodes-budget", limit)
	e.r.Notes = append(e.r.Notes,
		fmt.Sprintf("%d parameter vectors (defaults, all-min, all-max, %d single-parameter extremes, random, corners); %d scripts (%d searches, %d nodes) replayed by %d model processes in %.1f s; implementation side %.1f s (vector by vector: the parameters are process-wide)",
			len(vecs), 2*len(tun), len(todo), e.r.Evaluations, totalNodes, nw, modelS, implS),
		"table of the binary (name:default:min:max): "+implTable,
		"mismatch classification: failing-input when the real search panicked or a direct C06/C07/C08 check on the implementation fails in the same script; otherwise broken-correspondence; the ghost flag ttOut (hypothesis of the default-build score theorems) is only counted here",
		"the defaults were restored with params.Set at the end: "+vecStr(spsaVector()))
	e.r.Write(c)
}
