// Command fenuci is the correspondence harness of the UCI `position` model
// (lean/ChessVerif/Model/UciPosition.lean, driver drv_fen) — part of C11.
//
// A test is a script of 1..4 `position …` lines, each followed by `fen`.  The script is run by a real
// in-process uci.Driver; the same argument lists (strings.Fields of each line, done here, hex
// encoded) are given to the Lean model, and the FEN after every command is compared.
//
//	fenuci -tier quick|thorough -seed N -driver drv_fen -out r.json
//
// The property itself is also checked directly in Go: after `position fen X` where the first six
// fields do not parse (board.FromFEN) or have an impossible piece count (InvalidPieceCount), or with
// fewer than six fields, the FEN must be the one before the command; after `position fen X` with X
// the FEN of a position accepted by both, the FEN must be X's canonical text.  A difference that also
// breaks this is reported as "failing-input", any other as "broken-correspondence".
package main

import (
	"bytes"
	"encoding/hex"
	"fmt"
	"strings"

	"github.com/paulsonkoly/chess-3/board"
	. "github.com/paulsonkoly/chess-3/chess"
	"github.com/paulsonkoly/chess-3/move"
	"github.com/paulsonkoly/chess-3/search"
	"github.com/paulsonkoly/chess-3/uci"

	"verifharness/common"
	"verifharness/implutil"
)

// nullSearch keeps NewDriver from allocating a transposition table per script.
type nullSearch struct{}

func (nullSearch) Go(*board.Board, ...search.Option) (Score, move.Move, move.Move) { return 0, 0, 0 }
func (nullSearch) Clear()                                                         {}
func (nullSearch) ResizeTT(int)                                                   {}

type env struct {
	c *common.Ctx
	r *common.Result
	m *common.Model
	s *implutil.Stream
}

var malformed = []string{
	"i1a3", "e2e4q", "e7e8k", "e7e8Q", "e2", "e2e", "e2e4e5", "e2e4qq", "a1a1", "0000", "a0a1", "h9h8",
	"E2E4", "é2e4", "e2é4", "e2e\xff", "\xff\xfe\xfd\xfc", "aQa2", "iYa3", "a\x91a3", "e2e4\x00", "e2-e4",
	"e1g1", "e8c8", "e1c1", "e5d6", "e7e8", "e7e8n", "a7a8q", "h2h1r", "b1c3", "g8f6", "e2e4", "e7e5",
	"q1a3", "a2\xa1\x31", "moves", "fen", "startpos",
}

// randMoveBytes: 4- or 5-byte strings around the square alphabet, so that the wrapping uint8
// arithmetic of parseUCIMove lands inside 0..63 reasonably often.
func (e *env) randMoveBytes() string {
	rng := e.c.Rng
	n := 4
	if rng.IntN(3) == 0 {
		n = 5
	}
	if rng.IntN(8) == 0 {
		n = []int{1, 2, 3, 6, 7}[rng.IntN(5)]
	}
	b := make([]byte, n)
	for i := range b {
		switch rng.IntN(6) {
		case 0:
			b[i] = byte(0x21 + rng.IntN(0x5e)) // printable ASCII, no space
		case 1:
			b[i] = byte(0x80 + rng.IntN(0x80)) // non-ASCII byte (mostly invalid UTF-8)
		default:
			if i%2 == 0 && i < 4 {
				b[i] = byte('a' + rng.IntN(10))
			} else if i < 4 {
				b[i] = byte('0' + rng.IntN(10))
			} else {
				b[i] = "qrbnkpQ1"[rng.IntN(8)]
			}
		}
		if b[i] == '\n' || b[i] == '\r' {
			b[i] = 'x'
		}
	}
	return string(b)
}

// moveList produces a list of UCI move words played from b (b is advanced): mostly legal moves with
// injected pseudo-legal-but-illegal, illegal and malformed ones.
func (e *env) moveList(b *board.Board) []string {
	rng := e.c.Rng
	n := rng.IntN(14)
	var out []string
	for i := 0; i < n; i++ {
		l := implutil.Legal(b)
		switch k := rng.IntN(20); {
		case k == 0:
			out = append(out, malformed[rng.IntN(len(malformed))])
			e.r.Count("gen:malformed-move", 1)
		case k == 1:
			out = append(out, e.randMoveBytes())
			e.r.Count("gen:random-move-bytes", 1)
		case k == 2:
			// pseudo-legal but not legal (leaves the own king attacked), if there is one
			noisy, quiet := implutil.Gen(b)
			isLegal := map[move.Move]bool{}
			for _, m := range l {
				isLegal[m] = true
			}
			var ill []move.Move
			for _, m := range append(noisy, quiet...) {
				if !isLegal[m] {
					ill = append(ill, m)
				}
			}
			if len(ill) > 0 {
				m := ill[rng.IntN(len(ill))]
				out = append(out, m.String())
				e.r.Count("gen:pseudo-legal-illegal-move", 1)
				if b.IsPseudoLegal(m) {
					b.MakeMove(m)
				}
				continue
			}
			fallthrough
		default:
			if len(l) == 0 {
				return out
			}
			m := l[rng.IntN(len(l))]
			out = append(out, m.String())
			b.MakeMove(m)
		}
	}
	return out
}

func (e *env) mutateFEN(fen string) string {
	rng := e.c.Rng
	base := []byte(fen)
	switch rng.IntN(9) {
	case 0:
		fs := strings.Fields(fen)
		k := rng.IntN(len(fs))
		return strings.Join(append(append([]string{}, fs[:k]...), fs[k+1:]...), " ")
	case 1:
		fs := strings.Fields(fen)
		k := rng.IntN(len(fs))
		return strings.Join(append(append(append([]string{}, fs[:k+1]...), fs[k]), fs[k+1:]...), " ")
	case 2, 3:
		for j := 1 + rng.IntN(3); j > 0 && len(base) > 0; j-- {
			alphabet := "0123456789/pnbrqkPNBRQKwb-abcdefgh\x00\xff\tz"
			base[rng.IntN(len(base))] = alphabet[rng.IntN(len(alphabet))]
		}
	case 4:
		fs := strings.Fields(fen)
		fs[4+rng.IntN(2)] = strings.Repeat(string(rune('0'+rng.IntN(10))), 1+rng.IntN(30))
		return strings.Join(fs, " ")
	case 5:
		k := rng.IntN(len(base))
		ins := []string{"8", "88", "/", "////////", "pppppppppp", "9", "0", "Q", "QQQQQQQQ", "K", "k"}[rng.IntN(11)]
		base = append(append(append([]byte{}, base[:k]...), ins...), base[k:]...)
	case 6:
		// too much material: replace digits of the placement by pieces
		sp := bytes.IndexByte(base, ' ')
		for j := 0; j < sp; j++ {
			if base[j] == '1' && rng.IntN(2) == 0 {
				base[j] = "QqNnRrBbPp"[rng.IntN(10)]
			}
		}
	case 7:
		fs := strings.Fields(fen)
		fs[3] = []string{"a", "e3", "e6", "h8", "i3", "a9", "-", "e", "3e", "a1"}[rng.IntN(10)]
		return strings.Join(fs, " ")
	default:
		base = base[:rng.IntN(len(base)+1)]
	}
	for i := range base {
		if base[i] == '\n' || base[i] == '\r' {
			base[i] = '?'
		}
	}
	return string(base)
}

func (e *env) validFEN() string {
	for {
		fen, _ := e.s.Next()
		if b, err := board.FromFEN(fen); err == nil && !b.InvalidPieceCount() {
			return fen
		}
	}
}

// one `position …` line (without the trailing newline).
func (e *env) command() string {
	rng := e.c.Rng
	switch k := rng.IntN(20); {
	case k < 6: // startpos with moves
		b := board.StartPos()
		ms := e.moveList(b)
		kw := "moves"
		if rng.IntN(15) == 0 {
			kw = []string{"move", "Moves", "fen", ""}[rng.IntN(4)]
		}
		return strings.TrimRight("position startpos "+kw+" "+strings.Join(ms, " "), " ")
	case k < 12: // valid fen with moves
		fen := e.validFEN()
		b, _ := board.FromFEN(fen)
		ms := e.moveList(b)
		line := "position fen " + fen
		if len(ms) > 0 || rng.IntN(3) == 0 {
			kw := "moves"
			if rng.IntN(15) == 0 {
				kw = []string{"move", "x", "startpos"}[rng.IntN(3)]
			}
			line += " " + kw + " " + strings.Join(ms, " ")
		}
		if rng.IntN(10) == 0 {
			line = strings.ReplaceAll(line, " ", []string{"  ", "\t", " \t "}[rng.IntN(3)])
		}
		return line
	case k < 17: // mutated fen, sometimes with moves
		line := "position fen " + e.mutateFEN(e.validFEN())
		if rng.IntN(3) == 0 {
			line += " moves " + strings.Join(e.moveList(board.StartPos()), " ")
		}
		return line
	case k == 17:
		return []string{"position", "position startpos", "position fen", "position startpos moves", "position foo bar",
			"position startpos e2e4", "position startpos x e2e4 e7e5", "position moves e2e4", "position fen startpos moves e2e4"}[rng.IntN(9)]
	case k == 18: // heavy promoted material, accepted and rejected
		return "position fen " + []string{
			"QQQQQQQQ/Q7/8/8/8/8/8/k6K w - - 0 1", "QQQQQQQQ/QQ6/8/8/8/8/8/k6K w - - 0 1",
			"NNNNNNNN/NN6/8/8/8/8/8/k6K w - - 0 1", "NNNNNNNN/NNN5/8/8/8/8/8/k6K w - - 0 1",
			"RRRRRRRR/RR6/8/8/8/8/8/k6K b - - 0 1", "BBBBBBBB/BB6/8/8/8/8/PP6/k6K b - - 0 1",
			"qqqqqqqq/q7/8/8/8/8/8/K6k w - - 0 1", "rnbqkbnr/pppppppp/8/8/8/8/PPPPPPPP/RNBQQBNR w - - 0 1",
			"8/8/8/8/8/8/8/K7 w - - 0 1", "kk6/8/8/8/8/8/8/K7 w - - 0 1", "k7/8/8/8/8/8/PPPPPPPP/KP6 w - - 0 1",
			"rnbqkbnr/pppppppp/8/8/8/8/PPPPPPP1/RNBQKBNQ w Qkq - 0 1", "rnbqkbnr/pppppppp/8/8/8/8/PPPPPPPP/RNBQKBNQ w Qkq - 0 1",
		}[rng.IntN(13)]
	default: // canonical text of a valid position, nothing else
		return "position fen " + e.validFEN()
	}
}

// expectation of one command derived from the property, computed with the exported API only.
// class: histogram key; keep: the FEN must stay `before`; exact != "" : the FEN must be `exact`.
// plies played between two FENs of one game (from the side to move and the full-move number).
func plies(from, to string) int {
	a, b := strings.Fields(from), strings.Fields(to)
	if len(a) < 6 || len(b) < 6 {
		return -1
	}
	var fa, fb int
	fmt.Sscan(a[5], &fa)
	fmt.Sscan(b[5], &fb)
	n := 2 * (fb - fa)
	if a[1] == "b" {
		n--
	}
	if b[1] == "b" {
		n++
	}
	return n
}

// expect2 also returns, for a command with a move list, the FEN the moves start from and their number.
func expect2(args []string, before string) (class string, keep bool, exact string, start string, nMoves int) {
	class, keep, exact = expect1(args, before)
	switch class {
	case "startpos+moves":
		return class, keep, exact, StartPosFEN, len(args) - 2
	case "fen:accepted+moves":
		b, _ := board.FromFEN(strings.Join(args[1:7], " "))
		return class, keep, exact, b.FEN(), len(args) - 8
	}
	return
}

func expect1(args []string, before string) (class string, keep bool, exact string) {
	if len(args) == 0 {
		return "no-args", true, ""
	}
	switch args[0] {
	case "startpos":
		if len(args) > 2 && args[1] == "moves" {
			return "startpos+moves", false, ""
		}
		return "startpos", false, StartPosFEN
	case "fen":
		if len(args) < 7 {
			return "fen:too-few-fields", true, ""
		}
		var nb *board.Board
		cls := func() (res string) {
			defer func() {
				if recover() != nil {
					res = "panic"
				}
			}()
			b, err := board.FromFEN(strings.Join(args[1:7], " "))
			if err != nil {
				return "err"
			}
			nb = b
			return "ok"
		}()
		if cls == "panic" {
			return "fen:PANIC", true, ""
		}
		if cls != "ok" {
			return "fen:rejected-by-parser", true, ""
		}
		if nb.InvalidPieceCount() {
			return "fen:rejected-by-piece-count", true, ""
		}
		if len(args) >= 8 && args[7] == "moves" {
			return "fen:accepted+moves", false, ""
		}
		return "fen:accepted", false, nb.FEN()
	}
	return "unknown-keyword", true, ""
}

func main() {
	c := common.Parse()
	e := &env{c: c}
	e.m = common.StartModel(c.Driver)
	defer e.m.Close()
	if a := e.m.Ask(implutil.KeysLine()); a != "ok" {
		panic("driver did not accept the keys: " + a)
	}
	e.s = implutil.NewStream(c)
	e.r = common.NewResult(c, "fenuci", "C11")
	e.r.Rule = "scripts of 1..4 UCI `position` commands (startpos / valid FENs incl. heavy promoted material / mutated FENs / too few fields / unknown keywords; move lists with legal, pseudo-legal-but-illegal, illegal and malformed words such as i1a3, e2e4q, 3- and 6-byte and non-ASCII strings), FEN after every command: real uci.Driver vs the Lean handlePosition model, and vs the property (rejected input keeps the position, accepted FEN is installed); non-trivial = script containing a command that is rejected after the field count check, or accepted, or whose move list stops early; distinct by script text"
	scripts := c.Pick(30000, 1500000)
	const batch = 500
	type test struct {
		lines []string
		args  [][]string
	}
	for off := 0; off < scripts; off += batch {
		var tests []test
		var reqs []string
		for i := 0; i < batch && off+i < scripts; i++ {
			var t test
			for k := 1 + c.Rng.IntN(4); k > 0; k-- {
				line := e.command()
				t.lines = append(t.lines, line)
				t.args = append(t.args, strings.Fields(line)[1:])
			}
			reqs = append(reqs, "reset")
			for _, a := range t.args {
				req := "pos"
				for _, x := range a {
					req += " " + hex.EncodeToString([]byte(x))
				}
				reqs = append(reqs, req)
			}
			tests = append(tests, t)
		}
		ans := e.m.Batch(reqs)
		p := 0
		for _, t := range tests {
			p++ // reset
			model := ans[p : p+len(t.lines)]
			p += len(t.lines)
			var script strings.Builder
			for _, l := range t.lines {
				script.WriteString(l + "\nfen\n")
			}
			script.WriteString("quit\n")
			// a panic inside the driver's goroutine cannot be recovered here: look for a crashing FEN first
			crashed := false
			for k := range t.lines {
				if class, _, _ := expect1(t.args[k], ""); class == "fen:PANIC" {
					e.r.Fail(common.Mismatch{Property: "C11", Kind: "failing-input", Ops: []string{fmt.Sprintf("%q", t.lines[k])},
						Impl: "panic", Model: model[k], Note: "board.FromFEN crashed on the six fields of this position command"})
					crashed = true
					break
				}
			}
			if crashed {
				e.r.Count("script-skipped-after-crash", 1)
				continue
			}
			var out, errb bytes.Buffer
			uci.NewDriver(uci.WithInput(strings.NewReader(script.String())), uci.WithOutput(&out), uci.WithError(&errb),
				uci.WithSearch(nullSearch{})).Run()
			got := strings.Split(strings.TrimRight(out.String(), "\n"), "\n")
			e.r.TracesValidated++
			ops := func(n int) []string {
				var o []string
				for _, l := range t.lines[:n+1] {
					o = append(o, fmt.Sprintf("%q", l), "fen")
				}
				return o
			}
			if len(got) != len(t.lines) {
				e.r.Fail(common.Mismatch{Property: "C11", Kind: "broken-correspondence", Ops: ops(len(t.lines) - 1),
					Impl: fmt.Sprintf("%d answers", len(got)), Model: fmt.Sprintf("%d answers", len(model))})
				continue
			}
			before := StartPosFEN
			nontrivial := false
			for k := range t.lines {
				e.r.Evaluations++
				class, keep, exact, start, nMoves := expect2(t.args[k], before)
				e.r.Count("cmd:"+class, 1)
				if start != "" {
					if pl := plies(start, got[k]); pl == nMoves {
						e.r.Count("moves:all-applied", 1)
					} else if pl >= 0 {
						e.r.Count("moves:stopped-early", 1)
					}
				}
				if class != "no-args" && class != "unknown-keyword" && class != "fen:too-few-fields" && class != "startpos" {
					nontrivial = true
				}
				propBroken := (keep && got[k] != before) || (exact != "" && got[k] != exact)
				if propBroken {
					e.r.Fail(common.Mismatch{Property: "C11", Kind: "failing-input", Ops: ops(k), Impl: got[k], Model: model[k],
						Spec: map[bool]string{true: before, false: exact}[keep],
						Note: "UCI position command: class " + class + "; a rejected input must keep the position, an accepted FEN must be installed"})
					break
				}
				if got[k] != model[k] {
					e.r.Fail(common.Mismatch{Property: "C11", Kind: "broken-correspondence", Ops: ops(k), Impl: got[k], Model: model[k],
						Note: "class " + class})
					break
				}
				if got[k] != before {
					e.r.Count("position-changed", 1)
				}
				before = got[k]
			}
			if nontrivial {
				e.r.Nontrivial(script.String())
			}
			e.r.Sample(map[string]any{"script": t.lines, "fens": got}, 3)
		}
	}
	e.r.Write(c)
}
