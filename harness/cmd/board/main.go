// Correspondence harness for the board-level properties C01 C02 C03 C04 C05 C09 C10 C11.
// It runs the real implementation (/repo, -tags verif) and the compiled Lean model + rule-book spec
// (drv_board) on the same inputs / operation sequences and reports every difference.
//
//	board -suite c01|c02|c03|c04|c05|c09|c10|c11 -tier quick|thorough -seed N -driver drv_board -out r.json
package main

import (
	"bytes"
	"encoding/hex"
	"flag"
	"fmt"
	"sort"
	"strconv"
	"strings"

	"github.com/paulsonkoly/chess-3/board"
	"github.com/paulsonkoly/chess-3/debug"
	"github.com/paulsonkoly/chess-3/move"
	"github.com/paulsonkoly/chess-3/search"
	"github.com/paulsonkoly/chess-3/uci"

	. "github.com/paulsonkoly/chess-3/chess"

	"verifharness/common"
	"verifharness/implutil"
	"verifharness/posgen"
)

var suite = flag.String("suite", "c01", "which suite")

type env struct {
	c *common.Ctx
	r *common.Result
	m *common.Model
	s *implutil.Stream
	// epSound of the position loaded last: the recorded en-passant target belongs to a pawn that
	// could really just have double-pushed (the side to move was not in check before the push)
	epSound bool
	// nx counts the calls of next (position stream with the castling-path class interleaved)
	nx int
}

func main() {
	c := common.Parse()
	e := &env{c: c}
	e.m = common.StartModel(c.Driver)
	defer e.m.Close()
	if a := e.m.Ask(implutil.KeysLine()); a != "ok" {
		panic("driver did not accept the keys: " + a)
	}
	e.s = implutil.NewStream(c)
	switch *suite {
	case "c01":
		e.r = common.NewResult(c, "board/c01", "C01")
		e.c01()
	case "c02":
		e.r = common.NewResult(c, "board/c02", "C02")
		e.c02()
	case "c03":
		e.r = common.NewResult(c, "board/c03", "C03")
		e.walks("C03")
	case "c04":
		e.r = common.NewResult(c, "board/c04", "C04")
		e.walks("C04")
	case "c05":
		e.r = common.NewResult(c, "board/c05", "C05")
		e.c05()
	case "c09":
		e.r = common.NewResult(c, "board/c09", "C09")
		e.c09()
	case "c10":
		e.r = common.NewResult(c, "board/c10", "C10")
		e.c10()
	case "c11":
		e.r = common.NewResult(c, "board/c11", "C11")
		e.c11()
	default:
		panic("unknown suite " + *suite)
	}
	e.r.Write(c)
}

// load parses fen in implementation and model, compares the dumps and asks the Lean `valid`
// predicate. It returns the board when the position is valid (valid[0]) and whether its en-passant
// state is normalised (valid[1]).
func (e *env) load(prop, fen string) (b *board.Board, valid, epNormal bool) {
	ans := e.m.Batch([]string{"fen " + fen, "valid"})
	b, err := board.FromFEN(fen)
	if err != nil {
		if ans[0] != "err" {
			e.r.Fail(common.Mismatch{Property: prop, Kind: "broken-correspondence", Ops: []string{"fen " + fen},
				Impl: "err", Model: ans[0]})
		}
		return nil, false, false
	}
	impl := "ok " + implutil.Dump(b)
	if impl != ans[0] {
		e.r.Fail(common.Mismatch{Property: prop, Kind: "broken-correspondence", Ops: []string{"fen " + fen},
			Impl: impl, Model: ans[0], Note: "FromFEN differs from the model"})
		return nil, false, false
	}
	if len(ans[1]) != 3 {
		return nil, false, false
	}
	e.epSound = ans[1][2] == '1'
	return b, ans[1][0] == '1', ans[1][1] == '1'
}

// next is the position stream of c01/c02/c05: the shared stream with the castling-path class
// (posgen.CastlePathSweep / posgen.CastlePath) interleaved.  After the roots come the systematic
// single-occupant patterns (every path square x every occupant kind, bare and with filler material),
// from then on every sixth position is a random castling-path position.  The histogram counts the
// positions per (right, occupancy pattern) and the attack-from-afar / side-to-move splits.
var epTargetSweep = posgen.EPTargetSweep()

func (e *env) next() (fen, src string) {
	e.nx++
	k := e.nx - len(e.s.Roots) - 1
	var cc posgen.CastleCase
	ok := false
	switch {
	case k < 0:
	case k < 2*posgen.CastleSweepSize:
		src = "castlepath-sweep"
		for try := 0; try < 20 && !ok; try++ {
			cc, ok = posgen.CastlePathSweep(e.c.Rng, k/2, k%2 == 1)
		}
	case k < 2*posgen.CastleSweepSize+len(epTargetSweep):
		e.r.Count("eptarget-sweep", 1)
		return epTargetSweep[k-2*posgen.CastleSweepSize], "eptarget-sweep"
	case e.c.Rng.IntN(14) == 0:
		// a recorded en-passant target whose capture is illegal because the captured pawn shields the king on a
		// diagonal (FEN only; valid, not epSound): the capture is generated, only the legality filter rejects it
		for try := 0; try < 200; try++ {
			if ps, kind, ok := posgen.EPShield(e.c.Rng); ok {
				e.r.Count("ep-"+kind, 1)
				return ps.FEN(), "ep-shield"
			}
		}
	case e.c.Rng.IntN(6) == 0:
		src = "castlepath"
		for try := 0; try < 20 && !ok; try++ {
			cc, ok = posgen.CastlePath(e.c.Rng)
		}
	}
	if !ok {
		return e.s.Next()
	}
	e.r.Count("castlepath-generated", 1)
	e.r.Count("castlepath-pattern "+cc.Key(), 1)
	if cc.AfarKing {
		e.r.Count("castlepath-kingpath-attacked-from-afar", 1)
	}
	if cc.AfarB {
		e.r.Count("castlepath-only-b-square-attacked", 1)
	}
	if cc.OwnerToMove {
		e.r.Count("castlepath-owner-to-move", 1)
	}
	if cc.Pos.Castles == 15 {
		e.r.Count("castlepath-all-four-rights", 1)
	}
	return cc.Pos.FEN(), src
}

func (e *env) feature(fen string) posgen.Stats {
	p, _ := posgen.Parse(fen)
	return p.Features()
}

// ---------------------------------------------------------------------------------------------
// C01: playable == legal (three-way: implementation, bitboard model, rule-book spec), no duplicates.

func (e *env) c01() {
	n := e.c.Pick(6000, 150000)
	e.r.Rule = "positions from roots/play-outs/constructive sampler accepted by the Lean `valid`; for each: implementation's playable set (GenNoisy+GenNotNoisy filtered by MakeMove/InCheck) vs model vs Rules.legalMoves of the abstraction, duplicates in the generated list; non-trivial = valid position with >=1 of: in check, pin candidate, en-passant target, castling right, pawn on 7th, promoted material; distinct by FEN. Added classes: castling-path positions (every path square vacant / own / enemy man, histogram castlepath-*), king nets; on every position debug.Perft(1) (sampled: Perft(2)) vs the rule-book counts and the move returned by an aborted search (go nodes 0 / tiny node limit / pending stop) vs the rule-book legal set (filter-*, perft*, abort-fallback*); positions reached by 130-260 plies of mostly reversible play from roots with castling rights, compared at checkpoints incl. a second generation after make/undo of every generated move (longplay-*; non-trivial = checkpoint with castling rights and clock > 100 or wrapped)"
	probe := search.New(32000)
	process := func(i int, fen, src string) {
		b, valid, _ := e.load("C01", fen)
		if b == nil || !valid {
			e.r.Count("skipped-invalid:"+src, 1)
			return
		}
		e.r.Evaluations++
		st := e.feature(fen)
		e.r.Count(src, 1)
		e.r.Count(st.Key(), 1)
		if st.InCheck || st.AlignedMen > 0 || st.HasEP || st.Castles != 0 || st.PawnOn7th || st.Promoted {
			e.r.Nontrivial(fen)
		}
		noisy, quiet := implutil.Gen(b)
		all := append(append([]move.Move{}, noisy...), quiet...)
		seen := map[move.Move]bool{}
		for _, m := range all {
			if seen[m] {
				e.r.Fail(common.Mismatch{Property: "C01", Kind: "failing-input", Ops: []string{"fen " + fen, "gen"},
					Impl: implutil.MovesStr(all), Note: fmt.Sprintf("move %d (%s) generated twice", m, m)})
			}
			seen[m] = true
		}
		legal := implutil.MovesStr(implutil.Legal(b))
		ans := e.m.Batch([]string{"gen", "legal", "spec"})
		implGen := implutil.MovesStr(noisy) + "|" + implutil.MovesStr(quiet)
		if implGen != ans[0] {
			e.r.Fail(common.Mismatch{Property: "C01", Kind: e.kindBySpec(legal, ans[2]), Ops: []string{"fen " + fen, "gen"},
				Impl: implGen, Model: ans[0], Spec: ans[2]})
		}
		if legal != ans[2] {
			e.r.Fail(common.Mismatch{Property: "C01", Kind: "failing-input", Ops: []string{"fen " + fen, "legal"},
				Impl: legal, Model: ans[1], Spec: ans[2], Note: "implementation's playable set differs from the FIDE-legal set"})
		} else if legal != ans[1] {
			e.r.Fail(common.Mismatch{Property: "C01", Kind: "broken-correspondence", Ops: []string{"fen " + fen, "legal"},
				Impl: legal, Model: ans[1], Spec: ans[2]})
		}
		if i < 3 {
			e.r.Sample(map[string]any{"fen": fen, "legal": legal}, 5)
		}
		// "… or reached by playing moves": play legal moves with MakeMove and compare the playable set
		// of the position reached with the FIDE-legal moves of the rule-book successor (Rules.apply on
		// the abstraction of the PREDECESSOR, so an error of MakeMove cannot hide in both sides)
		lm := implutil.Legal(b)
		var pick []move.Move
		if src == "epdirected-pre" || len(lm) <= 4 {
			pick = lm
		} else {
			for k := 0; k < 4; k++ {
				pick = append(pick, lm[e.c.Rng.IntN(len(lm))])
			}
		}
		var reqs []string
		for _, m := range pick {
			reqs = append(reqs, "specafter "+strconv.Itoa(int(m)))
		}
		after := e.m.Batch(reqs)
		for k, m := range pick {
			r := b.MakeMove(m)
			got := implutil.MovesStr(implutil.Legal(b))
			b.UndoMove(m, r)
			e.r.Evaluations++
			e.r.Count("reached-by-move", 1)
			if got != after[k] {
				e.r.Fail(common.Mismatch{Property: "C01", Kind: "failing-input", Ops: []string{"fen " + fen, "mk " + strconv.Itoa(int(m)), "legal"},
					Impl: got, Spec: after[k], Note: "playable set of the position reached by MakeMove differs from the FIDE-legal moves of the rule-book successor"})
			}
		}
		// every other copy of the legality filter "make the move, reject it if the own king is attacked"
		// must agree with the rule book as well: debug.Perft and the search's abort fallback
		e.c01Filters(fen, src, b, st, all, ans[2], probe)
	}
	for i := 0; i < n; i++ {
		fen, src := e.next()
		process(i, fen, src)
		if i%8 == 7 {
			// king nets: dense around the king of the side to move - in check by guarded adjacent men,
			// pinned capturers, few legal moves among many pseudo-legal ones
			for try := 0; try < 50; try++ {
				if p, ok := posgen.KingNet(e.c.Rng); ok && (p.EP == 0 || p.EPSound()) {
					process(i, p.FEN(), "kingnet")
					break
				}
			}
		}
	}
	e.c01LongPlay(e.c.Pick(36, 1500))
}

// c01LongPlay: positions REACHED BY LONG PLAY.  From valid roots with castling rights (stream roots,
// constructive samples, castling-path positions; pawns give en-passant / promotion potential) a game
// of 130-260 plies is played with MakeMove only, dominated by reversible moves that keep the castling
// rights (quiet moves of knights, bishops, queens, and of rooks / kings that hold no right), so that
// the halfmove clock runs past 100, past 127 and wraps; two walks in three are purely reversible when
// possible, the third mixes in random legal moves.  Every played move must be rule-book legal in the
// driver's position (`speclegal`), the driver follows with `mkq` (the machinery suite c10 uses for
// clocks past 100 / 128: legality does not depend on the clock, no `valid` is asked on the way).  At
// checkpoints (plies 1 2 4 8 16 32 48 64 80 96, every 8th ply from 100, clock values around 100, 127
// and the wrap, the last ply) the c01 comparison is made: generated lists and playable set vs model
// vs Rules.legalMoves of the reached position - and a SECOND time after the first pass has made and
// undone every generated move, so that state corrupted by an undo is seen by the next generation;
// the rule-book view (placement, turn, rights, en-passant target) before and after that pass and in
// the model must agree as well.
func (e *env) c01LongPlay(walks int) {
	rng := e.c.Rng
	type checkpoint struct {
		ply                        int
		pos0, pos1                 string
		gen1, legal1, gen2, legal2 string
	}
	view := func(b *board.Board) string { return strings.Join(strings.Fields(implutil.PosStr(b))[:4], " ") }
	for w := 0; w < walks; w++ {
		var fen string
		var b *board.Board
		for {
			if rng.IntN(3) == 0 {
				if cc, ok := posgen.CastlePath(rng); ok {
					fen = cc.Pos.FEN()
				} else {
					continue
				}
			} else {
				fen, _ = e.s.Next()
			}
			var valid bool
			b, valid, _ = e.load("C01", fen)
			// both sides need a man that can shuffle without touching the rights
			minor := b != nil && (b.Pieces[Knight]|b.Pieces[Bishop]|b.Pieces[Queen])&b.Colors[White] != 0 &&
				(b.Pieces[Knight]|b.Pieces[Bishop]|b.Pieces[Queen])&b.Colors[Black] != 0
			if b != nil && valid && b.Castles != 0 && (minor || rng.IntN(8) == 0) && len(implutil.Legal(b)) > 0 {
				break
			}
		}
		mixed := w%3 == 2
		target := 170 + rng.IntN(91)
		if mixed {
			target = 130 + rng.IntN(131)
		}
		var ms []move.Move
		var cps []checkpoint
		reqs := []string{"fen " + fen}
		wrapped, irreversible := false, 0
		for ply := 1; ply <= target; ply++ {
			l := implutil.Legal(b)
			if len(l) == 0 {
				break
			}
			var keep []move.Move
			for _, x := range l {
				pc := b.SquaresToPiece[x.From()]
				if b.SquaresToPiece[x.To()] != NoPiece || pc == Pawn {
					continue
				}
				if pc == King || pc == Rook {
					// would the move give up a right?
					var lose Castles
					switch x.From() {
					case E1:
						lose = ShortWhite | LongWhite
					case H1:
						lose = ShortWhite
					case A1:
						lose = LongWhite
					case E8:
						lose = ShortBlack | LongBlack
					case H8:
						lose = ShortBlack
					case A8:
						lose = LongBlack
					}
					if b.Castles&lose != 0 {
						continue
					}
				}
				keep = append(keep, x)
			}
			m := l[rng.IntN(len(l))]
			if len(keep) > 0 && !(mixed && rng.IntN(25) == 0) {
				// prefer a shuffle that does not give check (a check forces king moves, which cost rights)
				for try := 0; try < 4; try++ {
					m = keep[rng.IntN(len(keep))]
					r := b.MakeMove(m)
					chk := b.InCheck(b.STM)
					b.UndoMove(m, r)
					if !chk {
						break
					}
				}
			}
			if b.SquaresToPiece[m.From()] == Pawn || b.SquaresToPiece[b.CaptureSq(m)] != NoPiece {
				irreversible++
			}
			reqs = append(reqs, "speclegal "+strconv.Itoa(int(m)), "mkq "+strconv.Itoa(int(m)))
			b.MakeMove(m)
			ms = append(ms, m)
			fc := int(b.FiftyCnt)
			if fc < 0 {
				wrapped = true
			}
			isCp := ply == target || (ply < 100 && (ply&(ply-1) == 0 || ply%16 == 0)) || (ply >= 100 && ply%8 == 0) ||
				(fc >= 99 && fc <= 101) || fc >= 126 || (fc < 0 && fc <= -125)
			if !isCp {
				continue
			}
			var cp checkpoint
			cp.ply = ply
			cp.pos0 = view(b)
			n1, q1 := implutil.Gen(b)
			cp.gen1 = implutil.MovesStr(n1) + "|" + implutil.MovesStr(q1)
			cp.legal1 = implutil.MovesStr(implutil.Legal(b)) // makes and undoes every generated move
			cp.pos1 = view(b)
			n2, q2 := implutil.Gen(b)
			cp.gen2 = implutil.MovesStr(n2) + "|" + implutil.MovesStr(q2)
			cp.legal2 = implutil.MovesStr(implutil.Legal(b))
			cps = append(cps, cp)
			reqs = append(reqs, "abs", "gen", "legal", "spec")
			e.r.Count("longplay-checkpoints", 1)
			switch {
			case fc < 0:
				e.r.Count("longplay-checkpoints-clock-wrapped", 1)
			case fc > 100:
				e.r.Count("longplay-checkpoints-clock-101..127", 1)
			}
			if b.Castles != 0 {
				e.r.Count("longplay-checkpoints-with-castling-rights", 1)
				if fc < 0 || fc > 100 {
					e.r.Count("longplay-checkpoints-with-castling-rights-clock>100", 1)
					e.r.Nontrivial(fmt.Sprintf("longplay %s %d %v", fen, ply, ms[max(0, len(ms)-6):]))
				}
			}
			for _, x := range q2 {
				if b.SquaresToPiece[x.From()] == King && Abs(int(x.From())-int(x.To())) == 2 {
					e.r.Count("longplay-checkpoints-castling-move-generated", 1)
					break
				}
			}
		}
		e.r.Count("longplay-walks", 1)
		e.r.Count("longplay-plies", len(ms))
		e.r.Count("longplay-irreversible-plies", irreversible)
		if wrapped {
			e.r.Count("longplay-walks-clock-wrapped", 1)
		}
		if b.Castles != 0 {
			e.r.Count("longplay-walks-rights-kept-to-the-end", 1)
		}
		ans := e.m.Batch(reqs)[1:]
		path := func(ply int, last string) []string {
			p := []string{"fen " + fen}
			for _, m := range ms[:ply] {
				p = append(p, "mk "+strconv.Itoa(int(m)))
			}
			return append(p, last)
		}
		ai, ci := 0, 0
		failed := false
		for ply := 1; ply <= len(ms) && !failed; ply++ {
			e.r.Evaluations++
			if ans[ai] != "1" {
				e.r.Fail(common.Mismatch{Property: "C01", Kind: "failing-input", Ops: path(ply-1, "speclegal "+strconv.Itoa(int(ms[ply-1]))),
					Impl: "playable", Spec: ans[ai], Note: "a move of the implementation's playable set is not rule-book legal in the position reached by play"})
				failed = true
				break
			}
			ai += 2
			if ci < len(cps) && cps[ci].ply == ply {
				cp := cps[ci]
				ci++
				abs, gen, legal, spec := ans[ai], ans[ai+1], ans[ai+2], ans[ai+3]
				ai += 4
				e.r.Evaluations += 2
				absView := strings.Join(strings.Fields(abs)[:4], " ")
				switch {
				case cp.legal1 != spec:
					e.r.Fail(common.Mismatch{Property: "C01", Kind: "failing-input", Ops: path(ply, "legal"), Impl: cp.legal1, Model: legal, Spec: spec,
						Note: "playable set of the position reached by long play differs from the FIDE-legal set; implementation's view: " + cp.pos0 + " rule-book view: " + absView})
					failed = true
				case cp.legal2 != spec:
					e.r.Fail(common.Mismatch{Property: "C01", Kind: "failing-input", Ops: path(ply, "legal;legal"), Impl: cp.legal2, Model: legal, Spec: spec,
						Note: "playable set generated a SECOND time (after make/undo of every generated move) differs from the FIDE-legal set; view before: " + cp.pos0 + " after: " + cp.pos1})
					failed = true
				case cp.pos1 != cp.pos0:
					e.r.Fail(common.Mismatch{Property: "C01", Kind: "failing-input", Ops: path(ply, "legal"), Impl: cp.pos1, Spec: cp.pos0,
						Note: "the legality filter (make/undo of every generated move) changed placement / turn / rights / en-passant target"})
					failed = true
				case cp.pos0 != absView:
					e.r.Fail(common.Mismatch{Property: "C01", Kind: "broken-correspondence", Ops: path(ply, "abs"), Impl: cp.pos0, Model: absView})
					failed = true
				case cp.gen1 != gen || cp.gen2 != gen:
					e.r.Fail(common.Mismatch{Property: "C01", Kind: "broken-correspondence", Ops: path(ply, "gen"), Impl: cp.gen1 + " / " + cp.gen2, Model: gen, Spec: spec})
					failed = true
				case cp.legal1 != legal:
					e.r.Fail(common.Mismatch{Property: "C01", Kind: "broken-correspondence", Ops: path(ply, "legal"), Impl: cp.legal1, Model: legal, Spec: spec})
					failed = true
				}
			}
		}
	}
}

func countList(s string) int {
	if s == "" {
		return 0
	}
	return strings.Count(s, ",") + 1
}

// c01Filters checks the other places where the engine applies the legality filter, on a position
// whose playable set has just been compared: (i) debug.Perft(b, 1) against the number of rule-book
// legal moves, and on a sample biased to roots in check / with pin candidates / with an en-passant
// target debug.Perft(b, 2) against the sum of the rule-book legal-move counts of the rule-book
// successors; (ii) the move the search returns when it is aborted before the first iteration has
// delivered one (node limit 0, a tiny node limit, a stop channel that is already closed): 0 iff the
// rule book has no legal move (0 is also accepted on a root that is drawn by the 50-move rule),
// otherwise a rule-book legal move.  Counted: positions whose FIRST generated pseudo-legal move is
// illegal, positions with any illegal pseudo-legal move.
func (e *env) c01Filters(fen, src string, b *board.Board, st posgen.Stats, all []move.Move, spec string, probe *search.Search) {
	rng := e.c.Rng
	nLegal := countList(spec)
	guard := func(what string, f func()) {
		defer func() {
			if r := recover(); r != nil {
				e.r.Fail(common.Mismatch{Property: "C01", Kind: "failing-input", Ops: []string{"fen " + fen, what}, Impl: fmt.Sprint("panic: ", r)})
			}
		}()
		f()
	}
	// classification of the root for the histogram
	firstIllegal, anyIllegal := false, false
	for k, m := range all {
		r := b.MakeMove(m)
		bad := b.InCheck(b.STM.Flip())
		b.UndoMove(m, r)
		if bad {
			anyIllegal = true
			if k == 0 {
				firstIllegal = true
			}
		}
	}
	if anyIllegal {
		e.r.Count("filter-root-with-illegal-pseudolegal-move", 1)
	}
	if firstIllegal {
		e.r.Count("filter-root-first-generated-move-illegal", 1)
	}
	// (i) perft
	guard("perft 1", func() {
		e.r.Evaluations++
		e.r.Count("perft1", 1)
		if got := debug.Perft(b, 1, false); got != nLegal {
			e.r.Fail(common.Mismatch{Property: "C01", Kind: "failing-input", Ops: []string{"fen " + fen, "perft 1"},
				Impl: strconv.Itoa(got), Spec: strconv.Itoa(nLegal), Note: "debug.Perft(1) differs from the number of rule-book legal moves"})
		}
	})
	interesting := st.InCheck || st.AlignedMen > 0 || st.HasEP
	if nLegal > 0 && ((interesting && rng.IntN(5) == 0) || rng.IntN(40) == 0) {
		var reqs []string
		for _, m := range strings.Split(spec, ",") {
			reqs = append(reqs, "specafter "+m)
		}
		want := 0
		for _, a := range e.m.Batch(reqs) {
			want += countList(a)
		}
		guard("perft 2", func() {
			e.r.Evaluations++
			e.r.Count("perft2", 1)
			if interesting {
				e.r.Count("perft2-root-in-check-or-pin-or-ep", 1)
			}
			if got := debug.Perft(b, 2, false); got != want {
				e.r.Fail(common.Mismatch{Property: "C01", Kind: "failing-input", Ops: []string{"fen " + fen, "perft 2"},
					Impl: strconv.Itoa(got), Spec: strconv.Itoa(want), Note: "debug.Perft(2) differs from the rule-book count (sum of the legal-move counts of the rule-book successors)"})
			}
		})
	}
	// (ii) abort fallback of the search
	if b.InvalidPieceCount() {
		return // the engine refuses to search such positions (uci position command)
	}
	// (iii) the move loop of a completed shallow search
	if src == "ep-shield" || (st.HasEP && rng.IntN(3) == 0) || (anyIllegal && rng.IntN(12) == 0) {
		e.c01Search(fen, spec, probe)
	}
	legalSet := map[string]bool{}
	if spec != "" {
		for _, m := range strings.Split(spec, ",") {
			legalSet[m] = true
		}
	}
	closed := make(chan struct{})
	close(closed)
	k := 1 + rng.IntN(3)
	variants := []struct {
		name string
		opts []search.Option
	}{
		{"go nodes 0", []search.Option{search.WithNodes(0)}},
		{fmt.Sprintf("go nodes %d", k), []search.Option{search.WithNodes(k)}},
		{"go with pending stop", []search.Option{search.WithStop(closed)}},
	}
	for _, v := range variants {
		guard(v.name, func() {
			sb, err := board.FromFEN(fen)
			if err != nil {
				return
			}
			_, mv, _ := probe.Go(sb, append([]search.Option{search.WithOutput(nil)}, v.opts...)...)
			e.r.Evaluations++
			e.r.Count("abort-fallback", 1)
			if firstIllegal {
				e.r.Count("abort-fallback-root-first-generated-move-illegal", 1)
			}
			ok := false
			switch {
			case nLegal == 0:
				ok = mv == 0
			case mv == 0:
				ok = sb.FiftyCnt >= 100
			default:
				ok = legalSet[strconv.Itoa(int(mv))]
			}
			if !ok {
				e.r.Fail(common.Mismatch{Property: "C01", Kind: "failing-input", Ops: []string{"fen " + fen, v.name},
					Impl: fmt.Sprintf("%d (%s)", mv, mv), Spec: spec, Note: "the move returned by the aborted search is not a rule-book legal move (or 0 although a legal move exists / a move although none exists)"})
			}
		})
	}
}

// c01Search is the third copy of the filter: the move loop of the search itself.  A COMPLETED shallow search
// (depth 3, at most 4000 nodes) of the root must return a rule-book legal move and must not panic (an illegal
// move let through one ply below the root is answered by a king capture, which the rankers index out of range).
func (e *env) c01Search(fen string, spec string, probe *search.Search) {
	defer func() {
		if r := recover(); r != nil {
			e.r.Fail(common.Mismatch{Property: "C01", Kind: "failing-input", Ops: []string{"fen " + fen, "go depth 3 nodes 4000"}, Impl: fmt.Sprint("panic: ", r),
				Spec: spec, Note: "the search panicked: an illegal move passed its legality filter (the reply captures the king)"})
		}
	}()
	sb, err := board.FromFEN(fen)
	if err != nil || sb.InvalidPieceCount() {
		return
	}
	_, mv, _ := probe.Go(sb, search.WithOutput(nil), search.WithDepth(3), search.WithNodes(4000))
	e.r.Evaluations++
	e.r.Count("filter-completed-shallow-search", 1)
	ok := false
	switch {
	case spec == "":
		ok = mv == 0
	case mv == 0:
		ok = sb.FiftyCnt >= 100
	default:
		for _, m := range strings.Split(spec, ",") {
			if m == strconv.Itoa(int(mv)) {
				ok = true
			}
		}
	}
	if !ok {
		e.r.Fail(common.Mismatch{Property: "C01", Kind: "failing-input", Ops: []string{"fen " + fen, "go depth 3 nodes 4000"},
			Impl: fmt.Sprintf("%d (%s)", mv, mv), Spec: spec, Note: "the move returned by the search is not a rule-book legal move"})
	}
}

func (e *env) kindBySpec(implLegal, spec string) string {
	if implLegal != spec {
		return "failing-input"
	}
	return "broken-correspondence"
}

// ---------------------------------------------------------------------------------------------
// C02: successor position as the rules prescribe, through MakeMove and through `position … moves`.

func (e *env) c02() {
	n := e.c.Pick(1500, 40000)
	games := e.c.Pick(150, 5000)
	e.r.Rule = "valid positions x every legal move: rule-book view of the implementation's board after MakeMove vs model vs Rules.apply (placement, turn, rights, en-passant target iff a legal en-passant capture exists, both counters); plus directed en-passant geometry and games replayed through `position fen F moves …` + `fen`; non-trivial = move that is a capture, castling, promotion, double push, en passant, or changes castling rights; distinct by (FEN, move)"
	var uciMoves []move.Move
	var uciWant []string
	var uciSpecOK []bool
	check := func(fen string, b *board.Board, src string) {
		legal := implutil.Legal(b)
		if len(legal) == 0 {
			return
		}
		var reqs []string
		for _, m := range legal {
			reqs = append(reqs, "specapply "+strconv.Itoa(int(m)), "mkq "+strconv.Itoa(int(m)), "abs", "um "+strconv.Itoa(int(m)))
		}
		ans := e.m.Batch(reqs)
		for i, m := range legal {
			e.r.Evaluations++
			before := implutil.PosStr(b)
			captured := b.SquaresToPiece[b.CaptureSq(m)]
			piece := b.SquaresToPiece[m.From()]
			castlesBefore := b.Castles
			r := b.MakeMove(m)
			impl := implutil.PosStr(b)
			implDump := implutil.Dump(b) + " | " + implutil.Token(r)
			castlesAfter := b.Castles
			b.UndoMove(m, r)
			d := int(m.From()) - int(m.To())
			if captured != NoPiece || m.Promo() != NoPiece || (piece == King && (d == 2 || d == -2)) ||
				(piece == Pawn && (d == 16 || d == -16)) || castlesBefore != castlesAfter {
				e.r.Nontrivial(fen + " " + m.String())
			}
			spec, modelDump, modelAbs := ans[4*i], ans[4*i+1], ans[4*i+2]
			ops := []string{"fen " + fen, "mk " + strconv.Itoa(int(m))}
			// the same single move through the UCI position command (every castling, en-passant and
			// promotion move, a sample of the others): `position fen F moves m` + `fen`
			special := m.Promo() != NoPiece || (piece == King && (d == 2 || d == -2)) || (piece == Pawn && captured == NoPiece && d%8 != 0)
			// (no filter on the implementation's own piece-count gate: the position is valid, and the gate
			// accepts every valid position - C11 pieceCount_accepts_valid - so a rejection shows up below)
			if special || e.c.Rng.IntN(8) == 0 {
				r2 := b.MakeMove(m)
				uciWant = append(uciWant, b.FEN())
				b.UndoMove(m, r2)
				uciMoves = append(uciMoves, m)
				uciSpecOK = append(uciSpecOK, impl == spec)
			}
			if impl != spec {
				e.r.Fail(common.Mismatch{Property: "C02", Kind: "failing-input", Ops: ops, Impl: impl, Model: modelAbs, Spec: spec,
					Note: "successor differs from Rules.apply; before: " + before})
			} else if implDump != modelDump {
				e.r.Fail(common.Mismatch{Property: "C02", Kind: "broken-correspondence", Ops: ops, Impl: implDump, Model: modelDump, Spec: spec})
			}
		}
		if len(uciMoves) > 0 {
			var sb strings.Builder
			for _, m := range uciMoves {
				sb.WriteString("position fen " + fen + " moves " + m.String() + "\nfen\n")
			}
			sb.WriteString("quit\n")
			var out, errb bytes.Buffer
			uci.NewDriver(uci.WithInput(strings.NewReader(sb.String())), uci.WithOutput(&out), uci.WithError(&errb)).Run()
			got := strings.Split(strings.TrimSpace(out.String()), "\n")
			for i, m := range uciMoves {
				e.r.Evaluations++
				e.r.Count("uci-single-move", 1)
				g := ""
				if i < len(got) {
					g = strings.TrimSpace(got[i])
				}
				if g != uciWant[i] {
					kind := "broken-correspondence"
					if uciSpecOK[i] {
						kind = "failing-input" // the library successor equals the rule book's, the UCI path does not produce it
					}
					e.r.Fail(common.Mismatch{Property: "C02", Kind: kind, Ops: []string{"position fen " + fen + " moves " + m.String(), "fen"},
						Impl: g, Spec: uciWant[i], Note: "UCI position command with a one-move list does not install the rule-book successor; stderr: " + errb.String()})
				}
			}
			uciMoves, uciWant, uciSpecOK = uciMoves[:0], uciWant[:0], uciSpecOK[:0]
		}
		e.r.Count(src, 1)
	}
	for i := 0; i < n; i++ {
		fen, src := e.next()
		b, valid, _ := e.load("C02", fen)
		if b == nil || !valid {
			continue
		}
		check(fen, b, src)
		if i == 0 {
			e.r.Sample(map[string]any{"fen": fen, "moves": implutil.MovesStr(implutil.Legal(b))}, 3)
		}
	}
	// directed en-passant geometry: the double push itself is the move of interest
	for i := 0; i < e.c.Pick(1500, 60000); i++ {
		ec, ok := posgen.EPDirected(e.c.Rng)
		if !ok {
			continue
		}
		fen := ec.Pos.FEN()
		b, valid, _ := e.load("C02", fen)
		if b == nil || !valid {
			continue
		}
		m := move.From(Square(ec.From)) | move.To(Square(ec.To))
		isLegal := false
		for _, l := range implutil.Legal(b) {
			if l == m {
				isLegal = true
			}
		}
		if !isLegal {
			continue
		}
		e.r.Count("epdirected-push", 1)
		ans := e.m.Batch([]string{"specapply " + strconv.Itoa(int(m)), "speclegal " + strconv.Itoa(int(m))})
		if ans[1] != "1" {
			continue
		}
		e.r.Evaluations++
		r := b.MakeMove(m)
		impl := implutil.PosStr(b)
		b.UndoMove(m, r)
		if strings.Fields(impl)[3] != "-" {
			e.r.Count("epdirected-ep-recorded", 1)
		}
		e.r.Nontrivial(fen + " " + m.String())
		if impl != ans[0] {
			e.r.Fail(common.Mismatch{Property: "C02", Kind: "failing-input", Ops: []string{"fen " + fen, "mk " + strconv.Itoa(int(m))},
				Impl: impl, Spec: ans[0], Note: "double push: en-passant target must be recorded iff a legal en-passant capture exists"})
		}
	}
	// games through the UCI position command
	for g := 0; g < games; g++ {
		var fen string
		var b *board.Board
		for {
			var valid bool
			fen, _ = e.s.Next()
			b, valid, _ = e.load("C02", fen)
			if b != nil && valid { // not filtered by the implementation's own piece-count gate (see above)
				break
			}
		}
		var moves []string
		reqs := []string{}
		n := 1 + e.c.Rng.IntN(e.c.Pick(60, 300))
		for i := 0; i < n; i++ {
			l := implutil.Legal(b)
			if len(l) == 0 || b.FiftyCnt >= 100 {
				break
			}
			m := l[e.c.Rng.IntN(len(l))]
			b.MakeMove(m)
			moves = append(moves, m.String())
			reqs = append(reqs, "mkq "+strconv.Itoa(int(m)))
		}
		if len(moves) == 0 {
			continue
		}
		reqs = append(reqs, "fenout")
		ans := e.m.Batch(reqs)
		modelFen := ans[len(ans)-1]
		script := "position fen " + fen + " moves " + strings.Join(moves, " ") + "\nfen\nquit\n"
		var out, errb bytes.Buffer
		uci.NewDriver(uci.WithInput(strings.NewReader(script)), uci.WithOutput(&out), uci.WithError(&errb)).Run()
		uciFen := strings.TrimSpace(out.String())
		e.r.Evaluations++
		e.r.TracesValidated++
		e.r.Count("uci-games", 1)
		e.r.Count("uci-plies", len(moves))
		if uciFen != b.FEN() {
			e.r.Fail(common.Mismatch{Property: "C02", Kind: "failing-input", Ops: strings.Split(strings.TrimSpace(script), "\n"),
				Impl: uciFen, Spec: b.FEN(), Note: "UCI position command and library API disagree; stderr: " + errb.String()})
		} else if uciFen != modelFen {
			e.r.Fail(common.Mismatch{Property: "C02", Kind: "broken-correspondence", Ops: strings.Split(strings.TrimSpace(script), "\n"),
				Impl: uciFen, Model: modelFen})
		}
	}
}

// ---------------------------------------------------------------------------------------------
// C03 / C04: make/undo walks and shallow exhaustive trees with deep snapshots after every operation.

func (e *env) walks(prop string) {
	roots := e.c.Pick(700, 12000)
	e.r.Rule = "per valid root: exhaustive depth-2 tree of pseudo-legal makes (incl. moves that leave the king in check, undone at once) and a random walk of <=60 nested makes with null moves interleaved when not in check, then full unwinding; after every op the deep snapshot (placements, rights, ep, counters, whole hash history, token fields) is compared with the model; Go asserts undo==snapshot-before (C03) and Hash()==recomputed hash + three placements agree (C04); non-trivial = make of a capture/castling/promotion/en-passant/double-push/rights-changing move or null move with ep; distinct by (FEN, op path). C03 only: deep walks (nesting depth up to 330, crossing 128 and 256 history entries, null moves interleaved, full unwinding, every op under recover; histogram deepwalk-*; non-trivial = walk of depth >= 127); clock walks (reversible stretches of 130-300 plies, or 40-200 from FENs with clock 90..100, so that the halfmove clock passes 100, 127 and the int8 wrap, with and without castling rights, null moves, an irreversible move at a clock >= 128 in every third; clockwalk-*; non-trivial = walk whose clock reached 128); walks with interference (2-3 boards from StartPos() / FromFEN(same FEN) operated in random alternation, undo compared with the snapshot before its make on every board, untouched boards must not change; aliaswalk-*). C03 and C04: the root boards are obtained through the set-up orders of the public API in rotation (FromFEN; FromFEN + ResetHash; zero Board + ParseFEN + ResetHash; ParseFEN + ResetHash into a board that held another position, without / with a move history; root-setup:*), and set-up walks (also StartPos() + moves; ResetHash() at random points of the walk - after makes, null moves, undos, undos back to the reset point, twice in a row - and re-set-up by ParseFEN + ResetHash in the middle of a line; never undone below a reset point; resethash-after:*, re-setup-*; model ops fen / rh)"
	for i := 0; i < roots; i++ {
		fen, src := e.s.Next()
		b, valid, _ := e.load(prop, fen)
		if b == nil || !valid {
			continue
		}
		e.r.Count(src, 1)
		// the root board is obtained through the different orders of the public API that set up a position
		if path := setupPaths[i%len(setupPaths)]; path != "fromfen" {
			if b = e.setupBoard(prop, fen, path); b == nil {
				continue
			}
		} else {
			e.r.Count("root-setup:fromfen", 1)
		}
		e.tree(prop, fen, b, 2)
		e.randomWalk(prop, fen, b)
		if i == 0 {
			e.r.Sample(map[string]any{"root": fen}, 3)
		}
	}
	e.setupWalks(prop, e.c.Pick(250, 6000))
	if prop == "C04" {
		e.transpositions()
		// the hash invariants past a halfmove clock of 100 / 127 / the int8 wrap
		e.clockWalks(prop, e.c.Pick(30, 900))
		// … and with several boards alive at once (aliasing between boards)
		e.aliasWalks(prop, e.c.Pick(30, 900))
	}
	if prop == "C03" {
		e.deepWalks(prop, e.c.Pick(40, 1200))
		e.clockWalks(prop, e.c.Pick(30, 900))
		e.aliasWalks(prop, e.c.Pick(30, 900))
	}
}

// setupPaths are the orders of the public board API that set up a position:
//
//	fromfen                 board.FromFEN(fen)                                  (uci position, bench, perft/EPD readers, datagen client)
//	fromfen+resethash       FromFEN, then ResetHash() once more on the fresh board (allowed by the API; the repo never does it)
//	zero+parsefen+resethash new(Board) / zero value, ParseFEN, ResetHash          (what FromFEN itself does; tools/extract and the tuner parse into a zero Board)
//	reused-nohistory        ParseFEN + ResetHash into a board that held another, unrelated position (parsed, no moves)
//	                        (the allocation-free path of tools/tuner/epd.Parse: one Board recycled for every line; the tuner never moves on it)
//	reused-with-history     the same into a board that held another position AND has a hash history from moves made on it (some taken back)
//
// (StartPos() + moves is a further path of setupWalks.)  The repo itself calls ResetHash only inside
// FromFEN; every other order is merely allowed by the exported API - fair for C04, whose invariants are
// about "the current position".
var setupPaths = []string{"fromfen", "zero+parsefen+resethash", "reused-with-history", "fromfen+resethash", "reused-nohistory"}

// otherPosition returns the FEN of a valid (Lean `valid`) position unrelated to the one under test.
func (e *env) otherPosition() string {
	for {
		f, _ := e.s.Next()
		if b, valid, _ := e.load("C04", f); b != nil && valid && len(implutil.Legal(b)) > 0 {
			return f
		}
	}
}

// c04Root checks the C04 invariants and the model's dump on a board that has just been set up.
func (e *env) c04Root(prop string, ops []string, b *board.Board, modelDump string) bool {
	ok := true
	func() {
		defer func() {
			if r := recover(); r != nil {
				e.r.Fail(common.Mismatch{Property: prop, Kind: "failing-input", Ops: ops, Impl: fmt.Sprint("panic: ", r)})
				ok = false
			}
		}()
		e.r.Evaluations++
		impl := implutil.Dump(b)
		msg := consistent(b)
		switch {
		case msg != "":
			e.r.Fail(common.Mismatch{Property: "C04", Kind: "failing-input", Ops: ops, Impl: impl, Model: modelDump, Note: "after the set-up: " + msg})
			ok = false
		case b.Hash() != b.VerifCalculateHash():
			e.r.Fail(common.Mismatch{Property: "C04", Kind: "failing-input", Ops: ops, Impl: fmt.Sprintf("incremental %x", uint64(b.Hash())),
				Spec: fmt.Sprintf("recomputed %x", uint64(b.VerifCalculateHash())), Model: modelDump, Note: "after the set-up: Hash() differs from the hash computed from scratch"})
			ok = false
		case "ok "+impl != modelDump:
			e.r.Fail(common.Mismatch{Property: prop, Kind: "broken-correspondence", Ops: ops, Impl: impl, Model: modelDump, Note: "board after the set-up differs from the model's FromFEN"})
			ok = false
		}
	}()
	return ok
}

// setupBoard obtains a board holding fen through the given set-up path and checks it (c04Root).
func (e *env) setupBoard(prop, fen, path string) *board.Board {
	rng := e.c.Rng
	ops := []string{"setup " + path, "fen " + fen}
	var b *board.Board
	perr := func() (msg string) {
		defer func() {
			if r := recover(); r != nil {
				msg = fmt.Sprint(r)
			}
		}()
		switch path {
		case "fromfen":
			b, _ = board.FromFEN(fen)
		case "fromfen+resethash":
			b, _ = board.FromFEN(fen)
			b.ResetHash()
		case "zero+parsefen+resethash":
			b = new(board.Board)
			if board.ParseFEN(b, []byte(fen)) != nil {
				b = nil
				return ""
			}
			b.ResetHash()
		case "reused-nohistory", "reused-with-history":
			other := e.otherPosition()
			ops = []string{"setup " + path, "fen " + other}
			if path == "reused-nohistory" && rng.IntN(2) == 0 {
				b = new(board.Board)
				board.ParseFEN(b, []byte(other))
				if rng.IntN(2) == 0 {
					b.ResetHash()
				}
			} else {
				b, _ = board.FromFEN(other)
			}
			if path == "reused-with-history" {
				type fr struct {
					m move.Move
					r board.Reverse
				}
				var st []fr
				for k := 1 + rng.IntN(30); k > 0; k-- {
					if len(st) > 0 && rng.IntN(4) == 0 {
						b.UndoMove(st[len(st)-1].m, st[len(st)-1].r)
						st = st[:len(st)-1]
						ops = append(ops, "um")
						continue
					}
					l := implutil.Legal(b)
					if len(l) == 0 {
						break
					}
					m := l[rng.IntN(len(l))]
					st = append(st, fr{m, b.MakeMove(m)})
					ops = append(ops, "mk "+strconv.Itoa(int(m)))
				}
			}
			ops = append(ops, "parsefen "+fen, "resethash")
			if board.ParseFEN(b, []byte(fen)) != nil {
				b = nil
				return ""
			}
			if msg := consistent(b); msg != "" {
				e.r.Fail(common.Mismatch{Property: "C04", Kind: "failing-input", Ops: ops[:len(ops)-1], Impl: implutil.Dump(b), Note: "after ParseFEN into a used board: " + msg})
				b = nil
				return ""
			}
			b.ResetHash()
		}
		return ""
	}()
	e.r.Count("root-setup:"+path, 1)
	if perr != "" {
		e.r.Fail(common.Mismatch{Property: prop, Kind: "failing-input", Ops: ops, Impl: "panic: " + perr})
		return nil
	}
	if b == nil {
		return nil
	}
	if !e.c04Root(prop, ops, b, e.m.Ask("fen "+fen)) {
		return nil
	}
	return b
}

// setupWalks: ORDERS OF THE PUBLIC BOARD API that set up / re-set-up a position before and between
// moves.  Per session a board is obtained through one of setupPaths or by StartPos() + 1..20 moves,
// then a random sequence of 20-80 ops runs on it: makes of legal moves, null moves, undos (never
// below the last ResetHash / set-up point: the history was cut there), ResetHash() at random points -
// after a make, after a null move, after an undo, after undoing back to the root, twice in a row,
// directly after the set-up - and now and then a re-set-up of the same board by ParseFEN + ResetHash
// with another position in the middle of a line.  After EVERY op: Hash() == VerifCalculateHash(), the
// three placements agree, the dump equals the model's (driver ops fen / mkq / um / nm / unm / rh), and
// an undo restores the snapshot taken before its make.  Finally the walk is unwound to the last reset
// point.  Counted: sessions per set-up path, ResetHash calls per kind of position in the walk.
func (e *env) setupWalks(prop string, n int) {
	rng := e.c.Rng
	type saved struct {
		snap string
		r    board.Reverse
		m    move.Move
		null bool
	}
	for w := 0; w < n; w++ {
		var fen string
		for {
			f, _ := e.s.Next()
			if b, valid, _ := e.load(prop, f); b != nil && valid {
				fen = f
				break
			}
		}
		path := append(append([]string{}, setupPaths...), "startpos+moves")[w%(len(setupPaths)+1)]
		var b *board.Board
		var reqs []string // model requests, in step with want
		var got []string  // implementation dumps
		ops := []string{}
		if path == "startpos+moves" {
			fen = StartPosFEN
			b = board.StartPos()
			e.r.Count("root-setup:startpos+moves", 1)
			ops = append(ops, "startpos")
			if !e.c04Root(prop, ops, b, e.m.Ask("fen "+fen)) {
				continue
			}
		} else {
			if b = e.setupBoard(prop, fen, path); b == nil {
				continue
			}
			ops = append(ops, "setup "+path, "fen "+fen)
		}
		reqs = append(reqs, "fen "+fen)
		got = append(got, "ok "+implutil.Dump(b))
		var stack []saved
		last := "setup" // what the previous op was, for the ResetHash histogram
		failed := false
		total := 20 + rng.IntN(61)
		preMoves := 0
		if path == "startpos+moves" {
			preMoves = 1 + rng.IntN(20)
		}
		do := func(kind byte) {
			perr := func() (msg string) {
				defer func() {
					if r := recover(); r != nil {
						msg = fmt.Sprint(r)
					}
				}()
				var impl string
				switch kind {
				case 'm':
					l := implutil.Legal(b)
					if len(l) == 0 {
						return ""
					}
					m := l[rng.IntN(len(l))]
					before := implutil.Dump(b)
					r := b.MakeMove(m)
					stack = append(stack, saved{snap: before, r: r, m: m})
					impl = implutil.Dump(b) + " | " + implutil.Token(r)
					reqs = append(reqs, "mkq "+strconv.Itoa(int(m)))
					last = "make"
				case 'n':
					before := implutil.Dump(b)
					r := b.MakeNullMove()
					stack = append(stack, saved{snap: before, r: r, null: true})
					impl = implutil.Dump(b) + " | " + implutil.Token(r)
					reqs = append(reqs, "nm")
					last = "null-move"
				case 'u':
					sv := stack[len(stack)-1]
					stack = stack[:len(stack)-1]
					if sv.null {
						b.UndoNullMove(sv.r)
						reqs = append(reqs, "unm")
					} else {
						b.UndoMove(sv.m, sv.r)
						reqs = append(reqs, "um "+strconv.Itoa(int(sv.m)))
					}
					impl = implutil.Dump(b)
					last = "undo"
					if len(stack) == 0 {
						last = "undo-to-the-reset-point"
					}
					if impl != sv.snap {
						e.r.Fail(common.Mismatch{Property: prop, Kind: "failing-input", Ops: append(append([]string{}, ops...), reqs[len(reqs)-1]), Impl: impl, Spec: sv.snap,
							Note: "undo did not restore the snapshot taken before the make"})
						failed = true
					}
				case 'r':
					b.ResetHash()
					stack = stack[:0]
					impl = implutil.Dump(b)
					reqs = append(reqs, "rh")
					e.r.Count("resethash-calls", 1)
					e.r.Count("resethash-after:"+last, 1)
					last = "resethash"
				case 'p':
					f2 := e.otherPosition()
					if board.ParseFEN(b, []byte(f2)) != nil {
						panic("ParseFEN rejected a FEN that FromFEN accepts: " + f2)
					}
					if msg := consistent(b); msg != "" {
						e.r.Fail(common.Mismatch{Property: "C04", Kind: "failing-input", Ops: append(append([]string{}, ops...), "parsefen "+f2), Impl: implutil.Dump(b),
							Note: "after ParseFEN into the board in the middle of a line: " + msg})
						failed = true
					}
					b.ResetHash()
					stack = stack[:0]
					impl = "ok " + implutil.Dump(b)
					reqs = append(reqs, "fen "+f2)
					e.r.Count("re-setup-by-parsefen+resethash-after:"+last, 1)
					last = "setup"
				}
				if impl == "" {
					return ""
				}
				ops = append(ops, reqs[len(reqs)-1])
				got = append(got, impl)
				e.r.Evaluations++
				if b.Hash() != b.VerifCalculateHash() {
					e.r.Fail(common.Mismatch{Property: "C04", Kind: "failing-input", Ops: append([]string{}, ops...),
						Impl: fmt.Sprintf("incremental %x", uint64(b.Hash())), Spec: fmt.Sprintf("recomputed %x", uint64(b.VerifCalculateHash())),
						Note: "Hash() differs from the hash computed from scratch for the current position"})
					failed = true
				}
				if msg := consistent(b); msg != "" {
					e.r.Fail(common.Mismatch{Property: "C04", Kind: "failing-input", Ops: append([]string{}, ops...), Impl: impl, Note: msg})
					failed = true
				}
				return ""
			}()
			if perr != "" {
				e.r.Fail(common.Mismatch{Property: prop, Kind: "failing-input", Ops: append(append([]string{}, ops...), string(kind)), Impl: "panic: " + perr})
				failed = true
			}
		}
		for k := 0; k < preMoves && !failed; k++ {
			do('m')
		}
		for k := 0; k < total && !failed; k++ {
			x := rng.IntN(100)
			switch {
			case x < 3:
				do('p')
			case x < 15 || (last == "undo-to-the-reset-point" && x < 40) || (last == "resethash" && x < 22):
				do('r')
			case x < 38 && len(stack) > 0:
				do('u')
			case x < 50 && !b.InCheck(b.STM):
				do('n')
			default:
				do('m')
			}
		}
		for len(stack) > 0 && !failed {
			do('u')
		}
		e.r.Count("setupwalk", 1)
		e.r.Count("setupwalk-ops", len(got)-1)
		e.r.Nontrivial(fmt.Sprintf("setup %s %s %v", path, fen, ops[:min(len(ops), 10)]))
		if failed {
			continue
		}
		ans := e.m.Batch(reqs)
		for k := range reqs {
			if ans[k] != got[k] {
				e.r.Fail(common.Mismatch{Property: prop, Kind: "broken-correspondence", Ops: append([]string{"setup " + path}, reqs[:k+1]...), Impl: got[k], Model: ans[k]})
				break
			}
		}
	}
}

// clockWalks: make/undo walks whose HALFMOVE CLOCK passes 100, 127 and the int8 wrap.  Reversible-only
// stretches (quiet moves of pieces, preferably not giving check) of 130-300 plies from clock 0, or
// 40-200 plies from the same roots with the clock field of the FEN set to 90..100 (the largest the
// parser accepts; >= 28 further reversible plies reach the wrap); roots with castling rights (the
// shuffles mostly keep them, now and then a king / rook move gives one up at a late clock) and without;
// en-passant targets at some levels (the root's own target, and in every third walk a double pawn push -
// or another pawn move / capture - made at a clock >= 128, after which a second reversible stretch
// follows); null moves interleaved.  Then FULL unwinding, with the deep snapshot compared with the
// model after every op and every undo compared with the snapshot before its make (runDeep).  The model
// is exact for every int8 clock (theorem undo_make_anyclock); `valid` is asked for the root only.
func (e *env) clockWalks(prop string, n int) {
	rng := e.c.Rng
	for w := 0; w < n; w++ {
		wantRights := w%2 == 0
		late := w%3 == 0 // start from a clock of 90..100
		var fen string
		var b *board.Board
		for {
			if w%3 == 1 && rng.IntN(4) != 0 {
				// a root with a double push beside an enemy pawn: the irreversible move made at a clock
				// >= 128 can then record an en-passant target (the pawns do not move before)
				ec, ok := posgen.EPDirected(rng)
				if !ok {
					continue
				}
				fen = ec.Pos.FEN()
				wantRights = false
			} else if wantRights && rng.IntN(3) == 0 {
				cc, ok := posgen.CastlePath(rng)
				if !ok {
					continue
				}
				fen = cc.Pos.FEN()
			} else {
				fen, _ = e.s.Next()
			}
			fs := strings.Fields(fen)
			if late {
				if len(fs) != 6 || fs[3] != "-" {
					continue
				}
				fs[4] = strconv.Itoa(100 - []int{0, 0, 0, 1, 2, 5, 10}[rng.IntN(7)])
				fen = strings.Join(fs, " ")
			}
			var valid bool
			b, valid, _ = e.load(prop, fen)
			if b == nil || !valid || (b.Castles != 0) != wantRights {
				continue
			}
			minor := (b.Pieces[Knight]|b.Pieces[Bishop]|b.Pieces[Queen]|b.Pieces[Rook])&b.Colors[White] != 0 &&
				(b.Pieces[Knight]|b.Pieces[Bishop]|b.Pieces[Queen]|b.Pieces[Rook])&b.Colors[Black] != 0
			if (minor || rng.IntN(6) == 0) && len(implutil.Legal(b)) > 0 {
				break
			}
		}
		target := 130 + rng.IntN(171)
		if late {
			target = 40 + rng.IntN(161)
		}
		breakAt := -1 // the clock value at which one irreversible move is made (every third walk)
		if w%3 == 1 {
			breakAt = 128 + rng.IntN(40)
		}
		var ops []op
		nulls, maxClock, wrappedMakes, epLevels, rightsAtWrap, lateRightsLoss, broke := 0, 0, 0, 0, 0, 0, false
		genPanic := func() (msg string) {
			defer func() {
				if r := recover(); r != nil {
					msg = fmt.Sprint(r)
				}
			}()
			g, _ := board.FromFEN(fen)
			clock := int(g.FiftyCnt) // the true (unwrapped) clock
			for len(ops) < target {
				if g.EnPassant != 0 {
					epLevels++
				}
				if !g.InCheck(g.STM) && rng.IntN(10) == 0 {
					g.MakeNullMove()
					ops = append(ops, op{req: "nm", kind: 'n'})
					nulls++
					continue
				}
				l := implutil.Legal(g)
				if len(l) == 0 {
					break
				}
				var keep, quiet, irr, dbl []move.Move
				for _, x := range l {
					pc := g.SquaresToPiece[x.From()]
					if pc == Pawn || g.SquaresToPiece[g.CaptureSq(x)] != NoPiece {
						irr = append(irr, x)
						if d := int(x.From()) - int(x.To()); pc == Pawn && (d == 16 || d == -16) {
							dbl = append(dbl, x)
						}
						continue
					}
					quiet = append(quiet, x)
					if g.NewCastles(x) == g.Castles {
						keep = append(keep, x)
					}
				}
				good := false // a double push beside an enemy pawn is available
				for _, x := range dbl {
					good = good || pushNextToEnemyPawn(g, x)
				}
				var m move.Move
				switch {
				case breakAt >= 0 && !broke && clock >= breakAt && len(irr) > 0 && (good || clock >= breakAt+8):
					m = irr[rng.IntN(len(irr))]
					if len(dbl) > 0 && rng.IntN(4) != 0 {
						m = dbl[rng.IntN(len(dbl))]
						for _, x := range dbl { // a push beside an enemy pawn can record a target
							if pushNextToEnemyPawn(g, x) && rng.IntN(4) != 0 {
								m = x
							}
						}
					}
					broke = true

				case len(quiet) == 0:
					m = l[rng.IntN(len(l))]
				default:
					pool := keep
					if len(pool) == 0 || (clock >= 128 && rng.IntN(30) == 0) {
						pool = quiet
					}
					for try := 0; try < 4; try++ {
						m = pool[rng.IntN(len(pool))]
						r := g.MakeMove(m)
						chk := g.InCheck(g.STM)
						g.UndoMove(m, r)
						if !chk {
							break
						}
					}
				}
				if clock >= 128 {
					wrappedMakes++
					if g.Castles != 0 {
						rightsAtWrap++
					}
					if g.NewCastles(m) != g.Castles {
						lateRightsLoss++
					}
				}
				if g.SquaresToPiece[m.From()] == Pawn || g.SquaresToPiece[g.CaptureSq(m)] != NoPiece {
					clock = 0
				} else {
					clock++
				}
				maxClock = max(maxClock, clock)
				g.MakeMove(m)
				ops = append(ops, mkOp(m))
			}
			return ""
		}()
		depth := len(ops)
		if genPanic != "" {
			path := []string{"fen " + fen}
			for _, o := range ops {
				path = append(path, o.req)
			}
			e.r.Fail(common.Mismatch{Property: prop, Kind: "failing-input", Ops: path, Impl: "panic: " + genPanic, Note: "panic while playing the walk forward"})
			continue
		}
		for i := depth - 1; i >= 0; i-- {
			if ops[i].kind == 'n' {
				ops = append(ops, op{req: "unm", kind: 'v'})
			} else {
				ops = append(ops, umOp(ops[i].m))
			}
		}
		e.r.Count("clockwalk", 1)
		e.r.Count("clockwalk-ops", len(ops))
		e.r.Count("clockwalk-nullmoves", nulls)
		e.r.Count("clockwalk-makes-at-clock>=128", wrappedMakes)
		e.r.Count("clockwalk-makes-at-clock>=128-with-castling-rights", rightsAtWrap)
		e.r.Count("clockwalk-rights-given-up-at-clock>=128", lateRightsLoss)
		e.r.Count("clockwalk-levels-with-ep-target", epLevels)
		if late {
			e.r.Count("clockwalk-from-clock-90..100-fen", 1)
		}
		if wantRights {
			e.r.Count("clockwalk-root-with-castling-rights", 1)
		}
		if broke {
			e.r.Count("clockwalk-irreversible-move-at-clock>=128", 1)
		}
		for _, lim := range []int{100, 127, 128, 160, 255} {
			if maxClock > lim {
				e.r.Count(fmt.Sprintf("clockwalk-max-clock>%d", lim), 1)
			}
		}
		if maxClock >= 128 {
			e.r.Nontrivial(fmt.Sprintf("clock %s %d %v", fen, depth, ops[:min(8, depth)]))
		}
		e.runDeep(prop, fen, b, ops)
	}
}

// deepWalks: make/undo walks whose nesting depth crosses the capacities a growing history buffer can
// have (around and beyond 128 and 256 entries): random legal play (captures and pawn moves keep the
// halfmove clock inside the valid range; the walk stops at a clock of 100) with null moves
// interleaved, from fresh FEN loads; the first part of the walk doubles as "history already present
// through earlier made moves" for the rest.  Then FULL unwinding to the root.  After EVERY op the deep
// snapshot (incl. the whole hash history) is compared with the model, every undo is compared with the
// snapshot taken before its make, and Hash() is read; every op runs under recover() so that a panic
// is reported as a failing input with its op path.
func (e *env) deepWalks(prop string, n int) {
	rng := e.c.Rng
	for w := 0; w < n; w++ {
		target := []int{120 + rng.IntN(20), 248 + rng.IntN(20), 100 + rng.IntN(230), 126 + rng.IntN(6), 254 + rng.IntN(6)}[w%5]
		var fen string
		var b *board.Board
		for {
			fen = StartPosFEN
			if rng.IntN(4) != 0 {
				fen, _ = e.s.Next()
			}
			var valid bool
			b, valid, _ = e.load(prop, fen)
			if b != nil && valid && (b.Pieces[Pawn].Count() >= 6 || rng.IntN(4) == 0) {
				break
			}
		}
		// choose the walk on a scratch board that is never unwound
		var ops []op
		nulls := 0
		genPanic := func() (msg string) {
			defer func() {
				if r := recover(); r != nil {
					msg = fmt.Sprint(r)
				}
			}()
			g, _ := board.FromFEN(fen)
			for len(ops) < target {
				if !g.InCheck(g.STM) && rng.IntN(8) == 0 {
					g.MakeNullMove()
					ops = append(ops, op{req: "nm", kind: 'n'})
					nulls++
					continue
				}
				l := implutil.Legal(g)
				if len(l) == 0 || g.FiftyCnt >= 100 {
					break
				}
				var pref []move.Move
				for _, x := range l {
					irreversible := g.SquaresToPiece[x.From()] == Pawn || g.SquaresToPiece[g.CaptureSq(x)] != NoPiece
					if (g.FiftyCnt >= 70) == irreversible && (irreversible || rng.IntN(4) != 0) {
						pref = append(pref, x)
					}
				}
				m := l[rng.IntN(len(l))]
				if len(pref) > 0 && rng.IntN(5) != 0 {
					m = pref[rng.IntN(len(pref))]
				}
				g.MakeMove(m)
				ops = append(ops, mkOp(m))
			}
			return ""
		}()
		depth := len(ops)
		if genPanic != "" {
			path := []string{"fen " + fen}
			for _, o := range ops {
				path = append(path, o.req)
			}
			e.r.Fail(common.Mismatch{Property: prop, Kind: "failing-input", Ops: path, Impl: "panic: " + genPanic, Note: "panic while playing the walk forward"})
			continue
		}
		for i := depth - 1; i >= 0; i-- {
			if ops[i].kind == 'n' {
				ops = append(ops, op{req: "unm", kind: 'v'})
			} else {
				ops = append(ops, umOp(ops[i].m))
			}
		}
		e.r.Count("deepwalk", 1)
		e.r.Count("deepwalk-ops", len(ops))
		e.r.Count("deepwalk-nullmoves", nulls)
		for _, lim := range []int{64, 127, 128, 255, 256} {
			if depth > lim {
				e.r.Count(fmt.Sprintf("deepwalk-depth>%d", lim), 1)
			}
		}
		if depth >= 127 {
			e.r.Nontrivial(fmt.Sprintf("deep %s %d %v", fen, depth, ops[:8]))
		}
		e.runDeep(prop, fen, b, ops)
	}
}

// aliasWalks: make/undo walks WITH INTERFERENCE.  Two or three boards obtained the ways the repository
// obtains boards (board.StartPos(); board.FromFEN called several times with the same FEN; one of each)
// are alive at once.  A random interleaving of makes (legal moves, null moves) and undos runs on all of
// them, so that between a make on one board and its undo the other boards make (and undo, or not)
// moves at plies below, at and above that board's depth; finally every board is unwound to its root.
// Every board must satisfy undo(make) = identity on its FULL snapshot (incl. the whole hash history):
// the snapshot taken before every make is compared after the matching undo; a board that is not
// operated must not change while another one is; and every board's own op sequence, replayed alone
// in the model, must give the dumps the implementation showed after each of its ops.  Every op runs
// under recover().
func (e *env) aliasWalks(prop string, sessions int) {
	rng := e.c.Rng
	type saved struct {
		snap string
		r    board.Reverse
		m    move.Move
		null bool
	}
	for s := 0; s < sessions; s++ {
		way := []string{"startpos", "fromfen-same-fen", "startpos+fromfen"}[s%3]
		nb := 2 + rng.IntN(2)
		fen := StartPosFEN
		if way == "fromfen-same-fen" && rng.IntN(3) != 0 {
			for {
				f, _ := e.s.Next()
				if b, valid, _ := e.load(prop, f); b != nil && valid && len(implutil.Legal(b)) > 0 {
					fen = f
					break
				}
			}
		}
		boards := make([]*board.Board, nb)
		for i := range boards {
			if way == "startpos" || (way == "startpos+fromfen" && i%2 == 0) {
				boards[i] = board.StartPos()
			} else {
				boards[i], _ = board.FromFEN(fen)
			}
		}
		stacks := make([][]saved, nb)
		reqs := make([][]string, nb)  // per board: its own ops for the model
		dumps := make([][]string, nb) // per board: the implementation's dump after each own op
		cur := make([]string, nb)     // per board: its dump after its last own op
		for i, b := range boards {
			cur[i] = implutil.Dump(b)
		}
		var path []string
		path = append(path, fmt.Sprintf("%d boards (%s) of fen %s", nb, way, fen))
		maxDepth, crossings := 0, 0
		failed := false
		fail := func(kind, impl, spec, note string) {
			if !failed {
				e.r.Fail(common.Mismatch{Property: prop, Kind: kind, Ops: append([]string{}, path...), Impl: impl, Spec: spec, Note: note})
			}
			failed = true
		}
		step := func(i int, undo bool) {
			b := boards[i]
			name := string(rune('A' + i))
			perr := func() (msg string) {
				defer func() {
					if r := recover(); r != nil {
						msg = fmt.Sprint(r)
					}
				}()
				if undo {
					sv := stacks[i][len(stacks[i])-1]
					stacks[i] = stacks[i][:len(stacks[i])-1]
					if sv.null {
						b.UndoNullMove(sv.r)
						path = append(path, name+" unm")
						reqs[i] = append(reqs[i], "unm")
					} else {
						b.UndoMove(sv.m, sv.r)
						path = append(path, name+" um "+strconv.Itoa(int(sv.m)))
						reqs[i] = append(reqs[i], "um "+strconv.Itoa(int(sv.m)))
					}
					d := implutil.Dump(b)
					b.Hash()
					dumps[i] = append(dumps[i], d)
					cur[i] = d
					if d != sv.snap {
						fail("failing-input", d, sv.snap, fmt.Sprintf("undo on board %s at nesting depth %d did not restore the snapshot taken before the make (whole hash history compared); other boards were operated in between", name, len(stacks[i])+1))
					}
					return ""
				}
				before := implutil.Dump(b)
				for j := range boards { // does the make happen at a ply at or below another board's depth?
					if j != i && len(stacks[i]) < len(stacks[j]) {
						crossings++
						break
					}
				}
				if !b.InCheck(b.STM) && rng.IntN(8) == 0 {
					r := b.MakeNullMove()
					stacks[i] = append(stacks[i], saved{snap: before, r: r, null: true})
					path = append(path, name+" nm")
					reqs[i] = append(reqs[i], "nm")
					d := implutil.Dump(b) + " | " + implutil.Token(r)
					dumps[i] = append(dumps[i], d)
				} else {
					l := implutil.Legal(b)
					if len(l) == 0 {
						return ""
					}
					m := l[rng.IntN(len(l))]
					r := b.MakeMove(m)
					stacks[i] = append(stacks[i], saved{snap: before, r: r, m: m})
					path = append(path, name+" mkq "+strconv.Itoa(int(m)))
					reqs[i] = append(reqs[i], "mkq "+strconv.Itoa(int(m)))
					dumps[i] = append(dumps[i], implutil.Dump(b)+" | "+implutil.Token(r))
				}
				b.Hash()
				cur[i] = implutil.Dump(b)
				maxDepth = max(maxDepth, len(stacks[i]))
				return ""
			}()
			e.r.Evaluations++
			if perr != "" {
				fail("failing-input", "panic: "+perr, "", "panic on board "+name)
				return
			}
			// the boards that were not operated must not have changed
			for j, x := range boards {
				if j == i {
					continue
				}
				func() {
					defer func() {
						if r := recover(); r != nil {
							fail("failing-input", fmt.Sprint("panic: ", r), "", "panic while reading board "+string(rune('A'+j)))
						}
					}()
					if d := implutil.Dump(x); d != cur[j] {
						fail("failing-input", d, cur[j], fmt.Sprintf("board %s changed (full snapshot incl. hash history) while board %s was operated", string(rune('A'+j)), name))
					}
				}()
			}
		}
		total := 150 + rng.IntN(e.c.Pick(250, 500))
		act := 0
		for k := 0; k < total && !failed; k++ {
			if rng.IntN(3) == 0 {
				act = rng.IntN(nb)
			}
			undo := len(stacks[act]) > 0 && rng.IntN(5) < 2
			step(act, undo)
		}
		for !failed { // full unwinding, single undos on the boards in random order
			var open []int
			for i := range boards {
				if len(stacks[i]) > 0 {
					open = append(open, i)
				}
			}
			if len(open) == 0 {
				break
			}
			step(open[rng.IntN(len(open))], true)
		}
		e.r.Count("aliaswalk-sessions:"+way, 1)
		e.r.Count(fmt.Sprintf("aliaswalk-boards-alive=%d", nb), 1)
		e.r.Count("aliaswalk-ops", len(path)-1)
		e.r.Count("aliaswalk-makes-at-or-below-another-boards-depth", crossings)
		if maxDepth > 127 {
			e.r.Count("aliaswalk-depth>127", 1)
		}
		e.r.Nontrivial(fmt.Sprintf("alias %s %d %v", fen, nb, path[1:min(len(path), 10)]))
		if failed {
			continue
		}
		// every board's own op sequence replayed alone in the model
		for i := range boards {
			ans := e.m.Batch(append([]string{"fen " + fen}, reqs[i]...))[1:]
			for k := range reqs[i] {
				if ans[k] != dumps[i][k] {
					own := []string{"fen " + fen}
					own = append(own, reqs[i][:k+1]...)
					e.r.Fail(common.Mismatch{Property: prop, Kind: "broken-correspondence", Ops: own, Impl: dumps[i][k], Model: ans[k],
						Note: fmt.Sprintf("board %s of %d (%s), operated in alternation with the others", string(rune('A'+i)), nb, way)})
					break
				}
			}
		}
	}
}

// runDeep is run with recover() around every op, Hash() read after every op, and at most one
// report per kind and walk.
func (e *env) runDeep(prop, fen string, b *board.Board, ops []op) {
	reqs := make([]string, len(ops))
	for i, o := range ops {
		reqs[i] = o.req
	}
	ans := e.m.Batch(append([]string{"fen " + fen}, reqs...))[1:]
	type saved struct {
		snap string
		r    board.Reverse
	}
	var stack []saved
	desync, undoReported := false, false
	path := []string{"fen " + fen}
	for i, o := range ops {
		path = append(path, o.req)
		var impl string
		restored := true
		perr := func() (msg string) {
			defer func() {
				if r := recover(); r != nil {
					msg = fmt.Sprint(r)
				}
			}()
			switch o.kind {
			case 'm':
				before := implutil.Dump(b)
				r := b.MakeMove(o.m)
				stack = append(stack, saved{before, r})
				impl = implutil.Dump(b) + " | " + implutil.Token(r)
			case 'n':
				before := implutil.Dump(b)
				r := b.MakeNullMove()
				stack = append(stack, saved{before, r})
				impl = implutil.Dump(b) + " | " + implutil.Token(r)
			case 'u', 'v':
				sv := stack[len(stack)-1]
				stack = stack[:len(stack)-1]
				if o.kind == 'u' {
					b.UndoMove(o.m, sv.r)
				} else {
					b.UndoNullMove(sv.r)
				}
				impl = implutil.Dump(b)
				restored = impl == sv.snap
				if !restored && !undoReported {
					undoReported = true
					e.r.Fail(common.Mismatch{Property: prop, Kind: "failing-input", Ops: append([]string{}, path...),
						Impl: impl, Spec: sv.snap, Model: ans[i], Note: fmt.Sprintf("undo at nesting depth %d did not restore the snapshot taken before the make (whole hash history compared)", len(stack)+1)})
				}
			}
			if b.Hash() != b.VerifCalculateHash() && prop == "C04" {
				e.r.Fail(common.Mismatch{Property: "C04", Kind: "failing-input", Ops: append([]string{}, path...), Impl: impl, Note: "Hash() differs from the recomputed hash"})
			}
			return ""
		}()
		e.r.Evaluations++
		if perr != "" {
			e.r.Fail(common.Mismatch{Property: prop, Kind: "failing-input", Ops: append([]string{}, path...), Impl: "panic: " + perr, Model: ans[i],
				Note: fmt.Sprintf("panic at nesting depth %d while the walk was made / taken back", len(stack))})
			return
		}
		if !desync && impl != ans[i] {
			e.r.Fail(common.Mismatch{Property: prop, Kind: "broken-correspondence", Ops: append([]string{}, path...), Impl: impl, Model: ans[i]})
			desync = true
		}
	}
}

type op struct {
	req string
	m   move.Move
	kind byte // 'm' make, 'u' undo, 'n' null, 'v' undo null
}

func consistent(b *board.Board) string {
	s := b.VerifSnapshot()
	var all BitBoard
	for p := Pawn; p <= King; p++ {
		var bb BitBoard
		for sq := 0; sq < 64; sq++ {
			if s.SquaresToPiece[sq] == p {
				bb |= 1 << sq
			}
		}
		if bb != s.Pieces[p] {
			return fmt.Sprintf("Pieces[%d] disagrees with SquaresToPiece", p)
		}
		all |= bb
	}
	if all != s.Colors[0]|s.Colors[1] {
		return "Colors disagree with Pieces"
	}
	if s.Colors[0]&s.Colors[1] != 0 {
		return "Colors overlap"
	}
	if s.Pieces[NoPiece] != 0 {
		return "Pieces[NoPiece] non-empty"
	}
	return ""
}

// run executes ops on implementation and model and compares the dumps after each.
func (e *env) run(prop, fen string, b *board.Board, ops []op) {
	reqs := make([]string, len(ops))
	for i, o := range ops {
		reqs[i] = o.req
	}
	ans := e.m.Batch(append([]string{"fen " + fen}, reqs...))[1:]
	type saved struct {
		snap string
		r    board.Reverse
	}
	var stack []saved
	desync := false
	path := []string{"fen " + fen}
	for i, o := range ops {
		path = append(path, o.req)
		var impl string
		switch o.kind {
		case 'm':
			before := implutil.Dump(b)
			captured := b.SquaresToPiece[b.CaptureSq(o.m)]
			piece := b.SquaresToPiece[o.m.From()]
			cb := b.Castles
			r := b.MakeMove(o.m)
			stack = append(stack, saved{before, r})
			impl = implutil.Dump(b) + " | " + implutil.Token(r)
			d := int(o.m.From()) - int(o.m.To())
			if captured != NoPiece || o.m.Promo() != NoPiece || (piece == King && (d == 2 || d == -2)) ||
				(piece == Pawn && (d == 16 || d == -16)) || cb != b.Castles {
				e.r.Nontrivial(strings.Join(path, ";"))
			}
		case 'n':
			before := implutil.Dump(b)
			if b.EnPassant != 0 {
				e.r.Nontrivial(strings.Join(path, ";"))
			}
			r := b.MakeNullMove()
			stack = append(stack, saved{before, r})
			impl = implutil.Dump(b) + " | " + implutil.Token(r)
		case 'u', 'v':
			sv := stack[len(stack)-1]
			stack = stack[:len(stack)-1]
			if o.kind == 'u' {
				b.UndoMove(o.m, sv.r)
			} else {
				b.UndoNullMove(sv.r)
			}
			impl = implutil.Dump(b)
			if prop == "C03" && impl != sv.snap {
				e.r.Fail(common.Mismatch{Property: "C03", Kind: "failing-input", Ops: append([]string{}, path...),
					Impl: impl, Spec: sv.snap, Model: ans[i], Note: "undo did not restore the snapshot taken before the make"})
			}
		}
		e.r.Evaluations++
		if o.kind == 'm' || o.kind == 'n' {
			if prop == "C04" {
				if b.Hash() != b.VerifCalculateHash() {
					e.r.Fail(common.Mismatch{Property: "C04", Kind: "failing-input", Ops: append([]string{}, path...),
						Impl: fmt.Sprintf("incremental %x", uint64(b.Hash())), Spec: fmt.Sprintf("recomputed %x", uint64(b.VerifCalculateHash())), Model: ans[i]})
				}
				if msg := consistent(b); msg != "" {
					e.r.Fail(common.Mismatch{Property: "C04", Kind: "failing-input", Ops: append([]string{}, path...), Impl: impl, Note: msg})
				}
			}
		}
		if !desync && impl != ans[i] {
			e.r.Fail(common.Mismatch{Property: prop, Kind: "broken-correspondence", Ops: append([]string{}, path...), Impl: impl, Model: ans[i]})
			// model and implementation cannot be resynchronised: keep executing the implementation so
			// that its own property-level assertions (undo restores, hash == recomputation) still run
			desync = true
		}
	}
}

func mkOp(m move.Move) op { return op{req: "mkq " + strconv.Itoa(int(m)), m: m, kind: 'm'} }
func umOp(m move.Move) op { return op{req: "um " + strconv.Itoa(int(m)), m: m, kind: 'u'} }

// tree: exhaustive shallow tree. Moves leaving the king in check are made and undone at once.
func (e *env) tree(prop, fen string, b *board.Board, depth int) {
	var ops []op
	var rec func(d int)
	rec = func(d int) {
		noisy, quiet := implutil.Gen(b)
		for _, m := range append(noisy, quiet...) {
			r := b.MakeMove(m)
			ops = append(ops, mkOp(m))
			if d > 1 && !b.InCheck(b.STM.Flip()) && len(ops) < 6000 {
				rec(d - 1)
			}
			b.UndoMove(m, r)
			ops = append(ops, umOp(m))
		}
	}
	rec(depth)
	e.run(prop, fen, b, ops)
}

func (e *env) randomWalk(prop, fen string, b *board.Board) {
	rng := e.c.Rng
	var ops []op
	type fr struct {
		m    move.Move
		r    board.Reverse
		null bool
	}
	var stack []fr
	n := 5 + rng.IntN(56)
	for i := 0; i < n; i++ {
		if !b.InCheck(b.STM) && rng.IntN(6) == 0 {
			r := b.MakeNullMove()
			stack = append(stack, fr{0, r, true})
			ops = append(ops, op{req: "nm", kind: 'n'})
			continue
		}
		l := implutil.Legal(b)
		if len(l) == 0 || b.FiftyCnt >= 100 {
			break
		}
		m := l[rng.IntN(len(l))]
		r := b.MakeMove(m)
		stack = append(stack, fr{m, r, false})
		ops = append(ops, mkOp(m))
	}
	for i := len(stack) - 1; i >= 0; i-- {
		f := stack[i]
		if f.null {
			b.UndoNullMove(f.r)
			ops = append(ops, op{req: "unm", kind: 'v'})
		} else {
			b.UndoMove(f.m, f.r)
			ops = append(ops, umOp(f.m))
		}
	}
	e.run(prop, fen, b, ops)
}

// transpositions: permute two commuting moves of the same side (with the same reply in between) and
// require equal hashes when the resulting positions are equal in placement, turn, rights, ep.
func (e *env) transpositions() {
	pairs := e.c.Pick(400, 40000)
	rng := e.c.Rng
	found := 0
	for try := 0; try < pairs*20 && found < pairs; try++ {
		fen, _ := e.s.Next()
		b, valid, _ := e.load("C04", fen)
		if b == nil || !valid {
			continue
		}
		play := func(b *board.Board, seq []move.Move) bool {
			for _, m := range seq {
				ok := false
				for _, l := range implutil.Legal(b) {
					if l == m {
						ok = true
					}
				}
				if !ok {
					return false
				}
				b.MakeMove(m)
			}
			return true
		}
		l := implutil.Legal(b)
		if len(l) < 2 {
			continue
		}
		a, c := l[rng.IntN(len(l))], l[rng.IntN(len(l))]
		if a == c {
			continue
		}
		b1, _ := board.FromFEN(fen)
		b1.MakeMove(a)
		rs := implutil.Legal(b1)
		if len(rs) == 0 {
			continue
		}
		reply := rs[rng.IntN(len(rs))]
		// a reply c reply'  vs  c reply a reply'  — use the same reply twice when possible
		s1 := []move.Move{a, reply, c}
		s2 := []move.Move{c, reply, a}
		x, _ := board.FromFEN(fen)
		y, _ := board.FromFEN(fen)
		if !play(x, s1) || !play(y, s2) {
			continue
		}
		px, py := strings.Fields(implutil.PosStr(x)), strings.Fields(implutil.PosStr(y))
		if px[0] != py[0] || px[1] != py[1] || px[2] != py[2] || px[3] != py[3] {
			continue
		}
		found++
		e.r.Evaluations++
		e.r.Count("transposition-pairs", 1)
		e.r.Nontrivial("T " + fen + " " + a.String() + reply.String() + c.String())
		if x.Hash() != y.Hash() {
			e.r.Fail(common.Mismatch{Property: "C04", Kind: "failing-input",
				Ops:  []string{"fen " + fen, "moves " + a.String() + " " + reply.String() + " " + c.String(), "moves " + c.String() + " " + reply.String() + " " + a.String()},
				Impl: fmt.Sprintf("%x vs %x", uint64(x.Hash()), uint64(y.Hash())), Note: "same position reached by two move orders has different hashes"})
		}
	}
}

// ---------------------------------------------------------------------------------------------
// C05: IsPseudoLegal over all 32768 encodings vs generator membership.

func (e *env) c05() {
	n := e.c.Pick(1500, 40000)
	e.r.Rule = "valid positions x ALL 32768 move encodings: acceptance bitmap of IsPseudoLegal vs membership in GenNoisy+GenNotNoisy output (property, checked in Go) vs bitmap of the Lean isPseudoLegal model; evaluations counts encodings; non-trivial = accepted encoding (a genuine move), distinct by (FEN, encoding) — plus positions counted in the histogram (castlepath-pattern <right>:<one char per path square: . vacant, o own, x enemy man not attacking the king's squares, X enemy man attacking them>)"
	for i := 0; i < n; i++ {
		fen, src := e.next()
		b, valid, _ := e.load("C05", fen)
		if b == nil || !valid {
			e.r.Count("skipped-invalid:"+src, 1)
			continue
		}
		e.r.Count(src, 1)
		e.r.Count(e.feature(fen).Key(), 1)
		noisy, quiet := implutil.Gen(b)
		gen := map[move.Move]bool{}
		for _, m := range append(noisy, quiet...) {
			gen[m] = true
			if d := int(m.From()) - int(m.To()); strings.HasPrefix(src, "castlepath") && b.SquaresToPiece[m.From()] == King && (d == 2 || d == -2) {
				e.r.Count("castlepath-castling-move-generated", 1)
			}
		}
		var sb strings.Builder
		for k := 0; k < 8192; k++ {
			v := 0
			for j := 0; j < 4; j++ {
				m := move.Move(4*k + j)
				acc := b.IsPseudoLegal(m)
				if acc {
					v |= 1 << j
				}
				if acc != gen[m] {
					e.r.Fail(common.Mismatch{Property: "C05", Kind: "failing-input", Ops: []string{"fen " + fen, "ipl1 " + strconv.Itoa(int(m))},
						Impl: fmt.Sprintf("IsPseudoLegal=%v generated=%v", acc, gen[m]),
						Note: fmt.Sprintf("encoding from=%s to=%s promo=%d", m.From(), m.To(), m.Promo())})
				}
				if acc {
					e.r.Nontrivial(fen + " " + strconv.Itoa(int(m)))
				}
			}
			sb.WriteByte("0123456789abcdef"[v])
		}
		e.r.Evaluations += 32768
		model := e.m.Ask("ipl")
		if model != sb.String() {
			// locate the first differing encoding
			note := ""
			impl := sb.String()
			for k := 0; k < len(impl) && k < len(model); k++ {
				if impl[k] != model[k] {
					note = fmt.Sprintf("first difference in encodings %d..%d", 4*k, 4*k+3)
					break
				}
			}
			e.r.Fail(common.Mismatch{Property: "C05", Kind: "broken-correspondence", Ops: []string{"fen " + fen, "ipl"}, Note: note})
		}
		if i == 0 {
			e.r.Sample(map[string]any{"fen": fen, "accepted": len(gen)}, 3)
		}
	}
}

// ---------------------------------------------------------------------------------------------
// C09: direct mate / stalemate tests.

func (e *env) c09() {
	e.r.Rule = "(a) exhaustive enumeration of all placements of small material classes (both sides to move, structurally valid): IsCheckmate/IsStalemate vs legal-move count, in Go; (a') the king-net generator and the near-stalemate-net generator (immobile king of either colour, only candidate movers 0-3 pawns [blocked/free push, capture targets, man on a rook pawn's wrap-around square, file/diagonal/rank pin, en passant] or one knight/bishop/rook/queen [pinned/smothered], plus single-square toggles of each net), same check in Go; (b) valid, ep-normalised positions from the dense/clustered generators and the kept king-net / stalemate-net positions: implementation vs Lean model of IsCheckmate/IsStalemate vs rule-book spec (inCheck, no legal move); non-trivial = position that is in check, or has no legal move, or has a pin candidate or an ep target; distinct by FEN"
	// (a) exhaustive small material, property-level only (fast)
	classes := [][]int8{{posgen.Q}, {posgen.R}, {posgen.P}, {posgen.B}, {posgen.N}, {posgen.Q + 8}}
	if e.c.Thorough() {
		classes = append(classes, []int8{posgen.Q, posgen.R + 8}, []int8{posgen.R, posgen.B + 8}, []int8{posgen.P, posgen.P + 8},
			[]int8{posgen.Q, posgen.P + 8}, []int8{posgen.R, posgen.N + 8}, []int8{posgen.B, posgen.N}, []int8{posgen.R, posgen.P + 8}, []int8{posgen.N, posgen.P + 8})
	}
	for _, cl := range classes {
		e.exhaustive(cl)
	}
	// (a') the directed king-net generator, property-level in Go on every sample; the samples that are
	// in check or have at most three legal moves are kept for the three-way comparison in (b)
	var kept []string
	cand := e.c.Pick(400000, 20000000)
	keepMax := e.c.Pick(6000, 300000)
	for i := 0; i < cand; i++ {
		p, ok := posgen.KingNet(e.c.Rng)
		if !ok {
			continue
		}
		fen := p.FEN()
		b, err := board.FromFEN(fen)
		if err != nil {
			continue
		}
		if p.EP != 0 && !p.EPSound() {
			continue
		}
		// en-passant state must be engine-normalised: drop the target if no capture is legal
		legalMoves := implutil.Legal(b)
		if b.EnPassant != 0 {
			epOK := false
			for _, m := range legalMoves {
				if m.To() == b.EnPassant && b.SquaresToPiece[m.From()] == Pawn {
					epOK = true
				}
			}
			if !epOK {
				continue
			}
		}
		legal := len(legalMoves)
		e.r.Evaluations++
		e.r.Count("kingnet", 1)
		if b.InCheck(b.STM) {
			e.r.Count("kingnet-in-check", 1)
			if legal == 0 {
				e.r.Count("kingnet-mate", 1)
			}
			if b.IsCheckmate() != (legal == 0) {
				e.r.Fail(common.Mismatch{Property: "C09", Kind: "failing-input", Ops: []string{"fen " + fen, "state"},
					Impl: fmt.Sprintf("IsCheckmate=%v legal=%d", b.IsCheckmate(), legal)})
			}
		} else {
			if legal == 0 {
				e.r.Count("kingnet-stalemate", 1)
			}
			if b.IsStalemate() != (legal == 0) {
				e.r.Fail(common.Mismatch{Property: "C09", Kind: "failing-input", Ops: []string{"fen " + fen, "state"},
					Impl: fmt.Sprintf("IsStalemate=%v legal=%d", b.IsStalemate(), legal)})
			}
		}
		if (b.InCheck(b.STM) || legal <= 3) && len(kept) < keepMax {
			kept = append(kept, fen)
			e.r.Nontrivial(fen)
		}
	}
	// (a'') the near-stalemate nets (immobile king, the only candidate movers are 0-3 pawns or one
	// piece, both colours), property-level in Go on every sample; stalemates and positions where a
	// single man owns all the legal moves are kept for the three-way comparison in (b)
	nKingnet := len(kept)
	kept = append(kept, e.c09StaleNets(e.c.Pick(100000, 1500000), e.c.Pick(4000, 60000))...)
	// (b) three-way on generated positions
	n := e.c.Pick(2500, 150000) + len(kept)
	for i := 0; i < n; i++ {
		var fen, src string
		if i < nKingnet {
			fen, src = kept[i], "kingnet-kept"
		} else if i < len(kept) {
			fen, src = kept[i], "stalenet-kept"
		} else {
			fen, src = e.s.Next()
		}
		b, valid, epn := e.load("C09", fen)
		if b == nil || !valid || !epn {
			continue
		}
		if !e.epSound {
			// outside the domain: the double push that would have created this target was impossible
			e.r.Count("skipped-ep-unsound", 1)
			continue
		}
		e.r.Evaluations++
		e.r.Count(src, 1)
		st := e.feature(fen)
		legal := len(implutil.Legal(b))
		inCheck := b.InCheck(b.STM)
		cm, sm := false, false
		if inCheck {
			cm = b.IsCheckmate()
		} else {
			sm = b.IsStalemate()
		}
		if inCheck || legal == 0 || st.AlignedMen > 0 || st.HasEP {
			e.r.Nontrivial(fen)
		}
		if inCheck {
			e.r.Count("in-check", 1)
		}
		if legal == 0 {
			e.r.Count("no-legal-move", 1)
		}
		ans := e.m.Ask("state") // model: inCheck, isCheckmate, isStalemate ; spec: inCheck, checkmate, stalemate
		bs := func(x bool) byte {
			if x {
				return '1'
			}
			return '0'
		}
		// the model evaluates both tests unconditionally; compare only the one whose precondition holds
		if len(ans) != 6 {
			e.r.Fail(common.Mismatch{Property: "C09", Kind: "broken-correspondence", Ops: []string{"fen " + fen, "state"}, Model: ans})
			continue
		}
		specCM, specSM := ans[4] == '1', ans[5] == '1'
		ops := []string{"fen " + fen, "state"}
		impl := fmt.Sprintf("inCheck=%v mate=%v stale=%v legal=%d", inCheck, cm, sm, legal)
		if inCheck != (ans[3] == '1') || (inCheck && cm != specCM) || (!inCheck && sm != specSM) {
			e.r.Fail(common.Mismatch{Property: "C09", Kind: "failing-input", Ops: ops, Impl: impl, Model: ans[:3], Spec: ans[3:]})
		} else if ans[0] != bs(inCheck) || (inCheck && ans[1] != bs(cm)) || (!inCheck && ans[2] != bs(sm)) {
			e.r.Fail(common.Mismatch{Property: "C09", Kind: "broken-correspondence", Ops: ops, Impl: impl, Model: ans[:3], Spec: ans[3:]})
		}
		if i == 0 {
			e.r.Sample(map[string]any{"fen": fen, "impl": impl, "model+spec": ans}, 3)
		}
	}
}

// c09StaleNets runs the near-stalemate-net generator (posgen.StaleNet) and the hand-written corpus of
// the class: IsStalemate (IsCheckmate when in check) against the legal-move count, in Go.  An
// en-passant target that is not sound or not capturable is dropped (the position stays in the class
// "en-passant not available").  The histogram counts the samples per mover class, per colour, the real
// stalemates / one-move positions, and for the positions whose legal moves all belong to one man the
// kind of that man ("this piece kind decides"), pawns split by push / capture / en-passant.
func (e *env) c09StaleNets(families, keepMax int) (kept []string) {
	kindName := map[Piece]string{Pawn: "pawn", Knight: "knight", Bishop: "bishop", Rook: "rook", Queen: "queen", King: "king"}
	aligned := func(a, k int) bool {
		df, dr := a%8-k%8, a/8-k/8
		return df == 0 || dr == 0 || df == dr || df == -dr
	}
	// eval returns 1 for a stalemate, 0 for a position with a legal move, -1 if not evaluated
	eval := func(p posgen.Pos, class, variant string) int {
		fen := p.FEN()
		b, err := board.FromFEN(fen)
		if err != nil {
			return -1
		}
		legalMoves := implutil.Legal(b)
		if p.EP != 0 {
			epOK := p.EPSound()
			if epOK {
				epOK = false
				for _, m := range legalMoves {
					if m.To() == b.EnPassant && b.SquaresToPiece[m.From()] == Pawn {
						epOK = true
					}
				}
			}
			if !epOK {
				e.r.Count("stalenet-ep-dropped", 1)
				p.EP = 0
				fen = p.FEN()
				if b, err = board.FromFEN(fen); err != nil {
					return -1
				}
				legalMoves = implutil.Legal(b)
			} else {
				e.r.Count("stalenet-ep-target", 1)
			}
		}
		legal := len(legalMoves)
		e.r.Evaluations++
		e.r.Count("stalenet", 1)
		e.r.Count("stalenet-class-"+class, 1)
		e.r.Count("stalenet-variant-"+variant, 1)
		if p.Black {
			e.r.Count("stalenet-black-to-move", 1)
		}
		if b.InCheck(b.STM) { // the generator rejects these; kept for completeness
			e.r.Count("stalenet-in-check", 1)
			if b.IsCheckmate() != (legal == 0) {
				e.r.Fail(common.Mismatch{Property: "C09", Kind: "failing-input", Ops: []string{"fen " + fen, "state"},
					Impl: fmt.Sprintf("IsCheckmate=%v legal=%d", b.IsCheckmate(), legal), Note: "stalenet " + class + " " + variant})
			}
			return -1
		}
		k := p.KingSq(p.Black)
		up := 1
		if p.Black {
			up = -1
		}
		own := func(s int, kd int8) bool {
			m := p.Men[s]
			return m != 0 && (m > 8) == p.Black && m&7 == kd
		}
		enemy := func(s int) bool { return p.Men[s] != 0 && (p.Men[s] > 8) != p.Black }
		// one man owns every legal move?
		oneMover, kingMoves := legal > 0, 0
		for _, m := range legalMoves {
			if m.From() != legalMoves[0].From() {
				oneMover = false
			}
			if b.SquaresToPiece[m.From()] == King {
				kingMoves++
			}
		}
		if kingMoves == 0 {
			e.r.Count("stalenet-king-immobile", 1)
		}
		keep := false
		switch {
		case legal == 0:
			keep = true
			e.r.Count("stalenet-stalemate", 1)
			e.r.Count("stalenet-stalemate-"+class, 1)
			// a rook pawn of the side to move with an enemy man on a wrap-around square of its captures
			for s := 0; s < 64; s++ {
				if !own(s, posgen.P) || (s%8 != 0 && s%8 != 7) {
					continue
				}
				for _, off := range []int{0, 2} {
					if r := s/8 + up*off; r >= 0 && r < 8 && enemy(r*8+7-s%8) {
						e.r.Count("stalenet-stalemate-rookpawn-wrapman", 1)
						if !aligned(s, k) {
							e.r.Count("stalenet-stalemate-rookpawn-wrapman-unaligned", 1)
						}
					}
				}
			}
		case oneMover:
			keep = true
			if legal == 1 {
				e.r.Count("stalenet-one-move", 1)
			}
			from := int(legalMoves[0].From())
			kd := b.SquaresToPiece[from]
			name := kindName[kd]
			if kd == Pawn {
				sub := map[string]bool{}
				for _, m := range legalMoves {
					switch {
					case m.To() == b.EnPassant && b.EnPassant != 0:
						sub["ep"] = true
					case b.SquaresToPiece[m.To()] != NoPiece:
						sub["capture"] = true
					default:
						sub["push"] = true
					}
				}
				for _, x := range []string{"push", "capture", "ep"} {
					if sub[x] {
						name += "-" + x
					}
				}
				if from%8 == 0 || from%8 == 7 {
					e.r.Count("stalenet-decider-rookpawn", 1)
					if sub["capture"] && !sub["push"] && !sub["ep"] {
						e.r.Count("stalenet-decider-rookpawn-capture-only", 1)
						if !aligned(from, k) {
							e.r.Count("stalenet-decider-rookpawn-capture-only-unaligned", 1)
						}
					}
				}
			}
			e.r.Count("stalenet-decider-"+name, 1)
			if aligned(from, k) && kd != King {
				e.r.Count("stalenet-decider-aligned-with-king", 1)
			}
		}
		sm := b.IsStalemate()
		if sm != (legal == 0) {
			e.r.Count("stalenet-mismatch", 1)
			e.r.Fail(common.Mismatch{Property: "C09", Kind: "failing-input", Ops: []string{"fen " + fen, "state"},
				Impl: fmt.Sprintf("IsStalemate=%v legal=%d", sm, legal), Note: "stalenet " + class + " " + variant})
		}
		if keep && len(kept) < keepMax {
			kept = append(kept, fen)
			e.r.Nontrivial(fen)
		}
		if legal == 0 {
			return 1
		}
		return 0
	}
	for _, fen := range posgen.StaleCorpusFENs() {
		if p, ok := posgen.Parse(fen); ok {
			eval(p, "corpus", "base")
		}
	}
	for i := 0; i < families; i++ {
		fam := posgen.StaleNet(e.c.Rng)
		if len(fam) == 0 {
			e.r.Count("stalenet-draw-failed", 1)
			continue
		}
		base := -1
		for j, sc := range fam {
			v := eval(sc.Pos, sc.Class, sc.Variant)
			if j == 0 {
				base = v
			} else if v >= 0 && base >= 0 && v != base {
				e.r.Count("stalenet-family-flip", 1) // the toggle turned a stalemate into a non-stalemate or back
			}
		}
	}
	return kept
}

func (e *env) exhaustive(extra []int8) {
	var p posgen.Pos
	p.Full = 1
	men := append([]int8{posgen.K, posgen.K + 8}, extra...)
	var sq [6]int
	var rec func(i int)
	cnt := 0
	rec = func(i int) {
		if i == len(men) {
			wk, bk := sq[0], sq[1]
			df, dr := wk%8-bk%8, wk/8-bk/8
			if df*df <= 1 && dr*dr <= 1 {
				return
			}
			for _, black := range []bool{false, true} {
				p.Black = black
				if p.InCheck(!black) {
					continue
				}
				fen := p.FEN()
				b, err := board.FromFEN(fen)
				if err != nil {
					continue
				}
				cnt++
				legal := len(implutil.Legal(b))
				if b.InCheck(b.STM) {
					if b.IsCheckmate() != (legal == 0) {
						e.r.Fail(common.Mismatch{Property: "C09", Kind: "failing-input", Ops: []string{"fen " + fen, "state"},
							Impl: fmt.Sprintf("IsCheckmate=%v legal=%d", b.IsCheckmate(), legal)})
					}
					e.r.Nontrivial(fen)
				} else {
					if b.IsStalemate() != (legal == 0) {
						e.r.Fail(common.Mismatch{Property: "C09", Kind: "failing-input", Ops: []string{"fen " + fen, "state"},
							Impl: fmt.Sprintf("IsStalemate=%v legal=%d", b.IsStalemate(), legal)})
					}
					if legal == 0 {
						e.r.Nontrivial(fen)
					}
				}
			}
			return
		}
		for s := 0; s < 64; s++ {
			if p.Men[s] != 0 {
				continue
			}
			if men[i]&7 == posgen.P && (s/8 == 0 || s/8 == 7) {
				continue
			}
			p.Men[s] = men[i]
			sq[i] = s
			rec(i + 1)
			p.Men[s] = 0
		}
	}
	rec(0)
	e.r.Evaluations += cnt
	e.r.Count(fmt.Sprintf("exhaustive-class-%v", extra), cnt)
}

// ---------------------------------------------------------------------------------------------
// C10: repetition count along histories.

func (e *env) c10() {
	games := e.c.Pick(150, 6000)
	e.r.Rule = "game histories from valid starts (random play with a shuffling bias towards reversible moves, so positions recur, castling rights get lost and en-passant rights are transient), via MakeMove and via the UCI position command; after every ply Threefold() vs the Lean model vs the art. 9.2.2 count of the rule-book spec over the whole history (capped at 3); non-trivial = ply whose count is >= 2; distinct by (start FEN, move prefix). Added: directed en-passant situations (EPDirected / EPGeometry: discovered check through the origin square, capturer pinned on diagonal / file / rank, two capturers, checking pusher; both colours) followed by reversible round trips of 4 / 6 / 8 plies (ephist-*), incl. wrap geometry (EPWrap: pushes on every file, a/h emphasised, enemy pawns on the linear-index neighbours of the destination across the board edge, with and without a real capturer; epwrap <file>:<wrap square>:<capturer>[:recurs]), and 2-3 boards from StartPos() / FromFEN(same FEN) alive at once and advanced alternately, each compared with its own history (alias-*)"
	rng := e.c.Rng
	e.c10Scan()
	// regression corpus: histories that failed before (run first, every time)
	corpus := []struct {
		fen   string
		moves []move.Move
	}{
		// D7: the start FEN records an en-passant target (a6) that no pawn can capture; the knight
		// shuffle returns to the start placement, which the rules count as the second occurrence
		{"r3k2r/2pb1ppp/2pp1q2/p7/1nP1B3/1P2P3/P2N1PPP/R2QK2R w KQkq a6 0 14", []move.Move{1829, 1635, 2396, 2265}},
	}
	for g := -len(corpus); g < games; g++ {
		var fen string
		var b *board.Board
		startEPNormal := true
		var fixed []move.Move
		if g < 0 {
			fen, fixed = corpus[g+len(corpus)].fen, corpus[g+len(corpus)].moves
			b, _, startEPNormal = e.load("C10", fen)
			if b == nil {
				continue
			}
		}
		for g >= 0 {
			var valid bool
			fen, _ = e.s.Next()
			b, valid, startEPNormal = e.load("C10", fen)
			if b != nil && valid {
				break
			}
		}
		n := 20 + rng.IntN(e.c.Pick(120, 400))
		// mode 1: plain shuffling game (stops at a clock of 100 like a game under the 50-move rule)
		// mode 2: long reversible shuffle that runs PAST a halfmove clock of 100 and past 128 plies
		//         (the count does not depend on the clock; the int8 clock wraps meanwhile)
		// mode 3: castling-rights shuffles: kings and rooks leave home and return, so rights are lost
		//         while the placement recurs
		mode := 1 + rng.IntN(3)
		if mode == 2 {
			n = 135 + rng.IntN(70)
		}
		if fixed != nil {
			mode, n = 0, len(fixed)
		}
		if mode == 3 && b.Castles == 0 {
			for try := 0; try < 50 && (b == nil || b.Castles == 0); try++ {
				f := []string{"r3k2r/8/8/8/8/8/8/R3K2R w KQkq - 0 1", "r3k2r/pppppppp/8/8/8/8/PPPPPPPP/R3K2R b KQkq - 0 1",
					"r3k2r/p6p/8/8/8/8/P6P/R3K2R w KQkq - 3 9", "rn2k2r/8/8/8/8/8/8/R3K1NR b KQkq - 0 1", "r3k3/8/8/8/8/8/8/4K2R w Kq - 0 1"}[rng.IntN(5)]
				if nb, v, _ := e.load("C10", f); nb != nil && v {
					b, fen = nb, f
				}
			}
		}
		var reqs []string
		var impl []int
		var ms []move.Move
		var last [2]move.Move
		for i := 0; i < n; i++ {
			l := implutil.Legal(b)
			if len(l) == 0 || (mode != 2 && b.FiftyCnt >= 100) {
				break
			}
			// shuffling bias: prefer undoing one's previous move, then quiet non-pawn moves
			var m move.Move
			back := move.From(last[i%2].To()) | move.To(last[i%2].From())
			pick := rng.IntN(10)
			found := false
			if mode == 2 {
				pick = rng.IntN(8) // never a random (possibly irreversible) move unless forced
			}
			if mode == 3 && pick >= 5 {
				// prefer king and rook moves of the side that still has rights
				var kr []move.Move
				for _, x := range l {
					pc := b.SquaresToPiece[x.From()]
					if (pc == King || pc == Rook) && b.SquaresToPiece[x.To()] == NoPiece && Abs(int(x.From())-int(x.To())) != 2 {
						kr = append(kr, x)
					}
				}
				if len(kr) > 0 {
					m, found = kr[rng.IntN(len(kr))], true
				}
			}
			if !found && pick < 5 && last[i%2] != 0 {
				for _, x := range l {
					if x == back && b.SquaresToPiece[x.To()] == NoPiece {
						m, found = x, true
					}
				}
			}
			if !found && pick < 8 {
				var quiet []move.Move
				for _, x := range l {
					if b.SquaresToPiece[x.To()] == NoPiece && b.SquaresToPiece[x.From()] != Pawn {
						quiet = append(quiet, x)
					}
				}
				if len(quiet) > 0 {
					m, found = quiet[rng.IntN(len(quiet))], true
				}
			}
			if !found {
				m = l[rng.IntN(len(l))]
			}
			if fixed != nil {
				m = fixed[i]
			}
			last[i%2] = m
			beside := pushNextToEnemyPawn(b, m)
			b.MakeMove(m)
			if beside {
				if b.EnPassant != 0 {
					e.r.Count("double-push-beside-enemy-pawn:target-recorded", 1)
				} else {
					e.r.Count("double-push-beside-enemy-pawn:target-not-recorded", 1)
				}
			}
			ms = append(ms, m)
			impl = append(impl, int(b.Threefold()))
			reqs = append(reqs, "mk "+strconv.Itoa(int(m)), "three", "rep")
		}
		if len(ms) == 0 {
			continue
		}
		ans := e.m.Batch(reqs)
		var path []string
		path = append(path, "fen "+fen)
		for i, m := range ms {
			path = append(path, "mk "+strconv.Itoa(int(m)))
			e.r.Evaluations++
			model, spec := ans[3*i+1], ans[3*i+2]
			is := strconv.Itoa(impl[i])
			if impl[i] >= 2 {
				e.r.Nontrivial(strings.Join(path, ";"))
				e.r.Count(fmt.Sprintf("count=%d", min(impl[i], 3)), 1)
			}
			if is != spec {
				note := "Threefold() differs from the number of occurrences of the position in the history"
				if !startEPNormal {
					// classification used by known_findings.json (D7): the history starts from a FEN whose
					// en-passant target cannot be captured
					note += " [start-ep-not-capturable]"
				}
				e.r.Fail(common.Mismatch{Property: "C10", Kind: "failing-input", Ops: append(append([]string{}, path...), "three"),
					Impl: is, Model: model, Spec: spec, Note: note})
				break
			} else if is != model {
				e.r.Fail(common.Mismatch{Property: "C10", Kind: "broken-correspondence", Ops: append(append([]string{}, path...), "three"),
					Impl: is, Model: model, Spec: spec})
				break
			}
		}
		if g == 0 {
			e.r.Sample(map[string]any{"start": fen, "plies": len(ms), "counts": impl}, 2)
		}
		e.r.Count("plies", len(ms))
		e.r.Count(fmt.Sprintf("mode%d-games", mode), 1)
		if b.FiftyCnt < 0 || len(ms) > 128 {
			e.r.Count("games-past-128-plies-or-clock-wrap", 1)
		}
	}
	// directed en-passant situations followed by reversible round trips (both colours)
	e.c10EPHistories(e.c.Pick(580, 20000))
	// several boards alive at once, advanced alternately (aliasing between board values)
	e.c10Aliasing(e.c.Pick(45, 1500))
	// whole games through the UCI driver: growing move lists on one driver, Threefold() of the board the search is handed
	e.c10UCI(e.c.Pick(80, 1500))
}

// c10obs is one observation of Threefold() on a board whose history is the first k moves of its game.
type c10obs struct{ k, v int }

// c10Check replays one single-board history (start FEN + moves) in the Lean model and the rule-book
// spec and compares every recorded observation of the implementation's Threefold() with the model's
// threefold and with the art. 9.2.2 count of the spec for the same history prefix - the comparison of
// the main c10 loop, for boards that were advanced outside that loop.  obs must be sorted by k.
func (e *env) c10Check(fen string, ms []move.Move, obs []c10obs, startEPNormal bool, label string) bool {
	reqs := []string{"fen " + fen, "three", "rep"}
	for _, m := range ms {
		reqs = append(reqs, "mk "+strconv.Itoa(int(m)), "three", "rep")
	}
	ans := e.m.Batch(reqs)
	for _, o := range obs {
		e.r.Evaluations++
		model, spec := ans[3*o.k+1], ans[3*o.k+2]
		is := strconv.Itoa(o.v)
		path := func() []string {
			p := []string{"fen " + fen}
			for _, m := range ms[:o.k] {
				p = append(p, "mk "+strconv.Itoa(int(m)))
			}
			return p
		}
		if o.v >= 2 {
			e.r.Nontrivial(label + ";" + strings.Join(path(), ";"))
			e.r.Count(fmt.Sprintf("count=%d", min(o.v, 3)), 1)
		}
		if is != spec {
			note := "Threefold() differs from the number of occurrences of the position in the history"
			if !startEPNormal {
				note += " [start-ep-not-capturable]"
			}
			e.r.Fail(common.Mismatch{Property: "C10", Kind: "failing-input", Ops: append(path(), "three"),
				Impl: is, Model: model, Spec: spec, Note: note + " (" + label + ")"})
			return false
		} else if is != model {
			e.r.Fail(common.Mismatch{Property: "C10", Kind: "broken-correspondence", Ops: append(path(), "three"),
				Impl: is, Model: model, Spec: spec, Note: label})
			return false
		}
	}
	return true
}

// c10Key is the part of the rule-book view that must be equal for two positions to be "the same"
// apart from the en-passant capturability: placement, side to move, castling rights.
func c10Key(b *board.Board) string {
	f := strings.Fields(implutil.PosStr(b))
	return f[0] + " " + f[1] + " " + f[2]
}

func hasMove(l []move.Move, m move.Move) bool {
	for _, x := range l {
		if x == m {
			return true
		}
	}
	return false
}

// pushNextToEnemyPawn reports whether m is a double pawn push landing beside an enemy pawn (the only
// situation in which an en-passant target can be recorded); call BEFORE making m.
func pushNextToEnemyPawn(b *board.Board, m move.Move) bool {
	d := int(m.From()) - int(m.To())
	if b.SquaresToPiece[m.From()] != Pawn || (d != 16 && d != -16) {
		return false
	}
	them := b.Colors[b.STM.Flip()] & b.Pieces[Pawn]
	to := int(m.To())
	return (to%8 > 0 && them&(1<<(to-1)) != 0) || (to%8 < 7 && them&(1<<(to+1)) != 0)
}

// c10Trip plays a reversible round trip of L plies (L = 4, 6 or 8) from the current position: each side
// makes a closed walk of L/2 quiet non-pawn moves (out-and-back; a triangle of a king / queen / rook /
// bishop; two out-and-backs nested or one after the other).  A move that starts a walk is chosen with
// a one-ply look-ahead so that the opponent's next planned return move stays legal (needed when the
// position to return to is a check: the checker has to step off the line or be blocked before the
// king can step back).  Reports whether the start position (placement, turn, rights) was reached.
func (e *env) c10Trip(b *board.Board, L int, play func(move.Move)) bool {
	rng := e.c.Rng
	key0 := c10Key(b)
	type walker struct {
		plan  string // 'o' start a walk, 'b' take the newest open move back, 't' second leg of a triangle, 'c' close the triangle
		stack []move.Move
		tri   [3]Square // triangle: origin, first stop, second stop
	}
	var w [2]*walker
	for i := range w {
		switch L / 2 {
		case 2:
			w[i] = &walker{plan: "ob"}
		case 3:
			w[i] = &walker{plan: "otc"}
		default:
			w[i] = &walker{plan: []string{"oobb", "obob"}[rng.IntN(2)]}
		}
	}
	inv := func(m move.Move) move.Move { return move.From(m.To()) | move.To(m.From()) }
	// the move a walker is bound to play at its step, 0 when it is free to choose
	planned := func(x *walker, step int) move.Move {
		if step >= len(x.plan) {
			return 0
		}
		switch x.plan[step] {
		case 'b':
			if len(x.stack) > 0 {
				return inv(x.stack[len(x.stack)-1])
			}
		case 'c':
			return move.From(x.tri[2]) | move.To(x.tri[0])
		}
		return 0
	}
	geom := func(pc Piece, a, c Square) bool { // could pc go from a to c on an empty board
		df, dr := Abs(int(a)%8-int(c)%8), Abs(int(a)/8-int(c)/8)
		if a == c {
			return false
		}
		switch pc {
		case King:
			return df <= 1 && dr <= 1
		case Rook:
			return df == 0 || dr == 0
		case Bishop:
			return df == dr
		case Queen:
			return df == 0 || dr == 0 || df == dr
		}
		return false
	}
	for ply := 0; ply < L; ply++ {
		me, opp := w[ply%2], w[(ply+1)%2]
		step := ply / 2
		l := implutil.Legal(b)
		if len(l) == 0 {
			return false
		}
		var m move.Move
		if pm := planned(me, step); pm != 0 {
			if !hasMove(l, pm) || b.SquaresToPiece[pm.To()] != NoPiece {
				return false
			}
			m = pm
		} else {
			// candidates: quiet, non-pawn, no castling, normally not changing the castling rights
			keepRights := rng.IntN(8) != 0
			var cand []move.Move
			for _, x := range l {
				pc := b.SquaresToPiece[x.From()]
				if b.SquaresToPiece[x.To()] != NoPiece || pc == Pawn || (pc == King && Abs(int(x.From())-int(x.To())) == 2) {
					continue
				}
				if me.plan[step] == 'o' && me.plan == "otc" && pc == Knight {
					continue
				}
				if me.plan[step] == 't' && (x.From() != me.tri[1] || x.To() == me.tri[0] || !geom(pc, x.To(), me.tri[0])) {
					continue
				}
				cand = append(cand, x)
			}
			rng.Shuffle(len(cand), func(i, j int) { cand[i], cand[j] = cand[j], cand[i] })
			if len(cand) > 16 {
				cand = cand[:16]
			}
			oppNext := planned(opp, (ply+1)/2)
			for _, x := range cand {
				c0 := b.Castles
				r := b.MakeMove(x)
				ok := (!keepRights || b.Castles == c0) && (oppNext == 0 || hasMove(implutil.Legal(b), oppNext))
				b.UndoMove(x, r)
				if ok {
					m = x
					break
				}
			}
			if m == 0 {
				if len(cand) == 0 {
					return false
				}
				m = cand[0]
			}
			switch me.plan[step] {
			case 'o':
				me.stack = append(me.stack, m)
				me.tri[0], me.tri[1] = m.From(), m.To()
			case 't':
				me.tri[2] = m.To()
			}
		}
		if pm := planned(me, step); pm != 0 && me.plan[step] == 'b' {
			me.stack = me.stack[:len(me.stack)-1]
		}
		play(m)
	}
	return c10Key(b) == key0
}

// c10EPHistories: histories that start with or contain a directed en-passant situation
// (posgen.EPDirected: the capturer pinned on file / rank / diagonal, the discovered check through the
// pusher's origin square, two capturers, a checking pusher; both colours): optionally a round trip in
// the position before the double push, the double push, then up to three reversible round trips of 4,
// 6 or 8 plies that return to the exact placement after the push.  Threefold() is compared after
// every ply as in the main loop.  Counted: histories whose push lands beside an enemy pawn with the
// target recorded / not recorded, pushes that leave the opponent in check, and how many of those
// post-push positions recur.
func (e *env) c10EPHistories(games int) {
	rng := e.c.Rng
	for g := 0; g < games; g++ {
		var ec posgen.EPCase
		var wrap posgen.EPWrapInfo
		ok, kind := false, "epdirected"
		switch g % 5 {
		case 0:
			ec, ok = posgen.EPDirected(rng)
		case 1, 2:
			ec, kind, ok = posgen.EPGeometry(rng)
		default: // wrap geometry: pushes on every file, edge files emphasised, pawns on the linear-index neighbours
			kind = "epwrap"
			ec, wrap, ok = posgen.EPWrap(rng)
		}
		if !ok {
			continue
		}
		fen := ec.Pos.FEN()
		b, valid, epn := e.load("C10", fen)
		if b == nil || !valid {
			e.r.Count("ephist-start-invalid", 1)
			continue
		}
		push := move.From(Square(ec.From)) | move.To(Square(ec.To))
		if !hasMove(implutil.Legal(b), push) {
			e.r.Count("ephist-push-illegal", 1)
			continue
		}
		e.r.Count("ephist-kind:"+kind, 1)
		var ms []move.Move
		var obs []c10obs
		play := func(m move.Move) {
			b.MakeMove(m)
			ms = append(ms, m)
			obs = append(obs, c10obs{len(ms), int(b.Threefold())})
		}
		e.r.Count("ephist-games", 1)
		if ec.Pos.Black {
			e.r.Count("ephist-black-pushes", 1)
		}
		pre := false
		if rng.IntN(3) == 0 {
			pre = e.c10Trip(b, []int{4, 6, 8}[rng.IntN(3)], play)
			if pre {
				e.r.Count("ephist-roundtrip-before-push-returned", 1)
			}
		}
		if len(ms) == 0 || pre {
			beside := pushNextToEnemyPawn(b, push)
			play(push)
			rec := "target-not-recorded"
			if b.EnPassant != 0 {
				rec = "target-recorded"
			}
			if beside {
				e.r.Count("ephist-push-beside-enemy-pawn:"+rec, 1)
			}
			check := b.InCheck(b.STM)
			if check {
				e.r.Count("ephist-push-gives-check:"+rec, 1)
			}
			recurs := 0
			for t, trips := 0, 1+rng.IntN(3); t < trips; t++ {
				L := []int{4, 6, 8}[rng.IntN(3)]
				if !e.c10Trip(b, L, play) {
					break
				}
				recurs++
				e.r.Count(fmt.Sprintf("ephist-roundtrip-%d-plies-returned", L), 1)
			}
			if kind == "epwrap" {
				e.r.Count("epwrap-games", 1)
				e.r.Count("epwrap "+wrap.Key(), 1)
				if recurs > 0 {
					e.r.Count("epwrap "+wrap.Key()+":recurs", 1)
				}
				if wrap.Linear && !wrap.Capturer {
					e.r.Count("epwrap-linear-neighbour-without-capturer:"+rec, 1)
					if recurs > 0 {
						e.r.Count("epwrap-linear-neighbour-without-capturer-recurs:"+rec, 1)
					}
				}
			}
			if recurs > 0 {
				e.r.Count("ephist-postpush-position-recurs:"+rec, 1)
				if check {
					e.r.Count("ephist-postpush-check-position-recurs:"+rec, 1)
				}
			}
			if recurs > 1 {
				e.r.Count("ephist-postpush-position-recurs-twice:"+rec, 1)
			}
		}
		e.r.Count("plies", len(ms))
		e.c10Check(fen, ms, obs, epn, "ephist")
	}
}

// c10Aliasing: two or three boards obtained in each of the ways the repository itself obtains boards
// (board.StartPos() as uci.NewDriver / ucinewgame / `position startpos` / the datagen server do;
// board.FromFEN(fen) called several times with the same FEN as `position fen`, main.go bench, debug/epd
// and the datagen client do; one of each) are alive at once and advanced ALTERNATELY with different
// shuffling move sequences.  After every ply on any board the Threefold() of EVERY board is observed
// and later compared with that board's own history replayed alone in the model and the spec: a board
// value must not see (or lose) history through another board value.
func (e *env) c10Aliasing(sessions int) {
	rng := e.c.Rng
	startDump := ""
	if b, _, _ := e.load("C10", StartPosFEN); b != nil {
		startDump = implutil.Dump(b)
	}
	for s := 0; s < sessions; s++ {
		way := []string{"startpos", "fromfen-same-fen", "startpos+fromfen"}[s%3]
		nb := 2 + rng.IntN(2)
		fen := StartPosFEN
		epn := true
		if way == "fromfen-same-fen" && rng.IntN(3) != 0 {
			for {
				f, _ := e.s.Next()
				if b, valid, n := e.load("C10", f); b != nil && valid && len(implutil.Legal(b)) > 0 {
					fen, epn = f, n
					break
				}
			}
		}
		boards := make([]*board.Board, nb)
		for i := range boards {
			switch {
			case way == "startpos" || (way == "startpos+fromfen" && i%2 == 0):
				boards[i] = board.StartPos()
				if d := implutil.Dump(boards[i]); d != startDump {
					e.r.Fail(common.Mismatch{Property: "C10", Kind: "broken-correspondence", Ops: []string{"startpos"}, Impl: d, Model: startDump,
						Note: "board.StartPos() differs from FromFEN(StartPosFEN)"})
				}
			default:
				boards[i], _ = board.FromFEN(fen)
			}
		}
		ms := make([][]move.Move, nb)
		obs := make([][]c10obs, nb)
		last := make([][2]move.Move, nb)
		observe := func() {
			for j, x := range boards {
				obs[j] = append(obs[j], c10obs{len(ms[j]), int(x.Threefold())})
			}
		}
		observe()
		total := 30 + rng.IntN(e.c.Pick(150, 330))
		cur := 0
		for ply := 0; ply < total; ply++ {
			if rng.IntN(3) == 0 {
				cur = rng.IntN(nb)
			}
			b := boards[cur]
			l := implutil.Legal(b)
			if len(l) == 0 || b.FiftyCnt >= 100 {
				cur = (cur + 1) % nb
				continue
			}
			i := len(ms[cur])
			var m move.Move
			back := move.From(last[cur][i%2].To()) | move.To(last[cur][i%2].From())
			pick := rng.IntN(10)
			if pick < 6 && last[cur][i%2] != 0 && hasMove(l, back) && b.SquaresToPiece[back.To()] == NoPiece {
				m = back
			}
			if m == 0 && pick < 9 {
				var quiet []move.Move
				for _, x := range l {
					if b.SquaresToPiece[x.To()] == NoPiece && b.SquaresToPiece[x.From()] != Pawn {
						quiet = append(quiet, x)
					}
				}
				if len(quiet) > 0 {
					m = quiet[rng.IntN(len(quiet))]
				}
			}
			if m == 0 {
				m = l[rng.IntN(len(l))]
			}
			last[cur][i%2] = m
			b.MakeMove(m)
			ms[cur] = append(ms[cur], m)
			observe()
		}
		e.r.Count("alias-sessions:"+way, 1)
		e.r.Count(fmt.Sprintf("alias-boards-alive=%d", nb), 1)
		for j := range boards {
			e.r.Count("alias-board-plies", len(ms[j]))
			e.r.Count("plies", len(ms[j]))
			rep := false
			for _, o := range obs[j] {
				if o.v >= 2 {
					rep = true
				}
			}
			if rep {
				e.r.Count("alias-boards-with-a-repetition", 1)
			}
			e.c10Check(fen, ms[j], obs[j], epn, fmt.Sprintf("alias %s board %d of %d", way, j+1, nb))
		}
	}
}

// ---------------------------------------------------------------------------------------------
// C11: FEN round trip and robustness.

func classify(f func() error) (res string) {
	defer func() {
		if r := recover(); r != nil {
			res = "panic"
		}
	}()
	if err := f(); err != nil {
		return "err"
	}
	return "ok"
}

func (e *env) c11() {
	e.r.Rule = "(a) valid positions: FEN() -> FromFEN -> same snapshot, and the text round trip, also through `position fen … ` + `fen` in the UCI driver (incl. heavily promoted material); (b) a separate robustness stream of mutated FENs (truncation at every byte, dropped/duplicated fields, over-long ranks, digits 0/9, huge counters, non-ASCII, NUL) and random bytes: outcome class ok/err/panic and the resulting board vs the Lean parser model; non-trivial = distinct input string whose outcome is ok, or err reached after the placement field; distinct by input bytes"
	// (a) round trips
	n := e.c.Pick(1500, 100000)
	var reusedRT board.Board
	for i := 0; i < n; i++ {
		fen, src := e.s.Next()
		b, valid, _ := e.load("C11", fen)
		if b == nil || !valid {
			continue
		}
		e.r.Evaluations++
		e.r.Count("roundtrip:"+src, 1)
		text := b.FEN()
		b2, err := board.FromFEN(text)
		if err != nil {
			e.r.Fail(common.Mismatch{Property: "C11", Kind: "failing-input", Ops: []string{"fen " + fen, "fenout"}, Impl: text, Note: "printed FEN is rejected: " + err.Error()})
			continue
		}
		if implutil.Dump(b2) != implutil.Dump(b) || b2.FEN() != text {
			e.r.Fail(common.Mismatch{Property: "C11", Kind: "failing-input", Ops: []string{"fen " + fen, "fenout"}, Impl: implutil.Dump(b2), Spec: implutil.Dump(b), Note: "print/parse round trip changed the position"})
		}
		{
			prev := implutil.Dump(&reusedRT)
			full, nohash := implutil.Dump(b), ""
			nohash = full[:strings.LastIndex(full, "[")]
			if board.ParseFEN(&reusedRT, []byte(text)) != nil || !strings.HasPrefix(implutil.Dump(&reusedRT), nohash) {
				e.r.Fail(common.Mismatch{Property: "C11", Kind: "failing-input", Ops: []string{"parse-into-reused-board-holding " + prev, "fen " + text},
					Impl: implutil.Dump(&reusedRT), Spec: full, Note: "ParseFEN into a reused Board differs from a fresh parse"})
			}
		}
		if m := e.m.Ask("fenout"); m != text {
			e.r.Fail(common.Mismatch{Property: "C11", Kind: "broken-correspondence", Ops: []string{"fen " + fen, "fenout"}, Impl: text, Model: m})
		}
		e.r.Nontrivial(text)
		if i%4 == 0 {
			// through the UCI position command; start from a different current position
			script := "position startpos\nposition fen " + text + "\nfen\nquit\n"
			var out, errb bytes.Buffer
			uci.NewDriver(uci.WithInput(strings.NewReader(script)), uci.WithOutput(&out), uci.WithError(&errb)).Run()
			got := strings.TrimSpace(out.String())
			e.r.TracesValidated++
			if got != text {
				e.r.Fail(common.Mismatch{Property: "C11", Kind: "failing-input", Ops: strings.Split(strings.TrimSpace(script), "\n"), Impl: got, Spec: text,
					Note: "UCI position command did not install the valid position; stderr: " + errb.String()})
			}
		}
	}
	// (b) robustness stream
	rng := e.c.Rng
	roots := e.s.Roots
	m := e.c.Pick(25000, 2000000)
	var inputs [][]byte
	for len(inputs) < m {
		base := []byte(roots[rng.IntN(len(roots))])
		switch rng.IntN(12) {
		case 0: // truncate at every byte
			for k := 0; k <= len(base) && len(inputs) < m; k++ {
				inputs = append(inputs, append([]byte{}, base[:k]...))
			}
			continue
		case 1: // drop a field
			fs := strings.Fields(string(base))
			k := rng.IntN(len(fs))
			base = []byte(strings.Join(append(append([]string{}, fs[:k]...), fs[k+1:]...), " "))
		case 2: // duplicate a field
			fs := strings.Fields(string(base))
			k := rng.IntN(len(fs))
			base = []byte(strings.Join(append(append(append([]string{}, fs[:k+1]...), fs[k]), fs[k+1:]...), " "))
		case 3: // mutate bytes
			for j := 1 + rng.IntN(3); j > 0 && len(base) > 0; j-- {
				alphabet := "0123456789/ pnbrqkPNBRQKwb-abcdefgh\x00\xff\tz"
				base[rng.IntN(len(base))] = alphabet[rng.IntN(len(alphabet))]
			}
		case 4: // huge counters
			fs := strings.Fields(string(base))
			fs[4+rng.IntN(2)] = strings.Repeat(string(rune('0'+rng.IntN(10))), 1+rng.IntN(30))
			base = []byte(strings.Join(fs, " "))
		case 5: // over-long rank / many slashes
			k := rng.IntN(len(base))
			ins := []string{"8", "88", "/", "////////", "pppppppppp", "9", "0"}[rng.IntN(7)]
			base = append(append(append([]byte{}, base[:k]...), ins...), base[k:]...)
		case 6: // extra spaces
			base = []byte(strings.ReplaceAll(string(base), " ", strings.Repeat(" ", 1+rng.IntN(3))))
		case 7: // random bytes
			base = make([]byte, rng.IntN(40))
			for j := range base {
				base[j] = byte(rng.IntN(256))
			}
		case 8: // random over the FEN alphabet
			alphabet := "12345678/ pnbrqkPNBRQKwb-abcdefgh0 9"
			base = make([]byte, rng.IntN(70))
			for j := range base {
				base[j] = alphabet[rng.IntN(len(alphabet))]
			}
		case 9: // ep field variants
			fs := strings.Fields(string(base))
			fs[3] = []string{"a", "e3", "e6", "h8", "i3", "a9", "-", "e", "3e", "a1"}[rng.IntN(10)]
			base = []byte(strings.Join(fs, " "))
		case 10: // clock edge values
			fs := strings.Fields(string(base))
			fs[4] = []string{"0", "99", "100", "101", "127", "128", "255", "256", "-1", "18446744073709551616", "9223372036854775807", "9223372036854775808"}[rng.IntN(12)]
			fs[5] = []string{"0", "1", "2", "65535", "-5", "18446744073709551617", "9223372036854775808"}[rng.IntN(7)]
			base = []byte(strings.Join(fs, " "))
		default: // truncate at a random byte
			base = base[:rng.IntN(len(base)+1)]
		}
		inputs = append(inputs, base)
	}
	// one REUSED destination board for ParseFEN (the tuner's allocation-free path parses every
	// training position into the same Board): the result must not depend on what was parsed before
	var reused board.Board
	stripHash := func(d string) string { return d[:strings.LastIndex(d, "[")] }
	const batch = 2000
	for off := 0; off < len(inputs); off += batch {
		end := min(off+batch, len(inputs))
		reqs := make([]string, 0, end-off)
		for _, in := range inputs[off:end] {
			reqs = append(reqs, "fenhex "+hex.EncodeToString(in))
		}
		ans := e.m.Batch(reqs)
		for k, in := range inputs[off:end] {
			e.r.Evaluations++
			var b board.Board
			cls := classify(func() error { return board.ParseFEN(&b, in) })
			impl := cls
			if cls == "ok" {
				bb, err := board.FromFEN(string(in))
				if err != nil {
					impl = "err"
				} else {
					impl = "ok " + implutil.Dump(bb)
					e.r.Nontrivial(string(in))
				}
			}
			e.r.Count("robust:"+cls, 1)
			ops := []string{"fenhex " + hex.EncodeToString(in)}
			if cls == "ok" && strings.HasPrefix(impl, "ok ") {
				prev := implutil.Dump(&reused)
				if classify(func() error { return board.ParseFEN(&reused, in) }) != "ok" ||
					stripHash(implutil.Dump(&reused)) != stripHash(impl[3:]) {
					e.r.Fail(common.Mismatch{Property: "C11", Kind: "failing-input", Ops: append([]string{"parse-into-reused-board-holding " + prev}, ops...),
						Impl: implutil.Dump(&reused), Spec: impl[3:], Note: fmt.Sprintf("ParseFEN into a reused Board differs from a fresh parse of %q", in)})
				}
				e.r.Count("reused-board-parses", 1)
			}
			if cls == "panic" {
				e.r.Fail(common.Mismatch{Property: "C11", Kind: "failing-input", Ops: ops, Impl: "panic", Model: ans[k], Note: fmt.Sprintf("ParseFEN crashed on %q", in)})
			} else if impl != ans[k] {
				e.r.Fail(common.Mismatch{Property: "C11", Kind: "broken-correspondence", Ops: ops, Impl: impl, Model: ans[k], Note: fmt.Sprintf("input %q", in)})
			}
			if cls == "err" && bytes.Count(in, []byte(" ")) >= 2 {
				e.r.Nontrivial(string(in))
			}
		}
	}
	// the UCI position command never replaces the current position with a rejected one
	cur := "r3k2r/p1ppqpb1/bn2pnp1/3PN3/1p2P3/2N2Q1p/PPPBBPPP/R3K2R w KQkq - 0 1"
	for i := 0; i < e.c.Pick(300, 20000); i++ {
		in := inputs[rng.IntN(len(inputs))]
		if bytes.ContainsAny(in, "\n\r") {
			continue
		}
		script := "position fen " + cur + "\nposition fen " + string(in) + "\nfen\nquit\n"
		var out, errb bytes.Buffer
		cls := classify(func() error {
			uci.NewDriver(uci.WithInput(strings.NewReader(script)), uci.WithOutput(&out), uci.WithError(&errb)).Run()
			return nil
		})
		got := strings.TrimSpace(out.String())
		e.r.Evaluations++
		e.r.TracesValidated++
		// expected: if the six fields parse and the piece counts are plausible the new position, else the old one
		fs := strings.Fields(string(in))
		want := cur
		if len(fs) >= 6 {
			if nb, err := board.FromFEN(strings.Join(fs[:6], " ")); err == nil && !nb.InvalidPieceCount() {
				want = nb.FEN()
				e.r.Count("uci-accepted", 1)
			}
		}
		if cls == "panic" || got != want {
			e.r.Fail(common.Mismatch{Property: "C11", Kind: "failing-input", Ops: []string{"position fen " + cur, "position fenhex " + hex.EncodeToString(in), "fen"},
				Impl: cls + " " + got, Spec: want, Note: "UCI position command replaced the current position by a rejected one, or crashed"})
		}
	}
	sort.Strings(nil)
}

// c10Scan exercises the backward scan of Threefold() on FORGED hash histories (verif hook
// VerifSetHashes): lists of 0..300 64-bit words drawn from small alphabets whose members share their
// low 32 / high 32 / low 16 bits or differ in one bit, with equal words planted at every distance
// 1..12 (even and odd) and at long distances from the end.  Threefold() is compared with the Lean model
// (`threeh`) and with an independent count in Go (matches of the last word at even distance >= 4,
// capped at 3, as board.go documents the scan).  Real games cannot produce near-collisions at will.
func (e *env) c10Scan() {
	rng := e.c.Rng
	n := e.c.Pick(3000, 60000)
	b := board.StartPos()
	var reqs []string
	var impl []int
	var lists [][]board.Hash
	for i := 0; i < n; i++ {
		base := board.Hash(rng.Uint64())
		alpha := []board.Hash{base, base ^ 1<<63, base ^ 1<<32, base ^ 1<<31, base ^ 1, base ^ 0xffffffff00000000, base ^ 0x00000000ffffffff,
			base ^ 0xffff, base &^ 0xffffffff, base & 0xffffffff, board.Hash(rng.Uint64()), board.Hash(rng.Uint64()), 0}
		k := 1 + rng.IntN(6)
		if rng.IntN(4) == 0 {
			k = len(alpha)
		}
		l := rng.IntN(14)
		switch rng.IntN(6) {
		case 0:
			l = 120 + rng.IntN(180)
		case 1:
			l = 14 + rng.IntN(60)
		}
		if rng.IntN(40) == 0 {
			l = 0
		}
		hs := make([]board.Hash, l)
		for j := range hs {
			hs[j] = alpha[rng.IntN(k)]
		}
		if l > 0 && rng.IntN(2) == 0 { // plant the current word at a chosen distance
			d := 1 + rng.IntN(12)
			if rng.IntN(5) == 0 {
				d = 1 + rng.IntN(l)
			}
			if l-1-d >= 0 {
				hs[l-1-d] = hs[l-1]
			}
		}
		b.VerifSetHashes(hs)
		got := -1
		func() {
			defer func() {
				if r := recover(); r != nil {
					got = -2
				}
			}()
			got = int(b.Threefold())
		}()
		impl = append(impl, got)
		lists = append(lists, hs)
		var sb strings.Builder
		sb.WriteString("threeh")
		for _, h := range hs {
			sb.WriteString(" " + strconv.FormatUint(uint64(h), 16))
		}
		reqs = append(reqs, sb.String())
	}
	ans := e.m.Batch(reqs)
	for i, hs := range lists {
		e.r.Evaluations++
		want := 1
		for ix := len(hs) - 5; ix >= 0 && want < 3; ix -= 2 {
			if hs[ix] == hs[len(hs)-1] {
				want++
			}
		}
		near := false
		for _, h := range hs {
			if len(hs) > 0 && h != hs[len(hs)-1] && (uint32(h) == uint32(hs[len(hs)-1]) || h>>32 == hs[len(hs)-1]>>32) {
				near = true
			}
		}
		if want >= 2 || near {
			e.r.Nontrivial("scan " + reqs[i])
		}
		e.r.Count(fmt.Sprintf("scan-count-%d", want), 1)
		if near {
			e.r.Count("scan-near-collision-in-history", 1)
		}
		ops := []string{reqs[i]}
		if impl[i] != want {
			// a forged list is not a game history: the scan no longer corresponds to the model the
			// theorems are about, but no GAME on which the count is wrong is exhibited by this test
			e.r.Fail(common.Mismatch{Property: "C10", Kind: "broken-correspondence", Ops: ops, Impl: strconv.Itoa(impl[i]), Model: ans[i], Spec: strconv.Itoa(want),
				Note: "Threefold() on a forged hash history (hook VerifSetHashes) differs from the count of equal words at even distance >= 4 (model Board.threefold, theorem threefold_scan_spec)"})
		} else if ans[i] != strconv.Itoa(want) {
			e.r.Fail(common.Mismatch{Property: "C10", Kind: "broken-correspondence", Ops: ops, Impl: strconv.Itoa(impl[i]), Model: ans[i], Spec: strconv.Itoa(want)})
		}
	}
}
