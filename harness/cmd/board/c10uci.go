package main

import (
	"bytes"
	"fmt"
	"io"
	"strconv"
	"strings"
	"time"

	"github.com/paulsonkoly/chess-3/board"
	"github.com/paulsonkoly/chess-3/move"
	"github.com/paulsonkoly/chess-3/search"
	"github.com/paulsonkoly/chess-3/uci"

	. "github.com/paulsonkoly/chess-3/chess"

	"verifharness/common"
	"verifharness/implutil"
)

// c10UCI: whole games sent the way a GUI sends them.  One driver per game; the position command is
// repeated with a growing move list (`position startpos|fen F moves m1 … mk`), each followed by a `go`
// that is answered by a recording mock search: it notes Threefold() and the FEN of the driver's board.
// Every command sets the game up afresh, so the count after command k is the art. 9.2.2 count of the
// history start + m1 … mk alone — whatever the driver held before (an earlier command may have left the
// very same position, the initial position included).  Game kinds:
//
//	startpos-return   initial position, knight shuffles that return to it once or twice, then a shuffling game
//	startpos          initial position, shuffling game
//	fen               valid start from the stream, shuffling game
//	promotion         pawns on the seventh / second rank: promotions to every piece kind (under-promotions as
//	                  often as queens), then the promoted piece shuffles so that positions recur
type c10Mock struct {
	three []int
	fens  []string
}

func (m *c10Mock) Clear()       {}
func (m *c10Mock) ResizeTT(int) {}
func (m *c10Mock) Go(b *board.Board, _ ...search.Option) (Score, move.Move, move.Move) {
	m.three = append(m.three, int(b.Threefold()))
	m.fens = append(m.fens, b.FEN())
	return 0, 0, 0
}

type c10Sink struct{ best chan struct{} }

func (s *c10Sink) Write(p []byte) (int, error) {
	if bytes.HasPrefix(p, []byte("bestmove")) {
		s.best <- struct{}{}
	}
	return len(p), nil
}

// fen4 keeps placement, side to move, castling rights and en-passant field of a FEN.
func fen4(f string) string { return strings.Join(strings.Fields(f)[:4], " ") }

func moveByName(b *board.Board, s string) (move.Move, bool) {
	for _, m := range implutil.Legal(b) {
		if m.String() == s {
			return m, true
		}
	}
	return 0, false
}

func (e *env) c10UCI(games int) {
	rng := e.c.Rng
	startFEN := board.StartPos().FEN()
	promoStarts := []string{
		"4k3/P7/8/8/8/8/p7/4K3 w - - 0 1", "4k3/P7/8/8/8/8/p7/4K3 b - - 0 1", "8/1P4k1/8/8/8/8/1p4K1/8 w - - 0 1",
		"r3k3/1P5P/8/8/8/8/1p5p/R3K3 w Qq - 0 1", "6k1/2P2P2/8/8/8/8/2p2p2/6K1 b - - 0 1", "n3k3/1P6/8/8/8/8/1p6/N3K3 w - - 0 1",
	}
	for g := 0; g < games; g++ {
		kind := []string{"startpos-return", "startpos", "fen", "promotion"}[g%4]
		fen, viaStartpos := startFEN, true
		var b *board.Board
		switch kind {
		case "fen":
			viaStartpos = false
			for {
				var valid, epn bool
				fen, _ = e.s.Next()
				if b, valid, epn = e.load("C10", fen); b != nil && valid && epn {
					break
				}
			}
		case "promotion":
			viaStartpos = false
			fen = promoStarts[rng.IntN(len(promoStarts))]
			var valid bool
			if b, valid, _ = e.load("C10", fen); b == nil || !valid {
				continue
			}
		default:
			b = board.StartPos()
		}
		var ms []move.Move
		returns := map[int]bool{} // prefixes after which the start position stands on the board again
		play := func(m move.Move) {
			b.MakeMove(m)
			ms = append(ms, m)
		}
		if kind == "startpos-return" {
			for rep := 1 + rng.IntN(2); rep > 0; rep-- {
				quad := [][]string{{"g1f3", "g8f6", "f3g1", "f6g8"}, {"b1c3", "b8c6", "c3b1", "c6b8"}, {"g1h3", "b8a6", "h3g1", "a6b8"}}[rng.IntN(3)]
				for _, s := range quad {
					if m, ok := moveByName(b, s); ok {
						play(m)
					}
				}
				returns[len(ms)] = true
			}
		}
		n := 8 + rng.IntN(e.c.Pick(40, 120))
		var last [2]move.Move
		for i := 0; i < n; i++ {
			l := implutil.Legal(b)
			if len(l) == 0 || b.FiftyCnt >= 100 {
				break
			}
			var m move.Move
			found := false
			if kind == "promotion" && rng.IntN(10) < 7 {
				var promos []move.Move
				for _, x := range l {
					if x.Promo() != NoPiece {
						promos = append(promos, x)
					}
				}
				if len(promos) > 0 {
					want := []Piece{Knight, Bishop, Rook, Queen}[rng.IntN(4)]
					for _, j := range rng.Perm(len(promos)) {
						if promos[j].Promo() == want {
							m, found = promos[j], true
							break
						}
					}
				}
			}
			if !found && rng.IntN(10) < 6 && last[i%2] != 0 {
				back := move.From(last[i%2].To()) | move.To(last[i%2].From())
				if hasMove(l, back) && b.SquaresToPiece[back.From()] != Pawn {
					m, found = back, true
				}
			}
			if !found && rng.IntN(10) < 7 {
				for _, j := range rng.Perm(len(l)) {
					x := l[j]
					if b.SquaresToPiece[x.From()] != Pawn && b.SquaresToPiece[x.To()] == NoPiece {
						m, found = x, true
						break
					}
				}
			}
			if !found {
				m = l[rng.IntN(len(l))]
			}
			last[i%2] = m
			play(m)
			if viaStartpos && fen4(b.FEN()) == fen4(startFEN) {
				returns[len(ms)] = true
			}
		}
		if len(ms) == 0 {
			continue
		}
		// the prefixes that are sent: every return to the start and the one after it, a sample, the whole list
		ks := map[int]bool{len(ms): true}
		for k := range returns {
			ks[k] = true
			if k < len(ms) {
				ks[k+1] = true
			}
		}
		for len(ks) < min(10, len(ms)) {
			ks[rng.IntN(len(ms)+1)] = true
		}
		var order []int
		for k := 0; k <= len(ms); k++ {
			if ks[k] {
				order = append(order, k)
			}
		}
		if rng.IntN(4) == 0 { // now and then not in game order (analysis: jumping back and forth)
			rng.Shuffle(len(order), func(i, j int) { order[i], order[j] = order[j], order[i] })
		}
		// the model / rule-book side: one pass over the whole game
		reqs := []string{"fen " + fen, "three", "rep", "fenout"}
		for _, m := range ms {
			reqs = append(reqs, "mk "+strconv.Itoa(int(m)), "three", "rep", "fenout")
		}
		ans := e.m.Batch(reqs)
		// the driver
		mock := &c10Mock{}
		sink := &c10Sink{best: make(chan struct{}, 4)}
		pr, pw := io.Pipe()
		done := make(chan struct{})
		d := uci.NewDriver(uci.WithInput(pr), uci.WithOutput(sink), uci.WithError(io.Discard), uci.WithSearch(mock))
		go func() { defer close(done); d.Run() }()
		var sent []string
		ok := true
		for _, k := range order {
			cmd := "position fen " + fen
			if viaStartpos {
				cmd = "position startpos"
			}
			if k > 0 {
				var names []string
				for _, m := range ms[:k] {
					names = append(names, m.String())
				}
				cmd += " moves " + strings.Join(names, " ")
			}
			sent = append(sent, cmd, "go depth 1")
			pw.Write([]byte(cmd + "\ngo depth 1\n"))
			select {
			case <-sink.best:
			case <-time.After(60 * time.Second):
				e.r.Fail(common.Mismatch{Property: "C10", Kind: "broken-correspondence", Ops: append([]string{}, sent...), Impl: "no bestmove within 60 s", Model: "bestmove"})
				ok = false
			}
			if !ok {
				break
			}
			e.r.Evaluations++
			i := len(mock.three) - 1
			model, spec, mfen := ans[4*k+1], ans[4*k+2], ans[4*k+3]
			is := strconv.Itoa(mock.three[i])
			if mock.three[i] >= 2 {
				e.r.Nontrivial("uci:" + strings.Join(sent, ";"))
				e.r.Count(fmt.Sprintf("uci-count=%d", min(mock.three[i], 3)), 1)
			}
			switch {
			case is != spec:
				note := "Threefold() of the driver's board after the position command differs from the number of occurrences in the history the command describes"
				if mock.fens[i] != mfen {
					note += "; the board is not the one the move list leads to: " + mock.fens[i] + " instead of " + mfen
				}
				e.r.Fail(common.Mismatch{Property: "C10", Kind: "failing-input", Ops: append(append([]string{}, sent...), "Threefold() of the board handed to the search"),
					Impl: is, Model: model, Spec: spec, Note: note})
				ok = false
			case is != model || mock.fens[i] != mfen:
				e.r.Fail(common.Mismatch{Property: "C10", Kind: "broken-correspondence", Ops: append(append([]string{}, sent...), "Threefold(), FEN of the board handed to the search"),
					Impl: is + " " + mock.fens[i], Model: model + " " + mfen, Spec: spec})
				ok = false
			}
			if !ok {
				break
			}
		}
		pw.Write([]byte("quit\n"))
		select {
		case <-done:
		case <-time.After(5 * time.Second):
		}
		pw.Close()
		pr.Close()
		e.r.Count("uci-games:"+kind, 1)
		e.r.Count("uci-position-commands", len(sent)/2)
		if len(returns) > 0 {
			e.r.Count("uci-games-returning-to-the-start-position", 1)
		}
		for _, m := range ms {
			if m.Promo() != NoPiece && m.Promo() != Queen {
				e.r.Count("uci-games-with-under-promotion", 1)
				break
			}
		}
	}
}
