// Correspondence harness for C18 (static exchange evaluation) and C16 (staged move picker and the
// move-ordering histories).  It runs the real implementation (/repo, -tags verif) and the compiled
// Lean models + specs (drv_heur) on the same inputs and reports every difference.
//
//	heur -suite c18|c16|c16light -tier quick|thorough -seed N -driver drv_heur -out r.json
//
// c16light is the picker comparison of c16 on a small directed position set, registered under C01
// (the move iteration of the search contains no move twice).
package main

import (
	"flag"
	"fmt"
	"math/rand/v2"
	"sort"
	"strconv"
	"strings"

	"github.com/paulsonkoly/chess-3/board"
	"github.com/paulsonkoly/chess-3/heur"
	"github.com/paulsonkoly/chess-3/move"
	"github.com/paulsonkoly/chess-3/picker"
	"github.com/paulsonkoly/chess-3/stack"

	. "github.com/paulsonkoly/chess-3/chess"

	"verifharness/common"
	"verifharness/implutil"
	"verifharness/posgen"
)

var suite = flag.String("suite", "c18", "which suite")
var bit15 = flag.Bool("bit15", false, "c16: also try 16-bit hash-move values with the unused bit 15 set (outside the domain of C05/C16; diagnostic)")

type env struct {
	c   *common.Ctx
	r   *common.Result
	m   *common.Model
	s   *implutil.Stream
	reg int // next entry of the regression corpus
}

func main() {
	c := common.Parse()
	e := &env{c: c}
	e.m = common.StartModel(c.Driver)
	defer e.m.Close()
	e.s = implutil.NewStream(c)
	switch *suite {
	case "c18":
		e.r = common.NewResult(c, "heur/c18", "C18")
		e.c18()
	case "c16":
		e.r = common.NewResult(c, "heur/c16", "C16")
		e.c16()
	case "c16light":
		e.r = common.NewResult(c, "heur/c16light", "C01")
		e.c16light()
	default:
		panic("unknown suite " + *suite)
	}
	e.r.Write(c)
}

// load installs fen in implementation and model and asks the Lean `valid` predicate.
func (e *env) load(prop, fen string) (b *board.Board, valid bool) {
	ans := e.m.Batch([]string{"fen " + fen, "valid"})
	b, err := board.FromFEN(fen)
	if err != nil {
		if ans[0] != "err" {
			e.r.Fail(common.Mismatch{Property: prop, Kind: "broken-correspondence", Ops: []string{"fen " + fen}, Impl: "err", Model: ans[0]})
		}
		return nil, false
	}
	if ans[0] != "ok" {
		e.r.Fail(common.Mismatch{Property: prop, Kind: "broken-correspondence", Ops: []string{"fen " + fen}, Impl: "ok", Model: ans[0]})
		return nil, false
	}
	return b, len(ans[1]) == 2 && ans[1][0] == '1'
}

// ---------------------------------------------------------------------------------------------
// directed generator: batteries of both colours on one target square.

const (
	gP = posgen.P
	gN = posgen.N
	gB = posgen.B
	gR = posgen.R
	gQ = posgen.Q
	gK = posgen.K
)

func gman(black bool, k int) int8 {
	if black {
		return int8(k + 8)
	}
	return int8(k)
}

// Battery builds a position around a target square t: a victim on t (or none), sliders stacked in
// rows along the lines through t (mixed colours and kinds, so that x-ray attackers join as lines
// open, some rows interrupted by a man that does not move along the line), pawns on the capture
// diagonals (with sliders behind them), knights on the knight squares, kings next to t sometimes.
func Battery(rng *rand.Rand) (posgen.Pos, bool) {
	var p posgen.Pos
	p.Full = 1 + rng.IntN(60)
	p.Black = rng.IntN(2) == 1
	t := rng.IntN(64)
	tf, tr := t%8, t/8
	if rng.IntN(5) != 0 {
		k := []int{gP, gP, gN, gB, gR, gQ}[rng.IntN(6)]
		if k == gP && (tr == 0 || tr == 7) {
			k = gN
		}
		// mostly the victim belongs to the side not to move
		p.Men[t] = gman(p.Black != (rng.IntN(8) != 0), k)
	}
	dirs := [][2]int{{1, 0}, {-1, 0}, {0, 1}, {0, -1}, {1, 1}, {1, -1}, {-1, 1}, {-1, -1}}
	for _, d := range dirs {
		if rng.IntN(10) >= 6 {
			continue
		}
		diag := d[0] != 0 && d[1] != 0
		f, r := tf+d[0], tr+d[1]
		// pawn directly on the capture diagonal
		if diag && f >= 0 && f < 8 && r >= 1 && r < 7 && rng.IntN(3) == 0 {
			// a white pawn attacks upwards: it stands below t (d[1] == -1)
			p.Men[r*8+f] = gman(d[1] == 1, gP)
			f, r = f+d[0], r+d[1]
		}
		for gap := rng.IntN(3); gap > 0; gap-- {
			f, r = f+d[0], r+d[1]
		}
		n := 1 + rng.IntN(3)
		for i := 0; i < n && f >= 0 && f < 8 && r >= 0 && r < 8; i++ {
			var k int
			switch x := rng.IntN(10); {
			case x < 5 && diag:
				k = gB
			case x < 5:
				k = gR
			case x < 8:
				k = gQ
			case x == 8:
				k = gN // blocks the line
			default:
				if diag {
					k = gR // a slider of the wrong kind blocks too
				} else {
					k = gB
				}
			}
			if p.Men[r*8+f] == 0 {
				p.Men[r*8+f] = gman(rng.IntN(2) == 1, k)
			}
			f, r = f+d[0], r+d[1]
			if rng.IntN(4) == 0 {
				f, r = f+d[0], r+d[1]
			}
		}
	}
	for _, d := range [][2]int{{1, 2}, {2, 1}, {-1, 2}, {-2, 1}, {1, -2}, {2, -1}, {-1, -2}, {-2, -1}} {
		f, r := tf+d[0], tr+d[1]
		if f >= 0 && f < 8 && r >= 0 && r < 8 && p.Men[r*8+f] == 0 && rng.IntN(10) < 3 {
			p.Men[r*8+f] = gman(rng.IntN(2) == 1, gN)
		}
	}
	// kings
	var ks [2]int
	for side := 0; side < 2; side++ {
		var cand []int
		if rng.IntN(5) < 2 {
			for s := 0; s < 64; s++ {
				if p.Men[s] == 0 && s != t && max(iabs(s%8-tf), iabs(s/8-tr)) == 1 {
					cand = append(cand, s)
				}
			}
		}
		if len(cand) == 0 {
			for s := 0; s < 64; s++ {
				if p.Men[s] == 0 && s != t {
					cand = append(cand, s)
				}
			}
		}
		if len(cand) == 0 {
			return p, false
		}
		ks[side] = cand[rng.IntN(len(cand))]
		p.Men[ks[side]] = gman(side == 1, gK)
	}
	if max(iabs(ks[0]%8-ks[1]%8), iabs(ks[0]/8-ks[1]/8)) <= 1 {
		return p, false
	}
	// a few extra pawns elsewhere (recapturing pawns on the 7th, promotions)
	for i := rng.IntN(4); i > 0; i-- {
		s := 8 + rng.IntN(48)
		if p.Men[s] == 0 {
			p.Men[s] = gman(rng.IntN(2) == 1, gP)
		}
	}
	if p.InCheck(!p.Black) {
		p.Black = !p.Black
		if p.InCheck(!p.Black) {
			return p, false
		}
	}
	return p, true
}


// c18Regression runs first in suite c18: positions on which an earlier (seeded or found) defect of
// the exchange test showed.  1-3: a bishop uncovered LATER in the exchange, after its side has already
// recaptured with a rook/queen while it had no pawn/knight/bishop attacker (stale progress marker
// "no more bishops"); from /tmp/mutout_C18/2 (README + demo/see_latebishop_test.go).
var c18Regression = []string{
	"4r2k/4q3/8/r3p3/8/2Q2N2/1B6/6K1 w - - 0 1",                   // Nf3xe5 = 0 (Bb2 behind the queen joins last)
	"7r/1k6/8/6P1/8/7Q/3b4/2B2K2 w - - 0 1",                       // Qh3-h6 = -400 (g5 pawn capturing opens d2-h6)
	"3r4/2p4p/2N1kp2/6p1/p1p1P3/N1r1B1RP/5b2/5KQ1 w - - 2 40",     // Nc6-d4 = 0 (enemy bishop e3 capturing uncovers Bf2)
	"4r2k/4q3/8/r3p3/8/2Q2N2/1B6/6K1 b - - 0 1",                   // same placement, other side to move
	"6k1/1b6/2q2n2/8/R3P3/8/4Q3/4R2K b - - 0 1",                   // the first position with colours exchanged (Nf6xe4 = 0)
}

// Stacked builds an exchange on one target square t in which both sides have 2-5 attackers arranged
// in LINES through t (batteries): each of the 8 directions may carry a row of 1-3 men next to each
// other, the men on a diagonal being bishops/queens (or, directly at t, a pawn of the colour that
// attacks t from there, or a king), the men on a file/rank rooks/queens (or a king directly at t);
// colours are mixed inside a row, so that a man is uncovered when the man in front of it - its own
// queen/rook, or an enemy pawn/bishop/rook/queen that captures on t - leaves the line.  The order
// inside a row is biased to "valuable in front, cheap behind" (Q before B, Q before R), which makes
// the cheaper piece join only after a more valuable piece of the same side has already captured.
// With lateMinor one side X is given NO pawn, knight or directly attacking bishop (only rooks/queens
// bear on t at the start) but at least one bishop hidden behind a front man on a diagonal.  Knights on
// knight squares and kings next to t (last attackers) are added at random.
func Stacked(rng *rand.Rand, lateMinor bool) (posgen.Pos, bool) {
	var p posgen.Pos
	p.Full = 1 + rng.IntN(60)
	p.Black = rng.IntN(2) == 1
	tf, tr := 1+rng.IntN(6), 1+rng.IntN(6)
	if rng.IntN(4) == 0 {
		tf, tr = rng.IntN(8), rng.IntN(8)
	}
	t := tr*8 + tf
	xBlack := rng.IntN(2) == 1 // the side without minor attackers (lateMinor)
	if rng.IntN(6) != 0 {
		k := []int{gP, gP, gN, gB, gR, gQ}[rng.IntN(6)]
		if k == gP && (tr == 0 || tr == 7) {
			k = gN
		}
		p.Men[t] = gman(p.Black != (rng.IntN(8) != 0), k) // mostly owned by the side not to move
	}
	put := func(f, r int, m int8) bool {
		if f < 0 || f > 7 || r < 0 || r > 7 || p.Men[r*8+f] != 0 {
			return false
		}
		if int(m)&7 == gP && (r == 0 || r == 7) {
			return false
		}
		p.Men[r*8+f] = m
		return true
	}
	dirs := [][2]int{{1, 0}, {-1, 0}, {0, 1}, {0, -1}, {1, 1}, {1, -1}, {-1, 1}, {-1, -1}}
	rng.Shuffle(len(dirs), func(i, j int) { dirs[i], dirs[j] = dirs[j], dirs[i] })
	hidden := false // lateMinor: X's hidden bishop placed
	for _, d := range dirs {
		diag := d[0] != 0 && d[1] != 0
		use := rng.IntN(10) < 6
		if lateMinor && diag && !hidden {
			use = true
		}
		if !use {
			continue
		}
		f, r := tf+d[0], tr+d[1]
		if rng.IntN(8) == 0 { // a gap before the row
			f, r = f+d[0], r+d[1]
		}
		n := 1 + rng.IntN(3)
		if lateMinor && diag && !hidden {
			// front man, then X's bishop: own queen, or an enemy man that will capture along the diagonal
			var front int8
			switch rng.IntN(5) {
			case 0, 1:
				front = gman(xBlack, gQ)
			case 2:
				front = gman(!xBlack, gB)
			case 3:
				front = gman(!xBlack, gQ)
			default:
				// enemy pawn directly at t: a white pawn attacks upwards, i.e. stands below t (d[1] == -1)
				if (d[1] == -1) == xBlack && f == tf+d[0] {
					front = gman(!xBlack, gP)
				} else {
					front = gman(xBlack, gQ)
				}
			}
			if put(f, r, front) && put(f+d[0], r+d[1], gman(xBlack, gB)) {
				hidden = true
				if rng.IntN(3) == 0 { // something further behind
					put(f+2*d[0], r+2*d[1], gman(rng.IntN(2) == 1, []int{gB, gQ}[rng.IntN(2)]))
				}
			}
			continue
		}
		prevBlack := rng.IntN(2) == 1
		var row []int8
		for i := 0; i < n; i++ {
			black := prevBlack
			if rng.IntN(2) == 0 {
				black = !black
			}
			prevBlack = black
			var k int
			x := rng.IntN(12)
			switch {
			case i == 0 && x == 0:
				k = gK
			case i == 0 && diag && x <= 2:
				k = gP
			case x <= 6 && diag:
				k = gB
			case x <= 6:
				k = gR
			default:
				k = gQ
			}
			if lateMinor && black == xBlack && (k == gP || (k == gB && i == 0)) {
				k = gQ // X has no pawn and no directly attacking bishop
			}
			if k == gP {
				// the pawn must attack t from this square: white from below, black from above
				black = d[1] == 1
				if lateMinor && black == xBlack {
					k = gQ
				}
			}
			row = append(row, gman(black, k))
		}
		if rng.IntN(2) == 0 {
			// valuable in front, cheap behind (kings and pawns stay in the first slot)
			for i := 1; i < len(row); i++ {
				for j := i; j > 0 && int(row[j-1])&7 < int(row[j])&7 && int(row[j-1])&7 != gP && int(row[j-1])&7 != gK; j-- {
					row[j-1], row[j] = row[j], row[j-1]
				}
			}
		}
		kings := 0
		for _, m := range row {
			if int(m)&7 == gK {
				kings++
			}
		}
		for _, m := range row {
			if int(m)&7 == gK {
				continue // kings are placed below
			}
			put(f, r, m)
			f, r = f+d[0], r+d[1]
			if rng.IntN(6) == 0 {
				f, r = f+d[0], r+d[1]
			}
		}
	}
	if lateMinor && !hidden {
		return p, false
	}
	for _, d := range [][2]int{{1, 2}, {2, 1}, {-1, 2}, {-2, 1}, {1, -2}, {2, -1}, {-1, -2}, {-2, -1}} {
		if rng.IntN(10) < 2 {
			black := rng.IntN(2) == 1
			if lateMinor && black == xBlack {
				black = !black
			}
			put(tf+d[0], tr+d[1], gman(black, gN))
		}
	}
	// kings: next to t (last attackers) or far away
	var ks [2]int
	for side := 0; side < 2; side++ {
		var cand []int
		near := rng.IntN(5) < 2
		for s := 0; s < 64; s++ {
			if p.Men[s] != 0 || s == t {
				continue
			}
			dist := max(iabs(s%8-tf), iabs(s/8-tr))
			if (near && dist == 1) || (!near && dist >= 2) {
				cand = append(cand, s)
			}
		}
		if len(cand) == 0 {
			return p, false
		}
		// a few tries for a square on which the king is not in check
		ok := false
		for try := 0; try < 12 && !ok; try++ {
			s := cand[rng.IntN(len(cand))]
			if side == 1 && max(iabs(s%8-ks[0]%8), iabs(s/8-ks[0]/8)) <= 1 {
				continue
			}
			p.Men[s] = gman(side == 1, gK)
			if p.Attacked(side == 0, s) && try < 11 {
				p.Men[s] = 0
				continue
			}
			ks[side] = s
			ok = true
		}
		if !ok {
			return p, false
		}
	}
	if p.InCheck(!p.Black) {
		p.Black = !p.Black
		if p.InCheck(!p.Black) {
			return p, false
		}
	}
	if p.InCheck(p.Black) && rng.IntN(4) != 0 {
		return p, false // mostly positions in which the captures on t are legal
	}
	return p, true
}

func iabs(x int) int {
	if x < 0 {
		return -x
	}
	return x
}

// ---------------------------------------------------------------------------------------------
// C18

// thresholds: every multiple of 100 from -1000 to 1800 (all achievable balances, incl. promotion
// gains) and its successor, plus the ends of the theorem's domain |thr| <= 2*Q = 1800.
func thresholds() []int {
	var out []int
	out = append(out, -1800, -1799, -1301)
	for k := -10; k <= 17; k++ {
		out = append(out, 100*k, 100*k+1)
	}
	out = append(out, 1799, 1800)
	sort.Ints(out)
	return out
}

func safeSEE(b *board.Board, m move.Move, thr Score) (res byte) {
	defer func() {
		if r := recover(); r != nil {
			res = 'P'
		}
	}()
	if heur.SEE(b, m, thr) {
		return '1'
	}
	return '0'
}

func (e *env) nextC18() (fen, src string) {
	rng := e.c.Rng
	if e.reg < len(c18Regression) {
		e.reg++
		return c18Regression[e.reg-1], "regression"
	}
	switch rng.IntN(10) {
	case 0, 1:
		for {
			if p, ok := Battery(rng); ok {
				return p.FEN(), "battery"
			}
		}
	case 2, 3, 4:
		for {
			if p, ok := Stacked(rng, false); ok {
				return p.FEN(), "stacked"
			}
		}
	case 6, 7:
		for {
			if p, ok := Stacked(rng, true); ok {
				return p.FEN(), "stacked-lateminor"
			}
		}
	case 5:
		// en-passant capture available: a directed case after the double push
		for try := 0; try < 50; try++ {
			ec, ok := posgen.EPDirected(rng)
			if !ok {
				continue
			}
			b, err := board.FromFEN(ec.Pos.FEN())
			if err != nil {
				continue
			}
			m := move.From(Square(ec.From)) | move.To(Square(ec.To))
			legal := false
			for _, l := range implutil.Legal(b) {
				legal = legal || l == m
			}
			if !legal {
				continue
			}
			b.MakeMove(m)
			if b.EnPassant != 0 {
				return b.FEN(), "epdirected-post"
			}
		}
		return e.s.Next()
	default:
		return e.s.Next()
	}
}

func (e *env) c18() {
	n := e.c.Pick(4000, 120000)
	thrs := thresholds()
	strs := make([]string, len(thrs))
	for i, t := range thrs {
		strs[i] = strconv.Itoa(t)
	}
	thrArg := strings.Join(strs, ",")
	e.r.Rule = fmt.Sprintf("valid positions (a regression corpus first; directed generators: `battery` = sliders scattered on the lines through one target square, `stacked` = exchanges with 2-5 attackers per side arranged in rows on the lines through the target (B behind Q, Q behind B, R behind R/Q, B/Q behind a capturing pawn, mixed colours inside a row, valuable-in-front bias, kings next to the target as last attackers), `stacked-lateminor` = the same with one side having no pawn/knight/directly attacking bishop but a bishop hidden behind its own queen or an enemy pawn/bishop/queen; en-passant cases after the double push, the shared stream: roots/play-outs/sparse..dense/promotion-heavy) x every legal move x %d thresholds (every multiple of 100 in [-1000,1700] and its successor, the domain ends +-1800): heur.SEE vs Lean Model.See.see vs decide(thr <= Spec.seeValue) (impl vs spec differs = failing-input), the model's incrementally maintained capture sequence vs the spec's from-scratch one (the two sides of lemma attackers_incremental), monotonicity in the threshold checked in Go; evaluations = (move, threshold) pairs; non-trivial = (FEN, move) whose exchange has >= 1 recapturer, distinct by (FEN, move)", len(thrs))
	for i := 0; i < n; i++ {
		fen, src := e.nextC18()
		b, valid := e.load("C18", fen)
		if b == nil || !valid {
			e.r.Count("skipped-invalid:"+src, 1)
			continue
		}
		legal := implutil.Legal(b)
		if len(legal) == 0 {
			e.r.Count("no-legal-move", 1)
			continue
		}
		e.r.Count("pos:"+src, 1)
		reqs := make([]string, len(legal))
		for j, m := range legal {
			reqs[j] = fmt.Sprintf("see %d %s", m, thrArg)
		}
		ans := e.m.Batch(reqs)
		moveHits := 0
		fail := func(mm common.Mismatch) {
			e.r.Fail(mm)
			moveHits++
		}
		for j, m := range legal {
			ops := []string{"fen " + fen, reqs[j]}
			f := strings.Fields(ans[j])
			if len(f) != 4 || len(f[0]) != len(thrs) {
				fail(common.Mismatch{Property: "C18", Kind: "broken-correspondence", Ops: ops, Model: ans[j], Note: "malformed driver answer"})
				continue
			}
			specVal, _ := strconv.Atoi(f[1])
			impl := make([]byte, len(thrs))
			spec := make([]byte, len(thrs))
			for k, t := range thrs {
				impl[k] = safeSEE(b, m, Score(t))
				spec[k] = '0'
				if t <= specVal {
					spec[k] = '1'
				}
			}
			e.r.Evaluations += len(thrs)
			// monotone in Go: thresholds ascend, so the answers must be 1…10…0
			if strings.Contains(string(impl), "01") || strings.Contains(string(impl), "P") {
				fail(common.Mismatch{Property: "C18", Kind: "failing-input", Ops: ops, Impl: string(impl), Spec: string(spec),
					Note: "SEE is not monotone in the threshold (or panicked)"})
			}
			if string(impl) != string(spec) {
				fail(common.Mismatch{Property: "C18", Kind: "failing-input", Ops: ops, Impl: string(impl), Model: f[0], Spec: string(spec),
					Note: fmt.Sprintf("SEE differs from thr <= minimax value %d; capture sequence model %s spec %s", specVal, f[2], f[3])})
			} else if string(impl) != f[0] {
				fail(common.Mismatch{Property: "C18", Kind: "broken-correspondence", Ops: ops, Impl: string(impl), Model: f[0], Spec: string(spec)})
			} else if f[2] != f[3] {
				fail(common.Mismatch{Property: "C18", Kind: "broken-correspondence", Ops: ops, Impl: string(impl), Model: f[2], Spec: f[3],
					Note: "lemma attackers_incremental contradicted on the model: incremental capture sequence differs from recomputation (answers agree on the tested thresholds)"})
			}
			// histogram / non-trivial
			ncaps := 0
			if f[3] != "-" {
				ncaps = len(strings.Split(f[3], ","))
			}
			if ncaps > 0 {
				e.r.Nontrivial(fen + " " + strconv.Itoa(int(m)))
			}
			e.r.Count(fmt.Sprintf("recapturers=%d", min(ncaps, 8)), 1)
			if strings.Contains(f[3], "k1") {
				e.r.Count("king-captures", 1)
			}
			if strings.Contains(f[3], "k0") {
				e.r.Count("king-refused", 1)
			}
			if b.IsEnPassant(m) {
				e.r.Count("en-passant-move", 1)
			}
			if m.Promo() != NoPiece {
				e.r.Count("promotion-move", 1)
			}
			e.r.Count(fmt.Sprintf("value=%d", specVal), 1)
			if i < 40 && j == 0 {
				e.r.Sample(map[string]any{"fen": fen, "move": m.String(), "value": specVal, "sequence": f[3], "answers": string(impl)}, 5)
			}
		}
		if moveHits > 0 {
			e.r.Count("hit-pos:"+src, 1)
			e.r.Count("hit-moves:"+src, moveHits)
		}
	}
}

// ---------------------------------------------------------------------------------------------
// C16

type wm = move.Weighted

func wmsStr(ws []wm) string {
	parts := make([]string, len(ws))
	for i, w := range ws {
		parts[i] = fmt.Sprintf("%d:%d", w.Move, w.Weight)
	}
	return strings.Join(parts, ",")
}

type stackEntry struct {
	piece, to int
	score     int
}

func (e *env) randomStack() []stackEntry {
	rng := e.c.Rng
	n := []int{0, 1, 2, 2, 3, 5}[rng.IntN(6)]
	out := make([]stackEntry, n)
	for i := range out {
		out[i] = stackEntry{1 + rng.IntN(6), rng.IntN(64), rng.IntN(2001) - 1000}
	}
	return out
}

// stackLine renders the stack TOP FIRST.
func stackLine(st []stackEntry) string {
	if len(st) == 0 {
		return "stack -"
	}
	parts := make([]string, len(st))
	for i := range st {
		s := st[len(st)-1-i]
		parts[i] = fmt.Sprintf("%d:%d:%d", s.piece, s.to, s.score)
	}
	return "stack " + strings.Join(parts, ",")
}

func goStack(st []stackEntry) *stack.Stack[heur.StackMove] {
	hs := stack.New[heur.StackMove]()
	for _, s := range st {
		hs.Push(heur.StackMove{Piece: Piece(s.piece), To: Square(s.to), Score: Score(s.score)})
	}
	return hs
}

type pickResult struct {
	seq      []wm // (move, weight) at the time of each yield
	final    []wm // YieldedMoves() after exhaustion: what FailHigh would be handed
	panicked bool
	panicMsg string // the recovered panic value; len(seq) is the number of yields before it
}

func runPicker(b *board.Board, hm move.Move, ms *move.Store, mr *heur.MoveRanker, hs *stack.Stack[heur.StackMove]) (res pickResult) {
	defer func() {
		if r := recover(); r != nil {
			res.panicked = true
			res.panicMsg = fmt.Sprint(r)
		}
	}()
	ms.Clear()
	p := picker.New(b, hm, ms, mr, hs)
	ms.Push()
	for p.Next() {
		res.seq = append(res.seq, *p.Move())
		if len(res.seq) > 1000 {
			break
		}
	}
	res.final = append(res.final, p.YieldedMoves()...)
	ms.Pop()
	return
}

// pickerVerdict checks the property directly on one drained picker run with hash move hm: the yielded
// multiset is the generated move list (all / gen), nothing twice, nothing foreign, nothing missing; the
// hash move comes first (with the HashMove weight) iff it is pseudo-legal; every weight lies in the band
// of its stage; no panic.  bad == "" means the run satisfies it.  goodCaps / badCaps count the noisy
// moves yielded with a good / bad capture weight.
func pickerVerdict(b *board.Board, hm move.Move, res pickResult, all []move.Move, gen map[move.Move]bool) (bad string, ipl bool, goodCaps, badCaps int) {
	ipl = b.IsPseudoLegal(hm)
	seen := map[move.Move]int{}
	for _, w := range res.seq {
		seen[w.Move]++
	}
	for mv, c := range seen {
		if c > 1 {
			bad = fmt.Sprintf("move %d (%s) yielded %d times", mv, mv, c)
		}
		if !gen[mv] {
			bad = fmt.Sprintf("move %d (%s) yielded but not generated", mv, mv)
		}
	}
	for _, mv := range all {
		if seen[mv] == 0 {
			bad = fmt.Sprintf("generated move %d (%s) never yielded", mv, mv)
		}
	}
	if ipl != (len(res.seq) > 0 && res.seq[0].Move == hm && res.seq[0].Weight == heur.HashMove) {
		// a generated move can come first by rank only with a weight below HashMove
		bad = fmt.Sprintf("hash move %d pseudo-legal=%v but first yielded entry is %v", hm, ipl, firstOf(res.seq))
	}
	for ix, w := range res.seq {
		if ix == 0 && ipl {
			continue
		}
		isNoisy := b.SquaresToPiece[b.CaptureSq(w.Move)] != NoPiece || w.Move.Promo() != NoPiece
		switch {
		case isNoisy && w.Weight >= heur.Captures && w.Weight < heur.Captures+heur.CaptureRange:
			goodCaps++
		case isNoisy && w.Weight >= -heur.Captures-heur.CaptureRange && w.Weight < -heur.Captures:
			badCaps++
		case !isNoisy && w.Weight >= -3*heur.MaxHistory && w.Weight <= 3*heur.MaxHistory:
		default:
			bad = fmt.Sprintf("weight %d of move %d (%s) outside its band", w.Weight, w.Move, w.Move)
		}
	}
	if res.panicked {
		bad = fmt.Sprintf("picker panicked after %d yields (of %d generated moves): %s", len(res.seq), len(all), res.panicMsg)
	}
	return
}

func (e *env) c16() {
	n := e.c.Pick(600, 30000)
	nRandom := e.c.Pick(200, 30)
	rng := e.c.Rng
	e.r.Rule = "valid positions (the shared stream plus, evenly interleaved, 700 (quick) / 12000 (thorough) stage-poor positions of posgen.StagePoor: exactly 0..5, mostly 0..2, quiet and noisy moves for either colour - locked pawn rams with and without mutual capture pairs, boxed kings, sparse boards, king+rook at home with the castling set, undefended / pawn-defended victims, en-passant pairs; histogram class[...] / run[...] = how many positions / runs have a stage of size <= 2 and what the hash move leaves in its stage; these get 24 / 8 random encodings; and 150 (quick) / 3000 (thorough) stage-rich positions of posgen.StageRich: 100..218 pseudo-legal moves for either colour within the promotion bound - exact totals 127/128/129, a quiet stage of 127/128/129 entries, a noisy stage of 63/64/65 and of >= 70 entries (captures + promotions), spread 100..190, perturbations of the 218-move positions; histogram class[...]:moves=.. / total>=128 / noisy>=64 / quiet>=64 / quiet>=128; for these only a sample of generated moves is tried as hash move: first and last entry of each stage, 8 random ones, and 12 random encodings) x {no hash move, every generated move, 200 (quick) / 30 (thorough) random 15-bit encodings (foreign moves of other positions, promotion flags on non-promotions, from-squares without an own man, near misses of generated moves)} x history states driven through the exported API (NewMoveRanker/FailHigh/RankNoisy/RankQuiet, stack.Stack) by random FailHigh scripts and by saturating ones (>= 5000 identical updates with extreme depths to the same cells); the sequence (move, weight) yielded by the real picker.Picker (and for every 8th run exhaustion + the final YieldedMoves() buffer) vs the Lean picker model whose ranker replays the same script; checked in Go directly: yielded multiset = generated pseudo-legal moves, no duplicates, hash move first iff IsPseudoLegal, every noisy weight inside the good/bad capture band and every quiet weight within +-3*MaxHistory; evaluations = picker runs; non-trivial = run whose hash move is pseudo-legal (stage 1 + sentinel path) or whose position has both good and bad captures, distinct by (FEN, hash move, history script number)"
	// positions whose stages are degenerate (0/1/2 quiet moves, 0/1/2 noisy moves): spread evenly between
	// the positions of the shared stream so that they meet every kind of history state
	nPoor := e.c.Pick(700, 12000)
	nRandomPoor := e.c.Pick(24, 8)
	// positions at the other extreme (100..218 pseudo-legal moves, totals 127/128/129, a quiet stage that
	// alone crosses 128 entries, a noisy stage that alone crosses 64): only a sample of the generated moves
	// is tried as hash move there (first / last of each stage, 8 random ones) plus 12 random encodings
	nRich := e.c.Pick(150, 3000)
	nRandomRich := 12
	total := n + nPoor + nRich
	sched := make([]byte, total) // 0 stream, 1 stage-poor, 2 stage-rich
	for k := 0; k < nPoor; k++ {
		sched[k*total/nPoor] = 1
	}
	for k := 0; k < nRich; k++ {
		j := k * total / nRich
		for sched[j%total] != 0 {
			j++
		}
		sched[j%total] = 2
	}
	mr := heur.NewMoveRanker()
	ms := move.NewStore()
	script := 0
	poorSeen, richSeen := 0, 0
	for i := 0; i < total; i++ {
		var fen, src string
		nRnd := nRandom
		wantQ, wantN := -1, -1
		var richTg *posgen.RichTarget
		if sched[i] == 2 {
			if richSeen < len(posgen.StageRichCorpus) {
				fen, src = posgen.StageRichCorpus[richSeen], "stagerich-corpus"
			} else {
				for {
					if p, tg, ok := posgen.StageRich(rng); ok {
						fen, src = p.FEN(), "stagerich-"+tg.Mode
						richTg = &tg
						break
					}
					e.r.Count("stagerich-draw-failed", 1)
				}
			}
			richSeen++
			nRnd = nRandomRich
		} else if sched[i] == 1 {
			if poorSeen < len(posgen.StagePoorCorpus) {
				fen, src = posgen.StagePoorCorpus[poorSeen], "stagepoor-corpus"
			} else {
				for {
					if p, tg, ok := posgen.StagePoor(rng); ok {
						fen, src = p.FEN(), "stagepoor-"+tg.Theme
						wantQ, wantN = tg.Quiet, tg.Noisy
						break
					}
					e.r.Count("stagepoor-draw-failed", 1)
				}
			}
			poorSeen++
			nRnd = nRandomPoor
		} else {
			fen, src = e.s.Next()
		}
		grp := "stream"
		if strings.HasPrefix(src, "stagepoor") {
			grp = "stagepoor"
		}
		if strings.HasPrefix(src, "stagerich") {
			grp = "stagerich"
		}
		b, valid := e.load("C16", fen)
		if b == nil || !valid {
			e.r.Count("skipped-invalid:"+src, 1)
			continue
		}
		e.r.Count("pos:"+src, 1)
		noisy, quiet := implutil.Gen(b)
		if wantQ >= 0 {
			// the generator steers with its own mailbox move count; how often the real generator agrees
			if len(quiet) == wantQ && len(noisy) == wantN {
				e.r.Count("stagepoor-target-reached", 1)
			} else {
				e.r.Count("stagepoor-target-missed", 1)
			}
		}
		if richTg != nil {
			if richTg.Miss(len(quiet), len(noisy)) == 0 {
				e.r.Count("stagerich-target-reached", 1)
			} else {
				e.r.Count("stagerich-target-missed", 1)
			}
		}
		// move-count classes (all sources): the byte boundary of the total, long single stages
		if nAll := len(noisy) + len(quiet); nAll >= 100 || grp == "stagerich" {
			bucket := "200..218"
			switch {
			case nAll < 100:
				bucket = "<100"
			case nAll < 120:
				bucket = "100..119"
			case nAll < 127:
				bucket = "120..126"
			case nAll <= 129:
				bucket = strconv.Itoa(nAll)
			case nAll < 160:
				bucket = "130..159"
			case nAll < 200:
				bucket = "160..199"
			}
			e.r.Count(fmt.Sprintf("class[%s]:moves=%s", grp, bucket), 1)
			if nAll >= 128 {
				e.r.Count(fmt.Sprintf("class[%s]:total>=128", grp), 1)
			}
		}
		if len(noisy) >= 64 {
			e.r.Count(fmt.Sprintf("class[%s]:noisy>=64", grp), 1)
			if len(noisy)+len(quiet) >= 128 {
				e.r.Count(fmt.Sprintf("class[%s]:noisy>=64,total>=128", grp), 1)
			}
		}
		if len(quiet) >= 64 {
			e.r.Count(fmt.Sprintf("class[%s]:quiet>=64", grp), 1)
		}
		if len(quiet) >= 128 {
			e.r.Count(fmt.Sprintf("class[%s]:quiet>=128", grp), 1)
		}
		if len(quiet) >= 127 && len(quiet) <= 129 {
			e.r.Count(fmt.Sprintf("class[%s]:quiet=%d", grp, len(quiet)), 1)
		}
		if len(noisy) >= 63 && len(noisy) <= 65 {
			e.r.Count(fmt.Sprintf("class[%s]:noisy=%d", grp, len(noisy)), 1)
		}
		all := append(append([]move.Move{}, noisy...), quiet...)
		gen := map[move.Move]bool{}
		for _, m := range all {
			gen[m] = true
		}
		var reqs []string
		// history state: sometimes start afresh, then FailHigh scripts on this position
		if rng.IntN(25) == 0 {
			if rng.IntN(2) == 0 {
				mr = heur.NewMoveRanker()
				reqs = append(reqs, "new")
			} else {
				mr.Clear()
				reqs = append(reqs, "clear")
			}
			e.r.Count("ranker-reset", 1)
		}
		st := e.randomStack()
		hs := goStack(st)
		reqs = append(reqs, stackLine(st))
		nfh := rng.IntN(4)
		saturate := rng.IntN(12) == 0
		if saturate {
			nfh = 1 + rng.IntN(2)
		}
		for k := 0; k < nfh && len(all) > 0; k++ {
			// the searched prefix: a random selection of generated moves, the last one failed high
			cnt := 1 + rng.IntN(min(8, len(all)))
			ws := make([]wm, cnt)
			for j := range ws {
				var w int
				switch rng.IntN(6) {
				case 0:
					w = -10000 // -Inf for upper bounds
				case 1:
					w = []int{-32768, 32767, -256, 256, -257, 257, 0}[rng.IntN(7)]
				default:
					w = rng.IntN(4001) - 2000
				}
				ws[j] = wm{Move: all[rng.IntN(len(all))], Weight: Score(w)}
			}
			d := 1 + rng.IntN(20)
			reps := 1
			if rng.IntN(5) == 0 {
				d = rng.IntN(256) - 128
			}
			if saturate {
				d = []int{127, 100, -128, 60, 52}[rng.IntN(5)]
				reps = 5000 + rng.IntN(2000)
				e.r.Count("saturating-scripts", 1)
			}
			script++
			panicked := false
			func() {
				defer func() {
					if r := recover(); r != nil {
						panicked = true
					}
				}()
				for x := 0; x < reps; x++ {
					mr.FailHigh(Depth(d), b, ws, hs)
				}
			}()
			line := fmt.Sprintf("fh %d %d %s", reps, d, wmsStr(ws))
			if panicked {
				e.r.Fail(common.Mismatch{Property: "C16", Kind: "failing-input", Ops: []string{"fen " + fen, stackLine(st), line}, Impl: "panic", Note: "FailHigh panicked"})
				mr = heur.NewMoveRanker()
				reqs = append(reqs, "new")
				continue
			}
			reqs = append(reqs, line)
			e.r.Count("failhigh-calls", reps)
		}
		// stage sizes of this position under the histories it is picked with: the good-capture stage holds
		// the noisy moves ranked above 0, the rest stage the losing captures and the quiet moves
		stageOf := map[move.Move]int{}
		nGood, nRest := 0, len(quiet)
		for _, mv := range noisy {
			if mr.RankNoisy(mv, b, hs) > 0 {
				nGood++
				stageOf[mv] = 1
			} else {
				nRest++
				stageOf[mv] = 2
			}
		}
		for _, mv := range quiet {
			stageOf[mv] = 2
		}
		small := func(x int) string {
			if x > 2 {
				return "3+"
			}
			return strconv.Itoa(x)
		}
		if len(quiet) <= 2 || len(noisy) <= 2 {
			e.r.Count(fmt.Sprintf("class[%s]:quiet=%s,noisy=%s", grp, small(len(quiet)), small(len(noisy))), 1)
		}
		if nGood <= 2 || nRest <= 2 {
			e.r.Count(fmt.Sprintf("class[%s]:goodstage=%s,reststage=%s", grp, small(nGood), small(nRest)), 1)
			e.r.Count(fmt.Sprintf("class[%s]:some-stage<=2", grp), 1)
		}
		if len(noisy) > 0 && nGood == len(noisy) {
			e.r.Count(fmt.Sprintf("class[%s]:only-good-captures", grp), 1)
		}
		if len(noisy) > 0 && nGood == 0 {
			e.r.Count(fmt.Sprintf("class[%s]:only-losing-captures", grp), 1)
		}
		if len(quiet) == 1 {
			mv := quiet[0]
			what := "piece-move"
			d := int(mv.To()) - int(mv.From())
			switch b.SquaresToPiece[mv.From()] {
			case Pawn:
				what = "pawn-push"
				if d == 16 || d == -16 {
					what = "pawn-double-push"
				}
			case King:
				what = "king-step"
			}
			e.r.Count(fmt.Sprintf("class[%s]:only-quiet-is-%s", grp, what), 1)
		}
		for _, mv := range quiet {
			d := int(mv.To()) - int(mv.From())
			if b.SquaresToPiece[mv.From()] == King && (d == 2 || d == -2) {
				e.r.Count(fmt.Sprintf("class[%s]:castling-generated", grp), 1)
				if len(quiet) <= 7 {
					e.r.Count(fmt.Sprintf("class[%s]:castling-among<=7-quiets", grp), 1)
				}
			}
		}
		// hash move candidates
		hms := []move.Move{0}
		if grp == "stagerich" && len(all) > 0 {
			// a sample: the first and last entry of each stage's frame, 8 random generated moves
			hms = append(hms, all[0], all[len(all)-1])
			if len(noisy) > 0 {
				hms = append(hms, noisy[len(noisy)-1])
			}
			if len(quiet) > 0 {
				hms = append(hms, quiet[0])
			}
			for k := 0; k < 8; k++ {
				hms = append(hms, all[rng.IntN(len(all))])
			}
		} else {
			hms = append(hms, all...)
		}
		for k := 0; k < nRnd; k++ {
			var hm move.Move
			switch rng.IntN(6) {
			case 0: // a generated move with a promotion flag added / changed
				if len(all) > 0 {
					hm = all[rng.IntN(len(all))]&0x0fff | move.Move(rng.IntN(8))<<12
				}
			case 1: // near miss: same origin, random destination
				if len(all) > 0 {
					hm = all[rng.IntN(len(all))]&0x7fc0 | move.Move(rng.IntN(64))
				}
			case 2: // same destination, random origin
				if len(all) > 0 {
					hm = all[rng.IntN(len(all))]&0x703f | move.Move(rng.IntN(64))<<6
				}
			default:
				hm = move.Move(rng.IntN(1 << 15))
			}
			hms = append(hms, hm)
		}
		if *bit15 {
			for k := 0; k < 10 && len(all) > 0; k++ {
				hms = append(hms, all[rng.IntN(len(all))]|0x8000)
			}
		}
		prefix := len(reqs)
		for k, hm := range hms {
			// every 8th run also asks whether the model is exhausted after the last yield
			if k%8 == 0 {
				reqs = append(reqs, "pickx "+strconv.Itoa(int(hm)))
			} else {
				reqs = append(reqs, "pick "+strconv.Itoa(int(hm)))
			}
		}
		ans := e.m.Batch(reqs)
		setup := append([]string{"fen " + fen}, reqs[:prefix]...)
		for k, hm := range hms {
			res := runPicker(b, hm, ms, &mr, hs)
			e.r.Evaluations++
			ops := append(append([]string{}, setup...), reqs[prefix+k])
			if len(setup) > 12 {
				ops = []string{"fen " + fen, fmt.Sprintf("(history script #%d, %d setup ops omitted)", script, len(setup)-1), reqs[prefix+k]}
			}
			impl := wmsStr(res.seq)
			if k%8 == 0 {
				impl += "|1|" + wmsStr(res.final)
			}
			if res.panicked {
				impl = "panic"
			}
			// the property, directly
			bad, ipl, goodCaps, badCaps := pickerVerdict(b, hm, res, all, gen)
			if st := stageOf[hm]; ipl && st != 0 {
				// what is left in the hash move's own stage once it is out
				left := nGood - 1
				name := "goodstage"
				if st == 2 {
					left, name = nRest-1, "reststage"
				}
				if left <= 2 {
					e.r.Count(fmt.Sprintf("run[%s]:hash-leaves-%d-in-%s", grp, left, name), 1)
				}
				if nGood+nRest == 1 {
					e.r.Count(fmt.Sprintf("run[%s]:hash-is-the-only-move", grp), 1)
				}
			}
			if ipl {
				e.r.Count("hash-pseudo-legal", 1)
			} else if hm != 0 {
				e.r.Count("hash-rejected", 1)
			}
			if ipl || (goodCaps > 0 && badCaps > 0) {
				e.r.Nontrivial(fmt.Sprintf("%s %d #%d", fen, hm, script))
			}
			if goodCaps > 0 && badCaps > 0 {
				e.r.Count("good+bad-captures", 1)
			}
			if bad != "" {
				e.r.Fail(common.Mismatch{Property: "C16", Kind: "failing-input", Ops: ops, Impl: impl, Model: ans[prefix+k],
					Spec: implutil.MovesStr(all), Note: bad})
			} else if impl != ans[prefix+k] {
				e.r.Fail(common.Mismatch{Property: "C16", Kind: "broken-correspondence", Ops: ops, Impl: impl, Model: ans[prefix+k]})
			}
			if i < 3 && k == 1 {
				e.r.Sample(map[string]any{"fen": fen, "hash": hm.String(), "yielded": impl}, 3)
			}
		}
		// spot check of the rank functions on all generated moves (locates a table divergence)
		if i%10 == 0 && len(all) > 0 {
			var rq []string
			for _, mv := range all {
				rq = append(rq, "rank "+strconv.Itoa(int(mv)))
			}
			ra := e.m.Batch(rq)
			for k, mv := range all {
				impl := fmt.Sprintf("%d %d", mr.RankNoisy(mv, b, hs), mr.RankQuiet(mv, b, hs))
				if impl != ra[k] {
					e.r.Fail(common.Mismatch{Property: "C16", Kind: "broken-correspondence", Ops: []string{"fen " + fen, fmt.Sprintf("(history script #%d)", script), rq[k]},
						Impl: impl, Model: ra[k], Note: "RankNoisy/RankQuiet differ"})
				}
			}
		}
	}
}

func firstOf(ws []wm) string {
	if len(ws) == 0 {
		return "none"
	}
	return fmt.Sprintf("%d:%d", ws[0].Move, ws[0].Weight)
}

// ---------------------------------------------------------------------------------------------
// C01 (light): the move iteration the search uses (picker.Picker) contains every generated move once.

// promoPos builds a position whose side to move has pawns on its seventh rank with push promotions
// (vacant square ahead), capture promotions (enemy pieces on the last rank beside the file) and blocked
// pushes; the other side has a pawn about to promote sometimes.  White frame, mirrored for Black.
func promoPos(rng *rand.Rand) (posgen.Pos, bool) {
	var p posgen.Pos
	p.Full = 1 + rng.IntN(60)
	p.Half = 0
	put := func(s int, m int8) bool {
		if p.Men[s] != 0 {
			return false
		}
		p.Men[s] = m
		return true
	}
	np := 1 + rng.IntN(4)
	for _, f := range rng.Perm(8)[:np] {
		put(48+f, gP)
		// the square ahead: vacant mostly, else a blocker of either colour
		switch rng.IntN(6) {
		case 0:
			put(56+f, gman(true, gN+rng.IntN(4)))
		case 1:
			put(56+f, gman(false, gN+rng.IntN(3)))
		}
		for _, df := range []int{-1, 1} {
			if f+df >= 0 && f+df < 8 && rng.IntN(2) == 0 {
				put(56+f+df, gman(true, gN+rng.IntN(4)))
			}
		}
	}
	if rng.IntN(3) == 0 {
		put(8+rng.IntN(8), gman(true, gP))
	}
	if rng.IntN(3) == 0 {
		put(16+rng.IntN(32), gman(rng.IntN(2) == 0, gN+rng.IntN(4)))
	}
	var free []int
	for s := 0; s < 64; s++ {
		if p.Men[s] == 0 {
			free = append(free, s)
		}
	}
	wk := free[rng.IntN(len(free))]
	bk := free[rng.IntN(len(free))]
	if max(iabs(wk%8-bk%8), iabs(wk/8-bk/8)) <= 1 {
		return p, false
	}
	p.Men[wk], p.Men[bk] = gK, gman(true, gK)
	if p.InCheck(true) {
		return p, false
	}
	if rng.IntN(2) == 0 {
		p = p.Mirror()
	}
	return p, true
}

type lightPos struct{ fen, src string }

// runPickerAsSearch drains the picker the way search.alphaBeta does: after each yielded move it writes
// into the Weight field of the yielded entry (the search stores the move's value there, or -Inf for an
// upper bound, for MoveRanker.FailHigh to read later) before it asks for the next move.  seq holds
// the entries as they were yielded.
func runPickerAsSearch(b *board.Board, hm move.Move, ms *move.Store, mr *heur.MoveRanker, hs *stack.Stack[heur.StackMove]) (res pickResult) {
	defer func() {
		if r := recover(); r != nil {
			res.panicked = true
			res.panicMsg = fmt.Sprint(r)
		}
	}()
	ms.Clear()
	p := picker.New(b, hm, ms, mr, hs)
	ms.Push()
	for p.Next() {
		w := p.Move()
		res.seq = append(res.seq, *w)
		if len(res.seq)%2 == 1 {
			w.Weight = -Inf
		} else {
			w.Weight = Score(len(res.seq)*37%4001 - 2000)
		}
		if len(res.seq) > 1000 {
			break
		}
	}
	ms.Pop()
	return
}

// afterPush plays the double push of a pre-push en-passant case on the real board and returns the FEN
// of the position after it if the engine recorded a target there (a legal en-passant capture exists).
func (e *env) afterPush(ec posgen.EPCase) (string, bool) {
	b, err := board.FromFEN(ec.Pos.FEN())
	if err != nil || b.InvalidPieceCount() {
		return "", false
	}
	push := move.From(Square(ec.From)) | move.To(Square(ec.To))
	found := false
	for _, m := range implutil.Legal(b) {
		if m == push {
			found = true
		}
	}
	if !found {
		return "", false
	}
	b.MakeMove(push)
	if b.EnPassant == 0 {
		return "", false
	}
	return b.FEN(), true
}

func (e *env) c16light() {
	rng := e.c.Rng
	e.r.Rule = "the search's move iteration (picker.Picker drained as search.alphaBeta does) on a small DIRECTED position set: posgen.EPTargetSweep (every en-passant target square x capturer configuration, bare and with filler), positions after the double push of EPGeometry / EPWrap cases in which the engine recorded the target (discovered checks, pinned capturers, two capturers, edge files), posgen.CastlePathSweep (every right x path square x occupant kind, and the vacant paths), promotion positions (1-4 pawns on the seventh / second rank with push promotions, capture promotions to both sides and blocked pushes, both colours), the stage-poor and stage-rich corpora (0/1/2 moves per stage; 218 moves), the start position, a few test-suite roots and constructive samples; x {no hash move, EVERY generated move, 4 invalid encodings (promotion flag on a generated move, same origin other destination, random words)} x two history states (fresh tables with an empty stack; tables saturated by >= 5000 identical FailHigh updates on several positions, with a non-empty stack); per run the sequence (move, weight) of the real picker vs the Lean picker model (every 8th run also exhaustion + YieldedMoves()), and directly in Go: yielded multiset = GenNoisy + GenNotNoisy, NO MOVE TWICE, none missing, none foreign, hash move first iff IsPseudoLegal, weights within the stage bands, no panic; every run is repeated (Go only) with the search's write-back of the move value / -Inf into the Weight of each yielded entry between Next() calls: same assertions and the same yielded sequence; evaluations = picker runs; non-trivial = run whose hash move is pseudo-legal, distinct by (FEN, hash move, history state)"
	var set []lightPos
	add := func(fen, src string) { set = append(set, lightPos{fen, src}) }
	for _, f := range posgen.EPTargetSweep() {
		add(f, "eptargets")
	}
	for got, try := 0, 0; got < 30 && try < 600; try++ {
		if ec, kind, ok := posgen.EPGeometry(rng); ok {
			if f, ok := e.afterPush(ec); ok {
				add(f, "epgeometry-"+kind)
				got++
			}
		}
	}
	for got, try := 0, 0; got < 30 && try < 600; try++ {
		if ec, _, ok := posgen.EPWrap(rng); ok {
			if f, ok := e.afterPush(ec); ok {
				add(f, "epwrap")
				got++
			}
		}
	}
	for i := 0; i < posgen.CastleSweepSize; i++ {
		if cc, ok := posgen.CastlePathSweep(rng, i, false); ok {
			add(cc.Pos.FEN(), "castlesweep")
		}
		if i%4 == 0 {
			if cc, ok := posgen.CastlePathSweep(rng, i, true); ok {
				add(cc.Pos.FEN(), "castlesweep-filler")
			}
		}
	}
	// the vacant paths (castling is generated when the owner is to move) with filler material, a few times
	for k := 0; k < 24; k++ {
		if cc, ok := posgen.CastlePathSweep(rng, k%4, true); ok && cc.OwnerToMove {
			add(cc.Pos.FEN(), "castlesweep-vacant")
		}
	}
	for got, try := 0, 0; got < 40 && try < 400; try++ {
		if p, ok := promoPos(rng); ok {
			add(p.FEN(), "promo")
			got++
		}
	}
	for _, f := range posgen.StagePoorCorpus {
		add(f, "stagepoor-corpus")
	}
	for _, f := range posgen.StageRichCorpus {
		add(f, "stagerich-corpus")
	}
	add("rnbqkbnr/pppppppp/8/8/8/8/PPPPPPPP/RNBQKBNR w KQkq - 0 1", "startpos")
	for k := 0; k < 5 && len(e.s.Roots) > 0; k++ {
		add(e.s.Roots[rng.IntN(len(e.s.Roots))], "root")
	}
	for got, try := 0, 0; got < 5 && try < 100; try++ {
		if p, ok := posgen.Construct(rng, posgen.Profile(rng.IntN(4))); ok {
			add(p.FEN(), "construct")
			got++
		}
	}

	ms := move.NewStore()
	mr := heur.NewMoveRanker()
	e.m.Batch([]string{"new"})
	for pass := 0; pass < 2; pass++ {
		state := "fresh"
		var st []stackEntry
		if pass == 1 {
			state = "saturated"
			st = []stackEntry{{1, 36, 700}, {2, 21, -300}, {1, 27, 150}}
			// saturate: on a few positions of the set, >= 5000 identical updates with extreme depths
			for k := 0; k < 6; k++ {
				lp := set[rng.IntN(len(set))]
				b, valid := e.load("C01", lp.fen)
				if b == nil || !valid {
					continue
				}
				noisy, quiet := implutil.Gen(b)
				all := append(append([]move.Move{}, noisy...), quiet...)
				if len(all) == 0 {
					continue
				}
				hs := goStack(st)
				cnt := 1 + rng.IntN(min(8, len(all)))
				ws := make([]wm, cnt)
				for j := range ws {
					ws[j] = wm{Move: all[rng.IntN(len(all))], Weight: Score(rng.IntN(4001) - 2000)}
				}
				d := []int{127, 100, -128, 60, 52, 127}[k]
				reps := 5000 + rng.IntN(1000)
				panicked := false
				func() {
					defer func() {
						if r := recover(); r != nil {
							panicked = true
						}
					}()
					for x := 0; x < reps; x++ {
						mr.FailHigh(Depth(d), b, ws, hs)
					}
				}()
				line := fmt.Sprintf("fh %d %d %s", reps, d, wmsStr(ws))
				if panicked {
					e.r.Fail(common.Mismatch{Property: "C01", Kind: "failing-input", Ops: []string{"fen " + lp.fen, stackLine(st), line}, Impl: "panic", Note: "FailHigh panicked"})
					continue
				}
				e.m.Batch([]string{stackLine(st), line})
				e.r.Count("saturating-scripts", 1)
			}
		}
		hs := goStack(st)
		for _, lp := range set {
			b, valid := e.load("C01", lp.fen)
			if b == nil || !valid {
				e.r.Count("skipped-invalid:"+lp.src, 1)
				continue
			}
			if pass == 0 {
				e.r.Count("pos:"+lp.src, 1)
			}
			noisy, quiet := implutil.Gen(b)
			all := append(append([]move.Move{}, noisy...), quiet...)
			gen := map[move.Move]bool{}
			for _, m := range all {
				gen[m] = true
			}
			hms := append([]move.Move{0}, all...)
			if len(all) > 0 {
				hms = append(hms,
					all[rng.IntN(len(all))]&0x0fff|move.Move(1+rng.IntN(7))<<12,
					all[rng.IntN(len(all))]&0x7fc0|move.Move(rng.IntN(64)))
			}
			hms = append(hms, move.Move(rng.IntN(1<<15)), move.Move(rng.IntN(1<<15)))
			reqs := []string{stackLine(st)}
			for k, hm := range hms {
				if k%8 == 0 {
					reqs = append(reqs, "pickx "+strconv.Itoa(int(hm)))
				} else {
					reqs = append(reqs, "pick "+strconv.Itoa(int(hm)))
				}
			}
			ans := e.m.Batch(reqs)
			for k, hm := range hms {
				res := runPicker(b, hm, ms, &mr, hs)
				e.r.Evaluations++
				ops := []string{"fen " + lp.fen, "(history state: " + state + ")", reqs[0], reqs[1+k]}
				impl := wmsStr(res.seq)
				if k%8 == 0 {
					impl += "|1|" + wmsStr(res.final)
				}
				if res.panicked {
					impl = "panic"
				}
				bad, ipl, _, _ := pickerVerdict(b, hm, res, all, gen)
				if ipl {
					e.r.Nontrivial(fmt.Sprintf("%s %d %s", lp.fen, hm, state))
					what := "quiet"
					d := int(hm.To()) - int(hm.From())
					switch {
					case b.SquaresToPiece[hm.From()] == Pawn && b.EnPassant != 0 && hm.To() == b.EnPassant:
						what = "en-passant"
					case hm.Promo() != NoPiece && b.SquaresToPiece[hm.To()] != NoPiece:
						what = "capture-promotion"
					case hm.Promo() != NoPiece:
						what = "promotion"
					case b.SquaresToPiece[hm.To()] != NoPiece:
						what = "capture"
					case b.SquaresToPiece[hm.From()] == King && (d == 2 || d == -2):
						what = "castling"
					}
					e.r.Count("hash:"+what, 1)
				} else if hm != 0 {
					e.r.Count("hash:rejected", 1)
				} else {
					e.r.Count("hash:none", 1)
				}
				if bad != "" {
					e.r.Fail(common.Mismatch{Property: "C01", Kind: "failing-input", Ops: ops, Impl: impl, Model: ans[1+k],
						Spec: implutil.MovesStr(all), Note: "the search's move iteration: " + bad})
				} else if impl != ans[1+k] {
					e.r.Fail(common.Mismatch{Property: "C01", Kind: "broken-correspondence", Ops: ops, Impl: impl, Model: ans[1+k]})
				}
				// the same run with the search's write-back into the yielded entries (Go only): the direct
				// assertions, and the same sequence of moves as without the write-back
				res2 := runPickerAsSearch(b, hm, ms, &mr, hs)
				e.r.Evaluations++
				bad2, _, _, _ := pickerVerdict(b, hm, res2, all, gen)
				if bad2 == "" && bad == "" && wmsStr(res2.seq) != wmsStr(res.seq) {
					bad2 = "writing the searched value into the yielded entries changes what is yielded afterwards"
				}
				if bad2 != "" && bad == "" {
					e.r.Fail(common.Mismatch{Property: "C01", Kind: "failing-input", Ops: append(ops, "(caller overwrites Weight of each yielded entry, as search.alphaBeta does)"),
						Impl: wmsStr(res2.seq), Model: ans[1+k], Spec: implutil.MovesStr(all), Note: "the search's move iteration: " + bad2})
				}
				if pass == 0 && k == 1 && len(e.r.Samples) < 3 {
					e.r.Sample(map[string]any{"fen": lp.fen, "hash": hm.String(), "yielded": impl}, 3)
				}
			}
		}
	}
}
