// Package implutil holds helpers over the REAL implementation (/repo, built with -tags verif) that
// several correspondence suites share: canonical dumps in the format of the Lean drivers, move
// lists, the Zobrist key line, and the valid-position stream.
package implutil

import (
	"fmt"
	"math/rand/v2"
	"sort"
	"strconv"
	"strings"

	"github.com/paulsonkoly/chess-3/board"
	"github.com/paulsonkoly/chess-3/move"
	"github.com/paulsonkoly/chess-3/movegen"

	"verifharness/common"
	"verifharness/posgen"
)

// KeysLine is the `keys …` request that hands the real Zobrist tables to a Lean driver.
func KeysLine() string {
	pieces, stm, castling, ep := board.VerifZobrist()
	var sb strings.Builder
	sb.WriteString("keys")
	for c := 0; c < 2; c++ {
		for p := 0; p < 7; p++ {
			for s := 0; s < 64; s++ {
				fmt.Fprintf(&sb, " %x", uint64(pieces[c][p][s]))
			}
		}
	}
	fmt.Fprintf(&sb, " %x", uint64(stm))
	for _, k := range castling {
		fmt.Fprintf(&sb, " %x", uint64(k))
	}
	for _, k := range ep {
		fmt.Fprintf(&sb, " %x", uint64(k))
	}
	return sb.String()
}

// Dump prints every attribute of b in the canonical format of Drv/Board.lean `dump`.
func Dump(b *board.Board) string {
	s := b.VerifSnapshot()
	var sb strings.Builder
	for _, p := range s.SquaresToPiece {
		sb.WriteByte('0' + byte(p))
	}
	sb.WriteByte(' ')
	for i, p := range s.Pieces {
		if i > 0 {
			sb.WriteByte(',')
		}
		fmt.Fprintf(&sb, "%x", uint64(p))
	}
	sb.WriteByte(' ')
	fmt.Fprintf(&sb, "%x,%x", uint64(s.Colors[0]), uint64(s.Colors[1]))
	fmt.Fprintf(&sb, " %d %d %d %d %d [", s.STM, s.EnPassant, s.Castles, s.FiftyCnt, s.FullMoves)
	for i, h := range s.Hashes {
		if i > 0 {
			sb.WriteByte(',')
		}
		fmt.Fprintf(&sb, "%x", uint64(h))
	}
	sb.WriteByte(']')
	return sb.String()
}

// Token prints the fields of a reversing token as Drv/Board.lean `tokenStr`.
func Token(r board.Reverse) string {
	f, c, e, p := board.VerifReverse(r)
	return fmt.Sprintf("%d %d %d %d", f, c, e, p)
}

// PosStr prints the rule-book view of b as Drv/Board.lean `posStr` prints a Rules.Pos.
func PosStr(b *board.Board) string {
	s := b.VerifSnapshot()
	const names = " PNBRQK pnbrqk"
	var sb strings.Builder
	for sq := 0; sq < 64; sq++ {
		p := s.SquaresToPiece[sq]
		switch {
		case uint64(s.Colors[0])&(1<<sq) != 0:
			sb.WriteByte(names[p])
		case uint64(s.Colors[1])&(1<<sq) != 0:
			sb.WriteByte(names[7+int(p)])
		default:
			sb.WriteByte('.')
		}
	}
	rs := ""
	for i, c := range "KQkq" {
		if int(s.Castles)&(1<<i) != 0 {
			rs += string(c)
		}
	}
	ep := "-"
	if s.EnPassant != 0 {
		ep = strconv.Itoa(int(s.EnPassant))
	}
	return fmt.Sprintf("%s %d [%s] %s %d %d", sb.String(), s.STM, rs, ep, s.FiftyCnt, s.FullMoves)
}

// Gen returns the generated moves in generation order (noisy, quiet).
func Gen(b *board.Board) (noisy, quiet []move.Move) {
	ms := move.NewStore()
	movegen.GenNoisy(ms, b)
	for _, w := range ms.Frame() {
		noisy = append(noisy, w.Move)
	}
	n := len(ms.Frame())
	movegen.GenNotNoisy(ms, b)
	for _, w := range ms.Frame()[n:] {
		quiet = append(quiet, w.Move)
	}
	return
}

// Legal returns the playable moves (generated, not leaving the mover's king attacked), sorted.
func Legal(b *board.Board) []move.Move {
	noisy, quiet := Gen(b)
	var out []move.Move
	for _, m := range append(noisy, quiet...) {
		r := b.MakeMove(m)
		if !b.InCheck(b.STM.Flip()) {
			out = append(out, m)
		}
		b.UndoMove(m, r)
	}
	sort.Slice(out, func(i, j int) bool { return out[i] < out[j] })
	return out
}

// MovesStr renders a move list as comma separated integers.
func MovesStr(ms []move.Move) string {
	parts := make([]string, len(ms))
	for i, m := range ms {
		parts[i] = strconv.Itoa(int(m))
	}
	return strings.Join(parts, ",")
}

// Stream yields FENs of (structurally) valid positions from the shared generator layer: roots,
// play-outs from roots, constructive samples of all profiles and en-passant directed cases.
type Stream struct {
	Rng   *rand.Rand
	Roots []string
	i     int
}

// NewStream creates the position stream.
func NewStream(c *common.Ctx) *Stream {
	return &Stream{Rng: c.Rng, Roots: posgen.Roots("/repo")}
}

// Next returns the next FEN and the name of the generator that produced it.
func (s *Stream) Next() (fen, source string) {
	s.i++
	if s.i <= len(s.Roots) {
		return s.Roots[s.i-1], "root"
	}
	switch s.Rng.IntN(10) {
	case 0, 1, 2:
		// play-out from a root
		for try := 0; try < 20; try++ {
			root := s.Roots[s.Rng.IntN(len(s.Roots))]
			b, err := board.FromFEN(root)
			if err != nil || b.InvalidPieceCount() {
				continue
			}
			n := 1 + s.Rng.IntN(60)
			for i := 0; i < n; i++ {
				l := Legal(b)
				if len(l) == 0 || b.FiftyCnt >= 100 {
					break
				}
				b.MakeMove(l[s.Rng.IntN(len(l))])
			}
			if b.FiftyCnt <= 100 {
				return b.FEN(), "playout"
			}
		}
		return s.Roots[0], "root"
	case 3:
		// the position BEFORE a double push that lands beside an enemy pawn: random situations, the constructed
		// pin / discovery geometries, and the board-edge (wrap) geometries
		for {
			switch s.Rng.IntN(3) {
			case 0:
				if ec, ok := posgen.EPDirected(s.Rng); ok {
					return ec.Pos.FEN(), "epdirected-pre"
				}
			case 1:
				if ec, _, ok := posgen.EPGeometry(s.Rng); ok {
					return ec.Pos.FEN(), "epgeometry-pre"
				}
			default:
				if ec, _, ok := posgen.EPWrap(s.Rng); ok {
					return ec.Pos.FEN(), "epwrap-pre"
				}
			}
		}
	default:
		prof := posgen.Profile(s.Rng.IntN(4))
		for {
			if p, ok := posgen.Construct(s.Rng, prof); ok {
				return p.FEN(), [...]string{"sparse", "medium", "dense", "promoheavy"}[prof]
			}
		}
	}
}
