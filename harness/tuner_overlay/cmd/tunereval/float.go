// Float side of C19 (a): ties the Lean model of IEEE-754 binary64 arithmetic (Model/F64.lean) and of
// eval.Eval[float64] (Model/EvalF.lean, `opsF`) to the real code BIT FOR BIT (math.Float64bits).
//
//	D0 architecture: GOARCH must be amd64 and an FMA-sensitive expression must evaluate UNFUSED at run
//	   time (the model rounds after every operation; Go fuses x*y+z on arm64/ppc64/s390x/riscv64 and on
//	   amd64 only with GOAMD64=v3).
//	D1 arithmetic unit test: random pairs of doubles (integers, neighbours, subnormals, huge, random
//	   bit patterns) through + - * / and random int64 through float64(·): Go's result vs the model's
//	   (`fop`, `fint`); Inf/NaN results must be flagged `ok = 0` by the model.
//	D2 sigmoid hand-over: Go's float sigmoid `600.0/(1.0+math.Exp(-0.2*(x-50.0)))` for EVERY integer x of
//	   the int16 range is handed to the driver once (`sigm`); the driver stores it as the model's σF and
//	   checks `TableNear` (|σF(n) − sigm[clamp n]| ≤ 1/2) in EXACT rational arithmetic on the decoded
//	   doubles.  `expv`: Go's `math.Exp` results for the same arguments; the driver checks that the model's
//	   own arithmetic around exp (argument −0.2·(n−50), 1+e, 600/·) reproduces Go's sigmoid bit for bit.
//	D3 evaluation: for every generated valid position, `eval.Eval[float64]` and `EngineRep.Eval` (coefficient
//	   set = float64(·) of integer leaves: the shipped set as EngineCoeffs() converts it, and random
//	   integer sets INCLUDING king-attack coefficients) must equal the model's `evalF` / `tunerEvalF`
//	   bit for bit, the model's `ok` flag must be 1; plus the crafted sigmoid position of suite B for a
//	   dense range of king-attack scores (the REAL `sigmoidal[float64]` against the handed-over table).
package main

import (
	"fmt"
	"math"
	"math/rand/v2"
	"reflect"
	"runtime"
	"strconv"
	"strings"

	"github.com/paulsonkoly/chess-3/board"
	"github.com/paulsonkoly/chess-3/eval"

	. "github.com/paulsonkoly/chess-3/chess"

	"github.com/paulsonkoly/chess-3/tools/tuner/implutil"
	"github.com/paulsonkoly/chess-3/tools/tuner/tuning"
)

//go:noinline
func mulAdd(x, y, z float64) float64 { return x*y + z }

// goSigmoid is the float path of eval.sigmoidal (unexported there), same expression, same compiler.
//
//go:noinline
func goSigmoid(n float64) float64 { return 600.0 / (1.0 + math.Exp(-0.2*(n-50.0))) }

//go:noinline
func goExpArg(n float64) float64 { return -0.2 * (n - 50.0) }

func hexBits(f float64) string { return strconv.FormatUint(math.Float64bits(f), 16) }

func (e *env) suiteD0() {
	e.r.Count("D0:GOARCH="+runtime.GOARCH, 1)
	x := 1 + math.Ldexp(1, -30)
	z := -(1 + math.Ldexp(1, -29))
	got := mulAdd(x, x, z) // unfused: round(x*x) = 1+2^-29 → 0 ; fused: 2^-60
	if runtime.GOARCH != "amd64" || got != 0 {
		e.fail("broken-correspondence", []string{"x*y+z with x=y=1+2^-30, z=-(1+2^-29)"}, strconv.FormatFloat(got, 'g', -1, 64), "0",
			"this build fuses multiply-add (or is not amd64): the float model (one rounding per operation) does not describe it")
		e.r.Count("D0:fma-fused", 1)
	} else {
		e.r.Count("D0:fma-unfused", 1)
	}
}

// interesting doubles for the arithmetic unit test
func randDouble(rng *rand.Rand) float64 {
	switch rng.IntN(9) {
	case 0: // small integers
		return float64(rng.IntN(65537) - 32768)
	case 1: // large integers around 2^53
		return float64(int64(1)<<53 + int64(rng.IntN(64)) - 32)
	case 2: // subnormals and the smallest normals
		return math.Float64frombits(uint64(rng.IntN(1<<20)) | uint64(rng.IntN(3))<<52 | uint64(rng.IntN(2))<<63)
	case 3: // huge (overflow on + and *)
		return math.Float64frombits(uint64(0x7fe)<<52 | rng.Uint64()&(1<<52-1) | uint64(rng.IntN(2))<<63)
	case 4: // zeros
		return math.Float64frombits(uint64(rng.IntN(2)) << 63)
	case 5: // sigmoid-like values
		return goSigmoid(float64(rng.IntN(200) - 50))
	case 6: // evaluation-like: integer + sigmoid
		return float64(rng.IntN(20001)-10000) + goSigmoid(float64(rng.IntN(120)-10))
	case 7: // ties: k + 1/2 ulp patterns
		return math.Ldexp(float64(rng.IntN(1<<20)*2+1), rng.IntN(80)-60)
	default: // random finite bit pattern
		for {
			f := math.Float64frombits(rng.Uint64())
			if !math.IsNaN(f) && !math.IsInf(f, 0) {
				return f
			}
		}
	}
}

func (e *env) suiteD1(n int) {
	rng := e.c.Rng
	ops := []string{"add", "sub", "mul", "div"}
	lines := make([]string, 0, n)
	want := make([]string, 0, n)
	for i := 0; i < n; i++ {
		x, y := randDouble(rng), randDouble(rng)
		if rng.IntN(4) == 0 { // neighbours: cancellation, exact subtraction
			y = math.Nextafter(x, math.Inf(rng.IntN(3)-1))
			if rng.IntN(2) == 0 {
				y = -y
			}
			if math.IsInf(y, 0) {
				y = x
			}
		}
		op := ops[i%4]
		var r float64
		switch op {
		case "add":
			r = x + y
		case "sub":
			r = x - y
		case "mul":
			r = x * y
		case "div":
			r = x / y
		}
		lines = append(lines, fmt.Sprintf("fop %s %s %s", op, hexBits(x), hexBits(y)))
		if math.IsNaN(r) || math.IsInf(r, 0) {
			want = append(want, "0")
			e.r.Count("D1:op result Inf/NaN (model must say ok=0)", 1)
		} else {
			want = append(want, hexBits(r)+" 1")
			if r != x && r != y && r != 0 {
				e.r.Nontrivial("D1|" + lines[len(lines)-1])
			}
			if r == 0 && math.Signbit(r) {
				e.r.Count("D1:negative zero results", 1)
			}
			if r != 0 && math.Abs(r) < math.Ldexp(1, -1022) {
				e.r.Count("D1:subnormal results", 1)
			}
		}
	}
	ans := e.m.Batch(lines)
	for i := range lines {
		e.r.Evaluations++
		got := ans[i]
		if want[i] == "0" { // only the flag matters
			f := strings.Fields(got)
			if len(f) != 2 || f[1] != "0" {
				e.fail("broken-correspondence", []string{lines[i]}, "Inf/NaN", got, "the float model does not flag an overflow / invalid operation")
			}
			continue
		}
		if got != want[i] {
			e.fail("broken-correspondence", []string{lines[i]}, want[i], got, "IEEE-754 model (Model/F64.lean) differs from the hardware result")
		}
	}
	// int → float64
	il := make([]string, 0, n/4)
	iw := make([]string, 0, n/4)
	for i := 0; i < n/4; i++ {
		var v int64
		switch rng.IntN(3) {
		case 0:
			v = int64(rng.IntN(200001) - 100000)
		case 1:
			v = int64(1)<<53 + int64(rng.IntN(4096)) - 2048
			if rng.IntN(2) == 0 {
				v = -v
			}
		default:
			v = int64(rng.Uint64())
		}
		il = append(il, "fint "+strconv.FormatInt(v, 10))
		iw = append(iw, hexBits(float64(v)))
	}
	ia := e.m.Batch(il)
	for i := range il {
		e.r.Evaluations++
		if ia[i] != iw[i] {
			e.fail("broken-correspondence", []string{il[i]}, iw[i], ia[i], "float64(int) differs from the model's ofInt")
		}
	}
	e.r.Count("D1:arithmetic operations compared", n)
	e.r.Count("D1:int conversions compared", n/4)
}

// suiteD2 hands over the sigmoid for ALL int16 arguments; the math.Exp decomposition is checked for the
// arguments −expRange..expRange−1 (the whole int16 range in the thorough tier; king-attack scores of the
// shipped set lie within −3555..2550, math.Exp overflows below −3498).
func (e *env) suiteD2(expRange int) {
	const chunk = 2048
	near, far, bad, agree, inf := 0, 0, 0, 0, 0
	for lo := -32768; lo <= 32767; lo += chunk {
		var sb, eb strings.Builder
		fmt.Fprintf(&sb, "sigm %d", lo)
		fmt.Fprintf(&eb, "expv %d", lo)
		for n := lo; n < lo+chunk; n++ {
			sb.WriteByte(' ')
			sb.WriteString(hexBits(goSigmoid(float64(n))))
			a := goExpArg(float64(n))
			eb.WriteByte(' ')
			eb.WriteString(hexBits(a) + ":" + hexBits(math.Exp(a)))
		}
		var a, b, c int
		ans := e.m.Ask(sb.String())
		if _, err := fmt.Sscanf(ans, "ok %d %d %d", &a, &b, &c); err != nil {
			panic("driver: bad answer to sigm: " + ans)
		}
		near, far, bad = near+a, far+b, bad+c
		if b != 0 || c != 0 {
			e.fail("failing-input", []string{fmt.Sprintf("float sigmoid on %d..%d", lo, lo+chunk-1)}, "", ans,
				"TableNear violated (exact rational comparison of Go's float sigmoid with the integer table), or a sigmoid value that is not a finite double with sign bit 0")
		}
		if lo < -expRange || lo >= expRange {
			e.r.Evaluations += chunk
			continue
		}
		ans = e.m.Ask(eb.String())
		var firstBad string
		if _, err := fmt.Sscanf(ans, "ok %d %d | %s", &a, &b, &firstBad); err != nil {
			panic("driver: bad answer to expv: " + ans)
		}
		agree, inf = agree+a, inf+b
		if a != chunk {
			e.fail("broken-correspondence", []string{fmt.Sprintf("sigmoid arithmetic around math.Exp on %d..%d", lo, lo+chunk-1), "first disagreeing n = " + firstBad}, "", ans,
				"the model's arithmetic around math.Exp (argument, 1+e, 600/·) does not reproduce Go's float sigmoid bit for bit")
		}
		e.r.Evaluations += 2 * chunk
	}
	e.r.Count("D2:TableNear holds (exact rationals, integers of int16)", near)
	e.r.Count("D2:TableNear fails", far)
	e.r.Count("D2:sigmoid not a finite +double", bad)
	e.r.Count("D2:sigmoidWith(math.Exp) == Go sigmoid, bit for bit", agree)
	e.r.Count("D2:  of which math.Exp = +Inf (sigmoid = +0)", inf)
}

// setCoeffs builds the float and the int16 coefficient sets from integer leaves.
func (e *env) setCoeffs(leaves []float64) (ef tuning.EngineRep, es eval.CoeffSet[Score]) {
	copy(raw(&ef, len(e.cells)), leaves)
	k := 0
	var fill func(v reflect.Value)
	fill = func(v reflect.Value) {
		switch v.Kind() {
		case reflect.Struct:
			for i := 0; i < v.NumField(); i++ {
				fill(v.Field(i))
			}
		case reflect.Array:
			for i := 0; i < v.Len(); i++ {
				fill(v.Index(i))
			}
		default:
			v.SetInt(int64(leaves[k]))
			k++
		}
	}
	fill(reflect.ValueOf(&es).Elem())
	return
}

func floatEvalRaw(ef *tuning.EngineRep, b *board.Board) (f float64, st string) {
	defer func() {
		if r := recover(); r != nil {
			st = "panic"
		}
	}()
	return eval.Eval(b, (*eval.CoeffSet[float64])(ef)), "ok"
}

func (e *env) compareF(ef *tuning.EngineRep, b *board.Board, ops []string, key string) {
	ans := e.m.Ask("f " + dumpLite(b))
	e.compareFAns(ef, b, ops, key, ans)
}

func (e *env) compareFAns(ef *tuning.EngineRep, b *board.Board, ops []string, key, ans string) {
	raw, st1 := floatEvalRaw(ef, b)
	wr, st2 := floatEval(ef, b)
	e.r.Evaluations++
	if st1 != "ok" || st2 != "ok" {
		e.fail("failing-input", ops, "panic", ans, "Eval[float64] panicked")
		return
	}
	want := hexBits(raw) + " " + hexBits(wr) + " 1 1"
	if math.IsNaN(raw) || math.IsInf(raw, 0) {
		e.fail("failing-input", ops, want, ans, "Eval[float64] is not finite")
		return
	}
	if ans != want {
		e.fail("broken-correspondence", ops, want, ans, "Eval[float64] / EngineRep.Eval differ from the float model opsF (bits of eval, bits of white-relative eval, ok flag)")
	}
	e.r.Count("D3:compared bit for bit", 1)
	switch {
	case raw == 0 && math.Signbit(raw):
		e.r.Count("D3:result -0", 1)
	case raw == 0:
		e.r.Count("D3:result +0", 1)
	case raw == math.Trunc(raw):
		e.r.Count("D3:result a non-zero integer", 1)
	default:
		e.r.Count("D3:result not an integer", 1)
		e.r.Nontrivial("D|" + key)
	}
}

func (e *env) suiteD3(total int) {
	stream := implutil.NewStream(e.c)
	rng := e.c.Rng
	nCells := len(e.cells)
	shippedF := tuning.EngineCoeffs()
	batch := 1000
	for done, batchNo := 0, 0; done < total; batchNo++ {
		ef := shippedF
		name := "shipped"
		switch batchNo % 3 {
		case 1, 2: // random integer coefficients, king-attack fields included
			seed := rng.Uint64()
			r2 := rand.New(rand.NewPCG(seed, 1919))
			span := 601
			if batchNo%3 == 2 {
				span = 61 // small king-attack scores: sigmoid arguments inside the table's active range
			}
			name = fmt.Sprintf("random-int(pcg=%d/1919,span=%d)", seed, span)
			leaves := make([]float64, nCells)
			for i := range leaves {
				nm := e.names[e.cells[i].field]
				if nm == "KingAttackPieces" || nm == "SafeChecks" || nm == "KingShelter" {
					leaves[i] = float64(r2.IntN(span) - span/3)
				} else {
					leaves[i] = float64(r2.IntN(601) - 300)
				}
			}
			ef, _ = e.setCoeffs(leaves)
		}
		if a := e.m.Ask("cs " + intsLine(raw(&ef, nCells))); !strings.HasPrefix(a, "ok") {
			panic("driver rejected the coefficient set: " + a)
		}
		n := min(batch, total-done)
		lines := make([]string, 0, n)
		boards := make([]*board.Board, 0, n)
		fens := make([]string, 0, n)
		for len(lines) < n {
			fen, _ := stream.Next()
			b := &board.Board{}
			if err := board.ParseFEN(b, []byte(fen)); err != nil {
				continue
			}
			if rng.IntN(8) == 0 { // the halfmove clock's extremes (factor 100 - fifty = 0 gives -0)
				b.FiftyCnt = Depth([]int{100, 99, 0, 1, 50}[rng.IntN(5)])
			}
			d := dumpLite(b)
			lines = append(lines, "f "+d)
			boards = append(boards, b)
			fens = append(fens, fmt.Sprintf("%s (fifty=%d)", fen, b.FiftyCnt))
		}
		answers := e.m.Batch(lines)
		for i, b := range boards {
			if !strings.HasSuffix(answers[i], " 1") { // validity as judged by Lean (last field of the answer)
				e.r.Count("D3:skipped not-valid", 1)
				continue
			}
			short := strings.SplitN(name, "(", 2)[0]
			e.r.Count("D3:coeffs:"+short, 1)
			fs := strings.Fields(fens[i])
			e.compareFAns(&ef, b, []string{"coeffs " + name, "parsefen " + fens[i], "Eval[float64]", "EngineRep.Eval"},
				name+"|"+fs[0]+fs[1]+fmt.Sprint(b.FiftyCnt), answers[i])
		}
		done += n
	}
	// the REAL sigmoidal[float64] on a dense range of arguments (crafted position of suite B)
	const fen = "rnbqkbnr/pppppppp/4N3/8/8/8/PPP3PP/R1BQKBNR w KQkq - 0 1"
	b := &board.Board{}
	if err := board.ParseFEN(b, []byte(fen)); err != nil {
		panic(err)
	}
	var ns []int
	for n := -160; n <= 260; n++ {
		ns = append(ns, n)
	}
	for i := 0; i < e.c.Pick(80, 3000); i++ {
		ns = append(ns, rng.IntN(65536)-32768)
	}
	for _, n := range ns {
		leaves := make([]float64, nCells)
		ef, _ := e.setCoeffs(leaves)
		ef.KingAttackPieces[0][0] = float64(n)
		ef.KingAttackPieces[1][0] = float64(n / 2)
		ef.KingShelter[0] = float64(-(n % 37))
		ef.KingShelter[1] = -1200 // 3·(-1200): math.Exp overflows, sigmoid = +0
		if a := e.m.Ask("cs " + intsLine(raw(&ef, nCells))); !strings.HasPrefix(a, "ok") {
			panic("driver rejected the coefficient set: " + a)
		}
		for _, fifty := range []int{0, 37} {
			b.FiftyCnt = Depth(fifty)
			e.compareF(&ef, b, []string{fmt.Sprintf("KingAttackPieces[0][0]=%d [1][0]=%d KingShelter=%d,-1200 others 0", n, n/2, -(n % 37)),
				"parsefen " + fen, fmt.Sprintf("fifty=%d", fifty), "Eval[float64]"}, fmt.Sprintf("sigmoid-position|%d|%d", n, fifty))
			e.r.Count("D3:crafted sigmoid position", 1)
		}
	}
	if a := e.m.Ask("cs shipped"); !strings.HasPrefix(a, "ok") {
		panic("driver: " + a)
	}
}
