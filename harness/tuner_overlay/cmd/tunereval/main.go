// Command tunereval is the correspondence + property harness for C19 (tools/tuner/tuning/vector.go and
// the float64 instantiation of eval.Eval).  Built by /verif/bin/build-tunereval-harness into a temporary
// copy of the tuner module (the tuner packages are not importable from outside).
//
// Suites (all run, one JSON result):
//
//	A  float-vs-int: `EngineRep.Eval` (float64, coefficients = EngineCoeffs()) against `Eval[Score]` with the
//	   shipped coefficients on generated positions loaded WITHOUT hash (board.ParseFEN, as the tuner
//	   does); |float − whiteRelative(int)| must stay < 2.25 (the property itself → failing-input).
//	   The Lean exact-rational model `tunerEvalQ` (table sigmoid) is compared too: with the shipped set the
//	   float result must be within 1 + 1e-6 of it (two sigmoid roundings of ≤ 1/2 each survive the taper
//	   with weight ≤ 1); with random coefficient sets whose king-attack coefficients are zero (so that
//	   both sigmoid arguments are 0 and cancel) within 1e-6 — a tight check of everything but the sigmoid.
//	B  sigmoid: the float sigmoid and the integer table, BOTH observed through the real code (a crafted
//	   position + coefficient set makes Eval return sigmoidal(n) alone), for every integer n in
//	   of the int16 range (every value a king-attack score can take when no int16 operation wraps):
//	   |σ(n) − sigm[clamp(n,0,99)]| ≤ 1/2.  This discharges
//	   the hypothesis `TableNear` of the Lean theorem `int_vs_exact` NUMERICALLY, OUTSIDE LEAN.
//	C  parameter vector: random coefficient sets and random target subsets through EngineCoeffs /
//	   ToVector / SetVector / TunedParams against the Lean model (drv_eval), and directly in Go: the i-th
//	   yielded pointer is the cell ToVector maps to index i (read and write), SetVector∘ToVector = id,
//	   ToVector∘SetVector = id.
package main

import (
	"flag"
	"fmt"
	"math"
	"math/rand/v2"
	"os"
	"reflect"
	"strconv"
	"strings"
	"time"
	"unsafe"

	"github.com/paulsonkoly/chess-3/board"
	"github.com/paulsonkoly/chess-3/eval"

	. "github.com/paulsonkoly/chess-3/chess"

	"github.com/paulsonkoly/chess-3/tools/tuner/common"
	"github.com/paulsonkoly/chess-3/tools/tuner/implutil"
	"github.com/paulsonkoly/chess-3/tools/tuner/tuning"
)

const prop = "C19"

var nFlag = flag.Int("n", 0, "number of positions of suite A (0 = tier default)")

// ---------------------------------------------------------------------------------------------
// struct walking by TYPE LAYOUT (independent of the walkers of vector.go)

type cellInfo struct {
	field int
	path  []int
}

// layout lists every float64 cell of the struct in memory order with its (field, path).
func layout() (cells []cellInfo, names []string) {
	t := reflect.TypeOf(tuning.EngineRep{})
	var rec func(t reflect.Type, field int, path []int)
	rec = func(t reflect.Type, field int, path []int) {
		switch t.Kind() {
		case reflect.Array:
			for i := 0; i < t.Len(); i++ {
				rec(t.Elem(), field, append(append([]int{}, path...), i))
			}
		case reflect.Float64:
			cells = append(cells, cellInfo{field, path})
		default:
			panic("unexpected kind " + t.Kind().String())
		}
	}
	for i := 0; i < t.NumField(); i++ {
		names = append(names, t.Field(i).Name)
		if t.Field(i).Offset != uintptr(len(cells))*8 {
			panic("unexpected padding in EngineRep")
		}
		rec(t.Field(i).Type, i, nil)
	}
	if uintptr(len(cells))*8 != t.Size() {
		panic("EngineRep is not a flat block of float64")
	}
	return
}

// raw views the struct as its flat block of float64 cells.
func raw(e *tuning.EngineRep, n int) []float64 {
	return unsafe.Slice((*float64)(unsafe.Pointer(e)), n)
}

func intsLine(xs []float64) string {
	var sb strings.Builder
	for i, x := range xs {
		if i > 0 {
			sb.WriteByte(' ')
		}
		if x != math.Trunc(x) || math.Abs(x) > 1e15 {
			panic("non-integer value in a protocol line")
		}
		sb.WriteString(strconv.FormatInt(int64(x), 10))
	}
	return sb.String()
}

func targetsArg(t []string) string {
	if len(t) == 0 {
		return "-"
	}
	return strings.Join(t, ",")
}

// ---------------------------------------------------------------------------------------------

type env struct {
	c     *common.Ctx
	r     *common.Result
	m     *common.Model
	cells []cellInfo
	names []string
}

func (e *env) fail(kind string, ops []string, impl, model, note string) {
	e.r.Fail(common.Mismatch{Property: prop, Kind: kind, Ops: ops, Impl: impl, Model: model, Note: note})
	e.r.Count("mismatch:"+kind, 1)
}

// ---------------------------------------------------------------------------------------------
// suite A

func parseRat(s string) (float64, bool) {
	p := strings.SplitN(s, "/", 2)
	if len(p) != 2 {
		return 0, false
	}
	// numerators can exceed int64 only with absurd coefficients; use big floats via ParseFloat
	n, err1 := strconv.ParseFloat(p[0], 64)
	d, err2 := strconv.ParseFloat(p[1], 64)
	if err1 != nil || err2 != nil || d == 0 {
		return 0, false
	}
	return n / d, true
}

func dumpLite(b *board.Board) string {
	d := implutil.Dump(b)
	if i := strings.LastIndex(d, " ["); i >= 0 {
		d = d[:i]
	}
	return d
}

func floatEval(e *tuning.EngineRep, b *board.Board) (f float64, st string) {
	defer func() {
		if r := recover(); r != nil {
			st = "panic"
		}
	}()
	return e.Eval(b), "ok"
}

func (e *env) suiteA(total int) {
	stream := implutil.NewStream(e.c)
	rng := e.c.Rng
	nCells := len(e.cells)
	shippedF := tuning.EngineCoeffs()
	maxEnv, maxModel, maxTight := 0.0, 0.0, 0.0
	batch := 2000
	for done, batchNo := 0, 0; done < total; batchNo++ {
		// coefficient set: shipped, or random integers with the king-attack fields zeroed
		useShipped := batchNo%2 == 0
		ef := shippedF
		es := eval.Coefficients
		name := "shipped"
		if !useShipped {
			seed := rng.Uint64()
			r2 := rand.New(rand.NewPCG(seed, 19))
			name = fmt.Sprintf("random-no-king-attack(pcg=%d/19)", seed)
			ef = tuning.EngineRep{}
			cellsF := raw(&ef, nCells)
			for i := range cellsF {
				nm := e.names[e.cells[i].field]
				if nm == "KingAttackPieces" || nm == "SafeChecks" || nm == "KingShelter" {
					continue
				}
				cellsF[i] = float64(r2.IntN(601) - 300)
			}
			// the same set as int16 for the integer evaluation
			k := 0
			var fill func(v reflect.Value)
			fill = func(v reflect.Value) {
				switch v.Kind() {
				case reflect.Struct:
					for i := 0; i < v.NumField(); i++ {
						fill(v.Field(i))
					}
				case reflect.Array:
					for i := 0; i < v.Len(); i++ {
						fill(v.Index(i))
					}
				default:
					v.SetInt(int64(cellsF[k]))
					k++
				}
			}
			es = eval.CoeffSet[Score]{}
			fill(reflect.ValueOf(&es).Elem())
		}
		if a := e.m.Ask("cs " + intsLine(raw(&ef, nCells))); !strings.HasPrefix(a, "ok") {
			panic("driver rejected the coefficient set: " + a)
		}
		n := min(batch, total-done)
		lines := make([]string, 0, n)
		boards := make([]*board.Board, 0, n)
		fens := make([]string, 0, n)
		for len(lines) < n {
			fen, src := stream.Next()
			b := &board.Board{}
			if err := board.ParseFEN(b, []byte(fen)); err != nil { // as the tuner loads positions: no hash
				e.r.Count("skipped:fen-rejected", 1)
				continue
			}
			e.r.Count("source:"+src, 1)
			lines = append(lines, "q "+dumpLite(b))
			boards = append(boards, b)
			fens = append(fens, fen)
		}
		answers := e.m.Batch(lines)
		// validity as judged by Lean
		vlines := make([]string, len(lines))
		for i, l := range lines {
			vlines[i] = "e" + l[1:]
		}
		vans := e.m.Batch(vlines)
		for i, b := range boards {
			if len(vans[i]) < 1 || vans[i][0] != '1' {
				e.r.Count("skipped:not-valid", 1)
				continue
			}
			ops := []string{"coeffs " + name, "parsefen " + fens[i], "EngineRep.Eval", "Eval[Score]"}
			f, st := floatEval(&ef, b)
			if st != "ok" {
				e.fail("failing-input", ops, "panic", answers[i], "EngineRep.Eval panicked")
				continue
			}
			s := float64(eval.Eval(b, &es))
			if b.STM == Black {
				s = -s
			}
			e.r.Evaluations++
			e.r.Count("coeffs:"+strings.SplitN(name, "(", 2)[0], 1)
			d := math.Abs(f - s)
			maxEnv = math.Max(maxEnv, d)
			if !(d < 2.25) {
				e.fail("failing-input", ops, fmt.Sprintf("float %s int(white-relative) %d", strconv.FormatFloat(f, 'g', 17, 64), int(s)), answers[i],
					"float evaluation outside the 2.25 envelope of the integer evaluation")
			}
			qf := strings.Fields(answers[i])
			if len(qf) != 2 {
				e.fail("broken-correspondence", ops, "", answers[i], "malformed answer from the driver")
				continue
			}
			// the hypothesis of int_vs_exact, evaluated by the Lean model on this position
			if qf[1] == "1" {
				e.r.Count("A:noInt16Wrap holds ("+strings.SplitN(name, "(", 2)[0]+")", 1)
			} else {
				e.r.Count("A:noInt16Wrap FAILS ("+strings.SplitN(name, "(", 2)[0]+")", 1)
				if useShipped {
					e.r.Notes = append(e.r.Notes, "noInt16Wrap fails with the shipped coefficients on "+fens[i])
				}
			}
			q, ok := parseRat(qf[0])
			if !ok {
				e.fail("broken-correspondence", ops, "", answers[i], "malformed rational from the driver")
				continue
			}
			dm := math.Abs(f - q)
			if useShipped {
				maxModel = math.Max(maxModel, dm)
				if !(dm <= 1+1e-6) {
					e.fail("broken-correspondence", ops, strconv.FormatFloat(f, 'g', 17, 64), answers[i],
						"float evaluation further than 1 from the exact-rational model with the table sigmoid")
				}
			} else {
				maxTight = math.Max(maxTight, dm)
				if !(dm <= 1e-6) {
					e.fail("broken-correspondence", ops, strconv.FormatFloat(f, 'g', 17, 64), answers[i],
						"float evaluation differs from the exact-rational model (no sigmoid contribution)")
				}
			}
			if f != 0 {
				fs := strings.Fields(fens[i])
				e.r.Nontrivial("A|" + name + "|" + fs[0] + fs[1] + fs[4])
			}
			e.r.Sample(map[string]any{"suite": "A", "fen": fens[i], "coeffs": name, "int_white_relative": int(s),
				"float_minus_int_milli": int(math.Round((f - s) * 1000))}, 6)
		}
		done += n
	}
	e.r.Count("A:max|float-int| (milli-cp)", int(math.Ceil(maxEnv*1000)))
	e.r.Count("A:max|float-exactQ| shipped (milli-cp)", int(math.Ceil(maxModel*1000)))
	e.r.Count("A:max|float-exactQ| no-sigmoid (pico-cp)", int(math.Ceil(maxTight*1e12)))
}

// ---------------------------------------------------------------------------------------------
// suite B: the sigmoid through the real code

func (e *env) suiteB() {
	// all black men at home; white without the d2,e2,f2 pawns (shelter penalty 3 → black's king-attack
	// score = 3·KingShelter), white's b1 knight on e6 attacking d8/f8 (→ white's score = KingAttackPieces[ph][0]);
	// full material: mgPhase = 24, fifty = 0 → Eval = mg difference.
	const fen = "rnbqkbnr/pppppppp/4N3/8/8/8/PPP3PP/R1BQKBNR w KQkq - 0 1"
	b := &board.Board{}
	if err := board.ParseFEN(b, []byte(fen)); err != nil {
		panic(err)
	}
	worst := 0.0
	for n := -32768; n <= 32767; n++ {
		ef := tuning.EngineRep{}
		ef.KingAttackPieces[0][0] = float64(n)
		ef.KingShelter[0] = -1000
		es := eval.CoeffSet[Score]{}
		es.KingAttackPieces[0][0] = Score(n)
		es.KingShelter[0] = -1000
		sigF := ef.Eval(b) // σ(n) − σ(−3000) = σ(n) − 6e-262
		tab := float64(eval.Eval(b, &es))
		want := 600.0 / (1.0 + math.Exp(-0.2*(float64(n)-50.0)))
		ops := []string{fmt.Sprintf("KingAttackPieces[0][0]=%d KingShelter[0]=-1000 others 0", n), "parsefen " + fen, "EngineRep.Eval", "Eval[Score]"}
		if math.Abs(sigF-want) > 1e-9 {
			e.fail("broken-correspondence", ops, strconv.FormatFloat(sigF, 'g', 17, 64), strconv.FormatFloat(want, 'g', 17, 64),
				"the crafted position does not isolate the float sigmoid (harness assumption)")
		}
		d := math.Abs(sigF - tab)
		worst = math.Max(worst, d)
		e.r.Evaluations++
		if n >= 0 && n < 100 {
			e.r.Nontrivial(fmt.Sprintf("B|%d", n))
		}
		if !(d <= 0.5) {
			e.fail("failing-input", ops, strconv.FormatFloat(sigF, 'g', 17, 64), strconv.Itoa(int(tab)),
				"TableNear violated: float sigmoid further than 1/2 from the integer table")
		}
	}
	e.r.Count("B:max|sigma-table| (milli)", int(math.Ceil(worst*1000)))
	e.r.Count("B:integers checked", 65536)
}

// ---------------------------------------------------------------------------------------------
// suite C: the parameter vector

func (e *env) randomTargets(rng *rand.Rand) []string {
	var t []string
	switch rng.IntN(6) {
	case 0:
		return append([]string{}, tuning.DefaultTargets...)
	case 1:
		return nil
	case 2:
		return append([]string{}, e.names...)
	}
	for _, n := range e.names {
		if rng.IntN(2) == 0 {
			t = append(t, n)
		}
	}
	rng.Shuffle(len(t), func(i, j int) { t[i], t[j] = t[j], t[i] })
	if rng.IntN(4) == 0 && len(t) > 0 {
		t = append(t, t[rng.IntN(len(t))]) // duplicate
	}
	if rng.IntN(4) == 0 {
		t = append(t, "NoSuchField")
	}
	return t
}

// safely runs f and reports whether it panicked.
func safely(f func()) (panicked bool) {
	defer func() {
		if r := recover(); r != nil {
			panicked = true
		}
	}()
	f()
	return false
}

func (e *env) suiteC(rounds int) {
	rng := e.c.Rng
	nCells := len(e.cells)
	// EngineCoeffs
	{
		var ec tuning.EngineRep
		if safely(func() { ec = tuning.EngineCoeffs() }) {
			e.fail("failing-input", []string{"EngineCoeffs"}, "panic", "", "EngineCoeffs panicked")
		}
		got := intsLine(raw(&ec, nCells))
		want := e.m.Ask("ec")
		e.r.Evaluations++
		if got != want {
			e.fail("broken-correspondence", []string{"EngineCoeffs"}, got, want, "EngineCoeffs differs from the model")
		}
		// directly: leaf by leaf float64(int16)
		k := 0
		okDirect := true
		var walk func(v reflect.Value)
		walk = func(v reflect.Value) {
			switch v.Kind() {
			case reflect.Struct:
				for i := 0; i < v.NumField(); i++ {
					walk(v.Field(i))
				}
			case reflect.Array:
				for i := 0; i < v.Len(); i++ {
					walk(v.Index(i))
				}
			default:
				if raw(&ec, nCells)[k] != float64(v.Int()) {
					okDirect = false
				}
				k++
			}
		}
		walk(reflect.ValueOf(eval.Coefficients))
		if !okDirect || k != nCells {
			e.fail("failing-input", []string{"EngineCoeffs"}, got, "", "EngineCoeffs is not the shipped coefficient set converted to float64")
		}
	}
	for round := 0; round < rounds; round++ {
		var ef tuning.EngineRep
		cells := raw(&ef, nCells)
		// all leaves distinct, so that a cell is identified by its value
		perm := rng.Perm(nCells)
		base := rng.IntN(1 << 20)
		for i := range cells {
			cells[i] = float64(base + perm[i] - nCells/2)
		}
		targets := e.randomTargets(rng)
		ta := targetsArg(targets)
		leavesLine := intsLine(cells)
		ops := []string{"struct leaves base=" + strconv.Itoa(base), "targets " + ta}
		e.r.Evaluations++
		e.r.Count(fmt.Sprintf("C:targets=%d", min(len(targets), 18)), 1)

		// ToVector
		var vec []float64
		if safely(func() { vec = ef.ToVector(targets).VectorToSlice() }) {
			e.fail("failing-input", append(ops, "ToVector"), "panic", "", "ToVector panicked")
			continue
		}
		if want := e.m.Ask("tv " + ta + " | " + leavesLine); intsLine(vec) != want {
			e.fail("broken-correspondence", append(ops, "ToVector"), intsLine(vec), want, "ToVector differs from the model")
		}
		if len(vec) > 0 {
			e.r.Nontrivial("C|" + ta + "|" + strconv.Itoa(base))
		}

		// TunedParams: identity of every yielded pointer by its address
		var gotTP []string
		okIdx := true
		i := 0
		basePtr := uintptr(unsafe.Pointer(&ef))
		tpPanic := safely(func() {
			for k, ptr := range ef.TunedParams(targets) {
				off := (uintptr(unsafe.Pointer(ptr)) - basePtr) / 8
				if int(off) >= nCells {
					gotTP = append(gotTP, fmt.Sprintf("%d:outside", k))
					okIdx = false
					continue
				}
				ci := e.cells[off]
				ps := make([]string, len(ci.path))
				for j, x := range ci.path {
					ps[j] = strconv.Itoa(x)
				}
				gotTP = append(gotTP, fmt.Sprintf("%d:%d:%s", k, ci.field, strings.Join(ps, ".")))
				// the property, directly: index k, pointer reads the k-th element of ToVector …
				if k != i || k >= len(vec) || *ptr != vec[k] {
					okIdx = false
				}
				i++
			}
		})
		if tpPanic || i != len(vec) {
			okIdx = false
		}
		// … and writes it: perturb through the pointer, read back through ToVector
		if okIdx && safely(func() {
			j := 0
			for k, ptr := range ef.TunedParams(targets) {
				if j%37 == round%37 { // a sample of the cells each round
					old := *ptr
					*ptr = old + 0.5
					v2 := ef.ToVector(targets).VectorToSlice()
					for x := range v2 {
						exp := vec[x]
						if x == k {
							exp += 0.5
						}
						if v2[x] != exp {
							okIdx = false
						}
					}
					*ptr = old
				}
				j++
			}
		}) {
			okIdx = false
		}
		if !okIdx {
			e.fail("failing-input", append(ops, "TunedParams", "ToVector"), strings.Join(gotTP, " "), "",
				"the i-th yielded pointer is not the cell ToVector maps to index i")
		}
		if want := e.m.Ask("tp " + ta + " | " + leavesLine); strings.Join(gotTP, " ") != want {
			e.fail("broken-correspondence", append(ops, "TunedParams"), strings.Join(gotTP, " "), want, "TunedParams differs from the model")
		}

		// SetVector with a vector of the exact length, longer, shorter
		for _, delta := range []int{0, 1 + rng.IntN(5), -1 - rng.IntN(3)} {
			n := len(vec) + delta
			if n < 0 {
				continue
			}
			v := make([]float64, n)
			for i := range v {
				v[i] = float64(rng.IntN(1<<20) - (1 << 19))
			}
			dst := ef
			st := func() (st string) {
				defer func() {
					if r := recover(); r != nil {
						st = "panic"
					}
				}()
				dst.SetVector(tuning.VectorFromSlice(v), targets)
				return "ok"
			}()
			got := "panic"
			if st == "ok" {
				got = intsLine(raw(&dst, nCells))
			}
			vl := intsLine(v)
			want := e.m.Ask("sv " + ta + " | " + leavesLine + " | " + vl)
			e.r.Count("C:setvector:"+st, 1)
			if got != want {
				e.fail("broken-correspondence", append(ops, "SetVector len="+strconv.Itoa(n)), got, want, "SetVector differs from the model")
			}
			if st == "ok" {
				// ToVector ∘ SetVector = id on the consumed prefix; unselected cells untouched
				var back []float64
				if safely(func() { back = dst.ToVector(targets).VectorToSlice() }) {
					back = nil
				}
				ok := len(back) == len(vec)
				for i := range back {
					if i < len(v) && back[i] != v[i] {
						ok = false
					}
				}
				if !ok {
					e.fail("failing-input", append(ops, "SetVector", "ToVector"), intsLine(back), vl, "ToVector(SetVector(v)) != v")
				}
			} else if delta >= 0 {
				e.fail("failing-input", append(ops, "SetVector len="+strconv.Itoa(n)), "panic", "", "SetVector panicked on a vector that is long enough")
			}
		}
		// SetVector ∘ ToVector = id
		{
			dst := ef
			if safely(func() { dst.SetVector(tuning.VectorFromSlice(append([]float64{}, vec...)), targets) }) {
				e.fail("failing-input", append(ops, "ToVector", "SetVector"), "panic", leavesLine, "SetVector(ToVector(e)) panicked")
			} else if dst != ef {
				e.fail("failing-input", append(ops, "ToVector", "SetVector"), intsLine(raw(&dst, nCells)), leavesLine, "SetVector(ToVector(e)) != e")
			}
		}
	}
}

var tStart = time.Now()

// timed runs f and, when VERIF_TIMING is set, reports the wall time since the previous mark on stderr.
func timed(name string, f func()) {
	f()
	if os.Getenv("VERIF_TIMING") != "" {
		fmt.Fprintf(os.Stderr, "timing %s %.1fs\n", name, time.Since(tStart).Seconds())
	}
	tStart = time.Now()
}

func main() {
	c := common.Parse()
	e := &env{c: c}
	e.r = common.NewResult(c, "tunereval", prop)
	e.r.Rule = "A: valid position with non-zero float evaluation (float vs int envelope, float vs exact-rational model); " +
		"B: sigmoid argument inside the table 0..99; C: (struct, target subset) with at least one selected parameter; " +
		"D1: float operation whose result is none of x, y, 0; D3: valid position whose float evaluation is not an integer (compared bit for bit with the float model)"
	e.m = common.StartModel(c.Driver)
	defer e.m.Close()
	e.cells, e.names = layout()
	total := *nFlag
	if total == 0 {
		total = c.Pick(15000, 300000)
	}
	e.suiteB()
	e.suiteC(c.Pick(300, 3000))
	e.suiteA(total)
	// float side (float.go): architecture, IEEE arithmetic unit test, sigmoid hand-over, bit-for-bit evaluation
	timed("A+B+C", func() {})
	e.suiteD0()
	timed("D1", func() { e.suiteD1(c.Pick(40000, 400000)) })
	timed("D2", func() { e.suiteD2(32768) })
	timed("D3", func() { e.suiteD3(c.Pick(5000, 100000)) })
	e.r.Notes = append(e.r.Notes,
		"suite B discharges the hypothesis TableNear of int_vs_exact numerically (outside Lean), through the real sigmoidal[float64] and sigm table",
		"IEEE-754 rounding and math.Exp are measured here, not proved: see the max|float-exactQ| no-sigmoid histogram entry (pico-centipawns)",
		"suite D ties the Lean float model (Model/F64.lean, Model/EvalF.lean opsF) to Eval[float64] bit for bit; D2 hands Go's float sigmoid over to the driver, which checks TableNear in exact rationals")
	e.r.Write(c)
}
