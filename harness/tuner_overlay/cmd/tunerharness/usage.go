// usage.go — USAGE PATTERNS of the Chunker API (C20).
//
// The property quantifies over "reading all chunks of all batches of an epoch"; it does not say in which
// order the chunks are opened, read and closed.  The tuner client (tools/tuner/client/client.go) runs
// -threads worker goroutines on ONE *epd.Chunker, each with its own open Chunk, each consuming a line
// (Parse, Eval …) before its next Read.  The sessions below therefore drive the unmodified
// Open/Read/Close/Rewind through
//
//	seq         open – read to EOF – close, one chunk after the other
//	ilv-rr      several chunks open at once, one line per chunk per turn          (single goroutine)
//	ilv-rand    several chunks open at once, the next reader picked at random     (single goroutine)
//	ilv-burst   several chunks open at once, k lines from one, then switch        (single goroutine)
//	conc        W goroutines pulling chunk jobs from a queue, as client.go does
//	reopen-seq  open, read part, close early (or Rewind), open again, read all; sequentially
//	reopen-ilv  the same while other chunks are open and being read
//
// on files whose chunks refill their buffer once (file < buffer), a few times (file > 32 MiB with the
// real buffer) or very often (buffer shortened IN PLACE with VerifShrinkBuf: the allocation Open made is
// kept, so whatever the implementation shares between chunks stays shared).
//
// Oracle per chunk (independent of the usage pattern, because chunks are independent objects):
//   - the delivered sequence equals, byte for byte, the lines manifest[shuffle(ix)] (ix in the chunk's
//     range) in file order;
//   - "ok <n> <hash>" (hash over every line and the buffer window after each Read) equals the Lean
//     model's answer to `open epoch start end buflen hash`;
//   - a line returned by Read is still intact when the same chunk is read next (the worker is
//     still parsing it while other workers read their chunks);
//
// and per session that covers an epoch: the shuffled chunk ranges hit every manifest index exactly once and
// the multiset of everything delivered is the multiset of the non-blank lines of the file.
package main

import (
	"bytes"
	"fmt"
	"io"
	"os"
	"runtime"
	"sort"
	"strings"
	"sync"
	"sync/atomic"

	"github.com/paulsonkoly/chess-3/tools/tuner/common"
	"github.com/paulsonkoly/chess-3/tools/tuner/epd"
	"github.com/paulsonkoly/chess-3/tools/tuner/tuning"
)

type usageFile struct {
	fc        *fileCase
	ch        *epd.Chunker
	man       [][2]int64
	specCount map[string]int
	desc      string
	kind      string // small | multibatch | mid | real32 | huge
	model     map[string]string
	m         *common.Model
}

func (uf *usageFile) ask(op string) string {
	if a, ok := uf.model[op]; ok {
		return a
	}
	a := uf.m.Ask(op)
	uf.model[op] = a
	return a
}

type usageJob struct {
	r       tuning.Range
	epoch   int
	bufLen  int
	batch   int  // ordinal of the batch the chunk belongs to (barrier option)
	extra   bool // duplicate / overlapping / other-epoch range: checked per chunk, not part of the exactly-once union
	wantIdx []int
	want    [][]byte // sub-slices of the file contents
	bytes   int      // their total length
}

func (uf *usageFile) newJob(r tuning.Range, epoch, bufLen, batch int, extra bool) *usageJob {
	j := &usageJob{r: r, epoch: epoch, bufLen: bufLen, batch: batch, extra: extra}
	n := uint64(len(uf.man))
	for ix := r.Start; ix < r.End; ix++ {
		j.wantIdx = append(j.wantIdx, int(epd.VerifShuffleIndex(uint64(ix), n, uint64(epoch))))
	}
	sort.Ints(j.wantIdx) // the manifest is in file order: sorting indices = sorting by start offset
	j.want = make([][]byte, len(j.wantIdx))
	for i, k := range j.wantIdx {
		j.want[i] = uf.fc.data[uf.man[k][0] : uf.man[k][1]-1]
		j.bytes += len(j.want[i])
	}
	return j
}

func (j *usageJob) op() string {
	return fmt.Sprintf("open %d %d %d %d hash", j.epoch, j.r.Start, j.r.End, j.bufLen)
}

// chunkRun is the state of one chunk job while a session runs.
type chunkRun struct {
	job            *usageJob
	c              *epd.Chunk
	h              uint64
	got            [][]byte
	arena          []byte
	held, heldCopy []byte // the slice the last Read returned (aliases the buffer) and its copy taken at once
	ws, we         int64
	refills        int
	status         string // "" running | ok | err | panic | openerr
	lateBad        string
	prefixBad      string
	abortAt        int // -1: none; k: after k delivered lines the first attempt is abandoned
	abortRewind    bool
	attempts       int
}

type sessStats struct {
	events atomic.Int64 // a refill of one chunk while another open chunk is in the middle of its lines
	active atomic.Int64 // conc only: chunks currently open
}

func (r *chunkRun) open(ch *epd.Chunker) (ok bool) {
	defer func() {
		if recover() != nil {
			r.status, ok = "panic", false
		}
	}()
	c, err := ch.Open(r.job.epoch, r.job.r.Start, r.job.r.End)
	if err != nil {
		r.status = "openerr"
		return false
	}
	if r.job.bufLen != epd.VerifBackingBytes {
		c.VerifShrinkBuf(r.job.bufLen)
	}
	r.c = c
	r.reset()
	r.attempts++
	return true
}

func (r *chunkRun) close() {
	r.c.VerifUnshrinkBuf()
	r.c.Close()
}

func (r *chunkRun) reset() {
	r.h = fnvInit
	r.got = r.got[:0]
	r.arena = r.arena[:0]
	r.held, r.heldCopy = nil, nil
	r.ws, r.we = 0, 0
	r.refills = 0
}

func (r *chunkRun) lateCheck(when string) {
	if r.held != nil && r.lateBad == "" && !bytes.Equal(r.held, r.heldCopy) {
		r.lateBad = fmt.Sprintf("line #%d was %q when Read returned it and %q %s (no Read of this chunk in between)",
			len(r.got)-1, trunc(string(r.heldCopy), 80), trunc(string(r.held), 80), when)
	}
}

// midread: opened, at least one line delivered, not finished — a refill of another chunk must not disturb it.
func (r *chunkRun) midread() bool { return r.status == "" && r.c != nil && r.held != nil }

// maybeAbort abandons the first attempt after abortAt lines: close early + open again, or Rewind.
func (r *chunkRun) maybeAbort(ch *epd.Chunker) (finished bool) {
	if r.abortAt < 0 || len(r.got) != r.abortAt {
		return false
	}
	r.abortAt = -1
	r.lateCheck("when the chunk was closed early / rewound")
	if r.prefixBad == "" {
		if len(r.got) > len(r.job.want) {
			r.prefixBad = fmt.Sprintf("%d lines before the early close, the chunk has %d", len(r.got), len(r.job.want))
		}
		for i := 0; i < len(r.got) && i < len(r.job.want) && r.prefixBad == ""; i++ {
			if !bytes.Equal(r.got[i], r.job.want[i]) {
				r.prefixBad = fmt.Sprintf("first attempt (closed after %d lines): line #%d = %q, expected %q",
					len(r.got), i, trunc(string(r.got[i]), 80), trunc(string(r.job.want[i]), 80))
			}
		}
	}
	if r.abortRewind {
		if err := r.c.Rewind(); err != nil {
			r.status = "err"
			r.close()
			return true
		}
		r.reset()
		r.attempts++
		return false
	}
	r.close()
	return !r.open(ch)
}

// step does one Read; finished = the run is over (EOF, error or panic), refilled = the window moved.
func (r *chunkRun) step(ch *epd.Chunker) (finished, refilled bool) {
	defer func() {
		if rec := recover(); rec != nil {
			r.status = "panic"
			r.close()
			finished = true
		}
	}()
	r.lateCheck("just before the next Read of the same chunk")
	l, err := r.c.Read()
	if err == io.EOF {
		r.held = nil
		r.status = "ok"
		r.close()
		return true, false
	}
	if err != nil {
		r.status = "err"
		r.close()
		return true, false
	}
	ms, me := r.c.VerifWindow()
	if ms != r.ws || me != r.we {
		r.refills++
		refilled = true
		r.ws, r.we = ms, me
	}
	if cap(r.arena)-len(r.arena) < len(l) { // copies live in a few large blocks, not one allocation per line
		r.arena = make([]byte, 0, max(r.job.bytes+64, 2*len(l), 4096))
	}
	r.arena = append(r.arena, l...)
	cp := r.arena[len(r.arena)-len(l) : len(r.arena) : len(r.arena)]
	r.got = append(r.got, cp)
	r.held, r.heldCopy = l, cp
	r.h = fnvLine(fnvU64(fnvU64(r.h, uint64(ms)), uint64(me)), cp)
	return r.maybeAbort(ch), refilled
}

type usagePattern struct {
	name    string
	maxOpen int // chunks open at the same time (1 = sequential)
	pick    int // 0 round-robin, 1 random, 2 bursts
	burst   int // bursts: 1..burst lines from one chunk, then switch
	barrier bool
	churn   bool
	workers int // conc
	yield   int // conc: Gosched every yield lines (0 = never)
}

func (p usagePattern) String() string {
	switch {
	case p.workers > 0:
		return fmt.Sprintf("%s(workers=%d yield=%d)", p.name, p.workers, p.yield)
	case p.maxOpen == 1:
		return p.name
	}
	return fmt.Sprintf("%s(open=%d burst=%d barrier=%v)", p.name, p.maxOpen, p.burst, p.barrier)
}

var usageNames = []string{"seq", "ilv-rr", "ilv-rand", "ilv-burst", "conc", "reopen-seq", "reopen-ilv"}

// mkPattern fills in the parameters; perBatch = number of chunks of the largest batch in the session.
func mkPattern(ctx *common.Ctx, name string, perBatch int) usagePattern {
	p := usagePattern{name: name, maxOpen: 1}
	wide := func() {
		if perBatch < 2 {
			perBatch = 2
		}
		if ctx.Rng.IntN(2) == 0 { // all chunks of a batch open at once, next batch when all are done
			p.maxOpen, p.barrier = perBatch, true
		} else { // a pool of W readers on a job queue that runs across batch boundaries
			p.maxOpen = 2 + ctx.Rng.IntN(perBatch-1)
		}
	}
	switch name {
	case "ilv-rr":
		wide()
	case "ilv-rand":
		wide()
		p.pick = 1
	case "ilv-burst":
		wide()
		p.pick = 2
		p.burst = []int{2, 3, 7, 50, 1000}[ctx.Rng.IntN(5)]
	case "conc":
		p.workers = 2 + ctx.Rng.IntN(max(perBatch, 8)-1)
		p.yield = []int{0, 1, 3, 64}[ctx.Rng.IntN(4)]
	case "reopen-seq":
		p.churn = true
	case "reopen-ilv":
		wide()
		p.churn = true
		p.pick = ctx.Rng.IntN(3)
		p.burst = 1 + ctx.Rng.IntN(20)
	}
	return p
}

func runSched(ctx *common.Ctx, ch *epd.Chunker, runs []*chunkRun, p usagePattern, st *sessStats) {
	var open []*chunkRun
	next, cur, left := 0, -1, 0
	for {
		for len(open) < p.maxOpen && next < len(runs) {
			if p.barrier && len(open) > 0 && runs[next].job.batch != open[0].job.batch {
				break
			}
			r := runs[next]
			next++
			if r.open(ch) && !r.maybeAbort(ch) { // abortAt == 0: closed again before the first Read
				open = append(open, r)
			}
		}
		if len(open) == 0 {
			return
		}
		switch p.pick {
		case 0:
			cur = (cur + 1) % len(open)
		case 1:
			cur = ctx.Rng.IntN(len(open))
		default:
			if left <= 0 || cur < 0 || cur >= len(open) {
				cur = ctx.Rng.IntN(len(open))
				left = 1 + ctx.Rng.IntN(p.burst)
			}
			left--
		}
		r := open[cur]
		fin, refilled := r.step(ch)
		if refilled {
			for _, o := range open {
				if o != r && o.midread() {
					st.events.Add(1)
					break
				}
			}
		}
		if fin {
			open = append(open[:cur], open[cur+1:]...)
			cur-- // round-robin continues with the chunk that slid into this slot
			left = 0
		}
	}
}

func runConc(ch *epd.Chunker, runs []*chunkRun, p usagePattern, st *sessStats) {
	q := make(chan *chunkRun)
	var wg sync.WaitGroup
	for w := 0; w < p.workers; w++ {
		wg.Add(1)
		go func() {
			defer wg.Done()
			for r := range q { // one clientWorker: Open, Read … EOF, Close, next job
				if !r.open(ch) {
					continue
				}
				st.active.Add(1)
				if !r.maybeAbort(ch) {
					for k := 1; ; k++ {
						fin, refilled := r.step(ch)
						if refilled && st.active.Load() > 1 {
							st.events.Add(1)
						}
						if fin {
							break
						}
						if p.yield > 0 && k%p.yield == 0 {
							runtime.Gosched()
						}
					}
				}
				st.active.Add(-1)
			}
		}()
	}
	for _, r := range runs {
		q <- r
	}
	close(q)
	wg.Wait()
}

func refillClass(k int) string {
	switch {
	case k <= 1:
		return fmt.Sprint(k)
	case k == 2:
		return "2"
	case k < 10:
		return "3-9"
	}
	return "10+"
}

func linesDiff(got, want [][]byte) string {
	for i := 0; i < len(got) && i < len(want); i++ {
		if !bytes.Equal(got[i], want[i]) {
			return fmt.Sprintf("line #%d of the chunk = %q, the shuffled file view has %q there", i, trunc(string(got[i]), 120), trunc(string(want[i]), 120))
		}
	}
	if len(got) != len(want) {
		return fmt.Sprintf("%d lines delivered, the chunk has %d", len(got), len(want))
	}
	return ""
}

// runSession runs the jobs under one usage pattern and checks every chunk (and the union when cover).
func runSession(ctx *common.Ctx, res *common.Result, uf *usageFile, jobs []*usageJob, p usagePattern, cover bool) {
	runs := make([]*chunkRun, len(jobs))
	for i, j := range jobs {
		runs[i] = &chunkRun{job: j, abortAt: -1}
		if p.churn && ctx.Rng.IntN(3) > 0 {
			runs[i].abortAt = ctx.Rng.IntN(len(j.want) + 1)
			if ctx.Rng.IntN(4) == 0 {
				runs[i].abortAt = min(ctx.Rng.IntN(3), len(j.want))
			}
			runs[i].abortRewind = ctx.Rng.IntN(3) == 0
		}
	}
	st := &sessStats{}
	if p.workers > 0 {
		runConc(uf.ch, runs, p, st)
	} else {
		runSched(ctx, uf.ch, runs, p, st)
	}

	buf := "real"
	maxRef, lines, reopened := 0, 0, 0
	for _, r := range runs {
		if r.job.bufLen != epd.VerifBackingBytes {
			buf = "shrunk"
		}
		maxRef = max(maxRef, r.refills)
		lines += len(r.got)
		if r.attempts > 1 {
			reopened++
		}
	}
	sdesc := fmt.Sprintf("usage %s: %d chunks, buffer %s", p, len(jobs), buf)
	res.Count("usage-sessions", 1)
	res.Count("usage-session:"+uf.kind+":"+p.name, 1)
	res.Count(fmt.Sprintf("usage:%s|refills/chunk=%s|buf=%s", p.name, refillClass(maxRef), buf), 1)
	res.Count("usage-chunk-runs", len(runs))
	res.Count("usage-lines", lines)
	res.Count("usage-reopened-or-rewound-chunks", reopened)
	if ev := int(st.events.Load()); ev > 0 {
		res.Count("usage-class-hit:refill-while-another-open-chunk-is-midread", 1)
		res.Count("usage-class-hit:"+p.name, 1)
		res.Count("usage-interleaved-refill-events", ev)
		res.Nontrivial(uf.desc + " " + sdesc + fmt.Sprint(jobs[0].epoch))
	}

	reported := 0
	report := func(m common.Mismatch) {
		if reported < 3 {
			fail(m)
		}
		reported++
	}
	note := ""
	if len(uf.fc.data) <= 200 {
		note = fmt.Sprintf("data=%q", uf.fc.data)
	}
	for _, r := range runs {
		res.Evaluations++
		j := r.job
		impl := r.status
		if r.status == "ok" {
			impl = fmt.Sprintf("ok %d %d", len(r.got), r.h)
		}
		bad := ""
		switch {
		case r.status != "ok":
			bad = "Open/Read ended with " + r.status + fmt.Sprintf(" after %d lines", len(r.got))
		case r.prefixBad != "":
			bad = r.prefixBad
		case linesDiff(r.got, j.want) != "":
			bad = linesDiff(r.got, j.want)
		case r.lateBad != "":
			bad = r.lateBad
		}
		model := uf.ask(j.op())
		if bad != "" {
			report(common.Mismatch{Property: prop, Kind: "failing-input", Ops: []string{uf.desc, sdesc, j.op()},
				Impl: bad, Model: trunc(model, 200), Spec: "the lines manifest[shuffle(ix)], ix in [start,end), in file order, byte for byte", Note: note})
		} else if impl != model {
			report(common.Mismatch{Property: prop, Kind: "broken-correspondence", Ops: []string{uf.desc, sdesc, j.op()},
				Impl: impl, Model: trunc(model, 200), Note: note})
		}
	}
	defer func() {
		if reported > 0 {
			res.Count("usage-failed-sessions:"+uf.kind+":"+p.name, 1)
		}
	}()
	if !cover {
		return
	}
	// the union: every manifest index exactly once, and the delivered multiset = the non-blank lines
	res.Evaluations++
	res.Count("usage-epoch-exactly-once", 1)
	seen := make([]uint8, len(uf.man))
	idxOK := true
	counts := map[string]int{}
	total := 0
	for _, r := range runs {
		if r.job.extra {
			continue
		}
		for _, k := range r.job.wantIdx {
			if seen[k] != 0 {
				idxOK = false
			}
			seen[k] = 1
		}
		for _, l := range r.got {
			counts[string(l)]++
			total++
		}
	}
	for _, s := range seen {
		if s == 0 {
			idxOK = false
		}
	}
	multiOK := total == len(uf.man) && len(counts) == len(uf.specCount)
	if multiOK {
		for k, v := range uf.specCount {
			if counts[k] != v {
				multiOK = false
				break
			}
		}
	}
	if !idxOK || !multiOK {
		report(common.Mismatch{Property: prop, Kind: "failing-input", Ops: []string{uf.desc, sdesc, fmt.Sprintf("epoch %d", jobs[0].epoch)},
			Impl: fmt.Sprintf("delivered %d lines (%d distinct); index coverage ok=%v multiset ok=%v", total, len(counts), idxOK, multiOK),
			Spec: fmt.Sprintf("every one of the %d non-blank lines exactly once", len(uf.man)), Note: note})
	}
}

// epochJobs: the chunk jobs of a whole epoch (or of the batches [b0, b1)) with the real Batches/Chunks.
func (uf *usageFile) epochJobs(epoch, bufLen, b0, b1 int) (jobs []*usageJob, perBatch int) {
	bi := 0
	for b := range tuning.Batches(len(uf.man)) {
		if bi >= b0 && bi < b1 {
			k := 0
			for c := range tuning.Chunks(b) {
				jobs = append(jobs, uf.newJob(c, epoch, bufLen, bi, false))
				k++
			}
			perBatch = max(perBatch, k)
		}
		bi++
	}
	return
}

func usageEpoch(ctx *common.Ctx) int {
	if ctx.Rng.IntN(4) == 0 {
		return int(ctx.Rng.Uint64() >> 1)
	}
	return ctx.Rng.IntN(8)
}

// usageSmall: files with a few hundred lines at most have a single chunk under the real constants, so the
// sessions use an arbitrary partition of [0,n) into ranges (Open accepts any range), sometimes plus a
// duplicate / overlapping / other-epoch range (two workers on the same job, a worker already in the next epoch).
func usageSmall(ctx *common.Ctx, res *common.Result, uf *usageFile) {
	n := len(uf.man)
	if n < 2 {
		return
	}
	for s := 0; s < 2; s++ {
		k := 2 + ctx.Rng.IntN(min(n, 6)-1)
		cuts := ctx.Rng.Perm(n - 1)[:k-1]
		sort.Ints(cuts)
		epoch := usageEpoch(ctx)
		bufLen := epd.VerifBackingBytes
		if ctx.Rng.IntN(3) > 0 {
			bufLen = uf.fc.maxLen + 1 + ctx.Rng.IntN(64)
			if ctx.Rng.IntN(3) == 0 {
				bufLen = uf.fc.maxLen + 1 + ctx.Rng.IntN(2000)
			}
		}
		var jobs []*usageJob
		prev := 0
		for i := 0; i <= len(cuts); i++ {
			end := n
			if i < len(cuts) {
				end = cuts[i] + 1
			}
			jobs = append(jobs, uf.newJob(tuning.Range{Start: prev, End: end}, epoch, bufLen, 0, false))
			prev = end
		}
		if ctx.Rng.IntN(3) == 0 {
			a := ctx.Rng.IntN(n)
			b := a + ctx.Rng.IntN(n-a+1)
			e2 := epoch
			if ctx.Rng.IntN(2) == 0 {
				e2 = epoch + 1
			}
			x := uf.newJob(tuning.Range{Start: a, End: b}, e2, bufLen, 0, true)
			at := ctx.Rng.IntN(len(jobs) + 1)
			jobs = append(jobs[:at], append([]*usageJob{x}, jobs[at:]...)...)
		}
		p := mkPattern(ctx, usageNames[ctx.Rng.IntN(len(usageNames))], len(jobs))
		runSession(ctx, res, uf, jobs, p, true)
	}
}

// usageBig: real Batches/Chunks of the batches [b0,b1); every usage pattern once per buffer variant.  Two of
// the patterns (chosen by the seed) run the whole range — with cover, the exactly-once check of the epoch —
// the others one batch of it (Open allocates and clears 32 MiB per chunk: the number of opens is what costs).
func usageBig(ctx *common.Ctx, res *common.Result, uf *usageFile, bufLens []int, names []string, b0, b1 int, cover bool) {
	for _, bufLen := range bufLens {
		epoch := usageEpoch(ctx) // one epoch per buffer variant: the model's answers are reused by every pattern
		jobs, perBatch := uf.epochJobs(epoch, bufLen, b0, b1)
		if len(jobs) == 0 {
			continue
		}
		nb := jobs[len(jobs)-1].batch - jobs[0].batch + 1
		whole := ctx.Rng.Perm(len(names))[:2]
		for i, name := range names {
			if i == whole[0] || i == whole[1] || nb == 1 {
				runSession(ctx, res, uf, jobs, mkPattern(ctx, name, perBatch), cover)
				continue
			}
			b := jobs[0].batch + ctx.Rng.IntN(nb)
			var sub []*usageJob
			for _, j := range jobs {
				if j.batch == b {
					sub = append(sub, j)
				}
			}
			runSession(ctx, res, uf, sub, mkPattern(ctx, name, len(sub)), false)
		}
	}
}

// genLines writes nLines non-blank lines of lo..hi bytes (plus 2 % blank ones) quickly; contents: line number + filler that
// differs from line to line, so a slice taken at a wrong offset is never mistaken for the right line.
func genLines(ctx *common.Ctx, dir string, id, nLines, lo, hi int) *fileCase {
	fc := &fileCase{path: fmt.Sprintf("%s/f%d.epd", dir, id)}
	buf := make([]byte, 0, nLines*(lo+hi+2)/2+64)
	const alpha = "abcdefghijklmnopqrstuvwxyzABCDEFGHIJKLMNOPQRSTUVWXYZ0123456789 -/;."
	for i := 0; i < nLines; i++ {
		for ctx.Rng.IntN(50) == 0 {
			buf = append(buf, '\n')
			fc.blank++
		}
		n := lo + ctx.Rng.IntN(hi-lo+1)
		fc.maxLen = max(fc.maxLen, n)
		at := len(buf)
		buf = append(buf, fmt.Sprintf("%d|", i)...)
		x := uint64(i)*0x9e3779b97f4a7c15 + 1
		for len(buf)-at < n {
			x ^= x << 13
			x ^= x >> 7
			x ^= x << 17
			buf = append(buf, alpha[x%uint64(len(alpha))])
		}
		buf = append(buf[:at+n], '\n')
	}
	fc.data = buf
	if err := os.WriteFile(fc.path, fc.data, 0o644); err != nil {
		panic(err)
	}
	return fc
}

// ---- ByLines: several sequential readers alive at once (server.go keeps one per stream) ----

// byLinesSession interleaves Read (and Rewind) of several ByLines readers over the given files; every
// reader must deliver exactly the non-blank lines of its file in order.  Files must have no line ≥ 4096.
func byLinesSession(ctx *common.Ctx, res *common.Result, fcs []*fileCase) {
	type rd struct {
		fc   *fileCase
		b    *epd.ByLines
		want [][]byte
		pos  int
		held []byte
		cp   []byte
		bad  string
		done bool
	}
	var rs []*rd
	for _, fc := range fcs {
		b, err := epd.OpenByLines(fc.path)
		if err != nil {
			continue
		}
		rs = append(rs, &rd{fc: fc, b: b, want: specLines(fc.data)})
	}
	live := len(rs)
	for live > 0 {
		r := rs[ctx.Rng.IntN(len(rs))]
		if r.done {
			continue
		}
		if r.held != nil && r.bad == "" && !bytes.Equal(r.held, r.cp) {
			r.bad = fmt.Sprintf("line #%d changed from %q to %q before the next Read of the same reader", r.pos-1, trunc(string(r.cp), 80), trunc(string(r.held), 80))
		}
		if r.pos > 0 && ctx.Rng.IntN(200) == 0 {
			r.b.Rewind()
			r.pos, r.held = 0, nil
			res.Count("bylines-rewinds", 1)
			continue
		}
		l, err := func() (l []byte, err error) {
			defer func() {
				if rec := recover(); rec != nil {
					err = fmt.Errorf("panic: %v", rec)
				}
			}()
			return r.b.Read()
		}()
		if err != nil {
			if err != io.EOF && r.bad == "" {
				r.bad = "Read: " + err.Error()
			}
			if r.pos != len(r.want) && r.bad == "" {
				r.bad = fmt.Sprintf("EOF after %d lines, the file has %d", r.pos, len(r.want))
			}
			r.done = true
			r.b.Close()
			live--
			continue
		}
		if r.bad == "" && (r.pos >= len(r.want) || !bytes.Equal(l, r.want[r.pos])) {
			w := "<nothing: past the last line>"
			if r.pos < len(r.want) {
				w = string(r.want[r.pos])
			}
			r.bad = fmt.Sprintf("line #%d = %q, the file has %q", r.pos, trunc(string(l), 80), trunc(w, 80))
		}
		r.held, r.cp = l, append([]byte(nil), l...)
		r.pos++
	}
	res.Count("bylines-interleaved-sessions", 1)
	res.Count("bylines-interleaved-readers", len(rs))
	for _, r := range rs {
		res.Evaluations++
		if r.bad != "" {
			fail(common.Mismatch{Property: prop, Kind: "failing-input",
				Ops:  []string{fmt.Sprintf("file bytes=%d lines=%d", len(r.fc.data), len(r.want)), fmt.Sprintf("ByLines: %d readers open at once, reads interleaved at random", len(rs))},
				Impl: r.bad, Spec: "the non-blank lines of the file in order, byte for byte"})
		}
	}
}

// chunkersConc builds the Chunkers of several files in concurrent goroutines and compares the manifests
// with those built one after the other.
func chunkersConc(res *common.Result, fcs []*fileCase) {
	type out struct {
		man [][2]int64
		err bool
	}
	build := func(fc *fileCase) (o out) {
		defer func() {
			if recover() != nil {
				o = out{err: true, man: [][2]int64{{-1, -1}}} // differs from every genuine outcome
			}
		}()
		ch, err := epd.NewChunker(fc.path)
		if err != nil {
			return out{err: true}
		}
		return out{man: ch.VerifManifest()}
	}
	seq := make([]out, len(fcs))
	for i, fc := range fcs {
		seq[i] = build(fc)
	}
	conc := make([]out, len(fcs))
	var wg sync.WaitGroup
	for i, fc := range fcs {
		wg.Add(1)
		go func() {
			defer wg.Done()
			conc[i] = build(fc)
		}()
	}
	wg.Wait()
	res.Count("newchunker-concurrent-sessions", 1)
	for i := range fcs {
		res.Evaluations++
		same := seq[i].err == conc[i].err && len(seq[i].man) == len(conc[i].man)
		for k := 0; same && k < len(seq[i].man); k++ {
			same = seq[i].man[k] == conc[i].man[k]
		}
		if !same {
			fail(common.Mismatch{Property: prop, Kind: "failing-input",
				Ops:  []string{fmt.Sprintf("file bytes=%d", len(fcs[i].data)), fmt.Sprintf("NewChunker on %d files concurrently", len(fcs))},
				Impl: fmt.Sprintf("manifest of %d entries (err=%v)", len(conc[i].man), conc[i].err),
				Spec: fmt.Sprintf("the manifest built alone: %d entries (err=%v)", len(seq[i].man), seq[i].err)})
		}
	}
}

func usageRule() string {
	return "usage: a session (" + strings.Join(usageNames, "|") + ") in which some chunk refilled its buffer while another open chunk of the same Chunker was between two of its Reads"
}
