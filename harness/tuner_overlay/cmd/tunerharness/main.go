// Command tunerharness is the correspondence + property harness for C20 (tools/tuner/{epd,tuning}).
//
// It runs the real shuffleIndex / feistel / NewChunker / Open / Read / Batches / Chunks and the compiled
// Lean model (drv_tuner) on the same inputs, and additionally checks the property itself in Go:
// bijectivity of every shuffle image, and "an epoch delivers the multiset of non-blank lines".
package main

import (
	"bytes"
	"flag"
	"fmt"
	"io"
	"math/bits"
	"os"
	"path/filepath"
	"runtime"
	"runtime/debug"
	"sort"
	"strings"
	"sync"
	"time"

	"github.com/paulsonkoly/chess-3/tools/tuner/common"
	"github.com/paulsonkoly/chess-3/tools/tuner/epd"
	"github.com/paulsonkoly/chess-3/tools/tuner/tuning"
)

const prop = "C20"

// ---- FNV-1a, the same folding as Drv/Tuner.lean ----

const fnvInit = uint64(0xcbf29ce484222325)

func fnvByte(h uint64, b byte) uint64 { return (h ^ uint64(b)) * 0x100000001b3 }
func fnvU64(h, v uint64) uint64 {
	for i := 0; i < 8; i++ {
		h = fnvByte(h, byte(v>>(8*i)))
	}
	return h
}
func fnvLine(h uint64, l []byte) uint64 {
	for _, b := range l {
		h = fnvByte(h, b)
	}
	return fnvByte(h, 10)
}

// ---- pool of model drivers (the shuffle images are embarrassingly parallel) ----

type pool struct {
	ms []*common.Model
}

func newPool(ctx *common.Ctx, n int) *pool {
	p := &pool{}
	for i := 0; i < n; i++ {
		p.ms = append(p.ms, common.StartModel(ctx.Driver))
	}
	return p
}

// batch answers all lines, spreading contiguous blocks over the drivers.
func (p *pool) batch(lines []string) []string {
	res := make([]string, len(lines))
	k := len(p.ms)
	var wg sync.WaitGroup
	// interleave so that every driver gets a similar share of cheap and expensive requests
	for w := 0; w < k; w++ {
		wg.Add(1)
		go func(w int) {
			defer wg.Done()
			var mine []string
			var idx []int
			for i := w; i < len(lines); i += k {
				mine = append(mine, lines[i])
				idx = append(idx, i)
			}
			ans := p.ms[w].Batch(mine)
			for j, i := range idx {
				res[i] = ans[j]
			}
		}(w)
	}
	wg.Wait()
	return res
}

func (p *pool) close() {
	for _, m := range p.ms {
		m.Close()
	}
}

// failing inputs are reported before mere correspondence breaks (Result keeps the first 50 only)
var failInputs, failCorr []common.Mismatch

func fail(m common.Mismatch) {
	if m.Kind == "failing-input" {
		if len(failInputs) < 50 {
			failInputs = append(failInputs, m)
		}
	} else if len(failCorr) < 50 {
		failCorr = append(failCorr, m)
	}
}

func flushFails(res *common.Result) {
	for _, m := range failInputs {
		res.Fail(m)
	}
	for _, m := range failCorr {
		res.Fail(m)
	}
	res.Count("mismatch-failing-input", len(failInputs))
	res.Count("mismatch-broken-correspondence", len(failCorr))
}

// ---- shuffle suite ----

type imgJob struct {
	n, seed uint64
	hash    uint64
	bij     bool
	walked  bool // at least one x needed a rejection step
	first   uint64
}

func goImage(n, seed uint64) (h uint64, bij, walked bool, bad uint64) {
	seen := make([]uint64, (n+63)/64)
	h = fnvInit
	bij = true
	bl := 0
	if n > 1 {
		bl = bits.Len64(n - 1)
	}
	for x := uint64(0); x < n; x++ {
		y := epd.VerifShuffleIndex(x, n, seed)
		h = fnvU64(h, y)
		if y >= n || seen[y/64]&(1<<(y%64)) != 0 {
			if bij {
				bad = x
			}
			bij = false
		} else {
			seen[y/64] |= 1 << (y % 64)
		}
		if !walked && n > 1 && epd.VerifFeistel(x, seed, bl) >= n {
			walked = true
		}
	}
	return
}

func shuffleSuite(ctx *common.Ctx, res *common.Result, p *pool) {
	// (a) feistel on random (x, seed, bits)
	{
		cnt := ctx.Pick(20000, 200000)
		lines := make([]string, cnt)
		impl := make([]string, cnt)
		for i := range lines {
			b := ctx.Rng.IntN(65)
			x := ctx.Rng.Uint64()
			switch ctx.Rng.IntN(3) {
			case 0:
				if b < 64 {
					x &= (uint64(1) << b) - 1
				}
			case 1:
				x >>= uint(ctx.Rng.IntN(64))
			}
			seed := ctx.Rng.Uint64()
			if ctx.Rng.IntN(4) == 0 {
				seed = uint64(ctx.Rng.IntN(16))
			}
			lines[i] = fmt.Sprintf("feistel %d %d %d", x, seed, b)
			impl[i] = safe(func() string { return fmt.Sprint(epd.VerifFeistel(x, seed, b)) })
		}
		ans := p.batch(lines)
		for i := range lines {
			res.Evaluations++
			res.Count("feistel", 1)
			if ans[i] != impl[i] {
				fail(common.Mismatch{Property: prop, Kind: "broken-correspondence", Ops: []string{lines[i]}, Impl: impl[i], Model: ans[i]})
			}
		}
		res.Sample(map[string]string{"op": lines[0], "impl": impl[0], "model": ans[0]}, 12)
	}
	// (a') feistel itself: full image over [0, 2^bits) is a bijection (property feistel_bij), and equals the model's
	{
		var ls, impl []string
		for b := 0; b <= ctx.Pick(12, 16); b++ {
			for k := 0; k < 5; k++ {
				seed := uint64(k)
				if k >= 3 {
					seed = ctx.Rng.Uint64()
				}
				size := uint64(1) << b
				seen := make([]bool, size)
				h := fnvInit
				bij := true
				for x := uint64(0); x < size; x++ {
					y := epd.VerifFeistel(x, seed, b)
					h = fnvU64(h, y)
					if y >= size || seen[y] {
						bij = false
					} else {
						seen[y] = true
					}
				}
				op := fmt.Sprintf("fimg %d %d", b, seed)
				res.Evaluations++
				res.Count("feistel-image", 1)
				if b%2 == 1 {
					res.Nontrivial(op)
				}
				if !bij {
					fail(common.Mismatch{Property: prop, Kind: "failing-input", Ops: []string{op},
						Impl: "feistel is not a bijection of [0,2^bits)", Spec: "bijection", Note: fmt.Sprintf("bits=%d seed=%d", b, seed)})
				}
				ls = append(ls, op)
				impl = append(impl, fmt.Sprintf("h %d", h))
			}
		}
		ans := p.batch(ls)
		for i := range ls {
			if ans[i] != impl[i] {
				fail(common.Mismatch{Property: prop, Kind: "broken-correspondence", Ops: []string{ls[i]}, Impl: impl[i], Model: ans[i]})
			}
		}
	}
	// (b) full images, all n up to nmax, epochs 0..7 plus one random 64-bit epoch per n
	nmax := uint64(ctx.Pick(4096, 65536))
	// The model side is the expensive one (Nat shifts go through GMP): it sees every (n, epoch 0..7 + random)
	// up to modelMax; beyond that (n, n%8) and the random epoch, in the thorough tier only for every 16th n
	// and for all n within 2 of a power of two.  The Go side checks bijectivity for all of them.
	modelMax := uint64(ctx.Pick(1024, 4096))
	modelSees := func(n, seed uint64) bool {
		if n <= modelMax {
			return true
		}
		if !(seed == n%8 || seed >= 8) {
			return false
		}
		if n <= 4096 {
			return true
		}
		if n%16 == 5 {
			return true
		}
		for d := uint64(0); d <= 2; d++ {
			if (n+d)&(n+d-1) == 0 || (n-d)&(n-d-1) == 0 {
				return true
			}
		}
		return false
	}
	var jobs []*imgJob
	for n := uint64(1); n <= nmax; n++ {
		for e := uint64(0); e < 8; e++ {
			jobs = append(jobs, &imgJob{n: n, seed: e})
		}
		jobs = append(jobs, &imgJob{n: n, seed: ctx.Rng.Uint64()})
	}
	// Go side in parallel
	{
		var wg sync.WaitGroup
		W := 8
		for w := 0; w < W; w++ {
			wg.Add(1)
			go func(w int) {
				defer wg.Done()
				for i := w; i < len(jobs); i += W {
					j := jobs[i]
					j.hash, j.bij, j.walked, j.first = goImage(j.n, j.seed)
				}
			}(w)
		}
		wg.Wait()
	}
	var lines []string
	var which []*imgJob
	for _, j := range jobs {
		res.Evaluations++
		res.Count("image-bijectivity-go", 1)
		if j.walked {
			res.Nontrivial(fmt.Sprintf("img %d %d", j.n, j.seed))
		}
		if !j.bij {
			fail(common.Mismatch{Property: prop, Kind: "failing-input",
				Ops:  []string{fmt.Sprintf("imgl %d %d", j.n, j.seed)},
				Impl: fmt.Sprintf("not a bijection of [0,%d): first offending x=%d -> %d", j.n, j.first, epd.VerifShuffleIndex(j.first, j.n, j.seed)),
				Spec: "permutation of [0,n)", Note: "n=" + fmt.Sprint(j.n) + " epoch=" + fmt.Sprint(j.seed)})
		}
		if modelSees(j.n, j.seed) {
			lines = append(lines, fmt.Sprintf("img %d %d", j.n, j.seed))
			which = append(which, j)
		}
	}
	ans := p.batch(lines)
	for i, j := range which {
		res.Count("image-vs-model", 1)
		want := fmt.Sprintf("h %d", j.hash)
		if ans[i] != want {
			kind := "broken-correspondence"
			if !j.bij {
				kind = "failing-input"
			}
			full := p.ms[0].Ask(fmt.Sprintf("imgl %d %d", j.n, j.seed))
			var gi []string
			for x := uint64(0); x < j.n && x < 64; x++ {
				gi = append(gi, fmt.Sprint(epd.VerifShuffleIndex(x, j.n, j.seed)))
			}
			fail(common.Mismatch{Property: prop, Kind: kind, Ops: []string{fmt.Sprintf("imgl %d %d", j.n, j.seed)},
				Impl: strings.Join(gi, " "), Model: trunc(full, 400)})
		}
	}
	if len(which) > 0 {
		res.Sample(map[string]string{"op": lines[len(lines)/2], "impl": fmt.Sprintf("h %d", which[len(lines)/2].hash), "model": ans[len(lines)/2]}, 12)
	}
	// (c) huge n near powers of two, single values
	{
		var ls, impl []string
		per := ctx.Pick(8, 64)
		for k := 2; k <= 64; k++ {
			for _, d := range []int{-1, 0, 1} {
				var n uint64
				if k == 64 {
					if d >= 0 {
						continue
					}
					n = ^uint64(0)
				} else {
					n = (uint64(1) << k) + uint64(d)
				}
				for r := 0; r < per; r++ {
					x := ctx.Rng.Uint64N(n)
					seed := ctx.Rng.Uint64()
					if r%4 == 0 {
						seed = uint64(r / 4)
					}
					ls = append(ls, fmt.Sprintf("shuf %d %d %d", x, n, seed))
					y := epd.VerifShuffleIndex(x, n, seed)
					impl = append(impl, fmt.Sprint(y))
					res.Evaluations++
					res.Count("huge-n", 1)
					if y >= n {
						fail(common.Mismatch{Property: prop, Kind: "failing-input", Ops: []string{ls[len(ls)-1]}, Impl: fmt.Sprint(y), Spec: "< n"})
					}
					if epd.VerifFeistel(x, seed, bits.Len64(n-1)) >= n {
						res.Nontrivial(ls[len(ls)-1])
					}
				}
			}
		}
		// degenerate n
		for _, n := range []uint64{0, 1} {
			for _, x := range []uint64{0, 1, 5} {
				ls = append(ls, fmt.Sprintf("shuf %d %d %d", x, n, 3))
				impl = append(impl, fmt.Sprint(epd.VerifShuffleIndex(x, n, 3)))
			}
		}
		ans := p.batch(ls)
		for i := range ls {
			if ans[i] != impl[i] {
				fail(common.Mismatch{Property: prop, Kind: "broken-correspondence", Ops: []string{ls[i]}, Impl: impl[i], Model: ans[i]})
			}
		}
		res.Sample(map[string]string{"op": ls[len(ls)/2], "impl": impl[len(ls)/2], "model": ans[len(ls)/2]}, 12)
	}
}

// ---- reader suite ----

func safe(f func() string) (out string) {
	defer func() {
		if r := recover(); r != nil {
			out = "panic"
		}
	}()
	return f()
}

func trunc(s string, n int) string {
	if len(s) > n {
		return s[:n] + "…"
	}
	return s
}

// specLines is the direct specification: the newline-terminated lines of data, blank ones dropped.
func specLines(data []byte) [][]byte {
	parts := bytes.Split(data, []byte{'\n'})
	parts = parts[:len(parts)-1] // what follows the last '\n' is not a line
	var out [][]byte
	for _, p := range parts {
		if len(p) > 0 {
			out = append(out, p)
		}
	}
	return out
}

type fileCase struct {
	path   string
	data   []byte
	maxLen int // longest line content
	blank  int
	tail   int
}

var odd = []byte("abc\r\x00 \t\xff/")

func randLine(ctx *common.Ctx, n int) []byte {
	l := make([]byte, n)
	mode := ctx.Rng.IntN(3)
	for i := range l {
		var b byte
		switch mode {
		case 0:
			b = byte(32 + ctx.Rng.IntN(95))
		case 1:
			b = byte(ctx.Rng.IntN(256))
		default:
			b = odd[ctx.Rng.IntN(len(odd))]
		}
		if b == '\n' {
			b = '\r'
		}
		l[i] = b
	}
	return l
}

// genFile writes a random data file. style: 0 short lines, 1 mixed with long lines (< 4 KiB),
// 2 contains a line or tail that overflows the bufio buffer (NewChunker must fail).
func genFile(ctx *common.Ctx, dir string, id int, nLines int, style int) *fileCase {
	var buf bytes.Buffer
	fc := &fileCase{path: filepath.Join(dir, fmt.Sprintf("f%d.epd", id))}
	over := -1
	if style == 2 && nLines > 0 {
		over = ctx.Rng.IntN(nLines)
	}
	for i := 0; i < nLines; i++ {
		var n int
		switch r := ctx.Rng.IntN(100); {
		case i == over:
			n = 4096 + ctx.Rng.IntN(3)*1000
		case r < 12:
			n = 0
		case r < 20:
			n = 1
		case style >= 1 && r < 24:
			n = 4095 - ctx.Rng.IntN(3) // 4095 + '\n' exactly fills bufio's buffer
		case style >= 1 && r < 30:
			n = 100 + ctx.Rng.IntN(3900)
		default:
			n = 2 + ctx.Rng.IntN(90)
		}
		if n == 0 {
			fc.blank++
		}
		if n > fc.maxLen {
			fc.maxLen = n
		}
		buf.Write(randLine(ctx, n))
		buf.WriteByte('\n')
	}
	switch ctx.Rng.IntN(6) {
	case 0: // unterminated tail
		fc.tail = 1 + ctx.Rng.IntN(40)
	case 1: // run of blank lines at the end
		k := 1 + ctx.Rng.IntN(3)
		for i := 0; i < k; i++ {
			buf.WriteByte('\n')
		}
		fc.blank += k
	case 2:
		if style == 2 {
			fc.tail = 4096 + ctx.Rng.IntN(2)*100
		} else if style == 1 {
			fc.tail = 4095
		}
	}
	buf.Write(randLine(ctx, fc.tail))
	fc.data = buf.Bytes()
	if err := os.WriteFile(fc.path, fc.data, 0o644); err != nil {
		panic(err)
	}
	return fc
}

// goOpenTrace runs Open + Read to EOF on the real code.
func goOpenTrace(ch *epd.Chunker, epoch, start, end, bufLen int, full bool) (out string, lines [][]byte, refills int) {
	defer func() {
		if r := recover(); r != nil {
			out = fmt.Sprintf("panic %d", len(lines))
		}
	}()
	c, err := ch.Open(epoch, start, end)
	if err != nil {
		if err == epd.ErrChunkInvalid {
			return "invalid", nil, 0
		}
		return "err", nil, 0
	}
	defer c.Close()
	defer c.VerifUnshrinkBuf()
	if bufLen != epd.VerifBackingBytes {
		c.VerifShrinkBuf(bufLen) // in place: the allocation Open made (and anything it shares) is kept
	}
	h := fnvInit
	var parts []string
	lastStart, lastEnd := int64(0), int64(0)
	for {
		l, err := c.Read()
		if err == io.EOF {
			break
		}
		if err != nil {
			return "err", lines, refills
		}
		ms, me := c.VerifWindow()
		if ms != lastStart || me != lastEnd {
			refills++
			lastStart, lastEnd = ms, me
		}
		cp := append([]byte(nil), l...)
		lines = append(lines, cp)
		h = fnvLine(fnvU64(fnvU64(h, uint64(ms)), uint64(me)), cp)
		if full {
			parts = append(parts, fmt.Sprintf("%d:%d:%x", ms, me, cp))
		}
	}
	if full {
		return fmt.Sprintf("ok %d %s", len(lines), strings.Join(parts, ",")), lines, refills
	}
	return fmt.Sprintf("ok %d %d", len(lines), h), lines, refills
}

func multisetKey(ls [][]byte) string {
	ss := make([]string, len(ls))
	for i, l := range ls {
		ss[i] = string(l)
	}
	sort.Strings(ss)
	h := fnvInit
	for _, s := range ss {
		h = fnvLine(h, []byte(s))
	}
	return fmt.Sprintf("%d/%d", len(ss), h)
}

func rangesStr(rs []tuning.Range) string {
	ss := make([]string, len(rs))
	for i, r := range rs {
		ss[i] = fmt.Sprintf("%d-%d", r.Start, r.End)
	}
	return strings.Join(ss, " ")
}

func allRanges(n int) []tuning.Range {
	var out []tuning.Range
	for b := range tuning.Batches(n) {
		for c := range tuning.Chunks(b) {
			out = append(out, c)
		}
	}
	return out
}

// goEpoch runs a whole epoch on the real code; returns "ok <lines> <hash>" and the delivered lines.
func goEpoch(ch *epd.Chunker, epoch, bufLen int, keep bool) (string, [][]byte, int, map[string]int) {
	h := fnvInit
	cnt := 0
	refills := 0
	var all [][]byte
	counts := map[string]int{}
	for _, r := range allRanges(ch.LineCount()) {
		out, lines, rf := goOpenTrace(ch, epoch, r.Start, r.End, bufLen, false)
		if !strings.HasPrefix(out, "ok") {
			return "fail", nil, 0, nil
		}
		refills += rf
		for _, l := range lines {
			h = fnvLine(h, l)
			cnt++
			if keep {
				all = append(all, l)
			} else {
				counts[string(l)]++
			}
		}
	}
	return fmt.Sprintf("ok %d %d", cnt, h), all, refills, counts
}

func readerSuite(ctx *common.Ctx, res *common.Result, m *common.Model, dir string) {
	// batches / chunks against the model (real constants)
	{
		ns := []int{0, 1, 2, 6249, 6250, 6251, 99999, 100000, 100001, 106250, 199999, 200000, 200001, 1000000, 1234567}
		for i := 0; i < ctx.Pick(40, 400); i++ {
			ns = append(ns, ctx.Rng.IntN(3_000_000))
		}
		for _, n := range ns {
			var bs []tuning.Range
			for b := range tuning.Batches(n) {
				bs = append(bs, b)
			}
			op := fmt.Sprintf("batches %d", n)
			impl := rangesStr(bs)
			got := m.Ask(op)
			res.Evaluations++
			res.Count("batches", 1)
			if got != impl {
				fail(common.Mismatch{Property: prop, Kind: partitionKind(bs, 0, n), Ops: []string{op}, Impl: trunc(impl, 300), Model: trunc(got, 300)})
			} else if k := partitionKind(bs, 0, n); k == "failing-input" {
				fail(common.Mismatch{Property: prop, Kind: k, Ops: []string{op}, Impl: trunc(impl, 300), Spec: "contiguous non-empty ranges covering [0,n)"})
			}
			for _, b := range bs {
				var cs []tuning.Range
				for c := range tuning.Chunks(b) {
					cs = append(cs, c)
				}
				op := fmt.Sprintf("chunks %d %d", b.Start, b.End)
				impl := rangesStr(cs)
				got := m.Ask(op)
				res.Evaluations++
				res.Count("chunks", 1)
				if len(cs) > 1 {
					res.Nontrivial(op)
				}
				if got != impl || partitionKind(cs, b.Start, b.End) == "failing-input" {
					fail(common.Mismatch{Property: prop, Kind: partitionKind(cs, b.Start, b.End), Ops: []string{op}, Impl: trunc(impl, 300), Model: trunc(got, 300)})
				}
			}
		}
	}

	// random files
	nFiles := ctx.Pick(60, 600)
	var ring []*fileCase // the last few readable files stay on disk for the multi-reader sessions
	// Open allocates 32 MiB per chunk.  Of a fresh allocation only the pages the file fills are ever touched,
	// but an allocation the collector recycles is cleared in full first (≈ 5 ms, > 90 % of the time of this
	// loop).  So no collection during the first 150 small files (≈ 4000 opens: address space, not memory) and,
	// in the quick tier, up to the files that fill the whole buffer.
	gcOff := min(nFiles, 150)
	gcWas := debug.SetGCPercent(-1)
	gcOn := func() {
		if gcWas != -1 {
			debug.SetGCPercent(gcWas)
			gcWas = -1
			runtime.GC()
		}
	}
	defer gcOn()
	for id := 0; id < nFiles; id++ {
		if id == gcOff {
			gcOn()
		}
		style := 0
		switch r := ctx.Rng.IntN(10); {
		case r < 3:
			style = 1
		case r == 3:
			style = 2
		}
		nLines := ctx.Rng.IntN(ctx.Rng.IntN(300) + 1)
		if style >= 1 {
			nLines = ctx.Rng.IntN(60)
		}
		fc := genFile(ctx, dir, id, nLines, style)
		if checkFile(ctx, res, m, fc, 6+ctx.Rng.IntN(10), "small") {
			ring = append(ring, fc)
		} else {
			os.Remove(fc.path)
		}
		if len(ring) == 4 {
			byLinesSession(ctx, res, ring[:2+ctx.Rng.IntN(3)])
			byLinesSession(ctx, res, []*fileCase{ring[0], ring[3], ring[0]}) // two readers on the same file
			chunkersConc(res, ring)
			for _, f := range ring {
				os.Remove(f.path)
			}
			ring = ring[:0]
		}
	}
	for _, f := range ring {
		os.Remove(f.path)
	}
	if ctx.Thorough() {
		gcOn()
	}
	// files with several batches (real constants): > 100000 short lines
	for k := 0; k < ctx.Pick(1, 4); k++ {
		nLines := 100001 + ctx.Rng.IntN(160000)
		if k == 1 {
			nLines = 200000 // exact multiple of the batch size
		}
		fc := genBig(ctx, dir, 1000+k, nLines, 1, 9)
		checkFile(ctx, res, m, fc, 3, "multibatch")
		os.Remove(fc.path)
	}
	// mid-size files, one batch of several chunks, lines of tuner-data length: with a shortened buffer the
	// windows of the open chunks lie in different regions of the file
	for k := 0; k < ctx.Pick(1, 3); k++ {
		fc := genLines(ctx, dir, 1500+k, 50001+ctx.Rng.IntN(30000), 30, 150) // 8–13 chunks, 4–7 MB
		checkFile(ctx, res, m, fc, 2, "mid")
		os.Remove(fc.path)
	}
	// just over the real 32 MiB buffer (36–42 MB): every chunk refills the REAL buffer twice.  One batch of 9–11
	// chunks, n ≤ 2^16: for a bit width of 17 the shuffle keeps the top bit of x in place (the round function is
	// masked with the narrower half), so a chunk would stay within the first 2^16 lines or within the rest and
	// see the file through a single 32 MiB window.
	gcOn()
	{
		nLines := 56000 + ctx.Rng.IntN(9537)
		fc := genLines(ctx, dir, 1800, nLines, 450, 850)
		checkFile(ctx, res, m, fc, 2, "real32")
		os.Remove(fc.path)
	}
	if ctx.Thorough() {
		// ~70 MB: lines straddle the 32 MiB refills of the real buffer
		fc := genBig(ctx, dir, 2000, 1_000_000, 40, 100)
		checkFile(ctx, res, m, fc, 2, "huge")
		os.Remove(fc.path)
	}
}

func genBig(ctx *common.Ctx, dir string, id, nLines, lo, hi int) *fileCase {
	var buf bytes.Buffer
	fc := &fileCase{path: filepath.Join(dir, fmt.Sprintf("f%d.epd", id))}
	for i := 0; i < nLines; i++ {
		n := lo + ctx.Rng.IntN(hi-lo+1)
		if ctx.Rng.IntN(50) == 0 {
			n = 0
			fc.blank++
		}
		if n > fc.maxLen {
			fc.maxLen = n
		}
		// cheap distinct-ish content: decimal line number padded with letters
		s := fmt.Sprintf("%d", i)
		for len(s) < n {
			s += string(rune('a' + (i+len(s))%26))
		}
		buf.WriteString(s[:n])
		buf.WriteByte('\n')
	}
	fc.data = buf.Bytes()
	if err := os.WriteFile(fc.path, fc.data, 0o644); err != nil {
		panic(err)
	}
	return fc
}

func partitionKind(rs []tuning.Range, lo, hi int) string {
	cur := lo
	for _, r := range rs {
		if r.Start != cur || r.End <= r.Start {
			return "failing-input"
		}
		cur = r.End
	}
	if cur != max(hi, lo) {
		return "failing-input"
	}
	return "broken-correspondence"
}

// checkFile returns whether NewChunker accepted the file.
func checkFile(ctx *common.Ctx, res *common.Result, m *common.Model, fc *fileCase, nOpens int, kind string) bool {
	tf := time.Now()
	defer func() { res.Count("reader-ms:"+kind, int(time.Since(tf).Milliseconds())) }()
	small := kind != "huge" && kind != "real32" // the > 32 MiB files: real buffer only, single opens of ≤ 20000 lines
	spec := specLines(fc.data)
	fileOp := "file " + fc.path
	desc := fmt.Sprintf("file bytes=%d lines=%d blank=%d tail=%d maxlen=%d", len(fc.data), len(spec), fc.blank, fc.tail, fc.maxLen)
	dataNote := ""
	if len(fc.data) <= 200 {
		dataNote = fmt.Sprintf("data=%q", fc.data)
	}
	got := m.Ask(fileOp)
	ch, err := epd.NewChunker(fc.path)
	res.Evaluations++
	res.Count("manifest", 1)
	if err != nil {
		res.Count("manifest-error", 1)
		if got != "err" {
			fail(common.Mismatch{Property: prop, Kind: "broken-correspondence", Ops: []string{desc}, Impl: "err", Model: trunc(got, 200), Note: dataNote})
		}
		return false
	}
	man := ch.VerifManifest()
	h := fnvInit
	for _, a := range man {
		h = fnvU64(fnvU64(h, uint64(a[0])), uint64(a[1]))
	}
	impl := fmt.Sprintf("ok %d %d", len(man), h)
	// property-level check of the manifest: entry i addresses spec line i plus its '\n'
	manOK := len(man) == len(spec)
	if manOK {
		for i, a := range man {
			if a[0] < 0 || a[1] > int64(len(fc.data)) || a[1]-a[0] < 2 || !bytes.Equal(fc.data[a[0]:a[1]-1], spec[i]) || fc.data[a[1]-1] != '\n' {
				manOK = false
				break
			}
		}
	}
	if got != impl || !manOK {
		kind := "broken-correspondence"
		if !manOK {
			kind = "failing-input"
		}
		ms := make([]string, 0, len(man))
		for i, a := range man {
			if i < 40 {
				ms = append(ms, fmt.Sprintf("%d:%d", a[0], a[1]))
			}
		}
		fail(common.Mismatch{Property: prop, Kind: kind, Ops: []string{desc, "manifest"}, Impl: strings.Join(ms, " "),
			Model: trunc(m.Ask("manifest"), 400), Spec: fmt.Sprintf("%d non-blank lines", len(spec)), Note: dataNote})
		if got != impl {
			return true
		}
	}
	n := len(man)
	specCount := map[string]int{}
	for _, l := range spec {
		specCount[string(l)]++
	}
	// single opens: arbitrary [start,end), arbitrary buffer sizes, arbitrary epochs
	for k := 0; k < nOpens; k++ {
		var start, end int
		switch r := ctx.Rng.IntN(10); {
		case r < 6 && n > 0:
			start = ctx.Rng.IntN(n)
			end = start + ctx.Rng.IntN(n-start+1)
		case r == 6:
			start, end = 0, n
		default:
			start = ctx.Rng.IntN(n+3) - 1
			end = ctx.Rng.IntN(n+3) - 1
		}
		if !small && end-start > 20000 {
			end = start + 20000
		}
		epoch := ctx.Rng.IntN(8)
		switch ctx.Rng.IntN(4) {
		case 0:
			epoch = int(ctx.Rng.Uint64())
		case 1:
			epoch = -ctx.Rng.IntN(5)
		}
		bufLen := epd.VerifBackingBytes
		if small {
			switch r := ctx.Rng.IntN(8); {
			case r == 0:
				bufLen = max(fc.maxLen-1-ctx.Rng.IntN(3), 0) // too small for the longest line: Read must panic
			case r == 1:
				bufLen = fc.maxLen // the content fits, the '\n' does not
			case r < 5:
				bufLen = fc.maxLen + 1 + ctx.Rng.IntN(8)
			case r < 7:
				bufLen = fc.maxLen + 1 + ctx.Rng.IntN(400)
			}
		}
		op := fmt.Sprintf("open %d %d %d %d hash", epoch, start, end, bufLen)
		impl, lines, refills := goOpenTrace(ch, epoch, start, end, bufLen, false)
		got := m.Ask(op)
		res.Evaluations++
		res.Count("open:"+strings.Fields(impl)[0], 1)
		if refills > 1 && fc.blank > 0 {
			res.Nontrivial(desc + " " + op)
		}
		// property-level check: every delivered line is a non-blank line of the file, no line twice more
		// often than the file has it, and exactly end-start of them
		propOK := true
		if strings.HasPrefix(impl, "ok") {
			c := map[string]int{}
			for _, l := range lines {
				c[string(l)]++
				if c[string(l)] > specCount[string(l)] {
					propOK = false
				}
			}
			if len(lines) != end-start {
				propOK = false
			}
		} else if strings.HasPrefix(impl, "panic") && bufLen >= fc.maxLen {
			propOK = false
		}
		if got != impl || !propOK {
			kind := "broken-correspondence"
			if !propOK {
				kind = "failing-input"
			}
			fop := fmt.Sprintf("open %d %d %d %d full", epoch, start, end, bufLen)
			fi, _, _ := goOpenTrace(ch, epoch, start, end, bufLen, true)
			fail(common.Mismatch{Property: prop, Kind: kind, Ops: []string{desc, fop}, Impl: trunc(fi, 600), Model: trunc(m.Ask(fop), 600), Note: dataNote})
		}
		if k == 0 {
			res.Sample(map[string]string{"file": desc, "op": op, "impl": impl, "model": got}, 12)
		}
	}
	// a whole epoch: all batches × all chunks; compared with the model and with the specification
	if n > 0 {
		epoch := 1 + ctx.Rng.IntN(5)
		bufLen := epd.VerifBackingBytes
		if small && ctx.Rng.IntN(2) == 0 {
			bufLen = fc.maxLen + 1 + ctx.Rng.IntN(64)
		}
		op := fmt.Sprintf("epoch %d %d", epoch, bufLen)
		impl, _, refills, counts := goEpoch(ch, epoch, bufLen, false)
		got := m.Ask(op)
		res.Evaluations++
		res.Count("epoch", 1)
		res.Count("epoch-lines", n)
		res.Count("epoch-refills", refills)
		if !small {
			res.Count("bigfile-bytes", len(fc.data))
			res.Count("bigfile-epoch-refills-32MiB", refills)
			res.Count("bigfile-epoch-opens", len(allRanges(n)))
		}
		if refills > len(allRanges(n)) && fc.blank > 0 {
			res.Nontrivial(desc + " " + op)
		}
		propOK := impl != "fail" && len(counts) == len(specCount)
		if propOK {
			for k, v := range specCount {
				if counts[k] != v {
					propOK = false
					break
				}
			}
		}
		if got != impl || !propOK {
			kind := "broken-correspondence"
			if !propOK {
				kind = "failing-input"
			}
			fail(common.Mismatch{Property: prop, Kind: kind, Ops: []string{desc, op}, Impl: impl, Model: got,
				Spec: "multiset of the non-blank lines: " + multisetKey(spec), Note: dataNote})
		}
		res.Sample(map[string]string{"file": desc, "op": op, "impl": impl, "model": got, "refills": fmt.Sprint(refills)}, 12)
	}
	// usage patterns of the API: several chunks of the one Chunker alive at once (usage.go)
	t0 := time.Now()
	defer func() { res.Count("reader-ms:"+kind+":usage-sessions", int(time.Since(t0).Milliseconds())) }()
	uf := &usageFile{fc: fc, ch: ch, man: man, specCount: specCount, desc: desc, kind: kind, model: map[string]string{}, m: m}
	real := epd.VerifBackingBytes
	switch kind {
	case "small":
		usageSmall(ctx, res, uf)
	case "multibatch": // ~1 MB: one refill per chunk with the real buffer, 16–250 with 4–64 KiB
		usageBig(ctx, res, uf, []int{real, 4096 << ctx.Rng.IntN(5)}, usageNames, 0, 1<<30, true)
	case "mid":
		usageBig(ctx, res, uf, []int{real, 65536 << ctx.Rng.IntN(5)}, usageNames, 0, 1<<30, true)
	case "real32":
		usageBig(ctx, res, uf, []int{real}, usageNames, 0, 1<<30, true)
	case "huge": // 10 batches: two of them per pattern, three refills of the real buffer per chunk
		b0 := ctx.Rng.IntN(8)
		usageBig(ctx, res, uf, []int{real}, []string{"ilv-rr", "ilv-burst", "conc", "reopen-ilv"}, b0, b0+2, false)
	}
	return true
}

func main() {
	suite := flag.String("suite", "all", "shuffle|reader|all")
	ctx := common.Parse()
	if ctx.Driver == "" {
		fmt.Fprintln(os.Stderr, "tunerharness: -driver is required")
		os.Exit(2)
	}
	res := common.NewResult(ctx, "tuner-"+*suite, prop)
	res.Rule = "shuffle: (n, epoch) whose image needs at least one rejection step of the cycle walk (n not a power of two); " +
		"feistel images of odd bit width (unbalanced halves); " +
		"reader: Open/epoch on a file with at least one blank line in which Read refilled its buffer window at least twice; " +
		"chunks: batches split into more than one chunk; " + usageRule()
	dir, err := os.MkdirTemp("", "c20-")
	if err != nil {
		panic(err)
	}
	defer os.RemoveAll(dir)
	if *suite == "shuffle" || *suite == "all" {
		p := newPool(ctx, 8)
		shuffleSuite(ctx, res, p)
		p.close()
	}
	if *suite == "reader" || *suite == "all" {
		m := common.StartModel(ctx.Driver)
		readerSuite(ctx, res, m, dir)
		m.Close()
	}
	if *suite != "shuffle" && *suite != "reader" && *suite != "all" {
		fmt.Fprintln(os.Stderr, "tunerharness: unknown suite", *suite)
		os.RemoveAll(dir)
		os.Exit(2)
	}
	flushFails(res)
	res.Write(ctx)
}
