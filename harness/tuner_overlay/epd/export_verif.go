//go:build verif

// Added to the *copy* of tools/tuner/epd that bin/build-tuner-harness assembles (never to /repo).
// Exposes the unexported shuffle functions and the reader's window state to the C20 harness.
package epd

import "sync"

// VerifShuffleIndex is shuffleIndex.
func VerifShuffleIndex(x, n, seed uint64) uint64 { return shuffleIndex(x, n, seed) }

// VerifFeistel is feistel.
func VerifFeistel(x, seed uint64, bits int) uint64 { return feistel(x, seed, bits) }

// VerifManifest returns the line manifest as (start, end) pairs.
func (c Chunker) VerifManifest() [][2]int64 {
	out := make([][2]int64, len(c.lineManifest))
	for i, a := range c.lineManifest {
		out[i] = [2]int64{a.start, a.end}
	}
	return out
}

// VerifSetBuf replaces the backing buffer of a freshly opened chunk by one of n bytes, so that the
// unmodified Read code can be driven through many refills on small files.
func (c *Chunk) VerifSetBuf(n int) { c.mapBytes = make([]byte, n) }

// VerifShrinkBuf shortens the backing buffer Open handed to the chunk to its first n bytes WITHOUT
// replacing it: whatever allocation / sharing structure the implementation gives its buffers stays
// exactly as Open built it (VerifSetBuf would hide a buffer shared between chunks behind a private
// one).  Length AND capacity become n (a line that does not fit must still make Read panic exactly as
// with an n-byte allocation), so this drives the unmodified code through many refills.
func (c *Chunk) VerifShrinkBuf(n int) {
	if n < len(c.mapBytes) {
		verifOrig.Store(c, c.mapBytes)
		c.mapBytes = c.mapBytes[:n:n]
	}
}

// VerifUnshrinkBuf undoes VerifShrinkBuf (call it before Close): the harness leaves the chunk as Open made it,
// so an implementation that recycles buffers or chunk objects sees nothing of the shortening.
func (c *Chunk) VerifUnshrinkBuf() {
	if b, ok := verifOrig.LoadAndDelete(c); ok {
		c.mapBytes = b.([]byte)
	}
}

var verifOrig sync.Map // *Chunk -> the buffer as Open made it

// VerifWindow returns the file window currently held in the backing buffer.
func (c *Chunk) VerifWindow() (int64, int64) { return c.mapStart, c.mapEnd }

// VerifBackingBytes is the size of the buffer Open allocates.
const VerifBackingBytes = backingBytes
