module verifharness

go 1.25.4

require github.com/paulsonkoly/chess-3 v0.0.0

replace github.com/paulsonkoly/chess-3 => /repo
