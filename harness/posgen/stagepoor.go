package posgen

// Directed generator for positions whose move lists are DEGENERATE per stage of a staged move picker:
// exactly 0 / 1 / 2 (sometimes 3-5) quiet moves and exactly 0 / 1 / 2 (sometimes 3-5) noisy moves for
// the side to move, for both colours.  Like the rest of the package it knows chess only through the
// mailbox: PseudoMoves is an independent pseudo-legal move enumerator (pushes, double pushes, four
// promotions per promoting pawn move, en passant, pseudo-legal king steps onto attacked squares,
// castling through unattacked vacant squares) that is used to STEER the construction; the suites
// measure the classes actually reached with the implementation's own generator.

import "math/rand/v2"

// PMove is a pseudo-legal move on the mailbox.
type PMove struct {
	From, To int
	Man      int8 // the moving man
	Promo    int  // 0 or N..Q
	Noisy    bool // capture, en-passant capture or promotion
	Castle   bool
	Double   bool
}

var spKnightD = [8][2]int{{1, 2}, {2, 1}, {2, -1}, {1, -2}, {-1, -2}, {-2, -1}, {-2, 1}, {-1, 2}}
var spKingD = [8][2]int{{1, 0}, {1, 1}, {0, 1}, {-1, 1}, {-1, 0}, {-1, -1}, {0, -1}, {1, -1}}

// PseudoMoves enumerates the pseudo-legal moves of the side to move (own king may be left or put in
// check; castling needs the right, vacant squares between and king path e-f-g / e-d-c unattacked).
func (p *Pos) PseudoMoves() []PMove {
	var out []PMove
	me := p.Black
	up, home, last := 1, 1, 6
	if me {
		up, home, last = -1, 6, 1
	}
	for s := 0; s < 64; s++ {
		m := p.Men[s]
		if m == 0 || isBlack(m) != me {
			continue
		}
		f, r := s%8, s/8
		step := func(t int) {
			v := p.Men[t]
			if v == 0 {
				out = append(out, PMove{From: s, To: t, Man: m})
			} else if isBlack(v) != me {
				out = append(out, PMove{From: s, To: t, Man: m, Noisy: true})
			}
		}
		switch kind(m) {
		case P:
			if r+up < 0 || r+up > 7 {
				continue
			}
			pawnTo := func(t int) {
				if r == last {
					for k := Q; k >= N; k-- {
						out = append(out, PMove{From: s, To: t, Man: m, Promo: k, Noisy: true})
					}
				} else {
					out = append(out, PMove{From: s, To: t, Man: m, Noisy: p.Men[t] != 0 || t == p.EP && p.EP != 0})
				}
			}
			t := s + 8*up
			if p.Men[t] == 0 {
				pawnTo(t)
				if r == home && p.Men[t+8*up] == 0 {
					out = append(out, PMove{From: s, To: t + 8*up, Man: m, Double: true})
				}
			}
			for _, df := range []int{-1, 1} {
				if f+df < 0 || f+df > 7 {
					continue
				}
				t := (r+up)*8 + f + df
				v := p.Men[t]
				if (v != 0 && isBlack(v) != me) || (v == 0 && p.EP != 0 && t == p.EP) {
					pawnTo(t)
				}
			}
		case N, K:
			ds := spKnightD
			if kind(m) == K {
				ds = spKingD
			}
			for _, d := range ds {
				if f+d[0] < 0 || f+d[0] > 7 || r+d[1] < 0 || r+d[1] > 7 {
					continue
				}
				step((r+d[1])*8 + f + d[0])
			}
		case B, R, Q:
			for i, d := range spKingD {
				diag := i%2 == 1
				if (kind(m) == B && !diag) || (kind(m) == R && diag) {
					continue
				}
				for ff, rr := f+d[0], r+d[1]; ff >= 0 && ff < 8 && rr >= 0 && rr < 8; ff, rr = ff+d[0], rr+d[1] {
					step(rr*8 + ff)
					if p.Men[rr*8+ff] != 0 {
						break
					}
				}
			}
		}
	}
	base, side := 0, 0
	if me {
		base, side = 56, 1
	}
	if p.Men[base+4] == man(me, K) {
		free := func(sq ...int) bool {
			for _, s := range sq {
				if p.Men[s] != 0 {
					return false
				}
			}
			return true
		}
		safe := func(sq ...int) bool {
			for _, s := range sq {
				if p.Attacked(!me, s) {
					return false
				}
			}
			return true
		}
		if p.Castles&(1<<(2*side)) != 0 && free(base+5, base+6) && safe(base+4, base+5, base+6) {
			out = append(out, PMove{From: base + 4, To: base + 6, Man: man(me, K), Castle: true})
		}
		if p.Castles&(2<<(2*side)) != 0 && free(base+1, base+2, base+3) && safe(base+4, base+3, base+2) {
			out = append(out, PMove{From: base + 4, To: base + 2, Man: man(me, K), Castle: true})
		}
	}
	return out
}

// PseudoCounts returns the number of quiet and of noisy pseudo-legal moves of the side to move.
func (p *Pos) PseudoCounts() (quiet, noisy int) {
	for _, m := range p.PseudoMoves() {
		if m.Noisy {
			noisy++
		} else {
			quiet++
		}
	}
	return
}

// Mirror returns the position seen from the other side: ranks reversed, colours, castling rights,
// en-passant target and side to move swapped.
func (p *Pos) Mirror() Pos {
	q := *p
	for s := 0; s < 64; s++ {
		m := p.Men[s]
		switch {
		case m == 0:
		case isBlack(m):
			m -= blackOff
		default:
			m += blackOff
		}
		q.Men[s^56] = m
	}
	q.Black = !p.Black
	q.Castles = (p.Castles&3)<<2 | (p.Castles>>2)&3
	if p.EP != 0 {
		q.EP = p.EP ^ 56
	}
	return q
}

// stagePoorOK is the structural part of validity: one king each, promotion bound, pawn ranks, side not
// to move not in check, castling homes, en-passant geometry and soundness.
func (p *Pos) stagePoorOK() bool {
	for side := 0; side < 2; side++ {
		black := side == 1
		var cnt [7]int
		for s, m := range p.Men {
			if m != 0 && isBlack(m) == black {
				cnt[kind(m)]++
				if kind(m) == P && (s/8 == 0 || s/8 == 7) {
					return false
				}
			}
		}
		if cnt[K] != 1 || cnt[P]+max(0, cnt[N]-2)+max(0, cnt[B]-2)+max(0, cnt[R]-2)+max(0, cnt[Q]-1) > 8 {
			return false
		}
		home := 56 * side
		if p.Castles&(3<<(2*side)) != 0 && p.Men[home+4] != man(black, K) {
			return false
		}
		if p.Castles&(1<<(2*side)) != 0 && p.Men[home+7] != man(black, R) {
			return false
		}
		if p.Castles&(2<<(2*side)) != 0 && p.Men[home] != man(black, R) {
			return false
		}
	}
	if p.InCheck(!p.Black) {
		return false
	}
	if p.EP != 0 {
		want := 5
		if p.Black {
			want = 2
		}
		if p.EP/8 != want || p.Men[p.EP] != 0 || !p.EPSound() {
			return false
		}
	}
	return true
}

// StageTarget is what StagePoor aimed at (and, by its own mailbox count, reached).
type StageTarget struct {
	Quiet, Noisy int
	Theme        string
}

func spSmallCount(rng *rand.Rand) int {
	return []int{0, 0, 0, 1, 1, 1, 1, 2, 2, 2, 3, 4, 5}[rng.IntN(13)]
}

// StagePoor builds a position whose side to move has exactly tq quiet and tn noisy pseudo-legal moves
// (both drawn from 0..5, mostly 0..2).  Skeletons: pawn rams on several files (adjacent rams on the
// same rank are mutual capture pairs, on different ranks they are locked), a king boxed in a corner
// or on an edge by own men, a bare sparse position, king and rook(s) at home with castling rights;
// then a local search adds / removes blockers, victims (undefended, or pawn-defended so that a piece
// capture loses material), pawn capture targets and en-passant pairs until the mailbox move count
// hits the target exactly.  Built for White to move and mirrored for Black half of the time.
func StagePoor(rng *rand.Rand) (Pos, StageTarget, bool) {
	tg := StageTarget{Quiet: spSmallCount(rng), Noisy: spSmallCount(rng)}
	var p Pos
	p.Full = 1 + rng.IntN(80)
	p.Half = rng.IntN(30)
	var reserved [64]bool // squares the construction keeps vacant (castling paths)
	put := func(s int, m int8) bool {
		if s < 0 || s > 63 || p.Men[s] != 0 || reserved[s] {
			return false
		}
		if kind(m) == P && (s/8 == 0 || s/8 == 7) {
			return false
		}
		p.Men[s] = m
		return true
	}
	freeNbrs := func(s int) int {
		n := 0
		for _, d := range spKingD {
			f, r := s%8+d[0], s/8+d[1]
			if f >= 0 && f < 8 && r >= 0 && r < 8 && p.Men[r*8+f] == 0 {
				n++
			}
		}
		return n
	}
	// boxed: among a few random vacant squares the one with the fewest vacant neighbours
	boxed := func(tries int) int {
		best, bestN := -1, 99
		for i := 0; i < tries; i++ {
			s := rng.IntN(64)
			if p.Men[s] != 0 || reserved[s] {
				continue
			}
			if n := freeNbrs(s); n < bestN {
				best, bestN = s, n
			}
		}
		return best
	}
	ownPiece := func() int8 { return int8([]int{N, B, R, N, B, R, Q}[rng.IntN(7)]) }
	foePiece := func() int8 { return int8([]int{N, B, R, Q, N, B}[rng.IntN(6)] + blackOff) }

	switch rng.IntN(8) {
	case 0, 1, 2:
		tg.Theme = "rams"
		nf := 2 + rng.IntN(6)
		perm := rng.Perm(8)
		var rk [8]int
		for _, f := range perm[:nf] {
			r := 1 + rng.IntN(5)
			// same rank as a neighbouring ram: a mutual capture pair
			if rng.IntN(2) == 0 {
				if f > 0 && rk[f-1] != 0 {
					r = rk[f-1]
				} else if f < 7 && rk[f+1] != 0 {
					r = rk[f+1]
				}
			}
			rk[f] = r
			p.Men[r*8+f] = P
			p.Men[(r+1)*8+f] = P + blackOff
		}
		// a few pieces hidden behind the chain
		for i := rng.IntN(3); i > 0; i-- {
			if s := boxed(6); s >= 0 {
				put(s, ownPiece())
			}
		}
	case 3, 4:
		tg.Theme = "boxedking"
		corner := []int{0, 7, 56, 63, rng.IntN(8), 56 + rng.IntN(8), 8 * rng.IntN(8), 8*rng.IntN(8) + 7, rng.IntN(64)}
		k := corner[rng.IntN(len(corner))]
		p.Men[k] = K
		for _, d := range spKingD {
			f, r := k%8+d[0], k/8+d[1]
			if f < 0 || f > 7 || r < 0 || r > 7 || rng.IntN(6) == 0 {
				continue
			}
			if rng.IntN(2) == 0 && put(r*8+f, P) {
				// a ram in front of the shield pawn, sometimes
				if rng.IntN(2) == 0 {
					put((r+1)*8+f, P+blackOff)
				}
				continue
			}
			put(r*8+f, ownPiece())
		}
	case 5, 6:
		tg.Theme = "sparse"
		for i := rng.IntN(3); i > 0; i-- {
			put(rng.IntN(64), ownPiece())
		}
		for i := rng.IntN(3); i > 0; i-- {
			put(rng.IntN(64), foePiece())
		}
	default:
		tg.Theme = "castlehome"
		p.Men[4] = K
		// the least a castling position can have is the king step and the rook steps onto the vacant
		// squares plus the castling move itself: 4 (short), 5 (long), 9 (both)
		tg.Quiet = rng.IntN(3)
		if rng.IntN(3) != 0 {
			p.Men[7] = R
			p.Castles |= 1
			reserved[5], reserved[6] = true, true
			tg.Quiet += 4
		}
		if p.Castles == 0 || rng.IntN(4) == 0 {
			p.Men[0] = R
			p.Castles |= 2
			reserved[1], reserved[2], reserved[3] = true, true, true
			tg.Quiet += 5
		}
		for _, s := range []int{3, 11, 12, 13, 5, 8, 15, 9, 14} {
			if (s == 3 && p.Castles&2 != 0) || (s == 5 && p.Castles&1 != 0) || rng.IntN(5) == 0 {
				continue
			}
			if s >= 8 && rng.IntN(3) != 0 {
				if put(s, P) && rng.IntN(2) == 0 {
					put(s+8, P+blackOff)
				}
			} else {
				put(s, ownPiece())
			}
		}
	}
	if p.KingSq(false) < 0 {
		s := boxed(8)
		if s < 0 {
			return p, tg, false
		}
		p.Men[s] = K
	}
	// black king: vacant, not next to the white king, preferably boxed as well
	wk := p.KingSq(false)
	bk := -1
	for try := 0; try < 20 && bk < 0; try++ {
		s := boxed(3)
		if s >= 0 && max(abs(s%8-wk%8), abs(s/8-wk/8)) > 1 {
			bk = s
		}
	}
	if bk < 0 {
		return p, tg, false
	}
	p.Men[bk] = K + blackOff
	if !p.stagePoorOK() {
		// the black king stands in check: try other squares
		p.Men[bk] = 0
		bk = -1
		for try := 0; try < 30; try++ {
			s := rng.IntN(64)
			if p.Men[s] == 0 && max(abs(s%8-wk%8), abs(s/8-wk/8)) > 1 {
				p.Men[s] = K + blackOff
				if p.stagePoorOK() {
					bk = s
					break
				}
				p.Men[s] = 0
			}
		}
		if bk < 0 {
			return p, tg, false
		}
	}

	capMode := rng.IntN(3) // 0 winning captures preferred, 1 losing captures preferred, 2 mixed
	cost := func() int {
		q, n := p.PseudoCounts()
		return abs(q-tg.Quiet) + abs(n-tg.Noisy)
	}
	cur := cost()
	for iter := 0; iter < 200 && cur > 0; iter++ {
		save := p
		moves := p.PseudoMoves()
		var quiets, noisies []PMove
		for _, m := range moves {
			switch {
			case m.Castle:
			case m.Noisy:
				noisies = append(noisies, m)
			default:
				quiets = append(quiets, m)
			}
		}
		q, n := p.PseudoCounts()
		dq, dn := q-tg.Quiet, n-tg.Noisy
		type opt struct{ w, id int }
		var opts []opt
		if dq > 0 && len(quiets) > 0 {
			opts = append(opts, opt{6, 0}, opt{2, 3})
		}
		if dn < 0 && len(quiets) > 0 {
			opts = append(opts, opt{4, 1})
		}
		if dn < 0 {
			opts = append(opts, opt{4, 5}, opt{1, 7})
		}
		if dn > 0 && len(noisies) > 0 {
			opts = append(opts, opt{5, 4}, opt{2, 3})
		}
		if dq < 0 {
			opts = append(opts, opt{3, 2}, opt{3, 6})
		}
		opts = append(opts, opt{1, 2}, opt{1, 6})
		tot := 0
		for _, o := range opts {
			tot += o.w
		}
		x, id := rng.IntN(tot), 0
		for _, o := range opts {
			if x < o.w {
				id = o.id
				break
			}
			x -= o.w
		}
		switch id {
		case 0: // block a quiet move
			m := quiets[rng.IntN(len(quiets))]
			d := m.To
			switch {
			case kind(m.Man) == P && rng.IntN(10) < 7:
				if rng.IntN(7) < 5 {
					put(d, P+blackOff)
				} else {
					put(d, foePiece())
				}
			case rng.IntN(2) == 0:
				if !put(d, P) {
					put(d, ownPiece())
				}
			default:
				put(d, ownPiece())
			}
		case 1: // a victim on the destination of a quiet piece move
			var cand []PMove
			for _, m := range quiets {
				if kind(m.Man) != P {
					cand = append(cand, m)
				}
			}
			if len(cand) == 0 {
				break
			}
			m := cand[rng.IntN(len(cand))]
			d := m.To
			defended := capMode == 1 || capMode == 2 && rng.IntN(2) == 0
			if defended {
				if !put(d, P+blackOff) {
					put(d, N+blackOff)
				}
				// a black pawn one rank up on a neighbouring file defends d
				df := []int{-1, 1}[rng.IntN(2)]
				if f := d%8 + df; f >= 0 && f < 8 && d/8 < 6 {
					put(d+8+df, P+blackOff)
				}
			} else if rng.IntN(3) == 0 {
				put(d, P+blackOff)
			} else {
				put(d, foePiece())
			}
		case 2: // remove any man
			s := rng.IntN(64)
			if kind(p.Men[s]) != K {
				p.Men[s] = 0
			}
		case 3: // remove the mover of a move
			m := moves[rng.IntN(len(moves))]
			if kind(m.Man) != K {
				p.Men[m.From] = 0
			}
		case 4: // remove (or turn into an own man) the victim of a capture
			m := noisies[rng.IntN(len(noisies))]
			if kind(p.Men[m.To]) != K && p.Men[m.To] != 0 {
				p.Men[m.To] = 0
				if rng.IntN(3) == 0 {
					if !put(m.To, P) {
						put(m.To, ownPiece())
					}
				}
			} else if kind(m.Man) != K {
				p.Men[m.From] = 0
			}
		case 5: // a target for a pawn capture
			var cand []int
			for s, m := range p.Men {
				if m == P {
					cand = append(cand, s)
				}
			}
			if len(cand) == 0 {
				break
			}
			s := cand[rng.IntN(len(cand))]
			df := []int{-1, 1}[rng.IntN(2)]
			if f := s%8 + df; f >= 0 && f < 8 {
				if rng.IntN(2) == 0 {
					put(s+8+df, P+blackOff)
				} else {
					put(s+8+df, foePiece())
				}
			}
		case 6: // a new man somewhere
			s := rng.IntN(64)
			switch rng.IntN(4) {
			case 0:
				put(s, P)
			case 1:
				put(s, ownPiece())
			case 2:
				put(s, P+blackOff)
			default:
				put(s, foePiece())
			}
		case 7: // en-passant pair: white pawn on the fifth rank, black pawn beside it just double-pushed
			if p.EP != 0 {
				break
			}
			f := rng.IntN(8)
			df := []int{-1, 1}[rng.IntN(2)]
			if f+df < 0 || f+df > 7 {
				break
			}
			if p.Men[32+f] == 0 {
				put(32+f, P)
			}
			if p.Men[32+f] == P && p.Men[32+f+df] == 0 && p.Men[40+f+df] == 0 && p.Men[48+f+df] == 0 {
				p.Men[32+f+df] = P + blackOff
				p.EP = 40 + f + df
				p.Half = 0
			}
		}
		if p == save {
			continue
		}
		if !p.stagePoorOK() {
			p = save
			continue
		}
		c := cost()
		if c < cur || (c == cur && rng.IntN(3) == 0) {
			cur = c
		} else {
			p = save
		}
	}
	if cur > 0 || !p.stagePoorOK() {
		return p, tg, false
	}
	if rng.IntN(2) == 0 {
		p = p.Mirror()
	}
	return p, tg, true
}

// StagePoorCorpus are hand-written members of the class (kept next to the generator that produces the
// class at large): a lone quiet king step beside two winning pawn captures (both colours), a boxed
// king whose only moves are four pawn captures, locked pawn chains with one or two moves left (a pawn
// push, a bishop step, captures of pawn-defended pawns that lose material).
var StagePoorCorpus = []string{
	"4k3/8/8/8/8/pp6/PP6/K7 w - - 0 1",
	"k7/pp6/PP6/8/8/8/8/4K3 b - - 0 1",
	"4k3/8/8/8/8/ppp5/PPP5/KB6 w - - 0 1",
	"kb6/ppp5/PPP5/8/8/8/8/4K3 b - - 0 1",
	"7k/8/8/8/1p6/pP6/P1P5/KB6 w - - 0 1",
	"kb6/p1p5/Pp6/1P6/8/8/8/7K b - - 0 1",
	"4k3/8/8/8/2p5/1p6/pP6/KB6 w - - 0 1",
}
