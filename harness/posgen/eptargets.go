package posgen

// EPTargetSweep: one minimal valid position for every en-passant target square (a3..h3 after a white
// double push, a6..h6 after a black one) and every capturer configuration (left neighbour, right
// neighbour, both), each once bare and once with a little filler material.  The recorded target is
// always capturable (engine-normal) and sound (kings far away, nobody in check), so the positions
// are inside the domain of every board property; they make sure that code which treats individual
// target squares or edge files specially (sentinels such as "square 0 = none", range checks on the
// target rank, wrap-around of neighbour files) meets each of the 16 target squares.
func EPTargetSweep() []string {
	var out []string
	piece := func(b *[64]byte, sq int, c byte) { b[sq] = c }
	for _, white := range []bool{true, false} { // colour of the pawn that has just double-pushed
		for f := 0; f < 8; f++ {
			for cfg := 0; cfg < 3; cfg++ { // 0 left, 1 right, 2 both
				left, right := cfg != 1, cfg != 0
				if (left && f == 0) || (right && f == 7) {
					if cfg == 2 {
						continue
					}
					if left && f == 0 || right && f == 7 {
						continue
					}
				}
				for _, filler := range []bool{false, true} {
					var b [64]byte
					var pusher, target int
					var pawn, enemy byte
					if white {
						pusher, target, pawn, enemy = 24+f, 16+f, 'P', 'p'
					} else {
						pusher, target, pawn, enemy = 32+f, 40+f, 'p', 'P'
					}
					piece(&b, pusher, pawn)
					if left {
						piece(&b, pusher-1, enemy)
					}
					if right {
						piece(&b, pusher+1, enemy)
					}
					// kings on their home squares, moved aside when the e-file is busy near them
					wk, bk := 4, 60
					piece(&b, wk, 'K')
					piece(&b, bk, 'k')
					if filler {
						for _, x := range []struct {
							sq int
							c  byte
						}{{1, 'N'}, {62, 'n'}, {8, 'P'}, {55, 'p'}, {15, 'P'}, {48, 'p'}} {
							if b[x.sq] == 0 && x.sq%8 != f && x.sq%8 != f-1 && x.sq%8 != f+1 {
								piece(&b, x.sq, x.c)
							}
						}
					}
					stm := "b"
					if !white {
						stm = "w"
					}
					out = append(out, fenOf(b)+" "+stm+" - "+sqName(target)+" 0 1")
				}
			}
		}
	}
	return out
}

func sqName(s int) string { return string([]byte{byte('a' + s%8), byte('1' + s/8)}) }

func fenOf(b [64]byte) string {
	var out []byte
	for r := 7; r >= 0; r-- {
		empty := 0
		for f := 0; f < 8; f++ {
			c := b[8*r+f]
			if c == 0 {
				empty++
				continue
			}
			if empty > 0 {
				out = append(out, byte('0'+empty))
				empty = 0
			}
			out = append(out, c)
		}
		if empty > 0 {
			out = append(out, byte('0'+empty))
		}
		if r > 0 {
			out = append(out, '/')
		}
	}
	return string(out)
}
