package posgen

import "math/rand/v2"

// EPWrap constructs double pushes on EVERY file - with emphasis on the a- and the h-file, both colours -
// with enemy pawns on the squares that are neighbours of the destination square only in the linear
// square numbering (a1=0 .. h8=63): for a push to the a-file the h-file square one rank below in the
// numbering (index to-1), for a push to the h-file the a-file square one rank above (index to+1), and
// around them the opposite edge file on the destination rank and on the ranks next to it.  For the
// inner files the decoys are the enemy pawns diagonally next to the destination and two files away on
// its rank.  With and without a REAL capturer (enemy pawn beside the destination).  A neighbour
// computation on bitboards that forgets an edge mask takes the wrap-around pawn for a capturer.
// The returned position is BEFORE the push From->To.  Structural validity only.
type EPWrapInfo struct {
	File     int  // file of the pusher, 0 = a
	Black    bool // colour of the pusher
	Linear   bool // an enemy pawn stands on the linear-index neighbour that is not a real neighbour (edge files only)
	Decoy    bool // an enemy pawn stands on another decoy square
	Capturer bool // a real capturer stands beside the destination
}

// Key is the histogram key: file, wrap-square occupancy, real capturer.
func (w EPWrapInfo) Key() string {
	wrap := "none"
	switch {
	case w.Linear:
		wrap = "linear-neighbour"
	case w.Decoy:
		wrap = "other-decoy"
	}
	c := "no-capturer"
	if w.Capturer {
		c = "capturer"
	}
	return string(rune('a'+w.File)) + ":" + wrap + ":" + c
}

func EPWrap(rng *rand.Rand) (EPCase, EPWrapInfo, bool) {
	var p Pos
	var info EPWrapInfo
	p.Full = 1 + rng.IntN(60)
	black := rng.IntN(2) == 1
	p.Black = black
	info.Black = black
	f := rng.IntN(8)
	switch rng.IntN(10) {
	case 0, 1, 2, 3:
		f = 0
	case 4, 5, 6, 7:
		f = 7
	}
	info.File = f
	r0, rt, up := 1, 3, 1
	if black {
		r0, rt, up = 6, 4, -1
	}
	from, mid, to := r0*8+f, (r0+up)*8+f, rt*8+f
	p.Men[from] = man(black, P)
	reserved := map[int]bool{mid: true, to: true}
	sq := func(file, rank int) int {
		if file < 0 || file > 7 || rank < 1 || rank > 6 {
			return -1
		}
		return rank*8 + file
	}
	putPawn := func(s int) bool {
		if s < 0 || p.Men[s] != 0 || reserved[s] {
			return false
		}
		p.Men[s] = man(!black, P)
		return true
	}
	// decoys: the linear-index neighbour of the destination that is no real neighbour, the opposite
	// edge file on the destination rank and the ranks next to it, the file next to that
	linear := -1
	var decoys []int
	switch f {
	case 0:
		linear = to - 1 // h-file, one rank lower in the numbering
		decoys = []int{sq(7, rt-1), sq(7, rt), sq(7, rt+1), sq(6, rt-1), sq(6, rt)}
	case 7:
		linear = to + 1 // a-file, one rank higher in the numbering
		decoys = []int{sq(0, rt-1), sq(0, rt), sq(0, rt+1), sq(1, rt+1), sq(1, rt)}
	default:
		decoys = []int{sq(f-1, rt-1), sq(f+1, rt-1), sq(f-1, rt+1), sq(f+1, rt+1), sq(f-2, rt), sq(f+2, rt)}
	}
	if linear >= 0 && rng.IntN(3) != 0 {
		info.Linear = putPawn(linear)
	}
	for _, d := range decoys {
		if d != linear && rng.IntN(3) == 0 && putPawn(d) {
			info.Decoy = true
		}
	}
	if rng.IntN(5) < 2 {
		var c []int
		for _, d := range []int{-1, 1} {
			if s := sq(f+d, rt); s >= 0 {
				c = append(c, s)
			}
		}
		rng.Shuffle(len(c), func(i, j int) { c[i], c[j] = c[j], c[i] })
		if putPawn(c[0]) {
			info.Capturer = true
		}
		if len(c) > 1 && rng.IntN(4) == 0 {
			putPawn(c[1])
		}
	}
	free := func() int {
		for try := 0; try < 40; try++ {
			s := rng.IntN(64)
			if p.Men[s] == 0 && !reserved[s] {
				return s
			}
		}
		return -1
	}
	put := func(s int, m int8) bool {
		if s < 0 || p.Men[s] != 0 || (kind(m) == P && (s/8 == 0 || s/8 == 7)) {
			return false
		}
		p.Men[s] = m
		return true
	}
	if !put(free(), man(!black, K)) {
		return EPCase{}, info, false
	}
	ek := p.KingSq(!black)
	placed := false
	for try := 0; try < 30 && !placed; try++ {
		s := free()
		if s >= 0 && max(abs(s%8-ek%8), abs(s/8-ek/8)) > 1 {
			placed = put(s, man(black, K))
		}
	}
	if !placed {
		return EPCase{}, info, false
	}
	// shufflers: knights mostly, so that both sides have reversible moves
	for _, c := range []bool{false, true} {
		for i := 1 + rng.IntN(2); i > 0; i-- {
			put(free(), man(c, []int{N, N, N, B, R, Q}[rng.IntN(6)]))
		}
	}
	if rng.IntN(3) == 0 { // further pawns of the pusher
		for i := 1 + rng.IntN(3); i > 0; i-- {
			if s := free(); s >= 0 && s%8 != f {
				put(s, man(black, P))
			}
		}
	}
	if p.InCheck(!p.Black) {
		return EPCase{}, info, false
	}
	return EPCase{Pos: p, From: from, To: to}, info, true
}
