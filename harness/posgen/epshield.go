package posgen

import "math/rand/v2"

// EPShield constructs positions WITH a recorded en-passant target whose capture is illegal because
// the pawn that would be removed is the only man between the capturing side's king and an enemy
// bishop / queen on a DIAGONAL (the capturer itself stands beside the pawn, off that diagonal, and
// lands on the target square, which is off it too).  Such a target can only come from a FEN: before
// the double push the diagonal was open, so the side now to move would have been in check with the
// other side to move (the position is valid, `epSound` fails).  The engine's generator emits the
// capture as a pseudo-legal move and only the legality filter (make the move, test the king) rejects
// it — with the capturer on no line of its own king, which is the case a filter that "knows" which
// moves can expose the king gets wrong.  Kinds:
//
//	shield-diag      as described, one capturer
//	shield-diag-two  capturers on both sides of the pawn
//	shield-aligned   the capturer additionally stands on a rank / file / diagonal of its own king
//	                 (control: a line-based shortcut would still test this one)
//
// Both colours.  Structural validity only: the caller confirms with the Lean `valid`.
func EPShield(rng *rand.Rand) (Pos, string, bool) {
	kinds := []string{"shield-diag", "shield-diag", "shield-diag-two", "shield-aligned"}
	kindName := kinds[rng.IntN(len(kinds))]
	// built with WHITE to move (a black pawn has "just" gone from rank 7 to rank 5); mirrored for black
	var p Pos
	p.Full = 1 + rng.IntN(60)
	f := rng.IntN(8)
	to, target, from := 32+f, 40+f, 48+f
	p.Men[to] = man(true, P)
	p.EP = target
	reserved := map[int]bool{to: true, target: true, from: true}
	var caps []int
	for _, df := range []int{-1, 1} {
		if f+df >= 0 && f+df <= 7 {
			caps = append(caps, 32+f+df)
		}
	}
	rng.Shuffle(len(caps), func(i, j int) { caps[i], caps[j] = caps[j], caps[i] })
	if kindName != "shield-diag-two" {
		caps = caps[:1]
	} else if len(caps) < 2 {
		return p, kindName, false
	}
	for _, c := range caps {
		p.Men[c] = man(false, P)
		reserved[c] = true
	}
	// the diagonal through `to`: black slider on one side, white king on the other, nothing between
	dirs := [][2]int{{1, 1}, {1, -1}, {-1, 1}, {-1, -1}}
	d := dirs[rng.IntN(4)]
	step := func(s, k int, d [2]int) int {
		ff, rr := s%8+k*d[0], s/8+k*d[1]
		if ff < 0 || ff > 7 || rr < 0 || rr > 7 {
			return -1
		}
		return rr*8 + ff
	}
	var sl, kg []int
	for k := 1; k < 8; k++ {
		if s := step(to, k, d); s >= 0 && !reserved[s] {
			sl = append(sl, s)
		}
		if s := step(to, -k, d); s >= 0 && !reserved[s] {
			kg = append(kg, s)
		}
	}
	if len(sl) == 0 || len(kg) == 0 {
		return p, kindName, false
	}
	sSq, kSq := sl[rng.IntN(len(sl))], kg[rng.IntN(len(kg))]
	// the diagonal stays free of other men (the capturers stand on the pawn's rank, hence off it)
	for k := 1; k < 8; k++ {
		for _, s := range []int{step(to, k, d), step(to, -k, d)} {
			if s >= 0 {
				reserved[s] = true
			}
		}
	}
	if p.Men[sSq] != 0 || p.Men[kSq] != 0 {
		return p, kindName, false
	}
	p.Men[sSq] = man(true, []int{B, B, Q}[rng.IntN(3)])
	p.Men[kSq] = man(false, K)
	aligned := false
	for _, c := range caps {
		if alignedWith(c, kSq) {
			aligned = true
		}
	}
	if aligned != (kindName == "shield-aligned") {
		return p, kindName, false
	}
	// the black king: anywhere not next to the white king, not attacked
	var ks []int
	for s := 0; s < 64; s++ {
		if p.Men[s] == 0 && !reserved[s] && (abs(s%8-kSq%8) > 1 || abs(s/8-kSq/8) > 1) {
			ks = append(ks, s)
		}
	}
	if len(ks) == 0 {
		return p, kindName, false
	}
	bk := ks[rng.IntN(len(ks))]
	p.Men[bk] = man(true, K)
	// a few extra men off the critical squares, so that both sides have other moves
	for n := rng.IntN(5); n > 0; n-- {
		s := rng.IntN(64)
		if p.Men[s] != 0 || reserved[s] {
			continue
		}
		k := []int{P, P, N, N, B, R}[rng.IntN(6)]
		if k == P && (s/8 == 0 || s/8 == 7) {
			continue
		}
		p.Men[s] = man(rng.IntN(2) == 0, k)
	}
	// white (to move) may be in check only … not at all here; black (not to move) must not be in check
	if p.InCheck(true) || p.InCheck(false) {
		return p, kindName, false
	}
	if rng.IntN(2) == 0 {
		p = p.Mirror()
	}
	return p, kindName, true
}
