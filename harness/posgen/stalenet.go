package posgen

import "math/rand/v2"

// StaleNet: directed generator for "near-stalemate nets" (the input class of IsStalemate on which a
// single piece kind decides the answer).
//
// The side to move has a king without a move (cornered / on the edge / boxed by its own men and by
// attacked squares) and the only candidate movers are
//
//   - 0..3 pawns: any file (emphasis on a/b/g/h), any rank including the double-push rank, the
//     en-passant rank and the rank before promotion; each pawn independently with a blocked or free
//     push, a capture target present / absent on either diagonal, a man on the wrap-around square of a
//     rook pawn (opposite rook file, rank offset 0 / +2 / +1 / -1 / -2 in the pawn's direction: the
//     squares a careless bitboard shift by 7 or 9 lands on), on a ray from its own king with an enemy
//     slider behind it (file / diagonal / rank pin, also with a slider of the wrong kind = no pin) or
//     away from every line of sight of the king, an en-passant capture available (one or two
//     capturers) or not;
//   - or a single knight / bishop / rook / queen, pinned on a ray (matching or non-matching slider) or
//     free, smothered by own blocked pawns or not.
//
// Everything is built for White to move and then mirrored (colours + ranks, and files at random), so
// both colours get the same distribution.  A family is the base position plus a few single-square
// toggles of it (a man added to / removed from a square that matters for one of the movers: push
// square, capture squares, wrap squares, pinner), so that true stalemates come together with their
// "one extra option" neighbours and vice versa.
//
// Structural validity only (kings apart, pawn ranks, promotion bound, side not to move not in check,
// side to move not in check, en-passant geometry); soundness / capturability of the en-passant target
// and the Lean `valid` predicate are left to the caller.

// StaleCase is one generated near-stalemate net.
type StaleCase struct {
	Pos     Pos
	Class   string // pawns0 pawns1 pawns2 pawns3 knight bishop rook queen
	Variant string // base | add | rm
}

type snb struct {
	rng      *rand.Rand
	p        Pos // white to move while it is being built
	k        int // my (white) king
	reserved [64]bool
	hot      []int // squares whose occupancy matters for one of the movers
}

var snDirs = [][2]int{{1, 0}, {-1, 0}, {0, 1}, {0, -1}, {1, 1}, {1, -1}, {-1, 1}, {-1, -1}}
var snJumps = [][2]int{{1, 2}, {2, 1}, {-1, 2}, {-2, 1}, {1, -2}, {2, -1}, {-1, -2}, {-2, -1}}

func onBoard(f, r int) bool { return f >= 0 && f < 8 && r >= 0 && r < 8 }

func (b *snb) free(s int) bool { return s >= 0 && s < 64 && b.p.Men[s] == 0 && !b.reserved[s] }

// putEnemy places an enemy (black) man of one of the kinds on s, never one that attacks my king.
func (b *snb) putEnemy(s int, kinds []int) bool {
	if !b.free(s) {
		return false
	}
	for _, i := range b.rng.Perm(len(kinds)) {
		kd := kinds[i]
		if kd == P && (s/8 == 0 || s/8 == 7) {
			continue
		}
		b.p.Men[s] = man(true, kd)
		if !b.p.Attacked(true, b.k) {
			return true
		}
		b.p.Men[s] = 0
	}
	return false
}

func (b *snb) putOwn(s, kd int) bool {
	if !b.free(s) || (kd == P && (s/8 == 0 || s/8 == 7)) {
		return false
	}
	b.p.Men[s] = man(false, kd)
	return true
}

// blockedPawn: own pawn on s with an enemy man in front of it (if the square is still empty).
func (b *snb) blockedPawn(s int) bool {
	if !b.putOwn(s, P) {
		return false
	}
	b.hot = append(b.hot, s+8)
	b.putEnemy(s+8, []int{P, P, N, B})
	return true
}

func (b *snb) file() int {
	if b.rng.IntN(100) < 65 {
		return []int{0, 1, 6, 7}[b.rng.IntN(4)]
	}
	return 2 + b.rng.IntN(4)
}

func (b *snb) rank() int {
	switch x := b.rng.IntN(100); {
	case x < 25:
		return 1 // double-push rank
	case x < 45:
		return 6 // before promotion
	case x < 65:
		return 4 // en-passant rank
	}
	return []int{2, 3, 5}[b.rng.IntN(3)]
}

// rayPlace puts an own man of the kind on a ray from my king and an enemy slider behind it, the
// squares in between reserved.  Mostly a slider that pins, sometimes one of the wrong kind.
func (b *snb) rayPlace(kd int) (int, bool) {
	d := snDirs[b.rng.IntN(8)]
	d1 := 1 + b.rng.IntN(3)
	d2 := d1 + 1 + b.rng.IntN(4)
	kf, kr := b.k%8, b.k/8
	if !onBoard(kf+d[0]*d2, kr+d[1]*d2) {
		return 0, false
	}
	at := func(i int) int { return (kr+d[1]*i)*8 + kf + d[0]*i }
	for i := 1; i <= d2; i++ {
		if b.p.Men[at(i)] != 0 || ((i == d1 || i == d2) && b.reserved[at(i)]) {
			return 0, false
		}
	}
	s, sl := at(d1), at(d2)
	if !b.putOwn(s, kd) {
		return 0, false
	}
	diag := d[0] != 0 && d[1] != 0
	kinds := []int{Q, R}
	if diag {
		kinds = []int{Q, B}
	}
	if b.rng.IntN(4) == 0 { // aligned but not pinned
		kinds = []int{B, N}
		if diag {
			kinds = []int{R, N}
		}
	}
	if !b.putEnemy(sl, kinds) {
		b.p.Men[s] = 0
		return 0, false
	}
	for i := 1; i < d2; i++ {
		if i != d1 {
			b.reserved[at(i)] = true
		}
	}
	b.hot = append(b.hot, sl)
	return s, true
}

func (b *snb) addPawn() bool {
	s := -1
	for try := 0; try < 24 && s < 0; try++ {
		if b.rng.IntN(100) < 28 {
			if sq, ok := b.rayPlace(P); ok {
				s = sq
			}
			continue
		}
		sq := b.rank()*8 + b.file()
		if b.putOwn(sq, P) {
			s = sq
		}
	}
	if s < 0 {
		return false
	}
	b.decoratePawn(s)
	return true
}

func (b *snb) decoratePawn(s int) {
	f, r := s%8, s/8
	ahead := s + 8
	b.hot = append(b.hot, ahead)
	if b.p.Men[ahead] == 0 {
		switch {
		case b.reserved[ahead]:
		case b.rng.IntN(100) < 70:
			if b.rng.IntN(100) < 12 {
				b.putOwn(ahead, []int{N, B}[b.rng.IntN(2)])
			} else {
				b.putEnemy(ahead, []int{P, P, N, B, R})
			}
		default:
			b.reserved[ahead] = true
			if r == 1 && b.rng.IntN(2) == 0 {
				b.putEnemy(s+16, []int{P, N, B, R})
			}
		}
	}
	for _, df := range []int{-1, 1} {
		if !onBoard(f+df, r+1) {
			continue
		}
		t := s + 8 + df
		b.hot = append(b.hot, t)
		if b.rng.IntN(100) < 22 {
			b.putEnemy(t, []int{P, N, B, R, Q})
		}
	}
	if f == 0 || f == 7 {
		of := 7 - f
		for _, off := range []int{0, 2} {
			if onBoard(of, r+off) {
				b.hot = append(b.hot, (r+off)*8+of)
			}
		}
		if b.rng.IntN(100) < 45 {
			off := []int{0, 2, 0, 2, 1, -1, -2}[b.rng.IntN(7)]
			if onBoard(of, r+off) {
				w := (r+off)*8 + of
				if b.rng.IntN(100) < 12 {
					b.putOwn(w, []int{P, N}[b.rng.IntN(2)])
				} else {
					b.putEnemy(w, []int{P, P, N, B, R})
				}
			}
		}
	}
	if r == 4 && b.p.EP == 0 && b.rng.IntN(100) < 40 {
		df := []int{-1, 1}[b.rng.IntN(2)]
		if !onBoard(f+df, r) || !b.free(s+df) {
			df = -df
		}
		if onBoard(f+df, r) {
			e := s + df
			// the two squares behind the pushed pawn only have to be empty (they may lie on a pin ray:
			// the capture along the pin line is the interesting case)
			if b.free(e) && b.p.Men[e+8] == 0 && b.p.Men[e+16] == 0 && b.putEnemy(e, []int{P}) {
				b.reserved[e+8], b.reserved[e+16] = true, true
				b.p.EP = e + 8
				if b.rng.IntN(100) < 30 { // a heavy piece behind the pushed pawn on its file
					b.putEnemy(e+24, []int{R, Q})
				}
				if onBoard(f+2*df, r) && b.rng.IntN(100) < 30 { // second capturer
					if b.putOwn(s+2*df, P) {
						b.hot = append(b.hot, s+2*df+8)
						b.putEnemy(s+2*df+8, []int{P, N, B})
					}
				}
			}
		}
	}
}

func (b *snb) addPiece(kd int) bool {
	s := -1
	for try := 0; try < 24 && s < 0; try++ {
		// a queen on a pin ray can always move: mostly smothered in a corner instead
		onRay, corner := 50, 25
		if kd == Q {
			onRay, corner = 25, 50
		}
		if b.rng.IntN(100) < onRay {
			if sq, ok := b.rayPlace(kd); ok {
				s = sq
			}
			continue
		}
		var sq int
		switch x := b.rng.IntN(100); {
		case x < corner:
			sq = []int{0, 7, 56, 63}[b.rng.IntN(4)]
		case x < 40+corner:
			sq = (1+b.rng.IntN(6))*8 + 7*b.rng.IntN(2)
		default:
			sq = b.rng.IntN(64)
		}
		if b.putOwn(sq, kd) {
			s = sq
		}
	}
	if s < 0 {
		return false
	}
	if b.rng.IntN(100) < 70 { // smother it with own blocked pawns (every step square, or 3 in 4)
		share := 75
		if b.rng.IntN(2) == 0 {
			share = 100
		}
		b.smother(s, kd, share, 2)
	}
	return true
}

// smother puts own men on the squares next to the man on s it could step to: blocked pawns, on the
// back ranks a knight or bishop that is smothered in turn.
func (b *snb) smother(s, kd, share, depth int) {
	steps := snJumps
	switch kd {
	case B:
		steps = snDirs[4:]
	case R:
		steps = snDirs[:4]
	case Q:
		steps = snDirs
	}
	for _, d := range steps {
		if !onBoard(s%8+d[0], s/8+d[1]) {
			continue
		}
		t := s + 8*d[1] + d[0]
		b.hot = append(b.hot, t)
		if !b.free(t) || b.rng.IntN(100) >= share {
			continue
		}
		if t/8 != 0 && t/8 != 7 {
			b.blockedPawn(t)
		} else if share == 100 || b.rng.IntN(2) == 0 {
			k2 := []int{N, B}[b.rng.IntN(2)]
			if b.putOwn(t, k2) && depth > 0 {
				b.smother(t, k2, 100, depth-1)
			}
		}
	}
}

// uncovered lists the flight squares of my king that are neither occupied by an own man nor attacked
// by the enemy (the king itself lifted off the board, so that sliders look through it).
func (b *snb) uncovered() []int {
	var out []int
	b.p.Men[b.k] = 0
	for _, d := range snDirs {
		if !onBoard(b.k%8+d[0], b.k/8+d[1]) {
			continue
		}
		t := b.k + 8*d[1] + d[0]
		if m := b.p.Men[t]; m != 0 && !isBlack(m) {
			continue
		}
		if !b.p.Attacked(true, t) {
			out = append(out, t)
		}
	}
	b.p.Men[b.k] = K
	return out
}

// box takes every flight square away from my king: own blocked pawns next to it, enemy men that
// attack the square (but not the king).
func (b *snb) box() bool {
	for it := 0; it < 24; it++ {
		un := b.uncovered()
		if len(un) == 0 {
			return true
		}
		u := un[b.rng.IntN(len(un))]
		if b.free(u) && b.rng.IntN(100) < 35 {
			if b.rng.IntN(100) < 85 {
				if b.blockedPawn(u) {
					continue
				}
			} else if b.putOwn(u, []int{N, B}[b.rng.IntN(2)]) {
				continue
			}
		}
		best, bestKind, bestCover := -1, 0, len(un)
		for c := 0; c < 16; c++ {
			s := b.rng.IntN(64)
			kd := []int{Q, Q, R, R, B, N, P}[b.rng.IntN(7)]
			if !b.putEnemy(s, []int{kd}) {
				continue
			}
			if left := len(b.uncovered()); left < bestCover {
				best, bestKind, bestCover = s, kd, left
			}
			b.p.Men[s] = 0
		}
		if best >= 0 {
			b.p.Men[best] = man(true, bestKind)
		}
	}
	return len(b.uncovered()) == 0
}

// staleOK: structural validity of a finished net (either colour to move).
func (p *Pos) staleOK() bool {
	wk, bk := p.KingSq(false), p.KingSq(true)
	if wk < 0 || bk < 0 || max(abs(wk%8-bk%8), abs(wk/8-bk/8)) <= 1 {
		return false
	}
	for _, black := range []bool{false, true} {
		cnt := [7]int{}
		for _, m := range p.Men {
			if m != 0 && isBlack(m) == black {
				cnt[kind(m)]++
			}
		}
		extra := max(0, cnt[N]-2) + max(0, cnt[B]-2) + max(0, cnt[R]-2) + max(0, cnt[Q]-1)
		if cnt[K] != 1 || cnt[P]+extra > 8 {
			return false
		}
	}
	return !p.InCheck(false) && !p.InCheck(true)
}

func (p Pos) mirrorColours() Pos {
	q := p
	for s, m := range p.Men {
		if m != 0 {
			if isBlack(m) {
				m -= blackOff
			} else {
				m += blackOff
			}
		}
		q.Men[s^56] = m
	}
	q.Black = !p.Black
	if p.EP != 0 {
		q.EP = p.EP ^ 56
	}
	return q
}

func (p Pos) mirrorFiles() Pos {
	q := p
	for s, m := range p.Men {
		q.Men[s^7] = m
	}
	if p.EP != 0 {
		q.EP = p.EP ^ 7
	}
	return q
}

// StaleNet returns one family of near-stalemate nets (base + single-square toggles), nil when the
// draw failed.
func StaleNet(rng *rand.Rand) []StaleCase {
	b := &snb{rng: rng}
	b.p.Full = 1 + rng.IntN(60)
	switch x := rng.IntN(100); {
	case x < 45:
		b.k = []int{0, 7, 56, 63}[rng.IntN(4)]
	case x < 80:
		e := rng.IntN(8)
		b.k = []int{e, 56 + e, 8 * e, 8*e + 7}[rng.IntN(4)]
	default:
		b.k = rng.IntN(64)
	}
	b.p.Men[b.k] = K
	dist := func(s int) int { return max(abs(s%8-b.k%8), abs(s/8-b.k/8)) }
	near2 := rng.IntN(100) < 40
	ek := -1
	for try := 0; try < 60; try++ {
		s := rng.IntN(64)
		if d := dist(s); d >= 2 && (!near2 || d == 2) {
			ek = s
			break
		}
	}
	if ek < 0 {
		return nil
	}
	b.p.Men[ek] = man(true, K)

	var class string
	pawns, piece := 0, 0
	switch x := rng.IntN(100); {
	case x < 8:
		class = "pawns0"
	case x < 35:
		class, pawns = "pawns1", 1
	case x < 53:
		class, pawns = "pawns2", 2
	case x < 63:
		class, pawns = "pawns3", 3
	case x < 72:
		class, piece = "knight", N
	case x < 81:
		class, piece = "bishop", B
	case x < 90:
		class, piece = "rook", R
	default:
		class, piece = "queen", Q
	}
	if piece != 0 {
		if !b.addPiece(piece) {
			return nil
		}
		if rng.IntN(100) < 35 {
			pawns = 1
		}
	}
	for i := 0; i < pawns; i++ {
		if !b.addPawn() {
			return nil
		}
	}
	if !b.box() {
		return nil
	}
	if rng.IntN(100) < 25 {
		b.putEnemy(rng.IntN(64), []int{P, N, B, R})
	}
	if !b.p.staleOK() {
		return nil
	}
	out := []StaleCase{{Pos: b.p, Class: class, Variant: "base"}}
	// single-square toggles
	if len(b.hot) > 0 {
		for i := 1 + rng.IntN(3); i > 0; i-- {
			h := b.hot[rng.IntN(len(b.hot))]
			if h < 0 || h > 63 || kind(b.p.Men[h]) == K {
				continue
			}
			if b.p.EP != 0 && (h == b.p.EP || h == b.p.EP+8 || h == b.p.EP-8) {
				continue
			}
			q := *b
			variant := "rm"
			if q.p.Men[h] != 0 {
				q.p.Men[h] = 0
			} else {
				variant = "add"
				q.reserved[h] = false
				if rng.IntN(100) < 15 {
					if !q.putOwn(h, []int{P, N, B}[rng.IntN(3)]) {
						continue
					}
				} else if !q.putEnemy(h, []int{P, N, B, R, Q}) {
					continue
				}
			}
			if q.p.staleOK() {
				out = append(out, StaleCase{Pos: q.p, Class: class, Variant: variant})
			}
		}
	}
	flipC, flipF := rng.IntN(2) == 1, rng.IntN(2) == 1
	for i := range out {
		if flipC {
			out[i].Pos = out[i].Pos.mirrorColours()
		}
		if flipF {
			out[i].Pos = out[i].Pos.mirrorFiles()
		}
	}
	return out
}

// StaleCorpus: hand-written members of the class (kept next to the generator, which must find the
// class on its own), Black to move; StaleCorpusFENs adds the colour-reversed twins.  The only legal
// move is a rook pawn's capture; stalemate with a man on the rook pawn's wrap-around square; a pinned
// knight / rook / bishop as the only other man.
var StaleCorpus = []string{
	"7k/8/6Q1/p7/PP6/8/8/K7 b - - 0 1",
	"k7/8/1Q6/7p/6NP/8/8/K7 b - - 0 1",
	"k7/8/1Q6/P6p/7P/8/8/K7 b - - 0 1",
	"7k/8/6Q1/p7/P7/7P/8/K7 b - - 0 1",
	"kn2R3/8/1K6/8/8/8/8/8 b - - 0 1",
	"7k/4N1r1/8/6N1/8/8/1B6/7K b - - 0 1",
	"7k/5K1b/8/8/8/8/8/7R b - - 0 1",
}

// StaleCorpusFENs returns the corpus with the colour-reversed twin of every entry.
func StaleCorpusFENs() []string {
	var out []string
	for _, f := range StaleCorpus {
		out = append(out, f)
		if p, ok := Parse(f); ok {
			q := p.mirrorColours()
			out = append(out, q.FEN())
		}
	}
	return out
}
