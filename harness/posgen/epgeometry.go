package posgen

import "math/rand/v2"

// EPGeometry constructs, square by square, the en-passant situations that decide whether a double
// push may record a target (EPDirected reaches them only by chance).  The returned position is BEFORE
// the double push From->To; at least one enemy pawn stands beside To.  Kinds:
//
//	discover-diag   a bishop/queen of the pusher behind the origin square on a diagonal, the enemy king on
//	                the same diagonal beyond it: the push uncovers a check THROUGH THE ORIGIN SQUARE
//	discover-rank   the same along the pusher's home rank (rook/queen)
//	pin-diag        the capturer pinned on the diagonal that does not pass through the target square
//	pin-file        the capturer pinned on its file
//	pin-rank        enemy king and a rook/queen of the pusher on the capturers' rank with only the
//	                capturer and (after the push) the pushed pawn between them
//	two-capturers   capturers on both sides, one of them pinned (diagonal or file)
//	pusher-checks   the pushed pawn itself gives check (the en-passant capture removes the checker)
//	free            nothing pinned, nothing uncovered (control)
//
// Both colours (the black case is the mirror image).  A few extra men that keep off the critical lines
// give both sides reversible moves.  Structural validity only: the caller confirms with the Lean
// `valid` and with the legality of the push.
func EPGeometry(rng *rand.Rand) (EPCase, string, bool) {
	kinds := []string{"discover-diag", "discover-diag", "discover-rank", "pin-diag", "pin-file", "pin-rank", "two-capturers", "pusher-checks", "free"}
	kindName := kinds[rng.IntN(len(kinds))]
	// built for a WHITE pusher; mirrored at the end for black
	var p Pos
	p.Full = 1 + rng.IntN(60)
	reserved := map[int]bool{}
	sq := func(f, r int) int {
		if f < 0 || f > 7 || r < 0 || r > 7 {
			return -1
		}
		return r*8 + f
	}
	put := func(s int, m int8) bool {
		if s < 0 || p.Men[s] != 0 || reserved[s] {
			return false
		}
		if kind(m) == P && (s/8 == 0 || s/8 == 7) {
			return false
		}
		p.Men[s] = m
		return true
	}
	f := rng.IntN(8)
	from, mid, to := sq(f, 1), sq(f, 2), sq(f, 3)
	p.Men[from] = P
	reserved[mid], reserved[to] = true, true
	side := []int{-1, 1}[rng.IntN(2)]
	if f+side < 0 || f+side > 7 {
		side = -side
	}
	cf := f + side // file of the (first) capturer
	capSq := sq(cf, 3)
	p.Men[capSq] = P + blackOff
	slider := func(diag bool) int8 {
		if rng.IntN(2) == 0 {
			return Q
		}
		if diag {
			return B
		}
		return R
	}
	// line places the black king and a white slider on the line through `through` with direction
	// (df,dr): the king on the positive side, the slider on the negative side (or swapped), every other
	// square of the segment between them reserved.
	line := func(through, df, dr int, diag bool) bool {
		if rng.IntN(2) == 0 {
			df, dr = -df, -dr
		}
		tf, tr := through%8, through/8
		var pos, neg []int
		for k := 1; k < 8; k++ {
			if s := sq(tf+k*df, tr+k*dr); s >= 0 && p.Men[s] == 0 && !(reserved[s] && s != through) {
				pos = append(pos, k)
			} else {
				break
			}
		}
		for k := 1; k < 8; k++ {
			if s := sq(tf-k*df, tr-k*dr); s >= 0 && p.Men[s] == 0 && !(reserved[s] && s != through) {
				neg = append(neg, k)
			} else {
				break
			}
		}
		if len(pos) == 0 || len(neg) == 0 {
			return false
		}
		kk, ks := pos[rng.IntN(len(pos))], neg[rng.IntN(len(neg))]
		ksq, ssq := sq(tf+kk*df, tr+kk*dr), sq(tf-ks*df, tr-ks*dr)
		// the black king must not stand where the pawn on its origin square attacks it
		if ksq/8 == 2 && abs(ksq%8-f) == 1 {
			return false
		}
		p.Men[ksq] = K + blackOff
		p.Men[ssq] = slider(diag)
		for k := 1; k < kk; k++ {
			reserved[sq(tf+k*df, tr+k*dr)] = true
		}
		for k := 1; k < ks; k++ {
			reserved[sq(tf-k*df, tr-k*dr)] = true
		}
		return true
	}
	pinDiag := func(c int) bool {
		e := sgn(c%8 - f) // the diagonal through c that avoids the target square: direction (e,-1)
		return line(c, e, -1, true)
	}
	okGeom := true
	switch kindName {
	case "discover-diag":
		okGeom = line(from, []int{-1, 1}[rng.IntN(2)], 1, true)
	case "discover-rank":
		okGeom = line(from, 1, 0, false)
	case "pin-diag":
		okGeom = pinDiag(capSq)
	case "pin-file":
		okGeom = line(capSq, 0, 1, false)
	case "pin-rank":
		// king and rook on rank 3, between them only the capturer and the (still empty) destination
		kf, rf := -1, -1
		lo, hi := min(f, cf), max(f, cf)
		var left, right []int
		for x := lo - 1; x >= 0; x-- {
			left = append(left, x)
		}
		for x := hi + 1; x <= 7; x++ {
			right = append(right, x)
		}
		if len(left) == 0 || len(right) == 0 {
			okGeom = false
			break
		}
		kf, rf = left[rng.IntN(len(left))], right[rng.IntN(len(right))]
		if rng.IntN(2) == 0 {
			kf, rf = rf, kf
		}
		p.Men[sq(kf, 3)] = K + blackOff
		p.Men[sq(rf, 3)] = slider(false)
		for x := min(kf, rf) + 1; x < max(kf, rf); x++ {
			reserved[sq(x, 3)] = true
		}
	case "two-capturers":
		c2 := sq(f-side, 3)
		if c2 < 0 {
			okGeom = false
			break
		}
		p.Men[c2] = P + blackOff
		if rng.IntN(2) == 0 {
			okGeom = pinDiag(capSq)
		} else {
			okGeom = line(capSq, 0, 1, false)
		}
	case "pusher-checks":
		ks := sq(f+[]int{-1, 1}[rng.IntN(2)], 4)
		if ks < 0 || p.Men[ks] != 0 {
			okGeom = false
			break
		}
		p.Men[ks] = K + blackOff
	case "free":
	}
	if !okGeom {
		return EPCase{}, "", false
	}
	free := func() int {
		for try := 0; try < 30; try++ {
			s := rng.IntN(64)
			if p.Men[s] == 0 && !reserved[s] {
				return s
			}
		}
		return -1
	}
	if p.KingSq(true) < 0 {
		if !put(free(), K+blackOff) {
			return EPCase{}, "", false
		}
	}
	bk := p.KingSq(true)
	placedWK := false
	for try := 0; try < 30 && !placedWK; try++ {
		s := free()
		if s >= 0 && max(abs(s%8-bk%8), abs(s/8-bk/8)) > 1 {
			placedWK = put(s, K)
		}
	}
	if !placedWK {
		return EPCase{}, "", false
	}
	// extra men: knights mostly (no line effects), sometimes others; they keep off the reserved squares
	for i := rng.IntN(3); i > 0; i-- {
		put(free(), int8([]int{N, N, N, B, R, Q}[rng.IntN(6)]))
	}
	for i := rng.IntN(3); i > 0; i-- {
		put(free(), int8([]int{N, N, N, B, R, P}[rng.IntN(6)])+blackOff)
	}
	if rng.IntN(2) == 1 {
		// mirror: black pushes
		var q Pos
		q = p
		for s := 0; s < 64; s++ {
			m := p.Men[s]
			if m != 0 {
				if isBlack(m) {
					m -= blackOff
				} else {
					m += blackOff
				}
			}
			q.Men[(7-s/8)*8+s%8] = m
		}
		q.Black = true
		p = q
		from, to = (7-from/8)*8+from%8, (7-to/8)*8+to%8
	}
	if p.InCheck(!p.Black) {
		return EPCase{}, "", false
	}
	return EPCase{Pos: p, From: from, To: to}, kindName, true
}
