// Package posgen is the shared, measured position / history generator layer of the correspondence
// suites (DESIGN §4a).  Every random choice derives from the *rand.Rand handed in (one PRNG state
// per run).  It knows chess only through a plain mailbox (no code of /repo is used to *construct*
// positions), so that the generator cannot inherit a defect of the implementation.
package posgen

import (
	"bufio"
	"fmt"
	"math/rand/v2"
	"os"
	"regexp"
	"strings"
)

// Pos is a plain mailbox position. Men: 0 empty, 1..6 white P N B R Q K, 9..14 black p n b r q k.
type Pos struct {
	Men      [64]int8
	Black    bool // black to move
	Castles  int  // K=1 Q=2 k=4 q=8
	EP       int  // 0 = none
	Half     int
	Full     int
}

const (
	P = 1 + iota
	N
	B
	R
	Q
	K
)

const blackOff = 8

func man(black bool, k int) int8 {
	if black {
		return int8(k + blackOff)
	}
	return int8(k)
}

func kind(m int8) int { return int(m) & 7 }
func isBlack(m int8) bool { return m > blackOff }

// FEN prints the position.
func (p *Pos) FEN() string {
	const s = " PNBRQK  pnbrqk"
	var sb strings.Builder
	for r := 7; r >= 0; r-- {
		cnt := 0
		for f := 0; f < 8; f++ {
			m := p.Men[r*8+f]
			if m == 0 {
				cnt++
				continue
			}
			if cnt > 0 {
				fmt.Fprintf(&sb, "%d", cnt)
				cnt = 0
			}
			sb.WriteByte(s[m])
		}
		if cnt > 0 {
			fmt.Fprintf(&sb, "%d", cnt)
		}
		if r > 0 {
			sb.WriteByte('/')
		}
	}
	stm := "w"
	if p.Black {
		stm = "b"
	}
	cs := ""
	for i, c := range "KQkq" {
		if p.Castles&(1<<i) != 0 {
			cs += string(c)
		}
	}
	if cs == "" {
		cs = "-"
	}
	ep := "-"
	if p.EP != 0 {
		ep = fmt.Sprintf("%c%c", 'a'+p.EP%8, '1'+p.EP/8)
	}
	return fmt.Sprintf("%s %s %s %s %d %d", sb.String(), stm, cs, ep, p.Half, p.Full)
}

func sgn(x int) int {
	if x < 0 {
		return -1
	}
	if x > 0 {
		return 1
	}
	return 0
}

func abs(x int) int {
	if x < 0 {
		return -x
	}
	return x
}

// Attacked reports whether square t is attacked by a man of the given colour (mailbox ray walk).
func (p *Pos) Attacked(byBlack bool, t int) bool {
	tf, tr := t%8, t/8
	for a := 0; a < 64; a++ {
		m := p.Men[a]
		if m == 0 || isBlack(m) != byBlack {
			continue
		}
		af, ar := a%8, a/8
		df, dr := tf-af, tr-ar
		switch kind(m) {
		case P:
			up := 1
			if byBlack {
				up = -1
			}
			if abs(df) == 1 && dr == up {
				return true
			}
		case N:
			if (abs(df) == 1 && abs(dr) == 2) || (abs(df) == 2 && abs(dr) == 1) {
				return true
			}
		case K:
			if max(abs(df), abs(dr)) == 1 {
				return true
			}
		case B, R, Q:
			diag := abs(df) == abs(dr) && df != 0
			line := (df == 0) != (dr == 0)
			if (kind(m) == B && !diag) || (kind(m) == R && !line) || (kind(m) == Q && !diag && !line) {
				continue
			}
			sf, sr := sgn(df), sgn(dr)
			clear := true
			for f, r := af+sf, ar+sr; f != tf || r != tr; f, r = f+sf, r+sr {
				if p.Men[r*8+f] != 0 {
					clear = false
					break
				}
			}
			if clear {
				return true
			}
		}
	}
	return false
}

// KingSq returns the square of the (first) king of a colour, -1 if none.
func (p *Pos) KingSq(black bool) int {
	for s, m := range p.Men {
		if m == man(black, K) {
			return s
		}
	}
	return -1
}

// InCheck reports whether the king of the colour is attacked.
func (p *Pos) InCheck(black bool) bool {
	k := p.KingSq(black)
	return k >= 0 && p.Attacked(!black, k)
}

// Stats are the structural features the evidence histograms are keyed on.
type Stats struct {
	Men        int
	InCheck    bool
	HasEP      bool
	Castles    int
	PawnOn7th  bool
	Promoted   bool
	AlignedMen int // own men aligned with own king with a slider of the enemy behind: potential pins
}

// Features computes the histogram features of p.
func (p *Pos) Features() Stats {
	var st Stats
	cnt := map[int8]int{}
	for s, m := range p.Men {
		if m == 0 {
			continue
		}
		st.Men++
		cnt[m]++
		if kind(m) == P {
			r := s / 8
			if (!isBlack(m) && r == 6) || (isBlack(m) && r == 1) {
				st.PawnOn7th = true
			}
		}
	}
	for _, black := range []bool{false, true} {
		if cnt[man(black, N)] > 2 || cnt[man(black, B)] > 2 || cnt[man(black, R)] > 2 || cnt[man(black, Q)] > 1 {
			st.Promoted = true
		}
	}
	st.InCheck = p.InCheck(p.Black)
	st.HasEP = p.EP != 0
	st.Castles = p.Castles
	// potential pins on the side to move
	k := p.KingSq(p.Black)
	if k >= 0 {
		for _, d := range [][2]int{{1, 0}, {-1, 0}, {0, 1}, {0, -1}, {1, 1}, {1, -1}, {-1, 1}, {-1, -1}} {
			f, r := k%8+d[0], k/8+d[1]
			own := 0
			for f >= 0 && f < 8 && r >= 0 && r < 8 {
				m := p.Men[r*8+f]
				if m != 0 {
					if isBlack(m) == p.Black {
						own++
						if own > 1 {
							break
						}
					} else {
						diag := d[0] != 0 && d[1] != 0
						if own == 1 && (kind(m) == Q || (diag && kind(m) == B) || (!diag && kind(m) == R)) {
							st.AlignedMen++
						}
						break
					}
				}
				f, r = f+d[0], r+d[1]
			}
		}
	}
	return st
}

// Key is a coarse histogram key.
func (s Stats) Key() string {
	b := func(x bool, n string) string {
		if x {
			return n
		}
		return ""
	}
	size := "men<=5"
	switch {
	case s.Men > 24:
		size = "men>24"
	case s.Men > 12:
		size = "men13-24"
	case s.Men > 5:
		size = "men6-12"
	}
	return strings.Join([]string{size, b(s.InCheck, "check"), b(s.HasEP, "ep"), b(s.Castles != 0, "castle"),
		b(s.PawnOn7th, "p7"), b(s.Promoted, "promoted"), b(s.AlignedMen > 0, "pin")}, ":")
}

var fenRe = regexp.MustCompile(`[1-8pnbrqkPNBRQK]+(/[1-8pnbrqkPNBRQK]+){7} [wb] (-|[KQkq]+) (-|[a-h][36]) \d+ \d+`)

// Roots collects the FENs of the repository's own material from the working tree: the perft roots of
// debug/standard.epd, every FEN literal in main.go (bench) and in the *_test.go files, plus a few
// hand-written corner cases.
func Roots(repo string) []string {
	seen := map[string]bool{}
	var out []string
	add := func(f string) {
		if !seen[f] {
			seen[f] = true
			out = append(out, f)
		}
	}
	if f, err := os.Open(repo + "/debug/standard.epd"); err == nil {
		sc := bufio.NewScanner(f)
		for sc.Scan() {
			parts := strings.Split(sc.Text(), " ;")
			if len(parts) >= 2 {
				add(strings.TrimSpace(parts[0]))
			}
		}
		f.Close()
	}
	for _, fn := range []string{"main.go", "board/board_test.go", "board/attacks_test.go", "movegen/movegen_test.go",
		"heur/see_test.go", "picker/picker_test.go", "search/search_test.go", "board/fen_test.go"} {
		if buf, err := os.ReadFile(repo + "/" + fn); err == nil {
			for _, m := range fenRe.FindAllString(string(buf), -1) {
				add(m)
			}
		}
	}
	for _, f := range Special {
		add(f)
	}
	return out
}

// Special are hand-written corner cases (en-passant pins, discovered checks through the origin
// square, promotions with many queens, castling through attacked squares, clocks near 100).
var Special = []string{
	"8/8/8/7k/5p2/8/4P3/3BK3 w - - 0 1",
	"8/8/8/8/3p4/8/R3P2k/4K3 w - - 0 1",
	"8/8/8/8/k2p3R/8/4P3/4K3 w - - 0 1",
	"8/8/8/1k6/3p4/8/4P3/4K2B w - - 0 1",
	"4k3/8/8/8/3pP3/8/8/4K3 b - e3 0 1",
	"4k3/8/8/K2pP2r/8/8/8/8 w - d6 0 2",
	"8/8/8/8/k2Pp2Q/8/8/4K3 b - d3 0 1",
	"r3k2r/8/8/8/8/8/8/R3K2R w KQkq - 0 1",
	"r3k2r/8/8/8/8/8/6r1/R3K2R w KQkq - 0 1",
	"r3k2r/8/8/8/8/5n2/8/R3K2R w KQkq - 0 1",
	"4k3/P7/8/8/8/8/7p/4K3 w - - 0 1",
	"QQQQQQQQ/Q7/8/8/8/8/k7/4K3 w - - 0 1",
	"NNNNNNNN/NN6/8/8/8/8/k7/4K3 w - - 0 1",
	"4k3/8/8/8/8/8/8/4K2R w K - 99 80",
	"4k3/8/8/8/8/8/8/4K2R w K - 100 80",
	"k7/8/8/8/8/8/8/K7 w - - 0 1",
	"7k/5Q2/6K1/8/8/8/8/8 b - - 0 1",
	"7k/5K2/6Q1/8/8/8/8/8 b - - 0 1",
	"6k1/8/8/1b6/3PP3/r1PKP3/2PRB3/8 w - - 0 1",
	"8/8/5N1k/8/3pP3/8/8/2B1K1R1 b - e3 0 1", // domain boundary: target geometrically fine but the push was impossible (epSound false)
	"8/8/5N1k/8/3pP3/8/4B3/4K1R1 b - e3 0 1",
}

// Parse reads the six FEN fields into a mailbox (no validation beyond shape; ok=false on junk).
func Parse(fen string) (p Pos, ok bool) {
	fs := strings.Fields(fen)
	if len(fs) < 6 {
		return p, false
	}
	r, f := 7, 0
	for _, c := range fs[0] {
		switch {
		case c == '/':
			r--
			f = 0
		case c >= '1' && c <= '8':
			f += int(c - '0')
		default:
			ix := strings.IndexRune(" PNBRQK  pnbrqk", c)
			if ix <= 0 || r < 0 || f > 7 {
				return p, false
			}
			p.Men[r*8+f] = int8(ix)
			f++
		}
	}
	p.Black = fs[1] == "b"
	for i, c := range "KQkq" {
		if strings.ContainsRune(fs[2], c) {
			p.Castles |= 1 << i
		}
	}
	if fs[3] != "-" && len(fs[3]) == 2 {
		p.EP = int(fs[3][0]-'a') + 8*int(fs[3][1]-'1')
	}
	fmt.Sscanf(fs[4], "%d", &p.Half)
	fmt.Sscanf(fs[5], "%d", &p.Full)
	return p, true
}

// Profile selects the material profile of the constructive sampler.
type Profile int

const (
	Sparse Profile = iota // 3-7 men
	Medium                // 8-18 men
	Dense                 // 19-32 men
	PromoHeavy            // many promoted pieces
)

func emptySquares(p *Pos, pred func(s int) bool) []int {
	var out []int
	for s := 0; s < 64; s++ {
		if p.Men[s] == 0 && pred(s) {
			out = append(out, s)
		}
	}
	return out
}

func alignedWith(s, k int) bool {
	df, dr := abs(s%8-k%8), abs(s/8-k/8)
	return s != k && (df == 0 || dr == 0 || df == dr)
}

// Construct samples a position that satisfies the *structural* validity conditions (kings, pawn ranks,
// promotion bound, castling homes, en-passant geometry, side not to move not in check). The caller
// still confirms validity with the Lean `valid` predicate. Returns ok=false when a draw failed.
func Construct(rng *rand.Rand, prof Profile) (Pos, bool) {
	var p Pos
	p.Full = 1 + rng.IntN(80)
	p.Half = 0
	if rng.IntN(4) == 0 {
		p.Half = rng.IntN(101)
		if rng.IntN(3) == 0 {
			p.Half = 95 + rng.IntN(6)
		}
	}
	p.Black = rng.IntN(2) == 1
	// kings
	wk := rng.IntN(64)
	if rng.IntN(3) == 0 {
		wk = 4
	}
	bk := rng.IntN(64)
	if rng.IntN(3) == 0 {
		bk = 60
	}
	if max(abs(wk%8-bk%8), abs(wk/8-bk/8)) <= 1 {
		return p, false
	}
	p.Men[wk] = K
	p.Men[bk] = K + blackOff
	kings := [2]int{wk, bk}

	for side := 0; side < 2; side++ {
		black := side == 1
		var pawns, extra int
		var base [7]int // count per kind
		switch prof {
		case Sparse:
			pawns = rng.IntN(3)
			n := rng.IntN(3)
			for i := 0; i < n; i++ {
				base[N+rng.IntN(4)]++
			}
		case Medium:
			pawns = rng.IntN(7)
			base[N], base[B], base[R], base[Q] = rng.IntN(3), rng.IntN(3), rng.IntN(3), rng.IntN(2)
		case Dense:
			pawns = 4 + rng.IntN(5)
			base[N], base[B], base[R], base[Q] = 1+rng.IntN(2), 1+rng.IntN(2), 1+rng.IntN(2), rng.IntN(2)
		case PromoHeavy:
			pawns = rng.IntN(4)
			base[N], base[B], base[R], base[Q] = rng.IntN(3), rng.IntN(3), rng.IntN(3), rng.IntN(2)
			extra = rng.IntN(8 - pawns + 1)
			if rng.IntN(4) == 0 {
				extra = 8 - pawns
			}
		}
		for i := 0; i < extra; i++ {
			k := N + rng.IntN(4)
			if rng.IntN(2) == 0 {
				k = Q
			}
			base[k]++
		}
		// castling: put king and rooks at home sometimes
		home := 0
		if black {
			home = 56
		}
		if kings[side] == home+4 && rng.IntN(2) == 0 {
			if base[R] > 0 && p.Men[home+7] == 0 && rng.IntN(3) != 0 {
				p.Men[home+7] = man(black, R)
				base[R]--
				if rng.IntN(4) != 0 {
					p.Castles |= 1 << (2 * side)
				}
			}
			if base[R] > 0 && p.Men[home] == 0 && rng.IntN(3) != 0 {
				p.Men[home] = man(black, R)
				base[R]--
				if rng.IntN(4) != 0 {
					p.Castles |= 2 << (2 * side)
				}
			}
		}
		for k := N; k <= Q; k++ {
			for i := 0; i < base[k]; i++ {
				var cand []int
				if rng.IntN(5) < 2 {
					target := kings[rng.IntN(2)]
					cand = emptySquares(&p, func(s int) bool { return alignedWith(s, target) })
				}
				if len(cand) == 0 {
					cand = emptySquares(&p, func(s int) bool { return true })
				}
				if len(cand) == 0 {
					return p, false
				}
				p.Men[cand[rng.IntN(len(cand))]] = man(black, k)
			}
		}
		for i := 0; i < pawns; i++ {
			var cand []int
			switch rng.IntN(5) {
			case 0: // about to promote
				rk := 6
				if black {
					rk = 1
				}
				cand = emptySquares(&p, func(s int) bool { return s/8 == rk })
			case 1: // home rank (double pushes)
				rk := 1
				if black {
					rk = 6
				}
				cand = emptySquares(&p, func(s int) bool { return s/8 == rk })
			case 2: // en-passant ranks
				cand = emptySquares(&p, func(s int) bool { return s/8 == 3 || s/8 == 4 })
			}
			if len(cand) == 0 {
				cand = emptySquares(&p, func(s int) bool { return s/8 >= 1 && s/8 <= 6 })
			}
			if len(cand) == 0 {
				return p, false
			}
			p.Men[cand[rng.IntN(len(cand))]] = man(black, P)
		}
	}
	// en-passant target: a pawn of the side that just moved on its 4th rank with the two squares behind empty
	if rng.IntN(3) != 0 {
		mover := !p.Black
		rk, back := 3, -8
		if mover { // black just moved: pawn on rank index 4, target on rank index 5
			rk, back = 4, 8
		}
		var cand []int
		for f := 0; f < 8; f++ {
			s := rk*8 + f
			if p.Men[s] == man(mover, P) && p.Men[s+back] == 0 && p.Men[s+2*back] == 0 {
				// prefer a capturer next to it
				for _, d := range []int{-1, 1} {
					if f+d >= 0 && f+d < 8 && p.Men[s+d] == man(!mover, P) {
						cand = append(cand, s+back)
					}
				}
				if rng.IntN(6) == 0 {
					cand = append(cand, s+back)
				}
			}
		}
		if len(cand) > 0 {
			p.EP = cand[rng.IntN(len(cand))]
			p.Half = 0
		}
	}
	if p.InCheck(!p.Black) {
		// flip the side to move if that repairs it
		p.Black = !p.Black
		if p.EP != 0 || p.InCheck(!p.Black) {
			return p, false
		}
	}
	return p, true
}

// EPDirected builds positions around en-passant geometry: the capturing pawn pinned on file / rank /
// diagonal, the discovered check through the origin square, two capturers, a checking pusher.
// The returned position is BEFORE the double push (the push itself is left to the caller: the move
// from `From` to `To`).
type EPCase struct {
	Pos      Pos
	From, To int
}

func EPDirected(rng *rand.Rand) (EPCase, bool) {
	var p Pos
	p.Full = 1
	black := rng.IntN(2) == 1 // the pusher's colour
	p.Black = black
	f := rng.IntN(8)
	from, to := 8+f, 24+f
	if black {
		from, to = 48+f, 32+f
	}
	p.Men[from] = man(black, P)
	// capturers
	n := 0
	for _, d := range []int{-1, 1} {
		if f+d >= 0 && f+d < 8 && rng.IntN(3) != 0 {
			p.Men[to+d] = man(!black, P)
			n++
		}
	}
	if n == 0 {
		return EPCase{}, false
	}
	place := func(m int8) bool {
		cand := emptySquares(&p, func(s int) bool { return s != (from+to)/2 && s != to })
		if len(cand) == 0 {
			return false
		}
		// bias: aligned with from / to / the capturers
		for try := 0; try < 8; try++ {
			s := cand[rng.IntN(len(cand))]
			if alignedWith(s, from) || alignedWith(s, to) || try == 7 {
				if kind(m) == P && (s/8 == 0 || s/8 == 7) {
					continue
				}
				p.Men[s] = m
				return true
			}
		}
		return false
	}
	if !place(man(black, K)) || !place(man(!black, K)) {
		return EPCase{}, false
	}
	for i := rng.IntN(4) + 1; i > 0; i-- {
		place(man(black, int([]int{B, R, Q, N}[rng.IntN(4)])))
	}
	for i := rng.IntN(3); i > 0; i-- {
		place(man(!black, int([]int{B, R, Q, N, P}[rng.IntN(5)])))
	}
	wk, bk := p.KingSq(false), p.KingSq(true)
	if wk < 0 || bk < 0 || max(abs(wk%8-bk%8), abs(wk/8-bk/8)) <= 1 {
		return EPCase{}, false
	}
	if p.InCheck(!p.Black) {
		return EPCase{}, false
	}
	return EPCase{Pos: p, From: from, To: to}, true
}

// KingNet samples positions that are dense around the king of the side to move: random men of both
// colours in its neighbourhood, enemy sliders and knights aimed at the king or at its flight squares
// from a distance, own pawns on their home rank and in front of the king (blocks by single and
// double push), own men between king and enemy sliders (pins).  It is the directed generator for the
// mate / stalemate tests: a large share of its output is in check, mated, stalemated or has only a
// few legal moves.  Structural validity only (kings, pawn ranks, side not to move not in check).
func KingNet(rng *rand.Rand) (Pos, bool) {
	var p Pos
	p.Full = 1
	p.Black = rng.IntN(2) == 1
	me, opp := p.Black, !p.Black
	var k int
	switch rng.IntN(4) {
	case 0:
		k = []int{0, 7, 56, 63}[rng.IntN(4)]
	case 1, 2:
		e := rng.IntN(8)
		k = []int{e, 56 + e, 8 * e, 8*e + 7}[rng.IntN(4)]
	default:
		k = rng.IntN(64)
	}
	p.Men[k] = man(me, K)
	kf, kr := k%8, k/8
	near := func(s, d int) bool { return max(abs(s%8-kf), abs(s/8-kr)) <= d }
	// enemy king far enough
	var ek int
	for try := 0; ; try++ {
		ek = rng.IntN(64)
		if !near(ek, 1) {
			break
		}
		if try > 50 {
			return p, false
		}
	}
	p.Men[ek] = man(opp, K)
	put := func(s int, m int8) bool {
		if s < 0 || s > 63 || p.Men[s] != 0 {
			return false
		}
		if kind(m) == P && (s/8 == 0 || s/8 == 7) {
			return false
		}
		p.Men[s] = m
		return true
	}
	dirs := [][2]int{{1, 0}, {-1, 0}, {0, 1}, {0, -1}, {1, 1}, {1, -1}, {-1, 1}, {-1, -1}}
	// enemy long-range men aimed at the king zone
	for i := rng.IntN(4); i > 0; i-- {
		target := k
		if rng.IntN(2) == 0 {
			d := dirs[rng.IntN(8)]
			f, r := kf+d[0], kr+d[1]
			if f >= 0 && f < 8 && r >= 0 && r < 8 {
				target = r*8 + f
			}
		}
		d := dirs[rng.IntN(8)]
		dist := 1 + rng.IntN(7)
		f, r := target%8+d[0]*dist, target/8+d[1]*dist
		if f < 0 || f > 7 || r < 0 || r > 7 {
			continue
		}
		diag := d[0] != 0 && d[1] != 0
		kd := Q
		if rng.IntN(2) == 0 {
			if diag {
				kd = B
			} else {
				kd = R
			}
		}
		put(r*8+f, man(opp, kd))
	}
	// enemy knights / pawns / men next to the king
	for i := rng.IntN(3); i > 0; i-- {
		j := [][2]int{{1, 2}, {2, 1}, {-1, 2}, {-2, 1}, {1, -2}, {2, -1}, {-1, -2}, {-2, -1}}[rng.IntN(8)]
		f, r := kf+j[0], kr+j[1]
		if rng.IntN(2) == 0 { // aimed at a neighbour square instead
			d := dirs[rng.IntN(8)]
			f, r = f+d[0], r+d[1]
		}
		if f >= 0 && f < 8 && r >= 0 && r < 8 {
			put(r*8+f, man(opp, N))
		}
	}
	for s := 0; s < 64; s++ {
		if p.Men[s] != 0 || !near(s, 2) {
			continue
		}
		switch x := rng.IntN(100); {
		case x < 12:
			put(s, man(me, []int{P, P, P, N, B, R, Q}[rng.IntN(7)]))
		case x < 20:
			put(s, man(opp, []int{P, P, N, B, R, Q}[rng.IntN(6)]))
		}
	}
	// own pawns on their home rank and 3rd rank (double / single push interpositions), own blockers
	home := 1
	if me {
		home = 6
	}
	for i := rng.IntN(4); i > 0; i-- {
		rk := home
		if rng.IntN(3) == 0 {
			if me {
				rk = home - 1
			} else {
				rk = home + 1
			}
		}
		put(rk*8+rng.IntN(8), man(me, P))
	}
	for i := rng.IntN(3); i > 0; i-- {
		put(rng.IntN(64), man(me, []int{N, B, R, Q, P}[rng.IntN(5)]))
	}
	for i := rng.IntN(3); i > 0; i-- {
		put(rng.IntN(64), man(opp, []int{N, B, R, Q, P}[rng.IntN(5)]))
	}
	// en-passant target (rarely): an enemy pawn that just double-pushed next to one of my pawns
	if rng.IntN(5) == 0 {
		rk, back := 3, -8 // white just moved
		if !me {          // I am white, black just moved
			rk, back = 4, 8
		}
		for f := 0; f < 8; f++ {
			s := rk*8 + f
			if p.Men[s] == man(opp, P) && p.Men[s+back] == 0 && p.Men[s+2*back] == 0 {
				for _, d := range []int{-1, 1} {
					if f+d >= 0 && f+d < 8 && p.Men[s+d] == man(me, P) {
						p.EP = s + back
					}
				}
			}
		}
	}
	// promotion bound
	for _, black := range []bool{false, true} {
		cnt := [7]int{}
		for _, m := range p.Men {
			if m != 0 && isBlack(m) == black {
				cnt[kind(m)]++
			}
		}
		extra := max(0, cnt[N]-2) + max(0, cnt[B]-2) + max(0, cnt[R]-2) + max(0, cnt[Q]-1)
		if cnt[P]+extra > 8 {
			return p, false
		}
	}
	if p.InCheck(!p.Black) {
		return p, false
	}
	return p, true
}

// EPSound reports whether the recorded en-passant target belongs to a pawn that could really just
// have double-pushed: with the pawn back on its origin square the side to move now must not be in
// check (mailbox version of the Lean predicate Rules.epSound).
func (p *Pos) EPSound() bool {
	if p.EP == 0 {
		return true
	}
	mover := !p.Black
	up := 8
	if mover { // black pushed downwards
		up = -8
	}
	front, back := p.EP+up, p.EP-up
	if front < 0 || front > 63 || back < 0 || back > 63 || p.Men[front] != man(mover, P) || p.Men[back] != 0 {
		return false
	}
	q := *p
	q.Men[front] = 0
	q.Men[back] = man(mover, P)
	q.EP = 0
	return !q.InCheck(p.Black)
}
