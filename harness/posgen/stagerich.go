package posgen

// Directed generator for STAGE-RICH positions, the opposite extreme of stagepoor.go: valid positions
// whose side to move has very many pseudo-legal moves (100..218), aimed at exact totals around the
// signed-byte boundary (127 / 128 / 129 moves), at a quiet stage that alone crosses 128 entries, at a
// noisy stage (captures + 4 promotions per promoting pawn move) that alone crosses 64 entries, and at
// the maximum-mobility constructions (perturbations of the known 218-move positions).  Material obeys
// the promotion bound (pawns + extra pieces <= 8 per side), the side not to move is not in check.
// Steering uses the package's own mailbox enumerator (PseudoMoves); the suites measure the classes
// actually reached with the implementation's generator.

import "math/rand/v2"

// StageRichCorpus are hand-written members of the class kept next to the generator: the two known
// 218-move positions (maximum for a legal position), and a colour-mirrored one.
var StageRichCorpus = []string{
	"R6R/3Q4/1Q4Q1/4Q3/2Q4Q/Q4Q2/pp1Q4/kBNN1KB1 w - - 0 1",
	"3Q4/1Q4Q1/4Q3/2Q4R/Q4Q2/3Q4/1Q4Rp/1K1BBNNk w - - 0 1",
	"Kbnn1kb1/PP1q4/q4q2/2q4q/4q3/1q4q1/3q4/r6r b - - 0 1",
}

// RichTarget is what StageRich aimed at (and, by its own mailbox count, reached): a value of -1 means
// "not constrained".
type RichTarget struct {
	Mode     string
	Total    int // exact number of pseudo-legal moves
	Quiet    int // exact number of quiet moves
	Noisy    int // exact number of noisy moves
	NoisyMin int // at least so many noisy moves
	NoisyMax int // at most so many noisy moves
}

// Miss is 0 iff a position with q quiet and n noisy moves meets the target.
func (t RichTarget) Miss(q, n int) int {
	c := 0
	if t.Total >= 0 {
		c += abs(q + n - t.Total)
	}
	if t.Quiet >= 0 {
		c += abs(q - t.Quiet)
	}
	if t.Noisy >= 0 {
		c += abs(n - t.Noisy)
	}
	if t.NoisyMin >= 0 {
		c += 2 * max(0, t.NoisyMin-n)
	}
	if t.NoisyMax >= 0 {
		c += 2 * max(0, n-t.NoisyMax)
	}
	return c
}

// StageRich builds a position that meets a RichTarget exactly.  Construction (for White to move,
// mirrored for Black half of the time): the black king in a corner or on an edge behind a shield of
// own men (or of white minor pieces that do not attack it), white king, rooks, minor pieces and a
// queen on random squares; then a local search adds promoted queens / rooks / minor pieces (within
// the promotion bound), moves and nudges men, adds white pawns on the seventh rank below black men
// (twelve promotion moves per pawn at best), adds / moves / removes black men in the lines of the
// white pieces, until the mailbox move counts hit the target.
func StageRich(rng *rand.Rand) (Pos, RichTarget, bool) {
	tg := RichTarget{Total: -1, Quiet: -1, Noisy: -1, NoisyMin: -1, NoisyMax: -1}
	var p Pos
	p.Full = 1 + rng.IntN(80)
	p.Half = rng.IntN(30)
	boundary := func() int { return 127 + rng.IntN(3) }
	fromCorpus := false
	switch x := rng.IntN(20); {
	case x < 4:
		tg.Mode, tg.Total = "total-boundary", boundary()
	case x < 6:
		tg.Mode, tg.Total, tg.NoisyMax = "total-boundary-quietlong", boundary(), rng.IntN(4)
	case x < 8:
		tg.Mode, tg.Total, tg.NoisyMin = "total-boundary-noisylong", boundary(), 50+rng.IntN(30)
	case x < 11:
		tg.Mode, tg.Total = "total-spread", 100+rng.IntN(90)
	case x < 12:
		tg.Mode, tg.Total, tg.NoisyMax = "total-spread-quietlong", 100+rng.IntN(70), rng.IntN(4)
	case x < 13:
		tg.Mode, tg.Total, tg.NoisyMin = "total-spread-noisylong", 128+rng.IntN(40), 64+rng.IntN(10)
	case x < 15:
		tg.Mode, tg.Quiet = "quiet-boundary", boundary()
		if rng.IntN(2) == 0 {
			tg.NoisyMin = 1 + rng.IntN(20)
		}
	case x < 17:
		tg.Mode, tg.Noisy = "noisy-64", 63+rng.IntN(3)
	case x < 18:
		tg.Mode, tg.NoisyMin = "noisy-max", 80+rng.IntN(30)
	default:
		tg.Mode, tg.Total = "maxmob", 175+rng.IntN(44)
		fromCorpus = true
	}

	put := func(s int, m int8) bool {
		if s < 0 || s > 63 || p.Men[s] != 0 {
			return false
		}
		if kind(m) == P && (s/8 == 0 || s/8 == 7) {
			return false
		}
		p.Men[s] = m
		return true
	}
	// tryPut keeps the man only if the position stays structurally valid
	tryPut := func(s int, m int8) bool {
		if !put(s, m) {
			return false
		}
		if !p.stagePoorOK() {
			p.Men[s] = 0
			return false
		}
		return true
	}
	ownPiece := func() int8 { return int8([]int{Q, Q, Q, Q, Q, R, R, B, N}[rng.IntN(9)]) }
	foeMan := func() int8 { return int8([]int{P, P, N, B, R, Q, N, B}[rng.IntN(8)] + blackOff) }

	if fromCorpus {
		q, ok := Parse(StageRichCorpus[rng.IntN(2)])
		if !ok {
			return p, tg, false
		}
		p.Men = q.Men
		// the corpus positions in a random orientation (left-right reflection keeps pawn directions)
		if rng.IntN(2) == 0 {
			var m [64]int8
			for s := 0; s < 64; s++ {
				m[s^7] = p.Men[s]
			}
			p.Men = m
		}
	} else {
		edge := []int{0, 7, 56, 63, rng.IntN(8), 56 + rng.IntN(8), 8 * rng.IntN(8), 8*rng.IntN(8) + 7}
		bk := edge[rng.IntN(len(edge))]
		p.Men[bk] = K + blackOff
		for _, d := range spKingD {
			f, r := bk%8+d[0], bk/8+d[1]
			if f < 0 || f > 7 || r < 0 || r > 7 || rng.IntN(5) == 0 {
				continue
			}
			switch rng.IntN(4) {
			case 0:
				if !put(r*8+f, P+blackOff) {
					put(r*8+f, foeMan())
				}
			case 1:
				put(r*8+f, foeMan())
			default:
				if !tryPut(r*8+f, int8(N+rng.IntN(2))) {
					put(r*8+f, P+blackOff)
				}
			}
		}
		// white king away from the black one
		for try := 0; ; try++ {
			s := rng.IntN(64)
			if p.Men[s] == 0 && max(abs(s%8-bk%8), abs(s/8-bk/8)) > 1 {
				p.Men[s] = K
				break
			}
			if try > 100 {
				return p, tg, false
			}
		}
		if !p.stagePoorOK() {
			return p, tg, false
		}
		for _, k := range []int{R, R, B, B, N, N, Q, Q, Q} {
			if rng.IntN(4) != 0 {
				tryPut(rng.IntN(64), int8(k))
			}
		}
	}

	cost := func() int {
		q, n := p.PseudoCounts()
		return tg.Miss(q, n)
	}
	own := func(pred func(m int8) bool) []int {
		var out []int
		for s, m := range p.Men {
			if m != 0 && !isBlack(m) && pred(m) {
				out = append(out, s)
			}
		}
		return out
	}
	foes := func() []int {
		var out []int
		for s, m := range p.Men {
			if isBlack(m) && kind(m) != K {
				out = append(out, s)
			}
		}
		return out
	}
	notKing := func(m int8) bool { return kind(m) != K }
	wantNoisy := tg.NoisyMin >= 0 || tg.Noisy >= 0
	calm := tg.NoisyMax >= 0
	cur := cost()
	for iter := 0; iter < 6000 && cur > 0; iter++ {
		save := p
		x := rng.IntN(20)
		if wantNoisy && rng.IntN(3) == 0 {
			x = 14 + rng.IntN(6)
		}
		if calm && x >= 14 && rng.IntN(4) != 0 {
			x = rng.IntN(10)
		}
		switch {
		case x < 4: // move an own piece anywhere
			if c := own(notKing); len(c) > 0 {
				s := c[rng.IntN(len(c))]
				m := p.Men[s]
				p.Men[s] = 0
				if !put(rng.IntN(64), m) {
					p = save
				}
			}
		case x < 8: // nudge an own man (king included) by one square
			if c := own(func(int8) bool { return true }); len(c) > 0 {
				s := c[rng.IntN(len(c))]
				d := spKingD[rng.IntN(8)]
				f, r := s%8+d[0], s/8+d[1]
				if f >= 0 && f < 8 && r >= 0 && r < 8 {
					m := p.Men[s]
					p.Men[s] = 0
					if !put(r*8+f, m) {
						p = save
					}
				}
			}
		case x < 11: // another (promoted) piece
			put(rng.IntN(64), ownPiece())
		case x < 13: // one own man less
			if c := own(notKing); len(c) > 0 {
				p.Men[c[rng.IntN(len(c))]] = 0
			}
		case x < 14: // one black man less
			if c := foes(); len(c) > 0 {
				p.Men[c[rng.IntN(len(c))]] = 0
			}
		case x < 16: // a black man somewhere / moved
			if c := foes(); len(c) > 0 && rng.IntN(2) == 0 {
				s := c[rng.IntN(len(c))]
				m := p.Men[s]
				p.Men[s] = 0
				if !put(rng.IntN(64), m) {
					p = save
				}
			} else {
				put(rng.IntN(64), foeMan())
			}
		case x < 18: // a white pawn on the seventh rank, black men on the eighth beside its file
			f := rng.IntN(8)
			put(48+f, P)
			if p.Men[48+f] == P {
				for _, df := range []int{-1, 1} {
					if f+df >= 0 && f+df < 8 && rng.IntN(3) != 0 {
						put(56+f+df, int8(N+rng.IntN(4)+blackOff))
					}
				}
			}
		case x < 19: // a black man into the line of an own slider: on the destination of one of its quiet moves
			var qs []PMove
			for _, m := range p.PseudoMoves() {
				if !m.Noisy && !m.Castle && kind(m.Man) != P {
					qs = append(qs, m)
				}
			}
			if len(qs) > 0 {
				put(qs[rng.IntN(len(qs))].To, foeMan())
			}
		default: // a white pawn anywhere
			put(8+rng.IntN(48), P)
		}
		if p == save {
			continue
		}
		if !p.stagePoorOK() {
			p = save
			continue
		}
		c := cost()
		if c < cur || (c == cur && rng.IntN(2) == 0) {
			cur = c
		} else {
			p = save
		}
	}
	if cur > 0 && tg.Mode == "noisy-max" {
		// as long a noisy stage as the search got: the target is lowered to what was reached
		if _, n := p.PseudoCounts(); n >= 70 {
			tg.NoisyMin, cur = n, 0
		}
	}
	if cur > 0 || !p.stagePoorOK() {
		return p, tg, false
	}
	if rng.IntN(2) == 0 {
		p = p.Mirror()
	}
	return p, tg, true
}
