package posgen

import "math/rand/v2"

// Castling-path generator (class: positions WITH a castling right in which every square of the
// castling path - f1 g1 / b1 c1 d1 / f8 g8 / b8 c8 d8 - is independently vacant, occupied by an own
// man, or occupied by an ENEMY man of each kind; king and rook at home, both colours, all four rights,
// with and without attacks on the path from afar).  Ordinary sampling practically never puts an enemy
// man on the back rank between a king and a rook that still have their right.
//
// Two entry points: CastlePathSweep enumerates the single-occupant patterns systematically (one path
// square carries one of the eight occupant kinds, the others are vacant; plus the all-vacant pattern),
// CastlePath draws every path square independently.  Structural validity only; the caller confirms
// with the Lean `valid`.

// CastleCase is one generated position with its classification.
type CastleCase struct {
	Pos   Pos
	Right int // right under test: 0 K, 1 Q, 2 k, 3 q
	// Pattern has one character per path square, from the rook's side of the king outwards in board
	// order (short: f g; long: b c d): '.' vacant, 'o' own man, 'x' enemy man that attacks none of the
	// squares the king crosses, 'X' enemy man that attacks one of them.
	Pattern string
	// AfarKing: an enemy man that does not stand on the path attacks a square the king crosses
	// (e f g / e d c).  AfarB: (long only) the b-square is attacked while the king's squares are not.
	AfarKing, AfarB bool
	// OwnerToMove: the side owning the right under test is to move.
	OwnerToMove bool
}

var castleRightChar = [4]string{"K", "Q", "k", "q"}

// Key is the histogram key of the case: right and occupancy pattern.
func (c CastleCase) Key() string { return castleRightChar[c.Right] + ":" + c.Pattern }

func castleGeometry(right int) (black bool, home int, rook int, path []int, kingPath []int) {
	black = right >= 2
	if black {
		home = 56
	}
	if right%2 == 0 {
		return black, home, home + 7, []int{home + 5, home + 6}, []int{home + 4, home + 5, home + 6}
	}
	return black, home, home, []int{home + 1, home + 2, home + 3}, []int{home + 4, home + 3, home + 2}
}

// attacksFrom reports whether the man standing on a attacks square t (mailbox, ray walk).
func (p *Pos) attacksFrom(a, t int) bool {
	m := p.Men[a]
	if m == 0 || a == t {
		return false
	}
	df, dr := t%8-a%8, t/8-a/8
	switch kind(m) {
	case P:
		up := 1
		if isBlack(m) {
			up = -1
		}
		return abs(df) == 1 && dr == up
	case N:
		return (abs(df) == 1 && abs(dr) == 2) || (abs(df) == 2 && abs(dr) == 1)
	case K:
		return max(abs(df), abs(dr)) == 1
	case B, R, Q:
		diag := abs(df) == abs(dr)
		line := (df == 0) != (dr == 0)
		if (kind(m) == B && !diag) || (kind(m) == R && !line) || (kind(m) == Q && !diag && !line) {
			return false
		}
		sf, sr := sgn(df), sgn(dr)
		for f, r := a%8+sf, a/8+sr; f != t%8 || r != t/8; f, r = f+sf, r+sr {
			if p.Men[r*8+f] != 0 {
				return false
			}
		}
		return true
	}
	return false
}

// occupant kinds of a path square: 0 vacant, 1..4 own N B R Q, 5..8 enemy N B R Q, 9 enemy K
const castleOccKinds = 9

// CastleSweepSize is the number of systematic single-occupant patterns: for each of the four rights
// the all-vacant path plus every (path square, occupant kind 1..8).
const CastleSweepSize = 4 + (2+3)*2*8

// CastlePathSweep builds pattern number i (0 <= i < CastleSweepSize).  With filler=false the position
// holds only the two kings, the rook and the occupant; with filler=true random further material,
// further rights and attackers from afar are added as in CastlePath.
func CastlePathSweep(rng *rand.Rand, i int, filler bool) (CastleCase, bool) {
	i %= CastleSweepSize
	var right, sq, occ int
	if i < 4 {
		right = i
	} else {
		i -= 4
		occ = 1 + i%8
		i /= 8
		// i in 0..9: K f g, Q b c d, k f g, q b c d
		switch {
		case i < 2:
			right, sq = 0, i
		case i < 5:
			right, sq = 1, i-2
		case i < 7:
			right, sq = 2, i-5
		default:
			right, sq = 3, i-7
		}
	}
	_, _, _, path, _ := castleGeometry(right)
	occs := make([]int, len(path))
	occs[sq] = occ
	return castleBuild(rng, right, occs, true, filler)
}

// CastlePath draws the right under test and the occupant of every path square independently
// (vacant 3 : own N B R Q 1 each : enemy N B R Q 1 each, rarely the enemy king).
func CastlePath(rng *rand.Rand) (CastleCase, bool) {
	right := rng.IntN(4)
	_, _, _, path, _ := castleGeometry(right)
	occs := make([]int, len(path))
	for j := range occs {
		switch x := rng.IntN(45); {
		case x < 12:
			occs[j] = 0
		case x < 44:
			occs[j] = 1 + (x-12)/4
		default:
			occs[j] = 9
		}
	}
	return castleBuild(rng, right, occs, rng.IntN(7) != 0, true)
}

func castleBuild(rng *rand.Rand, right int, occs []int, ownerToMove, filler bool) (CastleCase, bool) {
	var p Pos
	black, home, rook, path, kingPath := castleGeometry(right)
	p.Full = 1 + rng.IntN(60)
	p.Black = black == ownerToMove
	p.Men[home+4] = man(black, K)
	p.Men[rook] = man(black, R)
	p.Castles = 1 << right
	enemyKingPlaced := false
	for j, o := range occs {
		switch {
		case o == 0:
		case o <= 4:
			p.Men[path[j]] = man(black, N+o-1)
		case o <= 8:
			p.Men[path[j]] = man(!black, N+o-5)
		default:
			if enemyKingPlaced || max(abs(path[j]%8-4), 0) <= 1 {
				p.Men[path[j]] = man(!black, N) // king next to king / second king: fall back to a knight
			} else {
				p.Men[path[j]] = man(!black, K)
				enemyKingPlaced = true
			}
		}
	}
	put := func(s int, m int8) bool {
		if s < 0 || s > 63 || p.Men[s] != 0 || (kind(m) == P && (s/8 == 0 || s/8 == 7)) {
			return false
		}
		p.Men[s] = m
		return true
	}
	ohome := 56 - home
	if filler {
		// the other right of the same side, its path mostly vacant
		if rng.IntN(2) == 0 {
			other := right ^ 1
			_, _, orook, opath, _ := castleGeometry(other)
			if put(orook, man(black, R)) {
				p.Castles |= 1 << other
				for _, s := range opath {
					if rng.IntN(4) == 0 {
						put(s, man(rng.IntN(2) == 0, N+rng.IntN(4)))
					}
				}
			}
		}
	}
	// the enemy king: at home with its own rooks and rights (all four rights on the board), or anywhere
	if !enemyKingPlaced {
		if filler && rng.IntN(2) == 0 {
			p.Men[ohome+4] = man(!black, K)
			for w, s := range []int{ohome + 7, ohome} {
				if rng.IntN(3) != 0 && put(s, man(!black, R)) && rng.IntN(4) != 0 {
					r := w
					if !black {
						r += 2
					}
					p.Castles |= 1 << r
				}
			}
			if rng.IntN(2) == 0 { // men on the enemy's paths as well
				for _, s := range []int{ohome + 1, ohome + 2, ohome + 3, ohome + 5, ohome + 6} {
					if rng.IntN(4) == 0 {
						put(s, man(rng.IntN(2) == 0, N+rng.IntN(4)))
					}
				}
			}
		} else {
			placed := false
			for try := 0; try < 40 && !placed; try++ {
				s := rng.IntN(64)
				if filler && rng.IntN(2) == 0 {
					s = ohome + rng.IntN(8)
				}
				if max(abs(s%8-4), abs(s/8-home/8)) <= 1 || abs(s/8-home/8) == 0 {
					continue
				}
				placed = put(s, man(!black, K))
			}
			if !placed {
				return CastleCase{}, false
			}
		}
	}
	if filler {
		up := 8
		if black {
			up = -8
		}
		// attackers from afar: an enemy slider or knight aimed at a back-rank square between the rooks
		for i := []int{0, 0, 1, 1, 2}[rng.IntN(5)]; i > 0; i-- {
			t := home + 1 + rng.IntN(6)
			if rng.IntN(2) == 0 {
				t = kingPath[rng.IntN(3)]
			}
			if rng.IntN(4) == 0 {
				j := [][2]int{{1, 2}, {-1, 2}, {2, 1}, {-2, 1}}[rng.IntN(4)]
				f, r := t%8+j[0], t/8+j[1]*up/8
				if f >= 0 && f < 8 && r >= 0 && r < 8 {
					put(r*8+f, man(!black, N))
				}
				continue
			}
			d := []int{-1, 0, 1}[rng.IntN(3)]
			dist := 1 + rng.IntN(6)
			f, r := t%8+d*dist, t/8+dist*up/8
			if f < 0 || f > 7 || r < 0 || r > 7 {
				continue
			}
			kd := Q
			if rng.IntN(2) == 0 {
				kd = R
				if d != 0 {
					kd = B
				}
			}
			if !put(r*8+f, man(!black, kd)) {
				continue
			}
			if dist > 1 && rng.IntN(3) == 0 { // a blocker on the line
				k := 1 + rng.IntN(dist-1)
				s := (t/8+k*up/8)*8 + t%8 + d*k
				if rng.IntN(2) == 0 {
					put(s, man(black, P))
				} else {
					put(s, man(rng.IntN(2) == 0, N+rng.IntN(4)))
				}
			}
		}
		// own pawns in front of the back rank, a few men elsewhere
		for f := 0; f < 8; f++ {
			if rng.IntN(3) == 0 {
				put(home+up+f, man(black, P))
			}
		}
		if rng.IntN(4) == 0 { // an enemy pawn on the second rank attacks two back-rank squares
			put(home+up+rng.IntN(8), man(!black, P))
		}
		for i := rng.IntN(4); i > 0; i-- {
			put(16+rng.IntN(32), man(rng.IntN(2) == 0, []int{P, P, N, B, R, Q}[rng.IntN(6)]))
		}
		if rng.IntN(5) == 0 {
			p.Half = rng.IntN(101)
		}
	}
	wk, bk := p.KingSq(false), p.KingSq(true)
	if wk < 0 || bk < 0 || max(abs(wk%8-bk%8), abs(wk/8-bk/8)) <= 1 {
		return CastleCase{}, false
	}
	if p.InCheck(!p.Black) {
		return CastleCase{}, false
	}
	// promotion bound
	for _, c := range []bool{false, true} {
		cnt := [7]int{}
		for _, m := range p.Men {
			if m != 0 && isBlack(m) == c {
				cnt[kind(m)]++
			}
		}
		if cnt[P]+max(0, cnt[N]-2)+max(0, cnt[B]-2)+max(0, cnt[R]-2)+max(0, cnt[Q]-1) > 8 {
			return CastleCase{}, false
		}
	}
	c := CastleCase{Pos: p, Right: right, OwnerToMove: ownerToMove}
	c.classify()
	return c, true
}

// classify computes Pattern, AfarKing and AfarB from the final placement.
func (c *CastleCase) classify() {
	p := &c.Pos
	black, home, _, path, kingPath := castleGeometry(c.Right)
	onPath := map[int]bool{}
	pat := make([]byte, len(path))
	for j, s := range path {
		onPath[s] = true
		m := p.Men[s]
		switch {
		case m == 0:
			pat[j] = '.'
		case isBlack(m) == black:
			pat[j] = 'o'
		default:
			pat[j] = 'x'
			for _, t := range kingPath {
				if p.attacksFrom(s, t) {
					pat[j] = 'X'
				}
			}
		}
	}
	c.Pattern = string(pat)
	for a, m := range p.Men {
		if m == 0 || isBlack(m) == black || onPath[a] {
			continue
		}
		for _, t := range kingPath {
			if p.attacksFrom(a, t) {
				c.AfarKing = true
			}
		}
	}
	if c.Right%2 == 1 && !c.AfarKing {
		for a, m := range p.Men {
			if m != 0 && isBlack(m) != black && !onPath[a] && p.attacksFrom(a, home+1) {
				c.AfarB = true
			}
		}
	}
}
