// Package common is the shared layer of the correspondence harnesses: flags, the single PRNG,
// the line-protocol client for the compiled Lean model drivers, and the JSON result that
// bin/check consumes.
package common

import (
	"bufio"
	"encoding/json"
	"flag"
	"fmt"
	"io"
	"math/rand/v2"
	"os"
	"os/exec"
	"sort"
	"strings"
	"time"
)

// Ctx is the run context of one suite.
type Ctx struct {
	Tier    string // "quick" | "thorough"
	Seed    uint64
	Driver  string // path of the compiled Lean driver of this suite
	Out     string // path of the JSON result
	Replay  string // optional: path of a replay file (ops to re-run)
	Rng     *rand.Rand
	started time.Time
}

// Thorough reports whether the thorough tier was requested.
func (c *Ctx) Thorough() bool { return c.Tier == "thorough" }

// Pick returns q in the quick tier and t in the thorough tier.
func (c *Ctx) Pick(q, t int) int {
	if c.Thorough() {
		return t
	}
	return q
}

// Parse reads the standard flags: -tier -seed -driver -out -replay.
func Parse() *Ctx {
	c := &Ctx{}
	flag.StringVar(&c.Tier, "tier", "quick", "quick|thorough")
	flag.Uint64Var(&c.Seed, "seed", 1, "PRNG seed (VERIF_SEED)")
	flag.StringVar(&c.Driver, "driver", "", "path of the compiled Lean model driver")
	flag.StringVar(&c.Out, "out", "", "path of the JSON result")
	flag.StringVar(&c.Replay, "replay", "", "replay file")
	flag.Parse()
	c.Rng = rand.New(rand.NewPCG(c.Seed, 0x9e3779b97f4a7c15))
	c.started = time.Now()
	return c
}

// Mismatch is one disagreement. Kind is "failing-input" when the implementation contradicts the
// independent specification / the property itself on Ops, "broken-correspondence" when only model
// and implementation differ (no property-level failure could be shown on this input).
type Mismatch struct {
	Property string   `json:"property"`
	Kind     string   `json:"kind"`
	Ops      []string `json:"ops"`
	Impl     string   `json:"impl"`
	Model    string   `json:"model"`
	Spec     string   `json:"spec,omitempty"`
	Note     string   `json:"note,omitempty"`
}

// Result is what a suite reports.
type Result struct {
	Suite              string         `json:"suite"`
	Properties         []string       `json:"properties"`
	Tier               string         `json:"tier"`
	Seed               uint64         `json:"seed"`
	Evaluations        int            `json:"evaluations"`
	DistinctNontrivial int            `json:"distinct_nontrivial"`
	Rule               string         `json:"rule"`
	Samples            []any          `json:"samples"`
	Histogram          map[string]int `json:"histogram"`
	Mismatches         []Mismatch     `json:"mismatches"`
	Exhaustive         bool           `json:"exhaustive"`
	TracesValidated    int            `json:"traces_validated_against_impl"`
	Notes              []string       `json:"notes,omitempty"`
	WallS              float64        `json:"wall_s"`

	distinct map[string]struct{}
}

// NewResult creates an empty result for suite.
func NewResult(c *Ctx, suite string, props ...string) *Result {
	return &Result{Suite: suite, Properties: props, Tier: c.Tier, Seed: c.Seed,
		Histogram: map[string]int{}, distinct: map[string]struct{}{}, Mismatches: []Mismatch{}, Samples: []any{}}
}

// Count adds n to a histogram key.
func (r *Result) Count(key string, n int) { r.Histogram[key] += n }

// Nontrivial records a canonical key of a non-trivial case; distinct keys are counted.
func (r *Result) Nontrivial(key string) {
	if _, ok := r.distinct[key]; !ok {
		r.distinct[key] = struct{}{}
		r.DistinctNontrivial = len(r.distinct)
	}
}

// Sample keeps up to max samples.
func (r *Result) Sample(v any, max int) {
	if len(r.Samples) < max {
		r.Samples = append(r.Samples, v)
	}
}

// Fail records a mismatch (at most 50 are kept).
func (r *Result) Fail(m Mismatch) {
	// capped per kind, so that a flood of correspondence differences from an early part of a suite cannot
	// crowd out a failing input found by a later part
	n := 0
	for i := range r.Mismatches {
		if r.Mismatches[i].Kind == m.Kind {
			n++
		}
	}
	if n < 30 {
		r.Mismatches = append(r.Mismatches, m)
	}
}

// Write stores the result as JSON at c.Out (stdout when empty).
func (r *Result) Write(c *Ctx) {
	r.WallS = time.Since(c.started).Seconds()
	keys := make([]string, 0, len(r.Histogram))
	for k := range r.Histogram {
		keys = append(keys, k)
	}
	sort.Strings(keys)
	buf, err := json.MarshalIndent(r, "", " ")
	if err != nil {
		panic(err)
	}
	if c.Out == "" {
		os.Stdout.Write(append(buf, '\n'))
		return
	}
	if err := os.WriteFile(c.Out, buf, 0o644); err != nil {
		panic(err)
	}
}

// Model is a running Lean driver: one request line in, exactly one answer line out.
type Model struct {
	cmd  *exec.Cmd
	in   *bufio.Writer
	inC  io.WriteCloser
	out  *bufio.Reader
	Dead bool
}

// StartModel launches the driver at path.
func StartModel(path string, args ...string) *Model {
	cmd := exec.Command(path, args...)
	inP, err := cmd.StdinPipe()
	if err != nil {
		panic(err)
	}
	outP, err := cmd.StdoutPipe()
	if err != nil {
		panic(err)
	}
	cmd.Stderr = os.Stderr
	if err := cmd.Start(); err != nil {
		panic(fmt.Sprintf("cannot start model driver %s: %v", path, err))
	}
	return &Model{cmd: cmd, in: bufio.NewWriterSize(inP, 1<<20), inC: inP, out: bufio.NewReaderSize(outP, 1<<20)}
}

// Ask sends one line and returns the one-line answer ("<dead>" once the driver has died).
func (m *Model) Ask(line string) string {
	return m.Batch([]string{line})[0]
}

// Batch sends all lines, then reads one answer per line.
func (m *Model) Batch(lines []string) []string {
	res := make([]string, len(lines))
	if m.Dead {
		for i := range res {
			res[i] = "<dead>"
		}
		return res
	}
	done := make(chan struct{})
	go func() {
		defer close(done)
		for _, l := range lines {
			if strings.ContainsAny(l, "\n\r") {
				panic("line protocol: request contains a newline: " + l)
			}
			m.in.WriteString(l)
			m.in.WriteByte('\n')
		}
		m.in.Flush()
	}()
	for i := range lines {
		s, err := m.out.ReadString('\n')
		if err != nil {
			m.Dead = true
			for j := i; j < len(res); j++ {
				res[j] = "<dead>"
			}
			break
		}
		res[i] = strings.TrimRight(s, "\n")
	}
	<-done
	return res
}

// Close terminates the driver.
func (m *Model) Close() {
	m.inC.Close()
	m.cmd.Wait()
}
