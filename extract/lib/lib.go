// Package lib is the shared part of the fact extractors: it parses and type-checks one package
// directory of the repository (stdlib go/parser + go/types only, source importer, offline) and
// gives access to constant values, table literals and normalised-AST fingerprints of functions.
package lib

import (
	"bytes"
	"crypto/sha256"
	"encoding/hex"
	"fmt"
	"go/ast"
	"go/build/constraint"
	"go/constant"
	"go/importer"
	"go/parser"
	"go/printer"
	"go/token"
	"go/types"
	"os"
	"path/filepath"
	"sort"
	"strings"
)

// Pkg is a parsed (and, if possible, type-checked) package directory.
type Pkg struct {
	Dir   string
	Fset  *token.FileSet
	Files []*ast.File
	Info  *types.Info
	Types *types.Package
	Err   error // type-check error, if any (facts that need types then fail)
}

// Load parses the non-test Go files of dir that are built with the given tags.
// The process must run with cwd inside the module (so the source importer resolves imports).
func Load(dir string, tags ...string) *Pkg {
	// experiments on a scratch worktree (bin/try-seeded): VERIF_REPO re-roots every "/repo/..." path.
	// The registered checks never set it, so they read /repo itself.
	if alt := os.Getenv("VERIF_REPO"); alt != "" && alt != "/repo" && (dir == "/repo" || strings.HasPrefix(dir, "/repo/")) {
		dir = strings.TrimRight(alt, "/") + dir[len("/repo"):]
	}
	p := &Pkg{Dir: dir, Fset: token.NewFileSet()}
	ents, err := os.ReadDir(dir)
	if err != nil {
		Die("read dir %s: %v", dir, err)
	}
	tagset := map[string]bool{}
	for _, t := range tags {
		tagset[t] = true
	}
	for _, e := range ents {
		n := e.Name()
		if !strings.HasSuffix(n, ".go") || strings.HasSuffix(n, "_test.go") {
			continue
		}
		f, err := parser.ParseFile(p.Fset, filepath.Join(dir, n), nil, parser.ParseComments)
		if err != nil {
			Die("parse %s: %v", n, err)
		}
		if !buildOK(f, tagset) {
			continue
		}
		p.Files = append(p.Files, f)
	}
	p.Info = &types.Info{Types: map[ast.Expr]types.TypeAndValue{}, Defs: map[*ast.Ident]types.Object{}, Uses: map[*ast.Ident]types.Object{}}
	conf := types.Config{Importer: importer.ForCompiler(p.Fset, "source", nil), Error: func(err error) {
		if p.Err == nil {
			p.Err = err
		}
	}}
	p.Types, _ = conf.Check(dir, p.Fset, p.Files, p.Info)
	return p
}

func buildOK(f *ast.File, tags map[string]bool) bool {
	for _, cg := range f.Comments {
		if cg.Pos() > f.Package {
			break
		}
		for _, c := range cg.List {
			if constraint.IsGoBuild(c.Text) {
				x, err := constraint.Parse(c.Text)
				if err != nil {
					return false
				}
				return x.Eval(func(tag string) bool { return tags[tag] })
			}
		}
	}
	return true
}

// Die prints an error and exits with status 2 (= the extraction is a broken obligation).
func Die(format string, args ...any) {
	fmt.Fprintf(os.Stderr, "extract: "+format+"\n", args...)
	os.Exit(2)
}

// ConstInt returns the exact value of a package-level integer constant as decimal text.
func (p *Pkg) ConstInt(name string) string {
	if p.Types == nil {
		Die("%s: package not type-checked: %v", p.Dir, p.Err)
	}
	obj := p.Types.Scope().Lookup(name)
	c, ok := obj.(*types.Const)
	if !ok {
		Die("%s: constant %s not found", p.Dir, name)
	}
	v := constant.ToInt(c.Val())
	if v.Kind() != constant.Int {
		Die("%s: constant %s is not an integer", p.Dir, name)
	}
	return v.ExactString()
}

// VarDecl finds the value expression of a package-level `var name = expr`.
func (p *Pkg) VarDecl(name string) ast.Expr {
	for _, f := range p.Files {
		for _, d := range f.Decls {
			gd, ok := d.(*ast.GenDecl)
			if !ok || gd.Tok != token.VAR {
				continue
			}
			for _, s := range gd.Specs {
				vs := s.(*ast.ValueSpec)
				for i, n := range vs.Names {
					if n.Name == name && i < len(vs.Values) {
						return vs.Values[i]
					}
				}
			}
		}
	}
	Die("%s: var %s with initialiser not found", p.Dir, name)
	return nil
}

// Tree is a nested table literal: either a leaf (exact integer text) or a list of sub-trees.
type Tree struct {
	Leaf string
	Kids []Tree
	List bool
}

// Table returns the nested composite literal initialising var name, every leaf evaluated to an
// exact integer by the type checker. Keyed elements are not supported (Die).
func (p *Pkg) Table(name string) Tree { return p.tree(p.VarDecl(name), name) }

func (p *Pkg) tree(e ast.Expr, ctx string) Tree {
	if cl, ok := e.(*ast.CompositeLit); ok {
		t := Tree{List: true}
		for _, el := range cl.Elts {
			if _, keyed := el.(*ast.KeyValueExpr); keyed {
				Die("%s: keyed element in table %s unsupported", p.Dir, ctx)
			}
			t.Kids = append(t.Kids, p.tree(el, ctx))
		}
		return t
	}
	tv, ok := p.Info.Types[e]
	if !ok || tv.Value == nil {
		Die("%s: non-constant element in table %s", p.Dir, ctx)
	}
	v := constant.ToInt(tv.Value)
	if v.Kind() != constant.Int {
		Die("%s: non-integer element in table %s", p.Dir, ctx)
	}
	return Tree{Leaf: v.ExactString()}
}

// Flat returns the leaves in order.
func (t Tree) Flat() []string {
	if !t.List {
		return []string{t.Leaf}
	}
	var out []string
	for _, k := range t.Kids {
		out = append(out, k.Flat()...)
	}
	return out
}

// Lean renders the tree as nested Lean list syntax `[[1, 2], [3, 4]]`.
func (t Tree) Lean() string {
	if !t.List {
		if strings.HasPrefix(t.Leaf, "-") {
			return "(" + t.Leaf + ")"
		}
		return t.Leaf
	}
	parts := make([]string, len(t.Kids))
	for i, k := range t.Kids {
		parts[i] = k.Lean()
	}
	return "[" + strings.Join(parts, ", ") + "]"
}

// Func finds a function or method declaration; name is "F" or "Recv.F" (pointer receivers too).
func (p *Pkg) Func(name string) *ast.FuncDecl {
	for _, f := range p.Files {
		for _, d := range f.Decls {
			fd, ok := d.(*ast.FuncDecl)
			if !ok {
				continue
			}
			if funcName(fd) == name {
				return fd
			}
		}
	}
	Die("%s: func %s not found", p.Dir, name)
	return nil
}

func funcName(fd *ast.FuncDecl) string {
	if fd.Recv == nil || len(fd.Recv.List) == 0 {
		return fd.Name.Name
	}
	t := fd.Recv.List[0].Type
	if s, ok := t.(*ast.StarExpr); ok {
		t = s.X
	}
	if ix, ok := t.(*ast.IndexExpr); ok {
		t = ix.X
	}
	if id, ok := t.(*ast.Ident); ok {
		return id.Name + "." + fd.Name.Name
	}
	return fd.Name.Name
}

// FuncNames lists all function/method names of the package, sorted.
func (p *Pkg) FuncNames() []string {
	var out []string
	for _, f := range p.Files {
		for _, d := range f.Decls {
			if fd, ok := d.(*ast.FuncDecl); ok {
				out = append(out, funcName(fd))
			}
		}
	}
	sort.Strings(out)
	return out
}

// Source prints a declaration without comments (normalised formatting).
func (p *Pkg) Source(n ast.Node) string {
	var buf bytes.Buffer
	cfg := printer.Config{Mode: printer.RawFormat}
	switch x := n.(type) {
	case *ast.FuncDecl:
		cp := *x
		cp.Doc = nil
		cfg.Fprint(&buf, token.NewFileSet(), &cp)
	default:
		cfg.Fprint(&buf, token.NewFileSet(), n)
	}
	return buf.String()
}

// Fingerprint is a hash of the comment-free, whitespace-normalised source of a function.
func (p *Pkg) Fingerprint(name string) string {
	src := strings.Join(strings.Fields(p.Source(p.Func(name))), " ")
	h := sha256.Sum256([]byte(src))
	return hex.EncodeToString(h[:8])
}

// WriteIfChanged writes content to path only when it differs (keeps lake's traces stable).
func WriteIfChanged(path, content string) {
	old, err := os.ReadFile(path)
	if err == nil && string(old) == content {
		return
	}
	if err := os.MkdirAll(filepath.Dir(path), 0o755); err != nil {
		Die("%v", err)
	}
	if err := os.WriteFile(path, []byte(content), 0o644); err != nil {
		Die("%v", err)
	}
}
