module verifextract

go 1.25.4
