// Command tuner prints lean/ChessVerif/Gen/Tuner.lean: the facts of tools/tuner/{epd,tuning} that the
// C20 model and theorems depend on.  Run with cwd=/repo (optionally: tuner <repo_dir>).
//
// Package-level constants come from the type checker.  Constants that live inside function bodies
// (Feistel round count and key increment, the mixer's shifts and multiplier) are read by walking the
// AST of exactly the statement shapes the hand model mirrors; any other shape stops the extraction.
package main

import (
	"fmt"
	"go/ast"
	"go/constant"
	"go/token"
	"os"
	"path/filepath"
	"strings"

	"verifextract/lib"
)

var epd *lib.Pkg

func constOf(e ast.Expr, what string) string {
	tv, ok := epd.Info.Types[e]
	if !ok || tv.Value == nil {
		lib.Die("tuner: %s: expression is not a typed constant", what)
	}
	v := constant.ToInt(tv.Value)
	if v.Kind() != constant.Int {
		lib.Die("tuner: %s: not an integer constant", what)
	}
	return v.ExactString()
}

func ident(e ast.Expr, name, what string) {
	id, ok := e.(*ast.Ident)
	if !ok || id.Name != name {
		lib.Die("tuner: %s: expected identifier %s, found %s", what, name, epd.Source(e))
	}
}

// roundFunc must be exactly:
//
//	z := x + k; z ^= z >> S1; z *= M; z ^= z >> S2; return z
func roundFuncFacts() (s1, mul, s2 string) {
	fd := epd.Func("roundFunc")
	if fd.Type.Params.NumFields() != 2 || len(fd.Body.List) != 5 {
		lib.Die("tuner: roundFunc: unexpected signature or statement count:\n%s", epd.Source(fd))
	}
	names := []string{}
	for _, f := range fd.Type.Params.List {
		for _, n := range f.Names {
			names = append(names, n.Name)
		}
		ident(f.Type, "uint64", "roundFunc parameter type")
	}
	if len(names) != 2 {
		lib.Die("tuner: roundFunc: expected two parameters")
	}
	x, k := names[0], names[1]
	// z := x + k
	a0, ok := fd.Body.List[0].(*ast.AssignStmt)
	if !ok || a0.Tok != token.DEFINE || len(a0.Lhs) != 1 || len(a0.Rhs) != 1 {
		lib.Die("tuner: roundFunc: statement 1 is not `z := x + k`")
	}
	ident(a0.Lhs[0], "z", "roundFunc stmt 1 lhs")
	b0, ok := a0.Rhs[0].(*ast.BinaryExpr)
	if !ok || b0.Op != token.ADD {
		lib.Die("tuner: roundFunc: statement 1 is not an addition")
	}
	ident(b0.X, x, "roundFunc stmt 1")
	ident(b0.Y, k, "roundFunc stmt 1")
	xorShift := func(i int) string {
		a, ok := fd.Body.List[i].(*ast.AssignStmt)
		if !ok || a.Tok != token.XOR_ASSIGN || len(a.Lhs) != 1 || len(a.Rhs) != 1 {
			lib.Die("tuner: roundFunc: statement %d is not `z ^= z >> c`", i+1)
		}
		ident(a.Lhs[0], "z", "roundFunc xor-shift lhs")
		b, ok := a.Rhs[0].(*ast.BinaryExpr)
		if !ok || b.Op != token.SHR {
			lib.Die("tuner: roundFunc: statement %d is not a right shift", i+1)
		}
		ident(b.X, "z", "roundFunc xor-shift operand")
		return constOf(b.Y, "roundFunc shift amount")
	}
	s1 = xorShift(1)
	a2, ok := fd.Body.List[2].(*ast.AssignStmt)
	if !ok || a2.Tok != token.MUL_ASSIGN || len(a2.Lhs) != 1 || len(a2.Rhs) != 1 {
		lib.Die("tuner: roundFunc: statement 3 is not `z *= c`")
	}
	ident(a2.Lhs[0], "z", "roundFunc multiply lhs")
	mul = constOf(a2.Rhs[0], "roundFunc multiplier")
	s2 = xorShift(3)
	r, ok := fd.Body.List[4].(*ast.ReturnStmt)
	if !ok || len(r.Results) != 1 {
		lib.Die("tuner: roundFunc: statement 5 is not `return z`")
	}
	ident(r.Results[0], "z", "roundFunc return")
	return
}

// feistel must contain `const rounds = N`, a `for i := range rounds` loop whose first statement is
// `k := seed + uint64(i)*C`, and nothing else may mention an integer literal other than 1 and 2
// (the `1 << half`, `bits / 2` of the mask computation).
func feistelFacts() (rounds, key string) {
	fd := epd.Func("feistel")
	var loop *ast.RangeStmt
	for _, st := range fd.Body.List {
		switch s := st.(type) {
		case *ast.DeclStmt:
			gd, ok := s.Decl.(*ast.GenDecl)
			if !ok || gd.Tok != token.CONST || len(gd.Specs) != 1 {
				lib.Die("tuner: feistel: unexpected declaration")
			}
			vs := gd.Specs[0].(*ast.ValueSpec)
			if len(vs.Names) != 1 || vs.Names[0].Name != "rounds" || len(vs.Values) != 1 {
				lib.Die("tuner: feistel: expected `const rounds = N`")
			}
			if rounds != "" {
				lib.Die("tuner: feistel: `rounds` declared twice")
			}
			rounds = constOf(vs.Values[0], "feistel rounds")
		case *ast.RangeStmt:
			if loop != nil {
				lib.Die("tuner: feistel: more than one loop")
			}
			loop = s
		}
	}
	if rounds == "" || loop == nil {
		lib.Die("tuner: feistel: `const rounds` or the round loop not found")
	}
	ident(loop.X, "rounds", "feistel loop range")
	if loop.Key == nil || loop.Value != nil || loop.Tok != token.DEFINE {
		lib.Die("tuner: feistel: loop is not `for i := range rounds`")
	}
	iv := loop.Key.(*ast.Ident).Name
	if len(loop.Body.List) != 3 {
		lib.Die("tuner: feistel: loop body does not have 3 statements")
	}
	a, ok := loop.Body.List[0].(*ast.AssignStmt)
	if !ok || a.Tok != token.DEFINE || len(a.Lhs) != 1 || len(a.Rhs) != 1 {
		lib.Die("tuner: feistel: first loop statement is not `k := ...`")
	}
	ident(a.Lhs[0], "k", "feistel key")
	sum, ok := a.Rhs[0].(*ast.BinaryExpr)
	if !ok || sum.Op != token.ADD {
		lib.Die("tuner: feistel: key is not `seed + uint64(i)*C`")
	}
	ident(sum.X, "seed", "feistel key")
	prod, ok := sum.Y.(*ast.BinaryExpr)
	if !ok || prod.Op != token.MUL {
		lib.Die("tuner: feistel: key is not `seed + uint64(i)*C`")
	}
	call, ok := prod.X.(*ast.CallExpr)
	if !ok || len(call.Args) != 1 {
		lib.Die("tuner: feistel: key is not `seed + uint64(i)*C`")
	}
	ident(call.Fun, "uint64", "feistel key conversion")
	ident(call.Args[0], iv, "feistel key loop variable")
	key = constOf(prod.Y, "feistel key increment")
	return
}

// sourceShape is the comment-free, whitespace-normalised source of a function.
func sourceShape(p *lib.Pkg, name string) string {
	return strings.Join(strings.Fields(p.Source(p.Func(name))), " ")
}

// The hand model in Model/Tuner.lean mirrors these three functions statement by statement.  Their
// normalised source must be the text below with the extracted constants substituted; otherwise the
// model is no longer known to describe the code and the extraction stops (broken obligation).
const shuffleShape = `func shuffleIndex(x, n, seed uint64) uint64 { if n <= 1 { return 0 } bitsNeeded := bits.Len64(n - 1) size := uint64(1) << bitsNeeded mask := size - 1 for { y := feistel(x, seed, bitsNeeded) if y < n { return y } x = y & mask } }`
const feistelShape = `func feistel(x, seed uint64, bits int) uint64 { half := bits / 2 leftMask := (uint64(1) << half) - 1 rightMask := (uint64(1) << (bits - half)) - 1 left := x & leftMask right := (x >> half) & rightMask const rounds = @R for i := range rounds { k := seed + uint64(i)*@K f := roundFunc(right, k) & leftMask left, right = right, left^f } return ((right & rightMask) << half) | (left & leftMask) }`

func checkShape(name, want string, subst map[string]string) {
	got := sourceShape(epd, name)
	// literals are compared by value: replace the literal spellings found by the AST walk
	for k, v := range subst {
		want = strings.ReplaceAll(want, k, v)
	}
	if got != want {
		lib.Die("tuner: %s no longer has the shape the hand model mirrors.\n got: %s\nwant: %s", name, got, want)
	}
}

func literalText(fn string, val string) string {
	// find the spelling of the literal with this value inside fn (so hex vs decimal spelling is free)
	var out string
	ast.Inspect(epd.Func(fn), func(n ast.Node) bool {
		if bl, ok := n.(*ast.BasicLit); ok && bl.Kind == token.INT {
			if tv, ok := epd.Info.Types[bl]; ok && tv.Value != nil && constant.ToInt(tv.Value).ExactString() == val {
				out = bl.Value
			}
		}
		return true
	})
	if out == "" {
		lib.Die("tuner: %s: literal with value %s not found", fn, val)
	}
	return out
}

func main() {
	repo := "."
	if len(os.Args) > 1 {
		repo = os.Args[1]
	}
	epd = lib.Load(filepath.Join(repo, "tools/tuner/epd"))
	if epd.Types == nil || epd.Info == nil {
		lib.Die("tuner: epd not type-checked: %v", epd.Err)
	}
	s1, mul, s2 := roundFuncFacts()
	rounds, key := feistelFacts()
	checkShape("shuffleIndex", shuffleShape, nil)
	checkShape("feistel", feistelShape, map[string]string{"@R": literalText("feistel", rounds), "@K": literalText("feistel", key)})
	backing := epd.ConstInt("backingBytes")

	// tuning imports only "math" and "iter": parse it for the two constants.
	tun := lib.Load(filepath.Join(repo, "tools/tuner/tuning"))
	var nlb, ncb string
	for _, f := range tun.Files {
		for _, d := range f.Decls {
			gd, ok := d.(*ast.GenDecl)
			if !ok || gd.Tok != token.CONST {
				continue
			}
			for _, s := range gd.Specs {
				vs := s.(*ast.ValueSpec)
				for i, n := range vs.Names {
					if i >= len(vs.Values) {
						continue
					}
					tv, ok := tun.Info.Types[vs.Values[i]]
					if !ok || tv.Value == nil {
						continue
					}
					switch n.Name {
					case "NumLinesInBatch":
						nlb = constant.ToInt(tv.Value).ExactString()
					case "NumChunksInBatch":
						ncb = constant.ToInt(tv.Value).ExactString()
					}
				}
			}
		}
	}
	if nlb == "" || ncb == "" {
		lib.Die("tuner: NumLinesInBatch / NumChunksInBatch not found in tuning")
	}

	var b strings.Builder
	w := func(f string, a ...any) { fmt.Fprintf(&b, f, a...) }
	w("/-\n  GENERATED by /verif/extract/cmd/tuner from /repo/tools/tuner/{epd,tuning} — do not edit.\n")
	w("  Facts the C20 model (Model/Tuner.lean) and theorems (Props/C20.lean) depend on.\n-/\n")
	w("namespace ChessVerif.Gen.Tuner\n\n")
	w("/-- `const rounds` in `epd.feistel`. -/\ndef feistelRounds : Nat := %s\n", rounds)
	w("/-- key schedule increment: `k := seed + uint64(i)*C` in `epd.feistel`. -/\ndef feistelKeyInc : Nat := %s\n", key)
	w("/-- `z ^= z >> s1` in `epd.roundFunc`. -/\ndef roundShift1 : Nat := %s\n", s1)
	w("/-- `z *= m` in `epd.roundFunc`. -/\ndef roundMul : Nat := %s\n", mul)
	w("/-- `z ^= z >> s2` in `epd.roundFunc`. -/\ndef roundShift2 : Nat := %s\n", s2)
	w("/-- `epd.backingBytes`: size of the read buffer of a `Chunk`. -/\ndef backingBytes : Nat := %s\n", backing)
	w("/-- `tuning.NumLinesInBatch`. -/\ndef numLinesInBatch : Nat := %s\n", nlb)
	w("/-- `tuning.NumChunksInBatch`. -/\ndef numChunksInBatch : Nat := %s\n\n", ncb)
	w("/-- Normalised-source fingerprints of the hand-modelled functions (auxiliary alarm only). -/\n")
	w("def fingerprints : List (String × String) := [\n")
	type fp struct {
		p *lib.Pkg
		n string
	}
	fps := []fp{{epd, "shuffleIndex"}, {epd, "feistel"}, {epd, "roundFunc"}, {epd, "NewChunker"},
		{epd, "Chunker.Open"}, {epd, "Chunk.Read"}, {epd, "Chunk.Rewind"}, {epd, "Chunker.LineCount"},
		{epd, "ByLines.Read"}, {tun, "Batches"}, {tun, "Chunks"}}
	for i, f := range fps {
		sep := ","
		if i == len(fps)-1 {
			sep = ""
		}
		w("  (%q, %q)%s\n", f.n, f.p.Fingerprint(f.n), sep)
	}
	w("]\n\nend ChessVerif.Gen.Tuner\n")
	fmt.Print(b.String())
}
