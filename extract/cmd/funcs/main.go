// Command funcs is the Go-subset → Lean translator of the verification framework.
//
// It re-reads /repo's working tree (cwd must be /repo) and prints lean/ChessVerif/Gen/Funcs.lean:
// the BODIES of small pure arithmetic Go functions as Lean definitions over `Int` (and `Bool`) with
// Go's typed wrap-around made explicit, plus the package-level constants/tables they and the
// theorems refer to.  Usage:  extract_funcs [-o file] [-repo dir]   (stdout when -o is absent).
//
// README — the supported subset (anything else ⇒ lib.Die, exit status 2; nothing is ever guessed)
//
//	types        parameters, results and locals of integer or bool type (named types by underlying
//	             type; `int`/`uint` are 64 bit).  integer ↦ Lean Int, bool ↦ Lean Bool.
//	constants    every expression go/types evaluates to a constant (typed or untyped, any package)
//	             is emitted as its exact value.
//	arithmetic   + - * unary-  ↦ wrapT (a op b) with T the Go type of the result (wrapS8/16/32/64,
//	             wrapU8/16/32/64);  / % ↦ goDiv/goMod (truncating), only by a non-zero constant;
//	             << >> by a constant count (<< ↦ wrapT (a * 2^c), >> ↦ a / 2^c rounding down);
//	             & | ^ only when both operand types are unsigned (Nat.land/lor/xor via Int.toNat).
//	conversions  T(x) ↦ wrapT x.
//	ideal        for selected functions a second definition <name>_ideal is emitted: the same body with
//	             every wrap omitted (exact integers), so that "no wrap-around on domain D" is the
//	             regenerated statement  name = name_ideal  on D.
//	booleans     comparisons, && || !  (as decidable Props in if-conditions, as Bool values else).
//	calls        builtin min/max; functions/methods of the allow-list below, which are translated
//	             too; generic f[T](…) T is instantiated at the Go type of the call (clampS64 …);
//	             methods only on the current receiver.
//	receivers    of integer type ↦ ordinary first parameter; of struct type ↦ one parameter
//	             recv_field per integer field used (declaration order, transitively through calls).
//	tables       tbl[i] for a package-level array that is never written anywhere in its package
//	             ↦ `tbl name i` (a List Int lookup; out-of-range, where Go panics, yields 0).
//	statements   x := e, x = e, x op= e, x++/x--  ↦ let;  if/else and switch (tag-less or constant-tagged,
//	             no fallthrough/break) with early return — a branch either always returns or only
//	             re-binds variables (no mixing);  return e.
//	shape `cell` (history updates): a straight-line body whose last statement assigns one memory
//	             cell; the cell (matched by source text) becomes parameter `h`, statements that do
//	             not feed the new value are sliced away (they must be call-free), the result is the
//	             new cell value.
//	shape `colorloop`: `for color := White; color <= Black; color++ { B }; return false` with every
//	             return in B being `return true` ↦ side(B) for White || side(B) for Black, where the
//	             listed bitboard queries (matched by source text) become parameters.
package main

import (
	"flag"
	"fmt"
	"go/ast"
	"go/token"
	"go/types"
	"os"
	"sort"
	"strings"

	"verifextract/lib"
)

// spec names one function to translate.
type spec struct {
	dir, fn, lean string      // package directory, "F" or "Recv.F", Lean name (generic: base name)
	shape         string      // "", "cell", "colorloop"
	atoms         [][3]string // opaque sub-expressions: source text, Lean parameter, Lean type
	insts         []string    // generic: Go types to instantiate even if no translated caller needs them
	ideal         bool        // also emit <lean>_ideal: the same body over exact integers (every wrap omitted)
}

var histAtoms = func(cell string) [][3]string { return [][3]string{{cell, "h", "Int"}} }

var specs = []spec{
	{dir: "chess", fn: "Clamp", lean: "clamp", insts: []string{"int64", "int16", "int8"}},
	{dir: "chess", fn: "Abs", lean: "abs", insts: []string{"int64", "int16"}},
	{dir: "chess", fn: "Signum", lean: "signum", insts: []string{"int64", "int16"}},
	{dir: "chess", fn: "Score.IsMate", lean: "isMate"},
	{dir: "uci", fn: "timeControl.timedMode", lean: "timedMode"},
	{dir: "uci", fn: "timeControl.softLimit", lean: "softLimit", ideal: true},
	{dir: "uci", fn: "timeControl.hardLimit", lean: "hardLimit", ideal: true},
	{dir: "transp", fn: "quality", lean: "quality", ideal: true},
	{dir: "transp", fn: "entry.Value", lean: "entryValue", ideal: true},
	{dir: "heur", fn: "History.Add", lean: "histAdd", shape: "cell", atoms: histAtoms("h.data[stm][from][to]"), ideal: true},
	{dir: "heur", fn: "Continuation.Add", lean: "contAdd", shape: "cell", atoms: histAtoms("*entry")},
	{dir: "heur", fn: "CaptHist.Add", lean: "captAdd", shape: "cell", atoms: histAtoms("c.data[moved][captured][sq]")},
	{dir: "board", fn: "Board.InvalidPieceCount", lean: "invalidPieceCount", shape: "colorloop", atoms: [][3]string{
		{"(b.Colors[color] & b.Pieces[King]).IsPow2()", "kingPow2", "Bool"},
		{"(b.Colors[color] & b.Pieces[Knight]).Count()", "nKnights", "Int"},
		{"(b.Colors[color] & b.Pieces[Bishop]).Count()", "nBishops", "Int"},
		{"(b.Colors[color] & b.Pieces[Rook]).Count()", "nRooks", "Int"},
		{"(b.Colors[color] & b.Pieces[Queen]).Count()", "nQueens", "Int"},
		{"(b.Colors[color] & b.Pieces[Pawn]).Count()", "nPawns", "Int"}}},
	{dir: "search", fn: "bufIx", lean: "bufIx", ideal: true},
	{dir: "search", fn: "lmr", lean: "lmr"},
	{dir: "search", fn: "nextNodeType", lean: "nextNodeType"},
}

// constants emitted as Lean defs (dir, Go name, Lean name) and constant tables.
var consts = [][3]string{
	{"chess", "MaxPlies", "MaxPlies"}, {"chess", "Inf", "Inf"}, {"chess", "Inv", "Inv"},
	{"chess", "White", "White"}, {"chess", "Black", "Black"},
	{"uci", "TimeSafetyMargin", "TimeSafetyMargin"}, {"uci", "PredictedMoves", "PredictedMoves"}, {"uci", "TimeInf", "TimeInf"},
	{"heur", "k", "k"}, {"heur", "HashMove", "HashMove"}, {"heur", "Captures", "Captures"},
	{"heur", "CaptureRange", "CaptureRange"}, {"heur", "MaxHistory", "MaxHistory"},
	{"search", "PVNode", "PVNode"}, {"search", "CutNode", "CutNode"}, {"search", "AllNode", "AllNode"},
}
var constTables = [][3]string{{"heur", "PieceValues", "PieceValues"}}
var tableNames = map[string]string{"search.log": "logTbl"} // allow-list of indexable tables

var repo = "/repo/" // root of the tree to read (-repo; the process must run with cwd inside it)

type gen struct {
	pkgs   map[string]*lib.Pkg
	defs   []string            // emitted definitions, dependencies first
	done   map[string][]string // Lean name → receiver fields (presence = translated or in progress)
	bodies map[string]string   // Lean name → "params := body" (for the same-formula check)
	prints []string            // "lean name  dir.fn  fingerprint"
}

func (g *gen) pkg(dir string) *lib.Pkg {
	if p, ok := g.pkgs[dir]; ok {
		return p
	}
	p := lib.Load(repo + dir)
	if p.Err != nil || p.Types == nil {
		lib.Die("%s: type check failed: %v", dir, p.Err)
	}
	g.pkgs[dir] = p
	return p
}

func suffix(b *types.Basic) string {
	m := map[types.BasicKind]string{types.Int8: "S8", types.Int16: "S16", types.Int32: "S32", types.Int64: "S64", types.Int: "S64"}
	s, ok := m[b.Kind()]
	if !ok {
		lib.Die("no instance suffix for %s", b)
	}
	return s
}

// need makes sure the callee (found in a call inside `from`) is translated; returns its Lean name
// and receiver fields.
func (g *gen) need(callee *types.Func, inst *types.Basic, at ast.Node, from *fnTr) (string, []string) {
	name := callee.Name()
	if r := callee.Type().(*types.Signature).Recv(); r != nil {
		rt := r.Type()
		if p, ok := rt.(*types.Pointer); ok {
			rt = p.Elem()
		}
		name = rt.(*types.Named).Obj().Name() + "." + name
	}
	for _, s := range specs {
		if strings.HasSuffix(callee.Pkg().Path(), "/"+s.dir) && s.fn == name && s.shape == "" {
			return g.translate(s, inst, from.ideal)
		}
	}
	from.die(at, "call of %s.%s, which is not on the allow-list", callee.Pkg().Name(), name)
	return "", nil
}

// translate emits the Lean definition of s (instance inst for generics) unless already done.
func (g *gen) translate(s spec, inst *types.Basic, ideal bool) (string, []string) {
	p := g.pkg(s.dir)
	fd := p.Func(s.fn)
	lean := s.lean
	if fd.Type.TypeParams != nil {
		if inst == nil || len(fd.Type.TypeParams.List) != 1 || len(fd.Type.TypeParams.List[0].Names) != 1 {
			lib.Die("%s.%s: generic function needs exactly one type parameter and an instance type", s.dir, s.fn)
		}
		lean += suffix(inst)
	}
	if ideal { // the exact-integer reading of the same source: no wrap anywhere
		lean += "_ideal"
	}
	if f, ok := g.done[lean]; ok {
		return lean, f
	}
	g.done[lean] = nil // (recursion would see no fields; recursive functions are outside the subset anyway)
	t := &fnTr{g: g, p: p, fd: fd, inst: inst, ideal: ideal, fields: map[string]bool{}, atoms: map[string]string{}}
	var params []string // rendered Lean binders
	for _, a := range s.atoms {
		t.atoms[a[0]] = a[1]
		params = append(params, "("+a[1]+" : "+a[2]+")")
	}
	if fd.Body == nil {
		lib.Die("%s.%s has no body", s.dir, s.fn)
	}
	body, res := "", ""
	var fieldList []string
	switch s.shape {
	case "cell":
		kept, live := t.slice(fd.Body.List)
		for _, f := range fd.Type.Params.List {
			for _, n := range f.Names {
				if live[n.Name] {
					params = append(params, "("+leanIdent(n.Name)+" : "+leanType(t.basic(p.Info.Defs[n].Type()))+")")
				}
			}
		}
		body, res = t.block(kept, s.atoms[0][1]), s.atoms[0][2]
	case "colorloop":
		body, res = t.block(t.colorLoopBody(), "false"), "Bool"
	default:
		if fd.Recv != nil {
			if len(fd.Recv.List) != 1 || len(fd.Recv.List[0].Names) != 1 {
				lib.Die("%s.%s: unnamed receiver", s.dir, s.fn)
			}
			rn := fd.Recv.List[0].Names[0]
			if b := t.basic(p.Info.Defs[rn].Type()); b != nil {
				params = append(params, "("+leanIdent(rn.Name)+" : "+leanType(b)+")")
			} else {
				t.recv = p.Info.Defs[rn]
			}
		}
		var own []string
		for _, f := range fd.Type.Params.List {
			if len(f.Names) == 0 {
				lib.Die("%s.%s: unnamed parameter", s.dir, s.fn)
			}
			for _, n := range f.Names {
				own = append(own, "("+t.localVar(n)+" : "+leanType(t.basic(p.Info.Defs[n].Type()))+")")
			}
		}
		if fd.Type.Results == nil || len(fd.Type.Results.List) != 1 || len(fd.Type.Results.List[0].Names) > 0 {
			lib.Die("%s.%s: exactly one unnamed result required", s.dir, s.fn)
		}
		rb := t.basic(p.Info.Types[fd.Type.Results.List[0].Type].Type)
		if rb == nil {
			lib.Die("%s.%s: result type outside the subset", s.dir, s.fn)
		}
		body, res = t.block(fd.Body.List, ""), leanType(rb)
		if t.recv != nil { // receiver fields used, in declaration order
			rt := t.recv.Type()
			if pt, ok := rt.(*types.Pointer); ok {
				rt = pt.Elem()
			}
			st, ok := rt.Underlying().(*types.Struct)
			if !ok {
				lib.Die("%s.%s: receiver is neither an integer nor a struct", s.dir, s.fn)
			}
			for i := 0; i < st.NumFields(); i++ {
				if f := st.Field(i); t.fields[f.Name()] {
					fieldList = append(fieldList, f.Name())
					params = append(params, "("+t.recv.Name()+"_"+f.Name()+" : "+leanType(t.basic(f.Type()))+")")
				}
			}
		}
		params = append(params, own...)
	}
	sig := strings.Join(params, " ") + " : " + res + " :=\n" + indent(body)
	g.done[lean], g.bodies[lean] = fieldList, sig
	g.prints = append(g.prints, fmt.Sprintf("%-18s %s.%s  %s", lean, s.dir, s.fn, p.Fingerprint(s.fn)))
	g.defs = append(g.defs, fmt.Sprintf("/-- `%s.%s`%s%s (%s). -/\ndef %s %s", s.dir, s.fn, instNote(inst), idealNote(ideal), p.Fset.Position(fd.Pos()), lean, sig))
	if s.shape == "colorloop" { // the loop itself: some colour makes the body return true
		var w, b, decl []string
		for _, a := range s.atoms {
			w, b = append(w, "w_"+a[1]), append(b, "b_"+a[1])
		}
		for _, side := range [][]string{w, b} {
			for i, n := range side {
				decl = append(decl, "("+n+" : "+s.atoms[i][2]+")")
			}
		}
		g.defs[len(g.defs)-1] = strings.Replace(g.defs[len(g.defs)-1], "def "+lean+" ", "def "+lean+"Side ", 1) +
			fmt.Sprintf("\n\n/-- `%s.%s`: the loop over both colours. -/\ndef %s %s : Bool :=\n  %sSide %s || %sSide %s",
				s.dir, s.fn, lean, strings.Join(decl, " "), lean, strings.Join(w, " "), lean, strings.Join(b, " "))
	}
	return lean, fieldList
}

func idealNote(ideal bool) string {
	if ideal {
		return ", exact-integer reading (no wrap-around)"
	}
	return ""
}

func instNote(b *types.Basic) string {
	if b == nil {
		return ""
	}
	return " at T = " + b.Name()
}

// slice (shape `cell`): the body must be straight-line single assignments, the last one to the
// cell; returns the statements the new cell value depends on and the variables live at entry.
func (t *fnTr) slice(ss []ast.Stmt) ([]ast.Stmt, map[string]bool) {
	uses := func(e ast.Expr, live map[string]bool) {
		ast.Inspect(e, func(n ast.Node) bool {
			if x, ok := n.(ast.Expr); ok {
				if _, atom := t.atoms[t.src(x)]; atom {
					return false
				}
			}
			if id, ok := n.(*ast.Ident); ok {
				if v, ok := t.p.Info.Uses[id].(*types.Var); ok && !v.IsField() && v.Parent() != t.p.Types.Scope() {
					live[id.Name] = true
				}
			}
			return true
		})
	}
	live := map[string]bool{}
	var kept []ast.Stmt
	for i := len(ss) - 1; i >= 0; i-- {
		a, ok := ss[i].(*ast.AssignStmt)
		if !ok || len(a.Lhs) != 1 || len(a.Rhs) != 1 {
			t.die(ss[i], "shape `cell` needs a straight-line body of single assignments")
		}
		_, isCell := t.atoms[t.src(a.Lhs[0])]
		if isCell != (i == len(ss)-1) {
			t.die(a, "shape `cell`: exactly the last statement must assign the cell")
		}
		id, isId := a.Lhs[0].(*ast.Ident)
		if !isCell && !isId {
			t.die(a, "assignment target outside the subset")
		}
		if !isCell && !live[id.Name] { // dead for the cell value: drop, but only if it cannot have effects
			ast.Inspect(a.Rhs[0], func(n ast.Node) bool {
				if c, ok := n.(*ast.CallExpr); ok {
					if tv := t.p.Info.Types[c.Fun]; !tv.IsType() {
						t.die(a, "sliced-away statement contains a call")
					}
				}
				return true
			})
			continue
		}
		if isId && (a.Tok == token.DEFINE || a.Tok == token.ASSIGN) {
			delete(live, id.Name)
		}
		uses(a.Rhs[0], live)
		kept = append([]ast.Stmt{a}, kept...)
	}
	return kept, live
}

// colorLoopBody checks the shape `colorloop` and returns the loop body.
func (t *fnTr) colorLoopBody() []ast.Stmt {
	ss := t.fd.Body.List
	if len(ss) != 2 {
		t.die(t.fd, "shape `colorloop`: body must be the loop and a final return")
	}
	loop, ok := ss[0].(*ast.ForStmt)
	if !ok || loop.Init == nil || loop.Cond == nil || loop.Post == nil || t.src(loop.Init) != "color := White" ||
		t.src(loop.Cond) != "color <= Black" || t.src(loop.Post) != "color++" || t.src(ss[1]) != "return false" {
		t.die(ss[0], "shape `colorloop`: expected `for color := White; color <= Black; color++ {…}; return false`")
	}
	for _, c := range []string{"White", "Black"} {
		if v := t.g.pkg("chess").ConstInt(c); v != map[string]string{"White": "0", "Black": "1"}[c] {
			t.die(loop, "colour constants are not 0/1")
		}
	}
	ast.Inspect(loop.Body, func(n ast.Node) bool {
		switch x := n.(type) {
		case *ast.ReturnStmt:
			if t.src(x) != "return true" {
				t.die(x, "shape `colorloop`: only `return true` may leave the loop")
			}
		case *ast.BranchStmt, *ast.ForStmt, *ast.RangeStmt:
			t.die(x, "shape `colorloop`: nested loop or break/continue")
		}
		return true
	})
	return loop.Body.List
}

// table emits the allow-listed package-level table `name` (checked never to be written).
func (g *gen) table(p *lib.Pkg, name string) string {
	lean, ok := tableNames[p.Types.Name()+"."+name]
	if !ok {
		lib.Die("%s.%s: table is not on the allow-list", p.Types.Name(), name)
	}
	if _, ok := g.done[lean]; ok {
		return lean
	}
	obj := p.Types.Scope().Lookup(name)
	for _, f := range p.Files { // every use must be `name[i]` read or `len(name)`: walk with a parent stack
		var stack []ast.Node
		ast.Inspect(f, func(n ast.Node) bool {
			if n == nil {
				stack = stack[:len(stack)-1]
				return true
			}
			if id, ok := n.(*ast.Ident); ok && p.Info.Uses[id] == obj {
				okUse := false
				switch par := stack[len(stack)-1].(type) {
				case *ast.IndexExpr:
					okUse = par.X == id && !isWritten(stack[:len(stack)-1], par)
				case *ast.CallExpr:
					fid, isId := par.Fun.(*ast.Ident)
					okUse = isId && fid.Name == "len"
				}
				if !okUse {
					lib.Die("%s: table %s is used other than by reading an element: not provably constant", p.Fset.Position(id.Pos()), name)
				}
			}
			stack = append(stack, n)
			return true
		})
	}
	g.done[lean] = nil
	g.defs = append(g.defs, fmt.Sprintf("/-- `%s.%s` (never written in its package). -/\ndef %s : List Int := %s", p.Types.Name(), name, lean, p.Table(name).Lean()))
	return lean
}

// isWritten: the index expression e (whose ancestors are stack) is assigned, inc/decremented or has its address taken.
func isWritten(stack []ast.Node, e ast.Expr) bool {
	switch par := stack[len(stack)-1].(type) {
	case *ast.AssignStmt:
		for _, l := range par.Lhs {
			if l == e {
				return true
			}
		}
	case *ast.IncDecStmt:
		return par.X == e
	case *ast.UnaryExpr:
		return par.Op == token.AND
	case *ast.SliceExpr, *ast.RangeStmt:
		return true
	}
	return false
}

func main() {
	out := flag.String("o", "", "write to this file (only if changed) instead of stdout")
	root := flag.String("repo", "/repo", "root of the Go tree (a scratch worktree for mutation experiments)")
	flag.Parse()
	if alt := os.Getenv("VERIF_REPO"); alt != "" && *root == "/repo" {
		*root = alt
	}
	repo = strings.TrimRight(*root, "/") + "/"
	g := &gen{pkgs: map[string]*lib.Pkg{}, done: map[string][]string{}, bodies: map[string]string{}}
	var cs []string
	for _, c := range consts {
		cs = append(cs, fmt.Sprintf("def %s : Int := %s", c[2], g.pkg(c[0]).ConstInt(c[1])))
	}
	pp := g.pkg("params") // all integer constants of params/params.go (the non-spsa build)
	names := pp.Types.Scope().Names()
	sort.Strings(names)
	for _, n := range names {
		if c, ok := pp.Types.Scope().Lookup(n).(*types.Const); ok && c.Type().Underlying().(*types.Basic).Info()&types.IsInteger != 0 {
			cs = append(cs, fmt.Sprintf("def params_%s : Int := %s", n, pp.ConstInt(n)))
		}
	}
	for _, c := range constTables {
		cs = append(cs, fmt.Sprintf("def %s : List Int := %s", c[2], g.pkg(c[0]).Table(c[1]).Lean()))
	}
	for _, s := range specs {
		if len(s.insts) == 0 {
			g.translate(s, nil, false)
			if s.ideal {
				g.translate(s, nil, true)
			}
		}
		for _, in := range s.insts {
			g.translate(s, types.Universe.Lookup(in).Type().(*types.Basic), false)
		}
	}
	// the three history updates must be literally the same formula
	for _, o := range []string{"contAdd", "captAdd"} {
		if g.bodies[o] != g.bodies["histAdd"] {
			lib.Die("history update formulas differ:\nhistAdd %s\n%s %s", g.bodies["histAdd"], o, g.bodies[o])
		}
		g.defs = append(g.defs, fmt.Sprintf("/-- The extractor found `%s` and `histAdd` to be the same formula, token for token. -/\ntheorem %s_eq_histAdd : @%s = @histAdd := rfl", o, o, o))
	}
	var b strings.Builder
	b.WriteString("/-\n  GENERATED by /verif/extract/cmd/funcs from /repo's working tree — do not edit.\n")
	b.WriteString("  Go-subset → Lean translation (subset: see the README comment of extract/cmd/funcs/main.go).\n")
	b.WriteString("  Source fingerprints (Lean name, Go function, hash of the normalised source):\n")
	for _, l := range g.prints {
		b.WriteString("    " + l + "\n")
	}
	b.WriteString("-/\nimport ChessVerif.Basic\n\nnamespace ChessVerif.Gen.Funcs\nopen ChessVerif\n\n")
	b.WriteString("/-- Go `uint8(x)`, `int32(x)`, `uint32(x)` (the other wraps are in Basic). -/\n")
	b.WriteString("def wrapU8 (x : Int) : Int := x % 256\ndef wrapS32 (x : Int) : Int := (x + 2147483648) % 4294967296 - 2147483648\ndef wrapU32 (x : Int) : Int := x % 4294967296\n")
	b.WriteString("/-- `t[i]` for a constant table (Go panics outside `0 ≤ i < len t`; the model then yields 0 or `t[0]`). -/\n")
	b.WriteString("def tbl (l : List Int) (i : Int) : Int := l.getD i.toNat 0\n\n/-! ## Constants -/\n")
	b.WriteString(strings.Join(cs, "\n") + "\n\n/-! ## Functions -/\n\n")
	b.WriteString(strings.Join(g.defs, "\n\n") + "\n\nend ChessVerif.Gen.Funcs\n")
	if *out != "" {
		lib.WriteIfChanged(*out, b.String())
	} else {
		fmt.Print(b.String())
	}
}
