package main

// The Go-subset → Lean translator proper.  See the README comment in main.go for the subset.
// Invariant: every Go expression of integer type T is rendered as a Lean `Int` term whose value is
// the Go value *provided the parameters are in the range of their Go types*; every operation that
// can leave the range of T is wrapped with wrapS*/wrapU* of T.  `int`/`uint` are 64 bit.

import (
	"fmt"
	"go/ast"
	"go/constant"
	"go/token"
	"go/types"
	"math/big"
	"strings"

	"verifextract/lib"
)

// fnTr translates one function (instance).
type fnTr struct {
	g      *gen
	p      *lib.Pkg
	fd     *ast.FuncDecl
	inst   *types.Basic      // substitution for the single type parameter of a generic function
	ideal  bool              // exact-integer reading: wraps are omitted
	recv   types.Object      // receiver variable when the receiver is a struct (fields → parameters)
	fields map[string]bool   // receiver fields used (transitively through calls on the same receiver)
	atoms  map[string]string // source text of an opaque sub-expression → Lean parameter name
}

func (t *fnTr) die(n ast.Node, format string, args ...any) {
	lib.Die("%s: %s: %s  [in `%s`]", t.p.Fset.Position(n.Pos()), t.fd.Name.Name, fmt.Sprintf(format, args...), t.src(n))
}

func (t *fnTr) src(n ast.Node) string { return strings.Join(strings.Fields(t.p.Source(n)), " ") }

var leanKeywords = map[string]bool{}

func init() {
	for _, k := range strings.Fields(`from at end do in have show fun match with where by then else let open local
		deriving instance section namespace variable universe axiom theorem example abbrev def class structure
		inductive mutual private protected partial unsafe import export attribute macro syntax notation infix
		prefix postfix calc using nomatch nofun if return for unless try catch finally mut break continue Type Prop Sort`) {
		leanKeywords[k] = true
	}
}

func leanIdent(s string) string {
	if leanKeywords[s] {
		return s + "_"
	}
	return s
}

// basic returns the basic type behind ty (type parameter ⇒ the instance type); nil if none.
func (t *fnTr) basic(ty types.Type) *types.Basic {
	ty = types.Unalias(ty)
	if _, ok := ty.(*types.TypeParam); ok {
		return t.inst
	}
	b, _ := ty.Underlying().(*types.Basic)
	return b
}

func (t *fnTr) typ(e ast.Expr) *types.Basic {
	tv, ok := t.p.Info.Types[e]
	if !ok || tv.Type == nil {
		t.die(e, "no type information")
	}
	b := t.basic(tv.Type)
	if b == nil || b.Info()&(types.IsInteger|types.IsBoolean) == 0 {
		t.die(e, "type %s is outside the subset (integer/bool only)", tv.Type)
	}
	return b
}

func isBool(b *types.Basic) bool     { return b.Info()&types.IsBoolean != 0 }
func isUnsigned(b *types.Basic) bool { return b.Info()&types.IsUnsigned != 0 }

// leanType is the Lean type standing for a Go basic type.
func leanType(b *types.Basic) string {
	if isBool(b) {
		return "Bool"
	}
	return "Int"
}

// wrapName is the wrap function of a Go integer type; suffix is used in instance names.
func (t *fnTr) wrapName(b *types.Basic, at ast.Node) string {
	switch b.Kind() {
	case types.Int8:
		return "wrapS8"
	case types.Int16:
		return "wrapS16"
	case types.Int32:
		return "wrapS32"
	case types.Int, types.Int64:
		return "wrapS64"
	case types.Uint8:
		return "wrapU8"
	case types.Uint16:
		return "wrapU16"
	case types.Uint32:
		return "wrapU32"
	case types.Uint, types.Uint64, types.Uintptr:
		return "wrapU64"
	}
	t.die(at, "no wrap for type %s", b)
	return ""
}

func (t *fnTr) wrap(b *types.Basic, s string, at ast.Node) string {
	if t.wrapName(b, at); t.ideal {
		return s
	}
	return "(" + t.wrapName(b, at) + " " + s + ")"
}

func constLit(v constant.Value) (string, bool) {
	switch v.Kind() {
	case constant.Bool:
		return fmt.Sprint(constant.BoolVal(v)), true
	case constant.Int:
		s := v.ExactString()
		if strings.HasPrefix(s, "-") {
			return "(" + s + ")", true
		}
		return s, true
	}
	return "", false
}

// localVar resolves an identifier to a parameter/local of integer or bool type.
func (t *fnTr) localVar(id *ast.Ident) string {
	obj := t.p.Info.Uses[id]
	if obj == nil {
		obj = t.p.Info.Defs[id]
	}
	v, ok := obj.(*types.Var)
	if !ok || v.IsField() || v.Parent() == t.p.Types.Scope() || v.Parent() == types.Universe {
		t.die(id, "identifier is not a parameter or local variable")
	}
	if b := t.basic(v.Type()); b == nil || b.Info()&(types.IsInteger|types.IsBoolean) == 0 {
		t.die(id, "variable of type %s is outside the subset", v.Type())
	}
	return leanIdent(id.Name)
}

// expr renders an integer- or bool-valued expression (bool as Lean `Bool`).
func (t *fnTr) expr(e ast.Expr) string {
	e = ast.Unparen(e)
	if name, ok := t.atoms[t.src(e)]; ok {
		return name
	}
	if tv, ok := t.p.Info.Types[e]; ok && tv.Value != nil {
		if s, ok := constLit(tv.Value); ok {
			return s
		}
		t.die(e, "constant of unsupported kind")
	}
	if isBool(t.typ(e)) {
		return t.boolE(e)
	}
	switch x := e.(type) {
	case *ast.Ident:
		return t.localVar(x)
	case *ast.SelectorExpr:
		return t.field(x)
	case *ast.UnaryExpr:
		switch x.Op {
		case token.SUB:
			return t.wrap(t.typ(e), "(-"+t.expr(x.X)+")", e)
		case token.ADD:
			return t.expr(x.X)
		}
	case *ast.BinaryExpr:
		return t.binop(x.Op, t.typ(e), t.expr(x.X), t.expr(x.Y), x.X, x.Y, e)
	case *ast.CallExpr:
		return t.call(x)
	case *ast.IndexExpr:
		return t.index(x)
	}
	t.die(e, "expression form outside the subset")
	return ""
}

// binop renders `l op r` at Go result type rt.
func (t *fnTr) binop(op token.Token, rt *types.Basic, l, r string, lx, rx ast.Expr, at ast.Node) string {
	rconst := func() *big.Int {
		tv := t.p.Info.Types[rx]
		if tv.Value == nil || tv.Value.Kind() != constant.Int {
			return nil
		}
		n, _ := new(big.Int).SetString(tv.Value.ExactString(), 10)
		return n
	}
	switch op {
	case token.ADD, token.SUB, token.MUL:
		return t.wrap(rt, "("+l+" "+op.String()+" "+r+")", at)
	case token.QUO, token.REM:
		if c := rconst(); c == nil || c.Sign() == 0 {
			t.die(at, "division by a non-constant or zero divisor (Go would panic on 0)")
		}
		if op == token.REM {
			return "(goMod " + l + " " + r + ")"
		}
		return t.wrap(rt, "(goDiv "+l+" "+r+")", at)
	case token.SHL, token.SHR:
		c := rconst()
		if c == nil || c.Sign() < 0 || c.Cmp(big.NewInt(64)) > 0 {
			t.die(at, "shift count must be a constant in 0..64")
		}
		p := new(big.Int).Lsh(big.NewInt(1), uint(c.Int64())).String()
		if op == token.SHL {
			return t.wrap(rt, "("+l+" * "+p+")", at)
		}
		return "(" + l + " / " + p + ")" // Lean's Int `/` rounds down for a positive divisor = arithmetic shift
	case token.AND, token.OR, token.XOR:
		if !isUnsigned(t.typ(lx)) || !isUnsigned(t.typ(rx)) {
			t.die(at, "bit operation on operands that are not non-negative by type")
		}
		f := map[token.Token]string{token.AND: "Nat.land", token.OR: "Nat.lor", token.XOR: "Nat.xor"}[op]
		return "(Int.ofNat (" + f + " (Int.toNat " + l + ") (Int.toNat " + r + ")))"
	}
	t.die(at, "operator %s outside the subset", op)
	return ""
}

// cond renders a bool expression as a decidable Lean `Prop` (used for if-conditions).
func (t *fnTr) cond(e ast.Expr) string {
	e = ast.Unparen(e)
	if tv, ok := t.p.Info.Types[e]; ok && tv.Value != nil && tv.Value.Kind() == constant.Bool {
		if constant.BoolVal(tv.Value) {
			return "True"
		}
		return "False"
	}
	switch x := e.(type) {
	case *ast.BinaryExpr:
		switch x.Op {
		case token.LAND:
			return "(" + t.cond(x.X) + " ∧ " + t.cond(x.Y) + ")"
		case token.LOR:
			return "(" + t.cond(x.X) + " ∨ " + t.cond(x.Y) + ")"
		case token.EQL, token.NEQ, token.LSS, token.LEQ, token.GTR, token.GEQ:
			op := map[token.Token]string{token.EQL: "=", token.NEQ: "≠", token.LSS: "<", token.LEQ: "≤", token.GTR: ">", token.GEQ: "≥"}[x.Op]
			if isBool(t.typ(x.X)) != isBool(t.typ(x.Y)) || (isBool(t.typ(x.X)) && x.Op != token.EQL && x.Op != token.NEQ) {
				t.die(e, "ill-kinded comparison")
			}
			return "(" + t.expr(x.X) + " " + op + " " + t.expr(x.Y) + ")"
		}
	case *ast.UnaryExpr:
		if x.Op == token.NOT {
			return "(¬ " + t.cond(x.X) + ")"
		}
	case *ast.Ident, *ast.CallExpr:
		if isBool(t.typ(e)) {
			return "(" + t.boolE(e) + " = true)"
		}
	}
	t.die(e, "condition form outside the subset")
	return ""
}

// boolE renders a bool expression as a Lean `Bool`.
func (t *fnTr) boolE(e ast.Expr) string {
	e = ast.Unparen(e)
	if tv, ok := t.p.Info.Types[e]; ok && tv.Value != nil && tv.Value.Kind() == constant.Bool {
		return fmt.Sprint(constant.BoolVal(tv.Value))
	}
	if name, ok := t.atoms[t.src(e)]; ok {
		return name
	}
	switch x := e.(type) {
	case *ast.BinaryExpr:
		switch x.Op {
		case token.LAND:
			return "(" + t.boolE(x.X) + " && " + t.boolE(x.Y) + ")"
		case token.LOR:
			return "(" + t.boolE(x.X) + " || " + t.boolE(x.Y) + ")"
		}
		return "(decide " + t.cond(e) + ")"
	case *ast.UnaryExpr:
		if x.Op == token.NOT {
			return "(!" + t.boolE(x.X) + ")"
		}
	case *ast.Ident:
		return t.localVar(x)
	case *ast.CallExpr:
		return t.call(x)
	}
	t.die(e, "bool expression form outside the subset")
	return ""
}

// field renders recv.f (f an integer/bool field of the struct receiver) as the parameter recv_f.
func (t *fnTr) field(x *ast.SelectorExpr) string {
	id, ok := x.X.(*ast.Ident)
	if !ok || t.recv == nil || t.p.Info.Uses[id] != t.recv {
		t.die(x, "selector is not a field of the method receiver")
	}
	v, ok := t.p.Info.Uses[x.Sel].(*types.Var)
	if !ok || !v.IsField() || v.Embedded() {
		t.die(x, "selector is not a plain field")
	}
	t.typ(x) // integer/bool or die
	t.fields[x.Sel.Name] = true
	return id.Name + "_" + x.Sel.Name
}

// index renders tbl[i] for an allow-listed, never-written package-level table of constants.
func (t *fnTr) index(x *ast.IndexExpr) string {
	id, ok := x.X.(*ast.Ident)
	if !ok {
		t.die(x, "indexing something that is not a package-level table")
	}
	v, ok := t.p.Info.Uses[id].(*types.Var)
	if !ok || v.Parent() != t.p.Types.Scope() {
		t.die(x, "indexing something that is not a package-level table")
	}
	name := t.g.table(t.p, id.Name)
	return "(tbl " + name + " " + t.expr(x.Index) + ")"
}

func (t *fnTr) call(x *ast.CallExpr) string {
	fun := ast.Unparen(x.Fun)
	if tv, ok := t.p.Info.Types[fun]; ok && tv.IsType() { // conversion T(x)
		if len(x.Args) != 1 || isBool(t.typ(x.Args[0])) || isBool(t.typ(x)) {
			t.die(x, "conversion outside the subset")
		}
		return t.wrap(t.typ(x), t.expr(x.Args[0]), x)
	}
	args := make([]string, len(x.Args))
	for i, a := range x.Args {
		args[i] = t.expr(a)
	}
	if x.Ellipsis.IsValid() {
		t.die(x, "variadic call")
	}
	var callee *types.Func
	sameRecv := false
	switch f := fun.(type) {
	case *ast.Ident:
		switch obj := t.p.Info.Uses[f].(type) {
		case *types.Builtin:
			if (obj.Name() == "min" || obj.Name() == "max") && len(args) >= 1 && !isBool(t.typ(x)) {
				s := args[0]
				for _, a := range args[1:] {
					s = "(" + obj.Name() + " " + s + " " + a + ")"
				}
				return s
			}
		case *types.Func:
			callee = obj
		}
	case *ast.SelectorExpr:
		if id, ok := f.X.(*ast.Ident); ok {
			if _, isPkg := t.p.Info.Uses[id].(*types.PkgName); isPkg {
				callee, _ = t.p.Info.Uses[f.Sel].(*types.Func)
			} else if t.recv != nil && t.p.Info.Uses[id] == t.recv {
				callee, _ = t.p.Info.Uses[f.Sel].(*types.Func)
				sameRecv = true
			}
		}
	}
	if callee == nil {
		t.die(x, "call of something outside the allow-list")
	}
	sig := callee.Type().(*types.Signature)
	var inst *types.Basic
	if sig.TypeParams().Len() > 0 {
		if sig.TypeParams().Len() != 1 || sig.Results().Len() != 1 || types.Unalias(sig.Results().At(0).Type()) != types.Type(sig.TypeParams().At(0)) {
			t.die(x, "generic callee must have the shape f[T](…) T")
		}
		inst = t.typ(x)
	}
	if (sig.Recv() != nil) != sameRecv {
		t.die(x, "method call on something other than the current receiver")
	}
	name, fields := t.g.need(callee, inst, x, t)
	pre := ""
	for _, f := range fields {
		t.fields[f] = true
		pre += " " + t.recv.Name() + "_" + f
	}
	return "(" + name + pre + " " + strings.Join(args, " ") + ")"
}

// ---- statements -------------------------------------------------------------------------------

func hasReturn(ss []ast.Stmt) bool {
	found := false
	for _, s := range ss {
		ast.Inspect(s, func(n ast.Node) bool {
			if _, ok := n.(*ast.ReturnStmt); ok {
				found = true
			}
			return !found
		})
	}
	return found
}

// terminates: control cannot fall off the end of ss.
func terminates(ss []ast.Stmt) bool {
	if len(ss) == 0 {
		return false
	}
	switch x := ss[len(ss)-1].(type) {
	case *ast.ReturnStmt:
		return true
	case *ast.IfStmt:
		return x.Else != nil && terminates(x.Body.List) && terminates(elseList(x))
	}
	return false
}

func elseList(x *ast.IfStmt) []ast.Stmt {
	switch e := x.Else.(type) {
	case nil:
		return nil
	case *ast.BlockStmt:
		return e.List
	}
	return []ast.Stmt{x.Else}
}

func indent(s string) string { return "  " + strings.ReplaceAll(s, "\n", "\n  ") }

// assignedOuter lists (in order of first assignment) the variables declared before `before` that
// ss assigns to.
func (t *fnTr) assignedOuter(ss []ast.Stmt, before token.Pos) []string {
	var out []string
	seen := map[string]bool{}
	add := func(e ast.Expr) {
		name, ok := t.atoms[t.src(e)]
		if !ok {
			id, isId := e.(*ast.Ident)
			if !isId {
				t.die(e, "assignment target outside the subset")
			}
			obj := t.p.Info.Uses[id]
			if obj == nil || obj.Pos() >= before {
				return
			}
			name = t.localVar(id)
		}
		if !seen[name] {
			seen[name] = true
			out = append(out, name)
		}
	}
	for _, s := range ss {
		ast.Inspect(s, func(n ast.Node) bool {
			switch x := n.(type) {
			case *ast.AssignStmt:
				if x.Tok != token.DEFINE {
					for _, l := range x.Lhs {
						add(l)
					}
				}
			case *ast.IncDecStmt:
				add(x.X)
			}
			return true
		})
	}
	return out
}

// block renders "execute ss, then continue with fall" (fall == "" ⇒ falling off is an error).
func (t *fnTr) block(ss []ast.Stmt, fall string) string {
	if len(ss) == 0 {
		if fall == "" {
			t.die(t.fd, "control can fall off the end of the function")
		}
		return fall
	}
	s, rest := ss[0], ss[1:]
	let := func(lhs ast.Expr, rhs string) string {
		name, ok := t.atoms[t.src(lhs)]
		if !ok {
			id, isId := lhs.(*ast.Ident)
			if !isId {
				t.die(lhs, "assignment target outside the subset")
			}
			name = t.localVar(id)
		}
		return "let " + name + " := " + rhs + "\n" + t.block(rest, fall)
	}
	switch x := s.(type) {
	case *ast.ReturnStmt:
		if len(x.Results) != 1 {
			t.die(x, "return must have exactly one result")
		}
		return t.expr(x.Results[0])
	case *ast.AssignStmt:
		if len(x.Lhs) != 1 || len(x.Rhs) != 1 {
			t.die(x, "multiple assignment")
		}
		if x.Tok == token.DEFINE || x.Tok == token.ASSIGN {
			return let(x.Lhs[0], t.expr(x.Rhs[0]))
		}
		op := x.Tok - (token.ADD_ASSIGN - token.ADD)
		return let(x.Lhs[0], t.binop(op, t.typ(x.Lhs[0]), t.expr(x.Lhs[0]), t.expr(x.Rhs[0]), x.Lhs[0], x.Rhs[0], x))
	case *ast.IncDecStmt:
		op := map[token.Token]string{token.INC: "+", token.DEC: "-"}[x.Tok]
		return let(x.X, t.wrap(t.typ(x.X), "("+t.expr(x.X)+" "+op+" 1)", x))
	case *ast.IfStmt:
		if x.Init != nil {
			t.die(x, "if with init statement")
		}
		c, th, el := t.cond(x.Cond), x.Body.List, elseList(x)
		ite := func(a, b string) string { return "if " + c + " then\n" + indent(a) + "\nelse\n" + indent(b) }
		switch {
		case !hasReturn(th) && !hasReturn(el): // pure state update: re-bind the assigned variables
			vars := t.assignedOuter(append(append([]ast.Stmt{}, th...), el...), x.Pos())
			if len(vars) == 0 {
				t.die(x, "if statement without effect")
			}
			tup := vars[0]
			if len(vars) > 1 {
				tup = "(" + strings.Join(vars, ", ") + ")"
			}
			return "let " + tup + " := " + ite(t.block(th, tup), t.block(el, tup)) + "\n" + t.block(rest, fall)
		case terminates(th):
			return ite(t.block(th, ""), t.block(append(append([]ast.Stmt{}, el...), rest...), fall))
		case terminates(el):
			return ite(t.block(append(append([]ast.Stmt{}, th...), rest...), fall), t.block(el, ""))
		}
		t.die(x, "if statement whose branches mix falling through and returning")
	case *ast.SwitchStmt:
		return t.block(append([]ast.Stmt{t.desugarSwitch(x)}, rest...), fall)
	}
	t.die(s, "statement form outside the subset")
	return ""
}

// desugarSwitch turns `switch [tag] { case a, b: A; case c: B; default: D }` into an if-chain.
func (t *fnTr) desugarSwitch(x *ast.SwitchStmt) ast.Stmt {
	if x.Init != nil {
		t.die(x, "switch with init statement")
	}
	var chain ast.Stmt // built from the last clause backwards
	cl := x.Body.List
	for i := len(cl) - 1; i >= 0; i-- {
		cc := cl[i].(*ast.CaseClause)
		for _, s := range cc.Body {
			if _, ok := s.(*ast.BranchStmt); ok {
				t.die(s, "break/fallthrough in switch")
			}
		}
		body := &ast.BlockStmt{List: cc.Body}
		if cc.List == nil { // default
			if i != len(cl)-1 {
				t.die(cc, "default clause must be last")
			}
			chain = body
			continue
		}
		var c ast.Expr
		for _, v := range cc.List {
			var one ast.Expr = v
			if x.Tag != nil {
				if tv := t.p.Info.Types[v]; tv.Value == nil {
					t.die(v, "tagged switch needs constant cases")
				}
				one = &ast.BinaryExpr{X: x.Tag, Op: token.EQL, Y: v, OpPos: v.Pos()}
			}
			if c == nil {
				c = one
			} else {
				c = &ast.BinaryExpr{X: c, Op: token.LOR, Y: one, OpPos: v.Pos()}
			}
		}
		chain = &ast.IfStmt{If: cc.Pos(), Cond: c, Body: body, Else: chain}
	}
	if chain == nil {
		t.die(x, "empty switch")
	}
	if _, ok := chain.(*ast.IfStmt); !ok {
		t.die(x, "switch with only a default clause")
	}
	return chain
}
