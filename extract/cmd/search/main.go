// Command search prints lean/ChessVerif/Gen/Search.lean: everything the instantiation of the search
// skeleton with the real components (Model/SearchReal.lean) takes from /repo/search, /repo/params,
// /repo/chess and transp.Table.HashFull that no other Gen file provides:
//
//   - every exported constant of params/params.go (the non-spsa file; the set of names is read from
//     the package, not listed here),
//   - the spsa build (params/spsa.go, loaded with the tag): the exported variables with their initial
//     values, the rows of the `tunables` table (POINTER target, name, min, max) and the shape of `Set`,
//   - the offset C of the one call `lmr(d, moveCnt-C, improving, nType)` of alphaBeta,
//   - chess.Inf / Inv / MaxPlies, the node-type constants, the `log` table of search.go,
//   - the literal operands of the comparisons / assignments / calls of alphaBeta, quiescence,
//     getNextMove, evaluate, iterativeDeepen, Go, softAbort and transp.Table.HashFull that the hand
//     model (or the generic skeleton Model/Search.lean) repeats.  Each one is located by the exact
//     source text of the enclosing expression (white space ignored), which must occur exactly once in
//     the named function, and is then evaluated by the type checker,
//   - fingerprints of the hand-modelled functions.
//
// An expression that is not found exactly once ⇒ lib.Die (nothing is ever guessed).
// Run with cwd=/repo.
//
//	extract_search            -> stdout
//	extract_search -o <path>  -> write the file only when its bytes change
package main

import (
	"flag"
	"fmt"
	"go/ast"
	"go/constant"
	"go/token"
	"go/types"
	"sort"
	"strconv"
	"strings"

	"verifextract/lib"
)

func squash(s string) string { return strings.Join(strings.Fields(s), "") }

func constOf(p *lib.Pkg, e ast.Expr, ctx string) string {
	tv, ok := p.Info.Types[e]
	if !ok || tv.Value == nil {
		lib.Die("search: %s: expression %s is not a constant", ctx, p.Source(e))
	}
	v := constant.ToInt(tv.Value)
	if v.Kind() != constant.Int {
		lib.Die("search: %s: constant %s is not an integer", ctx, p.Source(e))
	}
	return v.ExactString()
}

func lean(v string) string {
	if strings.HasPrefix(v, "-") {
		return "(" + v + ")"
	}
	return v
}

// node finds the unique expression or statement of fn whose printed form is src.
func node(p *lib.Pkg, fn, src string) ast.Node {
	fd := p.Func(fn)
	var found ast.Node
	cnt := 0
	want := squash(src)
	ast.Inspect(fd.Body, func(n ast.Node) bool {
		switch n.(type) {
		case ast.Expr, *ast.AssignStmt, *ast.IncDecStmt:
			if _, paren := n.(*ast.ParenExpr); paren {
				return true
			}
			if squash(p.Source(n)) == want {
				found = n
				cnt++
				return false // do not count the same text again inside (e.g. conversions)
			}
		}
		return true
	})
	if cnt != 1 {
		lib.Die("search: %s: expected exactly one `%s`, found %d", fn, src, cnt)
	}
	return found
}

func unparen(e ast.Expr) ast.Expr {
	for {
		pe, ok := e.(*ast.ParenExpr)
		if !ok {
			return e
		}
		e = pe.X
	}
}

// bin returns the two sides of the unique binary expression `src` (operator op) of fn.
func bin(p *lib.Pkg, fn, src string, op token.Token) (x, y ast.Expr) {
	be, ok := node(p, fn, src).(*ast.BinaryExpr)
	if !ok || be.Op != op {
		lib.Die("search: %s: `%s` is not a binary expression with operator %s", fn, src, op)
	}
	return unparen(be.X), unparen(be.Y)
}

// rhs / lhsC: constant value of the right (left) side of the unique binary expression src.
func rhs(p *lib.Pkg, fn, src string, op token.Token) string {
	_, y := bin(p, fn, src, op)
	return constOf(p, y, fn+": "+src)
}
func lhsC(p *lib.Pkg, fn, src string, op token.Token) string {
	x, _ := bin(p, fn, src, op)
	return constOf(p, x, fn+": "+src)
}

// asg: constant right-hand side of the unique assignment statement src (`x := c`, `x /= c`, …).
func asg(p *lib.Pkg, fn, src string, tok token.Token) string {
	as, ok := node(p, fn, src).(*ast.AssignStmt)
	if !ok || as.Tok != tok || len(as.Rhs) != 1 {
		lib.Die("search: %s: `%s` is not an assignment with %s", fn, src, tok)
	}
	return constOf(p, as.Rhs[0], fn+": "+src)
}

// arg: constant value of argument i of the unique call src.
func arg(p *lib.Pkg, fn, src string, i int) string {
	ce, ok := node(p, fn, src).(*ast.CallExpr)
	if !ok || i >= len(ce.Args) {
		lib.Die("search: %s: `%s` is not a call with an argument %d", fn, src, i)
	}
	return constOf(p, ce.Args[i], fn+": "+src)
}

// spsaSection emits what the spsa build (params/spsa.go, `//go:build spsa`) declares:
//
//   - `paramsConsts`: the exported integer constants of params.go as a list (same values as the
//     `params_*` definitions; for the symmetry check),
//   - `spsaDefaults`: the exported package-level `int` variables of spsa.go with their initial values,
//     in source order,
//   - `spsaTunables`: the rows of the `tunables` table in source order as
//     (variable the row's POINTER targets, the row's name, min, max) — pointer and name are emitted
//     separately so that a row whose name and pointer disagree is visible to Lean,
//   - fingerprints of `Set` and `UCIOptions` of the spsa build.
//
// Shape demanded (anything else ⇒ Die): `var tunables = [...]struct{ptr *int; name string; min int;
// max int}{ {&Ident, "string", const, const}, … }` with positional rows, every pointer the address of
// an exported package-level `int` variable of the package that has a constant initial value.
func spsaSection(b *strings.Builder, pp *lib.Pkg, constNames []string) {
	sq := lib.Load("/repo/params", "spsa")
	if sq.Err != nil {
		lib.Die("%s (tags spsa): type check: %v", sq.Dir, sq.Err)
	}
	b.WriteString("\n/-! ### params/spsa.go (the spsa build) and its symmetry with params/params.go -/\n")
	quote := func(s string) string { return strconv.Quote(s) }

	// the constants of params.go once more, as a list
	{
		var rows []string
		for _, n := range constNames {
			rows = append(rows, fmt.Sprintf("(%s, %s)", quote(n), lean(pp.ConstInt(n))))
		}
		fmt.Fprintf(b, "/-- the exported integer constants of params/params.go (sorted by name) -/\ndef paramsConsts : List (String × Int) := [%s]\n", strings.Join(rows, ", "))
	}

	// exported package-level variables of the spsa file, in source order
	type pvar struct {
		name, val string
	}
	var vars []pvar
	isVar := map[string]bool{}
	for _, f := range sq.Files {
		for _, d := range f.Decls {
			gd, ok := d.(*ast.GenDecl)
			if !ok || gd.Tok != token.VAR {
				continue
			}
			for _, s := range gd.Specs {
				vs := s.(*ast.ValueSpec)
				for i, n := range vs.Names {
					if !n.IsExported() {
						continue
					}
					obj, ok := sq.Info.Defs[n].(*types.Var)
					if !ok {
						lib.Die("params (spsa): %s is not a variable", n.Name)
					}
					if bt, ok := obj.Type().(*types.Basic); !ok || bt.Kind() != types.Int {
						lib.Die("params (spsa): exported variable %s has type %s, expected int", n.Name, obj.Type())
					}
					if i >= len(vs.Values) {
						lib.Die("params (spsa): exported variable %s has no initial value", n.Name)
					}
					vars = append(vars, pvar{n.Name, constOf(sq, vs.Values[i], "params (spsa) var "+n.Name)})
					isVar[n.Name] = true
				}
			}
		}
	}
	if len(vars) == 0 {
		lib.Die("params (spsa): no exported variables found")
	}
	// an exported CONSTANT in the spsa file would be a parameter that cannot be set
	sc := sq.Types.Scope()
	for _, n := range sc.Names() {
		if c, ok := sc.Lookup(n).(*types.Const); ok && c.Exported() {
			lib.Die("params (spsa): unexpected exported constant %s", n)
		}
	}
	{
		var rows []string
		for _, v := range vars {
			rows = append(rows, fmt.Sprintf("(%s, %s)", quote(v.name), lean(v.val)))
		}
		fmt.Fprintf(b, "/-- the exported `int` variables of params/spsa.go with their initial values (source order) -/\ndef spsaDefaults : List (String × Int) := [%s]\n", strings.Join(rows, ", "))
	}

	// the tunables table
	cl, ok := sq.VarDecl("tunables").(*ast.CompositeLit)
	if !ok {
		lib.Die("params (spsa): `tunables` is not a composite literal")
	}
	at, ok := cl.Type.(*ast.ArrayType)
	if !ok {
		lib.Die("params (spsa): `tunables` is not an array literal")
	}
	st, ok := at.Elt.(*ast.StructType)
	if !ok {
		lib.Die("params (spsa): the element type of `tunables` is not a struct type")
	}
	{
		var got []string
		for _, f := range st.Fields.List {
			for _, n := range f.Names {
				got = append(got, n.Name+" "+squash(sq.Source(f.Type)))
			}
		}
		if want := "ptr *int|name string|min int|max int"; strings.Join(got, "|") != want {
			lib.Die("params (spsa): the rows of `tunables` are struct{%s}, expected struct{%s}", strings.Join(got, "; "), strings.ReplaceAll(want, "|", "; "))
		}
	}
	var rows []string
	for i, el := range cl.Elts {
		row, ok := el.(*ast.CompositeLit)
		if !ok || len(row.Elts) != 4 {
			lib.Die("params (spsa): tunables row %d is not a positional literal with 4 fields: %s", i, sq.Source(el))
		}
		for _, e := range row.Elts {
			if _, kv := e.(*ast.KeyValueExpr); kv {
				lib.Die("params (spsa): tunables row %d uses keyed fields: %s", i, sq.Source(el))
			}
		}
		ue, ok := unparen(row.Elts[0]).(*ast.UnaryExpr)
		if !ok || ue.Op != token.AND {
			lib.Die("params (spsa): tunables row %d: the pointer is not `&Variable`: %s", i, sq.Source(row.Elts[0]))
		}
		id, ok := unparen(ue.X).(*ast.Ident)
		if !ok {
			lib.Die("params (spsa): tunables row %d: the pointer is not the address of a plain variable: %s", i, sq.Source(row.Elts[0]))
		}
		obj, ok := sq.Info.Uses[id].(*types.Var)
		if !ok || obj.Pkg() != sq.Types || obj.Parent() != sq.Types.Scope() || !isVar[id.Name] {
			lib.Die("params (spsa): tunables row %d: &%s is not the address of an exported package-level int variable of the package", i, id.Name)
		}
		tv, ok := sq.Info.Types[row.Elts[1]]
		if !ok || tv.Value == nil || tv.Value.Kind() != constant.String {
			lib.Die("params (spsa): tunables row %d: the name is not a string constant: %s", i, sq.Source(row.Elts[1]))
		}
		name := constant.StringVal(tv.Value)
		lo := constOf(sq, row.Elts[2], fmt.Sprintf("params (spsa) tunables row %d min", i))
		hi := constOf(sq, row.Elts[3], fmt.Sprintf("params (spsa) tunables row %d max", i))
		rows = append(rows, fmt.Sprintf("(%s, %s, %s, %s)", quote(id.Name), quote(name), lean(lo), lean(hi)))
	}
	if len(rows) == 0 {
		lib.Die("params (spsa): `tunables` is empty")
	}
	fmt.Fprintf(b, "/-- the rows of `tunables` (source order): (the variable the row's POINTER targets, the row's name, min, max) -/\ndef spsaTunables : List (String × String × Int × Int) := [\n  %s]\n", strings.Join(rows, ",\n  "))

	// `Set` must check the declared range and write through the row's pointer; `UCIOptions` prints the rows
	fn := sq.Func("Set")
	found := 0
	ast.Inspect(fn.Body, func(n ast.Node) bool {
		switch x := n.(type) {
		case *ast.BinaryExpr:
			if squash(sq.Source(x)) == "val<t.min||t.max<val" {
				found |= 1
			}
			if squash(sq.Source(x)) == "t.name==name" {
				found |= 4
			}
		case *ast.AssignStmt:
			if squash(sq.Source(x)) == "*t.ptr=val" {
				found |= 2
			}
		case *ast.RangeStmt:
			if squash(sq.Source(x.X)) == "tunables" {
				found |= 8
			}
		}
		return true
	})
	if found != 15 {
		lib.Die("params (spsa): Set is not `for _, t := range tunables { if t.name == name { if val < t.min || t.max < val {…}; *t.ptr = val … } }` (shape mask %d)", found)
	}
	fmt.Fprintf(b, "/-- fingerprints of the functions of the spsa build that apply the table -/\ndef spsaFingerprints : List (String × String) := [\n  (%q, %q),\n  (%q, %q)\n]\n",
		"params.Set", sq.Fingerprint("Set"), "params.UCIOptions", sq.Fingerprint("UCIOptions"))
}

func main() {
	outPath := flag.String("o", "", "write to this path (only if changed) instead of stdout")
	flag.Parse()

	sp := lib.Load("/repo/search")
	pp := lib.Load("/repo/params") // no tags: params.go (`//go:build !spsa`), not spsa.go
	cp := lib.Load("/repo/chess")
	tp := lib.Load("/repo/transp")
	for _, p := range []*lib.Pkg{sp, pp, cp, tp} {
		if p.Err != nil {
			lib.Die("%s: type check: %v", p.Dir, p.Err)
		}
	}

	var b strings.Builder
	def := func(name, val, doc string) {
		fmt.Fprintf(&b, "/-- %s -/\ndef %s : Int := %s\n", doc, name, lean(val))
	}
	b.WriteString("/-\n  GENERATED by /verif/extract/cmd/search from /repo/{search,params,chess,transp}.\n  Do not edit: regenerated on every check.  (heur.PieceValues, the picker thresholds and move.StoreSize are in\n  Gen/Heur.lean; the TT constants in Gen/Transp.lean; `lmr`, `clampS16`, the gravity formula in Gen/Funcs.lean.)\n-/\nnamespace ChessVerif.Gen.Search\n\n")

	// ---- chess ----------------------------------------------------------------------------------
	def("inf", cp.ConstInt("Inf"), "chess.Inf")
	def("inv", cp.ConstInt("Inv"), "chess.Inv")
	def("maxPlies", cp.ConstInt("MaxPlies"), "chess.MaxPlies")
	def("noPiece", cp.ConstInt("NoPiece"), "chess.NoPiece")
	def("pawn", cp.ConstInt("Pawn"), "chess.Pawn")
	def("king", cp.ConstInt("King"), "chess.King")

	// ---- search node types ----------------------------------------------------------------------
	def("pvNode", sp.ConstInt("PVNode"), "search.PVNode")
	def("cutNode", sp.ConstInt("CutNode"), "search.CutNode")
	def("allNode", sp.ConstInt("AllNode"), "search.AllNode")

	// ---- params: every exported integer constant of the package ----------------------------------
	b.WriteString("\n/-! ### params/params.go (the non-spsa build) -/\n")
	var names []string
	sc := pp.Types.Scope()
	for _, n := range sc.Names() {
		if c, ok := sc.Lookup(n).(*types.Const); ok && c.Exported() {
			names = append(names, n)
		}
	}
	sort.Strings(names)
	for _, need := range []string{"NMPDiffFactor", "NMPDepthLimit", "NMPInit", "RFPDepthLimit", "RFPScoreFactor", "WindowSize",
		"LMRStart", "StandPatDelta", "IIRDepthLimit", "HistBonusMul", "HistBonusLin", "HistAdjRange", "HistAdjReduction"} {
		pp.ConstInt(need) // Die when a constant the search / ranker reads is no longer a constant of the package
	}
	for _, n := range names {
		def("params_"+n, pp.ConstInt(n), "params."+n)
	}

	// ---- params/spsa.go: the spsa build (`//go:build spsa`), loaded explicitly --------------------
	spsaSection(&b, pp, names)

	// ---- the log table ----------------------------------------------------------------------------
	b.WriteString("\n")
	fmt.Fprintf(&b, "/-- search.log -/\ndef logTbl : List Int := %s\n", sp.Table("log").Lean())

	// ---- alphaBeta ------------------------------------------------------------------------------
	const ab = "Search.alphaBeta"
	b.WriteString("\n/-! ### literal operands of `alphaBeta` -/\n")
	def("abQuiescencePly", rhs(sp, ab, "ply >= MaxPlies-1", token.GEQ), "`ply >= MaxPlies-1`: drop into quiescence")
	def("abFiftyLimit", rhs(sp, ab, "b.FiftyCnt >= 100", token.GEQ), "`b.FiftyCnt >= 100`")
	{
		_, y := bin(sp, ab, "tfCnt >= 3-min(ply, 1)", token.GEQ)
		sub, ok := y.(*ast.BinaryExpr)
		if !ok || sub.Op != token.SUB {
			lib.Die("search: alphaBeta: repetition bound is not `L - min(ply, C)`")
		}
		call, ok := sub.Y.(*ast.CallExpr)
		if !ok || squash(sp.Source(call.Fun)) != "min" || len(call.Args) != 2 || squash(sp.Source(call.Args[0])) != "ply" {
			lib.Die("search: alphaBeta: repetition bound is not `L - min(ply, C)`")
		}
		def("abThreefoldLimit", constOf(sp, sub.X, "alphaBeta tfCnt"), "the `3` of `tfCnt >= 3-min(ply, 1)`")
		def("abThreefoldPlyCap", constOf(sp, call.Args[1], "alphaBeta tfCnt"), "the `1` of `tfCnt >= 3-min(ply, 1)`")
	}
	def("rfpBetaFloor", rhs(sp, ab, "beta > -Inf+MaxPlies", token.GTR), "`beta > -Inf+MaxPlies` of reverse futility pruning")
	def("nmpClampLo", arg(sp, ab, "Clamp((staticEval-beta)/Score(params.NMPDiffFactor), 0, MaxPlies)", 1), "lower clamp of the null-move reduction term")
	def("nmpClampHi", arg(sp, ab, "Clamp((staticEval-beta)/Score(params.NMPDiffFactor), 0, MaxPlies)", 2), "upper clamp of the null-move reduction term")
	def("nmpDepthFloor", arg(sp, ab, "max(d-red, 0)", 1), "`max(d-red, 0)`")
	def("nmpWindow", rhs(sp, ab, "-beta+1", token.ADD), "`-beta+1`: the null window of the null-move search")
	def("nmpMateCeil", rhs(sp, ab, "value >= Inf-MaxPlies", token.GEQ), "`value >= Inf-MaxPlies`: a null-move result in the mate band returns beta")
	def("abMaximStart", asg(sp, ab, "maxim := -Inf - 1", token.DEFINE), "`maxim := -Inf - 1`")
	def("lmrMinDepth", rhs(sp, ab, "d > 1", token.GTR), "`d > 1` of the late-move-reduction condition")
	def("lmpDiv", asg(sp, ab, "quietLimit /= 2", token.QUO_ASSIGN), "`quietLimit /= 2` when not improving")
	{
		_, y := bin(sp, ab, "quietCnt > 1+quietLimit", token.GTR)
		sum, ok := y.(*ast.BinaryExpr)
		if !ok || sum.Op != token.ADD || squash(sp.Source(sum.Y)) != "quietLimit" {
			lib.Die("search: alphaBeta: late move pruning bound is not `C + quietLimit`")
		}
		def("lmpBase", constOf(sp, sum.X, "alphaBeta lmp"), "the `1` of `quietCnt > 1+quietLimit`")
	}
	node(sp, ab, "quietLimit := int(d) * int(d)") // shape of the late-move-pruning limit
	{
		// the one call of `lmr` in alphaBeta: `lmr(d, moveCnt-C, improving, nType)`; C decides whether the index
		// into the `log` table can be negative (the guard in front of it is `quietCnt > params.LMRStart`)
		fd := sp.Func(ab)
		var calls []*ast.CallExpr
		ast.Inspect(fd.Body, func(n ast.Node) bool {
			if ce, ok := n.(*ast.CallExpr); ok && squash(sp.Source(ce.Fun)) == "lmr" {
				calls = append(calls, ce)
			}
			return true
		})
		if len(calls) != 1 || len(calls[0].Args) != 4 {
			lib.Die("search: alphaBeta: expected exactly one call `lmr(d, moveCnt-C, improving, nType)`, found %d", len(calls))
		}
		ce := calls[0]
		if squash(sp.Source(ce.Args[0])) != "d" || squash(sp.Source(ce.Args[2])) != "improving" || squash(sp.Source(ce.Args[3])) != "nType" {
			lib.Die("search: alphaBeta: the call of lmr is not `lmr(d, moveCnt-C, improving, nType)`: %s", sp.Source(ce))
		}
		sub, ok := unparen(ce.Args[1]).(*ast.BinaryExpr)
		if !ok || sub.Op != token.SUB || squash(sp.Source(sub.X)) != "moveCnt" {
			lib.Die("search: alphaBeta: the move count handed to lmr is not `moveCnt-C`: %s", sp.Source(ce.Args[1]))
		}
		def("lmrCountOffset", constOf(sp, sub.Y, "alphaBeta lmr"), "the `1` of `lmr(d, moveCnt-1, improving, nType)`")
		node(sp, ab, "d > 1 && quietCnt > params.LMRStart && !inCheck") // the guard in front of it
		// lmr itself: `log[min(mCount, len(log)-1)]` — bounded above by the table, not below
		node(sp, "lmr", "log[min(mCount, len(log)-1)]")
		node(sp, "lmr", "log[d]")
	}
	def("abNoMoveScore", constOf(sp, node(sp, ab, "Score(0)").(ast.Expr), "alphaBeta Score(0)"), "`maxim = Score(0)`: no legal move and not in check")

	// ---- quiescence, getNextMove, evaluate ----------------------------------------------------------
	const qs = "Search.quiescence"
	b.WriteString("\n/-! ### literal operands of `quiescence`, `getNextMove`, `evaluate` -/\n")
	def("qFiftyLimit", rhs(sp, qs, "b.FiftyCnt >= 100", token.GEQ), "`b.FiftyCnt >= 100`")
	def("qThreefoldLimit", rhs(sp, qs, "b.Threefold() >= 3", token.GEQ), "`b.Threefold() >= 3`")
	def("qWeightBreak", rhs(sp, qs, "m.Weight < 0", token.LSS), "`m.Weight < 0`: bad captures end the quiescence move loop")
	def("qSelectFrom", arg(sp, qs, "getNextMove(moves, -1)", 1), "`getNextMove(moves, -1)`")
	def("qStoreDepth", arg(sp, qs, "transpT.Insert(b.Hash(), s.gen, 0, ply, 0, maxim, transp.UpperBound)", 2), "depth of the quiescence table stores")
	if v := arg(sp, qs, "transpT.Insert(b.Hash(), s.gen, 0, ply, m.Move, curr, transp.LowerBound)", 2); v != "0" {
		lib.Die("search: quiescence: fail-high store depth %s", v)
	}
	def("qSelectStart", asg(sp, "getNextMove", "maxim := -Inf - 1", token.DEFINE), "`maxim := -Inf - 1` of getNextMove")
	def("evalClampLo", arg(sp, "evaluate", "Clamp(eval.Eval(b, &eval.Coefficients), -Inf+MaxPlies+1, Inf-MaxPlies-1)", 1), "lower clamp of `evaluate`")
	def("evalClampHi", arg(sp, "evaluate", "Clamp(eval.Eval(b, &eval.Coefficients), -Inf+MaxPlies+1, Inf-MaxPlies-1)", 2), "upper clamp of `evaluate`")

	// ---- iterativeDeepen, Go ------------------------------------------------------------------------
	const id = "Search.iterativeDeepen"
	b.WriteString("\n/-! ### literal operands of `iterativeDeepen` and `Go` -/\n")
	def("idAlphaStart", asg(sp, id, "alpha := -Inf - 1", token.DEFINE), "`alpha := -Inf - 1`")
	def("idBetaStart", asg(sp, id, "beta := Inf + 1", token.DEFINE), "`beta := Inf + 1`")
	def("idDepthStart", asg(sp, id, "idD := Depth(0)", token.DEFINE), "`idD := Depth(0)`")
	def("idDepthEnd", rhs(sp, id, "idD < MaxPlies", token.LSS), "`idD < MaxPlies`")
	def("aspFactorStart", asg(sp, id, "factor := Score(1)", token.DEFINE), "`factor := Score(1)`")
	{
		// two statements `factor *= 2`
		fd := sp.Func(id)
		var vals []string
		ast.Inspect(fd.Body, func(n ast.Node) bool {
			if as, ok := n.(*ast.AssignStmt); ok && as.Tok == token.MUL_ASSIGN && squash(sp.Source(as.Lhs[0])) == "factor" {
				vals = append(vals, constOf(sp, as.Rhs[0], "iterativeDeepen factor"))
			}
			return true
		})
		if len(vals) != 2 || vals[0] != vals[1] {
			lib.Die("search: iterativeDeepen: expected two equal `factor *= C`, found %v", vals)
		}
		def("aspFactorMul", vals[0], "`factor *= 2` (both the fail-low and the fail-high arm)")
	}
	{
		// Options{Depth: MaxPlies, Nodes: -1, SoftNodes: -1, Output: os.Stdout}
		fd := sp.Func("Search.Go")
		got := map[string]string{}
		ast.Inspect(fd.Body, func(n ast.Node) bool {
			cl, ok := n.(*ast.CompositeLit)
			if !ok || squash(sp.Source(cl.Type)) != "Options" {
				return true
			}
			for _, el := range cl.Elts {
				kv, ok := el.(*ast.KeyValueExpr)
				if !ok {
					lib.Die("search: Go: Options literal with positional fields")
				}
				k := squash(sp.Source(kv.Key))
				if tv, ok := sp.Info.Types[kv.Value]; ok && tv.Value != nil {
					got[k] = constOf(sp, kv.Value, "Go Options."+k)
				} else {
					got[k] = "?"
				}
			}
			return true
		})
		for _, k := range []string{"Depth", "Nodes", "SoftNodes"} {
			if _, ok := got[k]; !ok || got[k] == "?" {
				lib.Die("search: Go: default Options.%s not found as a constant", k)
			}
		}
		def("defaultDepth", got["Depth"], "`Options{Depth: MaxPlies, …}`")
		def("defaultNodes", got["Nodes"], "`Options{…, Nodes: -1, …}` (no hard budget)")
		def("defaultSoftNodes", got["SoftNodes"], "`Options{…, SoftNodes: -1, …}`")
	}
	def("noNodeLimit", rhs(sp, "Search.incrementNodes", "opts.Nodes == -1", token.EQL), "`opts.Nodes == -1` of incrementNodes")
	def("softTimeOff", rhs(sp, "Options.softAbort", "o.SoftTime > 0", token.GTR), "`o.SoftTime > 0`")
	def("softNodesOff", rhs(sp, "Options.softAbort", "o.SoftNodes > 0", token.GTR), "`o.SoftNodes > 0`")

	// ---- transp.Table.HashFull ------------------------------------------------------------------
	b.WriteString("\n/-! ### transp.Table.HashFull -/\n")
	const hf = "Table.HashFull"
	def("hashFullMinBuckets", rhs(tp, hf, "len(t.data) < 1000", token.LSS), "`len(t.data) < 1000` ⇒ panic")
	{
		se, ok := node(tp, hf, "t.data[:1000]").(*ast.SliceExpr)
		if !ok || se.Low != nil || se.High == nil {
			lib.Die("search: HashFull: `t.data[:1000]` is not a slice expression with only an upper bound")
		}
		def("hashFullSample", constOf(tp, se.High, "HashFull sample"), "`t.data[:1000]`: the buckets sampled")
	}
	def("hashFullDiv", rhs(tp, hf, "cnt / 4", token.QUO), "`cnt / 4`")
	def("hashFullLaneMask", rhs(tp, hf, "(bucket.pKeys>>(i*partialKeyBits))&(1<<partialKeyBits-1)", token.AND), "`1<<partialKeyBits-1`")
	node(tp, hf, "(bucket.pKeys>>(i*partialKeyBits))&(1<<partialKeyBits-1) != 0 && entry.gen == gen")

	// ---- fingerprints -----------------------------------------------------------------------------
	b.WriteString("\n/-- Fingerprints (normalised source hashes) of the hand-modelled functions. -/\ndef fingerprints : List (String × String) := [\n")
	type fn struct {
		p    *lib.Pkg
		name string
	}
	fns := []fn{{sp, "Search.Go"}, {sp, "Search.iterativeDeepen"}, {sp, "Search.abort"}, {sp, "Search.incrementNodes"},
		{sp, "Search.alphaBeta"}, {sp, "nextNodeType"}, {sp, "lmr"}, {sp, "Search.quiescence"}, {sp, "evaluate"},
		{sp, "Search.rankMovesQ"}, {sp, "getNextMove"}, {sp, "pvInfo"}, {sp, "New"}, {sp, "Search.refresh"}, {sp, "Search.Clear"},
		{sp, "Options.softAbort"}, {sp, "pv.insert"}, {sp, "pv.setNull"}, {sp, "pv.active"}, {sp, "bufIx"}, {tp, "Table.HashFull"}}
	for i, f := range fns {
		sep := ","
		if i == len(fns)-1 {
			sep = ""
		}
		fmt.Fprintf(&b, "  (%q, %q)%s\n", f.p.Types.Name()+"."+f.name, f.p.Fingerprint(f.name), sep)
	}
	b.WriteString("]\n\nend ChessVerif.Gen.Search\n")

	if *outPath != "" {
		lib.WriteIfChanged(*outPath, b.String())
		return
	}
	fmt.Print(b.String())
}
