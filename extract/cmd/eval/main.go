// Command eval prints lean/ChessVerif/Gen/Eval.lean: the facts of /repo/eval and
// /repo/tools/tuner/tuning that the C17 / C19 models and theorems depend on.
// Run with cwd=/repo (optionally: eval <repo_dir>).
//
//   - the SHAPE of eval.CoeffSet (field names and nested array dimensions, declaration order), from
//     the type checker;
//   - every coefficient of eval.Coefficients as exact integers (row-major per field);
//   - sigm, Phase, MaxPhase, KBCorners, sideOfBoard;
//   - tuning.DefaultTargets;
//   - the STATIC DEPENDENCY FACTS of package eval: which fields of board.Board are read / written,
//     which package-level variables are read / written, which functions outside the package are
//     called.  Anything outside the explicit expectation stops the extraction (exit status 2): a new
//     read of Castles / EnPassant / the hash history, a method call on the board, the board escaping
//     to another package, or a write to any package-level variable (an evaluation cache).
//   - normalised-source fingerprints of the hand-modelled functions (auxiliary alarm).
package main

import (
	"fmt"
	"go/ast"
	"go/constant"
	"go/token"
	"go/types"
	"os"
	"path/filepath"
	"sort"
	"strconv"
	"strings"

	"verifextract/lib"
)

var pkg *lib.Pkg

// ---------------------------------------------------------------------------------------------
// shape of CoeffSet

type field struct {
	name string
	dims []int
}

func coeffShape() []field {
	obj := pkg.Types.Scope().Lookup("CoeffSet")
	if obj == nil {
		lib.Die("eval: type CoeffSet not found")
	}
	named, ok := obj.Type().(*types.Named)
	if !ok {
		lib.Die("eval: CoeffSet is not a named type")
	}
	if named.TypeParams().Len() != 1 {
		lib.Die("eval: CoeffSet must have exactly one type parameter")
	}
	tp := named.TypeParams().At(0)
	st, ok := named.Underlying().(*types.Struct)
	if !ok {
		lib.Die("eval: CoeffSet is not a struct")
	}
	var out []field
	for i := 0; i < st.NumFields(); i++ {
		f := st.Field(i)
		if f.Embedded() {
			lib.Die("eval: CoeffSet: embedded field %s unsupported", f.Name())
		}
		if !f.Exported() {
			// reflect's Field(i).Name / slices.Contains still see it, but Set would panic.
			lib.Die("eval: CoeffSet: unexported field %s unsupported", f.Name())
		}
		var dims []int
		t := f.Type()
		for {
			if a, ok := t.(*types.Array); ok {
				dims = append(dims, int(a.Len()))
				t = a.Elem()
				continue
			}
			break
		}
		p, ok := t.(*types.TypeParam)
		if !ok || p != tp {
			lib.Die("eval: CoeffSet.%s: element type %s is not the type parameter", f.Name(), t)
		}
		out = append(out, field{f.Name(), dims})
	}
	return out
}

// ---------------------------------------------------------------------------------------------
// values of Coefficients

func intOf(e ast.Expr, ctx string) string {
	tv, ok := pkg.Info.Types[e]
	if !ok || tv.Value == nil {
		lib.Die("eval: %s: non-constant element %s", ctx, pkg.Source(e))
	}
	v := constant.ToInt(tv.Value)
	if v.Kind() != constant.Int {
		lib.Die("eval: %s: non-integer element", ctx)
	}
	return v.ExactString()
}

// flat returns the row-major leaves of a (possibly shorter, zero padded as in Go) array literal.
func flat(e ast.Expr, dims []int, ctx string) []string {
	if len(dims) == 0 {
		if _, isLit := e.(*ast.CompositeLit); isLit {
			lib.Die("eval: %s: composite literal where a scalar is expected", ctx)
		}
		return []string{intOf(e, ctx)}
	}
	cl, ok := e.(*ast.CompositeLit)
	if !ok {
		lib.Die("eval: %s: expected an array literal, found %s", ctx, pkg.Source(e))
	}
	if len(cl.Elts) > dims[0] {
		lib.Die("eval: %s: %d elements in an array of %d", ctx, len(cl.Elts), dims[0])
	}
	sub := 1
	for _, d := range dims[1:] {
		sub *= d
	}
	var out []string
	for _, el := range cl.Elts {
		if _, keyed := el.(*ast.KeyValueExpr); keyed {
			lib.Die("eval: %s: keyed array element unsupported", ctx)
		}
		out = append(out, flat(el, dims[1:], ctx)...)
	}
	for i := len(cl.Elts); i < dims[0]; i++ { // Go zero-fills the rest
		for j := 0; j < sub; j++ {
			out = append(out, "0")
		}
	}
	return out
}

func coeffValues(shape []field) map[string][]string {
	e := pkg.VarDecl("Coefficients")
	cl, ok := e.(*ast.CompositeLit)
	if !ok {
		lib.Die("eval: Coefficients is not initialised by a composite literal")
	}
	tv := pkg.Info.Types[cl]
	if tv.Type == nil || !strings.HasSuffix(tv.Type.String(), "eval.CoeffSet[github.com/paulsonkoly/chess-3/chess.Score]") {
		lib.Die("eval: Coefficients has unexpected type %v", tv.Type)
	}
	dims := map[string][]int{}
	for _, f := range shape {
		dims[f.name] = f.dims
	}
	vals := map[string][]string{}
	for _, el := range cl.Elts {
		kv, ok := el.(*ast.KeyValueExpr)
		if !ok {
			lib.Die("eval: Coefficients: positional struct literal unsupported")
		}
		id, ok := kv.Key.(*ast.Ident)
		if !ok {
			lib.Die("eval: Coefficients: non-identifier key")
		}
		d, ok := dims[id.Name]
		if !ok {
			lib.Die("eval: Coefficients: unknown field %s", id.Name)
		}
		if _, dup := vals[id.Name]; dup {
			lib.Die("eval: Coefficients: duplicate field %s", id.Name)
		}
		vals[id.Name] = flat(kv.Value, d, "Coefficients."+id.Name)
	}
	for _, f := range shape { // omitted field = zero value
		if _, ok := vals[f.name]; !ok {
			n := 1
			for _, d := range f.dims {
				n *= d
			}
			z := make([]string, n)
			for i := range z {
				z[i] = "0"
			}
			vals[f.name] = z
		}
	}
	return vals
}

// ---------------------------------------------------------------------------------------------
// static dependency facts

type facts struct {
	boardRead, boardWritten map[string]bool
	varRead, varWritten     map[string]bool
	extCalls                map[string]bool
}

func isBoard(t types.Type) bool {
	if t == nil {
		return false
	}
	if p, ok := t.(*types.Pointer); ok {
		t = p.Elem()
	}
	n, ok := t.(*types.Named)
	return ok && n.Obj().Name() == "Board" && n.Obj().Pkg() != nil && strings.HasSuffix(n.Obj().Pkg().Path(), "/board")
}

func typeOf(e ast.Expr) types.Type {
	if tv, ok := pkg.Info.Types[e]; ok {
		return tv.Type
	}
	if id, ok := e.(*ast.Ident); ok {
		if o := pkg.Info.Uses[id]; o != nil {
			return o.Type()
		}
		if o := pkg.Info.Defs[id]; o != nil {
			return o.Type()
		}
	}
	return nil
}

// root strips index / selector / paren / star down to the base expression of an lvalue.
func lvalueParts(e ast.Expr) []ast.Expr {
	var parts []ast.Expr
	for {
		parts = append(parts, e)
		switch x := e.(type) {
		case *ast.IndexExpr:
			e = x.X
		case *ast.SelectorExpr:
			e = x.X
		case *ast.ParenExpr:
			e = x.X
		case *ast.StarExpr:
			e = x.X
		default:
			return parts
		}
	}
}

func isPkgLevelVar(o types.Object) bool {
	v, ok := o.(*types.Var)
	if !ok || v.IsField() || v.Pkg() == nil {
		return false
	}
	return v.Parent() == v.Pkg().Scope()
}

func qual(o types.Object) string {
	if o.Pkg() == pkg.Types {
		return o.Name()
	}
	return o.Pkg().Name() + "." + o.Name()
}

func analyse() facts {
	fc := facts{map[string]bool{}, map[string]bool{}, map[string]bool{}, map[string]bool{}, map[string]bool{}}
	for _, f := range pkg.Files {
		fname := filepath.Base(pkg.Fset.Position(f.Pos()).Filename)
		// package-level initialisers (Coefficients, sigm, …) are constant tables: checked by Table/flat.
		for _, d := range f.Decls {
			fd, ok := d.(*ast.FuncDecl)
			if !ok {
				continue
			}
			if fd.Name.Name == "init" {
				lib.Die("eval: %s: init function in package eval (hidden package state)", fname)
			}
			if fd.Body == nil {
				lib.Die("eval: %s: function %s without body", fname, fd.Name.Name)
			}
			analyseFunc(fd, &fc)
		}
	}
	return fc
}

func analyseFunc(fd *ast.FuncDecl, fc *facts) {
	where := fd.Name.Name
	written := map[ast.Expr]bool{} // lvalue sub-expressions that are written
	markWrite := func(lhs ast.Expr) {
		for _, p := range lvalueParts(lhs) {
			written[p] = true
		}
	}
	boardUseOK := map[*ast.Ident]bool{} // board identifiers in an accepted context
	ast.Inspect(fd.Body, func(n ast.Node) bool {
		switch x := n.(type) {
		case *ast.GoStmt:
			lib.Die("eval: %s: go statement", where)
		case *ast.AssignStmt:
			if x.Tok != token.DEFINE {
				for _, l := range x.Lhs {
					markWrite(l)
				}
			}
		case *ast.IncDecStmt:
			markWrite(x.X)
		case *ast.UnaryExpr:
			if x.Op == token.AND {
				// taking an address could hide a write: only allowed on composite literals
				if _, ok := x.X.(*ast.CompositeLit); !ok {
					for _, p := range lvalueParts(x.X) {
						if id, ok := p.(*ast.Ident); ok {
							if o := pkg.Info.Uses[id]; o != nil && (isPkgLevelVar(o) || isBoard(o.Type())) {
								lib.Die("eval: %s: address of %s taken", where, id.Name)
							}
						}
					}
				}
			}
		case *ast.RangeStmt:
			if x.Tok == token.ASSIGN {
				if x.Key != nil {
					markWrite(x.Key)
				}
				if x.Value != nil {
					markWrite(x.Value)
				}
			}
		}
		return true
	})
	ast.Inspect(fd.Body, func(n ast.Node) bool {
		switch x := n.(type) {
		case *ast.SelectorExpr:
			if isBoard(typeOf(x.X)) {
				sel := pkg.Info.Uses[x.Sel]
				v, isVar := sel.(*types.Var)
				if !isVar || !v.IsField() {
					lib.Die("eval: %s: method or non-field selector %s on the board", where, x.Sel.Name)
				}
				if id, ok := x.X.(*ast.Ident); ok {
					boardUseOK[id] = true
				}
				if written[x] {
					fc.boardWritten[x.Sel.Name] = true
				} else {
					fc.boardRead[x.Sel.Name] = true
				}
			}
		case *ast.CallExpr:
			// who is called?
			var callee types.Object
			switch fn := x.Fun.(type) {
			case *ast.Ident:
				callee = pkg.Info.Uses[fn]
			case *ast.SelectorExpr:
				callee = pkg.Info.Uses[fn.Sel]
			case *ast.IndexExpr: // explicit instantiation f[T](…)
				if id, ok := fn.X.(*ast.Ident); ok {
					callee = pkg.Info.Uses[id]
				}
			}
			samePkg := false
			switch c := callee.(type) {
			case *types.Func:
				if c.Pkg() == pkg.Types {
					samePkg = true
				} else if c.Pkg() != nil {
					name := c.Pkg().Name() + "." + c.Name()
					if sig, ok := c.Type().(*types.Signature); ok && sig.Recv() != nil {
						rt := sig.Recv().Type()
						if p, ok := rt.(*types.Pointer); ok {
							rt = p.Elem()
						}
						if nt, ok := rt.(*types.Named); ok {
							name = c.Pkg().Name() + "." + nt.Obj().Name() + "." + c.Name()
						}
					}
					fc.extCalls[name] = true
				}
			case *types.Builtin, *types.TypeName, nil:
				// builtin (min, max, len), conversion, or a conversion through a type expression
			case *types.Var:
				lib.Die("eval: %s: call through a function value %s", where, c.Name())
			}
			// the board may be handed on only to functions of package eval itself
			for _, a := range x.Args {
				if id, ok := a.(*ast.Ident); ok && isBoard(typeOf(id)) {
					if !samePkg {
						lib.Die("eval: %s: the board escapes to %s", where, pkg.Source(x.Fun))
					}
					boardUseOK[id] = true
				}
			}
		case *ast.Ident:
			o := pkg.Info.Uses[x]
			if o == nil {
				return true
			}
			if isPkgLevelVar(o) {
				if written[x] {
					fc.varWritten[qual(o)] = true
				} else {
					fc.varRead[qual(o)] = true
				}
			}
		}
		return true
	})
	// every other mention of a board-typed identifier is an unexpected use
	ast.Inspect(fd.Body, func(n ast.Node) bool {
		if id, ok := n.(*ast.Ident); ok {
			if o := pkg.Info.Uses[id]; o != nil {
				if _, isVar := o.(*types.Var); isVar && isBoard(o.Type()) && !boardUseOK[id] {
					lib.Die("eval: %s: unexpected use of the board value %s at %s", where, id.Name, pkg.Fset.Position(id.Pos()))
				}
			}
		}
		return true
	})
}

func keys(m map[string]bool) []string {
	out := make([]string, 0, len(m))
	for k := range m {
		out = append(out, k)
	}
	sort.Strings(out)
	return out
}

func leanStrings(xs []string) string {
	q := make([]string, len(xs))
	for i, x := range xs {
		q[i] = strconv.Quote(x)
	}
	return "[" + strings.Join(q, ", ") + "]"
}

func expect(what string, got []string, allowed ...string) {
	ok := map[string]bool{}
	for _, a := range allowed {
		ok[a] = true
	}
	for _, g := range got {
		if !ok[g] {
			lib.Die("eval: %s: %q is outside the expectation %v", what, g, allowed)
		}
	}
}

func leanInts(xs []string) string {
	q := make([]string, len(xs))
	for i, x := range xs {
		if strings.HasPrefix(x, "-") {
			q[i] = "(" + x + ")"
		} else {
			q[i] = x
		}
	}
	return "[" + strings.Join(q, ", ") + "]"
}

// defaultTargets reads `var DefaultTargets = []string{"…", …}` (AST only: the tuner module is not
// type-checkable offline).
func defaultTargets(tun *lib.Pkg) []string {
	e := tun.VarDecl("DefaultTargets")
	cl, ok := e.(*ast.CompositeLit)
	if !ok {
		lib.Die("eval: tuning.DefaultTargets is not a composite literal")
	}
	at, ok := cl.Type.(*ast.ArrayType)
	if !ok || at.Len != nil {
		lib.Die("eval: tuning.DefaultTargets is not a slice literal")
	}
	if id, ok := at.Elt.(*ast.Ident); !ok || id.Name != "string" {
		lib.Die("eval: tuning.DefaultTargets is not a []string")
	}
	var out []string
	for _, el := range cl.Elts {
		bl, ok := el.(*ast.BasicLit)
		if !ok || bl.Kind != token.STRING {
			lib.Die("eval: tuning.DefaultTargets: non-literal element")
		}
		s, err := strconv.Unquote(bl.Value)
		if err != nil {
			lib.Die("eval: tuning.DefaultTargets: %v", err)
		}
		out = append(out, s)
	}
	return out
}

func main() {
	repo := "."
	if len(os.Args) > 1 {
		repo = os.Args[1]
	}
	pkg = lib.Load(filepath.Join(repo, "eval"))
	if pkg.Types == nil || pkg.Err != nil {
		lib.Die("eval: package eval not type-checked: %v", pkg.Err)
	}
	shape := coeffShape()
	vals := coeffValues(shape)
	fc := analyse()

	// the explicit expectations (DESIGN §5 C17 M)
	expect("board fields read by package eval", keys(fc.boardRead), "Pieces", "Colors", "STM", "FiftyCnt", "SquaresToPiece")
	expect("board fields written by package eval", keys(fc.boardWritten))
	expect("package-level variables written by package eval", keys(fc.varWritten))
	expect("package-level variables read by package eval", keys(fc.varRead), "Phase", "KBCorners", "sideOfBoard", "sigm")
	expect("functions outside package eval called by it", keys(fc.extCalls),
		"attacks.KingMoves", "attacks.KnightMoves", "attacks.BishopMoves", "attacks.RookMoves", "attacks.PawnCaptureMoves",
		"chess.Abs", "chess.Clamp", "math.Exp",
		"chess.BitBoard.LowestSet", "chess.BitBoard.Count", "chess.BitBoard.IsPow2",
		"chess.Square.File", "chess.Square.Rank", "chess.Color.Flip")

	tun := lib.Load(filepath.Join(repo, "tools/tuner/tuning"))
	targets := defaultTargets(tun)
	known := map[string]bool{}
	for _, f := range shape {
		known[f.name] = true
	}
	for _, t := range targets {
		if !known[t] {
			// legal Go (slices.Contains just never matches) but certainly not intended: flag it in the Gen
			// file rather than stopping; the model treats it exactly as the reflection code does.
			fmt.Fprintf(os.Stderr, "extract: eval: warning: DefaultTargets names %q which is not a CoeffSet field\n", t)
		}
	}

	var b strings.Builder
	w := func(f string, a ...any) { fmt.Fprintf(&b, f, a...) }
	w("/-\n  GENERATED by /verif/extract/cmd/eval from /repo/eval and /repo/tools/tuner/tuning — do not edit.\n")
	w("  Facts the C17 / C19 models (Model/Eval.lean, Model/TunerVector.lean) and theorems depend on.\n-/\n")
	w("namespace ChessVerif.Gen.Eval\n\n")
	w("/-- Shape of `eval.CoeffSet[T]`: field name and nested array dimensions, in declaration order. -/\n")
	w("def shape : List (String × List Nat) := [\n")
	for i, f := range shape {
		ds := make([]string, len(f.dims))
		for j, d := range f.dims {
			ds[j] = strconv.Itoa(d)
		}
		sep := ","
		if i == len(shape)-1 {
			sep = ""
		}
		w("  (%q, [%s])%s\n", f.name, strings.Join(ds, ", "), sep)
	}
	w("]\n\n")
	w("/-- `eval.Coefficients`: every field's leaves in row-major order (exact integers). -/\n")
	for _, f := range shape {
		w("def coeff_%s : List Int := %s\n", f.name, leanInts(vals[f.name]))
	}
	w("\n/-- All fields of `eval.Coefficients` by name, in declaration order. -/\n")
	w("def coefficients : List (String × List Int) := [\n")
	for i, f := range shape {
		sep := ","
		if i == len(shape)-1 {
			sep = ""
		}
		w("  (%q, coeff_%s)%s\n", f.name, f.name, sep)
	}
	w("]\n\n")
	w("/-- `eval.sigm` (the integer king-attack sigmoid table). -/\ndef sigm : List Int := %s\n\n", pkg.Table("sigm").Lean())
	w("/-- `eval.Phase`. -/\ndef phase : List Int := %s\n", pkg.Table("Phase").Lean())
	w("/-- `eval.MaxPhase`. -/\ndef maxPhase : Int := %s\n", pkg.ConstInt("MaxPhase"))
	w("/-- `eval.KBCorners`. -/\ndef kbCorners : List (List Nat) := %s\n", pkg.Table("KBCorners").Lean())
	w("/-- `eval.sideOfBoard`. -/\ndef sideOfBoard : List Nat := %s\n\n", pkg.Table("sideOfBoard").Lean())
	w("/-- `tuning.DefaultTargets`. -/\ndef defaultTargets : List String := %s\n\n", leanStrings(targets))
	w("/-- Fields of `board.Board` that the functions of package eval read (selector expressions on a\n")
	w("    value of type `board.Board` / `*board.Board`; method calls on it, or handing it to another\n")
	w("    package, stop the extraction). -/\n")
	w("def boardFieldsRead : List String := %s\n", leanStrings(keys(fc.boardRead)))
	w("/-- Fields of the board that package eval assigns to. -/\ndef boardFieldsWritten : List String := %s\n", leanStrings(keys(fc.boardWritten)))
	w("/-- Package-level variables (of any package) read inside function bodies of package eval. -/\n")
	w("def pkgVarsRead : List String := %s\n", leanStrings(keys(fc.varRead)))
	w("/-- Package-level variables written inside function bodies of package eval. -/\n")
	w("def pkgVarsWritten : List String := %s\n", leanStrings(keys(fc.varWritten)))
	w("/-- Functions and methods outside package eval that it calls. -/\n")
	w("def externalCalls : List String := %s\n\n", leanStrings(keys(fc.extCalls)))
	w("/-- Normalised-source fingerprints of the hand-modelled functions (auxiliary alarm only). -/\n")
	w("def fingerprints : List (String × String) := [\n")
	names := pkg.FuncNames()
	for i, n := range names {
		sep := ","
		if i == len(names)-1 {
			sep = ""
		}
		w("  (%q, %q)%s\n", "eval."+n, pkg.Fingerprint(n), sep)
	}
	w("]\n\n")
	w("/-- Fingerprints of the reflection walkers of tools/tuner/tuning/vector.go. -/\n")
	w("def tunerFingerprints : List (String × String) := [\n")
	tnames := []string{"EngineRep.Eval", "EngineCoeffs", "convert", "EngineRep.ToVector", "getFieldFloats",
		"EngineRep.SetVector", "setFieldFloats", "EngineRep.TunedParams", "yieldFields"}
	for i, n := range tnames {
		sep := ","
		if i == len(tnames)-1 {
			sep = ""
		}
		w("  (%q, %q)%s\n", "tuning."+n, tun.Fingerprint(n), sep)
	}
	w("]\n\nend ChessVerif.Gen.Eval\n")
	fmt.Print(b.String())
}
