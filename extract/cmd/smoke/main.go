package main

import (
	"fmt"
	"verifextract/lib"
)

func main() {
	p := lib.Load("/repo/attacks")
	fmt.Println(p.Err, len(p.Table("kingMoves").Flat()), p.Table("bishopShifts").Flat()[:4], p.Fingerprint("BishopMoves"))
	u := lib.Load("/repo/uci")
	fmt.Println(u.Err, u.ConstInt("TimeSafetyMargin"), u.ConstInt("TimeInf"))
	h := lib.Load("/repo/heur")
	fmt.Println(h.Err, h.ConstInt("HashMove"), h.Table("PieceValues").Lean())
	pr := lib.Load("/repo/params")
	fmt.Println(pr.Err, pr.ConstInt("WindowSize"), len(pr.Files))
}
