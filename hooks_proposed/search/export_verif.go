//go:build verif

package search

import (
	"fmt"
	"hash/fnv"
)

// Verification hooks, compiled only with -tags verif.

// VerifDigest is a digest of the persistent state of s: every bucket of the
// transposition table, the move ranker's stores and the generation counter.
// The per-search fields (move store, history stack, PV buffer, abort flag) are
// reset or overwritten by the next Go and are deliberately left out.
func (s *Search) VerifDigest() string {
	h := fnv.New64a()
	n := s.tt.VerifBuckets()
	buf := make([]byte, 0, 32)
	for i := 0; i < n; i++ {
		pKeys, entries := s.tt.VerifBucket(i)
		buf = buf[:0]
		for k := 0; k < 8; k++ {
			buf = append(buf, byte(pKeys>>(8*k)))
		}
		for _, e := range entries {
			buf = append(buf, byte(e.Move), byte(e.Move>>8), byte(e.Value), byte(uint16(e.Value)>>8), e.Packed, byte(e.Gen))
		}
		h.Write(buf)
	}
	s.ranker.VerifDigest(h)
	return fmt.Sprintf("%016x/gen%d/buckets%d", h.Sum64(), s.gen, n)
}
