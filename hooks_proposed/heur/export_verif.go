//go:build verif

package heur

import (
	"hash"

	. "github.com/paulsonkoly/chess-3/chess"
)

// Verification hooks, compiled only with -tags verif.

// VerifDigest feeds every entry of the ranker's stores (history, capture
// history, both continuation tables) into h, in a fixed order.
func (mr *MoveRanker) VerifDigest(h hash.Hash64) {
	buf := make([]byte, 0, 1<<16)
	put := func(s Score) {
		buf = append(buf, byte(s), byte(uint16(s)>>8))
		if len(buf) >= 1<<16-2 {
			h.Write(buf)
			buf = buf[:0]
		}
	}
	for c := range mr.history.data {
		for f := range mr.history.data[c] {
			for _, v := range mr.history.data[c][f] {
				put(v)
			}
		}
	}
	for a := range mr.captHist.data {
		for b := range mr.captHist.data[a] {
			for _, v := range mr.captHist.data[a][b] {
				put(v)
			}
		}
	}
	for _, ct := range mr.continuations {
		for c := range ct.data {
			for p := range ct.data[c] {
				for s := range ct.data[c][p] {
					for q := range ct.data[c][p][s] {
						for _, v := range ct.data[c][p][s][q] {
							put(v)
						}
					}
				}
			}
		}
	}
	h.Write(buf)
}
