import ChessVerif.Basic
