/-
  Line-protocol driver for the search-side models that are executable on their own: the PV buffer
  (Model/Pv.lean).  One request line in, exactly one answer line out.  Core-only.

    bufix <ply>            → the Go expression `bufIx(ply)` evaluated by the model
    pv <op> <op> …         → runs the script on the flat buffer AND on the list-of-rows model from
                             `newPV()`; ops: `n<ply>` = setNull(ply), `i<ply>:<move>` = insert(ply, move);
                             answer: `<flat active> | <rows active> | <inv>` (moves comma separated,
                             inv = 1 when every row length fits its room)
-/
import ChessVerif.Model.Pv

open ChessVerif Pv

def movesStr (ms : List Move) : String := String.intercalate "," (ms.map toString)

def invOk (pv : Flat) : Bool :=
  pv.moves.size == bufLen && pv.depth.size == maxPlies &&
    (List.range maxPlies).all fun p => decide (0 ≤ pv.len p) && decide (pv.len p + p ≤ maxPlies)

def tailStr (s : String) : String := String.ofList (s.toList.drop 1)

def runOp (st : Flat × Rows) (op : String) : Option (Flat × Rows) :=
  if op.startsWith "n" then
    match (tailStr op).toNat? with
    | some p => if p < maxPlies then some (st.1.setNull p, st.2.setNull p) else none
    | none => none
  else if op.startsWith "i" then
    match (tailStr op).splitOn ":" with
    | [ps, ms] =>
      match ps.toNat?, ms.toNat? with
      | some p, some m => if p + 1 < maxPlies then some (st.1.insert p m, st.2.insert p m) else none
      | _, _ => none
    | _ => none
  else none

def step (line : String) : String :=
  match line.splitOn " " with
  | ["bufix", p] =>
    match p.toInt? with
    | some v => toString (bufIx v)
    | none => "bad-op"
  | "pv" :: ops =>
    let r := ops.foldl (fun acc op => acc.bind fun st => runOp st op) (some (Flat.new, Rows.new))
    match r with
    | some (f, r) => s!"{movesStr f.active} | {movesStr r.active} | {if invOk f then 1 else 0}"
    | none => "bad-op"
  | _ => "bad-op"

partial def loop (h out : IO.FS.Stream) : IO Unit := do
  let line ← h.getLine
  if line.isEmpty then return ()
  out.putStrLn (step (line.dropRightWhile (fun c => c == '\n' || c == '\r')))
  out.flush
  loop h out

def main : IO Unit := do loop (← IO.getStdin) (← IO.getStdout)
