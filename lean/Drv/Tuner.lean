/-
  Line-protocol driver of the tuner model (C20).  One request line → exactly one answer line.

    feistel x seed bits          → y
    shuf x n seed                → y | none            (none = iteration budget exhausted)
    img n seed                   → h <fnv64 of the image shuffleIndex(0..n-1)>
    fimg bits seed               → h <fnv64 of the image feistel(0..2^bits-1)>
    imgl n seed                  → y0 y1 … y(n-1)
    batches n                    → s-e s-e …           (tuning.Batches, real constants)
    chunks s e                   → s-e s-e …           (tuning.Chunks of batch [s,e))
    bc B C n                     → batches/chunks for arbitrary constants: s-e:s-e,s-e;…
    file <path>                  → ok <lines> <fnv64 of manifest> | err   (loads file, NewChunker)
    manifest                     → s:e s:e …
    open epoch start end buflen full|hash
                                 → invalid | panic <k> | ok <lines> <trace>   (Open + Read to EOF)
    epoch epoch buflen           → fail | ok <lines> <fnv64 of all delivered lines in order>
-/
import ChessVerif.Model.Tuner
open ChessVerif ChessVerif.Tuner

def fnvInit : UInt64 := 0xcbf29ce484222325
@[inline] def fnvByte (h : UInt64) (b : UInt8) : UInt64 := (h ^^^ b.toUInt64) * 0x100000001b3
def fnvNat (h : UInt64) (n : Nat) : UInt64 := Id.run do
  let mut h := h
  let v := n.toUInt64
  for i in [0:8] do
    h := fnvByte h ((v >>> (8 * i).toUInt64) &&& 0xff).toUInt8
  return h
def fnvLine (h : UInt64) (l : List UInt8) : UInt64 := fnvByte (l.foldl fnvByte h) 10

def hex2 (b : UInt8) : String :=
  let d := fun (n : Nat) => Char.ofNat (if n < 10 then 48 + n else 87 + n)
  String.ofList [d (b.toNat / 16), d (b.toNat % 16)]
def hexLine (l : List UInt8) : String := String.join (l.map hex2)

def rangesStr (rs : List Range) : String := " ".intercalate (rs.map fun r => s!"{r.start}-{r.stop}")

structure St where
  file : File := ⟨0, fun _ => 0⟩
  manifest : Option (Array LineAddr) := none

def doOpen (st : St) (epoch start stop : Int) (bufLen : Nat) (full : Bool) : String :=
  match st.manifest with
  | none => "nofile"
  | some m =>
    match openChunk m epoch start stop with
    | none => "invalid"
    | some c => Id.run do
      let mut c := c
      let mut h := fnvInit
      let mut out : Array String := #[]
      let mut k := 0
      let mut res := ""
      for _ in [0:c.chunkLines.size + 2] do
        if res != "" then break
        let (r, c') := c.read st.file bufLen
        c := c'
        match r with
        | .eof => res := "ok"
        | .panic => res := "panic"
        | .line l =>
          k := k + 1
          h := fnvLine (fnvNat (fnvNat h c.mapStart) c.mapEnd) l
          if full then out := out.push s!"{c.mapStart}:{c.mapEnd}:{hexLine l}"
      if res == "panic" then return s!"panic {k}"
      if full then return s!"ok {k} " ++ ",".intercalate out.toList
      return s!"ok {k} {h.toNat}"

/-- A whole epoch without materialising the delivered lines (for files with ≥ 50 000 lines): the same
    model functions (`batches`, `chunks`, `openChunk`, `Chunk.read`) driven in the order of `epochLines`. -/
def epochStream (st : St) (m : Array LineAddr) (epoch : Int) (bufLen : Nat) : String := Id.run do
  let mut h := fnvInit
  let mut cnt := 0
  for r in (batches m.size).flatMap chunks do
    match openChunk m epoch r.start r.stop with
    | none => return "fail"
    | some c0 =>
      let mut c := c0
      let mut fin := false
      for _ in [0:c0.chunkLines.size + 1] do
        if fin then break
        let (res, c') := c.read st.file bufLen
        c := c'
        match res with
        | .eof => fin := true
        | .panic => return "fail"
        | .line l =>
          h := fnvLine h l
          cnt := cnt + 1
  return s!"ok {cnt} {h.toNat}"

def answer (st : St) (w : List String) : IO (St × String) := do
  match w with
  | ["feistel", x, seed, bits] =>
    return (st, toString (feistel x.toNat! seed.toNat! bits.toNat!))
  | ["shuf", x, n, seed] =>
    let n := n.toNat!
    return (st, match shuffleIndexFuel (shuffleFuel n) x.toNat! n seed.toNat! with
      | some y => toString y | none => "none")
  | ["img", n, seed] =>
    let n := n.toNat!; let seed := seed.toNat!
    let h := (List.range n).foldl (fun h x => fnvNat h (shuffleIndex x n seed)) fnvInit
    return (st, s!"h {h.toNat}")
  | ["fimg", bits, seed] =>
    let bits := bits.toNat!; let seed := seed.toNat!
    let h := (List.range (2 ^ bits)).foldl (fun h x => fnvNat h (feistel x seed bits)) fnvInit
    return (st, s!"h {h.toNat}")
  | ["imgl", n, seed] =>
    let n := n.toNat!; let seed := seed.toNat!
    return (st, " ".intercalate ((List.range n).map fun x => toString (shuffleIndex x n seed)))
  | ["batches", n] => return (st, rangesStr (batches n.toNat!))
  | ["chunks", s, e] => return (st, rangesStr (chunks ⟨s.toNat!, e.toNat!⟩))
  | ["bc", b, c, n] =>
    let b := b.toNat!; let c := c.toNat!
    let bs := batchesWith b n.toNat!
    return (st, ";".intercalate (bs.map fun r =>
      s!"{r.start}-{r.stop}:" ++ ",".intercalate ((chunksWith b c r).map fun q => s!"{q.start}-{q.stop}")))
  | ["file", path] =>
    let bytes ← IO.FS.readBinFile path
    let f := File.ofByteArray bytes
    match newChunker f with
    | none => return ({ file := f, manifest := none }, "err")
    | some m =>
      let h := m.foldl (fun h a => fnvNat (fnvNat h a.start) a.stop) fnvInit
      return ({ file := f, manifest := some m }, s!"ok {m.size} {h.toNat}")
  | ["manifest"] =>
    match st.manifest with
    | none => return (st, "nofile")
    | some m => return (st, " ".intercalate (m.toList.map fun a => s!"{a.start}:{a.stop}"))
  | ["open", epoch, start, stop, bufLen, mode] =>
    return (st, doOpen st epoch.toInt! start.toInt! stop.toInt! bufLen.toNat! (mode == "full"))
  | ["epoch", epoch, bufLen] =>
    match st.manifest with
    | none => return (st, "nofile")
    | some m =>
      if m.size ≥ 50000 then return (st, epochStream st m epoch.toInt! bufLen.toNat!) else
      match epochLines st.file bufLen.toNat! m epoch.toInt! with
      | none => return (st, "fail")
      | some ls => return (st, s!"ok {ls.length} {(ls.foldl fnvLine fnvInit).toNat}")
  | _ => return (st, "bad-request")

partial def loop (h : IO.FS.Stream) (out : IO.FS.Stream) (st : St) : IO Unit := do
  let line ← h.getLine
  if line.isEmpty then return ()
  let w := (line.trimAscii.toString.splitOn " ").filter (· ≠ "")
  let (st, a) ← try answer st w catch e => pure (st, s!"ioerr {e}")
  out.putStrLn a
  out.flush
  loop h out st

def main : IO Unit := do loop (← IO.getStdin) (← IO.getStdout) {}
