/-
  Line-protocol driver of the board-level models (board, movegen, mate tests, FEN, rules spec).
  One request line in, exactly one answer line out.  Core-only.
-/
import ChessVerif.Model.Board
import ChessVerif.Model.MoveGen
import ChessVerif.Model.Mate
import ChessVerif.Model.Fen
import ChessVerif.Model.Abs
import ChessVerif.Spec.Rules

open ChessVerif

structure DS where
  keysArr : Array BB := #[]
  board : Board := Board.empty
  tokens : List Board.Reverse := []
  /-- rule-book positions of the game so far (head = current) with their legal en-passant captures,
      reset on `fen`, pushed on `mk`, popped on `um` (used by the repetition spec). -/
  hist : List (Rules.Pos × List Rules.Mv) := []

def hexVal (c : Char) : Nat :=
  if '0' ≤ c ∧ c ≤ '9' then c.toNat - 48
  else if 'a' ≤ c ∧ c ≤ 'f' then c.toNat - 87
  else if 'A' ≤ c ∧ c ≤ 'F' then c.toNat - 55 else 0

def parseHex (s : String) : Nat := s.foldl (fun acc c => acc * 16 + hexVal c) 0

def mkKeys (a : Array BB) : Keys :=
  { piece := fun c p s => a.getD (c * 448 + p * 64 + s) 0,
    stm := a.getD 896 0,
    castling := fun i => a.getD (897 + i) 0,
    epFile := fun i => a.getD (901 + i) 0 }

def hx (b : BB) : String := (Nat.toDigits 16 b.toNat).asString

def dump (b : Board) : String :=
  let sq := String.join ((List.range 64).map fun s => toString (b.pieceAt s).toNat)
  let ps := String.intercalate "," ((List.range 7).map fun i => hx (b.pieces.getD i 0))
  let cs := String.intercalate "," ((List.range 2).map fun i => hx (b.colors.getD i 0))
  let hs := String.intercalate "," (b.hashes.reverse.map hx)
  s!"{sq} {ps} {cs} {b.stm.toNat} {b.ep} {b.castles.toNat} {b.fifty} {b.fullMoves} [{hs}]"

def tokenStr (r : Board.Reverse) : String :=
  s!"{Board.Reverse.fiftyCnt r} {(Board.Reverse.castlingChange r).toNat} {Board.Reverse.enPassantChange r} {(Board.Reverse.capture r).toNat}"

def movesStr (ms : List Move) : String := String.intercalate "," (ms.map toString)

def sortNat (l : List Nat) : List Nat := (l.toArray.qsort (· < ·)).toList

/-- the acceptance bitmap of `isPseudoLegal` over all 32768 encodings, as 8192 hex digits
    (digit k covers encodings 4k..4k+3, bit j of the digit = encoding 4k+j). -/
def iplBitmap (b : Board) : String :=
  let own := b.colorBB b.stm
  String.ofList ((List.range 8192).map fun k =>
    let base := 4 * k
    -- cheap pre-filter that does not change the answer: `from` must carry an own piece
    if !(own.getLsbD ((base / 64) % 64)) then '0' else
    let v := (List.range 4).foldl (fun acc j => if b.isPseudoLegal (base + j) then acc + 2 ^ j else acc) 0
    (Nat.toDigits 16 v).headD '0')

def specMoves (b : Board) : List Nat := sortNat ((Rules.legalMoves b.abs).map encodeMove)

def posStr (p : Rules.Pos) : String :=
  let men := String.ofList ((List.range 64).map fun s =>
    match p.at_ s with
    | some (c, k) => Fen.pieceChar c k
    | none => '.')
  let r := p.rights
  let rs := (if r.wk then "K" else "") ++ (if r.wq then "Q" else "") ++ (if r.bk then "k" else "") ++ (if r.bq then "q" else "")
  let ep := match p.ep with | some t => toString t | none => "-"
  s!"{men} {p.turn.toNat} [{rs}] {ep} {p.halfmove} {p.fullmove}"

def bstr (x : Bool) : String := if x then "1" else "0"

def histEntry (b : Board) : Rules.Pos × List Rules.Mv := (b.abs, Rules.legalEpCaptures b.abs)

/-- art. 9.2.2 count of the current position in the game history, capped at 3. -/
def specRepetitions (h : List (Rules.Pos × List Rules.Mv)) : Nat :=
  match h with
  | [] => 0
  | (p, caps) :: _ =>
    min 3 (h.filter fun (q, qc) => q.men == p.men && q.turn == p.turn && q.rights == p.rights && qc == caps).length

def hexBytes (s : String) : Array UInt8 :=
  let cs := s.toList.toArray
  (Array.range (cs.size / 2)).map fun i => UInt8.ofNat (hexVal cs[2*i]! * 16 + hexVal cs[2*i+1]!)

def loadFen (st : DS) (K : Keys) (bytes : Array UInt8) : DS × String :=
  match Fen.fromFEN K bytes with
  | .ok nb => ({ st with board := nb, tokens := [], hist := [histEntry nb] }, "ok " ++ dump nb)
  | .err => (st, "err")
  | .panic => (st, "panic")

def step (st : DS) (line : String) : DS × String :=
  let K := mkKeys st.keysArr
  let b := st.board
  match line.splitOn " " with
  | "keys" :: rest => ({ st with keysArr := (rest.map fun s => BitVec.ofNat 64 (parseHex s)).toArray }, "ok")
  | "fen" :: rest => loadFen st K (String.intercalate " " rest).toUTF8.data
  | ["fenhex", h] => loadFen st K (hexBytes h)
  | ["fenhex"] => loadFen st K #[]
  | ["rep"] => (st, toString (specRepetitions st.hist))
  | ["dump"] => (st, dump b)
  | ["mk", m] =>
    let (nb, r) := b.makeMove K m.toNat!
    ({ st with board := nb, tokens := r :: st.tokens, hist := histEntry nb :: st.hist }, dump nb ++ " | " ++ tokenStr r)
  | ["mkq", m] =>   -- make without maintaining the rule-book history (fast path for walks)
    let (nb, r) := b.makeMove K m.toNat!
    ({ st with board := nb, tokens := r :: st.tokens, hist := [] }, dump nb ++ " | " ++ tokenStr r)
  | ["um", m] =>
    match st.tokens with
    | r :: rest => let nb := b.undoMove m.toNat! r; ({ st with board := nb, tokens := rest, hist := st.hist.drop 1 }, dump nb)
    | [] => (st, "bad-op")
  | ["nm"] =>
    let (nb, r) := b.makeNull K
    ({ st with board := nb, tokens := r :: st.tokens }, dump nb ++ " | " ++ tokenStr r)
  | ["unm"] =>
    match st.tokens with
    | r :: rest => let nb := b.undoNull r; ({ st with board := nb, tokens := rest }, dump nb)
    | [] => (st, "bad-op")
  | ["rh"] =>   -- ResetHash() on the current board: the history is cut to the recomputed current hash (no undo below this point)
    let nb := b.resetHash K
    ({ st with board := nb, tokens := [], hist := [histEntry nb] }, dump nb)
  | ["gen"] => (st, movesStr (MoveGen.genNoisy b) ++ "|" ++ movesStr (MoveGen.genNotNoisy b))
  | ["ipl"] => (st, iplBitmap b)
  | ["ipl1", m] => (st, bstr (b.isPseudoLegal m.toNat!))
  | ["legal"] => (st, movesStr (sortNat (MoveGen.playable K b)))
  | ["spec"] => (st, movesStr (specMoves b))
  | ["valid"] => (st, bstr b.valid ++ bstr (Rules.epNormal b.abs) ++ bstr (Rules.epSound b.abs))
  | ["wf"] => (st, bstr b.wf)
  | ["state"] => (st, s!"{bstr (b.inCheck b.stm)}{bstr b.isCheckmate}{bstr b.isStalemate}{bstr (Rules.inCheck b.abs b.stm)}{bstr (Rules.isCheckmate b.abs)}{bstr (Rules.isStalemate b.abs)}")
  | ["three"] => (st, toString b.threefold)
  | "threeh" :: hs =>   -- Threefold() of a board whose hash history is the given list (LAST = current), hex words
    let l : List BB := hs.map fun h => BitVec.ofNat 64 (parseHex h)
    (st, toString ({ Board.empty with hashes := l.reverse } : Board).threefold)
  | ["fenout"] => (st, Fen.printFEN b)
  | ["calc"] => (st, hx (b.calcHash K))
  | ["ipc"] => (st, bstr b.invalidPieceCount)
  | ["abs"] => (st, posStr b.abs)
  | ["specapply", m] => (st, posStr (Rules.apply b.abs (decodeMove m.toNat!)))
  | ["specafter", m] =>   -- the FIDE-legal moves of the rule-book successor Rules.apply (abs b) m
    (st, movesStr (sortNat ((Rules.legalMoves (Rules.apply b.abs (decodeMove m.toNat!))).map encodeMove)))
  | ["speclegal", m] => (st, bstr (Rules.legal b.abs (decodeMove m.toNat!)))
  | ["perft", d] => (st, toString (MoveGen.perft K b d.toNat!))
  | _ => (st, "bad-op")

partial def loop (h out : IO.FS.Stream) (st : DS) : IO Unit := do
  let line ← h.getLine
  if line.isEmpty then return ()
  let (st', ans) := step st (line.dropRightWhile (fun c => c == '\n' || c == '\r'))
  out.putStrLn ans
  out.flush
  loop h out st'

def main : IO Unit := do loop (← IO.getStdin) (← IO.getStdout) {}
