/-
  Line-protocol driver of the search skeleton instantiated with the real component models
  (`SearchReal.realComp`, Model/SearchReal.lean).  One request line in, exactly one answer line out; the
  engine (transposition table, histories, generation, PV buffer, abort flag) persists across lines,
  so multi-search histories on ONE `search.Search` object can be replayed.  Core-only.

    keys <905 hex words>        the real Zobrist tables (implutil.KeysLine)                       → ok
    new <buckets>               `search.New(32*buckets)`                                          → ok
    clear                       `(*Search).Clear()`                                               → ok
    digest                      → the digest of the persistent state (see below)
    go <fen: 6 fields> | moves <m1 m2 …: 16-bit move words, decimal> | depth D nodes N softnodes M stop K|- out 0|1 ponder P|-
                                `board.FromFEN(fen)`, `MakeMove` for every move (so the hash history of the
                                game is there), then `Go(b, WithDepth(D), WithNodes(N), WithSoftNodes(M),
                                WithStop(ch)?, WithOutput(w|nil), WithCounters(&c))`.
                                N = -1: no hard budget.  `stop K`: the stop signal is visible to the K-th
                                poll of the channel (K = 0: closed before the start); `stop -`: no channel.
                                `ponder P`: `WithPonderHit(ch)`, the message is received by the P-th non-blocking
                                poll of ch (one poll after every completed iteration); `ponder -`: no channel.
        → `<score> <move> <ponder> <Counters.Nodes> <Counters.ABNodes> <fuelOut> <anomaly> | <info>;<info>;… | <digest>`
          info = `<depth>:<1 = completed iteration, 0 = abort notice>:<score>:<nodes>:<hashfull>:<pv moves, comma separated>`
          (`-` when there is no line), `<fuelOut>` (0/1) and `<anomaly>` (bit 0 = `St.anomaly`, bit 1 = `St.nmpOut`, bit 2 = a raw table value beyond ±Inf,
          bit 3 = `St.ttOut`: a value that is not ply-consistent was handed to a table store)
          the ghost flags of the skeleton.
        → `err fen` / `err args` on malformed requests.
    gog <same arguments as go>  the same search, and ADDITIONALLY the same `Search.go` from the same engine state
                                with the GUARDED record `SearchReal.realCompGuarded K` (= `realCompG K Eval.shipped`,
                                Proofs/SearchRealGuardedEq.lean: null-move pruning only with `beta > -Inf+MaxPlies`).
                                The answer of `go` is followed by ` | nmpsane=1` when the two results agree in every
                                field of the answer (score, move, ponder, counters, flags, info lines, digest of
                                the state left behind) — the run-level hypothesis `NmpSane` of Props/C06real — and by
                                ` | nmpsane=0 <head and info lines of the guarded run>` otherwise.  The engine continues
                                from the UNGUARDED run (the one that corresponds to search.go).

    params <13 integers>        the spsa build: switch the engine to `SearchReal.realCompP K Eval.shipped P` (Model/SearchRealP.lean)
                                with `P` = NMPDiffFactor NMPDepthLimit NMPInit RFPDepthLimit RFPScoreFactor WindowSize LMRStart
                                StandPatDelta HistBonusMul HistBonusLin HistAdjRange HistAdjReduction IIRDepthLimit (the order of
                                the `tunables` table of params/spsa.go) — what a sequence of `params.Set` calls leaves in the
                                variables.  Persistent engine state is untouched (as in Go).                      → ok | err args
    spsa-table                  → the REGENERATED `tunables` table the theorems are about (`Gen.Search.spsaTunables`,
                                `spsaDefaults`), one `name:default:min:max` per row, comma separated, in source order — the
                                harness compares it with what the spsa binary prints (`params.UCIOptions()`).
    params default              back to `realComp K` (the constants of params/params.go; the initial state)        → ok
                                While a vector is set, `gog` answers like `go` (there is no guarded spsa record).

  digest = `%016x/gen%d/buckets%d` exactly as /repo/search/export_verif.go `VerifDigest` (+
  /repo/heur/export_verif.go): FNV-1a-64 over, per bucket, the 8 bytes of pKeys (little endian) and per
  entry move lo, move hi, value lo, value hi, packed, gen; then every cell of history, capture history,
  continuation[0], continuation[1] in array order, 2 bytes little endian each.

  Between two searches the driver replaces the PV buffer the search left behind (`Pv.Rows`, a function)
  by an extensionally equal table of its rows 0..65, so that the closure chain does not grow across
  searches.  The search itself is `Search.go (realComp K)` unchanged, with fuel 10^9.
-/
import ChessVerif.Model.SearchReal
import ChessVerif.Model.SearchRealG
import ChessVerif.Model.SearchRealP
import ChessVerif.Model.Fen

open ChessVerif

structure DS where
  keysArr : Array BB := #[]
  eng : Search.Engine SearchReal.PS := SearchReal.newEngine 1000
  /-- `some P`: the spsa build with the parameter vector `P`; `none`: the default build -/
  params : Option SearchReal.Params := none

def hexVal (c : Char) : Nat :=
  if '0' ≤ c ∧ c ≤ '9' then c.toNat - 48
  else if 'a' ≤ c ∧ c ≤ 'f' then c.toNat - 87
  else if 'A' ≤ c ∧ c ≤ 'F' then c.toNat - 55 else 0

def parseHex (s : String) : Nat := s.foldl (fun acc c => acc * 16 + hexVal c) 0

def mkKeys (a : Array BB) : Keys :=
  { piece := fun c p s => a.getD (c * 448 + p * 64 + s) 0,
    stm := a.getD 896 0,
    castling := fun i => a.getD (897 + i) 0,
    epFile := fun i => a.getD (901 + i) 0 }

/-! ### FNV-1a-64 digest -/

@[inline] def fnvByte (h : UInt64) (b : Nat) : UInt64 := (h ^^^ b.toUInt64) * 1099511628211

@[inline] def fnvU16 (h : UInt64) (v : Nat) : UInt64 := fnvByte (fnvByte h (v % 256)) ((v / 256) % 256)

@[inline] def fnvS16 (h : UInt64) (v : Int) : UInt64 := fnvU16 h (v % 65536).toNat

def fnvU64 (h : UInt64) (v : Nat) : UInt64 :=
  (List.range 8).foldl (fun h k => fnvByte h ((v >>> (8 * k)) % 256)) h

def fnvEntry (h : UInt64) (e : Model.Transp.Entry) : UInt64 :=
  let h := fnvU16 h e.move.toNat
  let h := fnvS16 h e.value
  fnvByte (fnvByte h e.packed.toNat) e.gen.toNat

def fnvBucket (h : UInt64) (b : Model.Transp.Bucket) : UInt64 :=
  fnvEntry (fnvEntry (fnvEntry (fnvEntry (fnvU64 h b.pKeys.toNat) b.e0) b.e1) b.e2) b.e3

def digest (ps : SearchReal.PS) : String :=
  let h : UInt64 := 14695981039346656037
  let h := ps.tt.foldl fnvBucket h
  let h := ps.ranker.hist.foldl fnvS16 h
  let h := ps.ranker.capt.foldl fnvS16 h
  let h := ps.ranker.cont0.foldl fnvS16 h
  let h := ps.ranker.cont1.foldl fnvS16 h
  s!"{hex64 (BitVec.ofNat 64 h.toNat)}/gen{ps.gen.toNat}/buckets{ps.tt.size}"

/-! ### requests -/

def parseInt (s : String) : Option Int := s.toInt?

/-- rows 0..65 of the PV buffer as a table (rows above 63 are never written). -/
def normPv (r : Pv.Rows) : Pv.Rows :=
  let a : Array (List Move) := (Array.range 66).map r.row
  { row := fun p => a.getD p [] }

def infoStr (i : Search.Info) : String :=
  s!"{i.depth}:{if i.full then 1 else 0}:{i.score}:{i.nodes}:{i.hashfull}:{String.intercalate "," (i.pv.map toString)}"

def bstr (x : Bool) : String := if x then "1" else "0"

/-- the ghost flags in one field: bit 0 = `anomaly`, bit 1 = `nmpOut` (the mate branch of null-move
    pruning returned a `beta` below `-Inf + ply`), bit 2 = a raw table value beyond `±Inf`, bit 3 = `ttOut`
    (a table store was handed a value beyond `±max(Inf-MaxPlies, Inf-ply)`). -/
def flagStr (anomaly nmpOut rawOut ttOut : Bool) : String :=
  toString ((if anomaly then 1 else 0) + (if nmpOut then 2 else 0) + (if rawOut then 4 else 0) + (if ttOut then 8 else 0))

/-- some entry of the table holds a raw value beyond `±Inf` (the negation of `TTValsOK`). -/
def rawBeyond (ps : SearchReal.PS) : Bool :=
  ps.tt.any fun bk => [bk.e0, bk.e1, bk.e2, bk.e3].any fun e => decide (e.value > 10000) || decide (e.value < -10000)

def fuel : Nat := 1000000000

structure GoArgs where
  fen : String
  moves : List Nat
  L : Search.Limits

def parseGo (ws : List String) : Option GoArgs :=
  match (String.intercalate " " ws).splitOn " | " with
  | [fen, mv, lim] =>
    match mv.splitOn " ", lim.splitOn " " with
    | "moves" :: ms, ["depth", d, "nodes", n, "softnodes", sn, "stop", st, "out", o, "ponder", pd] =>
      match parseInt d, parseInt n, parseInt sn with
      | some d, some n, some sn =>
        let stop : Option (Option Nat) := if st == "-" then some none else st.toNat?.map some
        let ponder : Option (Option Nat) := if pd == "-" then some none else pd.toNat?.map some
        match stop, ponder with
        | none, _ => none
        | _, none => none
        | some stop, some ponder =>
          let ms := (ms.filter (· ≠ "")).map String.toNat?
          if ms.any Option.isNone then none else
          some { fen := fen, moves := ms.map (·.getD 0),
                 L := { depth := d, nodes := n, softNodes := sn, softTime := 0, stop := stop, ponder := ponder, output := o == "1" } }
      | _, _, _ => none
    | _, _ => none
  | _ => none

/-- the head and the info lines of an answer. -/
def resultStr (r : Search.Result SearchReal.PS) : String :=
  let infos := if r.out.isEmpty then "-" else String.intercalate ";" (r.out.reverse.map infoStr)
  s!"{r.score} {r.move} {r.ponder} {r.st.nodes} {r.st.abNodes} {bstr r.st.fuelOut} {flagStr r.st.anomaly r.st.nmpOut (rawBeyond r.st.ps) r.st.ttOut} | {infos}"

def runGo (st : DS) (a : GoArgs) (guard : Bool) : DS × String :=
  let K := mkKeys st.keysArr
  match Fen.fromFEN K a.fen.toUTF8.data with
  | .ok b0 =>
    let b := a.moves.foldl (fun b m => (b.makeMove K m).1) b0
    let r := match st.params with
      | none => SearchReal.goReal K a.L fuel st.eng b
      | some P => SearchReal.goRealP K P a.L fuel st.eng b
    let e := r.engine
    let dg := digest e.ps
    -- the guarded run starts from the same engine state; only its verdict is kept
    let sane : String :=
      if guard && st.params.isNone then
        let g := SearchReal.goRealGuarded K a.L fuel st.eng b
        if resultStr g == resultStr r && digest g.engine.ps == dg then " | nmpsane=1"
        else s!" | nmpsane=0 {resultStr g}"
      else ""
    let ans := s!"{resultStr r} | {dg}{sane}"
    ({ st with eng := { e with pv := normPv e.pv } }, ans)
  | _ => (st, "err fen")

def step (st : DS) (line : String) : DS × String :=
  match line.splitOn " " with
  | "keys" :: rest => ({ st with keysArr := (rest.map fun s => BitVec.ofNat 64 (parseHex s)).toArray }, "ok")
  | ["new", n] =>
    match n.toNat? with
    | some n => ({ st with eng := SearchReal.newEngine n }, "ok")
    | none => (st, "err args")
  | ["clear"] => ({ st with eng := SearchReal.clearEngine st.eng }, "ok")
  | ["spsa-table"] =>
    (st, String.intercalate "," (Gen.Search.spsaTunables.map fun r =>
      s!"{r.2.1}:{(Gen.Search.spsaDefaults.lookup r.1).getD 0}:{r.2.2.1}:{r.2.2.2}"))
  | ["params", "default"] => ({ st with params := none }, "ok")
  | "params" :: vs =>
    let xs := (vs.filter (· ≠ "")).map String.toInt?
    if xs.any Option.isNone then (st, "err args") else
    match SearchReal.Params.ofList (xs.map (·.getD 0)) with
    | some P => ({ st with params := some P }, "ok")
    | none => (st, "err args")
  | ["digest"] => (st, digest st.eng.ps)
  | "go" :: rest =>
    match parseGo rest with
    | some a => runGo st a false
    | none => (st, "err args")
  | "gog" :: rest =>
    match parseGo rest with
    | some a => runGo st a true
    | none => (st, "err args")
  | _ => (st, "bad-op")

partial def loop (h out : IO.FS.Stream) (st : DS) : IO Unit := do
  let line ← h.getLine
  if line.isEmpty then return ()
  let (st', ans) := step st (line.takeWhile (fun c => c != '\n' && c != '\r')).toString
  out.putStrLn ans
  out.flush
  loop h out st'

def main : IO Unit := do loop (← IO.getStdin) (← IO.getStdout) {}
