/-
  Line-protocol driver for the TRANSLATED small functions of `Gen/Funcs.lean` (core-only).
  One request line → exactly one answer line.  Requests: `<function> <int args…>` (bools as 0/1),
  `const <name>`, `tab <table> <index>`.  Answers: decimal integers (bools as 0/1), `tc` answers
  `<timed> <soft> <hard>`; anything unparsable answers `err`.
  `goargs <stm 0|1> <Ponder option 0|1> <debug 0|1> <arg>*` runs the model of `handleGo`'s argument loop
  (`Model/UciGo.lean`) on the argument tokens (arbitrary strings without blanks) and answers
  `panic` | `missing` | `call depth=<d|-> nodes=<n|-> soft=<t|-> ponder=<0|1> debug=<0|1> stop=<0|1> out=<0|1>`.
-/
import ChessVerif.Gen.Funcs
import ChessVerif.Model.UciGo
open ChessVerif ChessVerif.Gen.Funcs

def b2s (b : Bool) : String := if b then "1" else "0"
def i2b (x : Int) : Bool := x != 0

def constVal (n : String) : Option Int :=
  [("MaxPlies", MaxPlies), ("Inf", Inf), ("Inv", Inv), ("White", White), ("Black", Black),
   ("TimeSafetyMargin", TimeSafetyMargin), ("PredictedMoves", PredictedMoves), ("TimeInf", TimeInf),
   ("k", k), ("HashMove", HashMove), ("Captures", Captures), ("CaptureRange", CaptureRange),
   ("MaxHistory", MaxHistory), ("PVNode", PVNode), ("CutNode", CutNode), ("AllNode", AllNode),
   ("params_HistAdjRange", params_HistAdjRange), ("params_HistAdjReduction", params_HistAdjReduction),
   ("params_HistBonusLin", params_HistBonusLin), ("params_HistBonusMul", params_HistBonusMul),
   ("params_IIRDepthLimit", params_IIRDepthLimit), ("params_LMRStart", params_LMRStart),
   ("params_NMPDepthLimit", params_NMPDepthLimit), ("params_NMPDiffFactor", params_NMPDiffFactor),
   ("params_NMPInit", params_NMPInit), ("params_RFPDepthLimit", params_RFPDepthLimit),
   ("params_RFPScoreFactor", params_RFPScoreFactor), ("params_StandPatDelta", params_StandPatDelta),
   ("params_WindowSize", params_WindowSize)].lookup n

def tabVal (n : String) (i : Int) : Option Int :=
  match n with
  | "PieceValues" => if 0 ≤ i ∧ i < PieceValues.length then some (tbl PieceValues i) else none
  | "log" => if 0 ≤ i ∧ i < logTbl.length then some (tbl logTbl i) else none
  | "PieceValues.len" => some PieceValues.length
  | "log.len" => some logTbl.length
  | _ => none

def callFn (cmd : String) (xs : List Int) : String :=
  match cmd, xs with
  | "clampS64", [x, a, b] => toString (clampS64 x a b)
  | "clampS16", [x, a, b] => toString (clampS16 x a b)
  | "clampS8", [x, a, b] => toString (clampS8 x a b)
  | "absS64", [x] => toString (absS64 x)
  | "absS16", [x] => toString (absS16 x)
  | "signumS64", [x] => toString (signumS64 x)
  | "signumS16", [x] => toString (signumS16 x)
  | "isMate", [s] => b2s (isMate s)
  | "tc", [w, b, wi, bi, mt, stm] =>
      b2s (timedMode w b mt stm) ++ " " ++ toString (softLimit w b wi bi mt stm) ++ " " ++
        toString (hardLimit w b wi bi mt stm)
  | "quality", [c, g, d] => toString (quality c g d)
  | "entryValue", [v, ply] => toString (entryValue v ply)
  | "histAdd", [h, bonus] => toString (histAdd h bonus)
  | "contAdd", [h, bonus] => toString (contAdd h bonus)
  | "captAdd", [h, bonus] => toString (captAdd h bonus)
  | "ipc", [wk, wn, wb, wr, wq, wp, bk, bn, bb, br, bq, bp] =>
      b2s (invalidPieceCount (i2b wk) wn wb wr wq wp (i2b bk) bn bb br bq bp)
  | "bufIx", [p] => toString (bufIx p)
  | "lmr", [d, m, imp, nt] => toString (lmr d m (i2b imp) nt)
  | "nextNodeType", [n, c] => toString (nextNodeType n c)
  | _, _ => "err"

def answer (line : String) : String :=
  match (line.splitOn " ").filter (· ≠ "") with
  | [] => "err"
  | ["const", n] => match constVal n with | some v => toString v | none => "err"
  | ["tab", n, i] =>
      match i.toInt? with
      | some iv => (match tabVal n iv with | some v => toString v | none => "err")
      | none => "err"
  | "goargs" :: stm :: p :: d :: args =>
      match stm.toInt?, p.toInt?, d.toInt? with
      | some stm, some p, some d => (UciGo.handleGo stm (i2b p) (i2b d) args).render
      | _, _, _ => "err"
  | cmd :: args =>
      match args.mapM String.toInt? with
      | some xs => callFn cmd xs
      | none => "err"

partial def loop (h : IO.FS.Stream) (out : IO.FS.Stream) : IO Unit := do
  let line ← h.getLine
  if line.isEmpty then return ()
  out.putStrLn (answer (String.ofList (line.toList.filter (fun c => c != '\n' && c != '\r'))))
  out.flush
  loop h out

def main : IO Unit := do loop (← IO.getStdin) (← IO.getStdout)
