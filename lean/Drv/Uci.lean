/-
  drv_uci — trace acceptor for C13.

  Request line:  `mock|real` followed by the recorded events of one driver session, in order:
     i:isready i:goPT (P,T ∈ {0,1}: ponder, timed) i:stop i:ponderhit i:quit i:other<ws> (ws ∈ {0,1}*)
     eof  o:readyok o:info o:bestmove o:other  ret  sdone sstop (mock only)
  Answer line:   `accept states=<max set size> props=<ok|name of the violated trace property>`
              or `reject at=<index> ev=<token> props=…`
  Acceptance is decided by state-set simulation of `ChessVerif.Uci.fire` (closure under invisible
  transitions, ghost history erased).  `props` are the four trace properties checked directly on
  the event list, independently of the transition system.
-/
import ChessVerif.Spec.UciProtocol
import Std.Data.HashSet

open ChessVerif.Uci

def eraseGhost (s : State) : State := { s with log := [], written := [], consumed := [] }

abbrev SSet := Std.HashSet State

/-- Successors of `s`: (label or none, erased successor). -/
def succs (mock : Bool) (s : State) : List (Option Obs × State) :=
  Tr.all.filterMap fun t =>
    match fire t s with
    | some s' => some (obsOf mock t s, eraseGhost s')
    | none => none

/-- Closure under invisible transitions (worklist; `fuel` only bounds the loop syntactically). -/
def closure (mock : Bool) : Nat → List State → SSet → SSet
  | 0, _, seen => seen
  | _, [], seen => seen
  | fuel+1, s :: work, seen =>
    let (work, seen) := (succs mock s).foldl (init := (work, seen)) fun (w, sn) (o, s') =>
      if o.isNone && !sn.contains s' then (s' :: w, sn.insert s') else (w, sn)
    closure mock fuel work seen

def closeSet (mock : Bool) (ss : List State) : SSet :=
  closure mock 10000000 ss (Std.HashSet.ofList ss)

def stepObs (mock : Bool) (S : SSet) (o : Obs) : SSet :=
  let nxt := S.fold (init := (∅ : SSet)) fun acc s =>
    (succs mock s).foldl (init := acc) fun acc (l, s') => if l = some o then acc.insert s' else acc
  closeSet mock nxt.toList

def parseBits (s : String) : Option (List Bool) :=
  s.toList.mapM fun c => if c = '1' then some true else if c = '0' then some false else none

def parseTok (t : String) : Option Obs :=
  if t = "eof" then some .eof
  else if t = "ret" then some .ret
  else if t = "sdone" then some .sdone
  else if t = "sstop" then some .sstop
  else if t = "o:readyok" then some (.out .readyok)
  else if t = "o:info" then some (.out .info)
  else if t = "o:bestmove" then some (.out .bestmove)
  else if t = "o:other" then some (.out .other)
  else if t = "i:isready" then some (.inp .isready)
  else if t = "i:stop" then some (.inp .stop)
  else if t = "i:ponderhit" then some (.inp .ponderhit)
  else if t = "i:quit" then some (.inp .quit)
  else if t.startsWith "i:go" then
    match (parseBits (t.drop 4).toString) with
    | some [p, tm] => some (.inp (.go p tm))
    | _ => none
  else if t.startsWith "i:other" then (parseBits (t.drop 7).toString).map fun ws => .inp (.other ws)
  else none

/-- The four trace properties, checked on the event list alone.
    State: busy (a `go` was written and its `bestmove` not yet seen), #isready − #readyok. -/
def traceProps (tr : List Obs) : String :=
  let rec go (busy : Bool) (pendReady : Nat) (ended : Bool) (fin : Bool) : List Obs → String
    | [] => "ok"
    | o :: rest =>
      if fin then "event_after_return" else
      match o with
      | .inp (.go _ _) => if busy then "go_while_busy(harness)" else go true pendReady ended fin rest
      | .inp .isready => go busy (pendReady + 1) ended fin rest
      | .inp .quit => go busy pendReady true fin rest
      | .inp _ => go busy pendReady ended fin rest
      | .eof => go busy pendReady true fin rest
      | .out .bestmove => if busy then go false pendReady ended fin rest else "bestmove_without_go"
      | .out .info => if busy then go busy pendReady ended fin rest else "info_outside_search"
      | .out .readyok =>
        if pendReady = 0 then "readyok_without_isready" else go busy (pendReady - 1) ended fin rest
      | .out _ => go busy pendReady ended fin rest
      | .sdone | .sstop => go busy pendReady ended fin rest
      | .ret =>
        if !ended then "return_without_quit_or_eof"
        else if busy then "go_unanswered_at_return"
        else if pendReady ≠ 0 then "isready_unanswered_at_return"
        else go busy pendReady ended true rest
  go false 0 false false tr

def answer (line : String) : String :=
  let toks := (line.splitOn " ").filter (· ≠ "")
  match toks with
  | [] => "error empty"
  | mode :: evs =>
    if mode ≠ "mock" ∧ mode ≠ "real" then "error mode" else
    let mock := mode = "mock"
    match evs.mapM parseTok with
    | none => "error token"
    | some tr =>
      let script := tr.filterMap fun | .inp c => some c | _ => none
      let props := traceProps tr
      let rec run (S : SSet) (mx : Nat) (i : Nat) : List (Obs × String) → String
        | [] => s!"accept states={mx} props={props}"
        | (o, tok) :: rest =>
          let S' := stepObs mock S o
          if S'.isEmpty then s!"reject at={i} ev={tok} props={props}"
          else if S'.any (·.panic) then s!"reject at={i} ev={tok} model-panic props={props}"
          else run S' (max mx S'.size) (i + 1) rest
      let S0 := closeSet mock [eraseGhost (init script)]
      run S0 S0.size 0 (tr.zip evs)

partial def loop (h : IO.FS.Stream) (out : IO.FS.Stream) : IO Unit := do
  let line ← h.getLine
  if line.isEmpty then return ()
  out.putStrLn (answer (line.trimAscii.toString))
  out.flush
  loop h out

def main : IO Unit := do loop (← IO.getStdin) (← IO.getStdout)
