/-
  Line-protocol driver for property C12 (core Lean only): evaluates the executable model
  (ChessVerif.Attacks) and the independent geometric spec (ChessVerif.Geometry) on the same inputs.

  One request line → exactly one answer line  `<model values> | <spec values>`  (16-digit hex, space
  separated).  Requests:
    king                 kingMoves sq          | kingSet sq               for sq = 0..63
    knight               knightMoves sq        | knightSet sq             for sq = 0..63
    ib <a>               inBetween a b (raw)   | strictlyBetween a b      for b = 0..63
    al <a>               (nothing)             | aligned a b as 0/1       for b = 0..63
    pc <c> <bb>…         pawnCaptureMoves bb c | pawnCaptureSet bb c      (c = 0 white, 1 black)
    pp <c> <bb>…         pawnSinglePushMoves   | pawnPushSet
    b <sq> <occ>…        bishopMoves sq occ    | bishopRay occ sq
    r <sq> <occ>…        rookMoves sq occ      | rookRay occ sq
  Anything else → `err`.
-/
import ChessVerif.Model.Attacks
import ChessVerif.Spec.Geometry

open ChessVerif

def hexDigit (c : Char) : Option Nat :=
  if '0' ≤ c && c ≤ '9' then some (c.toNat - '0'.toNat)
  else if 'a' ≤ c && c ≤ 'f' then some (c.toNat - 'a'.toNat + 10)
  else if 'A' ≤ c && c ≤ 'F' then some (c.toNat - 'A'.toNat + 10)
  else none

def parseHex (s : String) : Option BB :=
  if s.isEmpty || s.length > 16 then none
  else (s.toList.foldlM (fun acc c => (hexDigit c).map (fun d => acc * 16 + d)) 0).map (BitVec.ofNat 64)

def parseHexes (ws : List String) : Option (List BB) := ws.mapM parseHex

def render (ms ss : List BB) : String :=
  " ".intercalate (ms.map hex64) ++ " | " ++ " ".intercalate (ss.map hex64)

def parseColor (s : String) : Option Color :=
  if s == "0" then some .white else if s == "1" then some .black else none

def parseSq (s : String) : Option Nat :=
  match s.toNat? with
  | some n => if n < 64 then some n else none
  | none => none

def answer (line : String) : String :=
  let ws := (line.splitOn " ").filter (· ≠ "")
  let sqs := List.range 64
  match ws with
  | ["king"] => render (sqs.map Attacks.kingMoves) (sqs.map Geometry.kingSet)
  | ["knight"] => render (sqs.map Attacks.knightMoves) (sqs.map Geometry.knightSet)
  | ["ib", a] =>
    match parseSq a with
    | some a => render (sqs.map (Attacks.inBetween a)) (sqs.map (Geometry.strictlyBetween a))
    | none => "err"
  | ["al", a] =>
    match parseSq a with
    | some a => render [] (sqs.map fun b => if Geometry.aligned a b then 1 else 0)
    | none => "err"
  | "pc" :: c :: bbs =>
    match parseColor c, parseHexes bbs with
    | some c, some bbs => render (bbs.map (Attacks.pawnCaptureMoves · c)) (bbs.map (Geometry.pawnCaptureSet · c))
    | _, _ => "err"
  | "pp" :: c :: bbs =>
    match parseColor c, parseHexes bbs with
    | some c, some bbs => render (bbs.map (Attacks.pawnSinglePushMoves · c)) (bbs.map (Geometry.pawnPushSet · c))
    | _, _ => "err"
  | "b" :: sq :: occs =>
    match parseSq sq, parseHexes occs with
    | some sq, some occs => render (occs.map (Attacks.bishopMoves sq)) (occs.map (Geometry.bishopRay · sq))
    | _, _ => "err"
  | "r" :: sq :: occs =>
    match parseSq sq, parseHexes occs with
    | some sq, some occs => render (occs.map (Attacks.rookMoves sq)) (occs.map (Geometry.rookRay · sq))
    | _, _ => "err"
  | _ => "err"

partial def loop (h : IO.FS.Stream) (out : IO.FS.Stream) : IO Unit := do
  let line ← h.getLine
  if line.isEmpty then return ()
  out.putStrLn (answer (line.trimAscii.toString))
  out.flush
  loop h out

def main : IO Unit := do loop (← IO.getStdin) (← IO.getStdout)
