/-
  Line-protocol driver of the move-ordering models: SEE (model + minimax spec), the history stores
  (`FailHigh`, `RankNoisy`, `RankQuiet`, the history stack) and the staged move picker.
  One request line in, exactly one answer line out.  Core-only.

    fen <FEN>                      -> ok | err | panic          (position of all later requests)
    valid                          -> 2 bits: Board.valid, Rules.epNormal
    see <m> <t1,t2,…>              -> <bits of Model.See.see per threshold> <Spec.seeValue> <model caps> <spec caps>
    new | clear                    -> ok                        (NewMoveRanker() | Clear())
    stack <piece:to:score,…|->     -> ok                        (history stack, TOP FIRST)
    fh <n> <d> <m:w,m:w,…>         -> ok                        (n × FailHigh(d, board, moves, stack))
    rank <m>                       -> <RankNoisy> <RankQuiet>
    pick <hm>                      -> m:w,m:w,…                 (yielded entries in order)
    pickx <hm>                     -> m:w,…|<bit>|m:w,…         (bit: the Next after the last yield returns false;
                                                                 then YieldedMoves(): the frame prefix with its FINAL weights)
    gen                            -> noisy|quiet
-/
import ChessVerif.Model.Board
import ChessVerif.Model.MoveGen
import ChessVerif.Model.Fen
import ChessVerif.Model.Abs
import ChessVerif.Model.See
import ChessVerif.Model.Heur
import ChessVerif.Model.Picker
import ChessVerif.Spec.SeeMinimax

open ChessVerif

structure DS where
  board : Board := Board.empty
  ranker : Heur.Ranker := Heur.Ranker.new
  stack : Heur.HStack := []

def bstr (x : Bool) : String := if x then "1" else "0"

def parseInt (s : String) : Int := s.toInt?.getD 0

def capStr : SeeSpec.Cap → String
  | .piece v => s!"p{v}"
  | .king ok => s!"k{bstr ok}"

def capsStr (l : List SeeSpec.Cap) : String :=
  if l.isEmpty then "-" else String.intercalate "," (l.map capStr)

def parsePairs (s : String) : List (Nat × Int) :=
  if s == "-" || s == "" then [] else
  (s.splitOn ",").map fun p =>
    match p.splitOn ":" with
    | [m, w] => (m.toNat!, parseInt w)
    | _ => (0, 0)

def parseStack (s : String) : Heur.HStack :=
  if s == "-" || s == "" then [] else
  (s.splitOn ",").map fun p =>
    match p.splitOn ":" with
    | [pc, to, sc] => { piece := pc.toNat!, to := to.toNat!, score := parseInt sc }
    | _ => { piece := 1, to := 0, score := 0 }

def wmStr (l : List Picker.WMove) : String :=
  String.intercalate "," (l.map fun w => s!"{w.move}:{w.weight}")

def movesStr (ms : List Move) : String := String.intercalate "," (ms.map toString)

def repeatFH (r : Heur.Ranker) (d : Int) (b : Board) (ms : List (Nat × Int)) (st : Heur.HStack) : Nat → Heur.Ranker
  | 0 => r
  | n + 1 => repeatFH (Heur.failHigh r d b ms st) d b ms st n

def step (st : DS) (line : String) : DS × String :=
  let b := st.board
  match line.splitOn " " with
  | "fen" :: rest =>
    match Fen.fromFEN Board.zeroKeys (String.intercalate " " rest).toUTF8.data with
    | .ok nb => ({ st with board := nb }, "ok")
    | .err => (st, "err")
    | .panic => (st, "panic")
  | ["valid"] => (st, bstr b.valid ++ bstr (Rules.epNormal b.abs))
  | ["see", m, thrs] =>
    let m := m.toNat!
    let bits := String.join ((thrs.splitOn ",").map fun t => bstr (See.see b m (parseInt t)))
    (st, s!"{bits} {SeeSpec.seeValue b m} {capsStr (See.capsOf b m)} {capsStr (SeeSpec.capsOf b m)}")
  | ["new"] => ({ st with ranker := Heur.Ranker.new }, "ok")
  | ["clear"] => ({ st with ranker := st.ranker.clear }, "ok")
  | ["stack", s] => ({ st with stack := parseStack s }, "ok")
  | ["fh", n, d, ms] =>
    ({ st with ranker := repeatFH st.ranker (parseInt d) b (parsePairs ms) st.stack n.toNat! }, "ok")
  | ["rank", m] =>
    (st, s!"{Heur.rankNoisy st.ranker b m.toNat!} {Heur.rankQuiet st.ranker b st.stack m.toNat!}")
  | ["pick", hm] =>
    let hm := hm.toNat!
    (st, wmStr (Picker.yieldedW b hm (Picker.rankOf st.ranker b st.stack)))
  | ["pickx", hm] =>   -- also: does the call after the last yield return false (exhaustion)?
    let hm := hm.toNat!
    let rk := Picker.rankOf st.ranker b st.stack
    let fin := Picker.runState b hm rk Picker.fuel Picker.init
    (st, s!"{wmStr (Picker.yieldedW b hm rk)}|{bstr (!(Picker.next b hm rk fin).1)}|{wmStr fin.done}")
  | ["gen"] => (st, movesStr (MoveGen.genNoisy b) ++ "|" ++ movesStr (MoveGen.genNotNoisy b))
  | _ => (st, "bad-op")

partial def loop (h out : IO.FS.Stream) (st : DS) : IO Unit := do
  let line ← h.getLine
  if line.isEmpty then return ()
  let (st', ans) := step st (line.takeWhile (fun c => c != '\n' && c != '\r')).toString
  out.putStrLn ans
  out.flush
  loop h out st'

def main : IO Unit := do loop (← IO.getStdin) (← IO.getStdout) {}
