/-
  Line-protocol driver of the UCI `position` model (Model/UciPosition.lean).  Core-only.

    keys <hex>…          hand over the real Zobrist tables                         → ok
    reset                a fresh driver: current board = StartPos()                → ok
    pos <hex> <hex> …    `handlePosition` on the byte-string arguments (each argument hex-encoded;
                         `pos` alone = no arguments)                               → FEN of the board
    three                `Threefold()` of the current board                        → n
    umv <hex>            `parseUCIMove` on the current board                       → move word | err
-/
import ChessVerif.Model.UciPosition

open ChessVerif

structure DS where
  keysArr : Array BB := #[]
  board : Board := Board.empty

def hexVal (c : Char) : Nat :=
  if '0' ≤ c ∧ c ≤ '9' then c.toNat - 48
  else if 'a' ≤ c ∧ c ≤ 'f' then c.toNat - 87
  else if 'A' ≤ c ∧ c ≤ 'F' then c.toNat - 55 else 0

def parseHex (s : String) : Nat := s.foldl (fun acc c => acc * 16 + hexVal c) 0

def mkKeys (a : Array BB) : Keys :=
  { piece := fun c p s => a.getD (c * 448 + p * 64 + s) 0,
    stm := a.getD 896 0,
    castling := fun i => a.getD (897 + i) 0,
    epFile := fun i => a.getD (901 + i) 0 }

def hexBytes (s : String) : Array UInt8 :=
  let cs := s.toList.toArray
  (Array.range (cs.size / 2)).map fun i => UInt8.ofNat (hexVal cs[2*i]! * 16 + hexVal cs[2*i+1]!)

def step (st : DS) (line : String) : DS × String :=
  let K := mkKeys st.keysArr
  match line.splitOn " " with
  | "keys" :: rest => ({ st with keysArr := (rest.map fun s => BitVec.ofNat 64 (parseHex s)).toArray }, "ok")
  | ["reset"] => ({ st with board := UciPosition.startPos K }, "ok")
  | "pos" :: rest =>
    let nb := UciPosition.handlePosition K st.board (rest.map hexBytes)
    ({ st with board := nb }, Fen.printFEN nb)
  | ["three"] => (st, toString st.board.threefold)
  | ["umv", h] =>
    (st, match UciPosition.parseUCIMove st.board (hexBytes h) with
         | some m => toString m
         | none => "err")
  | _ => (st, "bad-op")

partial def loop (h out : IO.FS.Stream) (st : DS) : IO Unit := do
  let line ← h.getLine
  if line.isEmpty then return ()
  let (st', ans) := step st (line.dropRightWhile (fun c => c == '\n' || c == '\r'))
  out.putStrLn ans
  out.flush
  loop h out st'

def main : IO Unit := do loop (← IO.getStdin) (← IO.getStdout) {}
