/- Line-protocol driver stub: answers every request line with "unimplemented". -/
partial def loop (h : IO.FS.Stream) (out : IO.FS.Stream) : IO Unit := do
  let line ← h.getLine
  if line.isEmpty then return ()
  out.putStrLn "unimplemented"
  out.flush
  loop h out

def main : IO Unit := do loop (← IO.getStdin) (← IO.getStdout)
